import PydjinniModel.Props.C03Parse
/-!
# C03 — parse ∘ print = id for whole declarations, namespaces and files (modulo positions)

`C03Parse` proves the round trip for the data-type sub-language and for record fields. This file
lifts it to every declaration kind of `Idl.g4`, to nested namespaces and to whole files.

* *shapes* (`ItemShape` … `DeclShape`, `ContentShape`, `FileShape`) mirror the AST of `Front/Ast.lean`
  without positions; `Decl.shape?` … `File.shape?` read the shape back from the AST
  (`Option`: a type reference that is an inline function type has no `TyShape`);
* *printers* (`printEnum`, `printFlags`, `printRecord`, `printInterface`, `printFunction`,
  `printErrorDomain`, `printDecl`, `printContent`, `printFile`) produce token *kinds*;
  tokens carry arbitrary positions: hypotheses only constrain the `.tk` projection;
* type references inside declarations range over the data types of `C03Parse` (`TyShape`); inline
  function types as parameter/field/return types are not covered (the grammar is ambiguous there:
  `() throws () -> r` has two readings and the printed form of one of them parses as the other).

Main theorems (section "Main theorems" at the end of the file):

print, then parse (every shape, any member count / nesting depth, any positions, any `rest`):
* `decl_roundtrip`            all six declaration kinds at once; instances `enum_roundtrip`, `flags_roundtrip`,
                              `record_roundtrip`, `interface_roundtrip`, `function_roundtrip`, `errorDomain_roundtrip`
                              (side conditions: `fuel ≥` number of printed tokens; `DeclFollowOK`, i.e. a record
                              without `deriving` is not followed by the token `deriving`)
* `method_roundtrip`, `property_roundtrip`, `errCode_roundtrip`   members on their own
* `content_roundtrip`         declarations and (nested) `namespace a.b { … }` blocks
* `file_roundtrip`, `text_roundtrip`   `parseFile` / `parseText` on `@import`/`@extern` lines + contents; no side condition
* `printFile_injective`       equal printings ⇒ equal erased shapes
parse, then print (every input, every fuel):
* `enum_sound_prefix`, `flags_sound_prefix`, `record_sound`   the input is `pre ++ rest` with `rest` the returned
                              remainder and `pre` exactly a printing of the result's shape; `enum_sound`, `flags_sound`
                              the same on token kinds
* `enum_parse_iff_print`, `flags_parse_iff_print`   both directions as an equivalence
Non-vacuity: `exIface_lex`, `exSmall_lex` and the examples after them run the real `lex` (kernel `decide`);
the `#guard`s repeat this on a larger file (tests, evaluated by the compiler).
-/
set_option linter.unusedSimpArgs false

namespace Pydjinni.Front

/-! ## generic helpers -/

/-- `mapM` for `Option`, written out so that it unfolds by `simp` -/
def mapOpt {α β : Type} (f : α → Option β) : List α → Option (List β)
  | [] => some []
  | a :: as => match f a, mapOpt f as with
    | some x, some xs => some (x :: xs)
    | _, _ => none

theorem mapOpt_cons_some {α β : Type} {f : α → Option β} {a : α} {as : List α} {x : β} {xs : List β}
    (h1 : f a = some x) (h2 : mapOpt f as = some xs) : mapOpt f (a :: as) = some (x :: xs) := by
  simp [mapOpt, h1, h2]

theorem mapOpt_cons_inv {α β : Type} {f : α → Option β} {a : α} {as : List α} {l : List β}
    (h : mapOpt f (a :: as) = some l) : ∃ x xs, l = x :: xs ∧ f a = some x ∧ mapOpt f as = some xs := by
  simp only [mapOpt] at h
  split at h
  · next x xs h1 h2 => simp at h; exact ⟨x, xs, h.symm, h1, h2⟩
  · simp at h

theorem mapOpt_total {α β : Type} (f : α → β) (l : List α) : mapOpt (fun a => some (f a)) l = some (l.map f) := by
  induction l with
  | nil => rfl
  | cons a as ih => simp [mapOpt, ih]

theorem shapesOf_eq_mapOpt (l : List TypeRef) : shapesOf l = mapOpt shapeOf l := by
  induction l with
  | nil => simp [shapesOf, mapOpt]
  | cons a as ih =>
    simp only [shapesOf, mapOpt, ih]
    cases shapeOf a <;> cases mapOpt shapeOf as <;> rfl

theorem eraseArgs_eq_map (l : List TyShape) : eraseArgs l = l.map TyShape.erase := by
  induction l with
  | nil => simp [eraseArgs]
  | cons a as ih => simp [eraseArgs, ih]

theorem erase_idem : ∀ s : TyShape, s.erase.erase = s.erase := by
  intro s
  refine TyShape.rec (motive_1 := fun s => s.erase.erase = s.erase)
    (motive_2 := fun l => eraseArgs (eraseArgs l) = eraseArgs l) ?_ ?_ ?_ s
  · intro n d args o ih; simp [TyShape.erase, ih]
  · simp [eraseArgs]
  · intro a as iha ihas; simp [eraseArgs, iha, ihas]

theorem need_pos (s : TyShape) : 1 ≤ s.need := by
  cases s with
  | mk n d args o => cases args <;> simp [TyShape.need] <;> omega

theorem need_le_length (s : TyShape) (pre : List Token) (hp : pre.map (·.tk) = printTy s) :
    s.need ≤ pre.length := by
  have h1 := need_le_size s
  have h2 := size_le_length s
  rw [← hp, List.length_map] at h2
  omega

/-! ## shapes -/

structure ItemShape where
  name : String
  comment : List String
deriving Repr, DecidableEq

structure FlagItemShape where
  name : String
  modifier : Option String
  comment : List String
deriving Repr, DecidableEq

structure FieldShape where
  name : String
  ty : TyShape
  comment : List String
deriving Repr, DecidableEq

structure ParamShape where
  name : String
  ty : TyShape
deriving Repr, DecidableEq

/-- the part of a method / named function after the name: `( params ) throws … -> ret` -/
structure SigShape where
  params : List ParamShape
  throwing : Option (List TyShape)
  ret : Option TyShape
deriving Repr, DecidableEq

structure MethodShape where
  name : String
  isStatic : Bool
  isConst : Bool
  isAsync : Bool
  sig : SigShape
  comment : List String
deriving Repr, DecidableEq

structure PropShape where
  name : String
  ty : TyShape
  comment : List String
deriving Repr, DecidableEq

inductive MemberShape
  | m (x : MethodShape)
  | p (x : PropShape)
deriving Repr, DecidableEq

structure ErrCodeShape where
  name : String
  params : List ParamShape
  comment : List String
deriving Repr, DecidableEq

inductive DeclShape
  | enum (name : String) (comment : List String) (items : List ItemShape)
  | flags (name : String) (comment : List String) (items : List FlagItemShape)
  | record (name : String) (comment : List String) (targets : List String) (fields : List FieldShape)
      (deriving' : Option (List String))
  | interface (name : String) (comment : List String) (main : Bool) (targets : List String)
      (members : List MemberShape)
  /-- `fnTargets = some l` : written `function l… ( … )`; `none` : written `( … )` -/
  | function (name : String) (comment : List String) (fnTargets : Option (List String)) (sig : SigShape)
  | error (name : String) (comment : List String) (codes : List ErrCodeShape)
deriving Repr, DecidableEq

inductive ContentShape
  | decl (d : DeclShape)
  | ns (name : String) (dotted : Bool) (comment : List String) (children : List ContentShape)
deriving Repr

structure LoadShape where
  isImport : Bool
  lit : String
deriving Repr, DecidableEq

structure FileShape where
  loads : List LoadShape
  contents : List ContentShape
deriving Repr

mutual
def ContentShape.decEq : (a b : ContentShape) → Decidable (a = b)
  | .decl d, .decl d' =>
    if h : d = d' then isTrue (by rw [h]) else isFalse (by intro e; cases e; exact h rfl)
  | .decl _, .ns _ _ _ _ => isFalse (by intro e; cases e)
  | .ns _ _ _ _, .decl _ => isFalse (by intro e; cases e)
  | .ns n d c cs, .ns n' d' c' cs' =>
    if h1 : n = n' then
      if h2 : d = d' then
        if h3 : c = c' then
          match decEqContents cs cs' with
          | isTrue h4 => isTrue (by rw [h1, h2, h3, h4])
          | isFalse h4 => isFalse (by intro e; cases e; exact h4 rfl)
        else isFalse (by intro e; cases e; exact h3 rfl)
      else isFalse (by intro e; cases e; exact h2 rfl)
    else isFalse (by intro e; cases e; exact h1 rfl)
def decEqContents : (a b : List ContentShape) → Decidable (a = b)
  | [], [] => isTrue rfl
  | [], _ :: _ => isFalse (by intro h; cases h)
  | _ :: _, [] => isFalse (by intro h; cases h)
  | a :: as, b :: bs =>
    match ContentShape.decEq a b with
    | isTrue h1 =>
      match decEqContents as bs with
      | isTrue h2 => isTrue (by rw [h1, h2])
      | isFalse h2 => isFalse (by intro h; cases h; exact h2 rfl)
    | isFalse h1 => isFalse (by intro h; cases h; exact h1 rfl)
end
instance : DecidableEq ContentShape := ContentShape.decEq
deriving instance DecidableEq for FileShape

/-! ### erasing what the AST does not record (`dotted`; the interleaving of methods and properties) -/

def FieldShape.erase (f : FieldShape) : FieldShape := { f with ty := f.ty.erase }
def ParamShape.erase (p : ParamShape) : ParamShape := { p with ty := p.ty.erase }
def SigShape.erase (s : SigShape) : SigShape :=
  { params := s.params.map ParamShape.erase,
    throwing := s.throwing.map (fun l => l.map TyShape.erase),
    ret := s.ret.map TyShape.erase }
def MethodShape.erase (m : MethodShape) : MethodShape := { m with sig := m.sig.erase }
def PropShape.erase (p : PropShape) : PropShape := { p with ty := p.ty.erase }
def MemberShape.erase : MemberShape → MemberShape
  | .m x => .m x.erase
  | .p x => .p x.erase
def ErrCodeShape.erase (e : ErrCodeShape) : ErrCodeShape := { e with params := e.params.map ParamShape.erase }

def MemberShape.method? : MemberShape → Option MethodShape
  | .m x => some x
  | .p _ => none
def MemberShape.prop? : MemberShape → Option PropShape
  | .p x => some x
  | .m _ => none

/-- all methods first, then all properties (each in source order): this is what the AST keeps -/
def sortMembers (ms : List MemberShape) : List MemberShape :=
  (ms.filterMap MemberShape.method?).map .m ++ (ms.filterMap MemberShape.prop?).map .p

def DeclShape.erase : DeclShape → DeclShape
  | .enum n c is => .enum n c is
  | .flags n c is => .flags n c is
  | .record n c t fs d => .record n c t (fs.map FieldShape.erase) d
  | .interface n c mn t ms => .interface n c mn t (sortMembers (ms.map MemberShape.erase))
  | .function n c t s => .function n c t s.erase
  | .error n c cs => .error n c (cs.map ErrCodeShape.erase)

mutual
def ContentShape.erase : ContentShape → ContentShape
  | .decl d => .decl d.erase
  | .ns n _ c cs => .ns n false c (eraseContents cs)
def eraseContents : List ContentShape → List ContentShape
  | [] => []
  | a :: as => a.erase :: eraseContents as
end

def FileShape.erase (f : FileShape) : FileShape := { f with contents := eraseContents f.contents }

/-! ### reading the shape back from the AST -/

def Item.shape (i : Item) : ItemShape := { name := i.name, comment := i.comment }
def FlagItem.shape (i : FlagItem) : FlagItemShape := { name := i.name, modifier := i.modifier, comment := i.comment }
def Field.shape? (f : Field) : Option FieldShape :=
  (shapeOf f.ty).map fun t => { name := f.name, ty := t, comment := f.comment }
def Param.shape? : Param → Option ParamShape
  | .mk n t _ => (shapeOf t).map fun t => { name := n, ty := t }
def throwingShape? : Option (List TypeRef) → Option (Option (List TyShape))
  | none => some none
  | some l => (mapOpt shapeOf l).map some
def retShape? : Option TypeRef → Option (Option TyShape)
  | none => some none
  | some t => (shapeOf t).map some
def sigShape? (ps : List Param) (thr : Option (List TypeRef)) (ret : Option TypeRef) : Option SigShape :=
  match mapOpt Param.shape? ps, throwingShape? thr, retShape? ret with
  | some ps, some thr, some ret => some { params := ps, throwing := thr, ret := ret }
  | _, _, _ => none
def Method.shape? (m : Method) : Option MethodShape :=
  (sigShape? m.params m.throwing m.ret).map fun s =>
    { name := m.name, isStatic := m.isStatic, isConst := m.isConst, isAsync := m.isAsync, sig := s, comment := m.comment }
def Prop'.shape? (p : Prop') : Option PropShape :=
  (shapeOf p.ty).map fun t => { name := p.name, ty := t, comment := p.comment }
def Member.shape? : Member → Option MemberShape
  | .m x => x.shape?.map .m
  | .p x => x.shape?.map .p
def ErrCode.shape? (e : ErrCode) : Option ErrCodeShape :=
  (mapOpt Param.shape? e.params).map fun ps => { name := e.name, params := ps, comment := e.comment }

def Decl.shape? : Decl → Option DeclShape
  | .enum n c is _ => some (.enum n c (is.map Item.shape))
  | .flags n c is _ => some (.flags n c (is.map FlagItem.shape))
  | .record n c t _ fs d _ => (mapOpt Field.shape? fs).map fun fs => .record n c t fs (d.map (fun l => l.map (·.1)))
  | .interface n c mn t _ ms ps _ =>
    match mapOpt Method.shape? ms, mapOpt Prop'.shape? ps with
    | some ms, some ps => some (.interface n c mn t (ms.map .m ++ ps.map .p))
    | _, _ => none
  | .function n c (.mk fl _ ps thr ret) _ => (sigShape? ps thr ret).map fun s => .function n c fl s
  | .error n c cs _ => (mapOpt ErrCode.shape? cs).map fun cs => .error n c cs

mutual
def Content.shape? : Content → Option ContentShape
  | .decl d => d.shape?.map .decl
  | .ns n c cs _ => (contentsShape? cs).map fun cs => .ns n false c cs
def contentsShape? : List Content → Option (List ContentShape)
  | [] => some []
  | a :: as => match a.shape?, contentsShape? as with
    | some x, some xs => some (x :: xs)
    | _, _ => none
end

def LoadAt.shape (l : LoadAt) : LoadShape := { isImport := l.isImport, lit := l.lit }

def File.shape? (f : File) : Option FileShape :=
  (contentsShape? f.contents).map fun cs => { loads := f.loads.map LoadAt.shape, contents := cs }

/-! ## printers -/

def printComments (c : List String) : List Tk := c.map Tk.comment
def printTargets (l : List String) : List Tk := l.map Tk.target

def printItem (i : ItemShape) : List Tk := printComments i.comment ++ [Tk.id i.name, Tk.kw ";"]

def printModifier : Option String → List Tk
  | none => []
  | some m => [Tk.kw "=", Tk.id m]

def printFlagItem (i : FlagItemShape) : List Tk :=
  printComments i.comment ++ Tk.id i.name :: (printModifier i.modifier ++ [Tk.kw ";"])

def printField (f : FieldShape) : List Tk :=
  printComments f.comment ++ Tk.id f.name :: Tk.kw ":" :: (printTy f.ty ++ [Tk.kw ";"])

def printParam (p : ParamShape) : List Tk := Tk.id p.name :: Tk.kw ":" :: printTy p.ty

/-- `p₁ , p₂ , … , pₙ` -/
def printParams : List ParamShape → List Tk
  | [] => []
  | [p] => printParam p
  | p :: q :: ps => printParam p ++ Tk.kw "," :: printParams (q :: ps)

/-- `T₁ , T₂ , … , Tₙ` -/
def printTys : List TyShape → List Tk
  | [] => []
  | [t] => printTy t
  | t :: u :: ts => printTy t ++ Tk.kw "," :: printTys (u :: ts)

def printThrowing : Option (List TyShape) → List Tk
  | none => []
  | some l => Tk.kw "throws" :: printTys l

def printRet : Option TyShape → List Tk
  | none => []
  | some t => Tk.kw "->" :: printTy t

/-- `( params ) throws … -> ret` -/
def printSig (s : SigShape) : List Tk :=
  Tk.kw "(" :: (printParams s.params ++ Tk.kw ")" :: (printThrowing s.throwing ++ printRet s.ret))

def printMod (b : Bool) (s : String) : List Tk := if b then [Tk.kw s] else []

def printMethod (m : MethodShape) : List Tk :=
  printComments m.comment ++ (printMod m.isStatic "static" ++ (printMod m.isConst "const" ++
    (printMod m.isAsync "async" ++ Tk.id m.name :: (printSig m.sig ++ [Tk.kw ";"]))))

def printProp (p : PropShape) : List Tk :=
  printComments p.comment ++ Tk.kw "property" :: Tk.id p.name :: Tk.kw ":" :: (printTy p.ty ++ [Tk.kw ";"])

def printMember : MemberShape → List Tk
  | .m x => printMethod x
  | .p x => printProp x

/-- an error code: `name ;` without parameters, `name ( p₁ p₂ … ) ;` with (juxtaposed) parameters -/
def printErrCode (e : ErrCodeShape) : List Tk :=
  printComments e.comment ++ Tk.id e.name ::
    ((match e.params with
      | [] => []
      | p :: ps => Tk.kw "(" :: ((p :: ps).flatMap printParam ++ [Tk.kw ")"])) ++ [Tk.kw ";"])

/-- `# c…  name =` -/
def printHead (name : String) (comment : List String) (body : List Tk) : List Tk :=
  printComments comment ++ Tk.id name :: Tk.kw "=" :: body

def printEnum (name : String) (comment : List String) (items : List ItemShape) : List Tk :=
  printHead name comment (Tk.kw "enum" :: Tk.kw "{" :: (items.flatMap printItem ++ [Tk.kw "}"]))

def printFlags (name : String) (comment : List String) (items : List FlagItemShape) : List Tk :=
  printHead name comment (Tk.kw "flags" :: Tk.kw "{" :: (items.flatMap printFlagItem ++ [Tk.kw "}"]))

/-- `d₁ , d₂ , … , dₙ` -/
def printIds : List String → List Tk
  | [] => []
  | [d] => [Tk.id d]
  | d :: e :: ds => Tk.id d :: Tk.kw "," :: printIds (e :: ds)

def printDeriving : Option (List String) → List Tk
  | none => []
  | some ds => Tk.kw "deriving" :: Tk.kw "(" :: (printIds ds ++ [Tk.kw ")"])

def printRecord (name : String) (comment : List String) (targets : List String) (fields : List FieldShape)
    (deriving' : Option (List String)) : List Tk :=
  printHead name comment (Tk.kw "record" :: (printTargets targets ++ Tk.kw "{" ::
    (fields.flatMap printField ++ Tk.kw "}" :: printDeriving deriving')))

def printInterface (name : String) (comment : List String) (main : Bool) (targets : List String)
    (members : List MemberShape) : List Tk :=
  printHead name comment (printMod main "main" ++ Tk.kw "interface" :: (printTargets targets ++ Tk.kw "{" ::
    (members.flatMap printMember ++ [Tk.kw "}"])))

def printFnKw : Option (List String) → List Tk
  | none => []
  | some l => Tk.kw "function" :: printTargets l

def printFunction (name : String) (comment : List String) (fnTargets : Option (List String)) (sig : SigShape) : List Tk :=
  printHead name comment (printFnKw fnTargets ++ (printSig sig ++ [Tk.kw ";"]))

def printErrorDomain (name : String) (comment : List String) (codes : List ErrCodeShape) : List Tk :=
  printHead name comment (Tk.kw "error" :: Tk.kw "{" :: (codes.flatMap printErrCode ++ [Tk.kw "}"]))

def printDecl : DeclShape → List Tk
  | .enum n c is => printEnum n c is
  | .flags n c is => printFlags n c is
  | .record n c t fs d => printRecord n c t fs d
  | .interface n c mn t ms => printInterface n c mn t ms
  | .function n c t s => printFunction n c t s
  | .error n c cs => printErrorDomain n c cs

mutual
def printContent : ContentShape → List Tk
  | .decl d => printDecl d
  | .ns n d c cs => printComments c ++ Tk.kw "namespace" :: nameTk n d :: Tk.kw "{" :: (printContents cs ++ [Tk.kw "}"])
def printContents : List ContentShape → List Tk
  | [] => []
  | a :: as => printContent a ++ printContents as
end

def printLoad (l : LoadShape) : List Tk := [Tk.kw (if l.isImport then "@import" else "@extern"), Tk.filepath l.lit]

def printFile (f : FileShape) : List Tk := f.loads.flatMap printLoad ++ printContents f.contents

/-! ## token-level helpers -/

theorem comments_print' (cs : List Token) (cstr : List String) (x : Token) (xs : List Token)
    (hcs : cs.map (·.tk) = printComments cstr) (hx : ∀ c, x.tk ≠ .comment c) :
    comments (cs ++ x :: xs) = (cstr, x :: xs) :=
  comments_print cs cstr (x :: xs) hcs (by intro y ys h c; simp at h; rw [← h.1]; exact hx c)

theorem targets_print (cs : List Token) (l : List String) (x : Token) (xs : List Token)
    (hcs : cs.map (·.tk) = printTargets l) (hx : ∀ c, x.tk ≠ .target c) :
    targets (cs ++ x :: xs) = (l, x :: xs) := by
  induction cs generalizing l with
  | nil =>
    simp [printTargets] at hcs; subst hcs
    simp only [List.nil_append, targets]
  | cons c cs ih =>
    cases l with
    | nil => simp [printTargets] at hcs
    | cons s ss =>
      simp [printTargets] at hcs
      obtain ⟨h1, h2⟩ := hcs
      simp [targets, h1, ih ss (by simpa [printTargets] using h2)]

theorem peekKw_of_tk {s : String} {t : Token} {ts : List Token} {k : Tk} (h : t.tk = k) :
    peekKw s (t :: ts) = (k == .kw s) := by simp [peekKw, h]

theorem length_le_of_flatMap {σ : Type} (pr : σ → List Tk) (h1 : ∀ s, 1 ≤ (pr s).length) (items : List σ)
    (pre : List Token) (hp : pre.map (·.tk) = items.flatMap pr) : items.length ≤ pre.length := by
  have := congrArg List.length hp
  rw [List.length_map] at this
  rw [this]
  clear this hp
  induction items with
  | nil => simp
  | cons a as ih =>
    have := h1 a
    simp only [List.flatMap_cons, List.length_cons, List.length_append]
    omega

/-! ## `many` -/

/-- generic loop lemma: if every printed element is parsed back by `p` (whenever what follows
    satisfies `F`), does not trigger `stop`, and itself satisfies `F` at its head, then `many`
    parses the concatenation of the printed elements -/
theorem many_print {α σ τ : Type} (fuel : Nat) (stop : List Token → Bool) (p : P α)
    (pr : σ → List Tk) (f : α → Option τ) (g : σ → τ) (F : List Token → Prop)
    (items : List σ)
    (hitem : ∀ s ∈ items, ∀ q r, q.map (·.tk) = pr s → F r →
      stop (q ++ r) = false ∧ F (q ++ r) ∧ ∃ a, p (q ++ r) = some (a, r) ∧ f a = some (g s))
    (pre rest : List Token) (n : Nat)
    (hp : pre.map (·.tk) = items.flatMap pr) (hstop : stop rest = true) (hF : F rest)
    (hn : items.length < n) :
    F (pre ++ rest) ∧ ∃ as, many fuel stop p n (pre ++ rest) = some (as, rest) ∧ mapOpt f as = some (items.map g) := by
  induction items generalizing pre n with
  | nil =>
    simp at hp; subst hp
    cases n with
    | zero => simp at hn
    | succ n => exact ⟨hF, [], by simp [many, hstop], rfl⟩
  | cons s ss ih =>
    cases n with
    | zero => simp at hn
    | succ n =>
      rw [List.flatMap_cons] at hp
      obtain ⟨q, pre', rfl, hq, hpre'⟩ := List.map_eq_append_iff.mp hp
      obtain ⟨hF', as, has, hfs⟩ := ih (fun s hs => hitem s (List.mem_cons_of_mem _ hs)) pre' n hpre'
        (by simp at hn; omega)
      obtain ⟨h1, h2, a, ha, hfa⟩ := hitem s List.mem_cons_self q (pre' ++ rest) hq hF'
      rw [List.append_assoc]
      refine ⟨h2, a :: as, ?_, ?_⟩
      · simp [many, h1, ha, has]
      · simp [mapOpt, hfa, hfs]

/-- the converse: whatever `many` accepts is the concatenation of what `p` accepted -/
theorem many_sound {α σ : Type} (fuel : Nat) (stop : List Token → Bool) (p : P α)
    (pr : σ → List Tk) (g : α → σ)
    (hp : ∀ ts a r, p ts = some (a, r) → ∃ q, ts = q ++ r ∧ q.map (·.tk) = pr (g a))
    (n : Nat) (ts : List Token) (as : List α) (rest : List Token)
    (h : many fuel stop p n ts = some (as, rest)) :
    stop rest = true ∧ ∃ pre, ts = pre ++ rest ∧ pre.map (·.tk) = (as.map g).flatMap pr := by
  induction n generalizing ts as with
  | zero => simp [many] at h
  | succ n ih =>
    simp only [many] at h
    split at h
    · next hs => simp at h; obtain ⟨rfl, rfl⟩ := h; exact ⟨hs, [], by simp, by simp⟩
    · cases h1 : p ts with
      | none => simp [h1] at h
      | some x =>
        obtain ⟨a, r⟩ := x
        simp only [h1, Option.bind_eq_bind, Option.bind_some] at h
        cases h2 : many fuel stop p n r with
        | none => simp [h2] at h
        | some y =>
          obtain ⟨as', r'⟩ := y
          simp [h2] at h
          obtain ⟨rfl, rfl⟩ := h
          obtain ⟨q, rfl, hq⟩ := hp _ _ _ h1
          obtain ⟨hs, pre, rfl, hpre⟩ := ih _ _ h2
          exact ⟨hs, q ++ pre, by simp, by simp [hq, hpre]⟩

/-! ## enum items and flags -/

theorem item_print (s : ItemShape) (q r : List Token) (hq : q.map (·.tk) = printItem s) :
    ∃ a, item (q ++ r) = some (a, r) ∧ a.shape = s := by
  obtain ⟨cs, q2, rfl, hcs, h2⟩ := List.map_eq_append_iff.mp hq
  obtain ⟨nt, q3, rfl, hn, h3⟩ := List.map_eq_cons_iff.mp h2
  obtain ⟨semi, q4, rfl, hsemi, h4⟩ := List.map_eq_cons_iff.mp h3
  rw [List.map_eq_nil_iff] at h4; subst h4
  have hcm := comments_print' cs s.comment nt (semi :: r) hcs (by simp [hn])
  unfold item
  simp only [List.append_assoc, List.cons_append, List.nil_append, hcm, ident, hn,
    Option.bind_eq_bind, Option.bind_some, kw?_cons _ _ _ hsemi, Option.pure_def]
  exact ⟨_, rfl, by simp [Item.shape]⟩

theorem printItem_head (s : ItemShape) (q r : List Token) (hq : q.map (·.tk) = printItem s) :
    ∃ x xs, q ++ r = x :: xs ∧ ((∃ c, x.tk = .comment c) ∨ (∃ n, x.tk = .id n)) := by
  obtain ⟨cs, q2, rfl, hcs, h2⟩ := List.map_eq_append_iff.mp hq
  obtain ⟨nt, q3, rfl, hn, h3⟩ := List.map_eq_cons_iff.mp h2
  cases cs with
  | nil => exact ⟨nt, _, rfl, Or.inr ⟨_, hn⟩⟩
  | cons c cs =>
    cases hc : s.comment with
    | nil => simp [printComments, hc] at hcs
    | cons c' _ =>
      simp [printComments, hc] at hcs
      exact ⟨c, _, rfl, Or.inl ⟨_, hcs.1⟩⟩

theorem peekKw_eq {a : String} {t : Token} {ts : List Token} (h : t.tk = .kw a) : peekKw a (t :: ts) = true := by
  simp [peekKw, h]
theorem peekKw_ne {a b : String} {t : Token} {ts : List Token} (h : t.tk = .kw a) (hab : a ≠ b) :
    peekKw b (t :: ts) = false := by
  simp [peekKw, h, hab]
theorem peekKw_id {n b : String} {t : Token} {ts : List Token} (h : t.tk = .id n) : peekKw b (t :: ts) = false := by
  simp [peekKw, h]

theorem flagItem_print (s : FlagItemShape) (q r : List Token) (hq : q.map (·.tk) = printFlagItem s) :
    ∃ a, flagItem (q ++ r) = some (a, r) ∧ a.shape = s := by
  obtain ⟨sn, sm, sc⟩ := s
  simp only [printFlagItem] at hq
  obtain ⟨cs, q2, rfl, hcs, h2⟩ := List.map_eq_append_iff.mp hq
  obtain ⟨nt, q3, rfl, hn, h3⟩ := List.map_eq_cons_iff.mp h2
  obtain ⟨md, q4, rfl, hmd, h4⟩ := List.map_eq_append_iff.mp h3
  obtain ⟨semi, q5, rfl, hsemi, h5⟩ := List.map_eq_cons_iff.mp h4
  rw [List.map_eq_nil_iff] at h5; subst h5
  have hcm := comments_print' cs sc nt (md ++ semi :: r) hcs (by simp [hn])
  cases sm with
  | none =>
    simp [printModifier] at hmd; subst hmd
    unfold flagItem
    simp only [List.append_assoc, List.cons_append, List.nil_append] at hcm ⊢
    simp only [hcm, ident, hn, Option.bind_eq_bind, Option.bind_some, peekKw_ne hsemi (by decide : ";" ≠ "="),
      Bool.false_eq_true, if_false, kw?_cons _ _ _ hsemi, Option.pure_def]
    exact ⟨_, rfl, by simp [FlagItem.shape]⟩
  | some m =>
    simp only [printModifier] at hmd
    obtain ⟨eq, q6, rfl, heq, h6⟩ := List.map_eq_cons_iff.mp hmd
    obtain ⟨mt, q7, rfl, hmt, h7⟩ := List.map_eq_cons_iff.mp h6
    rw [List.map_eq_nil_iff] at h7; subst h7
    unfold flagItem
    simp only [List.append_assoc, List.cons_append, List.nil_append] at hcm ⊢
    simp only [hcm, ident, hn, hmt, Option.bind_eq_bind, Option.bind_some, peekKw_eq heq, if_true,
      List.tail_cons, kw?_cons _ _ _ hsemi, Option.pure_def]
    exact ⟨_, rfl, by simp [FlagItem.shape]⟩

/-- the first token of a printed element that starts with `# c… name` is a comment or an identifier -/
def startsCI (ts : List Token) : Prop :=
  ∃ x xs, ts = x :: xs ∧ ((∃ c, x.tk = .comment c) ∨ (∃ n, x.tk = .id n))

theorem startsCI_of (c : List String) (n : String) (tl : List Tk) (q r : List Token)
    (hq : q.map (·.tk) = printComments c ++ Tk.id n :: tl) : startsCI (q ++ r) := by
  obtain ⟨cs, q2, rfl, hcs, h2⟩ := List.map_eq_append_iff.mp hq
  obtain ⟨nt, q3, rfl, hn, h3⟩ := List.map_eq_cons_iff.mp h2
  cases cs with
  | nil => exact ⟨nt, _, rfl, Or.inr ⟨_, hn⟩⟩
  | cons x cs =>
    cases c with
    | nil => simp [printComments] at hcs
    | cons c' _ =>
      simp [printComments] at hcs
      exact ⟨x, _, rfl, Or.inl ⟨_, hcs.1⟩⟩

theorem startsCI_peekKw {ts : List Token} (h : startsCI ts) (s : String) : peekKw s ts = false := by
  obtain ⟨x, xs, rfl, h | h⟩ := h
  · obtain ⟨c, hc⟩ := h; simp [peekKw, hc]
  · obtain ⟨c, hc⟩ := h; simp [peekKw, hc]

/-! ## the declaration head `name =` and the two item-list declarations -/

theorem typeDecl_enum_eq (fuel : Nat) (c : List String) (ts0 : List Token) (nt eq k lb : Token) (ts : List Token)
    (n : String) (hn : nt.tk = .id n) (heq : eq.tk = .kw "=") (hk : k.tk = .kw "enum") (hlb : lb.tk = .kw "{") :
    typeDecl fuel c ts0 (nt :: eq :: k :: lb :: ts) =
      match many fuel (peekKw "}") item fuel ts with
      | none => none
      | some (is, r) => match kw? "}" r with
        | none => none
        | some r' => some (.enum n c is (spanPos ts0 r'), r') := by
  unfold typeDecl
  simp only [ident, hn, Option.bind_eq_bind, Option.bind_some, kw?_cons _ _ _ heq, peekKw_eq hk, if_true,
    List.tail_cons, kw?_cons _ _ _ hlb]
  cases many fuel (peekKw "}") item fuel ts with
  | none => rfl
  | some x =>
    obtain ⟨is, r⟩ := x
    simp only [Option.bind_some]
    cases kw? "}" r with
    | none => rfl
    | some r' => rfl

theorem typeDecl_flags_eq (fuel : Nat) (c : List String) (ts0 : List Token) (nt eq k lb : Token) (ts : List Token)
    (n : String) (hn : nt.tk = .id n) (heq : eq.tk = .kw "=") (hk : k.tk = .kw "flags") (hlb : lb.tk = .kw "{") :
    typeDecl fuel c ts0 (nt :: eq :: k :: lb :: ts) =
      match many fuel (peekKw "}") flagItem fuel ts with
      | none => none
      | some (is, r) => match kw? "}" r with
        | none => none
        | some r' => some (.flags n c is (spanPos ts0 r'), r') := by
  unfold typeDecl
  simp only [ident, hn, Option.bind_eq_bind, Option.bind_some, kw?_cons _ _ _ heq, peekKw_eq hk,
    peekKw_ne hk (by decide : "flags" ≠ "enum"), Bool.false_eq_true, if_false, if_true,
    List.tail_cons, kw?_cons _ _ _ hlb]
  cases many fuel (peekKw "}") flagItem fuel ts with
  | none => rfl
  | some x =>
    obtain ⟨is, r⟩ := x
    simp only [Option.bind_some]
    cases kw? "}" r with
    | none => rfl
    | some r' => rfl

theorem typeDecl_enum_print (fuel : Nat) (c : List String) (ts0 : List Token) (n : String) (items : List ItemShape)
    (body rest : List Token)
    (hb : body.map (·.tk) = Tk.id n :: Tk.kw "=" :: Tk.kw "enum" :: Tk.kw "{" :: (items.flatMap printItem ++ [Tk.kw "}"]))
    (hfuel : body.length ≤ fuel + 1) :
    ∃ d, typeDecl fuel c ts0 (body ++ rest) = some (d, rest) ∧ d.shape? = some (.enum n c items) := by
  obtain ⟨nt, b1, rfl, hn, hb⟩ := List.map_eq_cons_iff.mp hb
  obtain ⟨eq, b2, rfl, heq, hb⟩ := List.map_eq_cons_iff.mp hb
  obtain ⟨k, b3, rfl, hk, hb⟩ := List.map_eq_cons_iff.mp hb
  obtain ⟨lb, b4, rfl, hlb, hb⟩ := List.map_eq_cons_iff.mp hb
  obtain ⟨pre, b5, rfl, hpre, hb⟩ := List.map_eq_append_iff.mp hb
  obtain ⟨rb, b6, rfl, hrb, hb⟩ := List.map_eq_cons_iff.mp hb
  rw [List.map_eq_nil_iff] at hb; subst hb
  have hlen : items.length ≤ pre.length :=
    length_le_of_flatMap printItem (fun s => by simp [printItem]) items pre hpre
  obtain ⟨-, as, hmany, hsh⟩ := many_print fuel (peekKw "}") item printItem (fun a => some a.shape) id (fun _ => True) items
    (by
      intro s _ q r hq _
      refine ⟨startsCI_peekKw (startsCI_of s.comment s.name _ q r hq) _, trivial, ?_⟩
      obtain ⟨a, ha, hs⟩ := item_print s q r hq
      exact ⟨a, ha, by simp [hs]⟩)
    pre (rb :: rest) fuel hpre (peekKw_eq hrb) trivial (by simp at hfuel; omega)
  simp only [List.cons_append, List.append_assoc, List.nil_append]
  rw [typeDecl_enum_eq fuel c ts0 nt eq k lb _ n hn heq hk hlb, hmany]
  simp only [kw?_cons _ _ _ hrb]
  refine ⟨_, rfl, ?_⟩
  rw [mapOpt_total] at hsh
  simp at hsh
  simp [Decl.shape?, hsh]

theorem typeDecl_flags_print (fuel : Nat) (c : List String) (ts0 : List Token) (n : String) (items : List FlagItemShape)
    (body rest : List Token)
    (hb : body.map (·.tk) = Tk.id n :: Tk.kw "=" :: Tk.kw "flags" :: Tk.kw "{" :: (items.flatMap printFlagItem ++ [Tk.kw "}"]))
    (hfuel : body.length ≤ fuel + 1) :
    ∃ d, typeDecl fuel c ts0 (body ++ rest) = some (d, rest) ∧ d.shape? = some (.flags n c items) := by
  obtain ⟨nt, b1, rfl, hn, hb⟩ := List.map_eq_cons_iff.mp hb
  obtain ⟨eq, b2, rfl, heq, hb⟩ := List.map_eq_cons_iff.mp hb
  obtain ⟨k, b3, rfl, hk, hb⟩ := List.map_eq_cons_iff.mp hb
  obtain ⟨lb, b4, rfl, hlb, hb⟩ := List.map_eq_cons_iff.mp hb
  obtain ⟨pre, b5, rfl, hpre, hb⟩ := List.map_eq_append_iff.mp hb
  obtain ⟨rb, b6, rfl, hrb, hb⟩ := List.map_eq_cons_iff.mp hb
  rw [List.map_eq_nil_iff] at hb; subst hb
  have hlen : items.length ≤ pre.length :=
    length_le_of_flatMap printFlagItem (fun s => by simp [printFlagItem]; omega) items pre hpre
  obtain ⟨-, as, hmany, hsh⟩ := many_print fuel (peekKw "}") flagItem printFlagItem (fun a => some a.shape) id (fun _ => True) items
    (by
      intro s _ q r hq _
      refine ⟨startsCI_peekKw (startsCI_of s.comment s.name _ q r hq) _, trivial, ?_⟩
      obtain ⟨a, ha, hs⟩ := flagItem_print s q r hq
      exact ⟨a, ha, by simp [hs]⟩)
    pre (rb :: rest) fuel hpre (peekKw_eq hrb) trivial (by simp at hfuel; omega)
  simp only [List.cons_append, List.append_assoc, List.nil_append]
  rw [typeDecl_flags_eq fuel c ts0 nt eq k lb _ n hn heq hk hlb, hmany]
  simp only [kw?_cons _ _ _ hrb]
  refine ⟨_, rfl, ?_⟩
  rw [mapOpt_total] at hsh
  simp at hsh
  simp [Decl.shape?, hsh]

/-! ## signatures: the list-of-successes layer

For printed signatures whose types are data types, the *first* candidate of every `…L` parser is
the intended parse; `firstThat` then accepts it as soon as the closing token follows. -/

/-- the first candidate of a list of successes -/
def HeadIs {α : Type} (l : List (α × List Token)) (a : α) (r : List Token) : Prop := ∃ tl, l = (a, r) :: tl

theorem HeadIs.flatMap {α β : Type} {l : List (α × List Token)} {a : α} {r : List Token}
    {f : α × List Token → List (β × List Token)} {b : β} {r' : List Token}
    (h1 : HeadIs l a r) (h2 : HeadIs (f (a, r)) b r') : HeadIs (l.flatMap f) b r' := by
  obtain ⟨tl, rfl⟩ := h1
  obtain ⟨tl', h2⟩ := h2
  exact ⟨tl' ++ tl.flatMap f, by simp [List.flatMap_cons, h2]⟩

theorem HeadIs.append {α : Type} {l m : List (α × List Token)} {a : α} {r : List Token}
    (h : HeadIs l a r) : HeadIs (l ++ m) a r := by
  obtain ⟨tl, rfl⟩ := h
  exact ⟨tl ++ m, rfl⟩

theorem HeadIs.map {α β : Type} {l : List (α × List Token)} {a : α} {r : List Token} (f : α × List Token → β × List Token)
    (h : HeadIs l a r) : HeadIs (l.map f) (f (a, r)).1 (f (a, r)).2 := by
  obtain ⟨tl, rfl⟩ := h
  exact ⟨tl.map f, rfl⟩

theorem HeadIs.single {α : Type} (a : α) (r : List Token) : HeadIs [(a, r)] a r := ⟨[], rfl⟩

theorem firstThat_head {α β : Type} {l : List (α × List Token)} {a : α} {r : List Token}
    {next : α → List Token → Option β} {b : β} (h : HeadIs l a r) (hn : next a r = some b) :
    firstThat l next = some b := by
  obtain ⟨tl, rfl⟩ := h
  simp [firstThat, hn]

theorem firstThat_head' {α β : Type} {l : List (α × List Token)} {a : α} {r : List Token}
    {next : α → List Token → Option β} (h : HeadIs l a r) (hn : (next a r).isSome = true) :
    firstThat l next = next a r := by
  obtain ⟨tl, rfl⟩ := h
  cases h' : next a r with
  | none => simp [h'] at hn
  | some b => simp [firstThat, h']

def ParamShape.tokens (p : ParamShape) : Nat := (printParam p).length

theorem paramL_print (p : ParamShape) (pre rest : List Token) (fuel : Nat)
    (hp : pre.map (·.tk) = printParam p) (hf : FollowOK p.ty rest) (hfuel : pre.length ≤ fuel + 1) :
    ∃ a, paramL fuel (pre ++ rest) = [(a, rest)] ∧ a.shape? = some p.erase := by
  obtain ⟨nt, b1, rfl, hn, hb⟩ := List.map_eq_cons_iff.mp hp
  obtain ⟨colon, tpre, rfl, hc, hb⟩ := List.map_eq_cons_iff.mp hb
  have hneed := need_le_length p.ty tpre hb
  have hpos : 1 ≤ p.ty.need := need_pos _
  cases fuel with
  | zero => simp only [List.length_cons] at hfuel; omega
  | succ g =>
    obtain ⟨t, ht, hs⟩ := typeRefL_print p.ty tpre rest g hb hf (by simp at hfuel; omega)
    simp only [List.cons_append, paramL, ident, hn, kw?_cons _ _ _ hc, ht, List.map_cons, List.map_nil]
    exact ⟨_, rfl, by simp [Param.shape?, hs, ParamShape.erase]⟩

/-- what may follow a comma-separated list whose last element is a data type -/
def ListFollow (rest : List Token) : Prop :=
  peekKw "," rest = false ∧ peekKw "<" rest = false ∧ peekKw "?" rest = false

theorem printParam_length (p : ParamShape) : 3 ≤ (printParam p).length := by
  have := printTy_ne_nil p.ty
  simp only [printParam, List.length_cons]
  have : (printTy p.ty).length ≠ 0 := by simpa using this
  omega

theorem paramList1L_print (ps : List ParamShape) (hne : ps ≠ []) (pre rest : List Token) (fuel : Nat)
    (hp : pre.map (·.tk) = printParams ps) (hf : ListFollow rest) (hfuel : pre.length ≤ fuel) :
    ∃ as, HeadIs (paramList1L fuel (pre ++ rest)) as rest ∧ mapOpt Param.shape? as = some (ps.map ParamShape.erase) := by
  match ps, hne with
  | [p], _ =>
    simp only [printParams] at hp
    have h3 := printParam_length p
    rw [← hp, List.length_map] at h3
    cases fuel with
    | zero => omega
    | succ g =>
      obtain ⟨a, ha, hs⟩ := paramL_print p pre rest g hp (FollowOK_of_simple _ _ hf.2.1 hf.2.2) (by omega)
      refine ⟨[a], ?_, by simp [mapOpt, hs]⟩
      simp only [paramList1L, ha, List.flatMap_cons, hf.1, Bool.false_eq_true, if_false, List.flatMap_nil,
        List.append_nil, List.nil_append, List.map_cons, List.map_nil]
      exact HeadIs.single _ _
  | p :: q :: ps, _ =>
    simp only [printParams] at hp
    obtain ⟨ppre, b1, rfl, hpp, hb⟩ := List.map_eq_append_iff.mp hp
    obtain ⟨comma, pre', rfl, hcomma, hb⟩ := List.map_eq_cons_iff.mp hb
    have h3 := printParam_length p
    rw [← hpp, List.length_map] at h3
    cases fuel with
    | zero => simp only [List.length_append, List.length_cons] at hfuel; omega
    | succ g =>
      have hfo : FollowOK p.ty (comma :: (pre' ++ rest)) := by
        apply FollowOK_of_simple <;> simp [peekKw_cons, hcomma]
      obtain ⟨a, ha, hs⟩ := paramL_print p ppre (comma :: (pre' ++ rest)) g hpp hfo (by simp at hfuel; omega)
      obtain ⟨as, has, hss⟩ := paramList1L_print (q :: ps) (by simp) pre' rest g hb hf (by simp at hfuel; omega)
      refine ⟨a :: as, ?_, by simp [mapOpt, hs, hss]⟩
      have e : ppre ++ comma :: pre' ++ rest = ppre ++ (comma :: (pre' ++ rest)) := by simp
      rw [e]
      simp only [paramList1L, ha, List.flatMap_cons, peekKw_eq hcomma, if_true, List.tail_cons, List.flatMap_nil,
        List.append_nil]
      exact (HeadIs.map (fun x : List Param × List Token => (a :: x.1, x.2)) has).append

theorem startsParam_of (p : ParamShape) (tl : List Tk) (pre rest : List Token)
    (hp : pre.map (·.tk) = printParam p ++ tl) : startsParam (pre ++ rest) = true := by
  obtain ⟨nt, b1, rfl, hn, hb⟩ := List.map_eq_cons_iff.mp hp
  obtain ⟨colon, tpre, rfl, hc, hb⟩ := List.map_eq_cons_iff.mp hb
  simp [startsParam, hn, hc]

theorem printParams_starts (p : ParamShape) (ps : List ParamShape) :
    ∃ tl, printParams (p :: ps) = printParam p ++ tl := by
  cases ps with
  | nil => exact ⟨[], by simp [printParams]⟩
  | cons q ps => exact ⟨_, by simp only [printParams]; rfl⟩

theorem paramListL_print (ps : List ParamShape) (pre : List Token) (rp : Token) (rest : List Token) (fuel : Nat)
    (hp : pre.map (·.tk) = printParams ps) (hrp : rp.tk = .kw ")") (hfuel : pre.length < fuel) :
    ∃ as, HeadIs (paramListL fuel (pre ++ rp :: rest)) as (rp :: rest) ∧
      mapOpt Param.shape? as = some (ps.map ParamShape.erase) := by
  cases fuel with
  | zero => omega
  | succ g =>
    cases ps with
    | nil =>
      simp [printParams] at hp; subst hp
      refine ⟨[], ?_, rfl⟩
      have hst : startsParam (rp :: rest) = false := by cases rest <;> simp [startsParam, hrp]
      simp only [paramListL, List.nil_append, hst]
      exact ⟨[], by simp⟩
    | cons p ps =>
      obtain ⟨tl, htl⟩ := printParams_starts p ps
      have hst := startsParam_of p tl pre (rp :: rest) (by rw [hp, htl])
      obtain ⟨as, has, hss⟩ := paramList1L_print (p :: ps) (by simp) pre (rp :: rest) g hp
        ⟨peekKw_ne hrp (by decide), peekKw_ne hrp (by decide), peekKw_ne hrp (by decide)⟩ (by omega)
      refine ⟨as, ?_, hss⟩
      simp only [paramListL, hst, if_true]
      exact has.append

theorem printTy_length_pos (t : TyShape) : 1 ≤ (printTy t).length := by
  have := printTy_ne_nil t
  have : (printTy t).length ≠ 0 := by simpa using this
  omega

theorem throwList1L_print (l : List TyShape) (hne : l ≠ []) (pre rest : List Token) (fuel : Nat)
    (hp : pre.map (·.tk) = printTys l) (hf : ListFollow rest) (hfuel : pre.length < fuel) :
    ∃ as, HeadIs (throwList1L fuel (pre ++ rest)) as rest ∧ mapOpt shapeOf as = some (l.map TyShape.erase) := by
  match l, hne with
  | [t], _ =>
    simp only [printTys] at hp
    cases fuel with
    | zero => omega
    | succ g =>
      obtain ⟨a, ha, hs⟩ := typeRefL_print t pre rest g hp (FollowOK_of_simple _ _ hf.2.1 hf.2.2)
        (by have := need_le_length t pre hp; omega)
      refine ⟨[a], ?_, by simp [mapOpt, hs]⟩
      simp only [throwList1L, ha, List.flatMap_cons, hf.1, Bool.false_eq_true, if_false, List.flatMap_nil,
        List.append_nil, List.nil_append, List.map_cons, List.map_nil]
      exact HeadIs.single _ _
  | t :: u :: ts, _ =>
    simp only [printTys] at hp
    obtain ⟨tpre, b1, rfl, htp, hb⟩ := List.map_eq_append_iff.mp hp
    obtain ⟨comma, pre', rfl, hcomma, hb⟩ := List.map_eq_cons_iff.mp hb
    cases fuel with
    | zero => omega
    | succ g =>
      have hfo : FollowOK t (comma :: (pre' ++ rest)) := by
        apply FollowOK_of_simple <;> simp [peekKw_cons, hcomma]
      obtain ⟨a, ha, hs⟩ := typeRefL_print t tpre (comma :: (pre' ++ rest)) g htp hfo
        (by have := need_le_length t tpre htp; simp only [List.length_append, List.length_cons] at hfuel; omega)
      obtain ⟨as, has, hss⟩ := throwList1L_print (u :: ts) (by simp) pre' rest g hb hf
        (by simp only [List.length_append, List.length_cons] at hfuel; omega)
      refine ⟨a :: as, ?_, by simp [mapOpt, hs, hss]⟩
      have e : tpre ++ comma :: pre' ++ rest = tpre ++ (comma :: (pre' ++ rest)) := by simp
      rw [e]
      simp only [throwList1L, ha, List.flatMap_cons, peekKw_eq hcomma, if_true, List.tail_cons, List.flatMap_nil,
        List.append_nil]
      exact (HeadIs.map (fun x : List TypeRef × List Token => (a :: x.1, x.2)) has).append

/-- what follows a `throws` clause or a return type in a method / named function: `->` or `;` -/
def SigFollow (rest : List Token) : Prop := ∃ x xs, rest = x :: xs ∧ (x.tk = .kw "->" ∨ x.tk = .kw ";")

theorem SigFollow.peekKw_false {rest : List Token} (h : SigFollow rest) (s : String) (h1 : s ≠ "->") (h2 : s ≠ ";") :
    peekKw s rest = false := by
  obtain ⟨x, xs, rfl, hx | hx⟩ := h
  · exact peekKw_ne hx (Ne.symm h1)
  · exact peekKw_ne hx (Ne.symm h2)

theorem SigFollow.listFollow {rest : List Token} (h : SigFollow rest) : ListFollow rest :=
  ⟨h.peekKw_false _ (by decide) (by decide), h.peekKw_false _ (by decide) (by decide),
   h.peekKw_false _ (by decide) (by decide)⟩

theorem typeRefL_sigFollow {rest : List Token} (h : SigFollow rest) (fuel : Nat) : typeRefL fuel rest = [] := by
  cases fuel with
  | zero => simp [typeRefL]
  | succ g =>
    have h1 := h.peekKw_false "function" (by decide) (by decide)
    have h2 := h.peekKw_false "(" (by decide) (by decide)
    obtain ⟨x, xs, rfl, hx⟩ := h
    have h3 : nsIdent (x :: xs) = none := by
      rcases hx with hx | hx <;> simp [nsIdent, hx]
    rw [typeRefL.eq_2, h1, h2, dataType_succ, h3]
    rfl

theorem throwList1L_sigFollow {rest : List Token} (h : SigFollow rest) (fuel : Nat) : throwList1L fuel rest = [] := by
  cases fuel with
  | zero => simp [throwList1L]
  | succ g => simp [throwList1L, typeRefL_sigFollow h]

theorem throwingL_print (thr : Option (List TyShape)) (pre rest : List Token) (fuel : Nat)
    (hp : pre.map (·.tk) = printThrowing thr) (hrest : SigFollow rest) (hfuel : pre.length < fuel) :
    ∃ a, HeadIs (throwingL fuel (pre ++ rest)) a rest ∧
      throwingShape? a = some (thr.map (fun l => l.map TyShape.erase)) := by
  cases fuel with
  | zero => omega
  | succ g =>
    match thr with
    | none =>
      simp [printThrowing] at hp; subst hp
      refine ⟨none, ?_, rfl⟩
      simp only [throwingL, List.nil_append, hrest.peekKw_false "throws" (by decide) (by decide)]
      exact ⟨[], by simp⟩
    | some [] =>
      simp only [printThrowing, printTys] at hp
      obtain ⟨th, b1, rfl, hth, hb⟩ := List.map_eq_cons_iff.mp hp
      rw [List.map_eq_nil_iff] at hb; subst hb
      refine ⟨some [], ?_, rfl⟩
      simp only [throwingL, List.cons_append, List.nil_append, peekKw_eq hth, if_true, List.tail_cons,
        throwList1L_sigFollow hrest, List.map_nil]
      exact HeadIs.single _ _
    | some (t :: ts) =>
      simp only [printThrowing] at hp
      obtain ⟨th, pre', rfl, hth, hb⟩ := List.map_eq_cons_iff.mp hp
      obtain ⟨as, has, hss⟩ := throwList1L_print (t :: ts) (by simp) pre' rest g hb hrest.listFollow
        (by simp only [List.length_cons] at hfuel; omega)
      refine ⟨some as, ?_, by simp [throwingShape?, hss]⟩
      simp only [throwingL, List.cons_append, peekKw_eq hth, if_true, List.tail_cons]
      exact (HeadIs.map (fun x : List TypeRef × List Token => (some x.1, x.2)) has).append

/-- `functionL` after the optional `function targets` prefix -/
def sigBody (flags : Option (List String)) (fpos : Pos) (g : Nat) (ts : List Token) : List (FnSig × List Token) :=
  match kw? "(" ts with
  | none => []
  | some ts =>
    (paramListL g ts).flatMap fun (ps, ts) =>
      match kw? ")" ts with
      | none => []
      | some ts =>
        (throwingL g ts).flatMap fun (thr, ts) =>
          (if peekKw "->" ts then (typeRefL g ts.tail).map (fun (r, ts) => (FnSig.mk flags fpos ps thr (some r), ts)) else [])
          ++ [(FnSig.mk flags fpos ps thr none, ts)]

theorem functionL_succ (g : Nat) (ts : List Token) : functionL (g+1) ts =
    if peekKw "function" ts then
      sigBody (some (targets ts.tail).1) (spanPos ts.tail (targets ts.tail).2) g (targets ts.tail).2
    else sigBody none default g ts := by
  rw [functionL.eq_2]
  by_cases h : peekKw "function" ts = true
  · simp only [h, if_true]
    generalize targets ts.tail = x
    obtain ⟨f, r⟩ := x
    rfl
  · simp only [h, Bool.false_eq_true, if_false]
    rfl

theorem sigBody_print (s : SigShape) (flags : Option (List String)) (fpos : Pos) (pre : List Token)
    (semi : Token) (rest : List Token) (g : Nat)
    (hp : pre.map (·.tk) = printSig s) (hsemi : semi.tk = .kw ";") (hfuel : pre.length ≤ g + 1) :
    ∃ ps thr ret, HeadIs (sigBody flags fpos g (pre ++ semi :: rest)) (FnSig.mk flags fpos ps thr ret) (semi :: rest) ∧
      sigShape? ps thr ret = some s.erase := by
  obtain ⟨sps, sthr, sret⟩ := s
  simp only [printSig] at hp
  obtain ⟨lp, b1, rfl, hlp, hb⟩ := List.map_eq_cons_iff.mp hp
  obtain ⟨ppre, b2, rfl, hpp, hb⟩ := List.map_eq_append_iff.mp hb
  obtain ⟨rp, b3, rfl, hrp, hb⟩ := List.map_eq_cons_iff.mp hb
  obtain ⟨tpre, rpre, rfl, htp, hrpre⟩ := List.map_eq_append_iff.mp hb
  simp only [List.length_cons, List.length_append] at hfuel
  have hsf : SigFollow (rpre ++ semi :: rest) := by
    cases sret with
    | none => simp [printRet] at hrpre; subst hrpre; exact ⟨semi, rest, rfl, Or.inr hsemi⟩
    | some t =>
      simp only [printRet] at hrpre
      obtain ⟨ar, b4, rfl, har, _⟩ := List.map_eq_cons_iff.mp hrpre
      exact ⟨ar, _, rfl, Or.inl har⟩
  obtain ⟨ps, hps, hpss⟩ := paramListL_print sps ppre rp (tpre ++ (rpre ++ semi :: rest)) g hpp hrp (by omega)
  obtain ⟨thr, hthr, hthrs⟩ := throwingL_print sthr tpre (rpre ++ semi :: rest) g htp hsf (by omega)
  have e : lp :: (ppre ++ rp :: (tpre ++ rpre)) ++ semi :: rest = lp :: (ppre ++ rp :: (tpre ++ (rpre ++ semi :: rest))) := by
    simp
  rw [e]
  cases sret with
  | none =>
    simp [printRet] at hrpre; subst hrpre
    refine ⟨ps, thr, none, ?_, by simp [sigShape?, hpss, hthrs, retShape?, SigShape.erase]⟩
    simp only [sigBody, kw?_cons _ _ _ hlp]
    refine HeadIs.flatMap hps ?_
    simp only [kw?_cons _ _ _ hrp]
    refine HeadIs.flatMap hthr ?_
    simp only [List.nil_append, peekKw_ne hsemi (by decide : ";" ≠ "->"), Bool.false_eq_true, if_false]
    exact HeadIs.single _ _
  | some t =>
    simp only [printRet] at hrpre
    obtain ⟨ar, rtpre, rfl, har, hrt⟩ := List.map_eq_cons_iff.mp hrpre
    have hfo : FollowOK t (semi :: rest) := by
      apply FollowOK_of_simple <;> simp [peekKw_cons, hsemi]
    simp only [List.length_cons] at hfuel
    obtain ⟨r, hr, hrs⟩ := typeRefL_print t rtpre (semi :: rest) g hrt hfo
      (by have := need_le_length t rtpre hrt; omega)
    refine ⟨ps, thr, some r, ?_, by simp [sigShape?, hpss, hthrs, retShape?, hrs, SigShape.erase]⟩
    simp only [sigBody, kw?_cons _ _ _ hlp]
    refine HeadIs.flatMap hps ?_
    simp only [kw?_cons _ _ _ hrp]
    refine HeadIs.flatMap hthr ?_
    simp only [List.cons_append, peekKw_eq har, if_true, List.tail_cons, hr, List.map_cons, List.map_nil]
    exact ⟨_, rfl⟩

/-- **signatures**: on `[function targets…] ( params ) [throws …] [-> ret] ;` the first candidate of
    `functionL` is the printed signature and stops in front of the `;` -/
theorem functionL_print (fl : Option (List String)) (s : SigShape) (fpre pre : List Token) (semi : Token)
    (rest : List Token) (fuel : Nat)
    (hfp : fpre.map (·.tk) = printFnKw fl) (hp : pre.map (·.tk) = printSig s) (hsemi : semi.tk = .kw ";")
    (hfuel : pre.length ≤ fuel) :
    ∃ fp ps thr ret, HeadIs (functionL fuel (fpre ++ (pre ++ semi :: rest))) (FnSig.mk fl fp ps thr ret) (semi :: rest) ∧
      sigShape? ps thr ret = some s.erase := by
  have hlp : ∃ lp tl, pre = lp :: tl ∧ lp.tk = .kw "(" := by
    simp only [printSig] at hp
    obtain ⟨lp, b1, rfl, hlp, _⟩ := List.map_eq_cons_iff.mp hp
    exact ⟨lp, b1, rfl, hlp⟩
  cases fuel with
  | zero => obtain ⟨lp, tl, rfl, _⟩ := hlp; simp at hfuel
  | succ g =>
    cases fl with
    | none =>
      simp [printFnKw] at hfp; subst hfp
      obtain ⟨ps, thr, ret, h, hs⟩ := sigBody_print s none default pre semi rest g hp hsemi hfuel
      refine ⟨default, ps, thr, ret, ?_, hs⟩
      rw [functionL_succ]
      obtain ⟨lp, tl, rfl, hlp⟩ := hlp
      simp only [List.nil_append, List.cons_append, peekKw_ne hlp (by decide : "(" ≠ "function"),
        Bool.false_eq_true, if_false] at h ⊢
      exact h
    | some l =>
      simp only [printFnKw] at hfp
      obtain ⟨fk, tg, rfl, hfk, htg⟩ := List.map_eq_cons_iff.mp hfp
      obtain ⟨lp, tl, rfl, hlp⟩ := hlp
      have ht := targets_print tg l lp (tl ++ semi :: rest) htg (by simp [hlp])
      obtain ⟨ps, thr, ret, h, hs⟩ := sigBody_print s (some l) (spanPos (tg ++ lp :: (tl ++ semi :: rest)) (lp :: (tl ++ semi :: rest)))
        (lp :: tl) semi rest g hp hsemi hfuel
      refine ⟨spanPos (tg ++ lp :: (tl ++ semi :: rest)) (lp :: (tl ++ semi :: rest)), ps, thr, ret, ?_, hs⟩
      rw [functionL_succ]
      simp only [List.cons_append, peekKw_eq hfk, if_true, List.tail_cons, ht] at h ⊢
      exact h

/-! ## members: fields, properties, methods, error codes, deriving lists -/

theorem field_print (s : FieldShape) (q r : List Token) (fuel : Nat)
    (hq : q.map (·.tk) = printField s) (hfuel : q.length ≤ fuel) :
    ∃ a, field fuel (q ++ r) = some (a, r) ∧ a.shape? = some s.erase := by
  obtain ⟨cs, b1, rfl, hcs, hb⟩ := List.map_eq_append_iff.mp hq
  obtain ⟨nt, b2, rfl, hn, hb⟩ := List.map_eq_cons_iff.mp hb
  obtain ⟨colon, b3, rfl, hc, hb⟩ := List.map_eq_cons_iff.mp hb
  obtain ⟨pre, b4, rfl, hpre, hb⟩ := List.map_eq_append_iff.mp hb
  obtain ⟨semi, b5, rfl, hsemi, hb⟩ := List.map_eq_cons_iff.mp hb
  rw [List.map_eq_nil_iff] at hb; subst hb
  have hneed := need_le_length s.ty pre hpre
  simp only [List.length_append, List.length_cons] at hfuel
  obtain ⟨f, hf, h1, h2, h3⟩ := field_roundtrip s.ty s.name s.comment cs nt colon semi pre r fuel hcs hn hc hpre hsemi
    (by omega)
  refine ⟨f, ?_, ?_⟩
  · simpa using hf
  · simp [Field.shape?, h1, h2, h3, FieldShape.erase]

theorem prop_print (s : PropShape) (q r : List Token) (fuel : Nat)
    (hq : q.map (·.tk) = printProp s) (hfuel : q.length ≤ fuel) :
    ∃ a, member fuel (q ++ r) = some (a, r) ∧ a.shape? = some (.p s.erase) := by
  obtain ⟨cs, b1, rfl, hcs, hb⟩ := List.map_eq_append_iff.mp hq
  obtain ⟨pk, b2, rfl, hpk, hb⟩ := List.map_eq_cons_iff.mp hb
  obtain ⟨nt, b2, rfl, hn, hb⟩ := List.map_eq_cons_iff.mp hb
  obtain ⟨colon, b3, rfl, hc, hb⟩ := List.map_eq_cons_iff.mp hb
  obtain ⟨pre, b4, rfl, hpre, hb⟩ := List.map_eq_append_iff.mp hb
  obtain ⟨semi, b5, rfl, hsemi, hb⟩ := List.map_eq_cons_iff.mp hb
  rw [List.map_eq_nil_iff] at hb; subst hb
  have hneed := need_le_length s.ty pre hpre
  simp only [List.length_append, List.length_cons] at hfuel
  have hfol : FollowOK s.ty (semi :: r) := by
    apply FollowOK_of_simple <;> simp [peekKw_cons, hsemi]
  obtain ⟨t, ht, hs⟩ := typeRefL_print s.ty pre (semi :: r) fuel hpre hfol (by omega)
  have hcm := comments_print' cs s.comment pk (nt :: colon :: (pre ++ semi :: r)) hcs (by simp [hpk])
  unfold member
  simp only [List.append_assoc, List.cons_append, List.nil_append, hcm, peekKw_eq hpk, if_true, List.tail_cons,
    ident, hn, Option.bind_eq_bind, Option.bind_some, kw?_cons _ _ _ hc, ht, firstThat, List.findSome?_cons,
    kw?_cons _ _ _ hsemi, Option.pure_def]
  exact ⟨_, rfl, by simp [Member.shape?, Prop'.shape?, hs, PropShape.erase]⟩

/-- the head token is one of the keywords `allowed` or an identifier -/
def HeadKwId (allowed : List String) (ts : List Token) : Prop :=
  ∃ x xs, ts = x :: xs ∧ ((∃ s ∈ allowed, x.tk = .kw s) ∨ ∃ n, x.tk = .id n)

theorem HeadKwId.base {nt : Token} {n : String} (hn : nt.tk = .id n) (r : List Token) (al : List String) :
    HeadKwId al (nt :: r) := ⟨nt, r, rfl, Or.inr ⟨n, hn⟩⟩

theorem HeadKwId.step {al : List String} {nx : List Token} (h : HeadKwId al nx) (b : Bool) (s : String)
    (m : List Token) (hm : m.map (·.tk) = printMod b s) : HeadKwId (s :: al) (m ++ nx) := by
  cases b with
  | false =>
    simp [printMod] at hm; subst hm
    obtain ⟨x, xs, rfl, h | h⟩ := h
    · obtain ⟨s', hs', hx⟩ := h
      exact ⟨x, xs, rfl, Or.inl ⟨s', List.mem_cons_of_mem _ hs', hx⟩⟩
    · exact ⟨x, xs, rfl, Or.inr h⟩
  | true =>
    simp only [printMod, if_true] at hm
    obtain ⟨k, b1, rfl, hk, hb⟩ := List.map_eq_cons_iff.mp hm
    exact ⟨k, _, rfl, Or.inl ⟨s, List.mem_cons_self, hk⟩⟩

theorem HeadKwId.peekKw_false {al : List String} {ts : List Token} (h : HeadKwId al ts) (s : String) (hs : s ∉ al) :
    peekKw s ts = false := by
  obtain ⟨x, xs, rfl, h | h⟩ := h
  · obtain ⟨s', hs', hx⟩ := h
    exact peekKw_ne hx (by rintro rfl; exact hs hs')
  · obtain ⟨n, hn⟩ := h; exact peekKw_id hn

theorem HeadKwId.comments {al : List String} {ts : List Token} (h : HeadKwId al ts) (cs : List Token) (cstr : List String)
    (hcs : cs.map (·.tk) = printComments cstr) : comments (cs ++ ts) = (cstr, ts) := by
  obtain ⟨x, xs, rfl, h⟩ := h
  apply comments_print' cs cstr x xs hcs
  rcases h with ⟨s', _, hx⟩ | ⟨n, hn⟩
  · simp [hx]
  · simp [hn]

theorem modStep (b : Bool) (s : String) (m nx : List Token) (hm : m.map (·.tk) = printMod b s)
    (hnx : peekKw s nx = false) :
    (if peekKw s (m ++ nx) = true then (true, (m ++ nx).tail) else (false, m ++ nx)) = (b, nx) := by
  cases b with
  | false => simp [printMod] at hm; subst hm; simp [hnx]
  | true =>
    simp only [printMod, if_true] at hm
    obtain ⟨k, b1, rfl, hk, hb⟩ := List.map_eq_cons_iff.mp hm
    rw [List.map_eq_nil_iff] at hb; subst hb
    simp [peekKw_eq hk]

theorem method_print (s : MethodShape) (q r : List Token) (fuel : Nat)
    (hq : q.map (·.tk) = printMethod s) (hfuel : q.length ≤ fuel) :
    ∃ a, member fuel (q ++ r) = some (a, r) ∧ a.shape? = some (.m s.erase) := by
  obtain ⟨cs, b1, rfl, hcs, hb⟩ := List.map_eq_append_iff.mp hq
  obtain ⟨m1, b2, rfl, hm1, hb⟩ := List.map_eq_append_iff.mp hb
  obtain ⟨m2, b3, rfl, hm2, hb⟩ := List.map_eq_append_iff.mp hb
  obtain ⟨m3, b4, rfl, hm3, hb⟩ := List.map_eq_append_iff.mp hb
  obtain ⟨nt, b5, rfl, hn, hb⟩ := List.map_eq_cons_iff.mp hb
  obtain ⟨pre, b6, rfl, hpre, hb⟩ := List.map_eq_append_iff.mp hb
  obtain ⟨semi, b7, rfl, hsemi, hb⟩ := List.map_eq_cons_iff.mp hb
  rw [List.map_eq_nil_iff] at hb; subst hb
  simp only [List.length_append, List.length_cons] at hfuel
  have h0 : HeadKwId [] (nt :: (pre ++ semi :: r)) := HeadKwId.base hn _ _
  have h3 := h0.step _ _ m3 hm3
  have h2 := h3.step _ _ m2 hm2
  have h1 := h2.step _ _ m1 hm1
  have hcm := h1.comments cs s.comment hcs
  have e : cs ++ (m1 ++ (m2 ++ (m3 ++ nt :: (pre ++ [semi])))) ++ r =
      cs ++ (m1 ++ (m2 ++ (m3 ++ nt :: (pre ++ semi :: r)))) := by simp
  obtain ⟨fp, ps, thr, ret, hfn, hsig⟩ := functionL_print none s.sig [] pre semi r fuel rfl hpre hsemi (by omega)
  obtain ⟨lp, tl, hlp, hlpk⟩ : ∃ lp tl, pre = lp :: tl ∧ lp.tk = .kw "(" := by
    simp only [printSig] at hpre
    obtain ⟨lp, b1, rfl, hlp, _⟩ := List.map_eq_cons_iff.mp hpre
    exact ⟨lp, b1, rfl, hlp⟩
  have hpk : peekKw "(" (pre ++ semi :: r) = true := by rw [hlp]; exact peekKw_eq hlpk
  rw [e]
  unfold member
  simp only [hcm, h1.peekKw_false "property" (by decide), Bool.false_eq_true, if_false,
    modStep _ _ m1 _ hm1 (h2.peekKw_false "static" (by decide)),
    modStep _ _ m2 _ hm2 (h3.peekKw_false "const" (by decide)),
    modStep _ _ m3 _ hm3 (h0.peekKw_false "async" (by decide)),
    ident, hn, Option.bind_eq_bind, Option.bind_some, hpk, Bool.not_true]
  simp only [List.nil_append] at hfn
  rw [firstThat_head' hfn (by simp [kw?_cons _ _ _ hsemi])]
  simp only [kw?_cons _ _ _ hsemi, Option.bind_some, Option.pure_def]
  exact ⟨_, rfl, by simp [Member.shape?, Method.shape?, hsig, MethodShape.erase]⟩

theorem member_print (s : MemberShape) (q r : List Token) (fuel : Nat)
    (hq : q.map (·.tk) = printMember s) (hfuel : q.length ≤ fuel) :
    ∃ a, member fuel (q ++ r) = some (a, r) ∧ a.shape? = some s.erase := by
  cases s with
  | m x => exact method_print x q r fuel hq hfuel
  | p x => exact prop_print x q r fuel hq hfuel

theorem errParamsL_print (ps : List ParamShape) (pre : List Token) (rp : Token) (rest : List Token) (fuel n : Nat)
    (hp : pre.map (·.tk) = ps.flatMap printParam) (hrp : rp.tk = .kw ")") (hfuel : pre.length ≤ fuel + 1)
    (hn : ps.length < n) :
    ∃ as, HeadIs (errParamsL fuel n (pre ++ rp :: rest)) as (rp :: rest) ∧
      mapOpt Param.shape? as = some (ps.map ParamShape.erase) := by
  induction ps generalizing pre n with
  | nil =>
    simp at hp; subst hp
    cases n with
    | zero => simp at hn
    | succ k =>
      have hst : startsParam (rp :: rest) = false := by cases rest <;> simp [startsParam, hrp]
      refine ⟨[], ?_, rfl⟩
      simp only [errParamsL, List.nil_append, hst]
      exact ⟨[], by simp⟩
  | cons p ps ih =>
    cases n with
    | zero => simp at hn
    | succ k =>
      rw [List.flatMap_cons] at hp
      have hst := startsParam_of p _ pre (rp :: rest) hp
      obtain ⟨ppre, pre', rfl, hpp, hpre'⟩ := List.map_eq_append_iff.mp hp
      simp only [List.length_append] at hfuel
      have hfo : FollowOK p.ty (pre' ++ rp :: rest) := by
        cases ps with
        | nil =>
          simp at hpre'; subst hpre'
          apply FollowOK_of_simple <;> simp [peekKw_cons, hrp]
        | cons q qs =>
          rw [List.flatMap_cons] at hpre'
          simp only [printParam, List.cons_append] at hpre'
          obtain ⟨nt, b1, rfl, hn', _⟩ := List.map_eq_cons_iff.mp hpre'
          apply FollowOK_of_simple <;> simp [peekKw_cons, hn']
      obtain ⟨a, ha, hs⟩ := paramL_print p ppre (pre' ++ rp :: rest) fuel hpp hfo (by omega)
      obtain ⟨as, has, hss⟩ := ih pre' k hpre' (by omega) (by simp at hn; omega)
      refine ⟨a :: as, ?_, by simp [mapOpt, hs, hss]⟩
      rw [List.append_assoc] at hst ⊢
      simp only [errParamsL, hst, if_true, ha, List.flatMap_cons, List.flatMap_nil, List.append_nil]
      exact (HeadIs.map (fun x : List Param × List Token => (a :: x.1, x.2)) has).append

theorem errCode_print (s : ErrCodeShape) (q r : List Token) (fuel : Nat)
    (hq : q.map (·.tk) = printErrCode s) (hfuel : q.length ≤ fuel) :
    ∃ a, errCode fuel (q ++ r) = some (a, r) ∧ a.shape? = some s.erase := by
  obtain ⟨sn, sps, sc⟩ := s
  simp only [printErrCode] at hq
  obtain ⟨cs, b1, rfl, hcs, hb⟩ := List.map_eq_append_iff.mp hq
  obtain ⟨nt, b2, rfl, hn, hb⟩ := List.map_eq_cons_iff.mp hb
  obtain ⟨par, b3, rfl, hpar, hb⟩ := List.map_eq_append_iff.mp hb
  obtain ⟨semi, b5, rfl, hsemi, hb⟩ := List.map_eq_cons_iff.mp hb
  rw [List.map_eq_nil_iff] at hb; subst hb
  have hcm := comments_print' cs sc nt (par ++ semi :: r) hcs (by simp [hn])
  have e : cs ++ nt :: (par ++ [semi]) ++ r = cs ++ nt :: (par ++ semi :: r) := by simp
  rw [e]
  cases sps with
  | nil =>
    simp at hpar; subst hpar
    unfold errCode
    simp only [List.nil_append] at hcm ⊢
    simp only [hcm, ident, hn, Option.bind_eq_bind, Option.bind_some, peekKw_ne hsemi (by decide : ";" ≠ "("),
      Bool.false_eq_true, if_false, kw?_cons _ _ _ hsemi, Option.pure_def]
    exact ⟨_, rfl, by simp [ErrCode.shape?, mapOpt, ErrCodeShape.erase]⟩
  | cons p ps =>
    simp only at hpar
    obtain ⟨lp, b6, rfl, hlp, hb⟩ := List.map_eq_cons_iff.mp hpar
    obtain ⟨pp, b7, rfl, hpp, hb⟩ := List.map_eq_append_iff.mp hb
    obtain ⟨rp, b8, rfl, hrp, hb⟩ := List.map_eq_cons_iff.mp hb
    rw [List.map_eq_nil_iff] at hb; subst hb
    simp only [List.length_append, List.length_cons] at hfuel
    have hlen := length_le_of_flatMap printParam (fun s => by have := printParam_length s; omega) (p :: ps) pp hpp
    obtain ⟨as, has, hss⟩ := errParamsL_print (p :: ps) pp rp (semi :: r) fuel fuel hpp hrp (by omega) (by omega)
    unfold errCode
    simp only [List.cons_append, List.append_assoc, List.nil_append] at hcm ⊢
    simp only [hcm, ident, hn, Option.bind_eq_bind, Option.bind_some, peekKw_eq hlp, if_true, List.tail_cons]
    rw [firstThat_head' has (by simp [kw?_cons _ _ _ hrp, kw?_cons _ _ _ hsemi])]
    simp only [kw?_cons _ _ _ hrp, kw?_cons _ _ _ hsemi, Option.bind_some, Option.pure_def]
    exact ⟨_, rfl, by simp [ErrCode.shape?, hss, ErrCodeShape.erase]⟩

theorem derivingList_print (ds : List String) (hne : ds ≠ []) (pre : List Token) (rp : Token) (rest : List Token)
    (n : Nat) (hp : pre.map (·.tk) = printIds ds) (hrp : rp.tk = .kw ")") (hn : ds.length ≤ n) :
    ∃ l, derivingList n (pre ++ rp :: rest) = some (l, rp :: rest) ∧ l.map (·.1) = ds := by
  match ds, hne with
  | [d], _ =>
    simp only [printIds] at hp
    obtain ⟨dt, b1, rfl, hd, hb⟩ := List.map_eq_cons_iff.mp hp
    rw [List.map_eq_nil_iff] at hb; subst hb
    cases n with
    | zero => simp at hn
    | succ k =>
      simp only [derivingList, List.cons_append, List.nil_append, ident, hd, Option.bind_eq_bind, Option.bind_some,
        peekKw_ne hrp (by decide : ")" ≠ ","), Bool.false_eq_true, if_false, Option.pure_def]
      exact ⟨_, rfl, by simp⟩
  | d :: e :: ds, _ =>
    simp only [printIds] at hp
    obtain ⟨dt, b1, rfl, hd, hb⟩ := List.map_eq_cons_iff.mp hp
    obtain ⟨comma, pre', rfl, hcomma, hb⟩ := List.map_eq_cons_iff.mp hb
    cases n with
    | zero => simp at hn
    | succ k =>
      obtain ⟨l, hl, hls⟩ := derivingList_print (e :: ds) (by simp) pre' rp rest k hb hrp (by simp at hn ⊢; omega)
      simp only [derivingList, List.cons_append, ident, hd, Option.bind_eq_bind, Option.bind_some,
        peekKw_eq hcomma, if_true, List.tail_cons, hl, Option.pure_def]
      exact ⟨_, rfl, by simp [hls]⟩

theorem printIds_length (ds : List String) : ds.length ≤ (printIds ds).length := by
  match ds with
  | [] => simp
  | [d] => simp [printIds]
  | d :: e :: ds =>
    have := printIds_length (e :: ds)
    simp only [printIds, List.length_cons] at this ⊢
    omega

theorem methods_split (fm : Member → Option Method)
    (hm1 : ∀ x, fm (.m x) = some x) (hm2 : ∀ x, fm (.p x) = none)
    (ms : List Member) (l : List MemberShape) (h : mapOpt Member.shape? ms = some l) :
    mapOpt Method.shape? (ms.filterMap fm) = some (l.filterMap MemberShape.method?) := by
  induction ms generalizing l with
  | nil => simp [mapOpt] at h; subst h; simp [mapOpt]
  | cons a as ih =>
    obtain ⟨x, xs, rfl, hx, hxs⟩ := mapOpt_cons_inv h
    have ih1 := ih xs hxs
    cases a with
    | m y =>
      simp only [Member.shape?, Option.map_eq_some_iff] at hx
      obtain ⟨z, hz, rfl⟩ := hx
      simp [List.filterMap_cons, hm1, MemberShape.method?, mapOpt, hz, ih1]
    | p y =>
      simp only [Member.shape?, Option.map_eq_some_iff] at hx
      obtain ⟨z, hz, rfl⟩ := hx
      simp [List.filterMap_cons, hm2, MemberShape.method?, ih1]

theorem props_split (fp : Member → Option Prop')
    (hp1 : ∀ x, fp (.p x) = some x) (hp2 : ∀ x, fp (.m x) = none)
    (ms : List Member) (l : List MemberShape) (h : mapOpt Member.shape? ms = some l) :
    mapOpt Prop'.shape? (ms.filterMap fp) = some (l.filterMap MemberShape.prop?) := by
  induction ms generalizing l with
  | nil => simp [mapOpt] at h; subst h; simp [mapOpt]
  | cons a as ih =>
    obtain ⟨x, xs, rfl, hx, hxs⟩ := mapOpt_cons_inv h
    have ih1 := ih xs hxs
    cases a with
    | m y =>
      simp only [Member.shape?, Option.map_eq_some_iff] at hx
      obtain ⟨z, hz, rfl⟩ := hx
      simp [List.filterMap_cons, hp2, MemberShape.prop?, ih1]
    | p y =>
      simp only [Member.shape?, Option.map_eq_some_iff] at hx
      obtain ⟨z, hz, rfl⟩ := hx
      simp [List.filterMap_cons, hp1, MemberShape.prop?, mapOpt, hz, ih1]

theorem peekKw_after_comments (c : List String) (cs nx : List Token) (s : String)
    (hcs : cs.map (·.tk) = printComments c) (hnx : peekKw s nx = false) : peekKw s (cs ++ nx) = false := by
  cases cs with
  | nil => exact hnx
  | cons y ys =>
    cases c with
    | nil => simp [printComments] at hcs
    | cons c' _ => simp [printComments] at hcs; simp [peekKw, hcs.1]

/-! ## blocks `{ element* }` -/

theorem length_le_flatMap_of_mem {σ : Type} (pr : σ → List Tk) (items : List σ) (s : σ) (hs : s ∈ items) :
    (pr s).length ≤ (items.flatMap pr).length := by
  induction items with
  | nil => simp at hs
  | cons a as ih =>
    simp only [List.flatMap_cons, List.length_append]
    rcases List.mem_cons.mp hs with rfl | h
    · omega
    · have := ih h; omega

/-- `many` on a printed block body `e₁ … eₙ }`: every element is at most `bound` tokens long -/
theorem many_block {α σ τ : Type} (fuel : Nat) (p : P α) (pr : σ → List Tk) (f : α → Option τ) (g : σ → τ)
    (items : List σ) (bound : Nat) (h1 : ∀ s, 1 ≤ (pr s).length)
    (hstart : ∀ s ∈ items, ∀ q r, q.map (·.tk) = pr s → peekKw "}" (q ++ r) = false)
    (hitem : ∀ s ∈ items, ∀ q r, q.map (·.tk) = pr s → q.length ≤ bound → ∃ a, p (q ++ r) = some (a, r) ∧ f a = some (g s))
    (pre : List Token) (rb : Token) (rest : List Token) (n : Nat)
    (hp : pre.map (·.tk) = items.flatMap pr) (hrb : rb.tk = .kw "}") (hpre : pre.length ≤ bound) (hn : pre.length < n) :
    ∃ as, many fuel (peekKw "}") p n (pre ++ rb :: rest) = some (as, rb :: rest) ∧ mapOpt f as = some (items.map g) := by
  have hlen := length_le_of_flatMap pr h1 items pre hp
  have hl : pre.length = (items.flatMap pr).length := by rw [← hp, List.length_map]
  obtain ⟨-, as, h, hs⟩ := many_print fuel (peekKw "}") p pr f g (fun _ => True) items
    (by
      intro s hs q r hq _
      refine ⟨hstart s hs q r hq, trivial, hitem s hs q r hq ?_⟩
      have := length_le_flatMap_of_mem pr items s hs
      have e : q.length = (pr s).length := by rw [← hq, List.length_map]
      omega)
    pre (rb :: rest) n hp (peekKw_eq hrb) trivial (by omega)
  exact ⟨as, h, hs⟩

/-! ## the remaining declaration kinds -/

theorem typeDecl_record_print (fuel : Nat) (c : List String) (ts0 : List Token) (n : String) (targets' : List String)
    (fields : List FieldShape) (deriving' : Option (List String)) (body rest : List Token)
    (hb : body.map (·.tk) = Tk.id n :: Tk.kw "=" :: Tk.kw "record" :: (printTargets targets' ++ Tk.kw "{" ::
      (fields.flatMap printField ++ Tk.kw "}" :: printDeriving deriving')))
    (hfollow : deriving' = none → peekKw "deriving" rest = false)
    (hfuel : body.length ≤ fuel + 1) :
    ∃ d, typeDecl fuel c ts0 (body ++ rest) = some (d, rest) ∧
      d.shape? = some (.record n c targets' (fields.map FieldShape.erase) deriving') := by
  obtain ⟨nt, b1, rfl, hn, hb⟩ := List.map_eq_cons_iff.mp hb
  obtain ⟨eq, b2, rfl, heq, hb⟩ := List.map_eq_cons_iff.mp hb
  obtain ⟨k, b3, rfl, hk, hb⟩ := List.map_eq_cons_iff.mp hb
  obtain ⟨tg, b4, rfl, htg, hb⟩ := List.map_eq_append_iff.mp hb
  obtain ⟨lb, b5, rfl, hlb, hb⟩ := List.map_eq_cons_iff.mp hb
  obtain ⟨fpre, b6, rfl, hfpre, hb⟩ := List.map_eq_append_iff.mp hb
  obtain ⟨rb, dv, rfl, hrb, hdv⟩ := List.map_eq_cons_iff.mp hb
  simp only [List.length_cons, List.length_append] at hfuel
  have ht := targets_print tg targets' lb (fpre ++ rb :: (dv ++ rest)) htg (by simp [hlb])
  obtain ⟨fs, hmany, hfs⟩ := many_block fuel (field fuel) printField Field.shape? FieldShape.erase fields fuel
    (fun s => by simp [printField]; omega)
    (fun s _ q r hq => startsCI_peekKw (startsCI_of s.comment s.name _ q r hq) _)
    (fun s _ q r hq hl => field_print s q r fuel hq hl)
    fpre rb (dv ++ rest) fuel hfpre hrb (by omega) (by omega)
  have e : nt :: eq :: k :: (tg ++ lb :: (fpre ++ rb :: dv)) ++ rest =
      nt :: eq :: k :: (tg ++ lb :: (fpre ++ rb :: (dv ++ rest))) := by simp
  rw [e]
  unfold typeDecl
  simp only [ident, hn, Option.bind_eq_bind, Option.bind_some, kw?_cons _ _ _ heq,
    peekKw_ne hk (by decide : "record" ≠ "enum"), peekKw_ne hk (by decide : "record" ≠ "flags"), peekKw_eq hk,
    Bool.false_eq_true, if_false, if_true, List.tail_cons, ht, kw?_cons _ _ _ hlb, hmany, kw?_cons _ _ _ hrb]
  match deriving' with
  | none =>
    simp [printDeriving] at hdv; subst hdv
    simp only [List.nil_append, hfollow rfl, Bool.false_eq_true, if_false, Option.pure_def]
    exact ⟨_, rfl, by simp [Decl.shape?, hfs]⟩
  | some [] =>
    simp only [printDeriving, printIds, List.nil_append] at hdv
    obtain ⟨dk, b7, rfl, hdk, hb⟩ := List.map_eq_cons_iff.mp hdv
    obtain ⟨lp, b8, rfl, hlp, hb⟩ := List.map_eq_cons_iff.mp hb
    obtain ⟨rp, b9, rfl, hrp, hb⟩ := List.map_eq_cons_iff.mp hb
    rw [List.map_eq_nil_iff] at hb; subst hb
    simp only [List.cons_append, List.nil_append, peekKw_eq hdk, if_true, List.tail_cons, kw?_cons _ _ _ hlp,
      Option.bind_some, peekKw_eq hrp, Option.pure_def, kw?_cons _ _ _ hrp]
    exact ⟨_, rfl, by simp [Decl.shape?, hfs]⟩
  | some (d :: ds) =>
    simp only [printDeriving] at hdv
    obtain ⟨dk, b7, rfl, hdk, hb⟩ := List.map_eq_cons_iff.mp hdv
    obtain ⟨lp, b8, rfl, hlp, hb⟩ := List.map_eq_cons_iff.mp hb
    obtain ⟨ids, b9, rfl, hids, hb⟩ := List.map_eq_append_iff.mp hb
    obtain ⟨rp, b10, rfl, hrp, hb⟩ := List.map_eq_cons_iff.mp hb
    rw [List.map_eq_nil_iff] at hb; subst hb
    have hil : (d :: ds).length ≤ ids.length := by
      have := printIds_length (d :: ds); rw [← hids, List.length_map] at this; exact this
    simp only [List.length_cons, List.length_append] at hfuel hil
    obtain ⟨l, hl, hls⟩ := derivingList_print (d :: ds) (by simp) ids rp rest fuel hids hrp (by simp only [List.length_cons]; omega)
    have hnp : peekKw ")" (ids ++ rp :: rest) = false := by
      cases ds with
      | nil =>
        simp only [printIds] at hids
        obtain ⟨x, _, rfl, hx, _⟩ := List.map_eq_cons_iff.mp hids
        exact peekKw_id hx
      | cons e es =>
        simp only [printIds] at hids
        obtain ⟨x, _, rfl, hx, _⟩ := List.map_eq_cons_iff.mp hids
        exact peekKw_id hx
    simp only [List.cons_append, List.append_assoc, List.nil_append, peekKw_eq hdk, if_true, List.tail_cons,
      kw?_cons _ _ _ hlp, Option.bind_some, hnp, Bool.false_eq_true, if_false, hl, kw?_cons _ _ _ hrp, Option.pure_def]
    exact ⟨_, rfl, by simp [Decl.shape?, hfs, hls]⟩

theorem typeDecl_interface_print (fuel : Nat) (c : List String) (ts0 : List Token) (n : String) (main : Bool)
    (targets' : List String) (members : List MemberShape) (body rest : List Token)
    (hb : body.map (·.tk) = Tk.id n :: Tk.kw "=" :: (printMod main "main" ++ Tk.kw "interface" ::
      (printTargets targets' ++ Tk.kw "{" :: (members.flatMap printMember ++ [Tk.kw "}"]))))
    (hfuel : body.length ≤ fuel + 1) :
    ∃ d, typeDecl fuel c ts0 (body ++ rest) = some (d, rest) ∧
      d.shape? = some (.interface n c main targets' (sortMembers (members.map MemberShape.erase))) := by
  obtain ⟨nt, b1, rfl, hn, hb⟩ := List.map_eq_cons_iff.mp hb
  obtain ⟨eq, b2, rfl, heq, hb⟩ := List.map_eq_cons_iff.mp hb
  obtain ⟨mn, b3, rfl, hmn, hb⟩ := List.map_eq_append_iff.mp hb
  obtain ⟨k, b3, rfl, hk, hb⟩ := List.map_eq_cons_iff.mp hb
  obtain ⟨tg, b4, rfl, htg, hb⟩ := List.map_eq_append_iff.mp hb
  obtain ⟨lb, b5, rfl, hlb, hb⟩ := List.map_eq_cons_iff.mp hb
  obtain ⟨mpre, b6, rfl, hmpre, hb⟩ := List.map_eq_append_iff.mp hb
  obtain ⟨rb, b7, rfl, hrb, hb⟩ := List.map_eq_cons_iff.mp hb
  rw [List.map_eq_nil_iff] at hb; subst hb
  simp only [List.length_cons, List.length_append] at hfuel
  have ht := targets_print tg targets' lb (mpre ++ rb :: rest) htg (by simp [hlb])
  obtain ⟨ms, hmany, hms⟩ := many_block fuel (member fuel) printMember Member.shape? MemberShape.erase members fuel
    (fun s => by cases s <;> simp [printMember, printMethod, printProp] <;> omega)
    (fun s _ q r hq => by
      cases s with
      | p x =>
        obtain ⟨cs, b1, rfl, hcs, hb⟩ := List.map_eq_append_iff.mp hq
        obtain ⟨pk, b2, rfl, hpk, hb⟩ := List.map_eq_cons_iff.mp hb
        rw [List.append_assoc]
        exact peekKw_after_comments _ cs _ _ hcs (peekKw_ne hpk (by decide))
      | m x =>
        obtain ⟨cs, b1, rfl, hcs, hb⟩ := List.map_eq_append_iff.mp hq
        obtain ⟨m1, b2, rfl, hm1, hb⟩ := List.map_eq_append_iff.mp hb
        obtain ⟨m2, b3, rfl, hm2, hb⟩ := List.map_eq_append_iff.mp hb
        obtain ⟨m3, b4, rfl, hm3, hb⟩ := List.map_eq_append_iff.mp hb
        obtain ⟨nt, b5, rfl, hn, hb⟩ := List.map_eq_cons_iff.mp hb
        have h0 : HeadKwId [] (nt :: (b5 ++ r)) := HeadKwId.base hn _ _
        have h1 := ((h0.step _ _ m3 hm3).step _ _ m2 hm2).step _ _ m1 hm1
        have e : cs ++ (m1 ++ (m2 ++ (m3 ++ nt :: b5))) ++ r = cs ++ (m1 ++ (m2 ++ (m3 ++ nt :: (b5 ++ r)))) := by simp
        rw [e]
        exact peekKw_after_comments _ cs _ _ hcs (h1.peekKw_false "}" (by decide)))
    (fun s _ q r hq hl => member_print s q r fuel hq hl)
    mpre rb rest fuel hmpre hrb (by omega) (by omega)
  cases main with
  | false =>
    simp [printMod] at hmn; subst hmn
    have e : nt :: eq :: ([] ++ k :: (tg ++ lb :: (mpre ++ [rb]))) ++ rest =
        nt :: eq :: k :: (tg ++ lb :: (mpre ++ rb :: rest)) := by simp
    rw [e]
    unfold typeDecl
    simp only [ident, hn, Option.bind_eq_bind, Option.bind_some, kw?_cons _ _ _ heq,
      peekKw_ne hk (by decide : "interface" ≠ "enum"), peekKw_ne hk (by decide : "interface" ≠ "flags"),
      peekKw_ne hk (by decide : "interface" ≠ "record"), peekKw_ne hk (by decide : "interface" ≠ "main"),
      peekKw_eq hk, Bool.false_eq_true, if_false, Bool.or_true, Bool.false_or, if_true, ht, kw?_cons _ _ _ hk,
      kw?_cons _ _ _ hlb, hmany, kw?_cons _ _ _ hrb, Option.pure_def]
    refine ⟨_, rfl, ?_⟩
    simp only [Decl.shape?]
    rw [methods_split _ (fun _ => rfl) (fun _ => rfl) ms _ hms, props_split _ (fun _ => rfl) (fun _ => rfl) ms _ hms]
    simp [sortMembers]
  | true =>
    simp only [printMod, if_true] at hmn
    obtain ⟨mk, b8, rfl, hmk, hb⟩ := List.map_eq_cons_iff.mp hmn
    rw [List.map_eq_nil_iff] at hb; subst hb
    have e : nt :: eq :: ([mk] ++ k :: (tg ++ lb :: (mpre ++ [rb]))) ++ rest =
        nt :: eq :: mk :: k :: (tg ++ lb :: (mpre ++ rb :: rest)) := by simp
    rw [e]
    unfold typeDecl
    simp only [ident, hn, Option.bind_eq_bind, Option.bind_some, kw?_cons _ _ _ heq,
      peekKw_ne hmk (by decide : "main" ≠ "enum"), peekKw_ne hmk (by decide : "main" ≠ "flags"),
      peekKw_ne hmk (by decide : "main" ≠ "record"), peekKw_eq hmk, List.tail_cons,
      Bool.false_eq_true, if_false, Bool.true_or, if_true, ht, kw?_cons _ _ _ hk,
      kw?_cons _ _ _ hlb, hmany, kw?_cons _ _ _ hrb, Option.pure_def]
    refine ⟨_, rfl, ?_⟩
    simp only [Decl.shape?]
    rw [methods_split _ (fun _ => rfl) (fun _ => rfl) ms _ hms, props_split _ (fun _ => rfl) (fun _ => rfl) ms _ hms]
    simp [sortMembers]

theorem typeDecl_function_print (fuel : Nat) (c : List String) (ts0 : List Token) (n : String)
    (fl : Option (List String)) (sig : SigShape) (body rest : List Token)
    (hb : body.map (·.tk) = Tk.id n :: Tk.kw "=" :: (printFnKw fl ++ (printSig sig ++ [Tk.kw ";"])))
    (hfuel : body.length ≤ fuel + 1) :
    ∃ d, typeDecl fuel c ts0 (body ++ rest) = some (d, rest) ∧ d.shape? = some (.function n c fl sig.erase) := by
  obtain ⟨nt, b1, rfl, hn, hb⟩ := List.map_eq_cons_iff.mp hb
  obtain ⟨eq, b2, rfl, heq, hb⟩ := List.map_eq_cons_iff.mp hb
  obtain ⟨fk, b3, rfl, hfk, hb⟩ := List.map_eq_append_iff.mp hb
  obtain ⟨pre, b4, rfl, hpre, hb⟩ := List.map_eq_append_iff.mp hb
  obtain ⟨semi, b5, rfl, hsemi, hb⟩ := List.map_eq_cons_iff.mp hb
  rw [List.map_eq_nil_iff] at hb; subst hb
  simp only [List.length_cons, List.length_append] at hfuel
  obtain ⟨fp, ps, thr, ret, hfn, hsig⟩ := functionL_print fl sig fk pre semi rest fuel hfk hpre hsemi (by omega)
  have hhead : ∃ x xs, fk ++ (pre ++ semi :: rest) = x :: xs ∧ (x.tk = .kw "function" ∨ x.tk = .kw "(") := by
    cases fl with
    | none =>
      simp [printFnKw] at hfk; subst hfk
      simp only [printSig] at hpre
      obtain ⟨lp, b1, rfl, hlp, _⟩ := List.map_eq_cons_iff.mp hpre
      exact ⟨lp, _, rfl, Or.inr hlp⟩
    | some l =>
      simp only [printFnKw] at hfk
      obtain ⟨x, b1, rfl, hx, _⟩ := List.map_eq_cons_iff.mp hfk
      exact ⟨x, _, rfl, Or.inl hx⟩
  have hpk : ∀ s : String, s ≠ "function" → s ≠ "(" → peekKw s (fk ++ (pre ++ semi :: rest)) = false := by
    intro s h1 h2
    obtain ⟨x, xs, e, hx | hx⟩ := hhead
    · rw [e]; exact peekKw_ne hx (Ne.symm h1)
    · rw [e]; exact peekKw_ne hx (Ne.symm h2)
  have e : nt :: eq :: (fk ++ (pre ++ [semi])) ++ rest = nt :: eq :: (fk ++ (pre ++ semi :: rest)) := by simp
  rw [e]
  unfold typeDecl
  simp only [ident, hn, Option.bind_eq_bind, Option.bind_some, kw?_cons _ _ _ heq,
    hpk "enum" (by decide) (by decide), hpk "flags" (by decide) (by decide), hpk "record" (by decide) (by decide),
    hpk "main" (by decide) (by decide), hpk "interface" (by decide) (by decide), hpk "error" (by decide) (by decide),
    Bool.false_eq_true, if_false, Bool.or_false]
  rw [firstThat_head' hfn (by simp [kw?_cons _ _ _ hsemi])]
  simp only [kw?_cons _ _ _ hsemi, Option.bind_some, Option.pure_def]
  exact ⟨_, rfl, by simp [Decl.shape?, hsig]⟩

theorem typeDecl_error_print (fuel : Nat) (c : List String) (ts0 : List Token) (n : String) (codes : List ErrCodeShape)
    (body rest : List Token)
    (hb : body.map (·.tk) = Tk.id n :: Tk.kw "=" :: Tk.kw "error" :: Tk.kw "{" :: (codes.flatMap printErrCode ++ [Tk.kw "}"]))
    (hfuel : body.length ≤ fuel + 1) :
    ∃ d, typeDecl fuel c ts0 (body ++ rest) = some (d, rest) ∧
      d.shape? = some (.error n c (codes.map ErrCodeShape.erase)) := by
  obtain ⟨nt, b1, rfl, hn, hb⟩ := List.map_eq_cons_iff.mp hb
  obtain ⟨eq, b2, rfl, heq, hb⟩ := List.map_eq_cons_iff.mp hb
  obtain ⟨k, b3, rfl, hk, hb⟩ := List.map_eq_cons_iff.mp hb
  obtain ⟨lb, b4, rfl, hlb, hb⟩ := List.map_eq_cons_iff.mp hb
  obtain ⟨pre, b5, rfl, hpre, hb⟩ := List.map_eq_append_iff.mp hb
  obtain ⟨rb, b6, rfl, hrb, hb⟩ := List.map_eq_cons_iff.mp hb
  rw [List.map_eq_nil_iff] at hb; subst hb
  simp only [List.length_cons, List.length_append] at hfuel
  obtain ⟨cs, hmany, hcs⟩ := many_block fuel (errCode fuel) printErrCode ErrCode.shape? ErrCodeShape.erase codes fuel
    (fun s => by simp [printErrCode]; omega)
    (fun s _ q r hq => startsCI_peekKw (startsCI_of s.comment s.name _ q r hq) _)
    (fun s _ q r hq hl => errCode_print s q r fuel hq hl)
    pre rb rest fuel hpre hrb (by omega) (by omega)
  have e : nt :: eq :: k :: lb :: (pre ++ [rb]) ++ rest = nt :: eq :: k :: lb :: (pre ++ rb :: rest) := by simp
  rw [e]
  unfold typeDecl
  simp only [ident, hn, Option.bind_eq_bind, Option.bind_some, kw?_cons _ _ _ heq,
    peekKw_ne hk (by decide : "error" ≠ "enum"), peekKw_ne hk (by decide : "error" ≠ "flags"),
    peekKw_ne hk (by decide : "error" ≠ "record"), peekKw_ne hk (by decide : "error" ≠ "main"),
    peekKw_ne hk (by decide : "error" ≠ "interface"), peekKw_eq hk,
    Bool.false_eq_true, if_false, Bool.or_false, if_true, List.tail_cons, kw?_cons _ _ _ hlb, hmany,
    kw?_cons _ _ _ hrb, Option.pure_def]
  exact ⟨_, rfl, by simp [Decl.shape?, hcs]⟩

/-! ## all declarations at once -/

def DeclShape.comment : DeclShape → List String
  | .enum _ c _ | .flags _ c _ | .record _ c _ _ _ | .interface _ c _ _ _ | .function _ c _ _ | .error _ c _ => c

/-- the tokens of a declaration after its comment lines -/
def printDeclBody : DeclShape → List Tk
  | .enum n _ is => Tk.id n :: Tk.kw "=" :: Tk.kw "enum" :: Tk.kw "{" :: (is.flatMap printItem ++ [Tk.kw "}"])
  | .flags n _ is => Tk.id n :: Tk.kw "=" :: Tk.kw "flags" :: Tk.kw "{" :: (is.flatMap printFlagItem ++ [Tk.kw "}"])
  | .record n _ t fs d => Tk.id n :: Tk.kw "=" :: Tk.kw "record" :: (printTargets t ++ Tk.kw "{" ::
      (fs.flatMap printField ++ Tk.kw "}" :: printDeriving d))
  | .interface n _ mn t ms => Tk.id n :: Tk.kw "=" :: (printMod mn "main" ++ Tk.kw "interface" ::
      (printTargets t ++ Tk.kw "{" :: (ms.flatMap printMember ++ [Tk.kw "}"])))
  | .function n _ fl s => Tk.id n :: Tk.kw "=" :: (printFnKw fl ++ (printSig s ++ [Tk.kw ";"]))
  | .error n _ cs => Tk.id n :: Tk.kw "=" :: Tk.kw "error" :: Tk.kw "{" :: (cs.flatMap printErrCode ++ [Tk.kw "}"])

theorem printDecl_eq (d : DeclShape) : printDecl d = printComments d.comment ++ printDeclBody d := by
  cases d <;> rfl

/-- the exact follow-set condition of a printed declaration: only a record without `deriving`
    looks at the next token (which must not be `deriving`) -/
def DeclFollowOK : DeclShape → List Token → Prop
  | .record _ _ _ _ none, rest => peekKw "deriving" rest = false
  | _, _ => True

theorem printDeclBody_head (d : DeclShape) : ∃ n tl, printDeclBody d = Tk.id n :: tl := by
  cases d <;> exact ⟨_, _, rfl⟩

theorem typeDecl_print (d : DeclShape) (fuel : Nat) (ts0 body rest : List Token)
    (hb : body.map (·.tk) = printDeclBody d) (hfollow : DeclFollowOK d rest) (hfuel : body.length ≤ fuel + 1) :
    ∃ x, typeDecl fuel d.comment ts0 (body ++ rest) = some (x, rest) ∧ x.shape? = some d.erase := by
  cases d with
  | enum n c is => exact typeDecl_enum_print fuel c ts0 n is body rest hb hfuel
  | flags n c is => exact typeDecl_flags_print fuel c ts0 n is body rest hb hfuel
  | record n c t fs dv =>
    refine typeDecl_record_print fuel c ts0 n t fs dv body rest hb ?_ hfuel
    rintro rfl; exact hfollow
  | interface n c mn t ms => exact typeDecl_interface_print fuel c ts0 n mn t ms body rest hb hfuel
  | function n c fl s => exact typeDecl_function_print fuel c ts0 n fl s body rest hb hfuel
  | error n c cs => exact typeDecl_error_print fuel c ts0 n cs body rest hb hfuel

/-! ## namespaces and files -/

/-- first token of a printed namespace content: a comment, an identifier or `namespace` -/
def StartsContent (ts : List Token) : Prop :=
  ∃ x xs, ts = x :: xs ∧ ((∃ c, x.tk = .comment c) ∨ (∃ n, x.tk = .id n) ∨ x.tk = .kw "namespace")

theorem StartsContent.peekKw_false {ts : List Token} (h : StartsContent ts) (s : String) (hs : s ≠ "namespace") :
    peekKw s ts = false := by
  obtain ⟨x, xs, rfl, h | h | h⟩ := h
  · obtain ⟨c, hc⟩ := h; simp [peekKw, hc]
  · obtain ⟨c, hc⟩ := h; exact peekKw_id hc
  · exact peekKw_ne h (Ne.symm hs)

theorem startsContent_of_comments (c : List String) (cs nx : List Token) (hcs : cs.map (·.tk) = printComments c)
    (hnx : StartsContent nx) : StartsContent (cs ++ nx) := by
  cases cs with
  | nil => exact hnx
  | cons y ys =>
    cases c with
    | nil => simp [printComments] at hcs
    | cons c' _ => simp [printComments] at hcs; exact ⟨y, _, rfl, Or.inl ⟨_, hcs.1⟩⟩

theorem printContent_head (s : ContentShape) (q r : List Token) (hq : q.map (·.tk) = printContent s) :
    StartsContent (q ++ r) := by
  cases s with
  | decl d =>
    simp only [printContent, printDecl_eq] at hq
    obtain ⟨cs, body, rfl, hcs, hb⟩ := List.map_eq_append_iff.mp hq
    obtain ⟨n, tl, hd⟩ := printDeclBody_head d
    rw [hd] at hb
    obtain ⟨nt, b, rfl, hn, _⟩ := List.map_eq_cons_iff.mp hb
    rw [List.append_assoc]
    exact startsContent_of_comments _ cs _ hcs ⟨nt, _, rfl, Or.inr (Or.inl ⟨_, hn⟩)⟩
  | ns n d c cs' =>
    simp only [printContent] at hq
    obtain ⟨cs, body, rfl, hcs, hb⟩ := List.map_eq_append_iff.mp hq
    obtain ⟨nk, b, rfl, hnk, _⟩ := List.map_eq_cons_iff.mp hb
    rw [List.append_assoc]
    exact startsContent_of_comments _ cs _ hcs ⟨nk, _, rfl, Or.inr (Or.inr hnk)⟩

theorem printContent_length_pos (s : ContentShape) : 1 ≤ (printContent s).length := by
  cases s with
  | decl d =>
    obtain ⟨n, tl, hd⟩ := printDeclBody_head d
    simp [printContent, printDecl_eq, hd]; omega
  | ns n d c cs' => simp [printContent]; omega

theorem content_succ (fuel : Nat) (ts0 : List Token) : content (fuel+1) ts0 =
    if peekKw "namespace" (comments ts0).2 then
      match nsIdent (comments ts0).2.tail with
      | none => none
      | some (n, ts) =>
        match kw? "{" ts with
        | none => none
        | some ts =>
          match many fuel (peekKw "}") (content fuel) fuel ts with
          | none => none
          | some (cs, ts) =>
            match kw? "}" ts with
            | none => none
            | some ts => some (.ns n (comments ts0).1 cs (spanPos ts0 ts), ts)
    else
      match typeDecl fuel (comments ts0).1 ts0 (comments ts0).2 with
      | none => none
      | some (d, ts) => some (.decl d, ts) := by
  rw [content.eq_2]
  generalize comments ts0 = x
  obtain ⟨c, ts⟩ := x
  simp only
  split
  · cases nsIdent ts.tail with
    | none => rfl
    | some y =>
      obtain ⟨n, ts1⟩ := y
      simp only [Option.bind_eq_bind, Option.bind_some]
      cases kw? "{" ts1 with
      | none => rfl
      | some ts2 =>
        simp only [Option.bind_some]
        cases many fuel (peekKw "}") (content fuel) fuel ts2 with
        | none => rfl
        | some z =>
          obtain ⟨cs, ts3⟩ := z
          simp only [Option.bind_some]
          cases kw? "}" ts3 with
          | none => rfl
          | some ts4 => rfl
  · cases typeDecl fuel c ts0 ts with
    | none => rfl
    | some y => rfl

/-- exact follow-set condition of a printed namespace content -/
def ContentFollowOK : ContentShape → List Token → Prop
  | .decl d, rest => DeclFollowOK d rest
  | .ns _ _ _ _, _ => True

theorem ContentFollowOK_of_simple (s : ContentShape) (rest : List Token) (h : peekKw "deriving" rest = false) :
    ContentFollowOK s rest := by
  cases s with
  | decl d => cases d <;> first | trivial | (rename_i dv; cases dv <;> first | exact h | trivial)
  | ns _ _ _ _ => trivial

theorem printContents_follow (l : List ContentShape) (pre rest : List Token) (hp : pre.map (·.tk) = printContents l)
    (h : peekKw "deriving" rest = false) : peekKw "deriving" (pre ++ rest) = false := by
  cases l with
  | nil => simp [printContents] at hp; subst hp; exact h
  | cons a as =>
    simp only [printContents] at hp
    obtain ⟨q, pre', rfl, hq, _⟩ := List.map_eq_append_iff.mp hp
    rw [List.append_assoc]
    exact (printContent_head a q (pre' ++ rest) hq).peekKw_false _ (by decide)

mutual
theorem content_print (s : ContentShape) (pre rest : List Token) (fuel : Nat)
    (hp : pre.map (·.tk) = printContent s) (hfollow : ContentFollowOK s rest) (hfuel : pre.length ≤ fuel) :
    ∃ a, content fuel (pre ++ rest) = some (a, rest) ∧ a.shape? = some s.erase := by
  match s with
  | .decl d =>
    simp only [printContent, printDecl_eq] at hp
    obtain ⟨cs, body, rfl, hcs, hb⟩ := List.map_eq_append_iff.mp hp
    obtain ⟨n, tl, hd⟩ := printDeclBody_head d
    have hb' := hb
    rw [hd] at hb'
    obtain ⟨nt, b, rfl, hn, _⟩ := List.map_eq_cons_iff.mp hb'
    simp only [List.length_append] at hfuel
    cases fuel with
    | zero => simp at hfuel
    | succ g =>
      have hcm := comments_print' cs d.comment nt (b ++ rest) hcs (by simp [hn])
      obtain ⟨x, hx, hxs⟩ := typeDecl_print d g (cs ++ nt :: (b ++ rest)) (nt :: b) rest hb hfollow (by omega)
      have e : cs ++ nt :: b ++ rest = cs ++ nt :: (b ++ rest) := by simp
      rw [e, content_succ, hcm]
      simp only [peekKw_id hn, Bool.false_eq_true, if_false]
      rw [List.cons_append] at hx
      rw [hx]
      exact ⟨_, rfl, by simp [Content.shape?, hxs, ContentShape.erase]⟩
  | .ns n d c l =>
    simp only [printContent] at hp
    obtain ⟨cs, b1, rfl, hcs, hb⟩ := List.map_eq_append_iff.mp hp
    obtain ⟨nk, b2, rfl, hnk, hb⟩ := List.map_eq_cons_iff.mp hb
    obtain ⟨nm, b3, rfl, hnm, hb⟩ := List.map_eq_cons_iff.mp hb
    obtain ⟨lb, b4, rfl, hlb, hb⟩ := List.map_eq_cons_iff.mp hb
    obtain ⟨cpre, b5, rfl, hcpre, hb⟩ := List.map_eq_append_iff.mp hb
    obtain ⟨rb, b6, rfl, hrb, hb⟩ := List.map_eq_cons_iff.mp hb
    rw [List.map_eq_nil_iff] at hb; subst hb
    simp only [List.length_append, List.length_cons] at hfuel
    cases fuel with
    | zero => omega
    | succ g =>
      have hcm := comments_print' cs c nk (nm :: lb :: (cpre ++ rb :: rest)) hcs (by simp [hnk])
      obtain ⟨as, has, hss⟩ := contents_print l cpre (rb :: rest) (peekKw "}") g g g hcpre (peekKw_eq hrb)
        (fun ts h => h.peekKw_false _ (by decide)) (peekKw_ne hrb (by decide)) (by omega) (by omega)
      have e : cs ++ nk :: nm :: lb :: (cpre ++ [rb]) ++ rest = cs ++ nk :: nm :: lb :: (cpre ++ rb :: rest) := by simp
      rw [e, content_succ, hcm]
      simp only [peekKw_eq hnk, if_true, List.tail_cons, nsIdent_name nm _ n d hnm, kw?_cons _ _ _ hlb, has,
        kw?_cons _ _ _ hrb]
      exact ⟨_, rfl, by simp [Content.shape?, hss, ContentShape.erase]⟩
theorem contents_print (l : List ContentShape) (pre rest : List Token) (stop : List Token → Bool) (fuel' fuel n : Nat)
    (hp : pre.map (·.tk) = printContents l) (hstop : stop rest = true)
    (hstart : ∀ ts, StartsContent ts → stop ts = false) (hfollow : peekKw "deriving" rest = false)
    (hfuel : pre.length ≤ fuel) (hn : pre.length < n) :
    ∃ as, many fuel' stop (content fuel) n (pre ++ rest) = some (as, rest) ∧
      contentsShape? as = some (eraseContents l) := by
  match l with
  | [] =>
    simp [printContents] at hp; subst hp
    cases n with
    | zero => simp at hn
    | succ k => exact ⟨[], by simp [many, hstop], rfl⟩
  | a :: as =>
    simp only [printContents] at hp
    obtain ⟨q, pre', rfl, hq, hpre'⟩ := List.map_eq_append_iff.mp hp
    have hpos := printContent_length_pos a
    rw [← hq, List.length_map] at hpos
    simp only [List.length_append] at hfuel hn
    cases n with
    | zero => omega
    | succ k =>
      have hfo := printContents_follow as pre' rest hpre' hfollow
      obtain ⟨x, hx, hxs⟩ := content_print a q (pre' ++ rest) fuel hq (ContentFollowOK_of_simple _ _ hfo) (by omega)
      obtain ⟨xs, hxs', hxss⟩ := contents_print as pre' rest stop fuel' fuel k hpre' hstop hstart hfollow
        (by omega) (by omega)
      have hst := hstart _ (printContent_head a q (pre' ++ rest) hq)
      rw [List.append_assoc]
      refine ⟨x :: xs, ?_, by simp [contentsShape?, hxs, hxss, eraseContents]⟩
      simp [many, hst, hx, hxs']
end

theorem load_print (s : LoadShape) (q r : List Token) (hq : q.map (·.tk) = printLoad s) :
    ∃ a, load (q ++ r) = some (a, r) ∧ a.shape = s := by
  obtain ⟨imp, lit⟩ := s
  simp only [printLoad] at hq
  obtain ⟨a, b1, rfl, ha, hb⟩ := List.map_eq_cons_iff.mp hq
  obtain ⟨b, b2, rfl, hbt, hb⟩ := List.map_eq_cons_iff.mp hb
  rw [List.map_eq_nil_iff] at hb; subst hb
  cases imp with
  | true =>
    simp only [if_true] at ha
    simp only [load, List.cons_append, List.nil_append, hbt, ha, beq_self_eq_true, if_true]
    exact ⟨_, rfl, rfl⟩
  | false =>
    simp only [Bool.false_eq_true, if_false] at ha
    simp only [load, List.cons_append, List.nil_append, hbt, ha]
    exact ⟨_, rfl, rfl⟩

theorem printContents_nil_or_starts (l : List ContentShape) (pre : List Token) (hp : pre.map (·.tk) = printContents l) :
    pre = [] ∨ StartsContent pre := by
  cases l with
  | nil => simp [printContents] at hp; exact Or.inl hp
  | cons a as =>
    simp only [printContents] at hp
    obtain ⟨q, pre', rfl, hq, _⟩ := List.map_eq_append_iff.mp hp
    exact Or.inr (printContent_head a q pre' hq)

/-- the stop condition of the `load*` loop of `parseFile` -/
def stopLoads (t : List Token) : Bool := !(peekKw "@import" t || peekKw "@extern" t)

theorem parseFile_eq (ts : List Token) : parseFile ts =
    match many (8 * ts.length + 16) stopLoads load (8 * ts.length + 16) ts with
    | none => none
    | some (ls, ts1) =>
      match many (8 * ts.length + 16) (fun t => t.isEmpty) (content (8 * ts.length + 16)) (8 * ts.length + 16) ts1 with
      | none => none
      | some (cs, ts2) => if ts2.isEmpty then some { loads := ls, contents := cs } else none := by
  unfold parseFile
  simp only [Option.bind_eq_bind]
  change (many (8 * ts.length + 16) stopLoads load (8 * ts.length + 16) ts).bind _ = _
  cases many (8 * ts.length + 16) stopLoads load (8 * ts.length + 16) ts with
  | none => rfl
  | some x =>
    obtain ⟨ls, ts1⟩ := x
    simp only [Option.bind_some]
    cases many (8 * ts.length + 16) (fun t => t.isEmpty) (content (8 * ts.length + 16)) (8 * ts.length + 16) ts1 with
    | none => rfl
    | some y => rfl

theorem file_print (f : FileShape) (toks : List Token) (h : toks.map (·.tk) = printFile f) :
    ∃ file, parseFile toks = some file ∧ file.shape? = some f.erase := by
  obtain ⟨lpre, cpre, rfl, hl, hc⟩ := List.map_eq_append_iff.mp h
  have hlen := length_le_of_flatMap printLoad (fun s => by simp [printLoad]) f.loads lpre hl
  have hstop : stopLoads cpre = true := by
    rcases printContents_nil_or_starts _ cpre hc with rfl | hs
    · rfl
    · simp [stopLoads, hs.peekKw_false "@import" (by decide), hs.peekKw_false "@extern" (by decide)]
  obtain ⟨-, ls, hls, hlss⟩ := many_print (8 * (lpre ++ cpre).length + 16) stopLoads load printLoad
    (fun a => some a.shape) id (fun _ => True) f.loads
    (by
      intro s _ q r hq _
      obtain ⟨a, ha, has⟩ := load_print s q r hq
      refine ⟨?_, trivial, a, ha, by simp [has]⟩
      simp only [printLoad] at hq
      obtain ⟨x, b1, rfl, hx, _⟩ := List.map_eq_cons_iff.mp hq
      cases hi : s.isImport <;> simp [hi] at hx <;> simp [stopLoads, peekKw, hx])
    lpre cpre (8 * (lpre ++ cpre).length + 16) hl hstop trivial (by simp only [List.length_append]; omega)
  obtain ⟨cs, hcs, hcss⟩ := contents_print f.contents cpre [] (fun t => t.isEmpty) (8 * (lpre ++ cpre).length + 16)
    (8 * (lpre ++ cpre).length + 16) (8 * (lpre ++ cpre).length + 16) hc rfl
    (by rintro ts ⟨x, xs, rfl, _⟩; rfl) rfl
    (by simp only [List.length_append]; omega) (by simp only [List.length_append]; omega)
  rw [List.append_nil] at hcs
  rw [parseFile_eq, hls]
  simp only [hcs, List.isEmpty_nil, if_true]
  refine ⟨_, rfl, ?_⟩
  rw [mapOpt_total] at hlss
  simp at hlss
  simp [File.shape?, hcss, FileShape.erase, hlss]

/-! ## parse, then print (soundness) for enums and flags -/

theorem comments_sound (ts : List Token) :
    ∃ cs, ts = cs ++ (comments ts).2 ∧ cs.map (·.tk) = printComments (comments ts).1 := by
  induction ts with
  | nil => exact ⟨[], by simp [comments], by simp [comments, printComments]⟩
  | cons t ts ih =>
    obtain ⟨cs, h1, h2⟩ := ih
    cases ht : t.tk with
    | comment s =>
      refine ⟨t :: cs, ?_, ?_⟩
      · simp only [comments, ht, List.cons_append]; rw [← h1]
      · simp only [comments, ht, List.map_cons, printComments] at h2 ⊢; rw [h2]
    | kw s => exact ⟨[], by simp [comments, ht], by simp [comments, ht, printComments]⟩
    | filepath s => exact ⟨[], by simp [comments, ht], by simp [comments, ht, printComments]⟩
    | target s => exact ⟨[], by simp [comments, ht], by simp [comments, ht, printComments]⟩
    | id s => exact ⟨[], by simp [comments, ht], by simp [comments, ht, printComments]⟩
    | nsid s => exact ⟨[], by simp [comments, ht], by simp [comments, ht, printComments]⟩

theorem ident_inv {ts r : List Token} {n : String} (h : ident ts = some (n, r)) :
    ∃ t, ts = t :: r ∧ t.tk = .id n := by
  cases ts with
  | nil => simp [ident] at h
  | cons t ts =>
    simp only [ident] at h
    split at h
    · next s hs => simp at h; obtain ⟨rfl, rfl⟩ := h; exact ⟨t, rfl, hs⟩
    · simp at h

theorem item_sound (ts0 : List Token) (a : Item) (r : List Token) (h : item ts0 = some (a, r)) :
    ∃ q, ts0 = q ++ r ∧ q.map (·.tk) = printItem a.shape := by
  obtain ⟨cs, h1, h2⟩ := comments_sound ts0
  unfold item at h
  generalize comments ts0 = x at h h1 h2
  obtain ⟨c, ts⟩ := x
  simp only [Option.bind_eq_bind, Option.pure_def] at h h1 h2
  cases hi : ident ts with
  | none => simp [hi] at h
  | some y =>
    obtain ⟨n, ts1⟩ := y
    obtain ⟨nt, rfl, hn⟩ := ident_inv hi
    simp only [hi, Option.bind_some] at h
    cases hk : kw? ";" ts1 with
    | none => simp [hk] at h
    | some ts2 =>
      obtain ⟨semi, rfl, hsemi⟩ := kw?_inv hk
      simp only [hk, Option.bind_some, Option.some.injEq, Prod.mk.injEq] at h
      obtain ⟨rfl, rfl⟩ := h
      exact ⟨cs ++ [nt, semi], by rw [h1]; simp, by simp [printItem, Item.shape, h2, hn, hsemi]⟩

theorem flagItem_sound (ts0 : List Token) (a : FlagItem) (r : List Token) (h : flagItem ts0 = some (a, r)) :
    ∃ q, ts0 = q ++ r ∧ q.map (·.tk) = printFlagItem a.shape := by
  obtain ⟨cs, h1, h2⟩ := comments_sound ts0
  unfold flagItem at h
  generalize comments ts0 = x at h h1 h2
  obtain ⟨c, ts⟩ := x
  simp only [Option.bind_eq_bind, Option.pure_def] at h h1 h2
  cases hi : ident ts with
  | none => simp [hi] at h
  | some y =>
    obtain ⟨n, ts1⟩ := y
    obtain ⟨nt, rfl, hn⟩ := ident_inv hi
    simp only [hi, Option.bind_some] at h
    by_cases hm : peekKw "=" ts1 = true
    · obtain ⟨eq, he, heq⟩ := peekKw_inv hm
      simp only [hm, if_true] at h
      cases hi2 : ident ts1.tail with
      | none => simp [hi2] at h
      | some z =>
        obtain ⟨m, ts2⟩ := z
        obtain ⟨mt, hmt, hmk⟩ := ident_inv hi2
        simp only [hi2, Option.bind_some] at h
        cases hk : kw? ";" ts2 with
        | none => simp [hk] at h
        | some ts3 =>
          obtain ⟨semi, rfl, hsemi⟩ := kw?_inv hk
          simp only [hk, Option.bind_some, Option.some.injEq, Prod.mk.injEq] at h
          obtain ⟨rfl, rfl⟩ := h
          refine ⟨cs ++ [nt, eq, mt, semi], ?_, ?_⟩
          · rw [h1, he, hmt]; simp
          · simp [printFlagItem, FlagItem.shape, printModifier, h2, hn, hsemi, heq, hmk]
    · simp only [hm, Bool.false_eq_true, if_false, Option.bind_some] at h
      cases hk : kw? ";" ts1 with
      | none => simp [hk] at h
      | some ts3 =>
        obtain ⟨semi, rfl, hsemi⟩ := kw?_inv hk
        simp only [hk, Option.bind_some, Option.some.injEq, Prod.mk.injEq] at h
        obtain ⟨rfl, rfl⟩ := h
        exact ⟨cs ++ [nt, semi], by rw [h1]; simp, by simp [printFlagItem, FlagItem.shape, printModifier, h2, hn, hsemi]⟩

/-- the branches of `typeDecl` after `enum` and `flags`: whatever they return is a record,
    interface, error domain or function declaration -/
theorem typeDecl_rest_not (d : Decl)
    (hrec : ∀ n c fl flp fs dv p, Decl.record n c fl flp fs dv p ≠ d)
    (hint : ∀ n c mn fl flp ms ps p, Decl.interface n c mn fl flp ms ps p ≠ d)
    (herr : ∀ n c cs p, Decl.error n c cs p ≠ d)
    (hfun : ∀ n c f p, Decl.function n c f p ≠ d)
    (fuel : Nat) (c' : List String) (ts0 ts2 : List Token) (n' : String) (rest : List Token)
    (h : (if peekKw "record" ts2 then do
        let (fl, ts1) := targets ts2.tail
        let flp := spanPos ts2.tail ts1
        let ts ← kw? "{" ts1
        let (fs, ts) ← many fuel (peekKw "}") (field fuel) fuel ts
        let ts ← kw? "}" ts
        if peekKw "deriving" ts then do
          let ts ← kw? "(" ts.tail
          let (ds, ts) ← if peekKw ")" ts then pure ([], ts) else derivingList fuel ts
          let ts ← kw? ")" ts
          pure (Decl.record n' c' fl flp fs (some ds) (spanPos ts0 ts), ts)
        else pure (Decl.record n' c' fl flp fs none (spanPos ts0 ts), ts)
      else if peekKw "main" ts2 || peekKw "interface" ts2 then do
        let (mn, ts) := if peekKw "main" ts2 then (true, ts2.tail) else (false, ts2)
        let ts ← kw? "interface" ts
        let (fl, ts1) := targets ts
        let flp := spanPos ts ts1
        let ts ← kw? "{" ts1
        let (ms, ts) ← many fuel (peekKw "}") (member fuel) fuel ts
        let ts ← kw? "}" ts
        let methods := ms.filterMap (fun | .m x => some x | _ => none)
        let props := ms.filterMap (fun | .p x => some x | _ => none)
        pure (Decl.interface n' c' mn fl flp methods props (spanPos ts0 ts), ts)
      else if peekKw "error" ts2 then do
        let ts ← kw? "{" ts2.tail
        let (cs, ts) ← many fuel (peekKw "}") (errCode fuel) fuel ts
        let ts ← kw? "}" ts
        pure (Decl.error n' c' cs (spanPos ts0 ts), ts)
      else
        firstThat (functionL fuel ts2) fun f ts => do
          let ts ← kw? ";" ts
          pure (Decl.function n' c' f (spanPos ts0 ts), ts)) = some (d, rest)) : False := by
  split at h
  · simp [Option.bind_eq_some_iff] at h
    obtain ⟨a, _, a1, b, _, a2, _, h⟩ := h
    split at h
    · simp only [Option.bind_eq_some_iff] at h
      obtain ⟨ts, _, h⟩ := h
      split at h <;> simp [Option.bind_eq_some_iff, hrec] at h
    · simp [hrec] at h
  split at h
  · simp [Option.bind_eq_some_iff, hint] at h
  split at h
  · simp [Option.bind_eq_some_iff, herr] at h
  · simp [firstThat, List.findSome?_eq_some_iff, Option.bind_eq_some_iff, hfun] at h

theorem typeDecl_enum_inv (fuel : Nat) (c' : List String) (ts0 ts : List Token) (n : String) (c : List String)
    (is : List Item) (p : Pos) (rest : List Token)
    (h : typeDecl fuel c' ts0 ts = some (.enum n c is p, rest)) :
    c = c' ∧ ∃ nt eq k lb body rb, ts = nt :: eq :: k :: lb :: body ∧ nt.tk = .id n ∧ eq.tk = .kw "=" ∧
      k.tk = .kw "enum" ∧ lb.tk = .kw "{" ∧ rb.tk = .kw "}" ∧
      many fuel (peekKw "}") item fuel body = some (is, rb :: rest) := by
  unfold typeDecl at h
  simp only [Option.bind_eq_bind] at h
  cases hi : ident ts with
  | none => simp [hi] at h
  | some y =>
    obtain ⟨n', ts1⟩ := y
    obtain ⟨nt, rfl, hn⟩ := ident_inv hi
    simp only [hi, Option.bind_some] at h
    cases hk : kw? "=" ts1 with
    | none => simp [hk] at h
    | some ts2 =>
      obtain ⟨eq, rfl, heq⟩ := kw?_inv hk
      simp only [hk, Option.bind_some] at h
      by_cases he : peekKw "enum" ts2 = true
      · obtain ⟨k, hk2, hkk⟩ := peekKw_inv he
        simp only [he, if_true] at h
        cases hl : kw? "{" ts2.tail with
        | none => simp [hl] at h
        | some ts3 =>
          obtain ⟨lb, hlb, hlbk⟩ := kw?_inv hl
          simp only [hl, Option.bind_some] at h
          cases hm : many fuel (peekKw "}") item fuel ts3 with
          | none => simp [hm] at h
          | some z =>
            obtain ⟨is', ts4⟩ := z
            simp only [hm, Option.bind_some] at h
            cases hr : kw? "}" ts4 with
            | none => simp [hr] at h
            | some ts5 =>
              obtain ⟨rb, rfl, hrb⟩ := kw?_inv hr
              simp only [hr, Option.bind_some, Option.pure_def, Option.some.injEq, Prod.mk.injEq, Decl.enum.injEq] at h
              obtain ⟨⟨rfl, rfl, rfl, -⟩, rfl⟩ := h
              exact ⟨rfl, nt, eq, k, lb, ts3, rb, by rw [hk2, hlb], hn, heq, hkk, hlbk, hrb, hm⟩
      · exfalso
        simp only [he, Bool.false_eq_true, if_false] at h
        split at h
        · simp [Option.bind_eq_some_iff] at h
        · exact typeDecl_rest_not _ (by intros; simp) (by intros; simp) (by intros; simp) (by intros; simp)
            _ _ _ _ _ _ h

theorem typeDecl_flags_inv (fuel : Nat) (c' : List String) (ts0 ts : List Token) (n : String) (c : List String)
    (is : List FlagItem) (p : Pos) (rest : List Token)
    (h : typeDecl fuel c' ts0 ts = some (.flags n c is p, rest)) :
    c = c' ∧ ∃ nt eq k lb body rb, ts = nt :: eq :: k :: lb :: body ∧ nt.tk = .id n ∧ eq.tk = .kw "=" ∧
      k.tk = .kw "flags" ∧ lb.tk = .kw "{" ∧ rb.tk = .kw "}" ∧
      many fuel (peekKw "}") flagItem fuel body = some (is, rb :: rest) := by
  unfold typeDecl at h
  simp only [Option.bind_eq_bind] at h
  cases hi : ident ts with
  | none => simp [hi] at h
  | some y =>
    obtain ⟨n', ts1⟩ := y
    obtain ⟨nt, rfl, hn⟩ := ident_inv hi
    simp only [hi, Option.bind_some] at h
    cases hk : kw? "=" ts1 with
    | none => simp [hk] at h
    | some ts2 =>
      obtain ⟨eq, rfl, heq⟩ := kw?_inv hk
      simp only [hk, Option.bind_some] at h
      by_cases he : peekKw "enum" ts2 = true
      · exfalso
        simp only [he, if_true] at h
        simp [Option.bind_eq_some_iff] at h
      · simp only [he, Bool.false_eq_true, if_false] at h
        by_cases hf : peekKw "flags" ts2 = true
        · obtain ⟨k, hk2, hkk⟩ := peekKw_inv hf
          simp only [hf, if_true] at h
          cases hl : kw? "{" ts2.tail with
          | none => simp [hl] at h
          | some ts3 =>
            obtain ⟨lb, hlb, hlbk⟩ := kw?_inv hl
            simp only [hl, Option.bind_some] at h
            cases hm : many fuel (peekKw "}") flagItem fuel ts3 with
            | none => simp [hm] at h
            | some z =>
              obtain ⟨is', ts4⟩ := z
              simp only [hm, Option.bind_some] at h
              cases hr : kw? "}" ts4 with
              | none => simp [hr] at h
              | some ts5 =>
                obtain ⟨rb, rfl, hrb⟩ := kw?_inv hr
                simp only [hr, Option.bind_some, Option.pure_def, Option.some.injEq, Prod.mk.injEq, Decl.flags.injEq] at h
                obtain ⟨⟨rfl, rfl, rfl, -⟩, rfl⟩ := h
                exact ⟨rfl, nt, eq, k, lb, ts3, rb, by rw [hk2, hlb], hn, heq, hkk, hlbk, hrb, hm⟩
        · exfalso
          simp only [hf, Bool.false_eq_true, if_false] at h
          exact typeDecl_rest_not _ (by intros; simp) (by intros; simp) (by intros; simp) (by intros; simp)
            _ _ _ _ _ _ h

/-- a successful `content` parse that returns a declaration went through `typeDecl` -/
theorem content_decl_inv (fuel : Nat) (ts : List Token) (d : Decl) (rest : List Token)
    (h : content fuel ts = some (.decl d, rest)) :
    ∃ g, fuel = g + 1 ∧ typeDecl g (comments ts).1 ts (comments ts).2 = some (d, rest) := by
  cases fuel with
  | zero => simp [content] at h
  | succ g =>
    refine ⟨g, rfl, ?_⟩
    rw [content_succ] at h
    split at h
    · exfalso
      repeat' split at h
      all_goals simp at h
    · cases ht : typeDecl g (comments ts).1 ts (comments ts).2 with
      | none => simp [ht] at h
      | some y =>
        obtain ⟨d', r⟩ := y
        simp [ht] at h
        obtain ⟨rfl, rfl⟩ := h
        rfl

/-! ### soundness for records whose field types are data types -/

theorem targets_sound (ts : List Token) :
    ∃ tg, ts = tg ++ (targets ts).2 ∧ tg.map (·.tk) = printTargets (targets ts).1 := by
  induction ts with
  | nil => exact ⟨[], by simp [targets], by simp [targets, printTargets]⟩
  | cons t ts ih =>
    obtain ⟨cs, h1, h2⟩ := ih
    cases ht : t.tk with
    | target s =>
      refine ⟨t :: cs, ?_, ?_⟩
      · simp only [targets, ht, List.cons_append]; rw [← h1]
      · simp only [targets, ht, List.map_cons, printTargets] at h2 ⊢; rw [h2]
    | kw s => exact ⟨[], by simp [targets, ht], by simp [targets, ht, printTargets]⟩
    | filepath s => exact ⟨[], by simp [targets, ht], by simp [targets, ht, printTargets]⟩
    | comment s => exact ⟨[], by simp [targets, ht], by simp [targets, ht, printTargets]⟩
    | id s => exact ⟨[], by simp [targets, ht], by simp [targets, ht, printTargets]⟩
    | nsid s => exact ⟨[], by simp [targets, ht], by simp [targets, ht, printTargets]⟩

/-- a candidate of `typeRefL` that is a data type is a printing of its shape -/
theorem typeRefL_data_sound (fuel : Nat) (ts : List Token) (t : TypeRef) (r : List Token)
    (hm : (t, r) ∈ typeRefL fuel ts) (hd : (shapeOf t).isSome = true) :
    ∃ pre s, ts = pre ++ r ∧ pre.map (·.tk) = printTy s ∧ shapeOf t = some s.erase := by
  cases fuel with
  | zero => simp [typeRefL] at hm
  | succ g =>
    rw [typeRefL.eq_2] at hm
    split at hm
    · exfalso
      simp only [List.mem_map] at hm
      obtain ⟨⟨f, r'⟩, _, he⟩ := hm
      simp only [Prod.mk.injEq] at he
      obtain ⟨rfl, rfl⟩ := he
      simp [shapeOf] at hd
    · cases hdt : dataType (g+1) ts with
      | none => simp [hdt] at hm
      | some x =>
        simp only [hdt, List.mem_singleton] at hm
        subst hm
        exact dataType_sound (g+1) ts t r hdt

theorem firstThat_inv {α β : Type} {l : List (α × List Token)} {next : α → List Token → Option β} {b : β}
    (h : firstThat l next = some b) : ∃ a r, (a, r) ∈ l ∧ next a r = some b := by
  unfold firstThat at h
  obtain ⟨x, hx, hb⟩ := List.exists_of_findSome?_eq_some h
  exact ⟨x.1, x.2, hx, hb⟩

theorem field_sound (fuel : Nat) (ts0 : List Token) (f : Field) (r : List Token)
    (h : field fuel ts0 = some (f, r)) (hd : f.shape?.isSome = true) :
    ∃ q s, ts0 = q ++ r ∧ q.map (·.tk) = printField s ∧ f.shape? = some s.erase := by
  obtain ⟨cs, h1, h2⟩ := comments_sound ts0
  unfold field at h
  generalize comments ts0 = x at h h1 h2
  obtain ⟨c, ts⟩ := x
  simp only [Option.bind_eq_bind, Option.pure_def] at h h1 h2
  cases hi : ident ts with
  | none => simp [hi] at h
  | some y =>
    obtain ⟨n, ts1⟩ := y
    obtain ⟨nt, rfl, hn⟩ := ident_inv hi
    simp only [hi, Option.bind_some] at h
    cases hk : kw? ":" ts1 with
    | none => simp [hk] at h
    | some ts2 =>
      obtain ⟨colon, rfl, hcolon⟩ := kw?_inv hk
      simp only [hk, Option.bind_some] at h
      obtain ⟨t, r', hmem, hnext⟩ := firstThat_inv h
      cases hs : kw? ";" r' with
      | none => simp [hs] at hnext
      | some ts3 =>
        obtain ⟨semi, rfl, hsemi⟩ := kw?_inv hs
        simp only [hs, Option.bind_some, Option.some.injEq, Prod.mk.injEq] at hnext
        obtain ⟨rfl, rfl⟩ := hnext
        have hd' : (shapeOf t).isSome = true := by
          simp only [Field.shape?, Option.isSome_map] at hd; exact hd
        obtain ⟨pre, s, rfl, hpre, hst⟩ := typeRefL_data_sound fuel ts2 t _ hmem hd'
        refine ⟨cs ++ nt :: colon :: (pre ++ [semi]), ⟨n, s, c⟩, ?_, ?_, ?_⟩
        · rw [h1]; simp
        · simp [printField, h2, hn, hcolon, hpre, hsemi]
        · simp [Field.shape?, hst, FieldShape.erase]

/-- version of `many_sound` for elements whose printed shape is not a function of the parsed
    element (`dotted` is not recorded in the AST) and exists only for some elements -/
theorem many_sound_rel {α σ β : Type} (fuel : Nat) (stop : List Token → Bool) (p : P α)
    (pr : σ → List Tk) (f : α → Option β) (g : σ → β)
    (hp : ∀ ts a r, p ts = some (a, r) → (f a).isSome = true →
      ∃ q s, ts = q ++ r ∧ q.map (·.tk) = pr s ∧ f a = some (g s))
    (n : Nat) (ts : List Token) (as : List α) (rest : List Token)
    (h : many fuel stop p n ts = some (as, rest)) (hQ : ∀ a ∈ as, (f a).isSome = true) :
    ∃ (pre : List Token) (ss : List σ), ts = pre ++ rest ∧ pre.map (·.tk) = ss.flatMap pr ∧ mapOpt f as = some (ss.map g) := by
  induction n generalizing ts as with
  | zero => simp [many] at h
  | succ n ih =>
    simp only [many] at h
    split at h
    · simp at h; obtain ⟨rfl, rfl⟩ := h; exact ⟨[], [], by simp, by simp, rfl⟩
    · cases h1 : p ts with
      | none => simp [h1] at h
      | some x =>
        obtain ⟨a, r⟩ := x
        simp only [h1, Option.bind_eq_bind, Option.bind_some] at h
        cases h2 : many fuel stop p n r with
        | none => simp [h2] at h
        | some y =>
          obtain ⟨as', r'⟩ := y
          simp [h2] at h
          obtain ⟨rfl, rfl⟩ := h
          obtain ⟨q, s, rfl, hq, hR⟩ := hp _ _ _ h1 (hQ a List.mem_cons_self)
          obtain ⟨pre, ss, rfl, hpre, hF⟩ := ih _ _ h2 (fun a ha => hQ a (List.mem_cons_of_mem _ ha))
          exact ⟨q ++ pre, s :: ss, by simp, by simp [hq, hpre], by simp [mapOpt, hR, hF]⟩

theorem mapOpt_isSome_of {α β : Type} {f : α → Option β} {l : List α} {r : List β} (h : mapOpt f l = some r) :
    ∀ a ∈ l, (f a).isSome = true := by
  induction l generalizing r with
  | nil => simp
  | cons a as ih =>
    obtain ⟨x, xs, rfl, hx, hxs⟩ := mapOpt_cons_inv h
    intro b hb
    rcases List.mem_cons.mp hb with rfl | hb
    · simp [hx]
    · exact ih hxs b hb

theorem derivingList_sound (n : Nat) (ts : List Token) (l : List (String × Pos)) (r : List Token)
    (h : derivingList n ts = some (l, r)) :
    ∃ q, ts = q ++ r ∧ q.map (·.tk) = printIds (l.map (·.1)) ∧ l ≠ [] := by
  induction n generalizing ts l with
  | zero => simp [derivingList] at h
  | succ k ih =>
    simp only [derivingList, Option.bind_eq_bind] at h
    cases hi : ident ts with
    | none => simp [hi] at h
    | some y =>
      obtain ⟨d, ts1⟩ := y
      obtain ⟨dt, rfl, hd⟩ := ident_inv hi
      simp only [hi, Option.bind_some] at h
      split at h
      · next hc =>
        obtain ⟨comma, hce, hck⟩ := peekKw_inv hc
        cases hr : derivingList k ts1.tail with
        | none => simp [hr] at h
        | some z =>
          obtain ⟨ds, r'⟩ := z
          simp only [hr, Option.bind_some, Option.pure_def, Option.some.injEq, Prod.mk.injEq] at h
          obtain ⟨rfl, rfl⟩ := h
          obtain ⟨q, hq, hqk, hne⟩ := ih _ _ hr
          refine ⟨dt :: comma :: q, by rw [hce, hq]; simp, ?_, by simp⟩
          cases ds with
          | nil => exact absurd rfl hne
          | cons e es => simp [printIds, hd, hck, hqk]
      · simp only [Option.pure_def, Option.some.injEq, Prod.mk.injEq] at h
        obtain ⟨rfl, rfl⟩ := h
        exact ⟨[dt], by simp, by simp [printIds, hd], by simp⟩

theorem typeDecl_record_inv (fuel : Nat) (c' : List String) (ts0 ts : List Token) (n : String) (c : List String)
    (fl : List String) (flp : Pos) (fs : List Field) (dv : Option (List (String × Pos))) (p : Pos) (rest : List Token)
    (h : typeDecl fuel c' ts0 ts = some (.record n c fl flp fs dv p, rest)) :
    c = c' ∧ ∃ nt eq k tg lb body rb dvt, ts = nt :: eq :: k :: (tg ++ lb :: body) ∧ nt.tk = .id n ∧
      eq.tk = .kw "=" ∧ k.tk = .kw "record" ∧ tg.map (·.tk) = printTargets fl ∧ lb.tk = .kw "{" ∧ rb.tk = .kw "}" ∧
      many fuel (peekKw "}") (field fuel) fuel body = some (fs, rb :: (dvt ++ rest)) ∧
      dvt.map (·.tk) = printDeriving (dv.map (fun l => l.map (·.1))) := by
  unfold typeDecl at h
  simp only [Option.bind_eq_bind] at h
  cases hi : ident ts with
  | none => simp [hi] at h
  | some y =>
    obtain ⟨n', ts1⟩ := y
    obtain ⟨nt, rfl, hn⟩ := ident_inv hi
    simp only [hi, Option.bind_some] at h
    cases hk : kw? "=" ts1 with
    | none => simp [hk] at h
    | some ts2 =>
      obtain ⟨eq, rfl, heq⟩ := kw?_inv hk
      simp only [hk, Option.bind_some] at h
      split at h
      · exfalso; simp [Option.bind_eq_some_iff] at h
      split at h
      · exfalso; simp [Option.bind_eq_some_iff] at h
      split at h
      · next hrec =>
        obtain ⟨k, hk2, hkk⟩ := peekKw_inv hrec
        obtain ⟨tg, htg1, htg2⟩ := targets_sound ts2.tail
        generalize targets ts2.tail = x at h htg1 htg2
        obtain ⟨fl', ts3⟩ := x
        simp only at h htg1 htg2
        cases hl : kw? "{" ts3 with
        | none => simp [hl] at h
        | some ts4 =>
          obtain ⟨lb, rfl, hlb⟩ := kw?_inv hl
          simp only [hl, Option.bind_some] at h
          cases hm : many fuel (peekKw "}") (field fuel) fuel ts4 with
          | none => simp [hm] at h
          | some z =>
            obtain ⟨fs', ts5⟩ := z
            simp only [hm, Option.bind_some] at h
            cases hr : kw? "}" ts5 with
            | none => simp [hr] at h
            | some ts6 =>
              obtain ⟨rb, rfl, hrb⟩ := kw?_inv hr
              simp only [hr, Option.bind_some] at h
              have hts : nt :: eq :: ts2 = nt :: eq :: k :: (tg ++ lb :: ts4) := by rw [hk2, htg1]
              split at h
              · next hdv =>
                obtain ⟨dk, hdk, hdkk⟩ := peekKw_inv hdv
                cases hlp : kw? "(" ts6.tail with
                | none => simp [hlp] at h
                | some ts7 =>
                  obtain ⟨lp, hlpe, hlpk⟩ := kw?_inv hlp
                  simp only [hlp, Option.bind_some] at h
                  split at h
                  · simp only [Option.pure_def, Option.bind_some] at h
                    cases hrp : kw? ")" ts7 with
                    | none => simp [hrp] at h
                    | some ts8 =>
                      obtain ⟨rp, rfl, hrpk⟩ := kw?_inv hrp
                      simp only [hrp, Option.bind_some, Option.some.injEq, Prod.mk.injEq, Decl.record.injEq] at h
                      obtain ⟨⟨rfl, rfl, rfl, -, rfl, rfl, -⟩, rfl⟩ := h
                      refine ⟨rfl, nt, eq, k, tg, lb, ts4, rb, [dk, lp, rp], hts, hn, heq, hkk, htg2, hlb, hrb, ?_, ?_⟩
                      · rw [hm, hdk, hlpe]; simp
                      · simp [printDeriving, printIds, hdkk, hlpk, hrpk]
                  · cases hdl : derivingList fuel ts7 with
                    | none => simp [hdl] at h
                    | some w =>
                      obtain ⟨ds, ts8⟩ := w
                      simp only [hdl, Option.bind_some] at h
                      cases hrp : kw? ")" ts8 with
                      | none => simp [hrp] at h
                      | some ts9 =>
                        obtain ⟨rp, rfl, hrpk⟩ := kw?_inv hrp
                        simp only [hrp, Option.bind_some, Option.pure_def, Option.some.injEq, Prod.mk.injEq,
                          Decl.record.injEq] at h
                        obtain ⟨⟨rfl, rfl, rfl, -, rfl, rfl, -⟩, rfl⟩ := h
                        obtain ⟨q, hq, hqk, _⟩ := derivingList_sound _ _ _ _ hdl
                        refine ⟨rfl, nt, eq, k, tg, lb, ts4, rb, dk :: lp :: (q ++ [rp]), hts, hn, heq, hkk, htg2, hlb, hrb,
                          ?_, ?_⟩
                        · rw [hm, hdk, hlpe, hq]; simp
                        · simp [printDeriving, hdkk, hlpk, hrpk, hqk]
              · simp only [Option.pure_def, Option.some.injEq, Prod.mk.injEq, Decl.record.injEq] at h
                obtain ⟨⟨rfl, rfl, rfl, -, rfl, rfl, -⟩, rfl⟩ := h
                exact ⟨rfl, nt, eq, k, tg, lb, ts4, rb, [], hts, hn, heq, hkk, htg2, hlb, hrb, by simpa using hm,
                  by simp [printDeriving]⟩
      · exfalso
        split at h
        · simp [Option.bind_eq_some_iff] at h
        split at h
        · simp [Option.bind_eq_some_iff] at h
        · simp [firstThat, List.findSome?_eq_some_iff, Option.bind_eq_some_iff] at h

/-! # Main theorems

Conventions: `toks` is any token list whose kinds (`.tk`) are the printed ones — line, column and
length fields are arbitrary; `rest` is whatever follows; `fuel` is any number at least the number
of printed tokens. The declaration parser is `content` (comment lines, then `typeDecl`). -/

/-- **declarations**: parsing a printed declaration (of any of the six kinds) followed by `rest`
    returns a declaration whose position-erased shape is the printed one and leaves exactly `rest`.
    Side conditions: the follow condition `DeclFollowOK` (only for a record without `deriving`: the
    next token is not `deriving`) and `fuel ≥` number of printed tokens. -/
theorem decl_roundtrip (d : DeclShape) (toks rest : List Token) (fuel : Nat)
    (hp : toks.map (·.tk) = printDecl d) (hfollow : DeclFollowOK d rest) (hfuel : toks.length ≤ fuel) :
    ∃ x, content fuel (toks ++ rest) = some (.decl x, rest) ∧ x.shape? = some d.erase := by
  obtain ⟨a, ha, hs⟩ := content_print (.decl d) toks rest fuel hp hfollow hfuel
  cases a with
  | decl x =>
    refine ⟨x, ha, ?_⟩
    simp only [Content.shape?, ContentShape.erase, Option.map_eq_some_iff] at hs
    obtain ⟨y, hy, hyy⟩ := hs
    cases hyy; exact hy
  | ns n c cs p => simp [Content.shape?, ContentShape.erase] at hs

theorem Decl.shape?_enum_inv {x : Decl} {n : String} {c : List String} {items : List ItemShape}
    (hs : x.shape? = some (.enum n c items)) : ∃ is p, x = .enum n c is p ∧ is.map Item.shape = items := by
  cases x with
  | enum n' c' is p =>
    simp [Decl.shape?] at hs
    obtain ⟨rfl, rfl, rfl⟩ := hs
    exact ⟨_, _, rfl, rfl⟩
  | interface => exfalso; simp only [Decl.shape?] at hs; split at hs <;> simp at hs
  | function n' c' sig p => cases sig; simp [Decl.shape?] at hs
  | flags => simp [Decl.shape?] at hs
  | record => simp [Decl.shape?] at hs
  | error => simp [Decl.shape?] at hs

theorem Decl.shape?_flags_inv {x : Decl} {n : String} {c : List String} {items : List FlagItemShape}
    (hs : x.shape? = some (.flags n c items)) : ∃ is p, x = .flags n c is p ∧ is.map FlagItem.shape = items := by
  cases x with
  | flags n' c' is p =>
    simp [Decl.shape?] at hs
    obtain ⟨rfl, rfl, rfl⟩ := hs
    exact ⟨_, _, rfl, rfl⟩
  | interface => exfalso; simp only [Decl.shape?] at hs; split at hs <;> simp at hs
  | function n' c' sig p => cases sig; simp [Decl.shape?] at hs
  | enum => simp [Decl.shape?] at hs
  | record => simp [Decl.shape?] at hs
  | error => simp [Decl.shape?] at hs

/-- `# c…  name = enum { (# c… item ;)* }`: the parser returns exactly this enum -/
theorem enum_roundtrip (name : String) (comment : List String) (items : List ItemShape)
    (toks rest : List Token) (fuel : Nat)
    (hp : toks.map (·.tk) = printEnum name comment items) (hfuel : toks.length ≤ fuel) :
    ∃ is p, content fuel (toks ++ rest) = some (.decl (.enum name comment is p), rest) ∧
      is.map Item.shape = items := by
  obtain ⟨x, hx, hs⟩ := decl_roundtrip (.enum name comment items) toks rest fuel hp trivial hfuel
  obtain ⟨is, p, rfl, his⟩ := Decl.shape?_enum_inv hs
  exact ⟨is, p, hx, his⟩

/-- `# c…  name = flags { (# c… item [= modifier] ;)* }` -/
theorem flags_roundtrip (name : String) (comment : List String) (items : List FlagItemShape)
    (toks rest : List Token) (fuel : Nat)
    (hp : toks.map (·.tk) = printFlags name comment items) (hfuel : toks.length ≤ fuel) :
    ∃ is p, content fuel (toks ++ rest) = some (.decl (.flags name comment is p), rest) ∧
      is.map FlagItem.shape = items := by
  obtain ⟨x, hx, hs⟩ := decl_roundtrip (.flags name comment items) toks rest fuel hp trivial hfuel
  obtain ⟨is, p, rfl, his⟩ := Decl.shape?_flags_inv hs
  exact ⟨is, p, hx, his⟩

/-- `# c…  name = record targets… { fields } [deriving ( d₁ , … )]`; a record without `deriving`
    must not be followed by the keyword `deriving` -/
theorem record_roundtrip (name : String) (comment : List String) (targets' : List String)
    (fields : List FieldShape) (deriving' : Option (List String)) (toks rest : List Token) (fuel : Nat)
    (hp : toks.map (·.tk) = printRecord name comment targets' fields deriving')
    (hfollow : deriving' = none → peekKw "deriving" rest = false) (hfuel : toks.length ≤ fuel) :
    ∃ x, content fuel (toks ++ rest) = some (.decl x, rest) ∧
      x.shape? = some (.record name comment targets' (fields.map FieldShape.erase) deriving') :=
  decl_roundtrip (.record name comment targets' fields deriving') toks rest fuel hp
    (by cases deriving' with
        | none => exact hfollow rfl
        | some _ => trivial) hfuel

/-- `# c…  name = [main] interface targets… { (method | property)* }`; the AST keeps methods and
    properties in two lists, hence `sortMembers` -/
theorem interface_roundtrip (name : String) (comment : List String) (main : Bool) (targets' : List String)
    (members : List MemberShape) (toks rest : List Token) (fuel : Nat)
    (hp : toks.map (·.tk) = printInterface name comment main targets' members) (hfuel : toks.length ≤ fuel) :
    ∃ x, content fuel (toks ++ rest) = some (.decl x, rest) ∧
      x.shape? = some (.interface name comment main targets' (sortMembers (members.map MemberShape.erase))) :=
  decl_roundtrip (.interface name comment main targets' members) toks rest fuel hp trivial hfuel

/-- `# c…  name = [function targets…] ( params ) [throws …] [-> ret] ;` -/
theorem function_roundtrip (name : String) (comment : List String) (fnTargets : Option (List String))
    (sig : SigShape) (toks rest : List Token) (fuel : Nat)
    (hp : toks.map (·.tk) = printFunction name comment fnTargets sig) (hfuel : toks.length ≤ fuel) :
    ∃ x, content fuel (toks ++ rest) = some (.decl x, rest) ∧
      x.shape? = some (.function name comment fnTargets sig.erase) :=
  decl_roundtrip (.function name comment fnTargets sig) toks rest fuel hp trivial hfuel

/-- `# c…  name = error { (# c… code [( p₁ p₂ … )] ;)* }` -/
theorem errorDomain_roundtrip (name : String) (comment : List String) (codes : List ErrCodeShape)
    (toks rest : List Token) (fuel : Nat)
    (hp : toks.map (·.tk) = printErrorDomain name comment codes) (hfuel : toks.length ≤ fuel) :
    ∃ x, content fuel (toks ++ rest) = some (.decl x, rest) ∧
      x.shape? = some (.error name comment (codes.map ErrCodeShape.erase)) :=
  decl_roundtrip (.error name comment codes) toks rest fuel hp trivial hfuel

/-- interface members on their own: `# c… [static] [const] [async] name ( … ) … ;` -/
theorem method_roundtrip (m : MethodShape) (toks rest : List Token) (fuel : Nat)
    (hp : toks.map (·.tk) = printMethod m) (hfuel : toks.length ≤ fuel) :
    ∃ a, member fuel (toks ++ rest) = some (a, rest) ∧ a.shape? = some (.m m.erase) :=
  method_print m toks rest fuel hp hfuel

/-- `# c… property name : T ;` -/
theorem property_roundtrip (p : PropShape) (toks rest : List Token) (fuel : Nat)
    (hp : toks.map (·.tk) = printProp p) (hfuel : toks.length ≤ fuel) :
    ∃ a, member fuel (toks ++ rest) = some (a, rest) ∧ a.shape? = some (.p p.erase) :=
  prop_print p toks rest fuel hp hfuel

/-- `# c… code [( p₁ p₂ … )] ;` -/
theorem errCode_roundtrip (e : ErrCodeShape) (toks rest : List Token) (fuel : Nat)
    (hp : toks.map (·.tk) = printErrCode e) (hfuel : toks.length ≤ fuel) :
    ∃ a, errCode fuel (toks ++ rest) = some (a, rest) ∧ a.shape? = some e.erase :=
  errCode_print e toks rest fuel hp hfuel

/-- **namespaces**: a printed content (a declaration, or `# c… namespace a.b { content* }` nested to
    any depth) parses to a content of that shape. Side conditions: `ContentFollowOK` (a top-level
    record without `deriving` is not followed by `deriving`) and `fuel ≥` number of printed tokens
    (each nesting level uses one unit). -/
theorem content_roundtrip (s : ContentShape) (toks rest : List Token) (fuel : Nat)
    (hp : toks.map (·.tk) = printContent s) (hfollow : ContentFollowOK s rest) (hfuel : toks.length ≤ fuel) :
    ∃ a, content fuel (toks ++ rest) = some (a, rest) ∧ a.shape? = some s.erase :=
  content_print s toks rest fuel hp hfollow hfuel

/-- **files**: `parseFile` on the printed file (`@import`/`@extern` lines, then contents) succeeds
    and returns a file of the printed shape. No side condition at all: the fuel chosen by
    `parseFile` always suffices and the end of input satisfies every follow condition. -/
theorem file_roundtrip (f : FileShape) (toks : List Token) (hp : toks.map (·.tk) = printFile f) :
    ∃ file, parseFile toks = some file ∧ file.shape? = some f.erase :=
  file_print f toks hp

/-- the same from source text: if the lexer yields a printing of `f`, `parseText` returns `f` -/
theorem text_roundtrip (f : FileShape) (src : String) (toks : List Token) (hl : lex src = some toks)
    (hp : toks.map (·.tk) = printFile f) :
    ∃ file, parseText src = some file ∧ file.shape? = some f.erase := by
  obtain ⟨file, h, hs⟩ := file_print f toks hp
  exact ⟨file, by simp [parseText, hl, h], hs⟩

/-- consequence: printing loses nothing but what `erase` forgets — two files with the same printed
    tokens have the same erased shape -/
theorem printFile_injective (f g : FileShape) (h : printFile f = printFile g) : f.erase = g.erase := by
  let toks : List Token := (printFile f).map fun k => { tk := k, line := 0, col := 0, len := 0, endLine := 0, endCol := 0 }
  have hf : toks.map (·.tk) = printFile f := by simp [toks, Function.comp_def]
  obtain ⟨x, hx, hxs⟩ := file_print f toks hf
  obtain ⟨y, hy, hys⟩ := file_print g toks (hf.trans h)
  rw [hx] at hy
  cases hy
  rw [hxs] at hys
  exact Option.some.inj hys

/-- **soundness for enums**, strong form: if the declaration parser returns an enum, its input is
    `pre ++ rest` where `rest` is literally the returned remainder and the kinds of `pre` are exactly
    the printing of the enum's shape (nothing skipped, nothing invented); all inputs, all fuel -/
theorem enum_sound_prefix (fuel : Nat) (ts : List Token) (n : String) (c : List String) (is : List Item) (p : Pos)
    (rest : List Token) (h : content fuel ts = some (.decl (.enum n c is p), rest)) :
    ∃ pre, ts = pre ++ rest ∧ pre.map (·.tk) = printEnum n c (is.map Item.shape) := by
  obtain ⟨g, rfl, ht⟩ := content_decl_inv fuel ts _ rest h
  obtain ⟨cs, h1, h2⟩ := comments_sound ts
  obtain ⟨hc, nt, eq, k, lb, body, rb, hts, hn, heq, hk, hlb, hrb, hm⟩ := typeDecl_enum_inv _ _ _ _ _ _ _ _ _ ht
  obtain ⟨-, pre, rfl, hpre⟩ := many_sound g (peekKw "}") item printItem Item.shape item_sound g body is (rb :: rest) hm
  refine ⟨cs ++ nt :: eq :: k :: lb :: (pre ++ [rb]), ?_, ?_⟩
  · rw [h1, hts]; simp
  · simp [printEnum, printHead, h2, hc, hn, heq, hk, hlb, hrb, hpre]

/-- **soundness for enums**: the consumed token kinds are the printing of the result's shape -/
theorem enum_sound (fuel : Nat) (ts : List Token) (n : String) (c : List String) (is : List Item) (p : Pos)
    (rest : List Token) (h : content fuel ts = some (.decl (.enum n c is p), rest)) :
    ts.map (·.tk) = printEnum n c (is.map Item.shape) ++ rest.map (·.tk) := by
  obtain ⟨pre, rfl, hp⟩ := enum_sound_prefix fuel ts n c is p rest h
  rw [List.map_append, hp]

/-- **soundness for flags**, strong form -/
theorem flags_sound_prefix (fuel : Nat) (ts : List Token) (n : String) (c : List String) (is : List FlagItem) (p : Pos)
    (rest : List Token) (h : content fuel ts = some (.decl (.flags n c is p), rest)) :
    ∃ pre, ts = pre ++ rest ∧ pre.map (·.tk) = printFlags n c (is.map FlagItem.shape) := by
  obtain ⟨g, rfl, ht⟩ := content_decl_inv fuel ts _ rest h
  obtain ⟨cs, h1, h2⟩ := comments_sound ts
  obtain ⟨hc, nt, eq, k, lb, body, rb, hts, hn, heq, hk, hlb, hrb, hm⟩ := typeDecl_flags_inv _ _ _ _ _ _ _ _ _ ht
  obtain ⟨-, pre, rfl, hpre⟩ := many_sound g (peekKw "}") flagItem printFlagItem FlagItem.shape flagItem_sound g body is
    (rb :: rest) hm
  refine ⟨cs ++ nt :: eq :: k :: lb :: (pre ++ [rb]), ?_, ?_⟩
  · rw [h1, hts]; simp
  · simp [printFlags, printHead, h2, hc, hn, heq, hk, hlb, hrb, hpre]

/-- **soundness for flags** -/
theorem flags_sound (fuel : Nat) (ts : List Token) (n : String) (c : List String) (is : List FlagItem) (p : Pos)
    (rest : List Token) (h : content fuel ts = some (.decl (.flags n c is p), rest)) :
    ts.map (·.tk) = printFlags n c (is.map FlagItem.shape) ++ rest.map (·.tk) := by
  obtain ⟨pre, rfl, hp⟩ := flags_sound_prefix fuel ts n c is p rest h
  rw [List.map_append, hp]

/-- **soundness for records** whose field types are data types (`shape?` is defined): the consumed
    tokens `pre` (the input is `pre ++ rest`) are the printing of a record shape whose erasure is the
    shape of the returned record -/
theorem record_sound (fuel : Nat) (ts : List Token) (n : String) (c : List String) (fl : List String) (flp : Pos)
    (fs : List Field) (dv : Option (List (String × Pos))) (p : Pos) (rest : List Token)
    (h : content fuel ts = some (.decl (.record n c fl flp fs dv p), rest))
    (hd : (Decl.record n c fl flp fs dv p).shape?.isSome = true) :
    ∃ (pre : List Token) (fields : List FieldShape), ts = pre ++ rest ∧
      pre.map (·.tk) = printRecord n c fl fields (dv.map (fun l => l.map (·.1))) ∧
      (Decl.record n c fl flp fs dv p).shape? =
        some (.record n c fl (fields.map FieldShape.erase) (dv.map (fun l => l.map (·.1)))) := by
  obtain ⟨g, rfl, ht⟩ := content_decl_inv fuel ts _ rest h
  obtain ⟨cs, h1, h2⟩ := comments_sound ts
  obtain ⟨hc, nt, eq, k, tg, lb, body, rb, dvt, hts, hn, heq, hk, htg, hlb, hrb, hm, hdv⟩ :=
    typeDecl_record_inv _ _ _ _ _ _ _ _ _ _ _ _ ht
  have hfs : ∃ r, mapOpt Field.shape? fs = some r := by
    simp only [Decl.shape?, Option.isSome_map] at hd
    exact Option.isSome_iff_exists.mp hd
  obtain ⟨r, hr⟩ := hfs
  obtain ⟨pre, ss, rfl, hpre, hss⟩ := many_sound_rel g (peekKw "}") (field g) printField Field.shape? FieldShape.erase
    (fun ts a r h hd => field_sound g ts a r h hd) g body fs (rb :: (dvt ++ rest)) hm (mapOpt_isSome_of hr)
  refine ⟨cs ++ nt :: eq :: k :: (tg ++ lb :: (pre ++ rb :: dvt)), ss, ?_, ?_, by simp [Decl.shape?, hss]⟩
  · rw [h1, hts]; simp
  · simp [printRecord, printHead, h2, hc, hn, heq, hk, htg, hlb, hrb, hpre, hdv]

/-- round trip and soundness together: on enums, parsing is the exact inverse of printing -/
theorem enum_parse_iff_print (fuel : Nat) (toks rest : List Token) (n : String) (c : List String)
    (items : List ItemShape) (hfuel : toks.length ≤ fuel) :
    (∃ is p, content fuel (toks ++ rest) = some (.decl (.enum n c is p), rest) ∧ is.map Item.shape = items) ↔
    toks.map (·.tk) = printEnum n c items := by
  constructor
  · rintro ⟨is, p, h, rfl⟩
    have := enum_sound fuel _ n c is p rest h
    rw [List.map_append] at this
    exact List.append_cancel_right this
  · intro h
    exact enum_roundtrip n c items toks rest fuel h hfuel

/-- the same for flags -/
theorem flags_parse_iff_print (fuel : Nat) (toks rest : List Token) (n : String) (c : List String)
    (items : List FlagItemShape) (hfuel : toks.length ≤ fuel) :
    (∃ is p, content fuel (toks ++ rest) = some (.decl (.flags n c is p), rest) ∧ is.map FlagItem.shape = items) ↔
    toks.map (·.tk) = printFlags n c items := by
  constructor
  · rintro ⟨is, p, h, rfl⟩
    have := flags_sound fuel _ n c is p rest h
    rw [List.map_append] at this
    exact List.append_cancel_right this
  · intro h
    exact flags_roundtrip n c items toks rest fuel h hfuel

/-! # Non-vacuity: the hypotheses are met by real lexer output -/

/-- a plain, argument-free, non-optional data type -/
def ty (n : String) : TyShape := .mk n false [] false

def exIfaceSrc : String :=
"# doc
i = main interface +cpp -java {
  # m
  static const async m(a: i32, b: list<x.t?>) throws e1, e2 -> bool;
  property p: i32?;
  n() throws;
}"

def exIface : DeclShape :=
  .interface "i" ["# doc"] true ["+cpp", "-java"] [
    .m ⟨"m", true, true, true, ⟨[⟨"a", ty "i32"⟩, ⟨"b", .mk "list" false [.mk "x.t" true [] true] false⟩],
          some [ty "e1", ty "e2"], some (ty "bool")⟩, ["# m"]⟩,
    .p ⟨"p", .mk "i32" false [] true, []⟩,
    .m ⟨"n", false, false, false, ⟨[], some [], none⟩, []⟩]

/-- the real lexer produces exactly the printing of `exIface` -/
theorem exIface_lex : (lex exIfaceSrc).map (fun ts => ts.map (·.tk)) = some (printDecl exIface) := by
  decide +kernel

/-- running the model parser on the lexer output returns the (erased) shape and consumes everything -/
example : (lex exIfaceSrc).bind (fun ts => (content ts.length ts).bind
      (fun (c, r) => c.shape?.map (fun s => (s, r.length)))) = some (.decl exIface.erase, 0) := by
  decide +kernel

/-- `decl_roundtrip` instantiated on the lexer output: all its hypotheses hold -/
example : ∀ toks, lex exIfaceSrc = some toks →
    ∃ x, content toks.length (toks ++ []) = some (.decl x, []) ∧ x.shape? = some exIface.erase := by
  intro toks h
  have hk : toks.map (·.tk) = printDecl exIface := by
    have := exIface_lex; rw [h] at this; simpa using this
  exact decl_roundtrip exIface toks [] toks.length hk trivial (Nat.le_refl _)

def exSmallSrc : String :=
"@import \"x.idl\"
namespace a.b {
  e = enum { # c
    a; }
  r = record +cpp { f: list<i32>; } deriving(eq)
  namespace c { g = flags { x; y = all; } }
}
f = function -java (x: i32) -> bool;
d = error { e1; e2(a: i32 b: string); }"

def exSmall : FileShape :=
  { loads := [⟨true, "\"x.idl\""⟩],
    contents := [
      .ns "a.b" true [] [
        .decl (.enum "e" [] [⟨"a", ["# c"]⟩]),
        .decl (.record "r" [] ["+cpp"] [⟨"f", .mk "list" false [ty "i32"] false, []⟩] (some ["eq"])),
        .ns "c" false [] [.decl (.flags "g" [] [⟨"x", none, []⟩, ⟨"y", some "all", []⟩])]],
      .decl (.function "f" [] (some ["-java"]) ⟨[⟨"x", ty "i32"⟩], none, some (ty "bool")⟩),
      .decl (.error "d" [] [⟨"e1", [], []⟩, ⟨"e2", [⟨"a", ty "i32"⟩, ⟨"b", ty "string"⟩], []⟩])] }

theorem exSmall_lex : (lex exSmallSrc).map (fun ts => ts.map (·.tk)) = some (printFile exSmall) := by
  decide +kernel

/-- `text_roundtrip` instantiated: the source text parses to a file of shape `exSmall` -/
example : ∃ file, parseText exSmallSrc = some file ∧ file.shape? = some exSmall.erase := by
  have h := exSmall_lex
  cases hl : lex exSmallSrc with
  | none => simp [hl] at h
  | some toks =>
    rw [hl] at h
    exact text_roundtrip exSmall exSmallSrc toks hl (by simpa using h)

/-- the follow condition of `record_roundtrip` matters: the printing of a record *without* `deriving`
    followed by `deriving ( eq )` is read as a record *with* `deriving` -/
example : (lex "r = record { } deriving(eq)").bind (fun ts => (content ts.length ts).bind
      (fun (c, r) => c.shape?.map (fun s => (s, r.length)))) =
    some (.decl (.record "r" [] [] [] (some ["eq"])), 0) ∧
    printRecord "r" [] [] [] none ++ [Tk.kw "deriving", Tk.kw "(", Tk.id "eq", Tk.kw ")"] =
      printRecord "r" [] [] [] (some ["eq"]) := by
  decide +kernel

/-- why inline function types are excluded from the shapes: `() throws () -> r` is the printing of
    two different signatures (throws `[()]`, returns `r` / throws `[() -> r]`, returns nothing); the
    parser (like ANTLR) picks the second -/
example : (parseText "f = () throws () -> r;").map (fun f => match f.contents with
      | [.decl (.function _ _ (.mk _ _ [] (some [.fn (.mk _ _ [] none (some _)) _]) none) _)] => true
      | _ => false) = some true := by
  decide +kernel

/-! the same on a larger file exercising every construct (tests: `#guard` evaluates with the
    compiler, not the kernel) -/

def exFileSrc : String :=
"@import \"a.pydjinni\"
@extern \"b.yaml\"
# the namespace
namespace a.b {
  # colours
  color = enum {
    # warm
    red;
    green;
  }
  perm = flags { r; w; rw = all; }
  # a record
  rec = record +cpp -java {
    # field doc
    x: map<string, list<a.b.t?>>;
    y: i32;
  } deriving(eq, ord)
  plain = record { }
  namespace inner {
    iface = main interface +cpp {
      # m doc
      static const async m(a: i32, b: list<string>) throws e1, x.e2 -> bool;
      property p: i32?;
      n();
      t() throws;
    }
  }
  cb = function +cpp (x: i32) -> bool;
  cb2 = (x: i32, y: string) throws e;
  err = error {
    # code doc
    a;
    b(x: i32 y: string);
  }
}
top = enum { }
"

def exFile : FileShape :=
  { loads := [⟨true, "\"a.pydjinni\""⟩, ⟨false, "\"b.yaml\""⟩],
    contents := [
      .ns "a.b" true ["# the namespace"] [
        .decl (.enum "color" ["# colours"] [⟨"red", ["# warm"]⟩, ⟨"green", []⟩]),
        .decl (.flags "perm" [] [⟨"r", none, []⟩, ⟨"w", none, []⟩, ⟨"rw", some "all", []⟩]),
        .decl (.record "rec" ["# a record"] ["+cpp", "-java"]
          [⟨"x", .mk "map" false [ty "string", .mk "list" false [.mk "a.b.t" true [] true] false] false, ["# field doc"]⟩,
           ⟨"y", ty "i32", []⟩] (some ["eq", "ord"])),
        .decl (.record "plain" [] [] [] none),
        .ns "inner" false [] [
          .decl (.interface "iface" [] true ["+cpp"] [
            .m ⟨"m", true, true, true, ⟨[⟨"a", ty "i32"⟩, ⟨"b", .mk "list" false [ty "string"] false⟩],
                  some [ty "e1", .mk "x.e2" true [] false], some (ty "bool")⟩, ["# m doc"]⟩,
            .p ⟨"p", .mk "i32" false [] true, []⟩,
            .m ⟨"n", false, false, false, ⟨[], none, none⟩, []⟩,
            .m ⟨"t", false, false, false, ⟨[], some [], none⟩, []⟩])],
        .decl (.function "cb" [] (some ["+cpp"]) ⟨[⟨"x", ty "i32"⟩], none, some (ty "bool")⟩),
        .decl (.function "cb2" [] none ⟨[⟨"x", ty "i32"⟩, ⟨"y", ty "string"⟩], some [ty "e"], none⟩),
        .decl (.error "err" [] [⟨"a", [], ["# code doc"]⟩, ⟨"b", [⟨"x", ty "i32"⟩, ⟨"y", ty "string"⟩], []⟩])],
      .decl (.enum "top" [] [])] }


-- test: the real lexer produces exactly the printing of `exFile`
#guard (lex exFileSrc).map (fun ts => decide (ts.map (·.tk) = printFile exFile)) == some true
-- test: parsing the text gives the erased shape
#guard (parseText exFileSrc).bind File.shape? == some exFile.erase
-- test: with arbitrary (here: all-zero) positions the result is the same
#guard (parseFile ((printFile exFile).map fun k => { tk := k, line := 0, col := 0, len := 0, endLine := 0, endCol := 0 })).bind
  File.shape? == some exFile.erase

#print axioms decl_roundtrip
#print axioms enum_roundtrip
#print axioms flags_roundtrip
#print axioms record_roundtrip
#print axioms interface_roundtrip
#print axioms function_roundtrip
#print axioms errorDomain_roundtrip
#print axioms method_roundtrip
#print axioms property_roundtrip
#print axioms errCode_roundtrip
#print axioms content_roundtrip
#print axioms file_roundtrip
#print axioms text_roundtrip
#print axioms printFile_injective
#print axioms enum_sound_prefix
#print axioms flags_sound_prefix
#print axioms enum_sound
#print axioms flags_sound
#print axioms record_sound
#print axioms enum_parse_iff_print
#print axioms flags_parse_iff_print
#print axioms exIface_lex
#print axioms exSmall_lex

end Pydjinni.Front
