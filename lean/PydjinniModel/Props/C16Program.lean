import PydjinniModel.Front.SpecProgram
import PydjinniModel.Props.C05Program
/-!
# C16 / C04 / C05 — whole programs, import diagnostics included

`Props/C05Program.lean` proves that the multi-file model `front` reports exactly the specification's rule violations
for programs with a *clean* import graph (`CleanImports`: every line is an `@import` that resolves, no cycle). This
file drops these restrictions: missing files, self references, circular imports, repeated imports, `@extern` lines
(valid external type files, undecodable ones, invalid ones) and duplicate declarations are all covered.

The specification is `programDiags` of `Front/SpecProgram.lean`: the import tree `rootVisits` (a depth-first search
with the chain of importers and the set of files entered) and, visit by visit, the diagnostics of the load lines
(`lineDiags`) and the rule violations of the file read against the registry of its moment.

* `PostV`, `doLoads_sim`, `parseOne_sim`   the simulation (induction over fuel and load lists); registration either
                                  succeeds or stops at the first collision (`registerAll_cases`)
* `front_run_visits`              the root call: diagnostics, final registry, or the abort and its place
* `front_eq_programDiags`         **the main theorem**: `front` reports a permutation of `programDiags`
* `front_duplicate_raised`, `front_duplicate_position`, `programCollision_none_iff`
                                  **duplicates**: aborted by a `TypeResolvingException` iff the registered names are not
                                  pairwise distinct, at the first colliding registration (`programCollision`)
* `front_missing_iff`             **missing files**: `missing-file` at the path token iff no search candidate exists
* `front_circular_iff_line`, `front_cycle_iff`
                                  **cycles**: `circular-import` is reported iff some line closes a cycle (`ClosesCycle`),
                                  iff the import graph (`ImportsTo`) has a cycle or an `@extern` line refers to its own file
                                  (`closesCycle_iff_cycle`, `rootVisits_tree`: about the search only)
* `front_ok_iff`                  **acceptance**: every load line `LineOk`, nothing undecodable, no rule violation
                                  (`programViolations`); `diagsFrom_perm`, `violations_rule`, `mem_diagsFrom_import`
* `rootVisits_events`, `rootVisits_files`, `rootVisits_data`, `programKeys_rootEvents`
                                  link to `Front/Order.lean`: the visits are the registration events `rootEvents`, the IDL
                                  files visited are `rootOrder`, the registered names are those of the events in event order
* `visitsChecks`                  the hypotheses, computable (used for the examples)

Hypotheses (`GoodV`) that are not in the informal statement: as in `Props/C05Program.lean`, the IDL files have pairwise
distinct *names* and the references within a file are at pairwise distinct positions (H4). "Every reachable IDL file
lexes and parses" is stated on the search itself: no visit is `broken` (everything *entered* — the root, the target of
every `@import` line that is followed — is IDL text inside the grammar or an undecodable file). Targets of `@extern`
lines may be anything.
-/
namespace Pydjinni.Front

/-! ### the search only appends visits -/

theorem visitStep_extends (cfg : Cfg) (fs : FS) (rec : List APath → APath → APath → VisitAcc → VisitAcc)
    (hrec : ∀ st p s a, ∃ ext, (rec st p s a).2 = a.2 ++ ext) (stack : List APath) (spelled : APath) (acc : VisitAcc)
    (l : LoadAt) : ∃ ext, (visitStep cfg fs rec stack spelled acc l).2 = acc.2 ++ ext := by
  unfold visitStep
  split
  · exact ⟨[], by simp⟩
  · split
    · exact ⟨[], by simp⟩
    · split
      · split
        · exact ⟨[], by simp⟩
        · exact hrec _ _ _ _
      · split
        · exact ⟨_, rfl⟩
        · exact ⟨[], by simp⟩

theorem foldl_visitStep_extends (cfg : Cfg) (fs : FS) (rec : List APath → APath → APath → VisitAcc → VisitAcc)
    (hrec : ∀ st p s a, ∃ ext, (rec st p s a).2 = a.2 ++ ext) (stack : List APath) (spelled : APath)
    (loads : List LoadAt) (acc : VisitAcc) :
    ∃ ext, (loads.foldl (visitStep cfg fs rec stack spelled) acc).2 = acc.2 ++ ext := by
  induction loads generalizing acc with
  | nil => exact ⟨[], by simp⟩
  | cons l ls ih =>
    simp only [List.foldl_cons]
    obtain ⟨e1, h1⟩ := visitStep_extends cfg fs rec hrec stack spelled acc l
    obtain ⟨e2, h2⟩ := ih (visitStep cfg fs rec stack spelled acc l)
    exact ⟨e1 ++ e2, by rw [h2, h1, List.append_assoc]⟩

theorem visitOrder_extends (cfg : Cfg) (fs : FS) (fuel : Nat) (stack : List APath) (file spelled : APath) (acc : VisitAcc) :
    ∃ ext, (visitOrder cfg fs fuel stack file spelled acc).2 = acc.2 ++ ext := by
  induction fuel generalizing stack file spelled acc with
  | zero => exact ⟨_, rfl⟩
  | succ n ih =>
    simp only [visitOrder]
    cases hf : fs.get file with
    | none => exact ⟨_, rfl⟩
    | some fc =>
      cases fc with
      | idl text =>
        simp only []
        cases hp : parseText text with
        | none => exact ⟨_, rfl⟩
        | some f =>
          simp only []
          obtain ⟨e, he⟩ := foldl_visitStep_extends cfg fs _ (fun st p s a => ih st p s a) (stack ++ [file]) spelled f.loads acc
          exact ⟨e ++ [.file file spelled stack f.loads f.contents], by rw [he, List.append_assoc]⟩
      | ext d => exact ⟨_, rfl⟩
      | badExt => exact ⟨_, rfl⟩
      | notText pos => exact ⟨_, rfl⟩

/-! ### the specification, piecewise -/

theorem diagsFrom_append (cfg : Cfg) (fs : FS) (R : Registry) (a b : List Visit) :
    diagsFrom cfg fs R (a ++ b) = diagsFrom cfg fs R a ++ diagsFrom cfg fs (R ++ a.flatMap visitDefs) b := by
  induction a generalizing R with
  | nil => simp [diagsFrom]
  | cons v a ih => simp only [List.cons_append, diagsFrom, ih, List.flatMap_cons, List.append_assoc]

theorem programKeys_append (R : Registry) (a b : List Visit) :
    programKeys R (a ++ b) = programKeys (R ++ a.flatMap visitDefs) b := by
  simp only [programKeys, List.flatMap_append, List.append_assoc]

theorem programKeys_nil (R : Registry) : programKeys R [] = R.map (·.key) := by simp [programKeys]

theorem programKeys_nodup_left (R : Registry) (a b : List Visit) (h : (programKeys R (a ++ b)).Nodup) :
    (programKeys R a).Nodup := by
  simp only [programKeys, List.flatMap_append, List.map_append] at h ⊢
  rw [← List.append_assoc] at h
  exact (List.nodup_append.mp h).1

/-! ### registration either succeeds or stops at a duplicate -/

theorem map_key_siteDef (sites : List RegSite) : (sites.map siteDef).map (·.key) = sites.map (·.key) := by
  simp [siteDef, List.map_map, Function.comp_def]

def siteTriple (s : RegSite) : String × String × Pos := (s.key, s.file, s.pos)

/-- `registerAll` stops at the first site whose name is taken: `firstCollision` -/
theorem registerAll_collision (r : Registry) (sites : List RegSite) :
    match registerAll r sites with
    | .ok _ => firstCollision (r.map (·.key)) (sites.map siteTriple) = none
    | .error s => firstCollision (r.map (·.key)) (sites.map siteTriple) = some (s.file, s.pos) := by
  induction sites generalizing r with
  | nil => simp [registerAll, firstCollision]
  | cons s rest ih =>
    simp only [registerAll, List.map_cons, firstCollision]
    by_cases hs : (r.get s.key).isSome = true
    · have hm : s.key ∈ r.map (·.key) := (get_isSome_iff r s.key).mp hs
      simp [hs, siteTriple, hm]
    · have hm : s.key ∉ r.map (·.key) := fun h => hs ((get_isSome_iff r s.key).mpr h)
      have := ih (r ++ [{ key := s.key, prim := s.prim, arity := s.arity }])
      simp only [List.map_append, List.map_cons, List.map_nil] at this
      simpa [hs, siteTriple, hm] using this

theorem firstCollision_append (T : List String) (a b : List (String × String × Pos)) :
    firstCollision T (a ++ b)
      = match firstCollision T a with
        | some x => some x
        | none => firstCollision (T ++ a.map (·.1)) b := by
  induction a generalizing T with
  | nil => simp [firstCollision]
  | cons x a ih =>
    simp only [List.cons_append, firstCollision, List.map_cons]
    split
    · rfl
    · rw [ih]; simp only [List.append_assoc, List.singleton_append]

theorem firstCollision_none_of_nodup (T : List String) (l : List (String × String × Pos))
    (h : (T ++ l.map (·.1)).Nodup) : firstCollision T l = none := by
  induction l generalizing T with
  | nil => rfl
  | cons x l ih =>
    simp only [firstCollision]
    have hx : x.1 ∉ T := by
      intro hm
      exact (List.nodup_append.mp h).2.2 _ hm _ (by simp) rfl
    rw [if_neg hx]
    apply ih
    simpa [List.append_assoc] using h

theorem visitSites_keys (v : Visit) : (visitSites v).map (·.1) = (visitDefs v).map (·.key) := by
  cases v <;> simp [visitSites, visitDefs, declDefs, extDefs, List.map_map, Function.comp_def]

theorem sites_keys (vs : List Visit) : (vs.flatMap visitSites).map (·.1) = (vs.flatMap visitDefs).map (·.key) := by
  induction vs with
  | nil => rfl
  | cons v vs ih => simp only [List.flatMap_cons, List.map_append, ih, visitSites_keys]

theorem sites_walkDecl (e : Env) (ns : List String) (d : Decl) :
    (walkDecl e ns d).regs.map siteTriple = [(declKey ns d, e.file, declPos d)] := by
  cases d with
  | enum n c items pos => simp [walkDecl, reg1, declKey, declPos, siteTriple]
  | flags n c items pos => simp [walkDecl, reg1, declKey, declPos, siteTriple]
  | record n c fl fp fields der pos => simp [walkDecl, reg1, declKey, declPos, siteTriple, regs_walkFields]
  | interface n c main fl fp methods props pos =>
    simp [walkDecl, reg1, declKey, declPos, siteTriple, regs_walkMethods, regs_walkProps]
  | function n c sig pos => simp [walkDecl, declKey, declPos, siteTriple, regs_walkF]
  | error n c codes pos => simp [walkDecl, reg1, declKey, declPos, siteTriple, regs_walkCodes]

mutual
theorem sites_walkContent (e : Env) (ns : List String) (c : Content) :
    (walkContent e ns c).regs.map siteTriple = (declsOfContent ns c).map (fun x => (declKey x.1 x.2, e.file, declPos x.2)) := by
  cases c with
  | decl d => simp [walkContent, declsOfContent, sites_walkDecl]
  | ns name cm children pos => simp only [walkContent, declsOfContent]; exact sites_walkContents e _ children
theorem sites_walkContents (e : Env) (ns : List String) (cs : List Content) :
    (walkContents e ns cs).regs.map siteTriple = (declsOfContents ns cs).map (fun x => (declKey x.1 x.2, e.file, declPos x.2)) := by
  cases cs with
  | nil => rfl
  | cons c cs =>
    simp only [walkContents, declsOfContents, Collected.regs_append', List.map_append]
    rw [sites_walkContent e ns c, sites_walkContents e ns cs]
end

theorem extRegs_triple (file : String) (defs : List ExtDef) :
    (extRegs file defs).map siteTriple = defs.map (fun d => (d.key, file, d.pos)) := by
  induction defs with
  | nil => rfl
  | cons d ds ih => simp only [extRegs, List.map_cons, ih, siteTriple]

theorem registerAll_cases (r : Registry) (sites : List RegSite) (hr : (r.map (·.key)).Nodup) :
    (((r ++ sites.map siteDef).map (·.key)).Nodup ∧ registerAll r sites = .ok (r ++ sites.map siteDef))
      ∨ (¬ ((r ++ sites.map siteDef).map (·.key)).Nodup ∧ ∃ s, registerAll r sites = .error s
          ∧ firstCollision (r.map (·.key)) (sites.map siteTriple) = some (s.file, s.pos)) := by
  have hcol := registerAll_collision r sites
  cases h : registerAll r sites with
  | ok r' =>
    have heq := registerAll_ok_eq r r' sites h
    obtain ⟨h1, h2⟩ := (registerAll_ok_iff r sites).mp ⟨r', h⟩
    refine Or.inl ⟨?_, by rw [heq]⟩
    rw [List.map_append, map_key_siteDef, List.nodup_append]
    refine ⟨hr, h1, fun a ha b hb hab => ?_⟩
    subst hab
    obtain ⟨s, hs, hk⟩ := List.mem_map.mp hb
    exact h2 s hs (hk ▸ ha)
  | error s =>
    rw [h] at hcol
    refine Or.inr ⟨fun hnd => ?_, s, rfl, hcol⟩
    rw [List.map_append, map_key_siteDef, List.nodup_append] at hnd
    obtain ⟨_, h1, h2⟩ := hnd
    obtain ⟨r', hr'⟩ := (registerAll_ok_iff r sites).mpr
      ⟨h1, fun x hx hm => h2 _ hm _ (List.mem_map.mpr ⟨x, hx, rfl⟩) rfl⟩
    rw [h] at hr'; cases hr'

/-! ### hypotheses on the visits -/

/-- what is assumed about one visit: the references written in an IDL file are at pairwise distinct positions (H4 of
    `Props/C05Program.lean`); nothing that is entered is outside the grammar -/
def VisitOk (cfg : Cfg) : Visit → Prop
  | .file f _ _ _ contents => RefPositionsDistinct cfg { file := showPath f, contents := contents }
  | .broken _ => False
  | _ => True

/-- what is assumed about a list of visits: the IDL files have pairwise distinct names (the model keys its resolution
    map by file name and position), and every visit is `VisitOk` -/
def GoodV (cfg : Cfg) (vs : List Visit) : Prop :=
  ((vs.filterMap Visit.file?).map showPath).Nodup ∧ ∀ v ∈ vs, VisitOk cfg v

theorem GoodV.prefix {cfg : Cfg} {a b : List Visit} (h : GoodV cfg (a ++ b)) : GoodV cfg a := by
  obtain ⟨h1, h2⟩ := h
  refine ⟨?_, fun v hv => h2 v (List.mem_append_left _ hv)⟩
  rw [List.filterMap_append, List.map_append] at h1
  exact (List.nodup_append.mp h1).1

/-! ### the simulation -/

/-- what a (nested) call returns: it runs out of fuel; or — `new` being the visits the search adds — the names
    registered so far are pairwise distinct, the call succeeds, the `visited` list is again the stack plus the imported
    set, the registry has grown by the definitions of `new`, bindings only concern finished files, and the diagnostics
    added are a permutation of the pending line diagnostics `lineDs` and of what the specification says about `new`
    read on top of the registry the call started with; or some name is registered twice and the call is aborted by a
    `TypeResolvingException` at the place `firstCollision` says. -/
def PostV (cfg : Cfg) (fs : FS) (st : PState) (acc out : VisitAcc) (stackV : List APath)
    (r : Except Abort (PResult × PState)) (errs0 lineDs : List Diag) : Prop :=
  r = .error .outOfFuel ∨ ∃ new, out.2 = acc.2 ++ new ∧
    (((programKeys st.reg new).Nodup ∧ ∃ res st' errs, r = .ok (res, st') ∧ Visited out.1 stackV st'.imported
        ∧ st'.reg = st.reg ++ new.flatMap visitDefs ∧ ResInv st'.resolved (out.2.filterMap Visit.file?)
        ∧ res.errors = errs0 ++ errs ∧ errs.Perm (lineDs ++ diagsFrom cfg fs st.reg new))
     ∨ (¬ (programKeys st.reg new).Nodup ∧ ∃ f p, r = .error (.raised "TypeResolvingException" f p)
          ∧ firstCollision (st.reg.map (·.key)) (new.flatMap visitSites) = some (f, p)))

theorem perm_shuffle {α : Type} (a b c d : List α) : ((a ++ b) ++ (c ++ d)).Perm ((a ++ c) ++ (b ++ d)) := by
  simp only [List.append_assoc]
  refine List.Perm.append_left a ?_
  rw [← List.append_assoc, ← List.append_assoc]
  exact List.Perm.append_right d List.perm_append_comm

/-- sequencing: a first part (the visits `v1`, reported as `errs1`) followed by a rest -/
theorem PostV.seq {cfg : Cfg} {fs : FS} {st : PState} {acc out : VisitAcc} {sv : List APath}
    {r : Except Abort (PResult × PState)} {errs0 : List Diag} (v1 : List Visit) (st1 : PState) (acc1 : VisitAcc)
    (errs1 lineDs1 lineDs2 : List Diag)
    (hacc : acc1.2 = acc.2 ++ v1) (hreg : st1.reg = st.reg ++ v1.flatMap visitDefs)
    (hnd1 : (st1.reg.map (·.key)).Nodup)
    (hperm1 : errs1.Perm (lineDs1 ++ diagsFrom cfg fs st.reg v1))
    (h : PostV cfg fs st1 acc1 out sv r (errs0 ++ errs1) lineDs2) :
    PostV cfg fs st acc out sv r errs0 (lineDs1 ++ lineDs2) := by
  rcases h with h | ⟨new2, hout, h⟩
  · exact Or.inl h
  · have hk : programKeys st.reg (v1 ++ new2) = programKeys st1.reg new2 := by rw [programKeys_append, hreg]
    refine Or.inr ⟨v1 ++ new2, by rw [hout, hacc, List.append_assoc], ?_⟩
    rcases h with ⟨hnd, res, st', errs, hok, hv, hreg', hres, herr, hperm⟩ | ⟨hnd, f, p, herr, hfc⟩
    · refine Or.inl ⟨by rw [hk]; exact hnd, res, st', errs1 ++ errs, hok, hv, ?_, hres, ?_, ?_⟩
      · rw [hreg', hreg, List.flatMap_append, List.append_assoc]
      · rw [herr, List.append_assoc]
      · rw [diagsFrom_append, ← hreg]
        exact (List.Perm.append hperm1 hperm).trans (perm_shuffle _ _ _ _)
    · refine Or.inr ⟨by rw [hk]; exact hnd, f, p, herr, ?_⟩
      have hT : st.reg.map (·.key) ++ (v1.flatMap visitSites).map (·.1) = st1.reg.map (·.key) := by
        rw [hreg, List.map_append, sites_keys]
      rw [List.flatMap_append, firstCollision_append, firstCollision_none_of_nodup _ _ (by rw [hT]; exact hnd1)]
      simp only
      rw [hT]; exact hfc

/-- a load line that is reported and loads nothing -/
theorem PostV.shift {cfg : Cfg} {fs : FS} {st : PState} {acc out : VisitAcc} {sv : List APath}
    {r : Except Abort (PResult × PState)} {errs0 lineDs : List Diag} (d : Diag) (hnd : (st.reg.map (·.key)).Nodup)
    (h : PostV cfg fs st acc out sv r (errs0 ++ [d]) lineDs) : PostV cfg fs st acc out sv r errs0 ([d] ++ lineDs) :=
  PostV.seq [] st acc [d] [d] lineDs (by simp) (by simp) hnd (by simp [diagsFrom]) h

theorem PostV.of_raised {cfg : Cfg} {fs : FS} {st : PState} {acc out : VisitAcc} {sv : List APath}
    {errs0 lineDs : List Diag} (new1 ext : List Visit) (hout : out.2 = acc.2 ++ (new1 ++ ext))
    (hnd : ¬ (programKeys st.reg new1).Nodup) (f : String) (p : Pos)
    (hfc : firstCollision (st.reg.map (·.key)) (new1.flatMap visitSites) = some (f, p)) :
    PostV cfg fs st acc out sv (.error (.raised "TypeResolvingException" f p)) errs0 lineDs :=
  Or.inr ⟨new1 ++ ext, hout, Or.inr ⟨fun h => hnd (programKeys_nodup_left _ _ _ h), f, p, rfl, by
    rw [List.flatMap_append, firstCollision_append, hfc]⟩⟩

theorem resInv_congr {m : Resolved} {a b : List APath} (h : a = b) (hr : ResInv m a) : ResInv m b := h ▸ hr

theorem doLoads_sim (cfg : Cfg) (fs : FS) (n : Nat)
    (ih : ∀ stack file spelled st acc, Visited acc.1 (stack ++ [file]) st.imported → (st.reg.map (·.key)).Nodup →
      ResInv st.resolved (acc.2.filterMap Visit.file?) → GoodV cfg (visitOrder cfg fs n stack file spelled acc).2 →
      PostV cfg fs st acc (visitOrder cfg fs n stack file spelled acc) (stack ++ [file])
        (parseOne cfg fs n stack file spelled st) [] [])
    (stack0 : List APath) (file spelled : APath) (ls : List LoadAt) (res : PResult) (st : PState) (acc : VisitAcc)
    (hv : Visited acc.1 (stack0 ++ [file]) st.imported) (hnd : (st.reg.map (·.key)).Nodup)
    (hres : ResInv st.resolved (acc.2.filterMap Visit.file?))
    (hgood : GoodV cfg (ls.foldl (visitStep cfg fs (visitOrder cfg fs n) (stack0 ++ [file]) spelled) acc).2) :
    PostV cfg fs st acc (ls.foldl (visitStep cfg fs (visitOrder cfg fs n) (stack0 ++ [file]) spelled) acc) (stack0 ++ [file])
      (doLoads cfg fs (parseOne cfg fs n) (stack0 ++ [file]) file spelled ls res st) res.errors
      (ls.flatMap (lineDiags cfg fs stack0 file spelled)) := by
  induction ls generalizing res st acc with
  | nil =>
    refine Or.inr ⟨[], by simp, Or.inl ⟨by rw [programKeys_nil]; exact hnd, res, st, [], by simp [doLoads], hv, by simp,
      hres, by simp, ?_⟩⟩
    simp [diagsFrom]
  | cons l ls ihl =>
    simp only [List.foldl_cons, List.flatMap_cons] at hgood ⊢
    cases hfind : findFile cfg fs spelled (filepathText l.lit) with
    | none =>
      have hstep : visitStep cfg fs (visitOrder cfg fs n) (stack0 ++ [file]) spelled acc l = acc := by
        simp [visitStep, hfind]
      have hline : lineDiags cfg fs stack0 file spelled l
          = [mk "FileNotFoundException" "missing-file" (showPath file) l.pathPos] := by simp [lineDiags, hfind]
      rw [doLoads_missing_reported cfg fs _ _ _ _ l ls res st hfind, hline]
      rw [hstep] at hgood ⊢
      exact (ihl _ st acc hv hnd hres hgood).shift _ hnd
    | some cp =>
      obtain ⟨c, p⟩ := cp
      cases hs : refersToSelf c spelled with
      | true =>
        have hs' : (c.spelledAbsolute && c.path == spelled) = true := hs
        have hstep : visitStep cfg fs (visitOrder cfg fs n) (stack0 ++ [file]) spelled acc l = acc := by
          simp [visitStep, hfind, hs]
        have hline : lineDiags cfg fs stack0 file spelled l
            = [mk "ParsingException" "circular-import" (showPath file) l.pathPos] := by simp [lineDiags, hfind, hs]
        have hd : doLoads cfg fs (parseOne cfg fs n) (stack0 ++ [file]) file spelled (l :: ls) res st
            = doLoads cfg fs (parseOne cfg fs n) (stack0 ++ [file]) file spelled ls
                { res with errors := res.errors ++ [mk "ParsingException" "circular-import" (showPath file) l.pathPos] } st := by
          simp only [doLoads, hfind, hs', if_true]
          rfl
        rw [hd, hline]
        rw [hstep] at hgood ⊢
        exact (ihl _ st acc hv hnd hres hgood).shift _ hnd
      | false =>
        have hs' : (c.spelledAbsolute && c.path == spelled) = false := hs
        cases himp : l.isImport with
        | true =>
          by_cases hst : p ∈ stack0 ++ [file]
          · have hstc : (stack0 ++ [file]).contains p = true := by simpa using hst
            have hvp : acc.1.contains p = true := by
              have := (hv p).mpr (Or.inl hst)
              simpa using this
            have hstep : visitStep cfg fs (visitOrder cfg fs n) (stack0 ++ [file]) spelled acc l = acc := by
              simp only [visitStep, hfind, hs, himp, hvp, if_true, Bool.false_eq_true, if_false]
            have hline : lineDiags cfg fs stack0 file spelled l
                = [mk "ParsingException" "circular-import" (showPath file) l.pos] := by
              simp only [lineDiags, hfind, hs, himp, hstc, if_true, Bool.false_eq_true, if_false]
            rw [doLoads_cycle_reported cfg fs _ _ _ _ l ls res st c p hfind hs' himp hstc, hline]
            rw [hstep] at hgood ⊢
            exact (ihl _ st acc hv hnd hres hgood).shift _ hnd
          · have hstc : (stack0 ++ [file]).contains p = false := by simpa using hst
            have hline : lineDiags cfg fs stack0 file spelled l = [] := by
              simp only [lineDiags, hfind, hs, himp, hstc, if_true, Bool.false_eq_true, if_false]
            rw [hline, List.nil_append]
            by_cases hi : p ∈ st.imported
            · have hvp : acc.1.contains p = true := by
                have := (hv p).mpr (Or.inr hi)
                simpa using this
              have hstep : visitStep cfg fs (visitOrder cfg fs n) (stack0 ++ [file]) spelled acc l = acc := by
                simp only [visitStep, hfind, hs, himp, hvp, if_true, Bool.false_eq_true, if_false]
              rw [doLoads_once cfg fs _ _ _ _ l ls res st c p hfind hs' himp hstc (by simpa using hi)]
              rw [hstep] at hgood ⊢
              exact ihl res st acc hv hnd hres hgood
            · have hvp : acc.1.contains p = false := by
                have : p ∉ acc.1 := fun hm => by
                  rcases (hv p).mp hm with h1 | h1
                  · exact hst h1
                  · exact hi h1
                simpa using this
              have hstep : visitStep cfg fs (visitOrder cfg fs n) (stack0 ++ [file]) spelled acc l
                  = visitOrder cfg fs n (stack0 ++ [file]) p c.path (acc.1 ++ [p], acc.2) := by
                simp only [visitStep, hfind, hs, himp, hvp, if_true, Bool.false_eq_true, if_false]
              rw [hstep] at hgood ⊢
              have hic : st.imported.contains p = false := by simpa using hi
              have hd : doLoads cfg fs (parseOne cfg fs n) (stack0 ++ [file]) file spelled (l :: ls) res st
                  = match parseOne cfg fs n (stack0 ++ [file]) p c.path { st with imported := st.imported ++ [p] } with
                    | .error a => .error a
                    | .ok (r, st1) => doLoads cfg fs (parseOne cfg fs n) (stack0 ++ [file]) file spelled ls
                        { units := res.units ++ r.units, refs := res.refs ++ r.refs, errors := res.errors ++ r.errors } st1 := by
                simp only [doLoads, hfind, hs', himp, hstc, hic, Bool.false_eq_true, if_false, if_true]
                rfl
              rw [hd]
              obtain ⟨ext, hext⟩ := foldl_visitStep_extends cfg fs (visitOrder cfg fs n)
                (fun st p s a => visitOrder_extends cfg fs n st p s a) (stack0 ++ [file]) spelled ls
                (visitOrder cfg fs n (stack0 ++ [file]) p c.path (acc.1 ++ [p], acc.2))
              have hgood1 : GoodV cfg (visitOrder cfg fs n (stack0 ++ [file]) p c.path (acc.1 ++ [p], acc.2)).2 := by
                rw [hext] at hgood; exact hgood.prefix
              have h1 := ih (stack0 ++ [file]) p c.path { st with imported := st.imported ++ [p] } (acc.1 ++ [p], acc.2)
                (Visited.enter p hv) hnd hres hgood1
              rcases h1 with h1 | ⟨new1, hout1, ⟨hnd1, r1, st1, errs1, hok, hv1, hreg1, hres1, herr1, hperm1⟩ | ⟨hnd1, f', p', herr, hfc⟩⟩
              · rw [h1]; exact Or.inl rfl
              · rw [hok]
                simp only
                have hpin : p ∈ st1.imported := parseOne_imported_mono cfg fs n _ p c.path _ r1 st1 hok p (by simp)
                have hv1' := Visited.exit p hv1 hpin
                have hnd_st1 : (st1.reg.map (·.key)).Nodup := by rw [hreg1]; exact hnd1
                have h2 := ihl { units := res.units ++ r1.units, refs := res.refs ++ r1.refs, errors := res.errors ++ r1.errors }
                  st1 (visitOrder cfg fs n (stack0 ++ [file]) p c.path (acc.1 ++ [p], acc.2)) hv1' hnd_st1 hres1 hgood
                have := PostV.seq (st := st) (acc := acc) (errs0 := res.errors) new1 st1 _ r1.errors [] _ hout1 hreg1 hnd_st1
                  (by rw [herr1]; simpa using hperm1) h2
                simpa using this
              · rw [herr]
                exact PostV.of_raised new1 ext (by rw [hext, hout1, List.append_assoc]) hnd1 f' p' hfc
        | false =>
          have hstepE : ∀ (hne : ∀ defs, fs.get p ≠ some (.ext defs)),
              visitStep cfg fs (visitOrder cfg fs n) (stack0 ++ [file]) spelled acc l = acc := by
            intro hne
            simp only [visitStep, hfind, hs, himp, Bool.false_eq_true, if_false]
            first
              | done
              | (split
                 · rename_i defs hg; exact absurd hg (hne defs)
                 · rfl)
          cases hg : fs.get p with
          | none =>
            have hline : lineDiags cfg fs stack0 file spelled l
                = [mk "InputParsingException" "bad-extern" (showPath p) default] := by
              simp only [lineDiags, hfind, hs, himp, hg, Bool.false_eq_true, if_false]
            have hd : doLoads cfg fs (parseOne cfg fs n) (stack0 ++ [file]) file spelled (l :: ls) res st
                = doLoads cfg fs (parseOne cfg fs n) (stack0 ++ [file]) file spelled ls
                    { res with errors := res.errors ++ [mk "InputParsingException" "bad-extern" (showPath p) default] } st := by
              simp only [doLoads, hfind, hs', himp, hg, Bool.false_eq_true, if_false]
              rfl
            rw [hd, hline]
            rw [hstepE (fun defs h => by rw [hg] at h; cases h)] at hgood ⊢
            exact (ihl _ st acc hv hnd hres hgood).shift _ hnd
          | some fc =>
            cases fc with
            | ext defs =>
              have hline : lineDiags cfg fs stack0 file spelled l = [] := by
                simp only [lineDiags, hfind, hs, himp, hg, Bool.false_eq_true, if_false]
              have hstep : visitStep cfg fs (visitOrder cfg fs n) (stack0 ++ [file]) spelled acc l
                  = (acc.1, acc.2 ++ [.extern p defs]) := by
                simp only [visitStep, hfind, hs, himp, hg, Bool.false_eq_true, if_false]
              have hd : doLoads cfg fs (parseOne cfg fs n) (stack0 ++ [file]) file spelled (l :: ls) res st
                  = match registerAll st.reg (extRegs (showPath p) defs) with
                    | .error s => .error (.raised "TypeResolvingException" s.file s.pos)
                    | .ok reg => doLoads cfg fs (parseOne cfg fs n) (stack0 ++ [file]) file spelled ls res { st with reg := reg } := by
                simp only [doLoads, hfind, hs', himp, hg, Bool.false_eq_true, if_false]
                rfl
              rw [hd, hline, List.nil_append]
              rw [hstep] at hgood ⊢
              obtain ⟨ext, hext⟩ := foldl_visitStep_extends cfg fs (visitOrder cfg fs n)
                (fun st p s a => visitOrder_extends cfg fs n st p s a) (stack0 ++ [file]) spelled ls
                (acc.1, acc.2 ++ [.extern p defs])
              rcases registerAll_cases st.reg (extRegs (showPath p) defs) hnd with ⟨hk, hok⟩ | ⟨hk, s, herr, hfc⟩
              · rw [hok]
                simp only
                rw [extRegs_siteDef] at hk ⊢
                have h2 := ihl res { st with reg := st.reg ++ extDefs defs } (acc.1, acc.2 ++ [.extern p defs]) hv hk
                  (by rw [List.filterMap_append]; show ResInv _ (_ ++ []); rw [List.append_nil]; exact hres) hgood
                have := PostV.seq (st := st) (acc := acc) (errs0 := res.errors) [.extern p defs]
                  { st with reg := st.reg ++ extDefs defs } (acc.1, acc.2 ++ [.extern p defs]) [] [] _ rfl
                  (by simp [visitDefs]) hk (by simp [diagsFrom, visitDiags]) (by simpa using h2)
                simpa using this
              · rw [herr]
                simp only
                rw [extRegs_siteDef] at hk
                rw [extRegs_triple] at hfc
                exact PostV.of_raised [.extern p defs] ext (by rw [hext]; simp) (by simpa [programKeys, visitDefs] using hk) _ _
                  (by simpa [visitSites] using hfc)
            | idl text =>
              have hline : lineDiags cfg fs stack0 file spelled l
                  = [mk "InputParsingException" "bad-extern" (showPath p) default] := by
                simp only [lineDiags, hfind, hs, himp, hg, Bool.false_eq_true, if_false]
              have hd : doLoads cfg fs (parseOne cfg fs n) (stack0 ++ [file]) file spelled (l :: ls) res st
                  = doLoads cfg fs (parseOne cfg fs n) (stack0 ++ [file]) file spelled ls
                      { res with errors := res.errors ++ [mk "InputParsingException" "bad-extern" (showPath p) default] } st := by
                simp only [doLoads, hfind, hs', himp, hg, Bool.false_eq_true, if_false]
                rfl
              rw [hd, hline]
              rw [hstepE (fun defs h => by rw [hg] at h; cases h)] at hgood ⊢
              exact (ihl _ st acc hv hnd hres hgood).shift _ hnd
            | badExt =>
              have hline : lineDiags cfg fs stack0 file spelled l
                  = [mk "InputParsingException" "bad-extern" (showPath p) default] := by
                simp only [lineDiags, hfind, hs, himp, hg, Bool.false_eq_true, if_false]
              have hd : doLoads cfg fs (parseOne cfg fs n) (stack0 ++ [file]) file spelled (l :: ls) res st
                  = doLoads cfg fs (parseOne cfg fs n) (stack0 ++ [file]) file spelled ls
                      { res with errors := res.errors ++ [mk "InputParsingException" "bad-extern" (showPath p) default] } st := by
                simp only [doLoads, hfind, hs', himp, hg, Bool.false_eq_true, if_false]
                rfl
              rw [hd, hline]
              rw [hstepE (fun defs h => by rw [hg] at h; cases h)] at hgood ⊢
              exact (ihl _ st acc hv hnd hres hgood).shift _ hnd
            | notText pos =>
              have hline : lineDiags cfg fs stack0 file spelled l
                  = [mk "InputParsingException" "extern-not-utf8" (showPath p) pos] := by
                simp only [lineDiags, hfind, hs, himp, hg, Bool.false_eq_true, if_false]
              have hd : doLoads cfg fs (parseOne cfg fs n) (stack0 ++ [file]) file spelled (l :: ls) res st
                  = doLoads cfg fs (parseOne cfg fs n) (stack0 ++ [file]) file spelled ls
                      { res with errors := res.errors ++ [mk "InputParsingException" "extern-not-utf8" (showPath p) pos] } st := by
                simp only [doLoads, hfind, hs', himp, hg, Bool.false_eq_true, if_false]
                rfl
              rw [hd, hline]
              rw [hstepE (fun defs h => by rw [hg] at h; cases h)] at hgood ⊢
              exact (ihl _ st acc hv hnd hres hgood).shift _ hnd

theorem resInv_nil_keep {m : Resolved} {done : List APath} (v : Visit) (hv : v.file? = none) (vs : List Visit)
    (hd : vs.filterMap Visit.file? = done) (h : ResInv m done) : ResInv m ((vs ++ [v]).filterMap Visit.file?) := by
  rw [List.filterMap_append, hd]
  simp only [List.filterMap_cons, hv, List.filterMap_nil, List.append_nil]
  exact h

/-- **The simulation.** A call of `parseOne` that starts in a state matching the search (`visited` = stack +
    imported set, the names registered so far pairwise distinct, bindings only for finished files), and such that the
    visits of the search at the end of the call are `GoodV` (nothing entered is outside the grammar, distinct file names,
    distinct reference positions), ends as `PostV` says. -/
theorem parseOne_sim (cfg : Cfg) (fs : FS) (n : Nat) :
    ∀ stack file spelled st acc, Visited acc.1 (stack ++ [file]) st.imported → (st.reg.map (·.key)).Nodup →
      ResInv st.resolved (acc.2.filterMap Visit.file?) → GoodV cfg (visitOrder cfg fs n stack file spelled acc).2 →
      PostV cfg fs st acc (visitOrder cfg fs n stack file spelled acc) (stack ++ [file])
        (parseOne cfg fs n stack file spelled st) [] [] := by
  induction n with
  | zero => intro stack file spelled st acc _ _ _ _; exact Or.inl (by simp [parseOne])
  | succ n ih =>
    intro stack file spelled st acc hv hnd hres hgood
    have hbroken : ∀ (h : visitOrder cfg fs (n + 1) stack file spelled acc = (acc.1, acc.2 ++ [.broken file])), False := by
      intro h
      rw [h] at hgood
      exact hgood.2 (.broken file) (by simp)
    cases hf : fs.get file with
    | none => exact (hbroken (by simp only [visitOrder, hf])).elim
    | some fc =>
      cases fc with
      | ext d => exact (hbroken (by simp only [visitOrder, hf])).elim
      | badExt => exact (hbroken (by simp only [visitOrder, hf])).elim
      | notText pos =>
        have hvo : visitOrder cfg fs (n + 1) stack file spelled acc = (acc.1, acc.2 ++ [.undecodable file pos]) := by
          simp only [visitOrder, hf]
        have hpo : parseOne cfg fs (n + 1) stack file spelled st
            = .ok ({ errors := [mk "ParsingException" "not-utf8" (showPath file) pos] }, st) := by
          simp only [parseOne, hf]
          rfl
        rw [hvo, hpo]
        refine Or.inr ⟨[.undecodable file pos], rfl, Or.inl ⟨?_, _, st, [mk "ParsingException" "not-utf8" (showPath file) pos],
          rfl, hv, by simp [visitDefs], resInv_nil_keep _ rfl _ rfl hres, rfl, ?_⟩⟩
        · simpa [programKeys, visitDefs] using hnd
        · simp [diagsFrom, visitDiags]
      | idl text =>
        cases hpt : parseText text with
        | none => exact (hbroken (by simp only [visitOrder, hf, hpt])).elim
        | some f =>
          obtain ⟨toks, hlex, hparse⟩ := parseText_some text f hpt
          obtain ⟨loads, contents⟩ := f
          have hvo : visitOrder cfg fs (n + 1) stack file spelled acc
              = ((loads.foldl (visitStep cfg fs (visitOrder cfg fs n) (stack ++ [file]) spelled) acc).1,
                 (loads.foldl (visitStep cfg fs (visitOrder cfg fs n) (stack ++ [file]) spelled) acc).2
                   ++ [.file file spelled stack loads contents]) := by
            simp only [visitOrder, hf, hpt]
          rw [hvo] at hgood ⊢
          have hpo : parseOne cfg fs (n + 1) stack file spelled st
              = match doLoads cfg fs (parseOne cfg fs n) (stack ++ [file]) file spelled loads {} st with
                | .error a => .error a
                | .ok (res, st) => finishFile cfg file contents res st := by
            simp only [parseOne, hf, hlex, hparse]
            rfl
          rw [hpo]
          have h1 := doLoads_sim cfg fs n ih stack file spelled loads {} st acc hv hnd hres hgood.prefix
          generalize loads.foldl (visitStep cfg fs (visitOrder cfg fs n) (stack ++ [file]) spelled) acc = out1 at h1 hgood ⊢
          rcases h1 with h1 | ⟨new1, hout1, ⟨hnd1, res1, st1, errs1, hok, hv1, hreg1, hres1, herr1, hperm1⟩ | ⟨hnd1, f', p', herr, hfc⟩⟩
          · rw [h1]; exact Or.inl rfl
          · rw [hok]
            simp only
            have hnd_st1 : (st1.reg.map (·.key)).Nodup := by rw [hreg1]; exact hnd1
            have hkeys : programKeys st.reg (new1 ++ [.file file spelled stack loads contents])
                = (st1.reg ++ declDefs contents).map (·.key) := by
              rw [programKeys_append, ← hreg1]
              simp [programKeys, visitDefs]
            rcases registerAll_cases st1.reg
              (walkContents { file := showPath file, keys := cfg.keys, defaultDeriving := cfg.defaultDeriving } [] contents).regs
              hnd_st1 with ⟨hk, hreg⟩ | ⟨hk, s, herr, hfc⟩
            · rw [defs_file] at hk hreg
              obtain ⟨hnames, hoks⟩ := hgood
              have hndpos := hoks (.file file spelled stack loads contents) (by simp)
              have hnotin : ∀ q ∈ out1.2.filterMap Visit.file?, showPath file ≠ showPath q := by
                intro q hq heq
                rw [List.filterMap_append, List.map_append] at hnames
                exact (List.nodup_append.mp hnames).2.2 _ (List.mem_map.mpr ⟨q, hq, rfl⟩) _ (by simp [Visit.file?]) heq.symm
              have hfresh : ∀ r ∈ (walkContents { file := showPath file, keys := cfg.keys, defaultDeriving := cfg.defaultDeriving } []
                  contents).refs, st1.resolved.get r.file r.pos = none := by
                intro r hrm
                have hrf : r.file = showPath file :=
                  refsIn_walkContents { file := showPath file, keys := cfg.keys, defaultDeriving := cfg.defaultDeriving } [] contents r hrm
                cases hg : st1.resolved.get r.file r.pos with
                | none => rfl
                | some d =>
                  exfalso
                  obtain ⟨q, hq, hfq⟩ := hres1 r.file r.pos (by rw [hg]; simp)
                  exact hnotin q hq (hrf ▸ hfq)
              obtain ⟨m, hfin, hbind, hother⟩ := finishFile_out_gen cfg file contents res1 st1 _ hreg hndpos hfresh
              rw [hfin]
              refine Or.inr ⟨new1 ++ [.file file spelled stack loads contents], by simp [hout1], Or.inl ⟨by rw [hkeys]; exact hk,
                _, _, errs1 ++ outOf m (st1.reg ++ declDefs contents)
                  (walkContents { file := showPath file, keys := cfg.keys, defaultDeriving := cfg.defaultDeriving } [] contents),
                rfl, hv1, ?_, ?_, ?_, ?_⟩⟩
              · show st1.reg ++ declDefs contents = _
                rw [hreg1]
                simp [visitDefs]
              · intro fl p hne
                show ∃ q ∈ (out1.2 ++ [Visit.file file spelled stack loads contents]).filterMap Visit.file?, fl = showPath q
                rw [List.filterMap_append]
                by_cases hmem : (fl, p) ∈ (walkContents { file := showPath file, keys := cfg.keys, defaultDeriving := cfg.defaultDeriving } []
                    contents).refs.map (fun r => (r.file, r.pos))
                · obtain ⟨r, hrm, hreq⟩ := List.mem_map.mp hmem
                  have hrf : r.file = showPath file :=
                    refsIn_walkContents { file := showPath file, keys := cfg.keys, defaultDeriving := cfg.defaultDeriving } [] contents r hrm
                  refine ⟨file, by simp [Visit.file?], ?_⟩
                  rw [← hrf]; exact (Prod.mk.inj hreq).1.symm
                · have hne' : st1.resolved.get fl p ≠ none := by rw [← hother fl p hmem]; exact hne
                  obtain ⟨q, hq, hfq⟩ := hres1 fl p hne'
                  exact ⟨q, List.mem_append_left _ hq, hfq⟩
              · show res1.errors ++ _ = _
                rw [herr1]; rfl
              · rw [diagsFrom_append, ← hreg1]
                have hv2 := outOf_perm_violations cfg (showPath file) contents st1.reg _ m hreg hbind
                simp only [diagsFrom, visitDiags, List.append_nil, List.nil_append]
                have := (List.Perm.append hperm1 hv2).trans
                  (perm_shuffle (loads.flatMap (lineDiags cfg fs stack file spelled)) (diagsFrom cfg fs st.reg new1) [] _)
                refine this.trans ?_
                simp only [List.append_nil]
                rw [← List.append_assoc, ← List.append_assoc]
                exact List.Perm.append_right _ List.perm_append_comm
            · rw [defs_file] at hk
              have hff : finishFile cfg file contents res1 st1 = .error (.raised "TypeResolvingException" s.file s.pos) := by
                unfold finishFile
                simp only [herr]
              rw [hff]
              refine Or.inr ⟨new1 ++ [.file file spelled stack loads contents], by simp [hout1],
                Or.inr ⟨by rw [hkeys]; exact hk, s.file, s.pos, rfl, ?_⟩⟩
              have hT : st.reg.map (·.key) ++ (new1.flatMap visitSites).map (·.1) = st1.reg.map (·.key) := by
                rw [hreg1, List.map_append, sites_keys]
              rw [List.flatMap_append, firstCollision_append, firstCollision_none_of_nodup _ _ (by rw [hT]; exact hnd_st1)]
              simp only
              rw [hT, sites_walkContents] at *
              simpa [visitSites] using hfc
          · rw [herr]
            exact PostV.of_raised new1 [.file file spelled stack loads contents] (by simp [hout1]) hnd1 f' p' hfc

/-! ### whole programs -/

/-- The root call of the front end. Either no name is registered twice, the call returns normally, its diagnostics
    are a permutation of `programDiags` and the final registry is the built-ins plus the definitions of all visits in
    order; or some name is registered twice and the call is aborted by a `TypeResolvingException`. -/
theorem front_run_visits (cfg : Cfg) (fs : FS) (builtins : Registry) (root : APath)
    (hb : (builtins.map (·.key)).Nodup) (hgood : GoodV cfg (rootVisits cfg fs root)) :
    ((programKeys builtins (rootVisits cfg fs root)).Nodup ∧
        ∃ res st, parseOne cfg fs (fs.files.length + 2) [] (normPath root) root { reg := builtins } = .ok (res, st)
          ∧ res.errors.Perm (programDiags cfg fs builtins root)
          ∧ st.reg = builtins ++ (rootVisits cfg fs root).flatMap visitDefs)
      ∨ (¬ (programKeys builtins (rootVisits cfg fs root)).Nodup ∧
        ∃ f p, parseOne cfg fs (fs.files.length + 2) [] (normPath root) root { reg := builtins }
          = .error (.raised "TypeResolvingException" f p)
          ∧ programCollision builtins (rootVisits cfg fs root) = some (f, p)) := by
  have h := parseOne_sim cfg fs (fs.files.length + 2) [] (normPath root) root { reg := builtins }
    ([normPath root], []) (Visited.root root) hb (fun f p hne => absurd rfl hne) hgood
  rcases h with h | ⟨new, hout, h⟩
  · exfalso
    refine parseOne_fuel_sufficient cfg fs _ _ _ _ _ ?_ h
    have := remaining_le fs ([] : List APath)
    simp only; omega
  · have hnew : new = rootVisits cfg fs root := by
      have : rootVisits cfg fs root = [] ++ new := hout
      rw [this]; rfl
    subst hnew
    rcases h with ⟨hnd, res, st', errs, hok, _, hreg, _, herr, hperm⟩ | ⟨hnd, f, p, herr, hfc⟩
    · refine Or.inl ⟨hnd, res, st', hok, ?_, hreg⟩
      rw [herr, List.nil_append]
      simpa [programDiags] using hperm
    · exact Or.inr ⟨hnd, f, p, herr, hfc⟩

/-- **The multi-file front end reports exactly the whole-program specification — import diagnostics included.**
    Let `visits = rootVisits cfg fs root` be the import tree below `root` (`Front/SpecProgram.lean`). Assume
    * the built-ins have pairwise distinct names;
    * (`GoodV`) everything the search *enters* — the root, and the target of every `@import` line that is followed — is
      IDL text inside the grammar (lexes and parses) or a file that is not valid UTF-8 (no `broken` visit); the IDL
      files entered have pairwise distinct names (`showPath`: the model keys its resolution map by file name and
      position); within each of them the type references are at pairwise distinct positions (H4 of
      `Props/C05Program.lean`);
    * no two registrations collide: the names of the built-ins followed by the names every visit registers, in visit
      order (`programKeys`: an IDL file's declarations when it is finished, an external type file's definitions at the
      `@extern` line that loads it), are pairwise distinct.

    Nothing is assumed about the load lines: they may find no file, refer to the file itself, close a cycle of any
    length, import a file again (diamonds), or be `@extern` lines for valid, undecodable or invalid external type
    files. Then `front` neither aborts nor runs out of fuel, and the diagnostics `ds` it reports (`.ok` iff there are
    none) are a permutation of `programDiags`: every diagnostic is reported exactly as often as the specification
    lists it, with class, rule, file and position, and nothing else is reported. -/
theorem front_eq_programDiags (cfg : Cfg) (fs : FS) (builtins : Registry) (root : APath)
    (hb : (builtins.map (·.key)).Nodup) (hgood : GoodV cfg (rootVisits cfg fs root))
    (hdup : (programKeys builtins (rootVisits cfg fs root)).Nodup) :
    ∃ ds, front cfg fs builtins root = (if ds = [] then Outcome.ok else Outcome.diags ds)
      ∧ ds.Perm (programDiags cfg fs builtins root) := by
  rcases front_run_visits cfg fs builtins root hb hgood with ⟨_, res, st, hok, hperm, _⟩ | ⟨hnd, _⟩
  · refine ⟨res.errors, ?_, hperm⟩
    unfold front
    rw [hok]
    exact outcome_of_errors res.errors
  · exact absurd hdup hnd

/-- **Duplicates (C04).** Under the other hypotheses of `front_eq_programDiags`: if the names registered in visit
    order are *not* pairwise distinct — two declarations of one file, of two files, a declaration and an external
    type, a built-in … — the front end is aborted by a `TypeResolvingException`; and conversely. -/
theorem front_duplicate_raised (cfg : Cfg) (fs : FS) (builtins : Registry) (root : APath)
    (hb : (builtins.map (·.key)).Nodup) (hgood : GoodV cfg (rootVisits cfg fs root)) :
    ¬ (programKeys builtins (rootVisits cfg fs root)).Nodup ↔
      ∃ f p, front cfg fs builtins root = .abort (.raised "TypeResolvingException" f p) := by
  constructor
  · intro hdup
    rcases front_run_visits cfg fs builtins root hb hgood with ⟨hnd, _⟩ | ⟨_, f, p, herr, _⟩
    · exact absurd hnd hdup
    · exact ⟨f, p, by unfold front; rw [herr]⟩
  · rintro ⟨f, p, hfront⟩ hdup
    obtain ⟨ds, hds, _⟩ := front_eq_programDiags cfg fs builtins root hb hgood hdup
    rw [hds] at hfront
    split at hfront <;> cases hfront

theorem nodup_of_firstCollision_none (T : List String) (l : List (String × String × Pos)) (hT : T.Nodup)
    (h : firstCollision T l = none) : (T ++ l.map (·.1)).Nodup := by
  induction l generalizing T with
  | nil => simpa using hT
  | cons x l ih =>
    simp only [firstCollision] at h
    split at h
    · cases h
    · rename_i hx
      have hT' : (T ++ [x.1]).Nodup := by
        rw [List.nodup_append]
        refine ⟨hT, by simp, fun a ha b hb hab => ?_⟩
        simp only [List.mem_singleton] at hb
        subst hab; subst hb; exact hx ha
      simpa [List.append_assoc] using ih _ hT' h

/-- no registration collides iff the registered names are pairwise distinct -/
theorem programCollision_none_iff (builtins : Registry) (visits : List Visit) (hb : (builtins.map (·.key)).Nodup) :
    programCollision builtins visits = none ↔ (programKeys builtins visits).Nodup := by
  unfold programCollision programKeys
  rw [List.map_append, ← sites_keys]
  exact ⟨nodup_of_firstCollision_none _ _ hb, firstCollision_none_of_nodup _ _⟩

/-- **Duplicates, with the place (C04).** Under the other hypotheses of `front_eq_programDiags`: if the names
    registered in visit order are not pairwise distinct, the front end is aborted by a `TypeResolvingException` *at
    the first colliding registration* (`programCollision`): going through the registrations in the order of the run —
    an IDL file's declarations in textual order when the file is finished (imported files before the importing file),
    an external type file's definitions at the `@extern` line that loads it — the first declaration whose qualified
    name is already taken by a built-in or by an earlier registration, i.e. the second declaration of that name. -/
theorem front_duplicate_position (cfg : Cfg) (fs : FS) (builtins : Registry) (root : APath)
    (hb : (builtins.map (·.key)).Nodup) (hgood : GoodV cfg (rootVisits cfg fs root))
    (hdup : ¬ (programKeys builtins (rootVisits cfg fs root)).Nodup) :
    ∃ f p, programCollision builtins (rootVisits cfg fs root) = some (f, p)
      ∧ front cfg fs builtins root = .abort (.raised "TypeResolvingException" f p) := by
  rcases front_run_visits cfg fs builtins root hb hgood with ⟨hnd, _⟩ | ⟨_, f, p, herr, hfc⟩
  · exact absurd hnd hdup
  · exact ⟨f, p, hfc, by unfold front; rw [herr]⟩

/-- the final registry of a successful run: built-ins, then what each visit registers, in visit order -/
theorem front_final_registry_visits (cfg : Cfg) (fs : FS) (builtins : Registry) (root : APath)
    (hb : (builtins.map (·.key)).Nodup) (hgood : GoodV cfg (rootVisits cfg fs root))
    (hdup : (programKeys builtins (rootVisits cfg fs root)).Nodup) :
    builtins ++ (frontWithBindings cfg fs builtins root).2.2.1 = builtins ++ (rootVisits cfg fs root).flatMap visitDefs := by
  rcases front_run_visits cfg fs builtins root hb hgood with ⟨_, res, st, hok, _, hreg⟩ | ⟨hnd, _⟩
  · unfold frontWithBindings
    rw [hok]
    show builtins ++ st.reg.drop builtins.length = _
    rw [hreg, List.drop_left]
  · exact absurd hdup hnd

/-- membership form of `front_eq_programDiags` -/
theorem front_mem_programDiags (cfg : Cfg) (fs : FS) (builtins : Registry) (root : APath)
    (hb : (builtins.map (·.key)).Nodup) (hgood : GoodV cfg (rootVisits cfg fs root))
    (hdup : (programKeys builtins (rootVisits cfg fs root)).Nodup) :
    ∃ ds, front cfg fs builtins root = (if ds = [] then Outcome.ok else Outcome.diags ds)
      ∧ ∀ x, x ∈ ds ↔ x ∈ programDiags cfg fs builtins root := by
  obtain ⟨ds, hfront, hperm⟩ := front_eq_programDiags cfg fs builtins root hb hgood hdup
  exact ⟨ds, hfront, fun x => hperm.mem_iff⟩

/-- **Accepted iff the specification lists nothing.** -/
theorem front_ok_iff_programDiags (cfg : Cfg) (fs : FS) (builtins : Registry) (root : APath)
    (hb : (builtins.map (·.key)).Nodup) (hgood : GoodV cfg (rootVisits cfg fs root))
    (hdup : (programKeys builtins (rootVisits cfg fs root)).Nodup) :
    front cfg fs builtins root = .ok ↔ programDiags cfg fs builtins root = [] := by
  obtain ⟨ds, hfront, hperm⟩ := front_eq_programDiags cfg fs builtins root hb hgood hdup
  rw [hfront]
  constructor
  · intro h
    by_cases hds : ds = []
    · subst hds; exact hperm.symm.eq_nil
    · rw [if_neg hds] at h; cases h
  · intro h
    rw [h] at hperm
    rw [if_pos hperm.eq_nil]

/-! ### which diagnostics are rule violations, which are import diagnostics -/

/-- the rule names of `Spec.declRules` -/
def ruleNames : List String :=
  ["unknown-type", "no-generics", "generic-arity", "param-error", "return-error", "throws-non-error", "unknown-target",
   "flag-modifier", "deriving", "fn-field", "field-error", "field-interface", "ord-collection", "main-cpp",
   "static-const", "static-cpp"]

theorem mem_map_mk_rule {α : Type} {l : List α} {c r f : String} {g : α → Pos} {x : Diag}
    (h : x ∈ l.map (fun a => mk c r f (g a))) : x.rule = r := by
  obtain ⟨a, _, rfl⟩ := List.mem_map.mp h; rfl

theorem mem_of_mem_ite {x : Diag} (b : Bool) (l : List Diag) (h : x ∈ (if b = true then l else [])) : x ∈ l := by
  cases b
  · cases h
  · exact h

theorem mem_of_mem_ite' {x : Diag} (b : Bool) (l : List Diag) (h : x ∈ (if b = true then [] else l)) : x ∈ l := by
  cases b
  · exact h
  · cases h

theorem unknownTargets_rule (e : SpecEnv) (f : String) (fl : List String) (p : Pos) (x : Diag)
    (h : x ∈ unknownTargets e f fl p) : x.rule ∈ ruleNames := by
  unfold unknownTargets at h
  rw [mem_map_mk_rule h]; simp [ruleNames]

theorem refRule_rule (e : SpecEnv) (f : String) (ns : List String) (t : TypeRef) (x : Diag)
    (h : x ∈ refRule e f ns t) : x.rule ∈ ruleNames := by
  cases t with
  | fn sig pos => simp [refRule] at h
  | data name args o pos =>
    simp only [refRule] at h
    split at h
    · simp only [List.mem_singleton] at h; subst h; simp [ruleNames, mk]
    · split at h
      · simp only [List.mem_singleton] at h; subst h; simp [ruleNames, mk]
      · split at h
        · simp only [List.mem_singleton] at h; subst h; simp [ruleNames, mk]
        · cases h

theorem sigRules_rule (e : SpecEnv) (f : String) (ns : List String) (s : SigU) (x : Diag)
    (h : x ∈ sigRules e f ns s) : x.rule ∈ ruleNames := by
  unfold sigRules at h
  simp only [List.mem_append] at h
  rcases h with (h | h) | h
  · rw [mem_map_mk_rule h]; simp [ruleNames]
  · split at h
    · split at h
      · simp only [List.mem_singleton] at h; subst h; simp [ruleNames, mk]
      · cases h
    · cases h
  · rw [mem_map_mk_rule h]; simp [ruleNames]

theorem declRules_rule (e : SpecEnv) (f : String) (ns : List String) (d : Decl) (x : Diag)
    (h : x ∈ declRules e f ns d) : x.rule ∈ ruleNames := by
  unfold declRules at h
  simp only [List.mem_append, List.mem_flatMap] at h
  rcases h with ((⟨t, _, h⟩ | ⟨s, _, h⟩) | ⟨fp, _, h⟩) | h
  · exact refRule_rule e f ns t x h
  · exact sigRules_rule e f ns s x h
  · exact unknownTargets_rule e f fp.1 fp.2 x h
  · cases d with
    | enum n c items pos => cases h
    | function n c sig pos => cases h
    | error n c codes pos => cases h
    | flags n c items pos =>
      rw [mem_map_mk_rule h]; simp [ruleNames]
    | record n c fl fp fields der pos =>
      simp only [List.mem_append] at h
      rcases h with ((((h | h) | h) | h) | h) | h
      · exact unknownTargets_rule e f fl fp x h
      · rw [mem_map_mk_rule h]; simp [ruleNames]
      · rw [mem_map_mk_rule h]; simp [ruleNames]
      · rw [mem_map_mk_rule h]; simp [ruleNames]
      · rw [mem_map_mk_rule h]; simp [ruleNames]
      · rw [mem_map_mk_rule (mem_of_mem_ite _ _ h)]; simp [ruleNames]
    | interface n c main fl fp methods props pos =>
      simp only [List.mem_append] at h
      rcases h with ((h | h) | h) | h
      · exact unknownTargets_rule e f fl fp x h
      · have h' := mem_of_mem_ite _ _ h
        simp only [List.mem_singleton] at h'; subst h'; simp [ruleNames, mk]
      · rw [mem_map_mk_rule h]; simp [ruleNames]
      · rw [mem_map_mk_rule (mem_of_mem_ite' _ _ h)]; simp [ruleNames]

/-- every diagnostic of `violations` carries one of the rule names of the language rules -/
theorem violations_rule (keys dd : List String) (R : Registry) (p : List ProgFile) (x : Diag)
    (h : x ∈ violations keys dd R p) : x.rule ∈ ruleNames := by
  unfold violations at h
  simp only [List.mem_flatMap] at h
  obtain ⟨y, _, h⟩ := h
  exact declRules_rule _ _ _ _ x h

/-- the import-related diagnostics of a visit: they do not depend on the registry -/
def importDiags (cfg : Cfg) (fs : FS) : Visit → List Diag
  | .file f s A loads _ => loads.flatMap (lineDiags cfg fs A f s)
  | .undecodable p pos => [mk "ParsingException" "not-utf8" (showPath p) pos]
  | _ => []

/-- the rule violations of a visit, `R` being the registry before it -/
def ruleDiags (cfg : Cfg) (R : Registry) : Visit → List Diag
  | .file f _ _ _ contents => violations cfg.keys cfg.defaultDeriving R [{ file := showPath f, contents := contents }]
  | _ => []

/-- the rule violations of a list of visits: every IDL file read against the registry of its moment — built-ins, the
    declarations of the files finished before, the external types loaded before, and its own declarations
    (`violationsOrdered` with the `@extern` loads at their place) -/
def programViolations (cfg : Cfg) : Registry → List Visit → List Diag
  | _, [] => []
  | R, v :: vs => ruleDiags cfg R v ++ programViolations cfg (R ++ visitDefs v) vs

theorem visitDiags_eq (cfg : Cfg) (fs : FS) (R : Registry) (v : Visit) :
    visitDiags cfg fs R v = importDiags cfg fs v ++ ruleDiags cfg R v := by
  cases v <;> simp [visitDiags, importDiags, ruleDiags]

/-- the specification is, up to order, the import diagnostics of all visits and the rule violations of all visits -/
theorem diagsFrom_perm (cfg : Cfg) (fs : FS) (R : Registry) (vs : List Visit) :
    (diagsFrom cfg fs R vs).Perm (vs.flatMap (importDiags cfg fs) ++ programViolations cfg R vs) := by
  induction vs generalizing R with
  | nil => simp [diagsFrom, programViolations]
  | cons v vs ih =>
    simp only [diagsFrom, programViolations, List.flatMap_cons, visitDiags_eq]
    exact (List.Perm.append_left _ (ih _)).trans (perm_shuffle _ _ _ _)

theorem programViolations_rule (cfg : Cfg) (R : Registry) (vs : List Visit) (x : Diag)
    (h : x ∈ programViolations cfg R vs) : x.rule ∈ ruleNames := by
  induction vs generalizing R with
  | nil => cases h
  | cons v vs ih =>
    simp only [programViolations, List.mem_append] at h
    rcases h with h | h
    · cases v with
      | file f s A loads contents => exact violations_rule _ _ _ _ x h
      | extern p defs => cases h
      | undecodable p pos => cases h
      | broken p => cases h
    · exact ih _ h

/-- the names of the import-related diagnostics -/
def importRuleNames : List String := ["missing-file", "circular-import", "extern-not-utf8", "bad-extern", "not-utf8"]

theorem lineDiags_rule (cfg : Cfg) (fs : FS) (A : List APath) (f s : APath) (l : LoadAt) (x : Diag)
    (h : x ∈ lineDiags cfg fs A f s l) : x.rule ∈ importRuleNames := by
  unfold lineDiags at h
  split at h
  · simp only [List.mem_singleton] at h; subst h; simp [importRuleNames, mk]
  · split at h
    · simp only [List.mem_singleton] at h; subst h; simp [importRuleNames, mk]
    · split at h
      · split at h
        · simp only [List.mem_singleton] at h; subst h; simp [importRuleNames, mk]
        · cases h
      · split at h
        · cases h
        · simp only [List.mem_singleton] at h; subst h; simp [importRuleNames, mk]
        · simp only [List.mem_singleton] at h; subst h; simp [importRuleNames, mk]

theorem importDiags_rule (cfg : Cfg) (fs : FS) (v : Visit) (x : Diag) (h : x ∈ importDiags cfg fs v) :
    x.rule ∈ importRuleNames := by
  cases v with
  | file f s A loads contents =>
    obtain ⟨l, _, hl⟩ := List.mem_flatMap.mp h
    exact lineDiags_rule cfg fs A f s l x hl
  | extern p defs => cases h
  | undecodable p pos =>
    simp only [importDiags, List.mem_singleton] at h; subst h; simp [importRuleNames, mk]
  | broken p => cases h

theorem importRule_not_rule (r : String) (h : r ∈ importRuleNames) : r ∉ ruleNames := by
  simp only [importRuleNames, List.mem_cons, List.not_mem_nil, or_false] at h
  rcases h with rfl | rfl | rfl | rfl | rfl <;> simp [ruleNames]

/-- a diagnostic with an import-related name is in the specification iff some visit is reported for it — whatever the
    registry -/
theorem mem_diagsFrom_import (cfg : Cfg) (fs : FS) (R : Registry) (vs : List Visit) (x : Diag)
    (hx : x.rule ∈ importRuleNames) :
    x ∈ diagsFrom cfg fs R vs ↔ ∃ v ∈ vs, x ∈ importDiags cfg fs v := by
  rw [(diagsFrom_perm cfg fs R vs).mem_iff, List.mem_append, List.mem_flatMap]
  constructor
  · rintro (h | h)
    · exact h
    · exact absurd (programViolations_rule cfg R vs x h) (importRule_not_rule _ hx)
  · exact Or.inl

/-- a diagnostic with the name of a language rule is in the specification iff it is a rule violation -/
theorem mem_diagsFrom_rule (cfg : Cfg) (fs : FS) (R : Registry) (vs : List Visit) (x : Diag)
    (hx : x.rule ∈ ruleNames) :
    x ∈ diagsFrom cfg fs R vs ↔ x ∈ programViolations cfg R vs := by
  rw [(diagsFrom_perm cfg fs R vs).mem_iff, List.mem_append, List.mem_flatMap]
  constructor
  · rintro (⟨v, _, h⟩ | h)
    · exact absurd hx (importRule_not_rule _ (importDiags_rule cfg fs v x h))
    · exact h
  · exact Or.inr

/-! ### load lines, declaratively -/

/-- a load line that is reported for nothing: it finds a file, does not refer to the file itself, and — an `@import` —
    does not lead to a file that is being imported, or — an `@extern` — leads to a valid external type file -/
def LineOk (cfg : Cfg) (fs : FS) (A : List APath) (f s : APath) (l : LoadAt) : Prop :=
  ∃ c p, findFile cfg fs s (filepathText l.lit) = some (c, p) ∧ refersToSelf c s = false ∧
    ((l.isImport = true ∧ p ∉ A ++ [f]) ∨ (l.isImport = false ∧ ∃ defs, fs.get p = some (.ext defs)))

/-- a load line that closes a cycle: it refers to the file itself under the file's own spelling, or it is an `@import`
    of a file that is being imported (an ancestor, or the file itself under another spelling) -/
def ClosesCycle (cfg : Cfg) (fs : FS) (A : List APath) (f s : APath) (l : LoadAt) : Prop :=
  ∃ c p, findFile cfg fs s (filepathText l.lit) = some (c, p) ∧
    (refersToSelf c s = true ∨ (l.isImport = true ∧ p ∈ A ++ [f]))

theorem lineDiags_some (cfg : Cfg) (fs : FS) (A : List APath) (f s : APath) (l : LoadAt) (c : Cand) (p : APath)
    (hfind : findFile cfg fs s (filepathText l.lit) = some (c, p)) :
    lineDiags cfg fs A f s l =
      if refersToSelf c s then [mk "ParsingException" "circular-import" (showPath f) l.pathPos]
      else if l.isImport then
        (if (A ++ [f]).contains p then [mk "ParsingException" "circular-import" (showPath f) l.pos] else [])
      else
        match fs.get p with
        | some (.ext _) => []
        | some (.notText pos) => [mk "InputParsingException" "extern-not-utf8" (showPath p) pos]
        | _ => [mk "InputParsingException" "bad-extern" (showPath p) default] := by
  simp only [lineDiags, hfind]
  rfl

theorem lineDiags_eq_nil_iff (cfg : Cfg) (fs : FS) (A : List APath) (f s : APath) (l : LoadAt) :
    lineDiags cfg fs A f s l = [] ↔ LineOk cfg fs A f s l := by
  unfold LineOk
  cases hfind : findFile cfg fs s (filepathText l.lit) with
  | none => simp [lineDiags, hfind]
  | some cp =>
    obtain ⟨c, p⟩ := cp
    rw [lineDiags_some cfg fs A f s l c p hfind]
    simp only [Option.some.injEq, Prod.mk.injEq]
    cases hs : refersToSelf c s with
    | true =>
      simp only [if_true, List.cons_ne_nil, false_iff]
      rintro ⟨c', p', ⟨rfl, rfl⟩, h, _⟩
      rw [hs] at h; cases h
    | false =>
      simp only [Bool.false_eq_true, if_false]
      cases himp : l.isImport with
      | true =>
        by_cases hm : p ∈ A ++ [f]
        · have : (A ++ [f]).contains p = true := by simpa using hm
          simp only [this, if_true, List.cons_ne_nil, false_iff]
          rintro ⟨c', p', ⟨rfl, rfl⟩, _, h | h⟩
          · exact h.2 hm
          · cases h.1
        · have : (A ++ [f]).contains p = false := by simpa using hm
          simp only [this, Bool.false_eq_true, if_false, if_true, true_iff]
          exact ⟨c, p, ⟨rfl, rfl⟩, hs, Or.inl ⟨trivial, hm⟩⟩
      | false =>
        simp only [Bool.false_eq_true, if_false]
        cases hg : fs.get p with
        | none =>
          simp only [List.cons_ne_nil, false_iff]
          rintro ⟨c', p', ⟨rfl, rfl⟩, _, h | ⟨_, defs, h⟩⟩
          · cases h.1
          · rw [hg] at h; cases h
        | some fc =>
          cases fc with
          | ext defs =>
            simp only [true_iff]
            exact ⟨c, p, ⟨rfl, rfl⟩, hs, Or.inr ⟨trivial, defs, hg⟩⟩
          | idl text =>
            simp only [List.cons_ne_nil, false_iff]
            rintro ⟨c', p', ⟨rfl, rfl⟩, _, h | ⟨_, defs, h⟩⟩
            · cases h.1
            · rw [hg] at h; cases h
          | badExt =>
            simp only [List.cons_ne_nil, false_iff]
            rintro ⟨c', p', ⟨rfl, rfl⟩, _, h | ⟨_, defs, h⟩⟩
            · cases h.1
            · rw [hg] at h; cases h
          | notText pos =>
            simp only [List.cons_ne_nil, false_iff]
            rintro ⟨c', p', ⟨rfl, rfl⟩, _, h | ⟨_, defs, h⟩⟩
            · cases h.1
            · rw [hg] at h; cases h

theorem mem_lineDiags_missing (cfg : Cfg) (fs : FS) (A : List APath) (f s : APath) (l : LoadAt) (x : Diag)
    (hx : x.rule = "missing-file") :
    x ∈ lineDiags cfg fs A f s l ↔
      findFile cfg fs s (filepathText l.lit) = none ∧ x = mk "FileNotFoundException" "missing-file" (showPath f) l.pathPos := by
  unfold lineDiags
  cases hfind : findFile cfg fs s (filepathText l.lit) with
  | none => simp
  | some cp =>
    obtain ⟨c, p⟩ := cp
    simp only [reduceCtorEq, false_and, iff_false]
    intro h
    split at h
    · simp only [List.mem_singleton] at h; subst h; simp [mk] at hx
    · split at h
      · split at h
        · simp only [List.mem_singleton] at h; subst h; simp [mk] at hx
        · cases h
      · split at h
        · cases h
        · simp only [List.mem_singleton] at h; subst h; simp [mk] at hx
        · simp only [List.mem_singleton] at h; subst h; simp [mk] at hx

theorem exists_circular_lineDiags_iff (cfg : Cfg) (fs : FS) (A : List APath) (f s : APath) (l : LoadAt) :
    (∃ x ∈ lineDiags cfg fs A f s l, x.rule = "circular-import") ↔ ClosesCycle cfg fs A f s l := by
  unfold ClosesCycle
  cases hfind : findFile cfg fs s (filepathText l.lit) with
  | none => simp [lineDiags, hfind, mk]
  | some cp =>
    obtain ⟨c, p⟩ := cp
    rw [lineDiags_some cfg fs A f s l c p hfind]
    simp only [Option.some.injEq, Prod.mk.injEq]
    cases hs : refersToSelf c s with
    | true =>
      simp only [if_true, List.mem_singleton, exists_eq_left, mk, true_iff]
      exact ⟨c, p, ⟨rfl, rfl⟩, Or.inl hs⟩
    | false =>
      simp only [Bool.false_eq_true, if_false]
      have hno : ∀ (P : Prop), (P ↔ ∃ c' p', (c = c' ∧ p = p') ∧ (refersToSelf c' s = true ∨ l.isImport = true ∧ p' ∈ A ++ [f]))
          ↔ (P ↔ (l.isImport = true ∧ p ∈ A ++ [f])) := by
        intro P
        refine iff_congr Iff.rfl ⟨?_, fun h => ⟨c, p, ⟨rfl, rfl⟩, Or.inr h⟩⟩
        rintro ⟨c', p', ⟨rfl, rfl⟩, h | h⟩
        · rw [hs] at h; cases h
        · exact h
      rw [hno]
      cases himp : l.isImport with
      | true =>
        by_cases hm : p ∈ A ++ [f]
        · have : (A ++ [f]).contains p = true := by simpa using hm
          simp only [this, if_true, List.mem_singleton, exists_eq_left, mk, true_and, true_iff]
          exact hm
        · have : (A ++ [f]).contains p = false := by simpa using hm
          simp only [this, Bool.false_eq_true, if_false, if_true, List.not_mem_nil, false_and, exists_false, false_iff]
          exact fun h => hm h.2
      | false =>
        simp only [Bool.false_eq_true, if_false, false_and, iff_false]
        rintro ⟨x, hx, hr⟩
        split at hx
        · cases hx
        · simp only [List.mem_singleton] at hx; subst hx; simp [mk] at hr
        · simp only [List.mem_singleton] at hx; subst hx; simp [mk] at hr

/-! ### corollaries: missing files, circular imports, acceptance -/

/-- **Missing files (C16).** Under the hypotheses of `front_eq_programDiags`: a diagnostic named `missing-file` is
    reported iff it is the `FileNotFoundException` at the path token of a load line `l` of a visited IDL file `f`
    (in the spelling `s` the file was found under) for which no search candidate exists. -/
theorem front_missing_iff (cfg : Cfg) (fs : FS) (builtins : Registry) (root : APath)
    (hb : (builtins.map (·.key)).Nodup) (hgood : GoodV cfg (rootVisits cfg fs root))
    (hdup : (programKeys builtins (rootVisits cfg fs root)).Nodup) :
    ∃ ds, front cfg fs builtins root = (if ds = [] then Outcome.ok else Outcome.diags ds) ∧
      ∀ x, x.rule = "missing-file" →
        (x ∈ ds ↔ ∃ f s A loads contents, Visit.file f s A loads contents ∈ rootVisits cfg fs root ∧
          ∃ l ∈ loads, findFile cfg fs s (filepathText l.lit) = none
            ∧ x = mk "FileNotFoundException" "missing-file" (showPath f) l.pathPos) := by
  obtain ⟨ds, hfront, hmem⟩ := front_mem_programDiags cfg fs builtins root hb hgood hdup
  refine ⟨ds, hfront, fun x hx => ?_⟩
  rw [hmem x, programDiags, mem_diagsFrom_import cfg fs _ _ x (by rw [hx]; simp [importRuleNames])]
  constructor
  · rintro ⟨v, hv, h⟩
    cases v with
    | file f s A loads contents =>
      obtain ⟨l, hl, hxl⟩ := List.mem_flatMap.mp h
      exact ⟨f, s, A, loads, contents, hv, l, hl, (mem_lineDiags_missing cfg fs A f s l x hx).mp hxl⟩
    | extern p defs => cases h
    | undecodable p pos =>
      simp only [importDiags, List.mem_singleton] at h; subst h; simp [mk] at hx
    | broken p => cases h
  · rintro ⟨f, s, A, loads, contents, hv, l, hl, h⟩
    exact ⟨_, hv, List.mem_flatMap.mpr ⟨l, hl, (mem_lineDiags_missing cfg fs A f s l x hx).mpr h⟩⟩

/-- **Circular imports (C16), line by line.** Under the hypotheses of `front_eq_programDiags`: some diagnostic named
    `circular-import` is reported iff some load line of some visited IDL file closes a cycle (`ClosesCycle`: it refers
    to the file itself, or imports a file that is being imported). -/
theorem front_circular_iff_line (cfg : Cfg) (fs : FS) (builtins : Registry) (root : APath)
    (hb : (builtins.map (·.key)).Nodup) (hgood : GoodV cfg (rootVisits cfg fs root))
    (hdup : (programKeys builtins (rootVisits cfg fs root)).Nodup) :
    ∃ ds, front cfg fs builtins root = (if ds = [] then Outcome.ok else Outcome.diags ds) ∧
      ((∃ x ∈ ds, x.rule = "circular-import") ↔
        ∃ f s A loads contents, Visit.file f s A loads contents ∈ rootVisits cfg fs root ∧
          ∃ l ∈ loads, ClosesCycle cfg fs A f s l) := by
  obtain ⟨ds, hfront, hmem⟩ := front_mem_programDiags cfg fs builtins root hb hgood hdup
  refine ⟨ds, hfront, ?_⟩
  constructor
  · rintro ⟨x, hxd, hx⟩
    rw [hmem x, programDiags, mem_diagsFrom_import cfg fs _ _ x (by rw [hx]; simp [importRuleNames])] at hxd
    obtain ⟨v, hv, h⟩ := hxd
    cases v with
    | file f s A loads contents =>
      obtain ⟨l, hl, hxl⟩ := List.mem_flatMap.mp h
      exact ⟨f, s, A, loads, contents, hv, l, hl, (exists_circular_lineDiags_iff cfg fs A f s l).mp ⟨x, hxl, hx⟩⟩
    | extern p defs => cases h
    | undecodable p pos =>
      simp only [importDiags, List.mem_singleton] at h; subst h; simp [mk] at hx
    | broken p => cases h
  · rintro ⟨f, s, A, loads, contents, hv, l, hl, h⟩
    obtain ⟨x, hxl, hx⟩ := (exists_circular_lineDiags_iff cfg fs A f s l).mpr h
    refine ⟨x, ?_, hx⟩
    rw [hmem x, programDiags, mem_diagsFrom_import cfg fs _ _ x (by rw [hx]; simp [importRuleNames])]
    exact ⟨_, hv, List.mem_flatMap.mpr ⟨l, hl, hxl⟩⟩

/-- **Acceptance.** Under the hypotheses of `front_eq_programDiags`, the front end accepts the program iff
    * every load line of every visited IDL file is `LineOk`: it finds a file (no missing file), closes no cycle (no
      self reference, no import of a file being imported), and an `@extern` line leads to a valid external type file
      (no bad extern);
    * no imported file is undecodable;
    * and no IDL file violates a language rule, read against the registry of its moment (`programViolations`). -/
theorem front_ok_iff (cfg : Cfg) (fs : FS) (builtins : Registry) (root : APath)
    (hb : (builtins.map (·.key)).Nodup) (hgood : GoodV cfg (rootVisits cfg fs root))
    (hdup : (programKeys builtins (rootVisits cfg fs root)).Nodup) :
    front cfg fs builtins root = .ok ↔
      (∀ f s A loads contents, Visit.file f s A loads contents ∈ rootVisits cfg fs root →
          ∀ l ∈ loads, LineOk cfg fs A f s l)
        ∧ (∀ p pos, Visit.undecodable p pos ∉ rootVisits cfg fs root)
        ∧ programViolations cfg builtins (rootVisits cfg fs root) = [] := by
  rw [front_ok_iff_programDiags cfg fs builtins root hb hgood hdup, programDiags]
  have hperm := diagsFrom_perm cfg fs builtins (rootVisits cfg fs root)
  constructor
  · intro h
    rw [h] at hperm
    have h0 := hperm.symm.eq_nil
    rw [List.append_eq_nil_iff, List.flatMap_eq_nil_iff] at h0
    refine ⟨fun f s A loads contents hv l hl => ?_, fun p pos hv => ?_, h0.2⟩
    · have := h0.1 _ hv
      simp only [importDiags, List.flatMap_eq_nil_iff] at this
      exact (lineDiags_eq_nil_iff cfg fs A f s l).mp (this l hl)
    · have := h0.1 _ hv
      simp [importDiags] at this
  · rintro ⟨h1, h2, h3⟩
    have h0 : (rootVisits cfg fs root).flatMap (importDiags cfg fs) = [] := by
      rw [List.flatMap_eq_nil_iff]
      intro v hv
      cases v with
      | file f s A loads contents =>
        simp only [importDiags, List.flatMap_eq_nil_iff]
        exact fun l hl => (lineDiags_eq_nil_iff cfg fs A f s l).mpr (h1 f s A loads contents hv l hl)
      | extern p defs => rfl
      | undecodable p pos => exact absurd hv (h2 p pos)
      | broken p => rfl
    rw [h0, h3] at hperm
    exact hperm.eq_nil

/-! ### the import graph: a circular import is reported iff there is a cycle

The graph: its nodes are the IDL files of the import tree; there is an edge from `f` to `p` when an `@import` line of
`f` resolves to `p` (`findFile` under the spelling `f` was found under; a self reference counts). Only the search
`visitOrder` is involved here, not the model. -/

/-- `f` has an `@import` line that resolves to `p` -/
def ImportsTo (cfg : Cfg) (fs : FS) (V : List Visit) (f p : APath) : Prop :=
  ∃ s A loads contents, Visit.file f s A loads contents ∈ V ∧
    ∃ l ∈ loads, l.isImport = true ∧ ∃ c, findFile cfg fs s (filepathText l.lit) = some (c, p)

/-- a chain of one or more edges -/
inductive ImportChain (E : APath → APath → Prop) : APath → APath → Prop
  | single {a b : APath} : E a b → ImportChain E a b
  | tail {a b c : APath} : ImportChain E a b → E b c → ImportChain E a c

/-- the import graph of the program has a cycle -/
def HasImportCycle (cfg : Cfg) (fs : FS) (V : List Visit) : Prop := ∃ f, ImportChain (ImportsTo cfg fs V) f f

/-- some `@extern` line refers to the file that holds it, under the file's own spelling (reported like a self import) -/
def HasExternSelf (cfg : Cfg) (fs : FS) (V : List Visit) : Prop :=
  ∃ f s A loads contents, Visit.file f s A loads contents ∈ V ∧
    ∃ l ∈ loads, l.isImport = false ∧ ∃ c p, findFile cfg fs s (filepathText l.lit) = some (c, p) ∧ refersToSelf c s = true

def NotText (fs : FS) (q : APath) : Prop := ∃ pos, fs.get q = some (.notText pos)

/-- no visit is `broken`, and every resolving `@import` line of a visited file is an `E`-edge -/
def EdgesIn (cfg : Cfg) (fs : FS) (E : APath → APath → Prop) (vs : List Visit) : Prop :=
  (∀ p, Visit.broken p ∉ vs) ∧ ∀ f s A loads c, Visit.file f s A loads c ∈ vs → ∀ l ∈ loads, l.isImport = true →
    ∀ c' p, findFile cfg fs s (filepathText l.lit) = some (c', p) → E f p

theorem EdgesIn.prefix {cfg : Cfg} {fs : FS} {E : APath → APath → Prop} {a b : List Visit}
    (h : EdgesIn cfg fs E (a ++ b)) : EdgesIn cfg fs E a :=
  ⟨fun p hp => h.1 p (List.mem_append_left _ hp),
   fun f s A loads c hv => h.2 f s A loads c (List.mem_append_left _ hv)⟩

/-- the targets of a visited file's `@import` lines: being imported, finished before, or not IDL text -/
def VisitBack (cfg : Cfg) (fs : FS) (done : List Visit) : Visit → Prop
  | .file f s A loads _ => ∀ l ∈ loads, l.isImport = true → ∀ c p, findFile cfg fs s (filepathText l.lit) = some (c, p) →
      p ∈ A ++ [f] ∨ p ∈ done.filterMap Visit.file? ∨ NotText fs p
  | _ => True

def BackFrom (cfg : Cfg) (fs : FS) : List Visit → List Visit → Prop
  | _, [] => True
  | done, v :: vs => VisitBack cfg fs done v ∧ BackFrom cfg fs (done ++ [v]) vs

theorem backFrom_append (cfg : Cfg) (fs : FS) (done a b : List Visit) :
    BackFrom cfg fs done (a ++ b) ↔ BackFrom cfg fs done a ∧ BackFrom cfg fs (done ++ a) b := by
  induction a generalizing done with
  | nil => simp [BackFrom]
  | cons v a ih => simp only [List.cons_append, BackFrom, ih, and_assoc, List.append_assoc, List.nil_append]

/-- what a file visit of the tree satisfies: its importers are linked to it by chains of edges, its spelling leads to
    it, and it is IDL text -/
def NodeOk (fs : FS) (E : APath → APath → Prop) : Visit → Prop
  | .file f s A _ _ => (∀ q ∈ A, ImportChain E q f) ∧ SelfOk fs s f ∧ ∃ text, fs.get f = some (.idl text)
  | _ => True

/-- what a call of the search adds -/
def TreePost (cfg : Cfg) (fs : FS) (E : APath → APath → Prop) (acc out : VisitAcc) : Prop :=
  ∃ new, out.2 = acc.2 ++ new ∧ (∀ v ∈ new, NodeOk fs E v) ∧ BackFrom cfg fs acc.2 new ∧ ∀ q ∈ acc.1, q ∈ out.1

def Vis (fs : FS) (sv : List APath) (a : VisitAcc) : Prop :=
  ∀ q ∈ a.1, q ∈ sv ∨ q ∈ a.2.filterMap Visit.file? ∨ NotText fs q

theorem TreePost.refl (cfg : Cfg) (fs : FS) (E : APath → APath → Prop) (acc : VisitAcc) : TreePost cfg fs E acc acc :=
  ⟨[], by simp, (fun _ h => by cases h), trivial, fun _ h => h⟩

theorem TreePost.trans {cfg : Cfg} {fs : FS} {E : APath → APath → Prop} {a b c : VisitAcc}
    (h1 : TreePost cfg fs E a b) (h2 : TreePost cfg fs E b c) : TreePost cfg fs E a c := by
  obtain ⟨n1, e1, k1, b1, m1⟩ := h1
  obtain ⟨n2, e2, k2, b2, m2⟩ := h2
  refine ⟨n1 ++ n2, by rw [e2, e1, List.append_assoc], ?_, ?_, fun q hq => m2 q (m1 q hq)⟩
  · intro v hv
    rcases List.mem_append.mp hv with h | h
    · exact k1 v h
    · exact k2 v h
  · rw [backFrom_append, ← e1]; exact ⟨b1, b2⟩

theorem foldl_tree (cfg : Cfg) (fs : FS) (E : APath → APath → Prop) (n : Nat)
    (ih : ∀ stack file spelled acc, (∀ q ∈ stack, ImportChain E q file) → SelfOk fs spelled file → file ∈ acc.1 →
      Vis fs (stack ++ [file]) acc → EdgesIn cfg fs E (visitOrder cfg fs n stack file spelled acc).2 →
      TreePost cfg fs E acc (visitOrder cfg fs n stack file spelled acc)
        ∧ Vis fs stack (visitOrder cfg fs n stack file spelled acc))
    (stack0 : List APath) (file spelled : APath) (hchain : ∀ q ∈ stack0, ImportChain E q file)
    (hself : SelfOk fs spelled file) (ls : List LoadAt)
    (hedge : ∀ l ∈ ls, l.isImport = true → ∀ c p, findFile cfg fs spelled (filepathText l.lit) = some (c, p) → E file p)
    (acc : VisitAcc) (hin : file ∈ acc.1) (hvis : Vis fs (stack0 ++ [file]) acc)
    (hE : EdgesIn cfg fs E (ls.foldl (visitStep cfg fs (visitOrder cfg fs n) (stack0 ++ [file]) spelled) acc).2) :
    TreePost cfg fs E acc (ls.foldl (visitStep cfg fs (visitOrder cfg fs n) (stack0 ++ [file]) spelled) acc)
      ∧ Vis fs (stack0 ++ [file]) (ls.foldl (visitStep cfg fs (visitOrder cfg fs n) (stack0 ++ [file]) spelled) acc)
      ∧ ∀ l ∈ ls, l.isImport = true → ∀ c p, findFile cfg fs spelled (filepathText l.lit) = some (c, p) →
          p ∈ (ls.foldl (visitStep cfg fs (visitOrder cfg fs n) (stack0 ++ [file]) spelled) acc).1 := by
  induction ls generalizing acc with
  | nil => exact ⟨TreePost.refl cfg fs E acc, hvis, fun l hl => by cases hl⟩
  | cons l ls ihl =>
    simp only [List.foldl_cons] at hE ⊢
    -- the step of line `l`
    have hstep : TreePost cfg fs E acc (visitStep cfg fs (visitOrder cfg fs n) (stack0 ++ [file]) spelled acc l)
        ∧ Vis fs (stack0 ++ [file]) (visitStep cfg fs (visitOrder cfg fs n) (stack0 ++ [file]) spelled acc l)
        ∧ (l.isImport = true → ∀ c p, findFile cfg fs spelled (filepathText l.lit) = some (c, p) →
            p ∈ (visitStep cfg fs (visitOrder cfg fs n) (stack0 ++ [file]) spelled acc l).1) := by
      obtain ⟨ext, hext⟩ := foldl_visitStep_extends cfg fs (visitOrder cfg fs n)
        (fun st p s a => visitOrder_extends cfg fs n st p s a) (stack0 ++ [file]) spelled ls
        (visitStep cfg fs (visitOrder cfg fs n) (stack0 ++ [file]) spelled acc l)
      rw [hext] at hE
      have hE1 := hE.prefix
      clear hE hext
      cases hfind : findFile cfg fs spelled (filepathText l.lit) with
      | none =>
        have : visitStep cfg fs (visitOrder cfg fs n) (stack0 ++ [file]) spelled acc l = acc := by simp [visitStep, hfind]
        rw [this]
        exact ⟨TreePost.refl cfg fs E acc, hvis, fun _ c p h => by cases h⟩
      | some cp =>
        obtain ⟨c, p⟩ := cp
        cases hs : refersToSelf c spelled with
        | true =>
          have : visitStep cfg fs (visitOrder cfg fs n) (stack0 ++ [file]) spelled acc l = acc := by
            simp [visitStep, hfind, hs]
          rw [this]
          refine ⟨TreePost.refl cfg fs E acc, hvis, fun _ c' p' h => ?_⟩
          cases h
          have hp : p = file := by
            have hs' : (c.spelledAbsolute && c.path == spelled) = true := hs
            simp only [Bool.and_eq_true, beq_iff_eq] at hs'
            obtain ⟨_, _, _, _, hq⟩ := findFile_first cfg fs spelled _ c p hfind
            rw [hs'.2] at hq
            exact hself p hq
          rw [hp]; exact hin
        | false =>
          cases himp : l.isImport with
          | true =>
            by_cases hvp : p ∈ acc.1
            · have : visitStep cfg fs (visitOrder cfg fs n) (stack0 ++ [file]) spelled acc l = acc := by
                simp [visitStep, hfind, hs, himp, hvp]
              rw [this]
              refine ⟨TreePost.refl cfg fs E acc, hvis, fun _ c' p' h => ?_⟩
              cases h; exact hvp
            · have hst : visitStep cfg fs (visitOrder cfg fs n) (stack0 ++ [file]) spelled acc l
                  = visitOrder cfg fs n (stack0 ++ [file]) p c.path (acc.1 ++ [p], acc.2) := by
                simp [visitStep, hfind, hs, himp, hvp]
              rw [hst] at hE1 ⊢
              have hEp : E file p := hedge l (by simp) himp c p hfind
              have hchain' : ∀ q ∈ stack0 ++ [file], ImportChain E q p := by
                intro q hq
                simp only [List.mem_append, List.mem_singleton] at hq
                rcases hq with hq | hq
                · exact .tail (hchain q hq) hEp
                · subst hq; exact .single hEp
              have hvis' : Vis fs (stack0 ++ [file] ++ [p]) (acc.1 ++ [p], acc.2) := by
                intro q hq
                simp only [List.mem_append, List.mem_singleton] at hq
                rcases hq with hq | hq
                · rcases hvis q hq with h | h | h
                  · exact Or.inl (List.mem_append_left _ h)
                  · exact Or.inr (Or.inl h)
                  · exact Or.inr (Or.inr h)
                · subst hq; exact Or.inl (by simp)
              obtain ⟨⟨new, e1, k1, b1, m1⟩, hv1⟩ := ih (stack0 ++ [file]) p c.path (acc.1 ++ [p], acc.2) hchain'
                (SelfOk.found cfg fs spelled _ c p hfind) (by simp) hvis' hE1
              refine ⟨⟨new, e1, k1, b1, fun q hq => m1 q (by simp [hq])⟩, hv1, fun _ c' p' h => ?_⟩
              cases h; exact m1 p (by simp)
          | false =>
            cases hg : fs.get p with
            | none =>
              have : visitStep cfg fs (visitOrder cfg fs n) (stack0 ++ [file]) spelled acc l = acc := by
                simp [visitStep, hfind, hs, himp, hg]
              rw [this]
              exact ⟨TreePost.refl cfg fs E acc, hvis, fun h => by cases h⟩
            | some fc =>
              cases fc with
              | ext defs =>
                have : visitStep cfg fs (visitOrder cfg fs n) (stack0 ++ [file]) spelled acc l
                    = (acc.1, acc.2 ++ [.extern p defs]) := by
                  simp [visitStep, hfind, hs, himp, hg]
                rw [this]
                refine ⟨⟨[.extern p defs], rfl, fun v hv => ?_, ⟨trivial, trivial⟩, fun _ h => h⟩, ?_, fun h => by cases h⟩
                · simp only [List.mem_singleton] at hv; subst hv; trivial
                · intro q hq
                  rcases hvis q hq with h | h | h
                  · exact Or.inl h
                  · exact Or.inr (Or.inl (by simpa [List.filterMap_append, Visit.file?] using h))
                  · exact Or.inr (Or.inr h)
              | idl text =>
                have : visitStep cfg fs (visitOrder cfg fs n) (stack0 ++ [file]) spelled acc l = acc := by
                  simp [visitStep, hfind, hs, himp, hg]
                rw [this]
                exact ⟨TreePost.refl cfg fs E acc, hvis, fun h => by cases h⟩
              | badExt =>
                have : visitStep cfg fs (visitOrder cfg fs n) (stack0 ++ [file]) spelled acc l = acc := by
                  simp [visitStep, hfind, hs, himp, hg]
                rw [this]
                exact ⟨TreePost.refl cfg fs E acc, hvis, fun h => by cases h⟩
              | notText pos =>
                have : visitStep cfg fs (visitOrder cfg fs n) (stack0 ++ [file]) spelled acc l = acc := by
                  simp [visitStep, hfind, hs, himp, hg]
                rw [this]
                exact ⟨TreePost.refl cfg fs E acc, hvis, fun h => by cases h⟩
    obtain ⟨ht1, hv1, hl1⟩ := hstep
    have hin1 : file ∈ (visitStep cfg fs (visitOrder cfg fs n) (stack0 ++ [file]) spelled acc l).1 := by
      obtain ⟨_, _, _, _, m⟩ := ht1; exact m file hin
    obtain ⟨ht2, hv2, hl2⟩ := ihl (fun l' hl' => hedge l' (List.mem_cons_of_mem _ hl')) _ hin1 hv1 hE
    refine ⟨ht1.trans ht2, hv2, fun l' hl' himp c p hf => ?_⟩
    rcases List.mem_cons.mp hl' with rfl | hl'
    · obtain ⟨_, _, _, _, m⟩ := ht2
      exact m p (hl1 himp c p hf)
    · exact hl2 l' hl' himp c p hf

theorem visitOrder_tree (cfg : Cfg) (fs : FS) (E : APath → APath → Prop) (n : Nat) :
    ∀ stack file spelled acc, (∀ q ∈ stack, ImportChain E q file) → SelfOk fs spelled file → file ∈ acc.1 →
      Vis fs (stack ++ [file]) acc → EdgesIn cfg fs E (visitOrder cfg fs n stack file spelled acc).2 →
      TreePost cfg fs E acc (visitOrder cfg fs n stack file spelled acc)
        ∧ Vis fs stack (visitOrder cfg fs n stack file spelled acc) := by
  induction n with
  | zero =>
    intro stack file spelled acc _ _ _ _ hE
    exact absurd (by simp [visitOrder]) (hE.1 file)
  | succ n ih =>
    intro stack file spelled acc hchain hself hin hvis hE
    have hbroken : ∀ (h : visitOrder cfg fs (n + 1) stack file spelled acc = (acc.1, acc.2 ++ [.broken file])), False := by
      intro h
      rw [h] at hE
      exact hE.1 file (by simp)
    cases hf : fs.get file with
    | none => exact (hbroken (by simp only [visitOrder, hf])).elim
    | some fc =>
      cases fc with
      | ext d => exact (hbroken (by simp only [visitOrder, hf])).elim
      | badExt => exact (hbroken (by simp only [visitOrder, hf])).elim
      | notText pos =>
        have hvo : visitOrder cfg fs (n + 1) stack file spelled acc = (acc.1, acc.2 ++ [.undecodable file pos]) := by
          simp only [visitOrder, hf]
        rw [hvo]
        refine ⟨⟨[.undecodable file pos], rfl, fun v hv => ?_, ⟨trivial, trivial⟩, fun _ h => h⟩, fun q hq => ?_⟩
        · simp only [List.mem_singleton] at hv; subst hv; trivial
        · rcases hvis q hq with h | h | h
          · simp only [List.mem_append, List.mem_singleton] at h
            rcases h with h | h
            · exact Or.inl h
            · subst h; exact Or.inr (Or.inr ⟨pos, hf⟩)
          · exact Or.inr (Or.inl (by simpa [List.filterMap_append, Visit.file?] using h))
          · exact Or.inr (Or.inr h)
      | idl text =>
        cases hpt : parseText text with
        | none => exact (hbroken (by simp only [visitOrder, hf, hpt])).elim
        | some f =>
          obtain ⟨loads, contents⟩ := f
          have hvo : visitOrder cfg fs (n + 1) stack file spelled acc
              = ((loads.foldl (visitStep cfg fs (visitOrder cfg fs n) (stack ++ [file]) spelled) acc).1,
                 (loads.foldl (visitStep cfg fs (visitOrder cfg fs n) (stack ++ [file]) spelled) acc).2
                   ++ [.file file spelled stack loads contents]) := by
            simp only [visitOrder, hf, hpt]
          rw [hvo] at hE ⊢
          have hedge : ∀ l ∈ loads, l.isImport = true → ∀ c p, findFile cfg fs spelled (filepathText l.lit) = some (c, p) →
              E file p := hE.2 file spelled stack loads contents (by simp)
          obtain ⟨⟨new, e1, k1, b1, m1⟩, hv1, hl1⟩ := foldl_tree cfg fs E n ih stack file spelled hchain hself loads hedge acc hin hvis
            hE.prefix
          generalize loads.foldl (visitStep cfg fs (visitOrder cfg fs n) (stack ++ [file]) spelled) acc = o1 at e1 m1 hv1 hl1 ⊢
          refine ⟨⟨new ++ [.file file spelled stack loads contents], by simp [e1], fun v hv => ?_, ?_, m1⟩, fun q hq => ?_⟩
          · rcases List.mem_append.mp hv with h | h
            · exact k1 v h
            · simp only [List.mem_singleton] at h; subst h; exact ⟨hchain, hself, text, hf⟩
          · rw [backFrom_append, ← e1]
            refine ⟨b1, ?_, trivial⟩
            intro l hl himp c p hfind
            rcases hv1 p (hl1 l hl himp c p hfind) with h | h | h
            · exact Or.inl h
            · exact Or.inr (Or.inl h)
            · exact Or.inr (Or.inr h)
          · rcases hv1 q hq with h | h | h
            · simp only [List.mem_append, List.mem_singleton] at h
              rcases h with h | h
              · exact Or.inl h
              · subst h; exact Or.inr (Or.inl (by simp [List.filterMap_append, Visit.file?]))
            · exact Or.inr (Or.inl (by simp only [List.filterMap_append, List.mem_append]; exact Or.inl h))
            · exact Or.inr (Or.inr h)

/-- the import tree from `root`: every file visit is linked to its importers by chains of `@import` lines, and the
    targets of its `@import` lines are files being imported, files finished before, or files that are not text -/
theorem rootVisits_tree (cfg : Cfg) (fs : FS) (root : APath) (hnb : ∀ p, Visit.broken p ∉ rootVisits cfg fs root) :
    (∀ v ∈ rootVisits cfg fs root, NodeOk fs (ImportsTo cfg fs (rootVisits cfg fs root)) v)
      ∧ BackFrom cfg fs [] (rootVisits cfg fs root) := by
  have hE : EdgesIn cfg fs (ImportsTo cfg fs (rootVisits cfg fs root)) (rootVisits cfg fs root) :=
    ⟨hnb, fun f s A loads c hv l hl himp c' p hfind => ⟨s, A, loads, c, hv, l, hl, himp, c', hfind⟩⟩
  obtain ⟨⟨new, e1, k1, b1, _⟩, _⟩ := visitOrder_tree cfg fs (ImportsTo cfg fs (rootVisits cfg fs root)) (fs.files.length + 2)
    [] (normPath root) root ([normPath root], []) (fun q hq => by cases hq) (SelfOk.root fs root) (by simp)
    (fun q hq => Or.inl (by simpa using hq)) hE
  have hnew : new = rootVisits cfg fs root := by
    have : rootVisits cfg fs root = [] ++ new := e1
    rw [this]; rfl
  subst hnew
  exact ⟨k1, b1⟩

theorem backFrom_mem (cfg : Cfg) (fs : FS) (done pre : List Visit) (v : Visit) (post : List Visit)
    (h : BackFrom cfg fs done (pre ++ v :: post)) : VisitBack cfg fs (done ++ pre) v := by
  rw [backFrom_append] at h
  exact h.2.1

theorem importChain_head {E : APath → APath → Prop} {a b : APath} (h : ImportChain E a b) : ∃ c, E a c := by
  induction h with
  | single he => exact ⟨_, he⟩
  | tail _ _ ih => exact ih

/-- a line that closes a cycle lies on a cycle of the import graph, or is an `@extern` self reference -/
theorem closesCycle_cycle (cfg : Cfg) (fs : FS) (root : APath) (hnb : ∀ p, Visit.broken p ∉ rootVisits cfg fs root)
    (f s : APath) (A : List APath) (loads : List LoadAt) (contents : List Content)
    (hv : Visit.file f s A loads contents ∈ rootVisits cfg fs root) (l : LoadAt) (hl : l ∈ loads)
    (hc : ClosesCycle cfg fs A f s l) :
    HasImportCycle cfg fs (rootVisits cfg fs root) ∨ HasExternSelf cfg fs (rootVisits cfg fs root) := by
  obtain ⟨c, p, hfind, h⟩ := hc
  obtain ⟨hchain, hself, _⟩ := (rootVisits_tree cfg fs root hnb).1 _ hv
  cases himp : l.isImport with
  | false =>
    rcases h with h | h
    · exact Or.inr ⟨f, s, A, loads, contents, hv, l, hl, himp, c, p, hfind, h⟩
    · rw [himp] at h; cases h.1
  | true =>
    have hedge : ImportsTo cfg fs (rootVisits cfg fs root) f p := ⟨s, A, loads, contents, hv, l, hl, himp, c, hfind⟩
    refine Or.inl ?_
    rcases h with h | h
    · have hp : p = f := by
        have hs' : (c.spelledAbsolute && c.path == s) = true := h
        simp only [Bool.and_eq_true, beq_iff_eq] at hs'
        obtain ⟨_, _, _, _, hq⟩ := findFile_first cfg fs s _ c p hfind
        rw [hs'.2] at hq
        exact hself p hq
      subst hp
      exact ⟨p, .single hedge⟩
    · have hm := h.2
      simp only [List.mem_append, List.mem_singleton] at hm
      rcases hm with hm | hm
      · exact ⟨p, .tail (hchain p hm) hedge⟩
      · subst hm; exact ⟨p, .single hedge⟩

/-- without a line that closes a cycle, every edge of the import graph leads to a file finished earlier (or to a file
    that is not text) -/
theorem edge_back (cfg : Cfg) (fs : FS) (root : APath) (hnb : ∀ p, Visit.broken p ∉ rootVisits cfg fs root)
    (hnd : ((rootVisits cfg fs root).filterMap Visit.file?).Nodup)
    (hno : ∀ f s A loads contents, Visit.file f s A loads contents ∈ rootVisits cfg fs root →
      ∀ l ∈ loads, ¬ ClosesCycle cfg fs A f s l)
    (f p : APath) (he : ImportsTo cfg fs (rootVisits cfg fs root) f p) :
    NotText fs p ∨ ((rootVisits cfg fs root).filterMap Visit.file?).idxOf p
      < ((rootVisits cfg fs root).filterMap Visit.file?).idxOf f := by
  obtain ⟨s, A, loads, contents, hv, l, hl, himp, c, hfind⟩ := he
  obtain ⟨pre, post, hsplit⟩ := List.append_of_mem hv
  have hb := (rootVisits_tree cfg fs root hnb).2
  rw [hsplit] at hb hnd ⊢
  have hvb := backFrom_mem cfg fs [] pre _ post hb
  rcases hvb l hl himp c p hfind with h | h | h
  · exact absurd ⟨c, p, hfind, Or.inr ⟨himp, h⟩⟩ (hno f s A loads contents hv l hl)
  · right
    simp only [List.nil_append] at h
    have hF : (pre ++ Visit.file f s A loads contents :: post).filterMap Visit.file?
        = pre.filterMap Visit.file? ++ f :: post.filterMap Visit.file? := by
      simp [List.filterMap_append, Visit.file?]
    rw [hF] at hnd ⊢
    have hfn : f ∉ pre.filterMap Visit.file? := by
      intro hm
      exact (List.nodup_append.mp hnd).2.2 f hm f (by simp) rfl
    rw [List.idxOf_append, List.idxOf_append, if_pos h, if_neg hfn, List.idxOf_cons_self]
    have := List.idxOf_lt_length_of_mem h
    omega
  · exact Or.inl h

theorem importsTo_idl (cfg : Cfg) (fs : FS) (root : APath) (hnb : ∀ p, Visit.broken p ∉ rootVisits cfg fs root)
    (f p : APath) (he : ImportsTo cfg fs (rootVisits cfg fs root) f p) : ∃ text, fs.get f = some (.idl text) := by
  obtain ⟨s, A, loads, contents, hv, _⟩ := he
  exact ((rootVisits_tree cfg fs root hnb).1 _ hv).2.2

/-- **A circular import is reported iff the import graph has a cycle** — the search side. Let the graph have the IDL
    files of the import tree as nodes and an edge `f → p` whenever an `@import` line of `f` resolves to `p` (a self
    reference counts). If nothing entered is `broken` and no IDL file is visited twice, then some load line closes a
    cycle (`ClosesCycle`: the lines reported as circular import) iff the graph has a cycle — or an `@extern` line
    refers to its own file (which is reported in the same way). -/
theorem closesCycle_iff_cycle (cfg : Cfg) (fs : FS) (root : APath) (hnb : ∀ p, Visit.broken p ∉ rootVisits cfg fs root)
    (hnd : ((rootVisits cfg fs root).filterMap Visit.file?).Nodup) :
    (∃ f s A loads contents, Visit.file f s A loads contents ∈ rootVisits cfg fs root ∧
        ∃ l ∈ loads, ClosesCycle cfg fs A f s l)
      ↔ HasImportCycle cfg fs (rootVisits cfg fs root) ∨ HasExternSelf cfg fs (rootVisits cfg fs root) := by
  constructor
  · rintro ⟨f, s, A, loads, contents, hv, l, hl, hc⟩
    exact closesCycle_cycle cfg fs root hnb f s A loads contents hv l hl hc
  · rintro (⟨f, hcyc⟩ | ⟨f, s, A, loads, contents, hv, l, hl, _, c, p, hfind, hs⟩)
    · refine Classical.byContradiction (fun hno => ?_)
      have hno' : ∀ f s A loads contents, Visit.file f s A loads contents ∈ rootVisits cfg fs root →
          ∀ l ∈ loads, ¬ ClosesCycle cfg fs A f s l :=
        fun f s A loads contents hv l hl hc => hno ⟨f, s, A, loads, contents, hv, l, hl, hc⟩
      have key : ∀ a b, ImportChain (ImportsTo cfg fs (rootVisits cfg fs root)) a b → (∃ text, fs.get b = some (.idl text)) →
          ((rootVisits cfg fs root).filterMap Visit.file?).idxOf b < ((rootVisits cfg fs root).filterMap Visit.file?).idxOf a := by
        intro a b hch
        induction hch with
        | single he =>
          rintro ⟨text, ht⟩
          rcases edge_back cfg fs root hnb hnd hno' _ _ he with ⟨pos, h⟩ | h
          · rw [ht] at h; cases h
          · exact h
        | tail hch he ih =>
          rintro ⟨text, ht⟩
          have h1 := ih (importsTo_idl cfg fs root hnb _ _ he)
          rcases edge_back cfg fs root hnb hnd hno' _ _ he with ⟨pos, h⟩ | h
          · rw [ht] at h; cases h
          · exact Nat.lt_trans h h1
      obtain ⟨c, hc⟩ := importChain_head hcyc
      exact Nat.lt_irrefl _ (key f f hcyc (importsTo_idl cfg fs root hnb _ _ hc))
    · exact ⟨f, s, A, loads, contents, hv, l, hl, c, p, hfind, Or.inl hs⟩

theorem nodup_of_map_nodup {α β : Type} (f : α → β) : ∀ l : List α, (l.map f).Nodup → l.Nodup
  | [], _ => List.nodup_nil
  | a :: l, h => by
    rw [List.map_cons, List.nodup_cons] at h
    rw [List.nodup_cons]
    exact ⟨fun hm => h.1 (List.mem_map.mpr ⟨a, hm, rfl⟩), nodup_of_map_nodup f l h.2⟩

/-- **A circular import is diagnosed iff the import graph has a cycle (C16).** Under the hypotheses of
    `front_eq_programDiags`: the front end reports a diagnostic named `circular-import` iff the import graph reachable
    from the root — nodes: the IDL files of the import tree, edges: `@import` lines that resolve (`findFile` under the
    spelling the file was found under; a self reference counts) — has a cycle, or an `@extern` line refers to the file
    that holds it. -/
theorem front_cycle_iff (cfg : Cfg) (fs : FS) (builtins : Registry) (root : APath)
    (hb : (builtins.map (·.key)).Nodup) (hgood : GoodV cfg (rootVisits cfg fs root))
    (hdup : (programKeys builtins (rootVisits cfg fs root)).Nodup) :
    ∃ ds, front cfg fs builtins root = (if ds = [] then Outcome.ok else Outcome.diags ds) ∧
      ((∃ x ∈ ds, x.rule = "circular-import") ↔
        HasImportCycle cfg fs (rootVisits cfg fs root) ∨ HasExternSelf cfg fs (rootVisits cfg fs root)) := by
  obtain ⟨ds, hfront, hiff⟩ := front_circular_iff_line cfg fs builtins root hb hgood hdup
  refine ⟨ds, hfront, hiff.trans (closesCycle_iff_cycle cfg fs root ?_ ?_)⟩
  · intro p hp
    exact hgood.2 _ hp
  · exact nodup_of_map_nodup _ _ hgood.1

/-! ### link to `Front/Order.lean`: the visits are the registration events of `loadOrder`, with more detail

`Props/C16Order.lean` proves that the model registers in the order of `loadOrder` / `rootEvents`. The search of
`Front/SpecProgram.lean` is the same search (it also records spellings, importers and files that are not IDL text):
forgetting the extra detail gives `rootEvents`, and the IDL files visited are `rootOrder` — the finish order the
specification `violationsOrdered` reads a program in. -/

theorem visitStep_mono (cfg : Cfg) (fs : FS) (rec : List APath → APath → APath → VisitAcc → VisitAcc)
    (hrec : ∀ st p s a, ∀ q ∈ a.1, q ∈ (rec st p s a).1) (stack : List APath) (spelled : APath) (acc : VisitAcc)
    (l : LoadAt) : ∀ q ∈ acc.1, q ∈ (visitStep cfg fs rec stack spelled acc l).1 := by
  intro q hq
  unfold visitStep
  split
  · exact hq
  · split
    · exact hq
    · split
      · split
        · exact hq
        · exact hrec _ _ _ _ q (by simp [hq])
      · split
        · exact hq
        · exact hq

theorem foldl_visitStep_mono (cfg : Cfg) (fs : FS) (rec : List APath → APath → APath → VisitAcc → VisitAcc)
    (hrec : ∀ st p s a, ∀ q ∈ a.1, q ∈ (rec st p s a).1) (stack : List APath) (spelled : APath) (loads : List LoadAt)
    (acc : VisitAcc) : ∀ q ∈ acc.1, q ∈ (loads.foldl (visitStep cfg fs rec stack spelled) acc).1 := by
  induction loads generalizing acc with
  | nil => exact fun q hq => hq
  | cons l ls ih =>
    intro q hq
    simp only [List.foldl_cons]
    exact ih _ q (visitStep_mono cfg fs rec hrec stack spelled acc l q hq)

theorem visitOrder_mono (cfg : Cfg) (fs : FS) (fuel : Nat) (stack : List APath) (file spelled : APath) (acc : VisitAcc) :
    ∀ q ∈ acc.1, q ∈ (visitOrder cfg fs fuel stack file spelled acc).1 := by
  induction fuel generalizing stack file spelled acc with
  | zero => exact fun q hq => hq
  | succ n ih =>
    intro q hq
    simp only [visitOrder]
    cases hf : fs.get file with
    | none => exact hq
    | some fc =>
      cases fc with
      | idl text =>
        simp only []
        cases hp : parseText text with
        | none => exact hq
        | some f => exact foldl_visitStep_mono cfg fs _ (fun st p s a => ih st p s a) _ spelled f.loads acc q hq
      | ext d => exact hq
      | badExt => exact hq
      | notText pos => exact hq

/-- a visit as a registration event of `Front/Order.lean` -/
def visitEvent : Visit → Option LoadEvent
  | .file f _ _ _ _ => some (.finished f)
  | .extern p _ => some (.extern p)
  | _ => none

def projV (acc : VisitAcc) : OrderAcc := (acc.1, acc.2.filterMap visitEvent)

theorem projV_step (cfg : Cfg) (fs : FS) (recV : List APath → APath → APath → VisitAcc → VisitAcc)
    (recL : APath → APath → OrderAcc → OrderAcc) (stack : List APath) (file spelled : APath) (text : String)
    (hfile : fs.get file = some (.idl text)) (hself : SelfOk fs spelled file)
    (hrec : ∀ p s a, SelfOk fs s p → p ∈ a.1 → projV (recV stack p s a) = recL p s (projV a))
    (acc : VisitAcc) (hin : file ∈ acc.1) (l : LoadAt) :
    projV (visitStep cfg fs recV stack spelled acc l) = loadStep cfg fs recL spelled (projV acc) l := by
  unfold visitStep loadStep
  cases hfind : findFile cfg fs spelled (filepathText l.lit) with
  | none => rfl
  | some cp =>
    obtain ⟨c, p⟩ := cp
    simp only []
    cases hs : refersToSelf c spelled with
    | true =>
      have hp : p = file := by
        have hs' : (c.spelledAbsolute && c.path == spelled) = true := hs
        simp only [Bool.and_eq_true, beq_iff_eq] at hs'
        obtain ⟨_, _, _, _, hq⟩ := findFile_first cfg fs spelled _ c p hfind
        rw [hs'.2] at hq
        exact hself p hq
      subst hp
      cases himp : l.isImport with
      | true => simp [projV, hin]
      | false => simp [hfile]
    | false =>
      cases himp : l.isImport with
      | true =>
        by_cases hm : p ∈ acc.1
        · simp [projV, hm]
        · have := hrec p c.path (acc.1 ++ [p], acc.2) (SelfOk.found cfg fs spelled _ c p hfind) (by simp)
          simpa [projV, hm] using this
      | false =>
        simp only [Bool.false_eq_true, if_false]
        cases hg : fs.get p with
        | none => rfl
        | some fc =>
          cases fc with
          | ext defs => simp [projV, visitEvent]
          | idl t => rfl
          | badExt => rfl
          | notText pos => rfl

theorem projV_foldl (cfg : Cfg) (fs : FS) (recV : List APath → APath → APath → VisitAcc → VisitAcc)
    (recL : APath → APath → OrderAcc → OrderAcc) (stack : List APath) (file spelled : APath) (text : String)
    (hfile : fs.get file = some (.idl text)) (hself : SelfOk fs spelled file)
    (hmono : ∀ st p s a, ∀ q ∈ a.1, q ∈ (recV st p s a).1)
    (hrec : ∀ p s a, SelfOk fs s p → p ∈ a.1 → projV (recV stack p s a) = recL p s (projV a))
    (loads : List LoadAt) (acc : VisitAcc) (hin : file ∈ acc.1) :
    projV (loads.foldl (visitStep cfg fs recV stack spelled) acc) = loads.foldl (loadStep cfg fs recL spelled) (projV acc) := by
  induction loads generalizing acc with
  | nil => rfl
  | cons l ls ih =>
    simp only [List.foldl_cons]
    rw [ih _ (visitStep_mono cfg fs recV hmono stack spelled acc l file hin),
      projV_step cfg fs recV recL stack file spelled text hfile hself hrec acc hin l]

/-- forgetting spellings, importers and the visits that register nothing, `visitOrder` is `loadOrder` -/
theorem projV_visitOrder (cfg : Cfg) (fs : FS) (fuel : Nat) (stack : List APath) (file spelled : APath) (acc : VisitAcc)
    (hself : SelfOk fs spelled file) (hin : file ∈ acc.1) :
    projV (visitOrder cfg fs fuel stack file spelled acc) = loadOrder cfg fs fuel file spelled (projV acc) := by
  induction fuel generalizing stack file spelled acc with
  | zero => simp [visitOrder, loadOrder, projV, visitEvent]
  | succ n ih =>
    simp only [visitOrder, loadOrder]
    cases hf : fs.get file with
    | none => simp [projV, visitEvent]
    | some fc =>
      cases fc with
      | idl text =>
        simp only []
        cases hp : parseText text with
        | none => simp [projV, visitEvent]
        | some f =>
          simp only []
          have := projV_foldl cfg fs (visitOrder cfg fs n) (loadOrder cfg fs n) (stack ++ [file]) file spelled text hf hself
            (fun st p s a => visitOrder_mono cfg fs n st p s a) (fun p s a hs hi => ih (stack ++ [file]) p s a hs hi) f.loads acc hin
          rw [← this]
          simp [projV, visitEvent]
      | ext d => simp [projV, visitEvent]
      | badExt => simp [projV, visitEvent]
      | notText pos => simp [projV, visitEvent]

/-- **The visits are the registration events**: forgetting the extra detail, `rootVisits` is `rootEvents` of
    `Front/Order.lean` — the order `Props/C16Order.lean` proves the model registers in. -/
theorem rootVisits_events (cfg : Cfg) (fs : FS) (root : APath) :
    (rootVisits cfg fs root).filterMap visitEvent = rootEvents cfg fs root := by
  have := projV_visitOrder cfg fs (fs.files.length + 2) [] (normPath root) root ([normPath root], [])
    (SelfOk.root fs root) (by simp)
  exact congrArg Prod.snd this

theorem file?_eq_visitEvent (v : Visit) : v.file? = (visitEvent v).bind LoadEvent.file? := by
  cases v <;> rfl

/-- the IDL files visited are, in order, the finish order `rootOrder` -/
theorem rootVisits_files (cfg : Cfg) (fs : FS) (root : APath) :
    (rootVisits cfg fs root).filterMap Visit.file? = rootOrder cfg fs root := by
  rw [← rootEvents_files, ← rootVisits_events, List.filterMap_filterMap]
  congr 1
  funext v
  exact file?_eq_visitEvent v

/-- what a visit records is what the file system holds -/
def VisitData (fs : FS) : Visit → Prop
  | .file f _ _ loads contents => ∃ text, fs.get f = some (.idl text) ∧ parseText text = some ⟨loads, contents⟩
  | .extern p defs => fs.get p = some (.ext defs)
  | .undecodable p pos => fs.get p = some (.notText pos)
  | .broken _ => True

theorem visitStep_data (cfg : Cfg) (fs : FS) (rec : List APath → APath → APath → VisitAcc → VisitAcc)
    (hrec : ∀ st p s a, (∀ v ∈ a.2, VisitData fs v) → ∀ v ∈ (rec st p s a).2, VisitData fs v)
    (stack : List APath) (spelled : APath) (acc : VisitAcc) (l : LoadAt) (ha : ∀ v ∈ acc.2, VisitData fs v) :
    ∀ v ∈ (visitStep cfg fs rec stack spelled acc l).2, VisitData fs v := by
  unfold visitStep
  split
  · exact ha
  · split
    · exact ha
    · split
      · split
        · exact ha
        · exact hrec _ _ _ _ ha
      · split
        · rename_i defs hg
          intro v hv
          simp only [List.mem_append, List.mem_singleton] at hv
          rcases hv with hv | hv
          · exact ha v hv
          · subst hv; exact hg
        · exact ha

theorem foldl_visitStep_data (cfg : Cfg) (fs : FS) (rec : List APath → APath → APath → VisitAcc → VisitAcc)
    (hrec : ∀ st p s a, (∀ v ∈ a.2, VisitData fs v) → ∀ v ∈ (rec st p s a).2, VisitData fs v)
    (stack : List APath) (spelled : APath) (loads : List LoadAt) (acc : VisitAcc) (ha : ∀ v ∈ acc.2, VisitData fs v) :
    ∀ v ∈ (loads.foldl (visitStep cfg fs rec stack spelled) acc).2, VisitData fs v := by
  induction loads generalizing acc with
  | nil => exact ha
  | cons l ls ih =>
    simp only [List.foldl_cons]
    exact ih _ (visitStep_data cfg fs rec hrec stack spelled acc l ha)

theorem visitOrder_data (cfg : Cfg) (fs : FS) (fuel : Nat) (stack : List APath) (file spelled : APath) (acc : VisitAcc)
    (ha : ∀ v ∈ acc.2, VisitData fs v) : ∀ v ∈ (visitOrder cfg fs fuel stack file spelled acc).2, VisitData fs v := by
  have hadd : ∀ (x : Visit), VisitData fs x → ∀ (l : List Visit), (∀ v ∈ l, VisitData fs v) → ∀ v ∈ l ++ [x], VisitData fs v := by
    intro x hx l hl v hv
    simp only [List.mem_append, List.mem_singleton] at hv
    rcases hv with hv | hv
    · exact hl v hv
    · subst hv; exact hx
  induction fuel generalizing stack file spelled acc with
  | zero => exact hadd (.broken file) trivial _ ha
  | succ n ih =>
    simp only [visitOrder]
    cases hf : fs.get file with
    | none => exact hadd (.broken file) trivial _ ha
    | some fc =>
      cases fc with
      | idl text =>
        simp only []
        cases hp : parseText text with
        | none => exact hadd (.broken file) trivial _ ha
        | some f =>
          exact hadd (.file file spelled stack f.loads f.contents) ⟨text, hf, hp⟩ _
            (foldl_visitStep_data cfg fs _ (fun st p s a h => ih st p s a h) _ spelled f.loads acc ha)
      | ext d => exact hadd (.broken file) trivial _ ha
      | badExt => exact hadd (.broken file) trivial _ ha
      | notText pos => exact hadd (.undecodable file pos) hf _ ha

/-- every visit of the import tree records what the file system holds: an IDL file's parsed load lines and contents,
    an external type file's definitions, the position of the first undecodable byte -/
theorem rootVisits_data (cfg : Cfg) (fs : FS) (root : APath) : ∀ v ∈ rootVisits cfg fs root, VisitData fs v :=
  visitOrder_data cfg fs _ _ _ _ _ (fun _ h => by cases h)

theorem visitDefs_eq_evDefs (fs : FS) (v : Visit) (hv : VisitData fs v) :
    visitDefs v = (match visitEvent v with | some e => evDefs fs e | none => []) := by
  cases v with
  | file f s A loads contents =>
    obtain ⟨text, hf, hp⟩ := hv
    simp [visitDefs, visitEvent, evDefs, fileDefs, hf, hp]
  | extern p defs =>
    have hv' : fs.get p = some (.ext defs) := hv
    simp [visitDefs, visitEvent, evDefs, hv']
  | undecodable p pos => rfl
  | broken p => rfl

theorem flatMap_visitDefs_eq (fs : FS) (vs : List Visit) (h : ∀ v ∈ vs, VisitData fs v) :
    vs.flatMap visitDefs = (vs.filterMap visitEvent).flatMap (evDefs fs) := by
  induction vs with
  | nil => rfl
  | cons v vs ih =>
    rw [List.flatMap_cons, ih (fun v' hv' => h v' (List.mem_cons_of_mem _ hv')), visitDefs_eq_evDefs fs v (h v (by simp)),
      List.filterMap_cons]
    cases visitEvent v <;> simp

/-- **The names registered in a run are the names of the registration events in event order**: `programKeys` of the
    import tree is the built-ins' names followed by the names of `evDefs` of every event of `rootEvents`
    (`Front/Order.lean`) — the hypothesis "no two registrations collide" of `front_eq_programDiags` in terms of the
    order `Props/C16Order.lean` is about. -/
theorem programKeys_rootEvents (cfg : Cfg) (fs : FS) (builtins : Registry) (root : APath) :
    programKeys builtins (rootVisits cfg fs root)
      = (builtins ++ (rootEvents cfg fs root).flatMap (evDefs fs)).map (·.key) := by
  rw [programKeys, flatMap_visitDefs_eq fs _ (rootVisits_data cfg fs root), rootVisits_events]

instance (cfg : Cfg) (v : Visit) : Decidable (VisitOk cfg v) := by
  cases v <;> unfold VisitOk <;> infer_instance

instance (cfg : Cfg) (vs : List Visit) : Decidable (GoodV cfg vs) := by
  unfold GoodV; infer_instance

/-- all hypotheses of `front_eq_programDiags` except the distinctness of the registered names, as one computable check -/
def visitsChecks (cfg : Cfg) (fs : FS) (builtins : Registry) (root : APath) : Bool :=
  decide ((builtins.map (·.key)).Nodup) && decide (GoodV cfg (rootVisits cfg fs root))

/-! ### non-vacuity

Compiled evaluation with `#guard` — tests, not proofs (kernel reduction of the path-splitting functions and of the
lexer is too slow for `decide`, as in `Props/C16.lean`). For each file system: the hypotheses hold (`visitsChecks`,
and `programKeys … .Nodup` where the theorem needs it), and the diagnostics of `front` are a permutation of
`programDiags` — with the import-related diagnostics present on both sides. -/

namespace C16ProgramExamples
open C05ProgramExamples

def nodupKeys (cfg : Cfg) (fs : FS) (builtins : Registry) (root : APath) : Bool :=
  decide ((programKeys builtins (rootVisits cfg fs root)).Nodup)

def agreeV (cfg : Cfg) (fs : FS) (builtins : Registry) (root : APath) : Bool :=
  match diagsOf (front cfg fs builtins root) with
  | some ds => ds.isPerm (programDiags cfg fs builtins root)
  | none => false

def shape (ds : List Diag) : List (String × String × Nat × Nat) := ds.map (fun d => (d.rule, d.file, d.pos.sl, d.pos.sc))

def frontShape (cfg : Cfg) (fs : FS) (builtins : Registry) (root : APath) : Option (List (String × String × Nat × Nat)) :=
  (diagsOf (front cfg fs builtins root)).map shape

-- a cycle that does not go through the root: `a` imports `b`, `b` imports `c`, `c` imports `b` (being imported: reported
-- in `c` at the directive); rule violations in `c` (`tb` is not yet declared when `c` is finished) and in `a`
def exCycleInner : FS := fsOf [("a", "@import \"b\"\nta = record { x: tb; y: nope; }"), ("b", "@import \"c\"\ntb = enum { k; }"),
  ("c", "@import \"b\"\ntc = record { z: tb; }")]
#guard visitsChecks cfg0 exCycleInner bi ["w", "a"] && nodupKeys cfg0 exCycleInner bi ["w", "a"]
#guard agreeV cfg0 exCycleInner bi ["w", "a"]
#guard shape (programDiags cfg0 exCycleInner bi ["w", "a"])
  == [("circular-import", "/w/c", 1, 0), ("unknown-type", "/w/c", 2, 17), ("unknown-type", "/w/a", 2, 24)]
#guard frontShape cfg0 exCycleInner bi ["w", "a"] == some (shape (programDiags cfg0 exCycleInner bi ["w", "a"]))

-- a missing leaf (reported in the importing file `b`, at the path token) and two self imports of the root: spelled
-- exactly like the root (an absolute path; reported at the path token) and spelled relatively (the implementation's
-- relative `Path` is not equal to the file's own: reported as an import of a file being imported, at the directive);
-- the root imports `b` twice (nothing the second time)
def exMissingLeaf : FS := fsOf [("a", "@import \"b\"\n@import \"/w/a\"\n@import \"b\"\n@import \"a\"\nta = record { x: tb; }"),
  ("b", "@import \"nope\"\ntb = enum { k; }")]
#guard visitsChecks cfg0 exMissingLeaf bi ["w", "a"] && nodupKeys cfg0 exMissingLeaf bi ["w", "a"]
#guard agreeV cfg0 exMissingLeaf bi ["w", "a"]
#guard shape (programDiags cfg0 exMissingLeaf bi ["w", "a"])
  == [("missing-file", "/w/b", 1, 8), ("circular-import", "/w/a", 2, 8), ("circular-import", "/w/a", 4, 0)]

-- the root under another spelling: `@import "x/../a"` in `a` is not literally the file's own spelling, so it is a
-- circular import reported at the directive (column 0), not at the path token
def exSelfOther : FS := { files := [(["w", "a"], .idl "@import \"x/../a\"\nta = enum { k; }"), (["w", "x", "y"], .idl "")] }
#guard visitsChecks cfg0 exSelfOther bi ["w", "a"] && agreeV cfg0 exSelfOther bi ["w", "a"]
#guard shape (programDiags cfg0 exSelfOther bi ["w", "a"]) == [("circular-import", "/w/a", 1, 0)]

-- a diamond with a violation in the shared file `d`: `d` is entered once, reported once
def exDiamondV : FS := fsOf [("a", "@import \"b\"\n@import \"c\"\nta = record { x: tb; y: tc; z: td; }"),
  ("b", "@import \"d\"\ntb = record { x: td; }"), ("c", "@import \"d\"\ntc = record { x: list<td>; }"),
  ("d", "td = record { q: missing; }")]
#guard visitsChecks cfg0 exDiamondV bi ["w", "a"] && nodupKeys cfg0 exDiamondV bi ["w", "a"]
#guard agreeV cfg0 exDiamondV bi ["w", "a"]
#guard shape (programDiags cfg0 exDiamondV bi ["w", "a"]) == [("unknown-type", "/w/d", 1, 17)]
#guard ((rootVisits cfg0 exDiamondV ["w", "a"]).filterMap Visit.file?) == [["w", "d"], ["w", "b"], ["w", "c"], ["w", "a"]]

-- `@extern` lines: a valid external type file (its types are known from the line on: `ext1` is unknown in `b`, which
-- is finished before, known in `a`), an invalid one, an undecodable one, a missing one, an IDL file, and the file itself
def exExterns : FS := { files := [
  (["w", "a"], .idl ("@import \"b\"\n@extern \"e.yaml\"\n@extern \"bad.yaml\"\n@extern \"bin.yaml\"\n@extern \"none.yaml\"\n"
     ++ "@extern \"b\"\n@extern \"/w/a\"\nta = record { x: ext1; y: list<ext2>; }")),
  (["w", "b"], .idl "tb = record { x: ext1; }"),
  (["w", "e.yaml"], .ext [{ key := "ext1", prim := .record, arity := 0, pos := default }, { key := "ext2", prim := .record, arity := 0, pos := default }]),
  (["w", "bad.yaml"], .badExt), (["w", "bin.yaml"], .notText ⟨3, 1, 3, 2⟩)] }
#guard visitsChecks cfg0 exExterns bi ["w", "a"] && nodupKeys cfg0 exExterns bi ["w", "a"]
#guard agreeV cfg0 exExterns bi ["w", "a"]
#guard shape (programDiags cfg0 exExterns bi ["w", "a"])
  == [("unknown-type", "/w/b", 1, 17), ("bad-extern", "/w/bad.yaml", 0, 0), ("extern-not-utf8", "/w/bin.yaml", 3, 1),
      ("missing-file", "/w/a", 5, 8), ("bad-extern", "/w/b", 0, 0), ("circular-import", "/w/a", 7, 8)]
#guard programKeys bi (rootVisits cfg0 exExterns ["w", "a"]) == ["i32", "list", "tb", "ext1", "ext2", "ta"]

-- an imported file that is not UTF-8
def exUndecodable : FS := { files := [(["w", "a"], .idl "@import \"b\"\n@import \"b\"\nta = enum { k; }"), (["w", "b"], .notText ⟨2, 0, 2, 1⟩)] }
#guard visitsChecks cfg0 exUndecodable bi ["w", "a"] && agreeV cfg0 exUndecodable bi ["w", "a"]
#guard shape (programDiags cfg0 exUndecodable bi ["w", "a"]) == [("not-utf8", "/w/b", 2, 0)]

-- a duplicate across files: the hypotheses on the visits hold, the registered names are not pairwise distinct, and the
-- front end is aborted by a `TypeResolvingException` (`front_duplicate_raised`) — at the second declaration in
-- registration order, i.e. in the importing file
def exDupFiles : FS := fsOf [("a", "@import \"b\"\n\nt = enum { k; }"), ("b", "t = enum { k; }")]
#guard visitsChecks cfg0 exDupFiles bi ["w", "a"] && !nodupKeys cfg0 exDupFiles bi ["w", "a"]
#guard match front cfg0 exDupFiles bi ["w", "a"] with
  | .abort (.raised "TypeResolvingException" "/w/a" pos) => pos.sl == 3
  | _ => false
def abortAt (o : Outcome) : Option (String × Pos) :=
  match o with
  | .abort (.raised cls f p) => if cls == "TypeResolvingException" then some (f, p) else none
  | _ => none
-- `front_duplicate_position`: the abort is where `programCollision` says
#guard (programCollision bi (rootVisits cfg0 exDupFiles ["w", "a"])).map (fun x => (x.1, x.2.sl)) == some ("/w/a", 3)
#guard abortAt (front cfg0 exDupFiles bi ["w", "a"]) == programCollision bi (rootVisits cfg0 exDupFiles ["w", "a"])
-- two imported files declare the same name: the abort is in the file finished second (`c`), the root is never finished
def exDupSiblings : FS := fsOf [("a", "@import \"b\"\n@import \"c\"\nta = enum { k; }"), ("b", "t = enum { k; }"),
  ("c", "\nu = enum { k; }\nt = enum { k; }")]
#guard visitsChecks cfg0 exDupSiblings bi ["w", "a"] && !nodupKeys cfg0 exDupSiblings bi ["w", "a"]
#guard (programCollision bi (rootVisits cfg0 exDupSiblings ["w", "a"])).map (fun x => (x.1, x.2.sl)) == some ("/w/c", 3)
#guard abortAt (front cfg0 exDupSiblings bi ["w", "a"]) == programCollision bi (rootVisits cfg0 exDupSiblings ["w", "a"])
-- a duplicate of an external type
def exDupExt : FS := { files := [(["w", "a"], .idl "@extern \"e.yaml\"\next1 = enum { k; }"),
  (["w", "e.yaml"], .ext [{ key := "ext1", prim := .record, arity := 0, pos := default }])] }
#guard visitsChecks cfg0 exDupExt bi ["w", "a"] && !nodupKeys cfg0 exDupExt bi ["w", "a"]
#guard match front cfg0 exDupExt bi ["w", "a"] with | .abort (.raised "TypeResolvingException" "/w/a" _) => true | _ => false
#guard abortAt (front cfg0 exDupExt bi ["w", "a"]) == programCollision bi (rootVisits cfg0 exDupExt ["w", "a"])
-- without a duplicate there is no collision
#guard (programCollision bi (rootVisits cfg0 exExterns ["w", "a"])).isNone

-- the hypothesis on the visits is needed: an imported file outside the grammar is a `broken` visit; the model aborts
def exBroken : FS := fsOf [("a", "@import \"b\"\nta = enum { k; }"), ("b", "this is not idl {")]
#guard !visitsChecks cfg0 exBroken bi ["w", "a"]
#guard (diagsOf (front cfg0 exBroken bi ["w", "a"])).isNone

-- the examples of `Props/C05Program.lean` (clean import graphs): `programDiags` is `violationsOrdered` there
#guard visitsChecks cfg0 ex3 bi ["w", "a"] && agreeV cfg0 ex3 bi ["w", "a"]
#guard some (programDiags cfg0 ex3 bi ["w", "a"]) == specOf cfg0 ex3 bi ["w", "a"]

end C16ProgramExamples

end Pydjinni.Front
