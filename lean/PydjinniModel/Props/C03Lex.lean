import PydjinniModel.Front.Lexer
import PydjinniModel.Props.C03
/-!
# C03 — the lexer model: progress, termination, positions, reconstruction, white-space invariance

All statements are about the executable model `Front/Lexer.lean` (`lexOne`, `lexAux`, `lex`), for all inputs.
`lexPieces`/`scan` is an instrumented, position-free copy of `lexAux` that records every consumed piece
(token text or white-space run); `lexAux_eq_pieces` ties it to the real `lexAux` (same tokens, same positions).

1. progress
   * `lexOne_within`, `lexOne_tok_bounds`, `lexOne_skip_bounds`   every step consumes `1 ≤ n ≤ length` characters
   * `nsidLen_le`
2. fuel sufficiency
   * `lexAux_fuel`, `lexPieces_fuel`    any fuel above the input length gives the same result
   * `Reach`                            the suffixes at which the scan arrives
   * `lexAux_none_iff`, `lex_none_iff`  failure ⇔ a reachable non-empty suffix on which `lexOne` errs
   * `lexAux_none_suffix_err`, `lexAux_ne_none`
3. positions
   * `lexAux_token_position`, `lex_token_position`   `cs = pre ++ w ++ post`, `w` = token text,
                                        start = `advance` over `pre`, end = `advance` over `pre ++ w`, `len = |w|`
   * `lex_token_bounds`                 `1 ≤ line ≤ endLine ≤ 1 + #newlines`, `col, endCol, len ≤ |text|`, `0 < len`
   * `lex_token_column`, `advance_split` the column is the offset into line `t.line` of the text
   * `advance_append`, `advance_line`, `advance_col_le`
4. reconstruction
   * `scan_flat`, `lex_reconstruct`     the pieces concatenate to the input; `lexOne_tok_text`, `scan_wf`: the
                                        string carried by a token is its piece, white-space pieces are white space
   * `lex_lengths`                      token lengths add up to at most the text length
5. white-space invariance
   * `lexOne_ws_run`, `scan_ws_run`, `lexAux_ws_run`   a maximal white-space run is skipped as a whole and the
                                        scan continues as on the rest
   * `lexOne_local`                     a step ending at or before a white-space character does not look past it
   * `scan_ws_invariant`, `lex_ws_invariant`   changing a white-space run at which the scan arrives (keeping its
                                        first character; e.g. lengthening it) preserves the token kinds
   The first character must be kept: `"#a\n"` vs `"#a \n"` differ (trailing blanks belong to the comment token).
-/
namespace Pydjinni.Front

/-! ### auxiliary facts on `spanLen`, `idLen`, `nsidLen` -/

theorem nsidLen_succ_dot (fuel : Nat) (r : List Char) :
    nsidLen (fuel+1) ('.' :: r) =
      if idLen r == 0 then 0 else 1 + idLen r + nsidLen fuel (r.drop (idLen r)) := by
  simp [nsidLen]

theorem nsidLen_succ_nodot (fuel : Nat) (cs : List Char) (h : cs.head? ≠ some '.') :
    nsidLen (fuel+1) cs =
      if idLen cs == 0 then 0 else 0 + idLen cs + nsidLen fuel (cs.drop (idLen cs)) := by
  cases cs with
  | nil => simp [nsidLen]
  | cons c r =>
    have hc : c ≠ '.' := by intro hc; simp [hc] at h
    rw [nsidLen]
    intro r' h'; simp at h'; exact hc h'.1

theorem nsidLen_le (fuel : Nat) (cs : List Char) : nsidLen fuel cs ≤ cs.length := by
  induction fuel generalizing cs with
  | zero => simp [nsidLen]
  | succ fuel ih =>
    by_cases h : cs.head? = some '.'
    · obtain ⟨r, rfl⟩ : ∃ r, cs = '.' :: r := by
        cases cs with
        | nil => simp at h
        | cons c r => simp at h; exact ⟨r, by rw [h]⟩
      rw [nsidLen_succ_dot]
      split
      · omega
      · have h1 := idLen_le r
        have h2 := ih (r.drop (idLen r))
        simp only [List.length_drop, List.length_cons] at h2 ⊢
        omega
    · rw [nsidLen_succ_nodot _ _ h]
      split
      · omega
      · have h1 := idLen_le cs
        have h2 := ih (cs.drop (idLen cs))
        simp only [List.length_drop] at h2
        omega


/-! ### 1. progress -/

/-- the step consumes between 1 and `len` characters (or fails) -/
def LexOut.Within (len : Nat) : LexOut → Prop
  | .tok _ n => 0 < n ∧ n ≤ len
  | .skip n => 0 < n ∧ n ≤ len
  | .err => True

theorem isPrefixOf_length_le {l cs : List Char} (h : l.isPrefixOf cs = true) : l.length ≤ cs.length :=
  (List.isPrefixOf_iff_prefix.mp h).length_le

/-- `lexOne` on a non-empty input, with the local definitions unfolded -/
theorem lexOne_cons (c : Char) (rest : List Char) :
    lexOne (c :: rest) =
      if isWs c then .skip (spanLen isWs (c :: rest))
      else if c == '#' then
        .tok (.comment (String.ofList ((c :: rest).take (spanLen (fun x => x != '\r' && x != '\n') rest + 1))))
          (spanLen (fun x => x != '\r' && x != '\n') rest + 1)
      else if c == '"' then
        if spanLen (fun x => x != '"') rest < rest.length then
          .tok (.filepath (String.ofList ((c :: rest).take (spanLen (fun x => x != '"') rest + 2))))
            (spanLen (fun x => x != '"') rest + 2)
        else .err
      else if c == '+' || c == '-' then
        if spanLen isLower rest > 0 then
          .tok (.target (String.ofList ((c :: rest).take (spanLen isLower rest + 1)))) (spanLen isLower rest + 1)
        else if c == '-' && rest.head? == some '>' then .tok (.kw "->") 2
        else .err
      else if c == '@' then
        if startsWith "@import".toList (c :: rest) then .tok (.kw "@import") 7
        else if startsWith "@extern".toList (c :: rest) then .tok (.kw "@extern") 7
        else .err
      else if isLetter c || c == '.' then
        if nsidLen (c :: rest).length (c :: rest) > idLen (c :: rest) then
          .tok (.nsid (String.ofList ((c :: rest).take (nsidLen (c :: rest).length (c :: rest)))))
            (nsidLen (c :: rest).length (c :: rest))
        else if idLen (c :: rest) > 0 then
          if literals.contains (String.ofList ((c :: rest).take (idLen (c :: rest)))) then
            .tok (.kw (String.ofList ((c :: rest).take (idLen (c :: rest))))) (idLen (c :: rest))
          else .tok (.id (String.ofList ((c :: rest).take (idLen (c :: rest))))) (idLen (c :: rest))
        else .tok (.kw ".") 1
      else
        if literals.contains (String.singleton c) then .tok (.kw (String.singleton c)) 1 else .err := by
  rfl

theorem lexOne_within (cs : List Char) : (lexOne cs).Within cs.length := by
  cases cs with
  | nil => trivial
  | cons c rest =>
    rw [lexOne_cons]
    split
    · rename_i hws
      have := spanLen_le isWs rest
      simp only [spanLen, hws, if_true, LexOut.Within, List.length_cons]
      omega
    split
    · have := spanLen_le (fun x => x != '\r' && x != '\n') rest
      simp only [LexOut.Within, List.length_cons]
      omega
    split
    · split
      · simp only [LexOut.Within, List.length_cons]; omega
      · trivial
    split
    · have := spanLen_le isLower rest
      split
      · simp only [LexOut.Within, List.length_cons]; omega
      · split
        · rename_i h
          have : 0 < rest.length := by
            cases rest with
            | nil => simp at h
            | cons => simp
          simp only [LexOut.Within, List.length_cons]; omega
        · trivial
    split
    · split
      · rename_i h
        have := isPrefixOf_length_le h
        have h7 : "@import".toList.length = 7 := by decide
        simp only [LexOut.Within]; omega
      · split
        · rename_i h
          have := isPrefixOf_length_le h
          have h7 : "@extern".toList.length = 7 := by decide
          simp only [LexOut.Within]; omega
        · trivial
    split
    · have h1 := nsidLen_le (c :: rest).length (c :: rest)
      have h2 := idLen_le (c :: rest)
      split
      · simp only [LexOut.Within]; omega
      · split
        · split <;> (simp only [LexOut.Within]; omega)
        · simp [LexOut.Within]
    · split
      · simp [LexOut.Within]
      · trivial

/-- **Progress (token)**: a token consumes at least one and at most all remaining characters. -/
theorem lexOne_tok_bounds {cs : List Char} {t : Tk} {n : Nat} (h : lexOne cs = .tok t n) :
    0 < n ∧ n ≤ cs.length := by
  have := lexOne_within cs
  rw [h] at this
  exact this

/-- **Progress (white space)**: a skip consumes at least one and at most all remaining characters. -/
theorem lexOne_skip_bounds {cs : List Char} {n : Nat} (h : lexOne cs = .skip n) :
    0 < n ∧ n ≤ cs.length := by
  have := lexOne_within cs
  rw [h] at this
  exact this


/-! ### instrumented scan: the list of consumed pieces -/

/-- what one step consumed: a token with its text, or a run of white space -/
inductive Piece
  | tok (t : Tk) (text : List Char)
  | ws (text : List Char)
deriving DecidableEq, Repr

def Piece.chars : Piece → List Char
  | .tok _ w => w
  | .ws w => w

/-- all characters of a list of pieces, in order -/
def flat (ps : List Piece) : List Char := (ps.map Piece.chars).flatten

/-- the token kinds of a list of pieces -/
def kindsOf : List Piece → List Tk
  | [] => []
  | .tok t _ :: ps => t :: kindsOf ps
  | .ws _ :: ps => kindsOf ps

/-- `lexAux` without positions, recording every consumed piece (tokens *and* white space) -/
def lexPieces : Nat → List Char → Option (List Piece)
  | 0, _ => none
  | fuel+1, cs =>
    if cs.isEmpty then some []
    else match lexOne cs with
      | .err => none
      | .skip n => (lexPieces fuel (cs.drop n)).map (Piece.ws (cs.take n) :: ·)
      | .tok t n => (lexPieces fuel (cs.drop n)).map (Piece.tok t (cs.take n) :: ·)

/-- positions of the tokens among the pieces, starting at `(line, col)` -/
def tokensOf (line col : Nat) : List Piece → List Token
  | [] => []
  | .ws w :: ps => tokensOf (advance line col w).1 (advance line col w).2 ps
  | .tok t w :: ps =>
    { tk := t, line := line, col := col, len := w.length,
      endLine := (advance line col w).1, endCol := (advance line col w).2 } ::
      tokensOf (advance line col w).1 (advance line col w).2 ps

/-- `lexAux` is `lexPieces` followed by the position computation. -/
theorem lexAux_eq_pieces (fuel : Nat) (cs : List Char) (line col : Nat) (acc : List Token) :
    lexAux fuel cs line col acc =
      (lexPieces fuel cs).map (fun ps => acc.reverse ++ tokensOf line col ps) := by
  induction fuel generalizing cs line col acc with
  | zero => rfl
  | succ fuel ih =>
    rw [lexAux, lexPieces]
    split
    · simp [tokensOf]
    · cases h : lexOne cs with
      | err => simp
      | skip n =>
        simp only []
        rw [ih]
        simp [Option.map_map, tokensOf, Function.comp_def]
      | tok t n =>
        simp only []
        rw [ih]
        have hn := (lexOne_tok_bounds h).2
        simp [Option.map_map, tokensOf, Function.comp_def, List.length_take, Nat.min_eq_left hn]


/-! ### 2. fuel sufficiency -/

/-- Any two fuels above the input length give the same run. -/
theorem lexPieces_fuel (f1 f2 : Nat) (cs : List Char) (h1 : cs.length < f1) (h2 : cs.length < f2) :
    lexPieces f1 cs = lexPieces f2 cs := by
  induction f1 generalizing cs f2 with
  | zero => omega
  | succ f1 ih =>
    cases f2 with
    | zero => omega
    | succ f2 =>
      rw [lexPieces, lexPieces]
      split
      · rfl
      · rename_i hne
        cases h : lexOne cs with
        | err => rfl
        | skip n =>
          have hb := lexOne_skip_bounds h
          simp only []
          rw [ih f2 (cs.drop n) (by simp only [List.length_drop]; omega) (by simp only [List.length_drop]; omega)]
        | tok t n =>
          have hb := lexOne_tok_bounds h
          simp only []
          rw [ih f2 (cs.drop n) (by simp only [List.length_drop]; omega) (by simp only [List.length_drop]; omega)]

/-- the fuel-free scan (fuel = length + 1, as in `lex`) -/
def scan (cs : List Char) : Option (List Piece) := lexPieces (cs.length + 1) cs

theorem lexPieces_eq_scan {fuel : Nat} {cs : List Char} (h : cs.length < fuel) : lexPieces fuel cs = scan cs :=
  lexPieces_fuel _ _ cs h (Nat.lt_succ_self _)

theorem scan_nil : scan [] = some [] := rfl

/-- The defining recursion of the scan, without fuel. -/
theorem scan_cons {cs : List Char} (hne : cs ≠ []) :
    scan cs = match lexOne cs with
      | .err => none
      | .skip n => (scan (cs.drop n)).map (Piece.ws (cs.take n) :: ·)
      | .tok t n => (scan (cs.drop n)).map (Piece.tok t (cs.take n) :: ·) := by
  have he : cs.isEmpty = false := by cases cs <;> simp_all
  rw [scan, lexPieces, he]
  simp only [Bool.false_eq_true, if_false]
  cases h : lexOne cs with
  | err => rfl
  | skip n =>
    have hb := lexOne_skip_bounds h
    simp only []
    rw [lexPieces_eq_scan (by simp only [List.length_drop]; omega)]
  | tok t n =>
    have hb := lexOne_tok_bounds h
    simp only []
    rw [lexPieces_eq_scan (by simp only [List.length_drop]; omega)]

/-- **Fuel independence of `lexAux`**: with more fuel than characters, the result does not depend on the fuel. -/
theorem lexAux_fuel (f1 f2 : Nat) (cs : List Char) (line col : Nat) (acc : List Token)
    (h1 : cs.length < f1) (h2 : cs.length < f2) :
    lexAux f1 cs line col acc = lexAux f2 cs line col acc := by
  rw [lexAux_eq_pieces, lexAux_eq_pieces, lexPieces_fuel f1 f2 cs h1 h2]

/-- remainder of the input after one successful step -/
def lexRest (cs : List Char) : Option (List Char) :=
  match lexOne cs with
  | .tok _ n => some (cs.drop n)
  | .skip n => some (cs.drop n)
  | .err => none

/-- `Reach cs cs'`: the scan started on `cs` arrives (after zero or more successful steps) at the suffix `cs'` -/
inductive Reach : List Char → List Char → Prop
  | refl (cs : List Char) : Reach cs cs
  | step {cs cs' cs'' : List Char} : cs ≠ [] → lexRest cs = some cs' → Reach cs' cs'' → Reach cs cs''

theorem lexRest_suffix {cs cs' : List Char} (h : lexRest cs = some cs') : cs' <:+ cs := by
  unfold lexRest at h
  split at h
  · cases h; exact List.drop_suffix _ _
  · cases h; exact List.drop_suffix _ _
  · cases h

theorem Reach.suffix {cs cs' : List Char} (h : Reach cs cs') : cs' <:+ cs := by
  induction h with
  | refl => exact List.suffix_refl _
  | step _ h1 _ ih => exact ih.trans (lexRest_suffix h1)

/-- **Characterisation of failure**: the fuel-free scan fails iff it reaches a non-empty suffix on which
    `lexOne` reports an error. In particular it never fails for lack of fuel. -/
theorem scan_none_iff (cs : List Char) :
    scan cs = none ↔ ∃ cs', Reach cs cs' ∧ cs' ≠ [] ∧ lexOne cs' = .err := by
  generalize hlen : cs.length = len
  induction len using Nat.strongRecOn generalizing cs with
  | _ len ih =>
    by_cases hne : cs = []
    · subst hne
      simp only [scan_nil]
      refine ⟨fun h => (by cases h), ?_⟩
      rintro ⟨cs', hr, hne', _⟩
      have := hr.suffix
      simp at this
      exact absurd this hne'
    · rw [scan_cons hne]
      cases h : lexOne cs with
      | err => simp only [true_iff]; exact ⟨cs, Reach.refl cs, hne, h⟩
      | skip n =>
        have hb := lexOne_skip_bounds h
        simp only [Option.map_eq_none_iff]
        rw [ih (cs.drop n).length (by simp only [List.length_drop]; omega) (cs.drop n) rfl]
        constructor
        · rintro ⟨cs', hr, hne', he⟩
          exact ⟨cs', Reach.step hne (by simp [lexRest, h]) hr, hne', he⟩
        · rintro ⟨cs', hr, hne', he⟩
          cases hr with
          | refl => rw [h] at he; cases he
          | step _ h1 h2 =>
            simp only [lexRest, h, Option.some.injEq] at h1
            subst h1
            exact ⟨cs', h2, hne', he⟩
      | tok t n =>
        have hb := lexOne_tok_bounds h
        simp only [Option.map_eq_none_iff]
        rw [ih (cs.drop n).length (by simp only [List.length_drop]; omega) (cs.drop n) rfl]
        constructor
        · rintro ⟨cs', hr, hne', he⟩
          exact ⟨cs', Reach.step hne (by simp [lexRest, h]) hr, hne', he⟩
        · rintro ⟨cs', hr, hne', he⟩
          cases hr with
          | refl => rw [h] at he; cases he
          | step _ h1 h2 =>
            simp only [lexRest, h, Option.some.injEq] at h1
            subst h1
            exact ⟨cs', h2, hne', he⟩

/-- **Fuel sufficiency**: with more fuel than characters, `lexAux` fails iff the scan reaches a non-empty
    suffix of the input on which `lexOne` reports an error — never because the fuel ran out. -/
theorem lexAux_none_iff {fuel : Nat} {cs : List Char} (line col : Nat) (acc : List Token)
    (hf : cs.length < fuel) :
    lexAux fuel cs line col acc = none ↔ ∃ cs', Reach cs cs' ∧ cs' ≠ [] ∧ lexOne cs' = .err := by
  rw [lexAux_eq_pieces, Option.map_eq_none_iff, lexPieces_eq_scan hf, scan_none_iff]

/-- the direction asked for: a failing run with enough fuel exhibits a suffix of the input where `lexOne` errs -/
theorem lexAux_none_suffix_err {fuel : Nat} {cs : List Char} {line col : Nat} {acc : List Token}
    (hf : cs.length < fuel) (h : lexAux fuel cs line col acc = none) :
    ∃ cs', cs' <:+ cs ∧ cs' ≠ [] ∧ lexOne cs' = .err := by
  obtain ⟨cs', hr, hne, he⟩ := (lexAux_none_iff line col acc hf).mp h
  exact ⟨cs', hr.suffix, hne, he⟩

/-- **Termination of the real loop**: if `lexOne` errs on no non-empty suffix, the run with fuel
    `length + 1` produces a token list. -/
theorem lexAux_ne_none {cs : List Char} (line col : Nat) (acc : List Token)
    (h : ∀ cs', cs' <:+ cs → cs' ≠ [] → lexOne cs' ≠ .err) :
    lexAux (cs.length + 1) cs line col acc ≠ none := by
  intro hn
  obtain ⟨cs', hs, hne, he⟩ := lexAux_none_suffix_err (Nat.lt_succ_self _) hn
  exact h cs' hs hne he

theorem lex_eq_scan (s : String) : lex s = (scan s.toList).map (tokensOf 1 0) := by
  rw [lex, lexAux_eq_pieces, lexPieces_eq_scan (by rw [String.length_toList]; omega)]
  simp

/-- **`lex` fails exactly on token-recognition errors.** -/
theorem lex_none_iff (s : String) :
    lex s = none ↔ ∃ cs', Reach s.toList cs' ∧ cs' ≠ [] ∧ lexOne cs' = .err := by
  rw [lex_eq_scan, Option.map_eq_none_iff, scan_none_iff]


/-- a successful run with any fuel is the fuel-free scan -/
theorem lexPieces_some {fuel : Nat} {cs : List Char} {ps : List Piece} (h : lexPieces fuel cs = some ps) :
    scan cs = some ps := by
  induction fuel generalizing cs ps with
  | zero => cases h
  | succ fuel ih =>
    rw [lexPieces] at h
    split at h
    · rename_i he
      cases h
      have : cs = [] := by simpa using he
      subst this; rfl
    · rename_i he
      have hne : cs ≠ [] := by intro h0; subst h0; simp at he
      rw [scan_cons hne]
      cases hl : lexOne cs with
      | err => rw [hl] at h; cases h
      | skip n =>
        rw [hl] at h
        simp only [Option.map_eq_some_iff] at h ⊢
        obtain ⟨ps', h1, h2⟩ := h
        exact ⟨ps', ih h1, h2⟩
      | tok t n =>
        rw [hl] at h
        simp only [Option.map_eq_some_iff] at h ⊢
        obtain ⟨ps', h1, h2⟩ := h
        exact ⟨ps', ih h1, h2⟩

/-- induction principle for successful scans -/
theorem scan_induct {motive : List Char → List Piece → Prop}
    (nil : motive [] [])
    (skip : ∀ cs n ps, cs ≠ [] → lexOne cs = .skip n → scan (cs.drop n) = some ps →
      motive (cs.drop n) ps → motive cs (Piece.ws (cs.take n) :: ps))
    (tok : ∀ cs t n ps, cs ≠ [] → lexOne cs = .tok t n → scan (cs.drop n) = some ps →
      motive (cs.drop n) ps → motive cs (Piece.tok t (cs.take n) :: ps))
    (cs : List Char) (ps : List Piece) (h : scan cs = some ps) : motive cs ps := by
  generalize hlen : cs.length = len
  induction len using Nat.strongRecOn generalizing cs ps with
  | _ len ih =>
    by_cases hne : cs = []
    · subst hne
      rw [scan_nil] at h
      cases h
      exact nil
    · rw [scan_cons hne] at h
      cases hl : lexOne cs with
      | err => rw [hl] at h; cases h
      | skip n =>
        have hb := lexOne_skip_bounds hl
        rw [hl] at h
        simp only [Option.map_eq_some_iff] at h
        obtain ⟨ps', h1, h2⟩ := h
        subst h2
        exact skip cs n ps' hne hl h1
          (ih _ (by simp only [List.length_drop]; omega) (cs.drop n) ps' h1 rfl)
      | tok t n =>
        have hb := lexOne_tok_bounds hl
        rw [hl] at h
        simp only [Option.map_eq_some_iff] at h
        obtain ⟨ps', h1, h2⟩ := h
        subst h2
        exact tok cs t n ps' hne hl h1
          (ih _ (by simp only [List.length_drop]; omega) (cs.drop n) ps' h1 rfl)

/-! ### 4. reconstruction: the pieces concatenate to the input -/

theorem flat_cons (p : Piece) (ps : List Piece) : flat (p :: ps) = p.chars ++ flat ps := by
  simp [flat]

theorem flat_append (ps qs : List Piece) : flat (ps ++ qs) = flat ps ++ flat qs := by
  simp [flat]

/-- **Reconstruction**: the consumed pieces (token texts and white-space runs), concatenated in order,
    are exactly the input: the lexer neither drops nor invents nor reorders characters. -/
theorem scan_flat {cs : List Char} {ps : List Piece} (h : scan cs = some ps) : flat ps = cs := by
  refine scan_induct (motive := fun cs ps => flat ps = cs) rfl ?_ ?_ cs ps h
  · intro cs n ps _ _ _ ih
    rw [flat_cons, ih]
    exact List.take_append_drop n cs
  · intro cs t n ps _ _ _ ih
    rw [flat_cons, ih]
    exact List.take_append_drop n cs

/-- the source text of a token kind -/
def Tk.text : Tk → String
  | .kw s => s
  | .filepath s => s
  | .target s => s
  | .comment s => s
  | .id s => s
  | .nsid s => s

theorem take_of_isPrefixOf {l cs : List Char} (h : l.isPrefixOf cs = true) : cs.take l.length = l := by
  obtain ⟨r, rfl⟩ := List.isPrefixOf_iff_prefix.mp h
  simp

theorem idLen_pos_iff (c : Char) (rest : List Char) : 0 < idLen (c :: rest) ↔ isLetter c = true := by
  simp only [idLen]
  split
  · simp_all; omega
  · simp_all

/-- **Token text**: the string carried by a token is exactly the consumed characters. -/
theorem lexOne_tok_text {cs : List Char} {t : Tk} {n : Nat} (h : lexOne cs = .tok t n) :
    t.text.toList = cs.take n := by
  cases cs with
  | nil => cases h
  | cons c rest =>
    rw [lexOne_cons] at h
    split at h
    · cases h
    split at h
    · cases h; simp [Tk.text]
    split at h
    · split at h
      · cases h; simp [Tk.text]
      · cases h
    split at h
    · split at h
      · cases h; simp [Tk.text]
      · split at h
        · rename_i hc
          cases h
          simp only [Bool.and_eq_true, beq_iff_eq] at hc
          obtain ⟨hc1, hc2⟩ := hc
          subst hc1
          cases rest with
          | nil => simp at hc2
          | cons d r =>
            simp at hc2; subst hc2
            simp only [Tk.text, List.take_succ_cons, List.take_zero]
            decide
        · cases h
    split at h
    · split at h
      · rename_i hp
        cases h
        have := take_of_isPrefixOf hp
        have h7 : "@import".toList.length = 7 := by decide
        rw [h7] at this
        rw [this]; rfl
      · split at h
        · rename_i hp
          cases h
          have := take_of_isPrefixOf hp
          have h7 : "@extern".toList.length = 7 := by decide
          rw [h7] at this
          rw [this]; rfl
        · cases h
    split at h
    · rename_i hc
      split at h
      · cases h; simp [Tk.text]
      · split at h
        · split at h <;> (cases h; simp [Tk.text])
        · rename_i hi
          cases h
          have hl : ¬ isLetter c = true := fun hl => hi ((idLen_pos_iff c rest).mpr hl)
          have hd : c = '.' := by simpa [hl] using hc
          subst hd
          simp only [Tk.text, List.take_succ_cons, List.take_zero]
          decide
    · split at h
      · cases h; simp [Tk.text, String.toList_singleton]
      · cases h

theorem spanLen_take_all (p : Char → Bool) (cs : List Char) : ∀ x ∈ cs.take (spanLen p cs), p x = true := by
  induction cs with
  | nil => simp [spanLen]
  | cons c cs ih =>
    simp only [spanLen]
    split
    · rename_i hc
      intro x hx
      simp only [List.take_succ_cons, List.mem_cons] at hx
      rcases hx with rfl | hx
      · exact hc
      · exact ih x hx
    · simp

/-- a skipped run consists of white space only -/
theorem lexOne_skip_ws {cs : List Char} {n : Nat} (h : lexOne cs = .skip n) : ∀ x ∈ cs.take n, isWs x = true := by
  cases cs with
  | nil => cases h
  | cons c rest =>
    rw [lexOne_cons] at h
    split at h
    · cases h; exact spanLen_take_all isWs (c :: rest)
    all_goals (repeat' split at h) <;> cases h

/-- well-formed piece: non-empty; a token's text is its characters; a white-space run is white space -/
def Piece.WF : Piece → Prop
  | .tok t w => w ≠ [] ∧ t.text.toList = w
  | .ws w => w ≠ [] ∧ ∀ x ∈ w, isWs x = true

theorem take_ne_nil {cs : List Char} {n : Nat} (h0 : 0 < n) (hne : cs ≠ []) : cs.take n ≠ [] := by
  cases cs with
  | nil => exact absurd rfl hne
  | cons c r => cases n with
    | zero => omega
    | succ n => simp

theorem scan_wf {cs : List Char} {ps : List Piece} (h : scan cs = some ps) : ∀ p ∈ ps, p.WF := by
  refine scan_induct (motive := fun _ ps => ∀ p ∈ ps, p.WF) (by simp) ?_ ?_ cs ps h
  · intro cs n ps hne hl _ ih p hp
    rcases List.mem_cons.mp hp with rfl | hp
    · exact ⟨take_ne_nil (lexOne_skip_bounds hl).1 hne, lexOne_skip_ws hl⟩
    · exact ih p hp
  · intro cs t n ps hne hl _ ih p hp
    rcases List.mem_cons.mp hp with rfl | hp
    · exact ⟨take_ne_nil (lexOne_tok_bounds hl).1 hne, lexOne_tok_text hl⟩
    · exact ih p hp

theorem tokensOf_kinds (line col : Nat) (ps : List Piece) :
    (tokensOf line col ps).map (·.tk) = kindsOf ps := by
  induction ps generalizing line col with
  | nil => rfl
  | cons p ps ih =>
    cases p with
    | tok t w => simp [tokensOf, kindsOf, ih]
    | ws w => simp [tokensOf, kindsOf, ih]


/-! ### 3. token positions exist in the text -/

theorem advance_append (line col : Nat) (a b : List Char) :
    advance line col (a ++ b) = advance (advance line col a).1 (advance line col a).2 b := by
  induction a generalizing line col with
  | nil => rfl
  | cons x a ih =>
    simp only [List.cons_append, advance]
    split <;> exact ih _ _

/-- the line after `xs` = start line + number of newlines in `xs` -/
theorem advance_line (line col : Nat) (xs : List Char) :
    (advance line col xs).1 = line + xs.count '\n' := by
  induction xs generalizing line col with
  | nil => simp [advance]
  | cons x xs ih =>
    simp only [advance]
    split
    · rename_i hx
      have : x = '\n' := by simpa using hx
      subst this
      rw [ih]; simp; omega
    · rename_i hx
      have : x ≠ '\n' := by simpa using hx
      rw [ih, List.count_cons_of_ne this]

theorem advance_col_le (line col : Nat) (xs : List Char) :
    (advance line col xs).2 ≤ col + xs.length := by
  induction xs generalizing line col with
  | nil => simp [advance]
  | cons x xs ih =>
    simp only [advance]
    split
    · have := ih (line+1) 0; simp only [List.length_cons]; omega
    · have := ih line (col+1); simp only [List.length_cons]; omega

/-- The column is the offset into the current line: `xs` splits into complete lines `a` (empty, or ending in
    a newline) and a newline-free rest `b`; the line number counts the newlines of `a`, the column is the
    length of `b` (plus the start column if no newline has been seen). -/
theorem advance_split (line col : Nat) (xs : List Char) :
    ∃ a b, xs = a ++ b ∧ '\n' ∉ b ∧ (advance line col xs).1 = line + a.count '\n' ∧
      ((a = [] ∧ (advance line col xs).2 = col + b.length) ∨
       (a.getLast? = some '\n' ∧ (advance line col xs).2 = b.length)) := by
  induction xs generalizing line col with
  | nil => exact ⟨[], [], rfl, by simp, by simp [advance], Or.inl ⟨rfl, by simp [advance]⟩⟩
  | cons x xs ih =>
    simp only [advance]
    split
    · rename_i hx
      have hx' : x = '\n' := by simpa using hx
      subst hx'
      obtain ⟨a, b, hab, hb, hl, hc⟩ := ih (line+1) 0
      refine ⟨'\n' :: a, b, by rw [hab]; rfl, hb, by rw [hl]; simp; omega, Or.inr ?_⟩
      rcases hc with ⟨ha, hc⟩ | ⟨ha, hc⟩
      · subst ha; exact ⟨rfl, by omega⟩
      · refine ⟨?_, hc⟩
        cases a with
        | nil => simp at ha
        | cons y a => rw [List.getLast?_cons_cons]; exact ha
    · rename_i hx
      have hx' : x ≠ '\n' := by simpa using hx
      obtain ⟨a, b, hab, hb, hl, hc⟩ := ih line (col+1)
      rcases hc with ⟨ha, hc⟩ | ⟨ha, hc⟩
      · subst ha
        refine ⟨[], x :: b, by rw [hab]; rfl, ?_, by simpa using hl, Or.inl ⟨rfl, by rw [hc]; simp; omega⟩⟩
        simp only [List.mem_cons, not_or]
        exact ⟨Ne.symm hx', hb⟩
      · refine ⟨x :: a, b, by rw [hab]; rfl, hb, ?_, Or.inr ⟨?_, hc⟩⟩
        · rw [hl, List.count_cons_of_ne hx']
        · cases a with
          | nil => simp at ha
          | cons y a => rw [List.getLast?_cons_cons]; exact ha

/-- where a token of `tokensOf` sits among the pieces -/
theorem tokensOf_mem {line col : Nat} {ps : List Piece} {t : Token} (h : t ∈ tokensOf line col ps) :
    ∃ ps1 w ps2, ps = ps1 ++ Piece.tok t.tk w :: ps2 ∧ t.len = w.length ∧
      (t.line, t.col) = advance line col (flat ps1) ∧
      (t.endLine, t.endCol) = advance line col (flat ps1 ++ w) := by
  induction ps generalizing line col with
  | nil => simp [tokensOf] at h
  | cons p ps ih =>
    cases p with
    | ws w0 =>
      simp only [tokensOf] at h
      obtain ⟨ps1, w, ps2, h1, h2, h3, h4⟩ := ih h
      refine ⟨Piece.ws w0 :: ps1, w, ps2, by rw [h1]; rfl, h2, ?_, ?_⟩
      · rw [flat_cons, Piece.chars, advance_append]; exact h3
      · rw [flat_cons, Piece.chars, List.append_assoc, advance_append]; exact h4
    | tok t0 w0 =>
      simp only [tokensOf, List.mem_cons] at h
      rcases h with rfl | h
      · exact ⟨[], w0, ps, rfl, rfl, rfl, rfl⟩
      · obtain ⟨ps1, w, ps2, h1, h2, h3, h4⟩ := ih h
        refine ⟨Piece.tok t0 w0 :: ps1, w, ps2, by rw [h1]; rfl, h2, ?_, ?_⟩
        · rw [flat_cons, Piece.chars, advance_append]; exact h3
        · rw [flat_cons, Piece.chars, List.append_assoc, advance_append]; exact h4

/-- **Token positions exist in the text** (general form, any fuel, any start position).
    Every token produced by `lexAux` (started with an empty accumulator) corresponds to a split
    `cs = pre ++ w ++ post` of the input where `w` is the non-empty token text, `t.len` its length, the start
    position is `advance` over `pre` and the end position is `advance` over `pre ++ w`. -/
theorem lexAux_token_position {fuel : Nat} {cs : List Char} {line col : Nat} {toks : List Token}
    (h : lexAux fuel cs line col [] = some toks) {t : Token} (ht : t ∈ toks) :
    ∃ pre w post, cs = pre ++ w ++ post ∧ w ≠ [] ∧ t.tk.text.toList = w ∧ t.len = w.length ∧
      (t.line, t.col) = advance line col pre ∧
      (t.endLine, t.endCol) = advance line col (pre ++ w) := by
  rw [lexAux_eq_pieces, Option.map_eq_some_iff] at h
  obtain ⟨ps, hps, rfl⟩ := h
  simp only [List.reverse_nil, List.nil_append] at ht
  have hs := lexPieces_some hps
  obtain ⟨ps1, w, ps2, h1, h2, h3, h4⟩ := tokensOf_mem ht
  have hwf := scan_wf hs (Piece.tok t.tk w) (by rw [h1]; simp)
  refine ⟨flat ps1, w, flat ps2, ?_, hwf.1, hwf.2, h2, h3, h4⟩
  rw [← scan_flat hs, h1, flat_append, flat_cons, Piece.chars, List.append_assoc]

/-- **Token positions exist in the text** (for `lex`): positions are those of `advance` from line 1, column 0. -/
theorem lex_token_position {s : String} {toks : List Token} (h : lex s = some toks) {t : Token} (ht : t ∈ toks) :
    ∃ pre w post, s.toList = pre ++ w ++ post ∧ w ≠ [] ∧ t.tk.text.toList = w ∧ t.len = w.length ∧
      (t.line, t.col) = advance 1 0 pre ∧
      (t.endLine, t.endCol) = advance 1 0 (pre ++ w) :=
  lexAux_token_position h ht

/-- **Every reported line/column exists in the file**: lines are between 1 and 1 + (number of newlines),
    columns and lengths are bounded by the text length; the end position is not before the start line. -/
theorem lex_token_bounds {s : String} {toks : List Token} (h : lex s = some toks) {t : Token} (ht : t ∈ toks) :
    1 ≤ t.line ∧ t.line ≤ t.endLine ∧ t.endLine ≤ 1 + s.toList.count '\n' ∧
      t.col ≤ s.length ∧ t.endCol ≤ s.length ∧ 0 < t.len ∧ t.len ≤ s.length := by
  obtain ⟨pre, w, post, hs, hne, _, hlen, hstart, hend⟩ := lex_token_position h ht
  have h1 : t.line = 1 + pre.count '\n' := by
    have := congrArg Prod.fst hstart; simp only [advance_line] at this; exact this
  have h2 : t.endLine = 1 + (pre ++ w).count '\n' := by
    have := congrArg Prod.fst hend; simp only [advance_line] at this; exact this
  have h3 : t.col ≤ 0 + pre.length := by
    have := congrArg Prod.snd hstart; simp only at this; rw [this]; exact advance_col_le _ _ _
  have h4 : t.endCol ≤ 0 + (pre ++ w).length := by
    have := congrArg Prod.snd hend; simp only at this; rw [this]; exact advance_col_le _ _ _
  have hl : s.length = pre.length + w.length + post.length := by
    rw [← String.length_toList, hs]; simp; omega
  have hc : s.toList.count '\n' = pre.count '\n' + w.count '\n' + post.count '\n' := by
    rw [hs]; simp; omega
  have hw : 0 < w.length := List.length_pos_iff.mpr hne
  simp only [List.count_append, List.length_append] at h2 h4
  omega

/-- The start column is an offset inside line `t.line` of the file: the text before the token is
    `t.line - 1` complete lines followed by exactly `t.col` newline-free characters. -/
theorem lex_token_column {s : String} {toks : List Token} (h : lex s = some toks) {t : Token} (ht : t ∈ toks) :
    ∃ lines cur w post, s.toList = lines ++ cur ++ w ++ post ∧
      (lines = [] ∨ lines.getLast? = some '\n') ∧ t.line = 1 + lines.count '\n' ∧
      '\n' ∉ cur ∧ t.col = cur.length ∧ t.tk.text.toList = w := by
  obtain ⟨pre, w, post, hs, _, htext, _, hstart, _⟩ := lex_token_position h ht
  obtain ⟨a, b, hab, hb, hl, hc⟩ := advance_split 1 0 pre
  have h1 : t.line = (advance 1 0 pre).1 := congrArg Prod.fst hstart
  have h2 : t.col = (advance 1 0 pre).2 := congrArg Prod.snd hstart
  refine ⟨a, b, w, post, by rw [hs, hab], ?_, by rw [h1, hl], hb, ?_, htext⟩
  · rcases hc with ⟨ha, _⟩ | ⟨ha, _⟩
    · exact Or.inl ha
    · exact Or.inr ha
  · rcases hc with ⟨_, hc⟩ | ⟨_, hc⟩
    · rw [h2, hc]; omega
    · rw [h2, hc]


/-- **Reconstruction for `lex`**: a successful `lex s` comes from a list of well-formed pieces whose
    concatenation is the text, whose tokens (with positions) are the result, and whose kinds are the kinds. -/
theorem lex_reconstruct {s : String} {toks : List Token} (h : lex s = some toks) :
    ∃ ps, scan s.toList = some ps ∧ flat ps = s.toList ∧ (∀ p ∈ ps, p.WF) ∧
      toks = tokensOf 1 0 ps ∧ toks.map (·.tk) = kindsOf ps := by
  rw [lex_eq_scan, Option.map_eq_some_iff] at h
  obtain ⟨ps, hps, rfl⟩ := h
  exact ⟨ps, hps, scan_flat hps, scan_wf hps, rfl, tokensOf_kinds 1 0 ps⟩

theorem tokensOf_len_sum (l c : Nat) (ps : List Piece) :
    ((tokensOf l c ps).map (·.len)).sum ≤ (flat ps).length := by
  induction ps generalizing l c with
  | nil => simp [tokensOf]
  | cons p ps ih =>
    cases p with
    | ws w =>
      simp only [tokensOf, flat_cons, Piece.chars, List.length_append]
      have := ih (advance l c w).1 (advance l c w).2; omega
    | tok t w =>
      simp only [tokensOf, flat_cons, Piece.chars, List.length_append, List.map_cons, List.sum_cons]
      have := ih (advance l c w).1 (advance l c w).2; omega

/-- the token lengths add up to at most the length of the text (tokens do not overlap) -/
theorem lex_lengths {s : String} {toks : List Token} (h : lex s = some toks) :
    (toks.map (·.len)).sum ≤ s.length := by
  obtain ⟨ps, _, hflat, _, rfl, _⟩ := lex_reconstruct h
  rw [← String.length_toList, ← hflat]
  exact tokensOf_len_sum 1 0 ps

/-! ### 5. white-space invariance -/

theorem isWs_cases {w : Char} (h : isWs w = true) : w = ' ' ∨ w = '\t' ∨ w = '\r' ∨ w = '\n' := by
  simpa [isWs, or_assoc] using h

theorem isWs_not_letterOrDigit {w : Char} (h : isWs w = true) : isLetterOrDigit w = false := by
  rcases isWs_cases h with rfl | rfl | rfl | rfl <;> decide

theorem isWs_not_letter {w : Char} (h : isWs w = true) : isLetter w = false := by
  rcases isWs_cases h with rfl | rfl | rfl | rfl <;> decide

theorem isWs_not_lower {w : Char} (h : isWs w = true) : isLower w = false := by
  rcases isWs_cases h with rfl | rfl | rfl | rfl <;> decide

theorem isWs_ne_dot {w : Char} (h : isWs w = true) : w ≠ '.' := by
  rcases isWs_cases h with rfl | rfl | rfl | rfl <;> decide

/-- a span that stops inside `a` does not look beyond the first character after `a` -/
theorem spanLen_local (p : Char → Bool) (a b b' : List Char)
    (hle : spanLen p (a ++ b) ≤ a.length) (hh : b.head? = b'.head?) :
    spanLen p (a ++ b') = spanLen p (a ++ b) := by
  induction a with
  | nil =>
    simp only [List.nil_append, List.length_nil, Nat.le_zero] at hle ⊢
    rw [hle]
    cases b with
    | nil =>
      cases b' with
      | nil => rfl
      | cons y b' => simp at hh
    | cons x b =>
      cases b' with
      | nil => simp at hh
      | cons y b' =>
        simp at hh; subst hh
        simp only [spanLen] at hle ⊢
        split
        · rename_i hx; simp [hx] at hle
        · rfl
  | cons x a ih =>
    simp only [List.cons_append, spanLen, List.length_cons] at hle ⊢
    split
    · rename_i hx
      simp only [hx, if_true] at hle
      rw [ih (by omega)]
    · rfl

/-- a span stops at a character that fails the predicate -/
theorem spanLen_append_stop (p : Char → Bool) (a : List Char) (w : Char) (r : List Char) (hw : p w = false) :
    spanLen p (a ++ w :: r) = spanLen p a := by
  induction a with
  | nil => simp [spanLen, hw]
  | cons x a ih =>
    simp only [List.cons_append, spanLen]
    split
    · rw [ih]
    · rfl

/-- a white-space run followed by a non-white-space character (or the end) is skipped as a whole -/
theorem spanLen_ws_run (ws cs : List Char) (hws : ∀ x ∈ ws, isWs x = true)
    (hcs : ∀ x, cs.head? = some x → isWs x = false) : spanLen isWs (ws ++ cs) = ws.length := by
  induction ws with
  | nil =>
    cases cs with
    | nil => rfl
    | cons x cs => simp [spanLen, hcs x rfl]
  | cons y ws ih =>
    simp only [List.cons_append, spanLen, hws y (by simp), if_true, List.length_cons]
    rw [ih (fun x hx => hws x (List.mem_cons_of_mem _ hx))]

/-- **White-space invariance, one step**: on `ws ++ cs` with `ws` a non-empty white-space run and `cs` not
    starting with white space, `lexOne` skips exactly `ws` … -/
theorem lexOne_ws_run {ws cs : List Char} (hne : ws ≠ []) (hws : ∀ x ∈ ws, isWs x = true)
    (hcs : ∀ x, cs.head? = some x → isWs x = false) : lexOne (ws ++ cs) = .skip ws.length := by
  cases ws with
  | nil => exact absurd rfl hne
  | cons w r =>
    rw [List.cons_append, lexOne_cons, hws w (by simp), if_pos rfl]
    rw [← List.cons_append, spanLen_ws_run (w :: r) cs hws hcs]

/-- … and the scan then continues exactly as on `cs`: the pieces of `ws ++ cs` are the run `ws` followed by
    the pieces of `cs`. -/
theorem scan_ws_run {ws cs : List Char} (hne : ws ≠ []) (hws : ∀ x ∈ ws, isWs x = true)
    (hcs : ∀ x, cs.head? = some x → isWs x = false) :
    scan (ws ++ cs) = (scan cs).map (Piece.ws ws :: ·) := by
  rw [scan_cons (by simp [hne]), lexOne_ws_run hne hws hcs]
  simp

/-- the same for `lexAux` (any sufficient fuel): leading white space only moves the start position -/
theorem lexAux_ws_run {ws cs : List Char} (hne : ws ≠ []) (hws : ∀ x ∈ ws, isWs x = true)
    (hcs : ∀ x, cs.head? = some x → isWs x = false) (line col : Nat) (acc : List Token) :
    lexAux ((ws ++ cs).length + 1) (ws ++ cs) line col acc =
      lexAux (cs.length + 1) cs (advance line col ws).1 (advance line col ws).2 acc := by
  rw [lexAux_eq_pieces, lexAux_eq_pieces, lexPieces_eq_scan (Nat.lt_succ_self _),
    lexPieces_eq_scan (Nat.lt_succ_self _), scan_ws_run hne hws hcs]
  simp [Option.map_map, Function.comp_def, tokensOf]


theorem idLen_append_ws (p : List Char) {w : Char} (r : List Char) (hw : isWs w = true) :
    idLen (p ++ w :: r) = idLen p := by
  cases p with
  | nil => simp [idLen, isWs_not_letter hw]
  | cons c p =>
    simp only [List.cons_append, idLen]
    rw [spanLen_append_stop _ _ _ _ (isWs_not_letterOrDigit hw)]

theorem nsidLen_nil (fuel : Nat) : nsidLen fuel [] = 0 := by
  cases fuel with
  | zero => rfl
  | succ f => rw [nsidLen_succ_nodot _ _ (by simp)]; simp [idLen]

theorem head?_eq_dot {p : List Char} (h : p.head? = some '.') : ∃ r, p = '.' :: r := by
  cases p with
  | nil => simp at h
  | cons c r => simp at h; exact ⟨r, by rw [h]⟩

theorem nsidLen_append_ws (fuel : Nat) (p : List Char) {w : Char} (r : List Char) (hw : isWs w = true) :
    nsidLen fuel (p ++ w :: r) = nsidLen fuel p := by
  induction fuel generalizing p with
  | zero => rfl
  | succ fuel ih =>
    by_cases h : p.head? = some '.'
    · obtain ⟨p1, rfl⟩ := head?_eq_dot h
      rw [List.cons_append, nsidLen_succ_dot, nsidLen_succ_dot, idLen_append_ws _ _ hw,
        List.drop_append_of_le_length (idLen_le p1), ih]
    · have h' : (p ++ w :: r).head? ≠ some '.' := by
        cases p with
        | nil => simp; exact isWs_ne_dot hw
        | cons c p => simpa using h
      rw [nsidLen_succ_nodot _ _ h, nsidLen_succ_nodot _ _ h', idLen_append_ws _ _ hw,
        List.drop_append_of_le_length (idLen_le p), ih]

/-- `nsidLen` does not depend on the fuel once the fuel covers the input -/
theorem nsidLen_fuel (f1 f2 : Nat) (p : List Char) (h1 : p.length ≤ f1) (h2 : p.length ≤ f2) :
    nsidLen f1 p = nsidLen f2 p := by
  induction f1 generalizing f2 p with
  | zero =>
    have : p = [] := List.eq_nil_of_length_eq_zero (by omega)
    subst this; rw [nsidLen_nil, nsidLen_nil]
  | succ f1 ih =>
    cases f2 with
    | zero =>
      have : p = [] := List.eq_nil_of_length_eq_zero (by omega)
      subst this; rw [nsidLen_nil, nsidLen_nil]
    | succ f2 =>
      by_cases h : p.head? = some '.'
      · obtain ⟨p1, rfl⟩ := head?_eq_dot h
        rw [nsidLen_succ_dot, nsidLen_succ_dot]
        simp only [List.length_cons] at h1 h2
        rw [ih f2 (p1.drop (idLen p1)) (by simp only [List.length_drop]; omega)
          (by simp only [List.length_drop]; omega)]
      · rw [nsidLen_succ_nodot _ _ h, nsidLen_succ_nodot _ _ h]
        split
        · rfl
        · rename_i hi
          have hi' : idLen p ≠ 0 := by simpa using hi
          have := idLen_le p
          rw [ih f2 (p.drop (idLen p)) (by simp only [List.length_drop]; omega)
            (by simp only [List.length_drop]; omega)]

theorem take_local {a : List Char} (b b' : List Char) {n : Nat} (h : n ≤ a.length) :
    (a ++ b').take n = (a ++ b).take n := by
  rw [List.take_append_of_le_length h, List.take_append_of_le_length h]

theorem isPrefixOf_local {l a : List Char} (b b' : List Char) (h : l.length ≤ a.length) :
    l.isPrefixOf (a ++ b') = l.isPrefixOf (a ++ b) := by
  have key : ∀ b, l.isPrefixOf (a ++ b) = l.isPrefixOf a := by
    intro b
    rw [Bool.eq_iff_iff, List.isPrefixOf_iff_prefix, List.isPrefixOf_iff_prefix]
    constructor
    · intro hp
      exact List.prefix_of_prefix_length_le hp (List.prefix_append a b) h
    · intro hp
      exact hp.trans (List.prefix_append a b)
  rw [key b, key b']

/-- characters consumed by a step (0 for an error) -/
def LexOut.consumed : LexOut → Nat
  | .tok _ n => n
  | .skip n => n
  | .err => 0


theorem head?_append_cons (p : List Char) (w : Char) (r r' : List Char) :
    (p ++ w :: r').head? = (p ++ w :: r).head? := by
  cases p <;> rfl

/-- **Locality of `lexOne`**: a successful step that ends at or before a white-space character `w` does not
    depend on what follows `w`. -/
theorem lexOne_local (p : List Char) {w : Char} (r r' : List Char) (hw : isWs w = true)
    (hne : lexOne (p ++ w :: r) ≠ .err) (hle : (lexOne (p ++ w :: r)).consumed ≤ p.length) :
    lexOne (p ++ w :: r') = lexOne (p ++ w :: r) := by
  cases p with
  | nil =>
    have := lexOne_within ([] ++ w :: r)
    cases h : lexOne ([] ++ w :: r) with
    | err => exact absurd h hne
    | skip n => rw [h] at this hle; simp only [LexOut.Within, LexOut.consumed, List.length_nil] at this hle; omega
    | tok t n => rw [h] at this hle; simp only [LexOut.Within, LexOut.consumed, List.length_nil] at this hle; omega
  | cons c p' =>
    simp only [List.cons_append, lexOne_cons] at hne hle ⊢
    have hlen : (c :: p').length ≤ (c :: (p' ++ w :: r)).length := by simp
    have hlen' : (c :: p').length ≤ (c :: (p' ++ w :: r')).length := by simp
    by_cases h1 : isWs c = true
    · simp only [h1, if_true, LexOut.consumed] at hle ⊢
      exact congrArg LexOut.skip (spanLen_local isWs (c :: p') (w :: r) (w :: r') hle rfl)
    simp only [h1, Bool.false_eq_true, if_false] at hne hle ⊢
    by_cases h2 : (c == '#') = true
    · simp only [h2, if_true, LexOut.consumed, List.length_cons] at hle ⊢
      rw [spanLen_local _ p' (w :: r) (w :: r') (by omega) rfl]
      rw [← List.cons_append, ← List.cons_append, take_local (a := c :: p') (w :: r) (w :: r')
        (by simp only [List.length_cons]; omega)]
    simp only [h2, Bool.false_eq_true, if_false] at hne hle ⊢
    by_cases h3 : (c == '"') = true
    · simp only [h3, if_true] at hne hle ⊢
      by_cases h3a : spanLen (fun x => x != '"') (p' ++ w :: r) < (p' ++ w :: r).length
      · simp only [h3a, if_true, LexOut.consumed, List.length_cons] at hle ⊢
        rw [spanLen_local _ p' (w :: r) (w :: r') (by omega) rfl]
        have : spanLen (fun x => x != '"') (p' ++ w :: r) < (p' ++ w :: r').length := by
          simp only [List.length_append, List.length_cons]; omega
        rw [if_pos this]
        rw [← List.cons_append, ← List.cons_append, take_local (a := c :: p') (w :: r) (w :: r')
          (by simp only [List.length_cons]; omega)]
      · rw [if_neg h3a] at hne; exact absurd rfl hne
    simp only [h3, Bool.false_eq_true, if_false] at hne hle ⊢
    by_cases h4 : (c == '+' || c == '-') = true
    · simp only [h4, if_true] at hne hle ⊢
      rw [spanLen_append_stop isLower p' w r (isWs_not_lower hw),
        spanLen_append_stop isLower p' w r' (isWs_not_lower hw), head?_append_cons p' w r r']
      have := spanLen_le isLower p'
      rw [← List.cons_append, ← List.cons_append, take_local (a := c :: p') (w :: r) (w :: r')
        (by simp only [List.length_cons]; omega)]
    simp only [h4, Bool.false_eq_true, if_false] at hne hle ⊢
    by_cases h5 : (c == '@') = true
    · simp only [h5, if_true] at hne hle ⊢
      have h7 : "@import".toList.length = 7 := by decide
      have h7' : "@extern".toList.length = 7 := by decide
      have hp : 7 ≤ (c :: p').length := by
        by_cases ha : startsWith "@import".toList (c :: (p' ++ w :: r)) = true
        · simpa only [ha, if_true, LexOut.consumed] using hle
        · simp only [ha, Bool.false_eq_true, if_false] at hne hle
          by_cases hb : startsWith "@extern".toList (c :: (p' ++ w :: r)) = true
          · simpa only [hb, if_true, LexOut.consumed] using hle
          · rw [if_neg hb] at hne; exact absurd rfl hne
      have e1 : startsWith "@import".toList (c :: (p' ++ w :: r')) =
          startsWith "@import".toList (c :: (p' ++ w :: r)) :=
        isPrefixOf_local (a := c :: p') (w :: r) (w :: r') (by rw [h7]; exact hp)
      have e2 : startsWith "@extern".toList (c :: (p' ++ w :: r')) =
          startsWith "@extern".toList (c :: (p' ++ w :: r)) :=
        isPrefixOf_local (a := c :: p') (w :: r) (w :: r') (by rw [h7']; exact hp)
      rw [e1, e2]
    simp only [h5, Bool.false_eq_true, if_false] at hne hle ⊢
    by_cases h6 : (isLetter c || c == '.') = true
    · simp only [h6, if_true]
      have e1 : ∀ r, idLen (c :: (p' ++ w :: r)) = idLen (c :: p') := fun r => idLen_append_ws (c :: p') r hw
      have e2 : ∀ r, nsidLen (c :: (p' ++ w :: r)).length (c :: (p' ++ w :: r)) =
          nsidLen (c :: p').length (c :: p') := by
        intro r
        rw [← List.cons_append, nsidLen_append_ws _ (c :: p') r hw]
        exact nsidLen_fuel _ _ _ (by simp) (Nat.le_refl _)
      have e3 : ∀ r n, n ≤ (c :: p').length → (c :: (p' ++ w :: r)).take n = (c :: p').take n := by
        intro r n hn
        rw [← List.cons_append, List.take_append_of_le_length hn]
      rw [e1 r, e1 r', e2 r, e2 r', e3 r _ (nsidLen_le _ _), e3 r' _ (nsidLen_le _ _),
        e3 r _ (idLen_le _), e3 r' _ (idLen_le _)]
    · simp only [h6, Bool.false_eq_true, if_false]


theorem map_kindsOf_tok (t : Tk) (w : List Char) (x : Option (List Piece)) :
    (x.map (Piece.tok t w :: ·)).map kindsOf = (x.map kindsOf).map (t :: ·) := by
  cases x <;> simp [kindsOf]

theorem map_kindsOf_ws (w : List Char) (x : Option (List Piece)) :
    (x.map (Piece.ws w :: ·)).map kindsOf = x.map kindsOf := by
  cases x <;> simp [kindsOf]

/-- **White-space invariance of the scan.** If the scan of `pre ++ w :: r ++ cs` arrives at the white-space
    run `w :: r` (maximal: `cs` does not start with white space), then replacing the run by any other
    white-space run `w :: r'` with the same first character — in particular lengthening it — does not change
    the sequence of token kinds (nor whether the scan succeeds). -/
theorem scan_ws_invariant {pre : List Char} {w : Char} {r r' cs : List Char}
    (hw : isWs w = true) (hr : ∀ x ∈ r, isWs x = true) (hr' : ∀ x ∈ r', isWs x = true)
    (hcs : ∀ x, cs.head? = some x → isWs x = false)
    (hreach : Reach (pre ++ w :: (r ++ cs)) (w :: (r ++ cs))) :
    (scan (pre ++ w :: (r' ++ cs))).map kindsOf = (scan (pre ++ w :: (r ++ cs))).map kindsOf := by
  generalize hS : w :: (r ++ cs) = S at hreach
  generalize hA : pre ++ S = A at hreach
  induction hreach generalizing pre with
  | refl A =>
    have : pre = [] := List.append_left_eq_self.mp hA
    subst this
    subst hS
    simp only [List.nil_append]
    have e1 := scan_ws_run (ws := w :: r) (cs := cs) (by simp)
      (by intro x hx; rcases List.mem_cons.mp hx with rfl | hx; exact hw; exact hr x hx) hcs
    have e2 := scan_ws_run (ws := w :: r') (cs := cs) (by simp)
      (by intro x hx; rcases List.mem_cons.mp hx with rfl | hx; exact hw; exact hr' x hx) hcs
    simp only [List.cons_append] at e1 e2
    rw [e1, e2, map_kindsOf_ws, map_kindsOf_ws]
  | @step A A' S' hne hrest hreach' ih =>
    subst hS
    subst hA
    have hsuf := hreach'.suffix.length_le
    have hne' : pre ++ w :: (r' ++ cs) ≠ [] := by simp
    have key : ∀ n, lexOne (pre ++ w :: (r ++ cs)) ≠ .err →
        (lexOne (pre ++ w :: (r ++ cs))).consumed = n → A' = List.drop n (pre ++ w :: (r ++ cs)) →
        n ≤ pre.length ∧ lexOne (pre ++ w :: (r' ++ cs)) = lexOne (pre ++ w :: (r ++ cs)) := by
      intro n hne hn hA'
      have hb := lexOne_within (pre ++ w :: (r ++ cs))
      have hn' : n ≤ pre.length := by
        subst hA'
        simp only [List.length_drop, List.length_append, List.length_cons] at hsuf
        cases hl : lexOne (pre ++ w :: (r ++ cs)) with
        | err => exact absurd hl hne
        | skip m =>
          rw [hl] at hb hn
          simp only [LexOut.Within, LexOut.consumed, List.length_append, List.length_cons] at hb hn
          omega
        | tok t m =>
          rw [hl] at hb hn
          simp only [LexOut.Within, LexOut.consumed, List.length_append, List.length_cons] at hb hn
          omega
      exact ⟨hn', lexOne_local pre (r ++ cs) (r' ++ cs) hw hne (by rw [hn]; exact hn')⟩
    rw [scan_cons hne, scan_cons hne']
    unfold lexRest at hrest
    cases hl : lexOne (pre ++ w :: (r ++ cs)) with
    | err => rw [hl] at hrest; cases hrest
    | skip n =>
      rw [hl] at hrest
      simp only [Option.some.injEq] at hrest
      obtain ⟨hn, hloc⟩ := key n (by rw [hl]; intro h; cases h) (by rw [hl]; rfl) hrest.symm
      rw [hloc, hl]
      simp only []
      rw [map_kindsOf_ws, map_kindsOf_ws, List.drop_append_of_le_length hn,
        ih rfl (by rw [← hrest, List.drop_append_of_le_length hn]), ← hrest,
        List.drop_append_of_le_length hn]
    | tok t n =>
      rw [hl] at hrest
      simp only [Option.some.injEq] at hrest
      obtain ⟨hn, hloc⟩ := key n (by rw [hl]; intro h; cases h) (by rw [hl]; rfl) hrest.symm
      rw [hloc, hl]
      simp only []
      rw [map_kindsOf_tok, map_kindsOf_tok, List.drop_append_of_le_length hn,
        ih rfl (by rw [← hrest, List.drop_append_of_le_length hn]), ← hrest,
        List.drop_append_of_le_length hn]


theorem lex_kinds (s : String) : (lex s).map (·.map (·.tk)) = (scan s.toList).map kindsOf := by
  rw [lex_eq_scan, Option.map_map]
  congr 1
  funext ps
  exact tokensOf_kinds 1 0 ps

/-- **White-space invariance of `lex`.** Lengthening (or otherwise changing, keeping its first character) a
    white-space run at which the scan of `s` arrives does not change the sequence of token kinds. -/
theorem lex_ws_invariant {s s' : String} {pre : List Char} {w : Char} {r r' cs : List Char}
    (hs : s.toList = pre ++ w :: (r ++ cs)) (hs' : s'.toList = pre ++ w :: (r' ++ cs))
    (hw : isWs w = true) (hr : ∀ x ∈ r, isWs x = true) (hr' : ∀ x ∈ r', isWs x = true)
    (hcs : ∀ x, cs.head? = some x → isWs x = false)
    (hreach : Reach s.toList (w :: (r ++ cs))) :
    (lex s').map (·.map (·.tk)) = (lex s).map (·.map (·.tk)) := by
  rw [lex_kinds, lex_kinds, hs, hs']
  rw [hs] at hreach
  exact scan_ws_invariant hw hr hr' hcs hreach

/-! ### non-vacuity / worked examples (kernel-evaluated) -/

deriving instance DecidableEq for LexOut

example : (lex "a = enum { b; }").map (·.map (·.tk)) =
    some [.id "a", .kw "=", .kw "enum", .kw "{", .id "b", .kw ";", .kw "}"] := by decide +kernel

-- positions: lines 1..3 of a 3-line text; FILEPATH with blanks; NS_ID; target flag
example : (lex "x\n  \"p q\" # c\n+cpp a.b").map (·.map (fun t => (t.tk, t.line, t.col, t.endLine, t.endCol))) =
    some [(.id "x", 1, 0, 1, 1), (.filepath "\"p q\"", 2, 2, 2, 7), (.comment "# c", 2, 8, 2, 11),
          (.target "+cpp", 3, 0, 3, 4), (.nsid "a.b", 3, 5, 3, 8)] := by decide +kernel

-- the pieces of a scan, white space included; their concatenation is the input
example : scan "a  b".toList = some [.tok (.id "a") ['a'], .ws [' ', ' '], .tok (.id "b") ['b']] := by
  decide +kernel

-- failure = a reachable suffix on which `lexOne` errs (here: the unterminated file path)
example : lex "a \"b" = none := by decide +kernel
example : ∃ cs', Reach "a \"b".toList cs' ∧ cs' ≠ [] ∧ lexOne cs' = .err :=
  (lex_none_iff _).mp (by decide +kernel)
example : lexOne "\"b".toList = .err := by decide +kernel

-- the hypotheses of `lex_ws_invariant` are satisfiable: "a b" ↦ "a   b"
example : (lex "a   b").map (·.map (·.tk)) = (lex "a b").map (·.map (·.tk)) :=
  lex_ws_invariant (s := "a b") (s' := "a   b") (pre := ['a']) (w := ' ') (r := []) (r' := [' ', ' '])
    (cs := ['b']) (by decide +kernel) (by decide +kernel) (by decide) (by simp) (by decide)
    (by decide)
    (Reach.step (cs' := [' ', 'b']) (by decide +kernel) (by decide +kernel) (Reach.refl _))

-- the first character of the run must be kept: blanks inserted *before* a line end join a preceding comment
example : (lex "#a \n").map (·.map (·.tk)) ≠ (lex "#a\n").map (·.map (·.tk)) := by decide +kernel

#print axioms lexOne_tok_bounds
#print axioms lexOne_skip_bounds
#print axioms lexAux_fuel
#print axioms lexAux_none_iff
#print axioms lexAux_ne_none
#print axioms lex_none_iff
#print axioms lexAux_token_position
#print axioms lex_token_position
#print axioms lex_token_bounds
#print axioms lex_token_column
#print axioms lexAux_eq_pieces
#print axioms scan_flat
#print axioms scan_wf
#print axioms lex_reconstruct
#print axioms lex_lengths
#print axioms lexOne_ws_run
#print axioms scan_ws_run
#print axioms lexAux_ws_run
#print axioms lexOne_local
#print axioms scan_ws_invariant
#print axioms lex_ws_invariant

end Pydjinni.Front
