import PydjinniModel.Sys.Files
import PydjinniModel.Sys.Api
import PydjinniModel.Props.C17
/-!
# C14 — files land where configured and the processed-files report is exact

Paths (`Gen/Paths.lean`)
* `join_rel_parts`          `a / b` with a relative `b` is `a` followed by `b`
* `genRel_relative`         every file name a generator passes to `write_header/write_source` is relative, provided the
                            support-library listing and the two user-supplied names (`swift.bridging_header`, `yaml.out_file`) are
* `writes_under_out`        hence every write of a generator run is `<configured directory of its kind>/<relative name>`
* `no_double_prefix`        the relative names do not depend on the output directory at all (on the pinned tree the JNI
                            loader/schedule/completion names did: `legacy_loader_doubled`)
File reader/writer (`Sys/Files.lean`), for **every** sequence of operations
* `run_header`, `run_source`, `report_eq_log`, `report_keys_exact`
                            the report lists per generator exactly the files written for it, in order, and exactly the generators that wrote
* `report_inputs_exact`     `parsed.idl` / `parsed.external_types` are exactly the recorded reads
* `log_exact`               the hook's write log is exactly the sequence of writes (incl. the report itself)
Several configured contexts of one API object (`Sys/Api.lean`)
* `api_generate_lands_in_own_dirs`, `api_generate_under_own_out`
                            from any state of the API object, `generate` writes every file of a parse result to
                            `<directory of the result's own configuration>/<relative name>`; the pinned tree's generate did not
                            (`legacy_generate_lands_in_foreign_dir`)
`clean` and a whole run
* `clean_only_out_dirs`     `Generator.clean` removes exactly what lies below `header_path` / `source_path`
* `resolve_under_out`       a relative clean name resolves below the resolved output directory (`norm_append_clean`)
* `runTargets_preserves_outside`, `runTargets_creates_only_writes`
                            after generating any list of targets, with or without `clean`: a file outside every output
                            directory is still there, and every new file is a logged write
-/
namespace Pydjinni.GenC

theorem join_rel_parts (a b : Path) (h : b.abs = false) :
    (a.join b).parts = a.parts ++ b.parts ∧ (a.join b).abs = a.abs := by
  simp [Path.join, h]

theorem declFiles_sub (g : G) (cm cc : GCfg) (d : Decl) :
    ∀ f ∈ declFiles g cm cc d, f = (FKind.header, relHeader g cm d) ∨ f = (FKind.source, relSource g cm d) := by
  intro f hf
  unfold declFiles at hf
  cases g <;> cases hk : d.kind <;> simp only [hk] at hf <;> (try split at hf) <;> (try simp at hf) <;>
    (first | (rcases hf with rfl | rfl <;> simp) | (subst hf; simp) | skip)

theorem declFiles_relative (g : G) (cm cc : GCfg) (d : Decl) : ∀ f ∈ declFiles g cm cc d, f.2.abs = false := by
  intro f hf
  have hh : (relHeader g cm d).abs = false := by cases g <;> simp [relHeader, Path.rel]
  have hs : (relSource g cm d).abs = false := by cases g <;> simp [relSource, Path.rel]
  rcases declFiles_sub g cm cc d f hf with rfl | rfl <;> assumption

theorem extraFiles_relative (g : G) (cc : GCfg) (ds : List Decl)
    (hb : ∀ p, cc.bridging = some p → p.abs = false) : ∀ f ∈ extraFiles g cc ds, f.2.abs = false := by
  intro f hf
  unfold extraFiles at hf
  cases g <;> simp at hf
  · -- java
    rcases hf with rfl | hf | hf | hf
    · rfl
    · cases hn : cc.nativeLib <;> simp [hn] at hf; subst hf; rfl
    · obtain ⟨_, rfl⟩ := hf; rfl
    · obtain ⟨_, rfl⟩ := hf; rfl
  · -- jni
    rcases hf with ⟨_, rfl⟩ | ⟨_, rfl | rfl⟩ | ⟨_, rfl | rfl⟩ <;> rfl
  · -- objc
    cases hbr : cc.bridging <;> simp [hbr] at hf
    subst hf
    exact hb _ hbr

theorem yamlFiles_relative (cc : GCfg) (ds : List Decl)
    (ho : ∀ p, cc.outFile = some p → p.abs = false) : ∀ f ∈ yamlFiles cc ds, f.2.abs = false := by
  intro f hf
  unfold yamlFiles at hf
  cases hof : cc.outFile <;> simp [hof] at hf
  · obtain ⟨d, _, rfl⟩ := hf; rfl
  · subst hf; exact ho _ hof

/-- Every name handed to `write_header/write_source` is a relative path. -/
theorem genRel_relative (g : G) (cm cc : GCfg) (support : List (FKind × Path)) (ds : List Decl)
    (hsup : ∀ f ∈ support, f.2.abs = false)
    (hb : ∀ p, cc.bridging = some p → p.abs = false)
    (ho : ∀ p, cc.outFile = some p → p.abs = false) :
    ∀ f ∈ genRel g cm cc support ds, f.2.abs = false := by
  intro f hf
  unfold genRel at hf
  by_cases hy : g = .yaml
  · subst hy; simp at hf; exact yamlFiles_relative cc ds ho f hf
  · have : f ∈ support ++ ds.flatMap (declFiles g cm cc) ++ extraFiles g cc ds := by
      cases g <;> simp_all
    simp only [List.mem_append, List.mem_flatMap] at this
    rcases this with (h | ⟨d, _, h⟩) | h
    · exact hsup f h
    · exact declFiles_relative g cm cc d f h
    · exact extraFiles_relative g cc ds hb f h

/-- **Files land where configured**: every write of one generator run goes to
    `<header_path or source_path, by kind>/<relative name>` — the configured directory, spelled as configured,
    followed by the relative name; relative/absolute is inherited from the configured directory. -/
theorem writes_under_out (g : G) (cm cc : GCfg) (support : List (FKind × Path)) (ds : List Decl)
    (hsup : ∀ f ∈ support, f.2.abs = false)
    (hb : ∀ p, cc.bridging = some p → p.abs = false)
    (ho : ∀ p, cc.outFile = some p → p.abs = false) :
    ∀ w ∈ genWrites g cm cc support ds,
      ∃ rel, (w.1, rel) ∈ genRel g cm cc support ds ∧ rel.abs = false ∧
        w.2.parts = (cc.dir w.1).parts ++ rel.parts ∧ w.2.abs = (cc.dir w.1).abs := by
  intro w hw
  unfold genWrites at hw
  obtain ⟨f, hf, rfl⟩ := List.mem_map.mp hw
  have hrel := genRel_relative g cm cc support ds hsup hb ho f hf
  refine ⟨f.2, hf, hrel, ?_, ?_⟩ <;> simp [place, Path.join, hrel]

/-- The relative names are independent of the configured output directories. -/
theorem no_double_prefix (g : G) (cm cc : GCfg) (o₁ o₂ : Out) (support : List (FKind × Path)) (ds : List Decl) :
    genRel g { cm with out := o₁ } { cc with out := o₂ } support ds = genRel g cm cc support ds := by
  have hd : ∀ d, declFiles g { cm with out := o₁ } { cc with out := o₂ } d = declFiles g cm cc d := by
    intro d; cases g <;> rfl
  have he : extraFiles g { cc with out := o₂ } ds = extraFiles g cc ds := by cases g <;> rfl
  have hy : yamlFiles { cc with out := o₂ } ds = yamlFiles cc ds := rfl
  have hf : ds.flatMap (declFiles g { cm with out := o₁ } { cc with out := o₂ }) = ds.flatMap (declFiles g cm cc) := by
    have : declFiles g { cm with out := o₁ } { cc with out := o₂ } = declFiles g cm cc := funext hd
    rw [this]
  cases g <;> simp only [genRel, hf, he, hy]

/-- What the pinned tree did for the JNI loader (and schedule/completion): with a relative `jni.out`
    the source directory appeared twice. -/
theorem legacy_loader_doubled (cc : GCfg) (h : cc.out.source.abs = false) :
    (legacyJniLoader cc).parts = cc.out.source.parts ++ (cc.out.source.parts ++ ["loader.cpp"]) := by
  simp [legacyJniLoader, Path.join, Path.rel, h]

example : legacyJniLoader { out := .one (.rel ["o", "jni"]) } = .rel ["o", "jni", "o", "jni", "loader.cpp"] := by decide
example : (place { out := .one (.rel ["o", "jni"]) } (.source, .rel ["loader.cpp"])).2 = .rel ["o", "jni", "loader.cpp"] := by decide

end Pydjinni.GenC

namespace Pydjinni.SysC
open Pydjinni.GenC

variable {κ : Type}

/-! ### FileReaderWriter -/

theorem step_gens_header (s : FRW κ) (op : FOp κ) (key : String) :
    ((s.step op).gens key).header = (s.gens key).header ++ writesOf key .header [op] := by
  cases op <;> simp [FRW.step, FRW.upd, writesOf]
  · split <;> simp_all
  · split <;> simp_all
  · rename_i k kd p c
    by_cases hk : key = k
    · subst hk; cases kd <;> simp
    · have : ¬ (k = key) := fun h => hk h.symm
      simp [hk, this]

theorem step_gens_source (s : FRW κ) (op : FOp κ) (key : String) :
    ((s.step op).gens key).source = (s.gens key).source ++ writesOf key .source [op] := by
  cases op <;> simp [FRW.step, FRW.upd, writesOf]
  · split <;> simp_all
  · split <;> simp_all
  · rename_i k kd p c
    by_cases hk : key = k
    · subst hk; cases kd <;> simp
    · have : ¬ (k = key) := fun h => hk h.symm
      simp [hk, this]

theorem writesOf_cons (key : String) (kind : FKind) (op : FOp κ) (ops : List (FOp κ)) :
    writesOf key kind (op :: ops) = writesOf key kind [op] ++ writesOf key kind ops := by
  cases op <;> simp [writesOf]
  split <;> simp

/-- After any sequence of operations the header list of a generator is what it was plus exactly the
    header writes issued for that generator, in order. -/
theorem run_header (s : FRW κ) (ops : List (FOp κ)) (key : String) :
    ((s.run ops).gens key).header = (s.gens key).header ++ writesOf key .header ops := by
  induction ops generalizing s with
  | nil => simp [FRW.run, writesOf]
  | cons op ops ih =>
    have := ih (s.step op)
    simp only [FRW.run, List.foldl_cons] at this ⊢
    rw [this, step_gens_header, writesOf_cons key .header op ops, List.append_assoc]

theorem run_source (s : FRW κ) (ops : List (FOp κ)) (key : String) :
    ((s.run ops).gens key).source = (s.gens key).source ++ writesOf key .source ops := by
  induction ops generalizing s with
  | nil => simp [FRW.run, writesOf]
  | cons op ops ih =>
    have := ih (s.step op)
    simp only [FRW.run, List.foldl_cons] at this ⊢
    rw [this, step_gens_source, writesOf_cons key .source op ops, List.append_assoc]

theorem run_keys (s : FRW κ) (ops : List (FOp κ)) : (s.run ops).keys = s.keys := by
  induction ops generalizing s with
  | nil => rfl
  | cons op ops ih =>
    simp only [FRW.run, List.foldl_cons] at ih ⊢
    rw [ih]; cases op <;> simp [FRW.step, FRW.upd]

theorem run_used (s : FRW κ) (ops : List (FOp κ)) : (s.run ops).used = s.used ++ writeKeys ops := by
  induction ops generalizing s with
  | nil => simp [FRW.run, writeKeys]
  | cons op ops ih =>
    simp only [FRW.run, List.foldl_cons] at ih ⊢
    rw [ih]; cases op <;> simp [FRW.step, FRW.upd, writeKeys]

theorem run_idl (s : FRW κ) (ops : List (FOp κ)) : (s.run ops).idl = s.idl ++ idlReads ops := by
  induction ops generalizing s with
  | nil => simp [FRW.run, idlReads]
  | cons op ops ih =>
    simp only [FRW.run, List.foldl_cons] at ih ⊢
    rw [ih]; cases op <;> simp [FRW.step, FRW.upd, idlReads]

theorem run_ext (s : FRW κ) (ops : List (FOp κ)) : (s.run ops).ext = s.ext ++ extReads ops := by
  induction ops generalizing s with
  | nil => simp [FRW.run, extReads]
  | cons op ops ih =>
    simp only [FRW.run, List.foldl_cons] at ih ⊢
    rw [ih]; cases op <;> simp [FRW.step, FRW.upd, extReads]

theorem run_log (s : FRW κ) (ops : List (FOp κ)) : (s.run ops).log.map (·.1) = s.log.map (·.1) ++ loggedPaths ops := by
  induction ops generalizing s with
  | nil => simp [FRW.run, loggedPaths]
  | cons op ops ih =>
    simp only [FRW.run, List.foldl_cons] at ih ⊢
    rw [ih]; cases op <;> simp [FRW.step, FRW.upd, loggedPaths]

/-- a freshly built `API` object's reader/writer -/
def FRW.fresh (keys : List String) : FRW κ := { keys := keys }

/-- **The report is exact** (per generator): whatever was done since the API object was built, each
    section of the processed-files report lists exactly the header and source files written for that
    generator — nothing missing, nothing extra, in write order. -/
theorem report_eq_log (keys : List String) (ops : List (FOp κ)) :
    ∀ k gf, (k, gf) ∈ ((FRW.fresh keys : FRW κ).run ops).report.generated →
      gf.header = writesOf k .header ops ∧ gf.source = writesOf k .source ops := by
  intro k gf h
  simp only [FRW.report, List.mem_map] at h
  obtain ⟨k', _, hk⟩ := h
  cases hk
  constructor
  · simpa [FRW.fresh] using run_header (FRW.fresh keys : FRW κ) ops k
  · simpa [FRW.fresh] using run_source (FRW.fresh keys : FRW κ) ops k

/-- … and the generators listed are exactly the registered ones for which something was written. -/
theorem report_keys_exact (keys : List String) (ops : List (FOp κ)) (k : String) :
    k ∈ (((FRW.fresh keys : FRW κ).run ops).report.generated.map (·.1)) ↔ k ∈ keys ∧ k ∈ writeKeys ops := by
  simp [FRW.report, run_keys, run_used, FRW.fresh]

/-- The inputs listed are exactly the reads that went through the reader, in order. -/
theorem report_inputs_exact (keys : List String) (ops : List (FOp κ)) :
    ((FRW.fresh keys : FRW κ).run ops).report.idl = idlReads ops ∧
    ((FRW.fresh keys : FRW κ).run ops).report.ext = extReads ops := by
  simp [FRW.report, run_idl, run_ext, FRW.fresh]

/-- The hook's write log is exactly the sequence of paths written. -/
theorem log_exact (keys : List String) (ops : List (FOp κ)) :
    ((FRW.fresh keys : FRW κ).run ops).log.map (·.1) = loggedPaths ops := by
  simpa [FRW.fresh] using run_log (FRW.fresh keys : FRW κ) ops

/-! ### clean, whole runs -/

theorem mem_rmtree (dir : List String) (fs : FSys) (f : List String) :
    f ∈ rmtree dir fs ↔ f ∈ fs ∧ under dir f = false := by
  simp [rmtree]

/-- **`clean` removes only the output directories' contents.** -/
theorem clean_only_out_dirs (cwd : List String) (c : GCfg) (fs : FSys) (f : List String) :
    f ∈ cleanGen cwd c fs ↔
      f ∈ fs ∧ under (resolve cwd c.out.header) f = false ∧ under (resolve cwd c.out.source) f = false := by
  simp [cleanGen, mem_rmtree, and_assoc]

theorem foldl_normStep_clean (acc b : List String) (h : ∀ c ∈ b, c ≠ "..") : b.foldl normStep acc = acc ++ b := by
  induction b generalizing acc with
  | nil => simp
  | cons c cs ih =>
    have hc : c ≠ ".." := h c (by simp)
    simp only [List.foldl_cons, normStep, hc, if_false]
    rw [ih _ (fun x hx => h x (by simp [hx]))]
    simp

theorem norm_append_clean (a b : List String) (h : ∀ c ∈ b, c ≠ "..") : norm (a ++ b) = norm a ++ b := by
  simp [norm, List.foldl_append, foldl_normStep_clean _ b h]

/-- A relative name without `..` resolves (for every working directory) to the resolved output
    directory followed by that name. -/
theorem resolve_under_out (cwd : List String) (dir rel : Path) (hr : rel.abs = false) (hc : ∀ c ∈ rel.parts, c ≠ "..") :
    resolve cwd (dir.join rel) = resolve cwd dir ++ rel.parts := by
  unfold resolve
  cases hd : dir.abs <;> simp [Path.join, hr, hd, ← List.append_assoc, norm_append_clean _ _ hc]

theorem mem_addFiles (fs : FSys) (ps : List (List String)) (f : List String) :
    f ∈ addFiles fs ps ↔ f ∈ fs ∨ f ∈ ps := by
  induction ps generalizing fs with
  | nil => simp [addFiles]
  | cons p ps ih =>
    simp only [addFiles, List.foldl_cons] at ih ⊢
    rw [ih]
    by_cases h : fs.contains p
    · simp only [h, if_true]
      have hp : p ∈ fs := by simpa using h
      constructor
      · rintro (h1 | h1) <;> simp [h1]
      · rintro (h1 | h1)
        · exact Or.inl h1
        · rcases List.mem_cons.mp h1 with rfl | h2
          · exact Or.inl hp
          · exact Or.inr h2
    · simp only [h]
      simp [or_assoc]

/-- the output directories of a run do not contain `f` -/
def outsideAll (r : RunCfg) (f : List String) : Prop :=
  ∀ g ∈ r.generators, ∀ c, r.gens g = some c →
    under (resolve r.cwd c.out.header) f = false ∧ under (resolve r.cwd c.out.source) f = false

theorem genStep_preserves_outside (r : RunCfg) (st : FRW Unit × FSys) (g : G) (f : List String)
    (hf : f ∈ st.2)
    (hout : ∀ c, r.gens g = some c → under (resolve r.cwd c.out.header) f = false ∧ under (resolve r.cwd c.out.source) f = false) :
    f ∈ (genStep r st g).2 := by
  unfold genStep
  cases hg : r.gens g with
  | none => simpa using hf
  | some c =>
    simp only
    rw [mem_addFiles]
    left
    by_cases hcl : r.clean
    · simp only [hcl, if_true]
      exact (clean_only_out_dirs _ _ _ _).mpr ⟨hf, (hout c hg).1, (hout c hg).2⟩
    · simpa [hcl] using hf

theorem foldl_genStep_preserves (r : RunCfg) (gs : List G) (st : FRW Unit × FSys) (f : List String)
    (hf : f ∈ st.2)
    (hout : ∀ g ∈ gs, ∀ c, r.gens g = some c → under (resolve r.cwd c.out.header) f = false ∧ under (resolve r.cwd c.out.source) f = false) :
    f ∈ (gs.foldl (genStep r) st).2 := by
  induction gs generalizing st with
  | nil => simpa using hf
  | cons g gs ih =>
    simp only [List.foldl_cons]
    exact ih _ (genStep_preserves_outside r st g f hf (hout g (by simp))) (fun g' hg' => hout g' (by simp [hg']))

/-- **Nothing outside the output directories is deleted**, whatever targets are generated, with or
    without `clean`. -/
theorem runTargets_preserves_outside (r : RunCfg) (st : FRW Unit × FSys) (f : List String)
    (hf : f ∈ st.2) (hout : outsideAll r f) : f ∈ (runTargets r st).2 :=
  foldl_genStep_preserves r r.generators st f hf hout

theorem genStep_creates (r : RunCfg) (st : FRW Unit × FSys) (g : G) (f : List String) (hf : f ∈ (genStep r st g).2) :
    f ∈ st.2 ∨ ∃ c, r.gens g = some c ∧ ∃ w ∈ genWrites g c c (r.support g) r.defs, f = resolve r.cwd w.2 := by
  unfold genStep at hf
  cases hg : r.gens g with
  | none => left; simpa [hg] using hf
  | some c =>
    simp only [hg] at hf
    rw [mem_addFiles] at hf
    rcases hf with h | h
    · left
      by_cases hcl : r.clean
      · simp only [hcl, if_true] at h
        exact ((clean_only_out_dirs _ _ _ _).mp h).1
      · simpa [hcl] using h
    · right
      obtain ⟨w, hw, rfl⟩ := List.mem_map.mp h
      exact ⟨c, rfl, w, hw, rfl⟩

/-- **Nothing else is created**: every file present after the run was there before or is a write of
    one of the generators that ran (and by `writes_under_out`/`resolve_under_out` lies below its output directory). -/
theorem runTargets_creates_only_writes (r : RunCfg) (st : FRW Unit × FSys) (f : List String)
    (hf : f ∈ (runTargets r st).2) :
    f ∈ st.2 ∨ ∃ g ∈ r.generators, ∃ c, r.gens g = some c ∧
      ∃ w ∈ genWrites g c c (r.support g) r.defs, f = resolve r.cwd w.2 := by
  unfold runTargets at hf
  generalize r.generators = gs at hf ⊢
  induction gs generalizing st with
  | nil => left; simpa using hf
  | cons g gs ih =>
    simp only [List.foldl_cons] at hf
    rcases ih _ hf with h | ⟨g', hg', c, hc, w, hw, rfl⟩
    · rcases genStep_creates r st g f h with h1 | ⟨c, hc, w, hw, rfl⟩
      · exact Or.inl h1
      · exact Or.inr ⟨g, by simp, c, hc, w, hw, rfl⟩
    · exact Or.inr ⟨g', by simp [hg'], c, hc, w, hw, rfl⟩

/-- hypotheses are satisfiable: one cpp run with `clean`, a stale file inside, a file beside the output directory -/
example :
    let c : GCfg := { out := .one (.rel ["gen", "cpp"]) }
    let r : RunCfg := { cwd := ["w"], gens := fun g => if g = .cpp then some c else none, targets := [.cpp], clean := true,
                        support := fun _ => [], defs := [{ name := "x", ns := ["a"], kind := .record }] }
    (runTargets r ({ keys := ["cpp"] }, [["w", "gen", "cpp", "stale.hpp"], ["w", "gen", "cppx", "keep.txt"]])).2
      = [["w", "gen", "cppx", "keep.txt"], ["w", "gen", "cpp", "a", "x.hpp"]] := by decide +kernel

/-! ### sibling output directories whose names are string prefixes of each other

"Below" is a relation between *component lists*. Two directories next to each other (`gen/cpp`, `gen/cppcli`;
`gen/include`, `gen/include_jni`; `out/x`, `out/x2`) are unrelated whatever their names look like as strings. -/

theorem isPrefixOf_append_cons (d : List String) (a b : String) (r₁ r₂ : List String) (h : a ≠ b) :
    (d ++ a :: r₁).isPrefixOf (d ++ b :: r₂) = false := by
  induction d with
  | nil => simp [List.isPrefixOf, h]
  | cons x xs ih => simpa [List.isPrefixOf] using ih

/-- Nothing below `d/b` lies below its sibling `d/a` — for *all* names `a ≠ b`, string prefixes of each other or not. -/
theorem under_sibling (d : List String) (a b : String) (rest : List String) (h : a ≠ b) :
    under (d ++ [a]) (d ++ b :: rest) = false := by
  simp [under, isPrefixOf_append_cons d a b [] rest h]

/-- Purging `d/a` (`clean` of one generator) keeps every file of the sibling directory `d/b`. -/
theorem rmtree_keeps_sibling (d : List String) (a b : String) (rest : List String) (fs : FSys) (h : a ≠ b)
    (hf : d ++ b :: rest ∈ fs) : d ++ b :: rest ∈ rmtree (d ++ [a]) fs :=
  (mem_rmtree _ _ _).mpr ⟨hf, under_sibling d a b rest h⟩

/-- … whereas the spelling of `gen/cppcli/x.hpp` does start with the spelling of `gen/cpp`: a membership test on the
    text (`str(file).startswith(str(dir))`) takes the files of the sibling for files of the purged directory. -/
theorem text_prefix_is_not_under :
    underText ["gen", "cpp"] ["gen", "cppcli", "x.hpp"] = true ∧ under ["gen", "cpp"] ["gen", "cppcli", "x.hpp"] = false ∧
    underText ["gen", "include"] ["gen", "include_jni", "x.hpp"] = true ∧ under ["gen", "include"] ["gen", "include_jni", "x.hpp"] = false := by
  decide

/-- **With `clean`, what lies below a generator's directories afterwards is exactly what it wrote** (one generator
    step; `hU`: its writes land below its own directories — `writes_under_out` + `resolve_under_out`). Together with
    `report_eq_log` (the report section lists exactly these writes): report = files on disk, per generator. Later
    steps of generators with unrelated directories keep both sides (`genStep_preserves_outside`, `under_sibling`). -/
theorem genStep_clean_disk_eq_writes (r : RunCfg) (st : FRW Unit × FSys) (g : G) (c : GCfg) (hg : r.gens g = some c)
    (hcl : r.clean = true)
    (hU : ∀ w ∈ genWrites g c c (r.support g) r.defs,
      under (resolve r.cwd c.out.header) (resolve r.cwd w.2) = true ∨ under (resolve r.cwd c.out.source) (resolve r.cwd w.2) = true)
    (f : List String) :
    (f ∈ (genStep r st g).2 ∧ (under (resolve r.cwd c.out.header) f = true ∨ under (resolve r.cwd c.out.source) f = true))
      ↔ f ∈ (genWrites g c c (r.support g) r.defs).map (fun w => resolve r.cwd w.2) := by
  unfold genStep
  simp only [hg, hcl, if_true]
  rw [mem_addFiles, clean_only_out_dirs]
  constructor
  · rintro ⟨h | h, hu⟩
    · rcases hu with hu | hu
      · rw [h.2.1] at hu; cases hu
      · rw [h.2.2] at hu; cases hu
    · exact h
  · intro h
    refine ⟨Or.inr h, ?_⟩
    obtain ⟨w, hw, rfl⟩ := List.mem_map.mp h
    exact hU w hw

/-- the example run of above with a sibling `gen/cppcli` generated first: `clean` of `gen/cpp` keeps its files, and the
    report lists them (cppcli's section is not touched by cpp's `clean`) -/
example :
    let r : RunCfg := { cwd := ["w"], gens := fun g => if g = .cpp then some { out := .one (.rel ["gen", "cpp"]) }
                                                     else if g = .cppcli then some { out := .one (.rel ["gen", "cppcli"]) } else none,
                        targets := [.cppcli, .cpp], clean := true,
                        support := fun _ => [], defs := [{ name := "x", ns := [], kind := .enum }] }
    let res := runTargets r ({ keys := ["cpp", "cppcli"] }, [["w", "gen", "cpp", "stale.hpp"]])
    (res.2.filter (under ["w", "gen", "cppcli"])).length = ((res.1.gens "cppcli").header ++ (res.1.gens "cppcli").source).length
      ∧ (res.1.gens "cppcli").header ≠ [] := by decide +kernel

/-! ### input files behind symbolic links

The report names the input files by the path they were *read through*. That path denotes the file read (trivially);
its lexical normalisation (`os.path.normpath`) does so only when no component in front of a `..` is a symbolic link. -/

theorem foldl_physStep_nil (acc p : List String) : p.foldl (physStep []) acc = p.foldl normStep acc := by
  induction p generalizing acc with
  | nil => rfl
  | cons c cs ih => simp [List.foldl_cons, physStep, normStep, followLink, ih]

/-- without links the physical walk is the lexical normalisation (the model used for everything the tool writes) -/
theorem phys_nil (p : List String) : phys [] p = norm p := foldl_physStep_nil [] p

theorem physResolve_nil (cwd : List String) (p : Path) : physResolve [] cwd p = resolve cwd p := by
  simp [physResolve, resolve, phys_nil]

/-- **The inputs listed denote the files read**, whatever links there are: entry by entry, in order. -/
theorem report_inputs_denote_reads (links : Links) (cwd : List String) (keys : List String) (ops : List (FOp κ)) :
    (((FRW.fresh keys : FRW κ).run ops).report.idl.map (physResolve links cwd) = (idlReads ops).map (physResolve links cwd)) ∧
    (((FRW.fresh keys : FRW κ).run ops).report.ext.map (physResolve links cwd) = (extReads ops).map (physResolve links cwd)) := by
  rw [(report_inputs_exact keys ops).1, (report_inputs_exact keys ops).2]
  exact ⟨rfl, rfl⟩

/-- Recording the *normalised* path instead changes the file denoted: `work/idl` is a link to `checkout/idl`, the file
    read through `work/idl/../shared/c` is `checkout/shared/c`, the normalised entry names `work/shared/c`. -/
theorem normpath_changes_denotation :
    ∃ (links : Links) (p : List String), phys links (norm p) ≠ phys links p :=
  ⟨[(["work", "idl"], ["checkout", "idl"])], ["work", "idl", "..", "shared", "c"], by decide⟩

example : phys [(["work", "idl"], ["checkout", "idl"])] ["work", "idl", "..", "shared", "c"] = ["checkout", "shared", "c"] := by decide
example : phys [(["work", "idl"], ["checkout", "idl"])] ["work", "idl", "main"] = ["checkout", "idl", "main"] := by decide

/-! ### several configured contexts of one API object

The generator instances (and with them `header_path` / `source_path`) belong to the API object and are shared by every
context configured from it (`Sys/Api.lean`). `GenerateContext.generate` applies the configuration its IDL was parsed with
before generating — so the files of a parse result land below the directories of *its own* context, whatever other
contexts were configured, parsed or generated in between. -/

def Outcome.files : Outcome → List (Path × ContentId)
  | .wrote fs => fs
  | .missingConfig fs => fs
  | .crash fs => fs
  | _ => []

theorem mem_zipWith_right {α β γ : Type} (f : α → β → γ) :
    ∀ (l₁ : List α) (l₂ : List β) (x : γ), x ∈ List.zipWith f l₁ l₂ → ∃ a b, b ∈ l₂ ∧ x = f a b
  | [], _, x, h => by simp at h
  | _ :: _, [], x, h => by simp at h
  | a :: as, b :: bs, x, h => by
    simp only [List.zipWith_cons_cons, List.mem_cons] at h
    rcases h with rfl | h
    · exact ⟨a, b, by simp, rfl⟩
    · obtain ⟨a', b', hb, rfl⟩ := mem_zipWith_right f as bs x h
      exact ⟨a', b', by simp [hb], rfl⟩

/-- every file a run of generators reports was there before or is `<current directory of g, by kind>/<relative name of g>` -/
theorem generateGens_files (w : World) (gc : GenCtx) (tgs gs : List G) (s : ApiState) (acc : List (Path × ContentId)) :
    ∀ x ∈ (generateGens w gc tgs gs s acc).2.files, x ∈ acc ∨
      ∃ g ∈ gs, ∃ cm cc, gc.mcfg g = some cm ∧ s.genCfg g = some cc ∧
        ∃ kr ∈ genRel g cm cc (if gc.supportLib then w.support g else []) gc.prog.defs, x.1 = (cc.dir kr.1).join kr.2 := by
  induction gs generalizing s acc with
  | nil => intro x hx; left; simpa [generateGens, Outcome.files] using hx
  | cons g gs ih =>
    intro x hx
    unfold generateGens at hx
    cases h1 : s.genCfg g with
    | none => simp only [h1, Outcome.files] at hx; exact Or.inl hx
    | some cc =>
      cases h2 : gc.mcfg g with
      | none => simp only [h1, h2, Outcome.files] at hx; exact Or.inl hx
      | some cm =>
        simp only [h1, h2] at hx
        rcases ih _ _ x hx with h | ⟨g', hg', cm', cc', hm, hc, kr, hkr, hx'⟩
        · rcases List.mem_append.mp h with h | h
          · exact Or.inl h
          · right
            refine ⟨g, by simp, cm, cc, h2, h1, ?_⟩
            obtain ⟨y, hy, rfl⟩ := List.mem_map.mp h
            unfold genOutput at hy
            obtain ⟨i, f, hf, rfl⟩ := mem_zipWith_right _ _ _ _ hy
            exact ⟨f, hf, rfl⟩
        · right
          exact ⟨g', by simp [hg'], cm', cc', hm, hc, kr, hkr, hx'⟩

/-- **Files land where the generating context configured them**: from *any* state of the API object (other contexts
    configured, parsed, generated, cleaned before), every file `generate` writes for a parse result is
    `<header_path or source_path of the result's own configuration of g>/<relative name>` for a generator `g` of the target. -/
theorem api_generate_lands_in_own_dirs (w : World) (s : ApiState) (gc : GenCtx) (t : T) :
    ∀ x ∈ (generate w s gc t).2.files, ∃ g ∈ t.generators, ∃ c, gc.mcfg g = some c ∧
      ∃ kr ∈ genRel g c c (if gc.supportLib then w.support g else []) gc.prog.defs, x.1 = (c.dir kr.1).join kr.2 := by
  intro x hx
  unfold generate at hx
  split at hx
  · rcases generateGens_files _ _ _ _ _ _ x hx with h | ⟨g, hg, cm, cc, hm, hc, kr, hkr, hx'⟩
    · simp at h
    · have hcc : cc = cm := by
        simp only [List.contains_iff_mem, hg, if_true] at hc
        rw [hm] at hc
        exact (Option.some.inj hc).symm
      subst hcc
      exact ⟨g, hg, cc, hm, kr, hkr, hx'⟩
  · simp [Outcome.files] at hx

/-- … spelled out: the configured directory, as configured, followed by the relative name. -/
theorem api_generate_under_own_out (w : World) (s : ApiState) (gc : GenCtx) (t : T)
    (hsup : ∀ g, ∀ f ∈ w.support g, f.2.abs = false)
    (hb : ∀ g c, gc.mcfg g = some c → ∀ p, c.bridging = some p → p.abs = false)
    (ho : ∀ g c, gc.mcfg g = some c → ∀ p, c.outFile = some p → p.abs = false) :
    ∀ x ∈ (generate w s gc t).2.files, ∃ g ∈ t.generators, ∃ c, gc.mcfg g = some c ∧ ∃ (k : FKind) (rel : Path), rel.abs = false ∧
      x.1.parts = (c.dir k).parts ++ rel.parts ∧ x.1.abs = (c.dir k).abs := by
  intro x hx
  obtain ⟨g, hg, c, hc, kr, hkr, hx'⟩ := api_generate_lands_in_own_dirs w s gc t x hx
  have hrel : kr.2.abs = false := by
    apply genRel_relative g c c _ gc.prog.defs _ (hb g c hc) (ho g c hc) kr hkr
    intro f hf
    split at hf
    · exact hsup g f hf
    · simp at hf
  refine ⟨g, hg, c, hc, kr.1, kr.2, hrel, ?_, ?_⟩ <;> simp [hx', Path.join, hrel]

/-! the pinned tree's `generate` (no re-configuration): after another context parsed, the files of the first context's
    result land in the *other* context's directory -/
def cfgDirA : Cfg := { gens := fun g => if g = .cpp then some { out := .one (.rel ["outA"]), content := "A" } else none }
def cfgDirB : Cfg := { gens := fun g => if g = .cpp then some { out := .one (.rel ["elsewhere", "outB"]), content := "B" } else none }
def progX : Prog := { id := "P", reads := [.rel ["p.pydjinni"]], exts := [], defs := [{ name := "x", kind := .enum }] }
def worldAB : World := { cfgs := [cfgDirA, cfgDirB], progs := [progX], support := fun _ => [] }

theorem legacy_generate_lands_in_foreign_dir :
    (generateLegacy worldAB (runCalls worldAB initState [.parse 0 0, .parse 1 0]).1 (ctxOf cfgDirA progX) .cpp).2.files.map (·.1)
      = [.rel ["elsewhere", "outB", "x.hpp"], .rel ["elsewhere", "outB", "x.cpp"]] := by
  decide +kernel

example :
    (generate worldAB (runCalls worldAB initState [.parse 0 0, .parse 1 0]).1 (ctxOf cfgDirA progX) .cpp).2.files.map (·.1)
      = [.rel ["outA", "x.hpp"], .rel ["outA", "x.cpp"]] := by
  decide +kernel

end Pydjinni.SysC

/-! ### the configuration of a run = the configuration file with the caller's options merged in (`Sys/Config.lean: combine`)

`merge_override` (Props/C17.lean) for the keys this property is about: whatever the file holds at `generate.<g>.out` — one
directory or the `{header, source}` mapping — an option that gives ONE directory there is the effective value, and an option
that gives one key of the mapping is the effective value of that key (the other key keeps the file's value if the file had a
mapping: `merge_keeps`). The check configures the control context from `combine options file`. -/
namespace Pydjinni.Sys

theorem override_single_dir_wins (g dir : String) (o b : Kids) (hwf : wf (.node o) = true)
    (h : getPath ["generate", g, "out"] (.node o) = some (.leaf (.str dir))) :
    getPath ["generate", g, "out"] (.node (combine o b)) = some (.leaf (.str dir)) :=
  merge_override _ o b _ hwf h

theorem override_split_dir_wins (g k dir : String) (o b : Kids) (hwf : wf (.node o) = true)
    (h : getPath ["generate", g, "out", k] (.node o) = some (.leaf (.str dir))) :
    getPath ["generate", g, "out", k] (.node (combine o b)) = some (.leaf (.str dir)) :=
  merge_override _ o b _ hwf h

/-- the hypotheses are satisfiable, and the split section of the file is *gone* (not merely shadowed): -/
def exFile : Kids := [("generate", .node [("cpp", .node [("out", .node [("header", .leaf (.str "gen/include")), ("source", .leaf (.str "gen/src"))]),
                                                         ("namespace", .leaf (.str "demo"))])])]
def exOpts : Kids := [("generate", .node [("cpp", .node [("out", .leaf (.str "build/cpp"))])])]
#guard wf (.node exOpts)
#guard getPath ["generate", "cpp", "out"] (.node (combine exOpts exFile)) == some (.leaf (.str "build/cpp"))
#guard getPath ["generate", "cpp", "out", "header"] (.node (combine exOpts exFile)) == none
#guard getPath ["generate", "cpp", "namespace"] (.node (combine exOpts exFile)) == some (.leaf (.str "demo"))

end Pydjinni.Sys
