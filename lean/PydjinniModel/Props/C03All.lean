import PydjinniModel.Props.C03
import PydjinniModel.Props.C03Parse
import PydjinniModel.Props.C03Lex
import PydjinniModel.Props.C03Decl
import PydjinniModel.Props.C03Text
import PydjinniModel.Props.C03Pos
import PydjinniModel.Props.C03Sound
import PydjinniModel.Props.C03Span
/-! All C03 theorems (target sets, comments, lexer progress/termination/positions/reconstruction; parse ∘ print round trip for types/fields (C03Parse) and for whole declarations, namespaces and files (C03Decl); text level: every admissible layout of well-formed tokens lexes/parses back (C03Text); token start positions increase strictly and the reference positions of every accepted text are pairwise distinct — H4 of C05Program derived (C03Pos); parse → print soundness for interfaces, named functions, error domains, namespaces and whole files, `parseFile_iff_print`, `parseText_iff_render` (C03Sound); every recorded position is the span of exactly the consumed tokens and positions nest like the constructs, down to generic arguments and up to whole files, also in terms of the source text (C03Span)). -/
