import PydjinniModel.Props.C03
import PydjinniModel.Props.C03Parse
/-! All C03 theorems (target sets, comments, lexer progress; parse ∘ print round trip). -/
