import PydjinniModel.Props.C03
import PydjinniModel.Props.C03Parse
import PydjinniModel.Props.C03Lex
/-! All C03 theorems (target sets, comments, lexer progress/termination/positions/reconstruction; parse ∘ print round trip). -/
