import PydjinniModel.Props.C03
import PydjinniModel.Props.C03Parse
import PydjinniModel.Props.C03Lex
import PydjinniModel.Props.C03Decl
import PydjinniModel.Props.C03Text
/-! All C03 theorems (target sets, comments, lexer progress/termination/positions/reconstruction; parse ∘ print round trip for types/fields (C03Parse) and for whole declarations, namespaces and files (C03Decl); text level: every admissible layout of well-formed tokens lexes/parses back (C03Text)). -/
