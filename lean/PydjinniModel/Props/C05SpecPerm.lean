import PydjinniModel.Props.C05Spec
/-!
# C05 — the diagnostics of a file are a permutation of the specification's violations

`Props/C05Spec.lean` shows that the front end reports a diagnostic iff the specification lists it. Here the
multiplicities are shown to agree as well: the list `finishFile` returns is a permutation of `violations`
(the order differs: the visitor reports by phase — visit, resolution, post-checks — the specification by declaration).
The proof counts occurrences (`List.perm_iff_count`), so that all re-groupings are linear arithmetic.

* `checkUnits_eq`               the post-checks as a total function (`unitDiags`)
* `finishFile_out`              the list `finishFile` returns, literally
* `count_walkT`                 one written type reference
* `count_walkDecl`              per declaration
* `finishFile_perm_violations`  per file
-/
namespace Pydjinni.Front

/-! ### the post-checks as total functions -/

def throwsDiags (m : Resolved) (file : String) : List TypeRef → List Diag
  | [] => []
  | t :: ts =>
    (match primOf m file t with
      | none => []
      | some p => if p != .error then [pdiag "throws-non-error" file (posOf t)] else []) ++ throwsDiags m file ts

theorem checkThrows_eq (m : Resolved) (file : String) (ts : List TypeRef) :
    checkThrows m file ts = .ok (throwsDiags m file ts) := by
  induction ts with
  | nil => rfl
  | cons t ts ih =>
    simp only [checkThrows, ih, bind, Except.bind, throwsDiags]
    cases primOf m file t <;> rfl

def sigDiags (m : Resolved) (file : String) (s : SigU) : List Diag :=
  (match s.ret with
    | some t => if primOf m file t == some .error then [pdiag "return-error" file (posOf t)] else []
    | none => [])
  ++ (match s.throwing with | some l => throwsDiags m file l | none => [])
  ++ checkParams m file s.params

theorem checkSig_eq (m : Resolved) (file : String) (s : SigU) : checkSig m file s = .ok (sigDiags m file s) := by
  unfold checkSig sigDiags
  cases hs : s.throwing with
  | none => rfl
  | some l => simp only [checkThrows_eq, bind, Except.bind]; rfl

theorem checkSigs_eq (m : Resolved) (file : String) (ss : List SigU) :
    checkSigs m file ss = .ok (ss.flatMap (sigDiags m file)) := by
  induction ss with
  | nil => rfl
  | cons s ss ih => simp only [checkSigs, checkSig_eq, ih, bind, Except.bind, List.flatMap_cons]

def unitDiags (m : Resolved) (u : UnitAt) : List Diag :=
  match u.unit with
  | .record fields ord => checkFields m u.file ord fields
  | .iface ms => ms.flatMap (sigDiags m u.file)
  | .fn s => sigDiags m u.file s
  | .other => []

theorem checkUnit_eq (m : Resolved) (u : UnitAt) : checkUnit m u = .ok (unitDiags m u) := by
  unfold checkUnit unitDiags
  cases u.unit with
  | record f o => rfl
  | iface ms => exact checkSigs_eq m u.file ms
  | fn s => exact checkSig_eq m u.file s
  | other => rfl

/-- the post-resolution checks are a total function of the resolution map and the units -/
theorem checkUnits_eq (m : Resolved) (us : List UnitAt) : checkUnits m us = .ok (us.flatMap (unitDiags m)) := by
  induction us with
  | nil => rfl
  | cons u us ih => simp only [checkUnits, checkUnit_eq, ih, bind, Except.bind, List.flatMap_cons]

/-- the diagnostics list of the collected material `c`, in the order the front end produces it -/
def outOf (m : Resolved) (reg : Registry) (c : Collected) : List Diag :=
  c.diags ++ c.refs.flatMap (refDiags reg) ++ c.units.flatMap (unitDiags m)

/-- the list `finishFile` returns, literally -/
theorem finishFile_out (cfg : Cfg) (file : APath) (contents : List Content) (st : PState) (reg : Registry)
    (hres : st.resolved = [])
    (hreg : registerAll st.reg (walkContents { file := showPath file, keys := cfg.keys, defaultDeriving := cfg.defaultDeriving } [] contents).regs = .ok reg)
    (hnd : ((walkContents { file := showPath file, keys := cfg.keys, defaultDeriving := cfg.defaultDeriving } [] contents).refs.map
              (fun r => (r.file, r.pos))).Nodup) :
    let c := walkContents { file := showPath file, keys := cfg.keys, defaultDeriving := cfg.defaultDeriving } [] contents
    ∃ m, finishFile cfg file contents {} st
        = .ok ({ units := c.units, refs := c.refs, errors := outOf m reg c }, { st with reg := reg, resolved := m })
      ∧ Binds m reg c.refs := by
  intro c
  have hfresh : ∀ r ∈ c.refs, Resolved.get ([] : Resolved) r.file r.pos = none := by
    intro r _; rfl
  obtain ⟨m, hloop, hbind, _⟩ := resolveLoop_spec reg c.refs [] [] hnd hfresh
  refine ⟨m, ?_, hbind⟩
  unfold finishFile
  simp only [hreg, hres]
  show (match resolveLoop reg ([], []) c.refs with
    | .error site => Except.error (Abort.crash site)
    | .ok (resolved, rdiags) =>
      match checkUnits resolved c.units with
      | .error site => Except.error (Abort.crash site)
      | .ok cdiags => _) = _
  rw [hloop]
  simp only [List.nil_append]
  rw [checkUnits_eq]
  rfl

/-! ### counting -/

/-- how often `x` is reported for `c` -/
def N (m : Resolved) (reg : Registry) (x : Diag) (c : Collected) : Nat := (outOf m reg c).count x

theorem N_append (m : Resolved) (reg : Registry) (x : Diag) (a b : Collected) :
    N m reg x (a ++ b) = N m reg x a + N m reg x b := by
  unfold N outOf
  simp only [Collected.diags_append, Collected.refs_append, Collected.units_append, List.flatMap_append, List.count_append]
  omega

theorem N_empty (m : Resolved) (reg : Registry) (x : Diag) : N m reg x {} = 0 := by
  unfold N outOf; simp

theorem N_diagsOnly (m : Resolved) (reg : Registry) (x : Diag) (D : List Diag) : N m reg x { diags := D } = D.count x := by
  unfold N outOf; simp

theorem N_refOnly (m : Resolved) (reg : Registry) (x : Diag) (r : RefSite) :
    N m reg x { refs := [r] } = (refDiags reg r).count x := by
  unfold N outOf; simp

theorem N_unitOnly (m : Resolved) (reg : Registry) (x : Diag) (u : UnitAt) :
    N m reg x { units := [u] } = (unitDiags m u).count x := by
  unfold N outOf; simp

theorem N_reg1 (m : Resolved) (reg : Registry) (x : Diag) (e : Env) (ns : List String) (n : String) (p : Prim) (pos : Pos)
    (U : CheckUnit) : N m reg x (reg1 e ns n p pos U) = (unitDiags m { file := e.file, ns := ns, unit := U }).count x := by
  unfold N outOf reg1; simp

@[simp] theorem Collected.refs_diagsOnly (D : List Diag) : ({ diags := D } : Collected).refs = [] := rfl
@[simp] theorem Collected.refs_unitsOnly (U : List UnitAt) : ({ units := U } : Collected).refs = [] := rfl

/-! ### signatures: the post-check's list against the specification's list -/

theorem checkParams_eq_filter (se : SpecEnv) (m : Resolved) (file : String) (ns : List String) (ts : List TypeRef)
    (hag : ∀ t ∈ ts, primOf m file t = specPrim se ns t) :
    checkParams m file ts
      = (ts.filter (fun t => specPrim se ns t == some .error)).map (fun t => mk "ParsingException" "param-error" file (posOf t)) := by
  induction ts with
  | nil => rfl
  | cons t ts ih =>
    have ha := hag t (List.mem_cons_self ..)
    have ih' := ih (fun u hu => hag u (List.mem_cons_of_mem _ hu))
    simp only [checkParams, List.filter_cons, ha, ih']
    cases (specPrim se ns t == some Prim.error) <;> rfl

theorem throwsDiags_eq_filter (se : SpecEnv) (m : Resolved) (file : String) (ns : List String) (l : List TypeRef)
    (hag : ∀ t ∈ l, primOf m file t = specPrim se ns t) (P : TypeRef → Bool)
    (hP : ∀ t, P t = (match specPrim se ns t with | some p => p != .error | none => false)) :
    throwsDiags m file l = (l.filter P).map (fun t => mk "ParsingException" "throws-non-error" file (posOf t)) := by
  induction l with
  | nil => rfl
  | cons t ts ih =>
    have ha := hag t (List.mem_cons_self ..)
    have ih' := ih (fun u hu => hag u (List.mem_cons_of_mem _ hu))
    simp only [throwsDiags, List.filter_cons, hP, ha, ih']
    cases specPrim se ns t with
    | none => rfl
    | some p => cases p <;> rfl

/-- one signature: the post-check reports every violation as often as the specification lists it -/
theorem count_sigDiags (se : SpecEnv) (m : Resolved) (file : String) (ns : List String) (s : SigU)
    (hag : ∀ u ∈ sigTypes s, primOf m file u = specPrim se ns u) (x : Diag) :
    (sigDiags m file s).count x = (sigRules se file ns s).count x := by
  obtain ⟨params, ret, thr⟩ := s
  have hagP : ∀ t ∈ params, primOf m file t = specPrim se ns t := fun t ht => hag t (by simp [sigTypes, ht])
  have hagR : ∀ t, ret = some t → primOf m file t = specPrim se ns t := fun t ht => hag t (by simp [sigTypes, ht])
  have hagT : ∀ l, thr = some l → ∀ t ∈ l, primOf m file t = specPrim se ns t := fun l hl t ht =>
    hag t (by simp [sigTypes, hl, ht])
  unfold sigDiags sigRules
  simp only [List.count_append]
  have key : ∀ a b c a' b' c' : Nat, a' = a → b' = b → c' = c → a' + b' + c' = c + a + b := by omega
  refine key _ _ _ _ _ _ ?_ ?_ ?_
  · cases ret with
    | none => rfl
    | some t => simp only [hagR t rfl]; rfl
  · cases thr with
    | none => rfl
    | some l => exact congrArg _ (throwsDiags_eq_filter se m file ns l (hagT l rfl) _ (fun t => rfl))
  · exact congrArg _ (checkParams_eq_filter se m file ns params hagP)

/-! ### the specification's rules over lists of nodes -/

/-- reference rules of the `dataType` nodes `D`, signature rules and targets of the function signatures `F` -/
def nodeRules (se : SpecEnv) (file : String) (ns : List String) (D : List TypeRef) (F : List FnSig) : List Diag :=
  D.flatMap (refRule se file ns)
  ++ (F.map sigOfFn).flatMap (sigRules se file ns)
  ++ (F.filterMap sigFlags).flatMap (fun fp => unknownTargets se file fp.1 fp.2)

theorem typeRules_eq_nodeRules (se : SpecEnv) (file : String) (ns : List String) (t : TypeRef) :
    typeRules se file ns t = nodeRules se file ns (dataNodesT t) (fnNodesT t) := rfl

/-- unknown targets of one function signature -/
def flagRules (se : SpecEnv) (file : String) (sig : FnSig) : List Diag :=
  match sigFlags sig with
  | some fp => unknownTargets se file fp.1 fp.2
  | none => []

theorem fnTargetDiags_eq_flagRules (e : Env) (reg : Registry) (sig : FnSig) :
    fnTargetDiags e sig = flagRules (specEnvOf e reg) e.file sig := by
  unfold fnTargetDiags flagRules
  cases sigFlags sig with
  | none => rfl
  | some fp => obtain ⟨f, p⟩ := fp; exact targetDiags_eq_unknownTargets e reg f p

section nodeRules
variable (se : SpecEnv) (file : String) (ns : List String) (x : Diag)

theorem count_nodeRules_nil : (nodeRules se file ns [] []).count x = 0 := by
  simp [nodeRules]

theorem count_nodeRules_append (D1 D2 : List TypeRef) (F1 F2 : List FnSig) :
    (nodeRules se file ns (D1 ++ D2) (F1 ++ F2)).count x
      = (nodeRules se file ns D1 F1).count x + (nodeRules se file ns D2 F2).count x := by
  unfold nodeRules
  simp only [List.flatMap_append, List.map_append, List.filterMap_append, List.count_append]
  omega

theorem count_nodeRules_consD (n : TypeRef) (D : List TypeRef) (F : List FnSig) :
    (nodeRules se file ns (n :: D) F).count x = (refRule se file ns n).count x + (nodeRules se file ns D F).count x := by
  unfold nodeRules
  simp only [List.flatMap_cons, List.count_append]
  omega

theorem count_nodeRules_consF (sig : FnSig) (D : List TypeRef) (F : List FnSig) :
    (nodeRules se file ns D (sig :: F)).count x
      = (sigRules se file ns (sigOfFn sig)).count x + (flagRules se file sig).count x + (nodeRules se file ns D F).count x := by
  unfold nodeRules flagRules
  cases h : sigFlags sig with
  | none =>
    simp only [List.map_cons, List.flatMap_cons, List.filterMap_cons, h, List.count_append, List.count_nil]
    omega
  | some fp =>
    simp only [List.map_cons, List.flatMap_cons, List.filterMap_cons, h, List.count_append]
    omega

end nodeRules

/-! ### one walked type reference, with multiplicities -/

theorem agree_sig (e : Env) (reg : Registry) (m : Resolved) (ns : List String) (sig : FnSig)
    (hb : Binds m reg (walkF e ns sig).refs) :
    ∀ u ∈ sigTypes (sigOfFn sig), primOf m e.file u = specPrim (specEnvOf e reg) ns u := by
  intro u hu
  have hw : walkT e ns (.fn sig default) = walkF e ns sig := by simp only [walkT]
  exact primOf_eq_specPrim_of_node e reg m ns (.fn sig default) (by rw [hw]; exact hb) u
    (fun h => by simp only [dataNodesT]; exact sigTypes_sub_dataNodesF sig u hu h)

theorem walkF_eq (e : Env) (ns : List String) (flags : Option (List String)) (fpos : Pos) (params : List Param)
    (thr : Option (List TypeRef)) (ret : Option TypeRef) :
    walkF e ns (.mk flags fpos params thr ret)
      = ({ diags := fnTargetDiags e (.mk flags fpos params thr ret) } : Collected)
          ++ walkOT e ns ret ++ walkPs e ns params ++ walkOTs e ns thr
          ++ { units := [fnUnit e ns (.mk flags fpos params thr ret)] } := by
  cases flags <;> rfl

mutual
theorem count_walkT' (e : Env) (reg : Registry) (m : Resolved) (ns : List String) (x : Diag) (t : TypeRef)
    (hb : Binds m reg (walkT e ns t).refs) :
    N m reg x (walkT e ns t) = (nodeRules (specEnvOf e reg) e.file ns (dataNodesT t) (fnNodesT t)).count x := by
  cases t with
  | data name args o pos =>
    simp only [walkT, Collected.refs_append] at hb
    simp only [walkT, dataNodesT, fnNodesT]
    rw [N_append, N_refOnly, count_walkTs' e reg m ns x args hb.left, count_nodeRules_consD, refRule_eq_refDiags]
    simp only [siteOf]
    omega
  | fn sig pos =>
    simp only [walkT] at hb
    simp only [walkT, dataNodesT, fnNodesT]
    exact count_walkF' e reg m ns x sig hb
theorem count_walkTs' (e : Env) (reg : Registry) (m : Resolved) (ns : List String) (x : Diag) (ts : List TypeRef)
    (hb : Binds m reg (walkTs e ns ts).refs) :
    N m reg x (walkTs e ns ts) = (nodeRules (specEnvOf e reg) e.file ns (dataNodesTs ts) (fnNodesTs ts)).count x := by
  cases ts with
  | nil => simp only [walkTs, dataNodesTs, fnNodesTs, N_empty, count_nodeRules_nil]
  | cons t ts =>
    simp only [walkTs, Collected.refs_append] at hb
    simp only [walkTs, dataNodesTs, fnNodesTs]
    rw [N_append, count_walkT' e reg m ns x t hb.left, count_walkTs' e reg m ns x ts hb.right, count_nodeRules_append]
theorem count_walkF' (e : Env) (reg : Registry) (m : Resolved) (ns : List String) (x : Diag) (sig : FnSig)
    (hb : Binds m reg (walkF e ns sig).refs) :
    N m reg x (walkF e ns sig) = (nodeRules (specEnvOf e reg) e.file ns (dataNodesF sig) (sig :: fnNodesF sig)).count x := by
  cases sig with
  | mk flags fpos params thr ret =>
    have hag := agree_sig e reg m ns _ hb
    rw [walkF_eq] at hb ⊢
    simp only [Collected.refs_append, List.nil_append, List.append_nil] at hb
    rw [N_append, N_append, N_append, N_append, N_diagsOnly, N_unitOnly,
      count_walkOT' e reg m ns x ret hb.left.left, count_walkPs' e reg m ns x params hb.left.right,
      count_walkOTs' e reg m ns x thr hb.right]
    simp only [dataNodesF, fnNodesF]
    rw [count_nodeRules_consF, count_nodeRules_append, count_nodeRules_append]
    have hu : unitDiags m (fnUnit e ns (.mk flags fpos params thr ret))
        = sigDiags m e.file (sigOfFn (.mk flags fpos params thr ret)) := rfl
    rw [hu, count_sigDiags (specEnvOf e reg) m e.file ns _ hag x, fnTargetDiags_eq_flagRules e reg]
    omega
theorem count_walkPs' (e : Env) (reg : Registry) (m : Resolved) (ns : List String) (x : Diag) (ps : List Param)
    (hb : Binds m reg (walkPs e ns ps).refs) :
    N m reg x (walkPs e ns ps) = (nodeRules (specEnvOf e reg) e.file ns (dataNodesPs ps) (fnNodesPs ps)).count x := by
  cases ps with
  | nil => simp only [walkPs, dataNodesPs, fnNodesPs, N_empty, count_nodeRules_nil]
  | cons p ps =>
    cases p with
    | mk n t pos =>
      simp only [walkPs, Collected.refs_append] at hb
      simp only [walkPs, dataNodesPs, fnNodesPs]
      rw [N_append, count_walkT' e reg m ns x t hb.left, count_walkPs' e reg m ns x ps hb.right, count_nodeRules_append]
theorem count_walkOT' (e : Env) (reg : Registry) (m : Resolved) (ns : List String) (x : Diag) (o : Option TypeRef)
    (hb : Binds m reg (walkOT e ns o).refs) :
    N m reg x (walkOT e ns o) = (nodeRules (specEnvOf e reg) e.file ns (dataNodesOT o) (fnNodesOT o)).count x := by
  cases o with
  | none => simp only [walkOT, dataNodesOT, fnNodesOT, N_empty, count_nodeRules_nil]
  | some t =>
    simp only [walkOT] at hb
    simp only [walkOT, dataNodesOT, fnNodesOT]
    exact count_walkT' e reg m ns x t hb
theorem count_walkOTs' (e : Env) (reg : Registry) (m : Resolved) (ns : List String) (x : Diag) (o : Option (List TypeRef))
    (hb : Binds m reg (walkOTs e ns o).refs) :
    N m reg x (walkOTs e ns o) = (nodeRules (specEnvOf e reg) e.file ns (dataNodesOTs o) (fnNodesOTs o)).count x := by
  cases o with
  | none => simp only [walkOTs, dataNodesOTs, fnNodesOTs, N_empty, count_nodeRules_nil]
  | some ts =>
    simp only [walkOTs] at hb
    simp only [walkOTs, dataNodesOTs, fnNodesOTs]
    exact count_walkTs' e reg m ns x ts hb
end

/-! ### lists of written types, with multiplicities -/

/-- the specification's type rules of a list of written types (the first three summands of `declRules`) -/
def listRules (se : SpecEnv) (file : String) (ns : List String) (L : List TypeRef) : List Diag :=
  nodeRules se file ns (L.flatMap dataNodesT) (L.flatMap fnNodesT)

section listRules
variable (se : SpecEnv) (file : String) (ns : List String) (x : Diag)

theorem count_listRules_nil : (listRules se file ns []).count x = 0 := by
  simp [listRules, nodeRules]

theorem count_listRules_append (L1 L2 : List TypeRef) :
    (listRules se file ns (L1 ++ L2)).count x = (listRules se file ns L1).count x + (listRules se file ns L2).count x := by
  unfold listRules
  rw [List.flatMap_append, List.flatMap_append, count_nodeRules_append]

theorem count_listRules_cons (t : TypeRef) (L : List TypeRef) :
    (listRules se file ns (t :: L)).count x = (typeRules se file ns t).count x + (listRules se file ns L).count x := by
  unfold listRules
  rw [List.flatMap_cons, List.flatMap_cons, count_nodeRules_append, typeRules_eq_nodeRules]

end listRules

section walkers
variable (e : Env) (reg : Registry) (m : Resolved) (ns : List String) (x : Diag)

theorem count_walkT (t : TypeRef) (hb : Binds m reg (walkT e ns t).refs) :
    N m reg x (walkT e ns t) = (typeRules (specEnvOf e reg) e.file ns t).count x := by
  rw [typeRules_eq_nodeRules]; exact count_walkT' e reg m ns x t hb

theorem count_walkPs (ps : List Param) (hb : Binds m reg (walkPs e ns ps).refs) :
    N m reg x (walkPs e ns ps) = (listRules (specEnvOf e reg) e.file ns (ps.map paramType)).count x := by
  unfold listRules
  rw [← dataNodesPs_eq, ← fnNodesPs_eq]
  exact count_walkPs' e reg m ns x ps hb

theorem count_walkOT (o : Option TypeRef) (hb : Binds m reg (walkOT e ns o).refs) :
    N m reg x (walkOT e ns o) = (listRules (specEnvOf e reg) e.file ns o.toList).count x := by
  unfold listRules
  rw [← dataNodesOT_eq, ← fnNodesOT_eq]
  exact count_walkOT' e reg m ns x o hb

theorem count_walkOTs (o : Option (List TypeRef)) (hb : Binds m reg (walkOTs e ns o).refs) :
    N m reg x (walkOTs e ns o) = (listRules (specEnvOf e reg) e.file ns (o.getD [])).count x := by
  unfold listRules
  rw [← dataNodesOTs_eq, ← fnNodesOTs_eq]
  exact count_walkOTs' e reg m ns x o hb

theorem N_ite (c : Bool) (D : List Diag) :
    N m reg x (if c then ({ diags := D } : Collected) else {}) = (if c then D else []).count x := by
  cases c
  · simp [N_empty]
  · simp [N_diagsOnly]

theorem count_walkFields (fs : List Field) (hb : Binds m reg (walkFields e ns fs).refs) :
    N m reg x (walkFields e ns fs)
      = (listRules (specEnvOf e reg) e.file ns (fs.map (·.ty))).count x + (fnFieldDiags e fs).count x := by
  induction fs with
  | nil => simp [walkFields, N_empty, count_listRules_nil, fnFieldDiags]
  | cons f fs ih =>
    simp only [walkFields, walkField, Collected.refs_append] at hb
    simp only [walkFields, walkField, fnFieldDiags, List.flatMap_cons, List.map_cons, List.count_append]
    rw [N_append, N_append, count_walkT e reg m ns x f.ty hb.left.left, N_ite, ih hb.right, count_listRules_cons]
    simp only [fnFieldDiags]
    omega

theorem count_walkProps (ps : List Prop') (hb : Binds m reg (walkProps e ns ps).refs) :
    N m reg x (walkProps e ns ps) = (listRules (specEnvOf e reg) e.file ns (ps.map (·.ty))).count x := by
  induction ps with
  | nil => simp [walkProps, N_empty, count_listRules_nil]
  | cons p ps ih =>
    simp only [walkProps, Collected.refs_append] at hb
    simp only [walkProps, List.map_cons]
    rw [N_append, count_walkT e reg m ns x p.ty hb.left, ih hb.right, count_listRules_cons]

theorem count_walkCodes (cs : List ErrCode) (hb : Binds m reg (walkCodes e ns cs).refs) :
    N m reg x (walkCodes e ns cs)
      = (listRules (specEnvOf e reg) e.file ns (cs.flatMap (fun c => c.params.map paramType))).count x := by
  induction cs with
  | nil => simp [walkCodes, N_empty, count_listRules_nil]
  | cons c cs ih =>
    simp only [walkCodes, Collected.refs_append] at hb
    simp only [walkCodes, List.flatMap_cons]
    rw [N_append, count_walkPs e reg m ns x c.params hb.left, ih hb.right, count_listRules_append]

theorem count_walkMethods (ms : List Method) (hb : Binds m reg (walkMethods e ns ms).refs) :
    N m reg x (walkMethods e ns ms)
      = (listRules (specEnvOf e reg) e.file ns (ms.flatMap methodTypes)).count x + (staticConstDiags e ms).count x := by
  induction ms with
  | nil => simp [walkMethods, N_empty, count_listRules_nil, staticConstDiags]
  | cons mt ms ih =>
    simp only [walkMethods, walkMethod, Collected.refs_append] at hb
    simp only [walkMethods, walkMethod, staticConstDiags, List.flatMap_cons, List.count_append, methodTypes]
    rw [N_append, N_append, N_append, N_append, count_walkPs e reg m ns x mt.params hb.left.left.left.left,
      count_walkOT e reg m ns x mt.ret hb.left.left.left.right, count_walkOTs e reg m ns x mt.throwing hb.left.left.right,
      N_ite, ih hb.right, count_listRules_append, count_listRules_append, count_listRules_append]
    simp only [staticConstDiags]
    omega

end walkers

/-! ### the specification side and the kind rules, with multiplicities -/

theorem count_declRules (se : SpecEnv) (file : String) (ns : List String) (d : Decl) (S : List SigU)
    (hs : sigsOf d = S ++ ((topTypes d).flatMap fnNodesT).map sigOfFn)
    (hf : ∀ n c sig pos, d ≠ .function n c sig pos) (x : Diag) :
    (declRules se file ns d).count x
      = (listRules se file ns (topTypes d)).count x + (S.flatMap (sigRules se file ns)).count x
          + (kindRules se file ns d).count x := by
  rw [declRules_eq, hs, fnFlagsOf_eq d hf]
  unfold listRules nodeRules
  simp only [List.count_append, List.flatMap_append]
  omega

theorem flatMap_ite_eq {α β : Type} (l : List α) (p : α → Bool) (g : α → β) :
    l.flatMap (fun a => if p a then [g a] else []) = (l.filter p).map g := by
  induction l with
  | nil => rfl
  | cons a l ih =>
    simp only [List.flatMap_cons, List.filter_cons, ih]
    cases h : p a <;> simp

theorem fnFieldDiags_eq (e : Env) (fields : List Field) :
    fnFieldDiags e fields = (fields.filter (fun f => isFn f.ty)).map (fun f => mk "ParsingException" "fn-field" e.file (posOf f.ty)) :=
  flatMap_ite_eq fields (fun f => isFn f.ty) (fun f => mk "ParsingException" "fn-field" e.file (posOf f.ty))

theorem staticConstDiags_eq (e : Env) (ms : List Method) :
    staticConstDiags e ms = (ms.filter (fun m => m.isStatic && m.isConst)).map (fun m => mk "ParsingException" "static-const" e.file m.pos) :=
  flatMap_ite_eq ms (fun m => m.isStatic && m.isConst) (fun m => mk "ParsingException" "static-const" e.file m.pos)

theorem flagModDiags_eq_filter (e : Env) (items : List FlagItem) (P : FlagItem → Bool)
    (hP : ∀ i, P i = (match i.modifier with | some m => !(m == "all" || m == "none") | none => false)) :
    flagModDiags e items = (items.filter P).map (fun i => mk "ParsingException" "flag-modifier" e.file i.modifierPos) := by
  induction items with
  | nil => rfl
  | cons i is ih =>
    simp only [flagModDiags, List.filter_cons, hP, ih]
    cases i.modifier with
    | none => rfl
    | some mo => cases hb : (mo == "all" || mo == "none") <;> simp [hb, mk]

theorem derivingDiags_eq_filter (e : Env) (l : List (String × Pos)) :
    derivingDiags e l = (l.filter (fun y => !(y.1 == "eq" || y.1 == "ord"))).map (fun y => mk "ParsingException" "deriving" e.file y.2) := by
  induction l with
  | nil => rfl
  | cons y l ih =>
    obtain ⟨d, p⟩ := y
    simp only [derivingDiags, List.filter_cons, ih]
    cases hb : (d == "eq" || d == "ord") <;> simp [mk]

theorem staticDiags_eq (e : Env) (cppOnly : Bool) (ms : List Method) :
    staticDiags e cppOnly ms
      = (if cppOnly then [] else (ms.filter (·.isStatic)).map (fun m => mk "ParsingException" "static-cpp" e.file m.pos)) := by
  induction ms with
  | nil => cases cppOnly <;> rfl
  | cons mt ms ih =>
    simp only [staticDiags, ih]
    cases cppOnly <;> cases h : mt.isStatic <;> simp [h, mk]

theorem count_flatMap_congr {α : Type} (l : List α) (f g : α → List Diag) (x : Diag)
    (h : ∀ a ∈ l, (f a).count x = (g a).count x) : (l.flatMap f).count x = (l.flatMap g).count x := by
  induction l with
  | nil => rfl
  | cons a l ih =>
    simp only [List.flatMap_cons, List.count_append]
    rw [h a (List.mem_cons_self ..), ih (fun b hb => h b (List.mem_cons_of_mem _ hb))]

/-- function / interface / error as record field type, collections under `ord`: the post-check goes field by field,
    the specification rule by rule -/
theorem count_checkFields (se : SpecEnv) (m : Resolved) (file : String) (ns : List String) (ord : Bool)
    (fields : List Field) (hag : ∀ f ∈ fields, primOf m file f.ty = specPrim se ns f.ty) (x : Diag) :
    (checkFields m file ord (fields.map (fun f => (f.pos, f.ty)))).count x
      = ((fields.filter (fun f => specPrim se ns f.ty == some .error)).map (fun f => mk "ParsingException" "field-error" file (posOf f.ty))).count x
        + ((fields.filter (fun f => specPrim se ns f.ty == some .interface)).map (fun f => mk "ParsingException" "field-interface" file (posOf f.ty))).count x
        + (if ord then (fields.filter (fun f => specPrim se ns f.ty == some .collection)).map (fun f => mk "ParsingException" "ord-collection" file f.pos) else []).count x := by
  induction fields with
  | nil => cases ord <;> simp [checkFields]
  | cons f fs ih =>
    have ha := hag f (List.mem_cons_self ..)
    have ih' := ih (fun g hg => hag g (List.mem_cons_of_mem _ hg))
    simp only [List.map_cons, checkFields, ha, List.count_append]
    rw [ih']
    cases hsp : specPrim se ns f.ty with
    | none => cases ord <;> simp [hsp] <;> omega
    | some q => cases q <;> cases ord <;> simp [hsp, pdiag, mk, List.count_cons] <;> omega

/-! ### per declaration, with multiplicities -/

/-- the deriving diagnostics of a record, as the visitor produces them -/
def derDiags (e : Env) (der : Option (List (String × Pos))) : List Diag :=
  match der with | some l => derivingDiags e l | none => []

theorem derDiags_eq (e : Env) (der : Option (List (String × Pos))) :
    derDiags e der
      = ((der.getD []).filter (fun y => !(y.1 == "eq" || y.1 == "ord"))).map (fun y => mk "ParsingException" "deriving" e.file y.2) := by
  cases der with
  | none => rfl
  | some l => exact derivingDiags_eq_filter e l

theorem walkDecl_record_eq (e : Env) (ns : List String) (n : String) (c : List String) (fl : List String) (fp : Pos)
    (fields : List Field) (der : Option (List (String × Pos))) (pos : Pos) :
    walkDecl e ns (.record n c fl fp fields der pos)
      = walkFields e ns fields ++ { diags := derDiags e der ++ targetDiags e fl fp }
          ++ reg1 e ns n .record pos (.record (fields.map (fun f => (f.pos, f.ty))) ((derivingOf e der).contains "ord")) := by
  cases der <;> rfl

theorem unitDiags_other (m : Resolved) (file : String) (ns : List String) :
    unitDiags m { file := file, ns := ns, unit := .other } = [] := rfl

section kinds
variable (e : Env) (reg : Registry) (m : Resolved) (ns : List String) (x : Diag)

theorem count_enum (n : String) (c : List String) (items : List Item) (pos : Pos) :
    N m reg x (walkDecl e ns (.enum n c items pos))
      = (declRules (specEnvOf e reg) e.file ns (.enum n c items pos)).count x := by
  rw [count_declRules _ _ _ _ [] rfl (by intro _ _ _ _ h; cases h)]
  simp only [walkDecl]
  rw [N_reg1, unitDiags_other]
  simp [topTypes, kindRules, count_listRules_nil]

theorem count_flags (n : String) (c : List String) (items : List FlagItem) (pos : Pos) :
    N m reg x (walkDecl e ns (.flags n c items pos))
      = (declRules (specEnvOf e reg) e.file ns (.flags n c items pos)).count x := by
  rw [count_declRules _ _ _ _ [] rfl (by intro _ _ _ _ h; cases h)]
  simp only [walkDecl]
  rw [N_append, N_diagsOnly, N_reg1, unitDiags_other]
  simp only [topTypes, kindRules, count_listRules_nil, List.flatMap_nil, List.count_nil, Nat.add_zero, Nat.zero_add]
  exact congrArg _ (flagModDiags_eq_filter e items _ (fun i => rfl))

theorem count_function (n : String) (c : List String) (sig : FnSig) (pos : Pos)
    (hb : Binds m reg (walkDecl e ns (.function n c sig pos)).refs) :
    N m reg x (walkDecl e ns (.function n c sig pos))
      = (declRules (specEnvOf e reg) e.file ns (.function n c sig pos)).count x := by
  rw [declRules_function, typeRules_eq_nodeRules]
  simp only [dataNodesT, fnNodesT]
  exact count_walkF' e reg m ns x sig hb

theorem count_error (n : String) (c : List String) (codes : List ErrCode) (pos : Pos)
    (hb : Binds m reg (walkDecl e ns (.error n c codes pos)).refs) :
    N m reg x (walkDecl e ns (.error n c codes pos))
      = (declRules (specEnvOf e reg) e.file ns (.error n c codes pos)).count x := by
  have hb' : Binds m reg (walkCodes e ns codes).refs := fun r hr => hb r (by
    simp only [walkDecl, Collected.refs_append, List.mem_append]; exact Or.inl hr)
  rw [count_declRules _ _ _ _ [] rfl (by intro _ _ _ _ h; cases h)]
  simp only [walkDecl]
  rw [N_append, count_walkCodes e reg m ns x codes hb', N_reg1, unitDiags_other]
  simp [topTypes, kindRules]

theorem count_record (n : String) (c : List String) (fl : List String) (fp : Pos) (fields : List Field)
    (der : Option (List (String × Pos))) (pos : Pos)
    (hb : Binds m reg (walkDecl e ns (.record n c fl fp fields der pos)).refs) :
    N m reg x (walkDecl e ns (.record n c fl fp fields der pos))
      = (declRules (specEnvOf e reg) e.file ns (.record n c fl fp fields der pos)).count x := by
  have hc := covers_walkFields e ns fields
  have hb' : Binds m reg (walkFields e ns fields).refs := fun r hr => hb r (by
    simp only [walkDecl, Collected.refs_append, List.mem_append]; exact Or.inl (Or.inl hr))
  have hag : ∀ f ∈ fields, primOf m e.file f.ty = specPrim (specEnvOf e reg) ns f.ty := fun f hf =>
    hc.primOf_eq reg m hb' f.ty (List.mem_map.mpr ⟨f, hf, rfl⟩)
  rw [count_declRules _ _ _ _ [] rfl (by intro _ _ _ _ h; cases h), walkDecl_record_eq]
  rw [N_append, N_append, count_walkFields e reg m ns x fields hb', N_diagsOnly, N_reg1]
  have hu : unitDiags m ⟨e.file, ns, .record (fields.map (fun f => (f.pos, f.ty))) ((derivingOf e der).contains "ord")⟩
      = checkFields m e.file ((derivingOf e der).contains "ord") (fields.map (fun f => (f.pos, f.ty))) := rfl
  rw [hu, derivingOf_contains_ord, count_checkFields (specEnvOf e reg) m e.file ns _ fields hag,
    fnFieldDiags_eq, derDiags_eq, targetDiags_eq_unknownTargets e reg]
  simp only [topTypes, kindRules, List.count_append, List.flatMap_nil, List.count_nil]
  omega

theorem count_interface (n : String) (c : List String) (main : Bool) (fl : List String) (fp : Pos)
    (methods : List Method) (props : List Prop') (pos : Pos)
    (hb : Binds m reg (walkDecl e ns (.interface n c main fl fp methods props pos)).refs) :
    N m reg x (walkDecl e ns (.interface n c main fl fp methods props pos))
      = (declRules (specEnvOf e reg) e.file ns (.interface n c main fl fp methods props pos)).count x := by
  have hc := (covers_walkMethods e ns methods).append (covers_walkProps e ns props)
  have hb' : Binds m reg (walkMethods e ns methods ++ walkProps e ns props).refs := fun r hr => hb r (by
    simp only [walkDecl, Collected.refs_append, List.mem_append] at hr ⊢; exact Or.inl (Or.inl hr))
  have hbM : Binds m reg (walkMethods e ns methods).refs := Binds.left hb'
  have hbP : Binds m reg (walkProps e ns props).refs := Binds.right hb'
  have hL : ∀ t ∈ methods.flatMap methodTypes ++ props.map (·.ty), primOf m e.file t = specPrim (specEnvOf e reg) ns t :=
    fun t ht => hc.primOf_eq reg m hb' t ht
  have hsig : ∀ s ∈ methods.map sigOfMethod,
      (sigDiags m e.file s).count x = (sigRules (specEnvOf e reg) e.file ns s).count x := by
    intro s hs
    obtain ⟨mth, hm, rfl⟩ := List.mem_map.mp hs
    have hsub : ∀ u ∈ sigTypes (sigOfMethod mth), u ∈ methodTypes mth := fun u hu => hu
    exact count_sigDiags (specEnvOf e reg) m e.file ns (sigOfMethod mth)
      (fun u hu => hL u (List.mem_append_left _ (List.mem_flatMap.mpr ⟨mth, hm, hsub u hu⟩))) x
  rw [count_declRules _ _ _ _ (methods.map sigOfMethod) rfl (by intro _ _ _ _ h; cases h)]
  simp only [walkDecl]
  rw [N_append, N_append, N_append, count_walkMethods e reg m ns x methods hbM, count_walkProps e reg m ns x props hbP,
    N_diagsOnly, N_reg1]
  have hu : unitDiags m ⟨e.file, ns, .iface (methods.map sigOfMethod)⟩
      = (methods.map sigOfMethod).flatMap (sigDiags m e.file) := rfl
  have htop : topTypes (.interface n c main fl fp methods props pos) = methods.flatMap methodTypes ++ props.map (·.ty) := rfl
  rw [hu, count_flatMap_congr _ _ _ x hsig, htop, count_listRules_append, staticConstDiags_eq, staticDiags_eq,
    targetDiags_eq_unknownTargets e reg]
  simp only [kindRules, mk, List.count_append]
  omega

end kinds

/-- **Per declaration, with multiplicities**: every diagnostic is reported as often as the specification lists it. -/
theorem count_walkDecl (e : Env) (reg : Registry) (m : Resolved) (ns : List String) (d : Decl)
    (hb : Binds m reg (walkDecl e ns d).refs) (x : Diag) :
    N m reg x (walkDecl e ns d) = (declRules (specEnvOf e reg) e.file ns d).count x := by
  cases d with
  | enum n c items pos => exact count_enum e reg m ns x n c items pos
  | flags n c items pos => exact count_flags e reg m ns x n c items pos
  | record n c fl fp fields der pos => exact count_record e reg m ns x n c fl fp fields der pos hb
  | interface n c main fl fp methods props pos => exact count_interface e reg m ns x n c main fl fp methods props pos hb
  | function n c sig pos => exact count_function e reg m ns x n c sig pos hb
  | error n c codes pos => exact count_error e reg m ns x n c codes pos hb

/-- `count_walkDecl` as a permutation: for one declaration, the front end's list
    (visit-time ++ reference-level ++ post-resolution diagnostics) is a permutation of `declRules` -/
theorem walkDecl_perm_declRules (env : Env) (reg : Registry) (m : Resolved) (ns : List String) (d : Decl)
    (hb : ∀ r ∈ (walkDecl env ns d).refs, m.get r.file r.pos = lexicalLookup reg r.ns r.name) :
    ((walkDecl env ns d).diags ++ (walkDecl env ns d).refs.flatMap (refDiags reg)
        ++ (walkDecl env ns d).units.flatMap (unitDiags m)).Perm
      (declRules { keys := env.keys, defaultDeriving := env.defaultDeriving, reg := reg } env.file ns d) :=
  List.perm_iff_count.mpr (fun x => count_walkDecl env reg m ns d hb x)

/-! ### per file, with multiplicities -/

mutual
theorem count_walkContent (e : Env) (reg : Registry) (m : Resolved) (ns : List String) (x : Diag) (c : Content)
    (hb : Binds m reg (walkContent e ns c).refs) :
    N m reg x (walkContent e ns c)
      = ((declsOfContent ns c).flatMap (fun p => declRules (specEnvOf e reg) e.file p.1 p.2)).count x := by
  cases c with
  | decl d =>
    simp only [walkContent] at hb ⊢
    simp only [declsOfContent, List.flatMap_cons, List.flatMap_nil, List.append_nil]
    exact count_walkDecl e reg m ns d hb x
  | ns name cm children pos =>
    simp only [walkContent] at hb ⊢
    simp only [declsOfContent]
    exact count_walkContents e reg m _ x children hb
theorem count_walkContents (e : Env) (reg : Registry) (m : Resolved) (ns : List String) (x : Diag) (cs : List Content)
    (hb : Binds m reg (walkContents e ns cs).refs) :
    N m reg x (walkContents e ns cs)
      = ((declsOfContents ns cs).flatMap (fun p => declRules (specEnvOf e reg) e.file p.1 p.2)).count x := by
  cases cs with
  | nil => simp only [walkContents, declsOfContents, N_empty, List.flatMap_nil, List.count_nil]
  | cons c cs =>
    simp only [walkContents, Collected.refs_append] at hb
    simp only [walkContents, declsOfContents, List.flatMap_append, List.count_append]
    rw [N_append, count_walkContent e reg m ns x c hb.left, count_walkContents e reg m ns x cs hb.right]
end

theorem violations_single_eq (keys dd : List String) (pre : Registry) (file : String) (contents : List Content) :
    violations keys dd pre [{ file := file, contents := contents }]
      = (declsOfContents [] contents).flatMap (fun p =>
          declRules { keys := keys, defaultDeriving := dd, reg := progRegistry pre [{ file := file, contents := contents }] } file p.1 p.2) := by
  unfold violations
  rw [progDecls_single, List.flatMap_map]

/-- **The diagnostics of a file are a permutation of the specification's violations.** Under the hypotheses of
    `finishFile_eq_violations` (declarations registered without duplicate, references at pairwise distinct positions,
    nothing bound yet), the list `finishFile` returns is a permutation of `violations`: every diagnostic is reported
    exactly as often as the specification lists it. -/
theorem finishFile_perm_violations (cfg : Cfg) (file : APath) (contents : List Content) (st : PState) (reg : Registry)
    (hres : st.resolved = [])
    (hreg : registerAll st.reg (walkContents { file := showPath file, keys := cfg.keys, defaultDeriving := cfg.defaultDeriving } [] contents).regs = .ok reg)
    (hnd : ((walkContents { file := showPath file, keys := cfg.keys, defaultDeriving := cfg.defaultDeriving } [] contents).refs.map
              (fun r => (r.file, r.pos))).Nodup) :
    let c := walkContents { file := showPath file, keys := cfg.keys, defaultDeriving := cfg.defaultDeriving } [] contents
    ∃ m ds, finishFile cfg file contents {} st
        = .ok ({ units := c.units, refs := c.refs, errors := ds }, { st with reg := reg, resolved := m })
      ∧ ds.Perm (violations cfg.keys cfg.defaultDeriving st.reg [{ file := showPath file, contents := contents }]) := by
  intro c
  obtain ⟨m, hfin, hbind⟩ := finishFile_out cfg file contents st reg hres hreg hnd
  have hregeq := registerAll_eq_progRegistry
    { file := showPath file, keys := cfg.keys, defaultDeriving := cfg.defaultDeriving } st.reg reg contents hreg
  refine ⟨m, _, hfin, List.perm_iff_count.mpr (fun x => ?_)⟩
  rw [violations_single_eq, ← hregeq]
  exact count_walkContents { file := showPath file, keys := cfg.keys, defaultDeriving := cfg.defaultDeriving }
    reg m [] x contents hbind

end Pydjinni.Front
