import PydjinniModel.Gen.Keywords
import PydjinniModel.Props.C02
/-!
# C01 — the reserved-identifier clause

"generating a target either stops with a documented application diagnostic (for example a reserved-keyword error)
or writes code that is well-formed" — the part about identifiers: an IDL name printed through a *validated* name
property never becomes a reserved word of the target language.

* `emitted_not_reserved`     a validated property that returns a string returns one that is not in the table (with a
                             separator: none of its components is) — any name, style, configuration, table
* `reserved_refused`         if the composed (i.e. *converted*) string, or one of its components, is in the table, the outcome
                             is the invalid-identifier diagnostic naming a word of a table — never an emitted identifier
* `validate_split`           with a separator every `split` component is checked; `split_join`: for `sep.join(parts)` of
                             separator-free parts the components are exactly the parts
* `no_reserved_word_emitted` reference table ⊆ implementation table ⇒ no reserved word *of the language* is emitted
                             by a property validated against it; `modelled_property_sound` instantiates it for the
                             properties of `specTable`
* `namespace_components_not_reserved`  for the `::` / `.` joined namespace and package paths: none of the joined components
                             (configured ones and converted IDL namespace parts) is a reserved word of the language
* `pascal_not_reserved`      why the fixed-PascalCase names of the Objective-C++ glue need no check
* `glued_not_reserved`       why `field_<name>`-style prints need no check

What ties the hypotheses to the tree under test is decided on every run by the generated file (`harness/kwtables.py`):
`refCovered liveTables l` for the four languages, `rowModelled` for every live name-producing property and `siteOk` for every
place a template prints one.
-/
namespace Pydjinni.Gen.Keywords
open Pydjinni.Gen

/-! ### `validate` -/

theorem validate_ok {kw : List String} {l : Lang} {sep : Option String} {s s' : String}
    (h : validate kw l sep s = .ok s') : s' = s ∧ ∀ t ∈ tokens sep s, t ∉ kw := by
  unfold validate at h
  split at h
  · cases h
  · rename_i hnone
    injection h with h
    refine ⟨h.symm, ?_⟩
    intro t ht hmem
    have := List.find?_eq_none.mp hnone t ht
    simp [hmem] at this

theorem validate_error {kw : List String} {l : Lang} {sep : Option String} {s : String} {d : Diag}
    (h : validate kw l sep s = .error d) : ∃ w, d = .invalidIdentifier l w ∧ w ∈ kw ∧ w ∈ tokens sep s := by
  unfold validate at h
  split at h
  · rename_i t hsome
    injection h with h
    refine ⟨t, h.symm, ?_, List.mem_of_find?_eq_some hsome⟩
    have := List.find?_some hsome
    simpa [List.contains_iff_mem] using this
  · cases h

theorem validate_hit {kw : List String} (l : Lang) {sep : Option String} {s t : String}
    (ht : t ∈ tokens sep s) (hk : t ∈ kw) : ∃ w, validate kw l sep s = .error (.invalidIdentifier l w) ∧ w ∈ kw := by
  cases hv : validate kw l sep s with
  | ok s' => exact absurd hk ((validate_ok hv).2 t ht)
  | error d =>
    obtain ⟨w, hd, hw, _⟩ := validate_error hv
    exact ⟨w, by rw [hd], hw⟩

/-- (c) with a separator, every component of `result.split(separator)` is checked -/
theorem validate_split {kw : List String} {l : Lang} {sep s s' : String} (hsep : sep.toList.isEmpty = false)
    (h : validate kw l (some sep) s = .ok s') :
    ∀ t ∈ splitOnL sep.toList s.toList, String.ofList t ∉ kw := by
  intro t ht
  have := (validate_ok h).2 (String.ofList t)
  apply this
  simp only [tokens, hsep]
  exact List.mem_map_of_mem ht

/-! ### `split` of a `join` -/

/-- no character of the part starts the separator -/
def sepFree (c0 : Char) (part : List Char) : Prop := ∀ x ∈ part, x ≠ c0

instance (c0 : Char) (part : List Char) : Decidable (sepFree c0 part) := by unfold sepFree; infer_instance

theorem isPrefixOf_cons_false {c0 c : Char} {rest cs : List Char} (h : c ≠ c0) :
    (c0 :: rest).isPrefixOf (c :: cs) = false := by
  simp [List.isPrefixOf, Ne.symm h]

theorem splitGo_hit {sep : List Char} {c : Char} {cs : List Char} (h : sep.isPrefixOf (c :: cs) = true) :
    splitGo sep 0 (c :: cs) = [] :: splitGo sep (sep.length - 1) cs := by
  rw [splitGo]; simp [h]

theorem splitGo_miss {sep : List Char} {c : Char} {cs : List Char} (h : sep.isPrefixOf (c :: cs) = false) :
    splitGo sep 0 (c :: cs) = pushChar c (splitGo sep 0 cs) := by
  rw [splitGo]; simp [h]

theorem splitGo_skip (sep : List Char) (pre rest : List Char) :
    splitGo sep pre.length (pre ++ rest) = splitGo sep 0 rest := by
  induction pre with
  | nil => rfl
  | cons p ps ih => simpa [splitGo] using ih

theorem splitGo_ne_nil (sep : List Char) : ∀ (n : Nat) (s : List Char), splitGo sep n s ≠ []
  | _, [] => by simp [splitGo]
  | n + 1, _ :: cs => by simpa [splitGo] using splitGo_ne_nil sep n cs
  | 0, c :: cs => by
    unfold splitGo
    split
    · simp
    · unfold pushChar; split <;> simp

/-- a separator-free part followed by the end of the text is one token -/
theorem splitGo_part_end (c0 : Char) (rest : List Char) :
    ∀ part : List Char, sepFree c0 part → splitGo (c0 :: rest) 0 part = [part]
  | [], _ => rfl
  | c :: cs, h => by
    have hc : c ≠ c0 := h c (List.mem_cons_self)
    have ih := splitGo_part_end c0 rest cs (fun x hx => h x (List.mem_cons_of_mem _ hx))
    rw [splitGo_miss (isPrefixOf_cons_false hc), ih]; rfl

/-- a separator-free part followed by the separator: the token ends there -/
theorem splitGo_part_sep (c0 : Char) (rest tail : List Char) :
    ∀ part : List Char, sepFree c0 part →
      splitGo (c0 :: rest) 0 (part ++ (c0 :: rest) ++ tail) = part :: splitGo (c0 :: rest) 0 tail
  | [], _ => by
    have hp : (c0 :: rest).isPrefixOf (c0 :: (rest ++ tail)) = true := by
      simp [List.isPrefixOf]
    have hskip := splitGo_skip (c0 :: rest) rest tail
    simp only [List.nil_append, List.cons_append]
    rw [splitGo_hit hp]
    simp only [List.length_cons, Nat.add_sub_cancel]
    rw [hskip]
  | c :: cs, h => by
    have hc : c ≠ c0 := h c (List.mem_cons_self)
    have ih := splitGo_part_sep c0 rest tail cs (fun x hx => h x (List.mem_cons_of_mem _ hx))
    simp only [List.cons_append] at ih ⊢
    rw [splitGo_miss (isPrefixOf_cons_false hc), ih]; rfl

/-- `sep.join(parts).split(sep) == parts` when no part contains the separator's first character
(identifier components never contain `:` or `.`): the components `validate` checks are the namespace components -/
theorem split_join (c0 : Char) (rest : List Char) :
    ∀ parts : List (List Char), parts ≠ [] → (∀ p ∈ parts, sepFree c0 p) →
      splitOnL (c0 :: rest) (joinL (c0 :: rest) parts) = parts
  | [], h, _ => absurd rfl h
  | [p], _, hp => by
    simpa [splitOnL, joinL] using splitGo_part_end c0 rest p (hp p (List.mem_singleton.mpr rfl))
  | p :: q :: ps, _, hp => by
    have ih := split_join c0 rest (q :: ps) (by simp) (fun x hx => hp x (List.mem_cons_of_mem _ hx))
    have h1 := splitGo_part_sep c0 rest (joinL (c0 :: rest) (q :: ps)) p (hp p (List.mem_cons_self))
    simp only [splitOnL] at ih ⊢
    simp only [joinL]
    rw [h1, ih]

/-! ### stacked checks, properties -/

theorem runChecks_ok {T : Tables} : ∀ {cs : List (Lang × Option String)} {s s' : String},
    runChecks T cs s = .ok s' → s' = s ∧ ∀ p ∈ cs, ∀ t ∈ tokens p.2 s, t ∉ T.get p.1
  | [], s, s', h => by
    simp only [runChecks] at h
    injection h with h
    exact ⟨h.symm, by simp⟩
  | (l, sep) :: rest, s, s', h => by
    simp only [runChecks] at h
    cases hv : validate (T.get l) l sep s with
    | error d => rw [hv] at h; cases h
    | ok s1 =>
      rw [hv] at h
      obtain ⟨e1, h1⟩ := validate_ok hv
      subst e1
      obtain ⟨e2, h2⟩ := runChecks_ok h
      refine ⟨e2, ?_⟩
      intro p hp
      rcases List.mem_cons.mp hp with rfl | hp
      · exact h1
      · exact h2 p hp

theorem runChecks_error {T : Tables} : ∀ {cs : List (Lang × Option String)} {s : String} {d : Diag},
    runChecks T cs s = .error d → ∃ l w, d = .invalidIdentifier l w ∧ w ∈ T.get l
  | [], s, d, h => by simp [runChecks] at h
  | (l, sep) :: rest, s, d, h => by
    simp only [runChecks] at h
    cases hv : validate (T.get l) l sep s with
    | error d1 =>
      rw [hv] at h
      injection h with h
      obtain ⟨w, hd, hw, _⟩ := validate_error hv
      exact ⟨l, w, by rw [← h, hd], hw⟩
    | ok s1 =>
      rw [hv] at h
      exact runChecks_error h

theorem runChecks_hit {T : Tables} : ∀ {cs : List (Lang × Option String)} {s t : String} {l : Lang} {sep : Option String},
    (l, sep) ∈ cs → t ∈ tokens sep s → t ∈ T.get l →
    ∃ l' w, runChecks T cs s = .error (.invalidIdentifier l' w) ∧ w ∈ T.get l'
  | [], _, _, _, _, h, _, _ => by cases h
  | (l0, sep0) :: rest, s, t, l, sep, hmem, ht, hk => by
    simp only [runChecks]
    cases hv : validate (T.get l0) l0 sep0 s with
    | error d =>
      obtain ⟨w, hd, hw, _⟩ := validate_error hv
      exact ⟨l0, w, by simp [hd], hw⟩
    | ok s1 =>
      obtain ⟨e1, h1⟩ := validate_ok hv
      subst e1
      rcases List.mem_cons.mp hmem with heq | hrest
      · injection heq with ha hb
        subst ha; subst hb
        exact absurd hk (h1 t ht)
      · exact runChecks_hit hrest ht hk

/-- every diagnostic of a name property is the documented invalid-identifier diagnostic, naming a word of a table -/
theorem outcome_error_documented {T : Tables} {c : Cfg} {gen : String} {sp : Spec} {d : Decl} {e : Diag}
    (h : specOutcome T c gen sp d = .error e) : ∃ l w, e = .invalidIdentifier l w ∧ w ∈ T.get l := by
  unfold specOutcome at h
  cases hc : compose T sp c gen d with
  | ok s => rw [hc] at h; exact runChecks_error h
  | error e1 =>
    rw [hc] at h
    injection h with h
    subst h
    -- the only failing step inside `compose` is the validated namespace property
    unfold compose at hc
    have ens : ∀ e', evalNs T c gen d = .error e' → ∃ l w, e' = .invalidIdentifier l w ∧ w ∈ T.get l := by
      intro e' he
      unfold evalNs at he
      split at he
      · exact runChecks_error he
      · cases he
    split at hc
    · split at hc
      · rename_i he; injection hc with hc; subst hc; exact ens _ he
      · cases hc
    · split at hc
      · rename_i he; injection hc with hc; subst hc; exact ens _ he
      · cases hc
    · cases hc

/-- **(a)** if a property returns a string, no `@validate` decorator of it finds a token of that string in its table:
for a check without separator the emitted identifier itself is not in the table -/
theorem emitted_not_reserved {T : Tables} {c : Cfg} {gen : String} {sp : Spec} {d : Decl} {s : String}
    (h : specOutcome T c gen sp d = .ok s) :
    ∀ p ∈ sp.checks, ∀ t ∈ tokens p.2 s, t ∉ T.get p.1 := by
  unfold specOutcome at h
  cases hc : compose T sp c gen d with
  | error e => rw [hc] at h; cases h
  | ok r =>
    rw [hc] at h
    obtain ⟨e, hall⟩ := runChecks_ok h
    subst e
    exact hall

theorem emitted_not_reserved_whole {T : Tables} {c : Cfg} {gen : String} {sp : Spec} {d : Decl} {s : String} {l : Lang}
    (hv : (l, none) ∈ sp.checks) (h : specOutcome T c gen sp d = .ok s) : s ∉ T.get l :=
  emitted_not_reserved h (l, none) hv s (by simp [tokens])

/-- **(b)** if the composed string — the name *after* identifier-style conversion — or one of its components is in the
table of one of the property's checks, the outcome is the invalid-identifier diagnostic, never an identifier -/
theorem reserved_refused {T : Tables} {c : Cfg} {gen : String} {sp : Spec} {d : Decl} {r t : String} {l : Lang}
    {sep : Option String} (hc : compose T sp c gen d = .ok r) (hv : (l, sep) ∈ sp.checks)
    (ht : t ∈ tokens sep r) (hk : t ∈ T.get l) :
    ∃ l' w, specOutcome T c gen sp d = .error (.invalidIdentifier l' w) ∧ w ∈ T.get l' := by
  unfold specOutcome
  rw [hc]
  exact runChecks_hit hv ht hk

/-- (b) for the plain shape: the *converted* name decides, whatever the spelling in the IDL -/
theorem converted_reserved_refused {T : Tables} {c : Cfg} {gen : String} {sp : Spec} {d : Decl} {l : Lang}
    (hs : sp.shape = .simple) (hv : (l, none) ∈ sp.checks) (hk : simpleName sp c gen d ∈ T.get l) :
    ∃ l' w, specOutcome T c gen sp d = .error (.invalidIdentifier l' w) ∧ w ∈ T.get l' := by
  have hc : compose T sp c gen d = .ok (simpleName sp c gen d) := by
    simp [compose, flatCompose, hs]
  exact reserved_refused hc hv (by simp [tokens]) hk

/-! ### reference ⊆ implementation -/

theorem refCovered_mem {T : Tables} {l : Lang} (h : refCovered T l = true) {w : String} (hw : w ∈ reference l) :
    w ∈ T.get l := by
  have := List.all_eq_true.mp h w hw
  simpa [List.contains_iff_mem] using this

/-- **(d)** when the implementation's table covers the reference table of the language, a property validated against it
never emits a reserved word of the language (with a separator: none of the components is one) -/
theorem no_reserved_word_emitted {T : Tables} {c : Cfg} {gen : String} {sp : Spec} {d : Decl} {s : String} {l : Lang}
    {sep : Option String} (hcov : refCovered T l = true) (hv : (l, sep) ∈ sp.checks)
    (h : specOutcome T c gen sp d = .ok s) : ∀ t ∈ tokens sep s, t ∉ reference l := by
  intro t ht href
  exact emitted_not_reserved h (l, sep) hv t ht (refCovered_mem hcov href)

/-- (d) for the properties of the tree under test: a modelled property that is validated against its generator's
language emits no reserved word of that language, for every IDL name, namespace, identifier style and configuration -/
theorem modelled_property_sound {T : Tables} {c : Cfg} {gen cls attr : String} {sp : Spec} {d : Decl} {s : String}
    {l : Lang} (_hsp : specOf gen cls attr = some sp) (_hl : langOfGen gen = some l) (hcov : refCovered T l = true)
    (hv : (l, none) ∈ sp.checks) (h : nameOutcome T c gen cls attr d = some (.ok s)) : s ∉ reference l := by
  simp only [nameOutcome, _hsp, Option.map_some, Option.some.injEq] at h
  exact no_reserved_word_emitted hcov hv h s (by simp [tokens])

/-! ### `sep.join(components)` end to end -/

theorem joinS_toList (sep : String) : ∀ parts : List String, (joinS sep parts).toList = joinL sep.toList (parts.map String.toList)
  | [] => by simp [joinS, joinL]
  | [x] => by simp [joinS, joinL]
  | x :: y :: rest => by
    have ih := joinS_toList sep (y :: rest)
    simp only [joinS, String.toList_append, List.map_cons, joinL] at ih ⊢
    rw [ih]

theorem tokens_join {sep : String} {c0 : Char} {rest : List Char} (hsep : sep.toList = c0 :: rest) {parts : List String}
    (hne : parts ≠ []) (hfree : ∀ p ∈ parts, sepFree c0 p.toList) : tokens (some sep) (joinS sep parts) = parts := by
  have hs : sep.toList.isEmpty = false := by simp [hsep]
  simp only [tokens, hs]
  rw [joinS_toList, hsep, split_join c0 rest (parts.map String.toList) (by simpa using hne)
    (by intro q hq; obtain ⟨p', hp', rfl⟩ := List.mem_map.mp hq; exact hfree p' hp')]
  simp [List.map_map]

theorem specOutcome_ok_compose {T : Tables} {c : Cfg} {gen : String} {sp : Spec} {d : Decl} {s : String}
    (h : specOutcome T c gen sp d = .ok s) : compose T sp c gen d = .ok s := by
  unfold specOutcome at h
  cases hc : compose T sp c gen d with
  | error e => rw [hc] at h; cases h
  | ok r => rw [hc] at h; rw [(runChecks_ok h).1]

/-- the namespace / package path (`CppBaseType.namespace`, `JavaBaseType.package`, …): when the property returns, none of the
configured and converted components it joined is a reserved word of the language -/
theorem namespace_components_not_reserved {T : Tables} {c : Cfg} {gen : String} {sp : Spec} {d : Decl} {s sep : String}
    {l : Lang} {c0 : Char} {rest : List Char} (hshape : sp.shape = .nsPath sep) (hv : (l, some sep) ∈ sp.checks)
    (hsep : sep.toList = c0 :: rest) (hcov : refCovered T l = true)
    (hne : c.base gen ++ d.ns.map (convert (sp.styleOf c gen)) ≠ [])
    (hfree : ∀ p ∈ c.base gen ++ d.ns.map (convert (sp.styleOf c gen)), sepFree c0 p.toList)
    (h : specOutcome T c gen sp d = .ok s) :
    ∀ p ∈ c.base gen ++ d.ns.map (convert (sp.styleOf c gen)), p ∉ reference l := by
  have hc := specOutcome_ok_compose h
  have hs : s = joinS sep (c.base gen ++ d.ns.map (convert (sp.styleOf c gen))) := by
    simp only [compose, hshape, flatCompose, nsPathOf] at hc
    injection hc with hc
    exact hc.symm
  intro p hp
  have := no_reserved_word_emitted hcov hv h p
  rw [hs, tokens_join hsep hne hfree] at this
  exact this hp

/-! ### harmless by construction -/

def startsLower (w : String) : Bool := match w.toList with | c :: _ => !isUpperC c | [] => true

theorem reference_starts_lower : ∀ l : Lang, (reference l).all startsLower = true := by
  intro l; cases l <;> decide +kernel

theorem letters_up_upper : ∀ c ∈ uppers ++ lowers, isUpperC (up c) = true := by decide

theorem up_isUpper {c : Char} (h : isLetterC c = true) : isUpperC (up c) = true := by
  simp only [isLetterC, Bool.or_eq_true] at h
  rcases h with h | h
  · exact letters_up_upper c (List.mem_append_left _ (upper_mem c h))
  · exact letters_up_upper c (List.mem_append_right _ (lower_mem c h))

theorem joinL_nil_head (t : List Char) (ts : List (List Char)) (c : Char) (cs : List Char) (h : t = c :: cs) :
    ∃ rest, joinL [] (t :: ts) = c :: rest := by
  subst h
  cases ts with
  | nil => exact ⟨cs, rfl⟩
  | cons u us => exact ⟨cs ++ [] ++ joinL [] (u :: us), by simp [joinL]⟩

/-- the PascalCase spelling of an IDL identifier (which starts with a letter) starts with an upper-case letter -/
theorem pascal_head_upper (c : Char) (cs : List Char) (hc : isLetterC c = true) :
    ∃ rest, convertBody .pascal (c :: cs) = up c :: rest := by
  have hne : c ≠ '_' := by
    intro h; subst h; revert hc; decide
  unfold convertBody tokensOf
  simp only [show (Case.pascal = Case.none) = False from by simp, if_false, link]
  unfold splitU
  simp only [hne, if_false]
  cases hs : splitU cs with
  | nil =>
    exact ⟨[], by simp [convTokens, convTok, capitalizeL, joinL]⟩
  | cons t ts =>
    simp only [convTokens, convTok, capitalizeL]
    exact joinL_nil_head _ _ (up c) (t.map lo) rfl

/-- **Objective-C++ glue**: a name written in fixed PascalCase (no prefix) is no reserved word of any generated language -/
theorem pascal_not_reserved (l : Lang) (c : Char) (cs : List Char) (hc : isLetterC c = true) :
    convert { case := .pascal } (String.ofList (c :: cs)) ∉ reference l := by
  intro hmem
  have hlow := List.all_eq_true.mp (reference_starts_lower l) _ hmem
  obtain ⟨rest, hr⟩ := pascal_head_upper c cs hc
  have : (convert { case := .pascal } (String.ofList (c :: cs))).toList = up c :: rest := by
    simp [convert, convertL, pfxL, hr]
  unfold startsLower at hlow
  rw [this] at hlow
  simp [up_isUpper hc] at hlow

/-- **glued prints** (`field_{{ x.jni.name }}`): an identifier that starts with a literal no table word starts with is
not in the table, whatever follows -/
theorem glued_not_reserved (tbl : List String) (p x : String)
    (h : tbl.all (fun w => !startsWithL w p) = true) : p ++ x ∉ tbl := by
  intro hmem
  have := List.all_eq_true.mp h _ hmem
  simp only [startsWithL, String.toList_append, Bool.not_eq_true'] at this
  have h2 : p.toList.isPrefixOf (p.toList ++ x.toList) = true := by
    rw [List.isPrefixOf_iff_prefix]; exact List.prefix_append _ _
  rw [h2] at this; cases this

/-! ### the statements are not vacuous -/

/-- tables of the tree under test, abridged -/
def demoTables : Tables :=
  { cxx := ["class", "delete", "co_await", "namespace"], java := ["class", "native", "volatile", "null"],
    objc := ["int", "id"], cli := ["gcnew", "delete"], swift := ["Type"] }

def demoCfg (k : Case) : Cfg :=
  { style := fun _ _ => { case := k }, base := fun g => if g == "java" then ["my", "lib"] else ["my", "lib"], objcPrefix := "ML" }

-- validation happens *after* conversion: `Class` is refused as a camelCase Java field, accepted as a PascalCase type
example : nameOutcome demoTables (demoCfg .camel) "java" "JavaBaseField" "name" { name := "Class" }
    = some (.error (.invalidIdentifier .java "class")) := by decide +kernel
example : nameOutcome demoTables (demoCfg .pascal) "java" "JavaBaseType" "name" { name := "class" }
    = some (.ok "Class") := by decide +kernel
-- `co__await` converts to `co_await` under snake_case
example : nameOutcome demoTables (demoCfg .snake) "cpp" "CppBaseField" "name" { name := "Co__Await" }
    = some (.ok "co__await") := by decide +kernel
example : nameOutcome demoTables (demoCfg .snake) "cpp" "CppBaseField" "name" { name := "CO_AWAIT" }
    = some (.error (.invalidIdentifier .cxx "co_await")) := by decide +kernel
-- every namespace component is checked
example : nameOutcome demoTables (demoCfg .snake) "cpp" "CppBaseType" "namespace" { ns := ["a", "Delete", "b"], name := "x" }
    = some (.error (.invalidIdentifier .cxx "delete")) := by decide +kernel
example : nameOutcome demoTables (demoCfg .pascal) "cpp" "CppBaseType" "namespace" { ns := ["a", "delete"], name := "x" }
    = some (.ok "my::lib::A::Delete") := by decide +kernel
-- a `record +cpp` is generated as `<name>_base`; the user-derived class keeps the name
example : nameOutcome demoTables (demoCfg .none) "cpp" "CppRecord" "name" { name := "delete", base := true }
    = some (.ok "delete_base") := by decide +kernel
example : nameOutcome demoTables (demoCfg .none) "cpp" "CppRecord" "derived_name" { name := "delete", base := true }
    = some (.error (.invalidIdentifier .cxx "delete")) := by decide +kernel
-- Java record type name: package components and simple name
example : nameOutcome demoTables (demoCfg .none) "java" "JavaRecord" "typename" { ns := ["q"], name := "native" }
    = some (.error (.invalidIdentifier .java "native")) := by decide +kernel
example : nameOutcome demoTables (demoCfg .pascal) "java" "JavaRecord" "typename" { ns := ["q"], name := "native" }
    = some (.ok "my.lib.Q.Native") := by decide +kernel
-- Objective-C: prefix ++ namespace ++ name is what is checked
example : nameOutcome demoTables { demoCfg .none with objcPrefix := "" } "objc" "ObjcBaseType" "name" { name := "int" }
    = some (.error (.invalidIdentifier .objc "int")) := by decide +kernel
example : nameOutcome demoTables (demoCfg .none) "objc" "ObjcBaseType" "name" { name := "int" }
    = some (.ok "MLint") := by decide +kernel
example : nameOutcome demoTables (demoCfg .none) "objc" "ObjcBaseType" "name" { ns := ["Type"], name := "x" }
    = some (.error (.invalidIdentifier .swift "Type")) := by decide +kernel
-- the hypotheses of `namespace_components_not_reserved` are satisfiable (tables = reference tables)
def refTables : Tables := { cxx := cxxReserved, java := javaReserved, objc := objcReserved, cli := cliReserved, swift := [] }
def nsSpec : Spec := { role := "namespace", shape := .nsPath "::", styleKey := "namespace", checks := [(.cxx, some "::")] }
example : ∀ p ∈ ["my", "lib", "geo", "flat_map"], p ∉ reference .cxx :=
  namespace_components_not_reserved (T := refTables) (c := demoCfg .snake) (gen := "cpp") (sp := nsSpec)
    (d := { ns := ["Geo", "Flat_Map"], name := "x" }) (s := "my::lib::geo::flat_map") (sep := "::") (c0 := ':') (rest := [':'])
    rfl (by decide) (by decide +kernel) (by decide +kernel) (by decide +kernel) (by decide +kernel) (by decide +kernel)
-- the known finding: C++/CLI locals are not checked
example : nameOutcome demoTables (demoCfg .camel) "cppcli" "CppCliBaseField" "name" { name := "gcnew" }
    = some (.ok "gcnew") := by decide +kernel
-- `split` as Python does it
example : splitOnL "::".toList "a::b:::c".toList = ["a".toList, "b".toList, ":c".toList] := by decide +kernel
example : splitOnL "::".toList "::a::".toList = [[], "a".toList, []] := by decide +kernel
example : refCovered { cxx := cxxReserved, java := javaReserved, objc := objcReserved, cli := cliReserved, swift := [] } .java = true := by
  decide +kernel

end Pydjinni.Gen.Keywords
