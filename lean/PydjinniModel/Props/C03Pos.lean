import PydjinniModel.Props.C03Decl
import PydjinniModel.Props.C03Lex
import PydjinniModel.Props.C05Program
/-!
# C03 / C05 — the reference positions of an accepted text are pairwise distinct (H4 derived)

`Props/C05Program.lean` assumes `RefPositionsDistinct` (H4): the type references `walkContents` collects from a
file's contents carry pairwise distinct positions. This file derives it from the lexer and parser models:

1. `lex_starts_increasing`, `lex_starts_nodup`: the tokens of `lex src` have strictly increasing start positions
   `(line, col)` (lexicographically, in reading order), hence pairwise distinct ones;
2. a parser invariant `Cov refs pre` ("covered"): every start position `(pos.sl, pos.sc)` occurs among the
   references `refs` at most as often as among the start positions of the consumed tokens `pre`. Every parser
   function consumes a prefix `pre` of its input and the references `walk…` collects from its result are covered by
   `pre` (a `dataType` node takes its start from its first token — the `nsIdentifier` — and its generic arguments from
   later tokens; sibling sub-parses consume disjoint consecutive segments). The invariant is proved for every
   candidate of the list-of-successes layer (inline function types included) and for all six declaration kinds,
   namespaces and whole files;
3. `parseText_refPositionsDistinct`: **H4 holds for every accepted text** (`parseText_refStarts_nodup`: already the
   start positions `(sl, sc)` of the references are pairwise distinct; `parseFile_cov`: the token-level statement).

Also exported (used by `Props/C03Sound.lean`): the structural inversion lemmas `member_inv`, `typeDecl_interface_inv`,
`typeDecl_error_inv`, `typeDecl_function_inv` (what an accepted member / declaration of that kind consumed),
`optKw_sound`, `Member.method?`, `Member.prop?`. The whole-program corollaries without H4 are in
`Props/C16ProgramPos.lean`.
-/
set_option linter.unusedSimpArgs false
set_option linter.unusedVariables false

namespace Pydjinni.Front

/-! ## 1. the lexer: start positions increase strictly -/

/-- start position of a token -/
def tst (t : Token) : Nat × Nat := (t.line, t.col)

/-- lexicographic order on (line, column) -/
def PLt (a b : Nat × Nat) : Prop := a.1 < b.1 ∨ (a.1 = b.1 ∧ a.2 < b.2)
def PLe (a b : Nat × Nat) : Prop := a.1 < b.1 ∨ (a.1 = b.1 ∧ a.2 ≤ b.2)

theorem PLt.ne {a b : Nat × Nat} (h : PLt a b) : a ≠ b := by
  rintro rfl
  rcases h with h | ⟨_, h⟩ <;> omega

theorem PLt_of_lt_le {a b c : Nat × Nat} (h1 : PLt a b) (h2 : PLe b c) : PLt a c := by
  unfold PLt PLe at *
  omega

theorem PLe_trans {a b c : Nat × Nat} (h1 : PLe a b) (h2 : PLe b c) : PLe a c := by
  unfold PLe at *
  omega

theorem PLt.le {a b : Nat × Nat} (h : PLt a b) : PLe a b := by
  unfold PLt PLe at *
  omega

theorem advance_ge (line col : Nat) (xs : List Char) : PLe (line, col) (advance line col xs) := by
  induction xs generalizing line col with
  | nil => simp [advance, PLe]
  | cons x xs ih =>
    simp only [advance]
    split
    · have := ih (line+1) 0; unfold PLe at *; simp only at *; omega
    · have := ih line (col+1); unfold PLe at *; simp only at *; omega

theorem advance_gt (line col : Nat) (xs : List Char) (hne : xs ≠ []) : PLt (line, col) (advance line col xs) := by
  cases xs with
  | nil => exact absurd rfl hne
  | cons x xs =>
    simp only [advance]
    split
    · have := advance_ge (line+1) 0 xs; unfold PLe PLt at *; simp only at *; omega
    · have := advance_ge line (col+1) xs; unfold PLe PLt at *; simp only at *; omega

theorem tokensOf_lb (line col : Nat) (ps : List Piece) : ∀ t ∈ tokensOf line col ps, PLe (line, col) (tst t) := by
  induction ps generalizing line col with
  | nil => simp [tokensOf]
  | cons p ps ih =>
    cases p with
    | ws w =>
      intro t ht
      simp only [tokensOf] at ht
      exact PLe_trans (advance_ge line col w) (ih _ _ t ht)
    | tok k w =>
      intro t ht
      simp only [tokensOf, List.mem_cons] at ht
      rcases ht with rfl | ht
      · simp [tst, PLe]
      · exact PLe_trans (advance_ge line col w) (ih _ _ t ht)

theorem tokensOf_increasing (line col : Nat) (ps : List Piece) (hwf : ∀ p ∈ ps, p.WF) :
    (tokensOf line col ps).Pairwise (fun a b => PLt (tst a) (tst b)) := by
  induction ps generalizing line col with
  | nil => simp [tokensOf]
  | cons p ps ih =>
    have hwf' : ∀ p ∈ ps, p.WF := fun q hq => hwf q (List.mem_cons_of_mem _ hq)
    cases p with
    | ws w => simp only [tokensOf]; exact ih _ _ hwf'
    | tok k w =>
      simp only [tokensOf, List.pairwise_cons]
      refine ⟨?_, ih _ _ hwf'⟩
      intro t ht
      have hw : w ≠ [] := (hwf (Piece.tok k w) List.mem_cons_self).1
      exact PLt_of_lt_le (advance_gt line col w hw) (tokensOf_lb _ _ ps t ht)

/-- **Start positions increase strictly in reading order**: of two tokens of a lexed text, the later one starts on a
    later line, or on the same line at a larger column. -/
theorem lex_starts_increasing {s : String} {toks : List Token} (h : lex s = some toks) :
    toks.Pairwise (fun a b => PLt (tst a) (tst b)) := by
  obtain ⟨ps, _, _, hwf, rfl, _⟩ := lex_reconstruct h
  exact tokensOf_increasing 1 0 ps hwf

/-- the tokens of a lexed text start at pairwise distinct positions -/
theorem lex_starts_nodup {s : String} {toks : List Token} (h : lex s = some toks) : (toks.map tst).Nodup := by
  unfold List.Nodup
  rw [List.pairwise_map]
  exact (lex_starts_increasing h).imp (fun hab => hab.ne)

/-! ## 2. covered references -/

/-- start position of a reference -/
def rst (r : RefSite) : Nat × Nat := (r.pos.sl, r.pos.sc)

/-- every start position occurs among `refs` at most as often as among the tokens `pre` -/
def Cov (refs : List RefSite) (pre : List Token) : Prop :=
  ∀ x, (refs.map rst).count x ≤ (pre.map tst).count x

theorem Cov.nil (pre : List Token) : Cov [] pre := by intro x; simp

theorem Cov.of_eq_nil {refs : List RefSite} (h : refs = []) (pre : List Token) : Cov refs pre := by
  subst h; exact Cov.nil pre

theorem Cov.append {r1 r2 : List RefSite} {p1 p2 : List Token} (h1 : Cov r1 p1) (h2 : Cov r2 p2) :
    Cov (r1 ++ r2) (p1 ++ p2) := by
  intro x
  have := h1 x; have := h2 x
  simp only [List.map_append, List.count_append]
  omega

theorem Cov.append_comm {r1 r2 : List RefSite} {p : List Token} (h : Cov (r1 ++ r2) p) : Cov (r2 ++ r1) p := by
  intro x
  have := h x
  simp only [List.map_append, List.count_append] at *
  omega

theorem Cov.left {r : List RefSite} {p : List Token} (h : Cov r p) (q : List Token) : Cov r (q ++ p) := by
  intro x
  have := h x
  simp only [List.map_append, List.count_append]
  omega

theorem Cov.right {r : List RefSite} {p : List Token} (h : Cov r p) (q : List Token) : Cov r (p ++ q) := by
  intro x
  have := h x
  simp only [List.map_append, List.count_append]
  omega

theorem Cov.cons {r : List RefSite} {p : List Token} (h : Cov r p) (t : Token) : Cov r (t :: p) :=
  h.left [t]

/-- the reference whose start is the start of `t` -/
theorem Cov.single (r : RefSite) (t : Token) (h : rst r = tst t) : Cov [r] [t] := by
  intro x
  simp [h]

theorem Cov.congr {r r' : List RefSite} {p : List Token} (h : Cov r p) (he : r' = r) : Cov r' p := he ▸ h

theorem Cov.nodup {refs : List RefSite} {pre : List Token} (h : Cov refs pre) (hn : (pre.map tst).Nodup) :
    (refs.map rst).Nodup := by
  rw [List.nodup_iff_count] at *
  intro x
  exact Nat.le_trans (h x) (hn x)

/-! ### positions recorded by `spanPos` -/

theorem spanPos_cons_start (t : Token) (pre rest : List Token) :
    (spanPos (t :: (pre ++ rest)) rest).sl = t.line ∧ (spanPos (t :: (pre ++ rest)) rest).sc = t.col := by
  have hn : (t :: (pre ++ rest)).length - rest.length = pre.length + 1 := by
    simp only [List.length_cons, List.length_append]; omega
  unfold spanPos
  simp only [hn, List.head?_cons, List.take_succ_cons]
  cases hl : (t :: List.take pre.length (pre ++ rest)).getLast? with
  | none => simp at hl
  | some b => simp

/-! ## 3. the data-type sub-grammar -/

theorem finishTy_inv' {n : String} {args : List TypeRef} {ts0 ts rest : List Token} {t : TypeRef}
    (h : finishTy n args ts0 ts = some (t, rest)) :
    ∃ o q, t = .data n args o (spanPos ts0 rest) ∧ ts = q ++ rest := by
  unfold finishTy at h
  split at h
  · next hq =>
    obtain ⟨x, hx, _⟩ := peekKw_inv hq
    simp at h; obtain ⟨rfl, rfl⟩ := h
    exact ⟨true, [x], rfl, by simpa using hx⟩
  · simp at h; obtain ⟨rfl, rfl⟩ := h
    exact ⟨false, [], rfl, by simp⟩

theorem refs_walkT_data (e : Env) (ns : List String) (n : String) (args : List TypeRef) (o : Bool) (p : Pos) :
    (walkT e ns (.data n args o p)).refs
      = (walkTs e ns args).refs ++ [{ name := n, ns := ns, nargs := args.length, file := e.file, pos := p }] := by
  simp only [walkT, Collected.refs_append]

theorem refs_walkTs_cons (e : Env) (ns : List String) (a : TypeRef) (as : List TypeRef) :
    (walkTs e ns (a :: as)).refs = (walkT e ns a).refs ++ (walkTs e ns as).refs := by
  simp only [walkTs, Collected.refs_append]

theorem refs_walkTs_nil (e : Env) (ns : List String) : (walkTs e ns []).refs = [] := by
  simp only [walkTs, Collected.refs_empty]

/-- **data types**: the consumed prefix covers the references of the result (the node itself starts at the first
    consumed token) -/
theorem dataType_dataArgs_cov (e : Env) (ns : List String) (fuel : Nat) :
    (∀ ts t rest, dataType fuel ts = some (t, rest) →
      ∃ pre, ts = pre ++ rest ∧ Cov (walkT e ns t).refs pre) ∧
    (∀ ts l rest, dataArgs fuel ts = some (l, rest) →
      ∃ pre, ts = pre ++ rest ∧ Cov (walkTs e ns l).refs pre) := by
  induction fuel with
  | zero => constructor <;> (intro ts t rest h; simp [dataType, dataArgs] at h)
  | succ fuel ih =>
    obtain ⟨ihT, ihA⟩ := ih
    constructor
    · intro ts0 t rest h
      rw [dataType_succ] at h
      cases hn : nsIdent ts0 with
      | none => simp [hn] at h
      | some x =>
        obtain ⟨n, ts⟩ := x
        obtain ⟨tn, d, rfl, htn⟩ := nsIdent_inv hn
        simp only [hn] at h
        by_cases hlt : peekKw "<" ts = true
        · simp only [hlt, if_true] at h
          cases hk : kw? "<" ts with
          | none => simp [hk] at h
          | some ts1 =>
            obtain ⟨l, rfl, hl⟩ := kw?_inv hk
            simp only [hk] at h
            cases h1 : dataType fuel ts1 with
            | none => simp [h1] at h
            | some y =>
              obtain ⟨a, ts2⟩ := y
              simp only [h1] at h
              cases h2 : dataArgs fuel ts2 with
              | none => simp [h2] at h
              | some z =>
                obtain ⟨as, ts3⟩ := z
                simp only [h2] at h
                cases hg : kw? ">" ts3 with
                | none => simp [hg] at h
                | some ts4 =>
                  obtain ⟨g, rfl, hgt⟩ := kw?_inv hg
                  simp only [hg] at h
                  obtain ⟨o, q, rfl, rfl⟩ := finishTy_inv' h
                  obtain ⟨pa, rfl, hpa⟩ := ihT _ _ _ h1
                  obtain ⟨pas, rfl, hpas⟩ := ihA _ _ _ h2
                  have hts : tn :: l :: (pa ++ (pas ++ g :: (q ++ rest))) = tn :: ((l :: (pa ++ (pas ++ g :: q))) ++ rest) := by
                    simp
                  refine ⟨tn :: l :: (pa ++ (pas ++ g :: q)), by simp, ?_⟩
                  rw [refs_walkT_data, refs_walkTs_cons, hts]
                  apply Cov.append_comm
                  refine Cov.append (p1 := [tn]) (Cov.single _ _ ?_) ?_
                  · have := spanPos_cons_start tn (l :: (pa ++ (pas ++ g :: q))) rest
                    simp only [rst, tst, this.1, this.2]
                  · exact (hpa.append (hpas.right (g :: q))).cons l
        · simp only [hlt, Bool.false_eq_true, if_false] at h
          obtain ⟨o, q, rfl, rfl⟩ := finishTy_inv' h
          refine ⟨tn :: q, by simp, ?_⟩
          rw [refs_walkT_data, refs_walkTs_nil, List.nil_append]
          refine (Cov.single _ _ ?_).right q
          have := spanPos_cons_start tn q rest
          simp only [rst, tst, this.1, this.2]
    · intro ts l rest h
      rw [dataArgs_succ] at h
      by_cases hc : peekKw "," ts = true
      · simp only [hc, if_true] at h
        obtain ⟨c, hcs, hct⟩ := peekKw_inv hc
        cases h1 : dataType fuel ts.tail with
        | none => simp [h1] at h
        | some y =>
          obtain ⟨a, ts2⟩ := y
          simp only [h1] at h
          cases h2 : dataArgs fuel ts2 with
          | none => simp [h2] at h
          | some z =>
            obtain ⟨as, ts3⟩ := z
            simp only [h2] at h
            simp at h; obtain ⟨rfl, rfl⟩ := h
            obtain ⟨pa, hts, hpa⟩ := ihT _ _ _ h1
            obtain ⟨pas, rfl, hpas⟩ := ihA _ _ _ h2
            refine ⟨c :: (pa ++ pas), ?_, ?_⟩
            · rw [hcs, hts]; simp
            · rw [refs_walkTs_cons]; exact (hpa.append hpas).cons c
      · simp only [hc, Bool.false_eq_true, if_false] at h
        simp at h; obtain ⟨rfl, rfl⟩ := h
        exact ⟨[], by simp, by rw [refs_walkTs_nil]; exact Cov.nil _⟩

theorem dataType_cov (e : Env) (ns : List String) (fuel : Nat) (ts : List Token) (t : TypeRef) (rest : List Token)
    (h : dataType fuel ts = some (t, rest)) : ∃ pre, ts = pre ++ rest ∧ Cov (walkT e ns t).refs pre :=
  (dataType_dataArgs_cov e ns fuel).1 ts t rest h

/-! ## 4. the list-of-successes layer: every candidate is covered -/

/-- every candidate `(a, rest)` of `p ts` consumed a prefix of `ts` that covers the references `R a` -/
def CovL {α : Type} (R : α → List RefSite) (p : PL α) : Prop :=
  ∀ ts a rest, (a, rest) ∈ p ts → ∃ pre, ts = pre ++ rest ∧ Cov (R a) pre

theorem refs_walkF_mk (e : Env) (ns : List String) (flags : Option (List String)) (fpos : Pos) (params : List Param)
    (thr : Option (List TypeRef)) (ret : Option TypeRef) :
    (walkF e ns (.mk flags fpos params thr ret)).refs
      = (walkOT e ns ret).refs ++ (walkPs e ns params).refs ++ (walkOTs e ns thr).refs := by
  cases flags <;> simp [walkF]

theorem refs_walkPs_cons (e : Env) (ns : List String) (p : Param) (ps : List Param) :
    (walkPs e ns (p :: ps)).refs = (walkT e ns (paramType p)).refs ++ (walkPs e ns ps).refs := by
  cases p; simp only [walkPs, paramType, Collected.refs_append]

theorem refs_walkPs_nil (e : Env) (ns : List String) : (walkPs e ns []).refs = [] := by
  simp only [walkPs, Collected.refs_empty]

theorem typeRefL_cov_step (e : Env) (ns : List String) (g : Nat)
    (hF : CovL (fun f => (walkF e ns f).refs) (functionL g)) :
    CovL (fun t => (walkT e ns t).refs) (typeRefL (g+1)) := by
  intro ts a rest hm
  rw [typeRefL.eq_2] at hm
  split at hm
  · obtain ⟨⟨f, r⟩, hfr, he⟩ := List.mem_map.mp hm
    simp only [Prod.mk.injEq] at he
    obtain ⟨rfl, rfl⟩ := he
    obtain ⟨pre, rfl, hc⟩ := hF _ _ _ hfr
    exact ⟨pre, rfl, by simpa only [walkT] using hc⟩
  · cases hdt : dataType (g+1) ts with
    | none => simp [hdt] at hm
    | some x =>
      simp only [hdt, List.mem_singleton] at hm
      subst hm
      exact dataType_cov e ns (g+1) ts a rest hdt

theorem sigBody_cov (e : Env) (ns : List String) (g : Nat) (flags : Option (List String)) (fpos : Pos)
    (hP : CovL (fun ps => (walkPs e ns ps).refs) (paramListL g))
    (hTh : CovL (fun o => (walkOTs e ns o).refs) (throwingL g))
    (hT : CovL (fun t => (walkT e ns t).refs) (typeRefL g)) :
    CovL (fun f => (walkF e ns f).refs) (sigBody flags fpos g) := by
  intro ts f rest hm
  unfold sigBody at hm
  cases hk : kw? "(" ts with
  | none => simp [hk] at hm
  | some ts1 =>
    obtain ⟨lp, rfl, _⟩ := kw?_inv hk
    simp only [hk] at hm
    obtain ⟨⟨ps, ts2⟩, hps, hm2⟩ := List.mem_flatMap.mp hm
    clear hm
    obtain ⟨pp, rfl, hpp⟩ := hP _ _ _ hps
    dsimp only at hm2
    cases hk2 : kw? ")" ts2 with
    | none => simp [hk2] at hm2
    | some ts3 =>
      obtain ⟨rp, rfl, _⟩ := kw?_inv hk2
      simp only [hk2] at hm2
      obtain ⟨⟨thr, ts4⟩, hthr, hm3⟩ := List.mem_flatMap.mp hm2
      clear hm2
      obtain ⟨pt, rfl, hpt⟩ := hTh _ _ _ hthr
      dsimp only at hm3
      rcases List.mem_append.mp hm3 with hm | hm
      · split at hm
        · next harrow =>
          obtain ⟨ar, har, _⟩ := peekKw_inv harrow
          obtain ⟨⟨r, ts5⟩, hr, he⟩ := List.mem_map.mp hm
          simp only [Prod.mk.injEq] at he
          obtain ⟨rfl, rfl⟩ := he
          obtain ⟨pr, hpr, hcr⟩ := hT _ _ _ hr
          refine ⟨lp :: (pp ++ rp :: (pt ++ ar :: pr)), ?_, ?_⟩
          · rw [har, hpr]; simp
          · dsimp only
            rw [refs_walkF_mk]
            have h1 : Cov ((walkPs e ns ps).refs ++ ((walkOTs e ns thr).refs ++ (walkOT e ns (some r)).refs))
                (lp :: (pp ++ rp :: (pt ++ ar :: pr))) :=
              (hpp.append ((hpt.append (by simpa only [walkOT] using hcr.cons ar)).cons rp)).cons lp
            intro x
            have := h1 x
            simp only [List.map_append, List.count_append] at *
            omega
        · simp at hm
      · simp only [List.mem_singleton, Prod.mk.injEq] at hm
        obtain ⟨rfl, rfl⟩ := hm
        refine ⟨lp :: (pp ++ rp :: pt), by simp, ?_⟩
        dsimp only
        rw [refs_walkF_mk]
        have h1 : Cov ((walkPs e ns ps).refs ++ (walkOTs e ns thr).refs) (lp :: (pp ++ rp :: pt)) :=
          (hpp.append (hpt.cons rp)).cons lp
        simpa only [walkOT, Collected.refs_empty, List.nil_append] using h1

theorem functionL_cov_step (e : Env) (ns : List String) (g : Nat)
    (hP : CovL (fun ps => (walkPs e ns ps).refs) (paramListL g))
    (hTh : CovL (fun o => (walkOTs e ns o).refs) (throwingL g))
    (hT : CovL (fun t => (walkT e ns t).refs) (typeRefL g)) :
    CovL (fun f => (walkF e ns f).refs) (functionL (g+1)) := by
  intro ts f rest hm
  rw [functionL_succ] at hm
  split at hm
  · next hfn =>
    obtain ⟨fk, hfk, _⟩ := peekKw_inv hfn
    obtain ⟨tg, htg, _⟩ := targets_sound ts.tail
    obtain ⟨pre, hpre, hc⟩ := sigBody_cov e ns g _ _ hP hTh hT _ _ _ hm
    refine ⟨fk :: (tg ++ pre), ?_, (hc.left tg).cons fk⟩
    rw [hfk, htg, hpre]; simp
  · exact sigBody_cov e ns g _ _ hP hTh hT _ _ _ hm

theorem paramL_cov_step (e : Env) (ns : List String) (g : Nat)
    (hT : CovL (fun t => (walkT e ns t).refs) (typeRefL g)) :
    CovL (fun p => (walkT e ns (paramType p)).refs) (paramL (g+1)) := by
  intro ts0 p rest hm
  rw [paramL.eq_2] at hm
  cases hi : ident ts0 with
  | none => simp [hi] at hm
  | some y =>
    obtain ⟨n, ts⟩ := y
    obtain ⟨nt, rfl, _⟩ := ident_inv hi
    simp only [hi] at hm
    cases hk : kw? ":" ts with
    | none => simp [hk] at hm
    | some ts1 =>
      obtain ⟨colon, rfl, _⟩ := kw?_inv hk
      simp only [hk] at hm
      obtain ⟨⟨t, r⟩, ht, he⟩ := List.mem_map.mp hm
      simp only [Prod.mk.injEq] at he
      obtain ⟨rfl, rfl⟩ := he
      obtain ⟨pre, rfl, hc⟩ := hT _ _ _ ht
      exact ⟨nt :: colon :: pre, by simp, by simpa only [paramType] using (hc.cons colon).cons nt⟩

theorem paramList1L_cov_step (e : Env) (ns : List String) (g : Nat)
    (hp : CovL (fun p => (walkT e ns (paramType p)).refs) (paramL g))
    (h1 : CovL (fun ps => (walkPs e ns ps).refs) (paramList1L g)) :
    CovL (fun ps => (walkPs e ns ps).refs) (paramList1L (g+1)) := by
  intro ts ps rest hm
  rw [paramList1L.eq_2] at hm
  rcases List.mem_append.mp hm with hm | hm
  · obtain ⟨⟨p, ts1⟩, hpm, hm2⟩ := List.mem_flatMap.mp hm
    clear hm
    obtain ⟨pp, rfl, hpp⟩ := hp _ _ _ hpm
    dsimp only at hm2
    have hm := hm2
    split at hm
    · next hc =>
      obtain ⟨c, hce, _⟩ := peekKw_inv hc
      obtain ⟨⟨ps', r⟩, hps, he⟩ := List.mem_map.mp hm
      simp only [Prod.mk.injEq] at he
      obtain ⟨rfl, rfl⟩ := he
      obtain ⟨pr, hpr, hcr⟩ := h1 _ _ _ hps
      refine ⟨pp ++ c :: pr, by rw [hce, hpr]; simp, ?_⟩
      dsimp only
      rw [refs_walkPs_cons]
      exact hpp.append (hcr.cons c)
    · simp at hm
  · obtain ⟨⟨p, ts1⟩, hpm, he⟩ := List.mem_map.mp hm
    simp only [Prod.mk.injEq] at he
    obtain ⟨rfl, rfl⟩ := he
    obtain ⟨pp, rfl, hpp⟩ := hp _ _ _ hpm
    refine ⟨pp, rfl, ?_⟩
    dsimp only
    rw [refs_walkPs_cons, refs_walkPs_nil, List.append_nil]
    exact hpp

theorem paramListL_cov_step (e : Env) (ns : List String) (g : Nat)
    (h1 : CovL (fun ps => (walkPs e ns ps).refs) (paramList1L g)) :
    CovL (fun ps => (walkPs e ns ps).refs) (paramListL (g+1)) := by
  intro ts ps rest hm
  rw [paramListL.eq_2] at hm
  rcases List.mem_append.mp hm with hm | hm
  · split at hm
    · exact h1 _ _ _ hm
    · simp at hm
  · simp only [List.mem_singleton, Prod.mk.injEq] at hm
    obtain ⟨rfl, rfl⟩ := hm
    exact ⟨[], by simp, by dsimp only; rw [refs_walkPs_nil]; exact Cov.nil _⟩

theorem throwList1L_cov_step (e : Env) (ns : List String) (g : Nat)
    (hT : CovL (fun t => (walkT e ns t).refs) (typeRefL g))
    (h1 : CovL (fun l => (walkTs e ns l).refs) (throwList1L g)) :
    CovL (fun l => (walkTs e ns l).refs) (throwList1L (g+1)) := by
  intro ts l rest hm
  rw [throwList1L.eq_2] at hm
  rcases List.mem_append.mp hm with hm | hm
  · obtain ⟨⟨t, ts1⟩, htm, hm2⟩ := List.mem_flatMap.mp hm
    clear hm
    obtain ⟨pp, rfl, hpp⟩ := hT _ _ _ htm
    dsimp only at hm2
    have hm := hm2
    split at hm
    · next hc =>
      obtain ⟨c, hce, _⟩ := peekKw_inv hc
      obtain ⟨⟨l', r⟩, hl, he⟩ := List.mem_map.mp hm
      simp only [Prod.mk.injEq] at he
      obtain ⟨rfl, rfl⟩ := he
      obtain ⟨pr, hpr, hcr⟩ := h1 _ _ _ hl
      refine ⟨pp ++ c :: pr, by rw [hce, hpr]; simp, ?_⟩
      dsimp only
      rw [refs_walkTs_cons]
      exact hpp.append (hcr.cons c)
    · simp at hm
  · obtain ⟨⟨t, ts1⟩, htm, he⟩ := List.mem_map.mp hm
    simp only [Prod.mk.injEq] at he
    obtain ⟨rfl, rfl⟩ := he
    obtain ⟨pp, rfl, hpp⟩ := hT _ _ _ htm
    refine ⟨pp, rfl, ?_⟩
    dsimp only
    rw [refs_walkTs_cons, refs_walkTs_nil, List.append_nil]
    exact hpp

theorem throwingL_cov_step (e : Env) (ns : List String) (g : Nat)
    (h1 : CovL (fun l => (walkTs e ns l).refs) (throwList1L g)) :
    CovL (fun o => (walkOTs e ns o).refs) (throwingL (g+1)) := by
  intro ts o rest hm
  rw [throwingL.eq_2] at hm
  split at hm
  · next hth =>
    obtain ⟨th, hthe, _⟩ := peekKw_inv hth
    rcases List.mem_append.mp hm with hm | hm
    · obtain ⟨⟨l, r⟩, hl, he⟩ := List.mem_map.mp hm
      simp only [Prod.mk.injEq] at he
      obtain ⟨rfl, rfl⟩ := he
      obtain ⟨pr, hpr, hcr⟩ := h1 _ _ _ hl
      exact ⟨th :: pr, by rw [hthe, hpr]; simp, by simpa only [walkOTs] using hcr.cons th⟩
    · simp only [List.mem_singleton, Prod.mk.injEq] at hm
      obtain ⟨rfl, rfl⟩ := hm
      exact ⟨[th], by rw [hthe]; simp, by simp only [walkOTs, refs_walkTs_nil]; exact Cov.nil _⟩
  · simp only [List.mem_singleton, Prod.mk.injEq] at hm
    obtain ⟨rfl, rfl⟩ := hm
    exact ⟨[], by simp, by simp only [walkOTs, Collected.refs_empty]; exact Cov.nil _⟩

theorem CovL.zero {α : Type} (R : α → List RefSite) (p : PL α) (h : ∀ ts, p ts = []) : CovL R p := by
  intro ts a rest hm; rw [h] at hm; cases hm

/-- all seven functions of the function-type sub-grammar, by induction on the fuel -/
theorem pl_cov (e : Env) (ns : List String) (fuel : Nat) :
    CovL (fun t => (walkT e ns t).refs) (typeRefL fuel) ∧
    CovL (fun f => (walkF e ns f).refs) (functionL fuel) ∧
    CovL (fun ps => (walkPs e ns ps).refs) (paramListL fuel) ∧
    CovL (fun ps => (walkPs e ns ps).refs) (paramList1L fuel) ∧
    CovL (fun p => (walkT e ns (paramType p)).refs) (paramL fuel) ∧
    CovL (fun o => (walkOTs e ns o).refs) (throwingL fuel) ∧
    CovL (fun l => (walkTs e ns l).refs) (throwList1L fuel) := by
  induction fuel with
  | zero =>
    exact ⟨CovL.zero _ _ (fun _ => rfl), CovL.zero _ _ (fun _ => rfl), CovL.zero _ _ (fun _ => rfl),
      CovL.zero _ _ (fun _ => rfl), CovL.zero _ _ (fun _ => rfl), CovL.zero _ _ (fun _ => rfl),
      CovL.zero _ _ (fun _ => rfl)⟩
  | succ g ih =>
    obtain ⟨hT, hF, hPL, hP1, hP, hTh, hT1⟩ := ih
    exact ⟨typeRefL_cov_step e ns g hF, functionL_cov_step e ns g hPL hTh hT, paramListL_cov_step e ns g hP1,
      paramList1L_cov_step e ns g hP hP1, paramL_cov_step e ns g hT, throwingL_cov_step e ns g hT1,
      throwList1L_cov_step e ns g hT hT1⟩

theorem typeRefL_cov (e : Env) (ns : List String) (fuel : Nat) : CovL (fun t => (walkT e ns t).refs) (typeRefL fuel) :=
  (pl_cov e ns fuel).1
theorem functionL_cov (e : Env) (ns : List String) (fuel : Nat) : CovL (fun f => (walkF e ns f).refs) (functionL fuel) :=
  (pl_cov e ns fuel).2.1
theorem paramL_cov (e : Env) (ns : List String) (fuel : Nat) :
    CovL (fun p => (walkT e ns (paramType p)).refs) (paramL fuel) :=
  (pl_cov e ns fuel).2.2.2.2.1

/-! ## 5. members and declarations -/

/-- a successful parse consumed a prefix that covers the references `R a` of the result -/
def CovP {α : Type} (R : α → List RefSite) (p : P α) : Prop :=
  ∀ ts a rest, p ts = some (a, rest) → ∃ pre, ts = pre ++ rest ∧ Cov (R a) pre

theorem Cov.perm {r r' : List RefSite} {p : List Token} (h : Cov r p) (hp : r'.Perm r) : Cov r' p := by
  intro x
  rw [(hp.map rst).count_eq x]
  exact h x

theorem many_cov {α : Type} (R : α → List RefSite) (fuel : Nat) (stop : List Token → Bool) (p : P α)
    (hp : CovP R p) (n : Nat) : CovP (fun l => l.flatMap R) (many fuel stop p n) := by
  induction n with
  | zero => intro ts as rest h; simp [many] at h
  | succ n ih =>
    intro ts as rest h
    simp only [many] at h
    split at h
    · simp at h; obtain ⟨rfl, rfl⟩ := h; exact ⟨[], by simp, Cov.nil _⟩
    · cases h1 : p ts with
      | none => simp [h1] at h
      | some x =>
        obtain ⟨a, r⟩ := x
        simp only [h1, Option.bind_eq_bind, Option.bind_some] at h
        cases h2 : many fuel stop p n r with
        | none => simp [h2] at h
        | some y =>
          obtain ⟨as', r'⟩ := y
          simp [h2] at h
          obtain ⟨rfl, rfl⟩ := h
          obtain ⟨q, rfl, hq⟩ := hp _ _ _ h1
          obtain ⟨pre, rfl, hpre⟩ := ih _ _ _ h2
          exact ⟨q ++ pre, by simp, by simpa only [List.flatMap_cons] using hq.append hpre⟩

theorem refs_walkField (e : Env) (ns : List String) (f : Field) : (walkField e ns f).refs = (walkT e ns f.ty).refs := by
  unfold walkField
  split <;> simp

theorem refs_walkFields (e : Env) (ns : List String) (fs : List Field) :
    (walkFields e ns fs).refs = fs.flatMap (fun f => (walkT e ns f.ty).refs) := by
  induction fs with
  | nil => simp [walkFields]
  | cons f fs ih => simp only [walkFields, Collected.refs_append, refs_walkField, ih, List.flatMap_cons]

theorem refs_walkCodes (e : Env) (ns : List String) (cs : List ErrCode) :
    (walkCodes e ns cs).refs = cs.flatMap (fun c => (walkPs e ns c.params).refs) := by
  induction cs with
  | nil => simp [walkCodes]
  | cons c cs ih => simp only [walkCodes, Collected.refs_append, ih, List.flatMap_cons]

theorem refs_walkMethod (e : Env) (ns : List String) (m : Method) :
    (walkMethod e ns m).refs = (walkPs e ns m.params).refs ++ (walkOT e ns m.ret).refs ++ (walkOTs e ns m.throwing).refs := by
  unfold walkMethod
  split <;> simp

/-- the method / property of an interface member (the two `filterMap`s of `typeDecl`) -/
def Member.method? : Member → Option Method
  | .m x => some x
  | .p _ => none
def Member.prop? : Member → Option Prop'
  | .p x => some x
  | .m _ => none

/-- the references of one interface member -/
def memberRefs (e : Env) (ns : List String) : Member → List RefSite
  | .m x => (walkMethod e ns x).refs
  | .p x => (walkT e ns x.ty).refs

theorem refs_members_perm (e : Env) (ns : List String) (ms : List Member) :
    ((walkMethods e ns (ms.filterMap Member.method?)).refs
      ++ (walkProps e ns (ms.filterMap Member.prop?)).refs).Perm (ms.flatMap (memberRefs e ns)) := by
  induction ms with
  | nil => simp [walkMethods, walkProps]
  | cons m ms ih =>
    cases m with
    | m x =>
      simp only [List.filterMap_cons, Member.method?, Member.prop?, walkMethods, Collected.refs_append, List.flatMap_cons,
        memberRefs, List.append_assoc]
      exact List.Perm.append_left _ ih
    | p x =>
      simp only [List.filterMap_cons, Member.method?, Member.prop?, walkProps, Collected.refs_append, List.flatMap_cons,
        memberRefs]
      rw [← List.append_assoc]
      refine List.Perm.trans (List.Perm.append_right _ List.perm_append_comm) ?_
      rw [List.append_assoc]
      exact List.Perm.append_left _ ih

theorem field_cov (e : Env) (ns : List String) (fuel : Nat) : CovP (fun f => (walkT e ns f.ty).refs) (field fuel) := by
  intro ts0 f r h
  obtain ⟨cs, h1, _⟩ := comments_sound ts0
  unfold field at h
  generalize comments ts0 = x at h h1
  obtain ⟨c, ts⟩ := x
  simp only [Option.bind_eq_bind, Option.pure_def] at h h1
  cases hi : ident ts with
  | none => simp [hi] at h
  | some y =>
    obtain ⟨n, ts1⟩ := y
    obtain ⟨nt, rfl, _⟩ := ident_inv hi
    simp only [hi, Option.bind_some] at h
    cases hk : kw? ":" ts1 with
    | none => simp [hk] at h
    | some ts2 =>
      obtain ⟨colon, rfl, _⟩ := kw?_inv hk
      simp only [hk, Option.bind_some] at h
      obtain ⟨t, r', hmem, hnext⟩ := firstThat_inv h
      cases hs : kw? ";" r' with
      | none => simp [hs] at hnext
      | some ts3 =>
        obtain ⟨semi, rfl, _⟩ := kw?_inv hs
        simp only [hs, Option.bind_some, Option.some.injEq, Prod.mk.injEq] at hnext
        obtain ⟨rfl, rfl⟩ := hnext
        obtain ⟨pre, rfl, hc⟩ := typeRefL_cov e ns fuel _ _ _ hmem
        refine ⟨cs ++ nt :: colon :: (pre ++ [semi]), by rw [h1]; simp, ?_⟩
        exact (((hc.right [semi]).cons colon).cons nt).left cs

theorem errParamsL_cov (e : Env) (ns : List String) (fuel n : Nat) :
    CovL (fun ps => (walkPs e ns ps).refs) (errParamsL fuel n) := by
  induction n with
  | zero => exact CovL.zero _ _ (fun _ => rfl)
  | succ n ih =>
    intro ts ps rest hm
    simp only [errParamsL] at hm
    rcases List.mem_append.mp hm with hm | hm
    · split at hm
      · obtain ⟨⟨p, ts1⟩, hpm, hm2⟩ := List.mem_flatMap.mp hm
        clear hm
        obtain ⟨pp, rfl, hpp⟩ := paramL_cov e ns fuel _ _ _ hpm
        dsimp only at hm2
        obtain ⟨⟨ps', r⟩, hps, he⟩ := List.mem_map.mp hm2
        simp only [Prod.mk.injEq] at he
        obtain ⟨rfl, rfl⟩ := he
        obtain ⟨pr, rfl, hcr⟩ := ih _ _ _ hps
        refine ⟨pp ++ pr, by simp, ?_⟩
        dsimp only
        rw [refs_walkPs_cons]
        exact hpp.append hcr
      · simp at hm
    · simp only [List.mem_singleton, Prod.mk.injEq] at hm
      obtain ⟨rfl, rfl⟩ := hm
      exact ⟨[], by simp, by dsimp only; rw [refs_walkPs_nil]; exact Cov.nil _⟩

theorem errCode_cov (e : Env) (ns : List String) (fuel : Nat) :
    CovP (fun c => (walkPs e ns c.params).refs) (errCode fuel) := by
  intro ts0 c r h
  obtain ⟨cs, h1, _⟩ := comments_sound ts0
  unfold errCode at h
  generalize comments ts0 = x at h h1
  obtain ⟨cm, ts⟩ := x
  simp only [Option.bind_eq_bind, Option.pure_def] at h h1
  cases hi : ident ts with
  | none => simp [hi] at h
  | some y =>
    obtain ⟨n, ts1⟩ := y
    obtain ⟨nt, rfl, _⟩ := ident_inv hi
    simp only [hi, Option.bind_some] at h
    split at h
    · next hlp =>
      obtain ⟨lp, hlpe, _⟩ := peekKw_inv hlp
      obtain ⟨ps, r', hmem, hnext⟩ := firstThat_inv h
      cases hk : kw? ")" r' with
      | none => simp [hk] at hnext
      | some ts3 =>
        obtain ⟨rp, rfl, _⟩ := kw?_inv hk
        simp only [hk, Option.bind_some] at hnext
        cases hs : kw? ";" ts3 with
        | none => simp [hs] at hnext
        | some ts4 =>
          obtain ⟨semi, rfl, _⟩ := kw?_inv hs
          simp only [hs, Option.bind_some, Option.some.injEq, Prod.mk.injEq] at hnext
          obtain ⟨rfl, rfl⟩ := hnext
          obtain ⟨pre, hpre, hc⟩ := errParamsL_cov e ns fuel fuel _ _ _ hmem
          refine ⟨cs ++ nt :: lp :: (pre ++ [rp, semi]), by rw [h1, hlpe, hpre]; simp, ?_⟩
          exact (((hc.right [rp, semi]).cons lp).cons nt).left cs
    · cases hs : kw? ";" ts1 with
      | none => simp [hs] at h
      | some ts4 =>
        obtain ⟨semi, rfl, _⟩ := kw?_inv hs
        simp only [hs, Option.bind_some, Option.some.injEq, Prod.mk.injEq] at h
        obtain ⟨rfl, rfl⟩ := h
        exact ⟨cs ++ [nt, semi], by rw [h1]; simp, by dsimp only; rw [refs_walkPs_nil]; exact Cov.nil _⟩

theorem optKw_sound (s : String) (ts : List Token) :
    ∃ m, ts = m ++ (if peekKw s ts = true then (true, ts.tail) else (false, ts)).2 ∧
      m.map (·.tk) = printMod (if peekKw s ts = true then (true, ts.tail) else (false, ts)).1 s := by
  by_cases h : peekKw s ts = true
  · obtain ⟨k, hk, hkk⟩ := peekKw_inv h
    exact ⟨[k], by simp only [h, if_true]; simpa using hk, by simp [h, printMod, hkk]⟩
  · exact ⟨[], by simp [h], by simp [h, printMod]⟩

/-- **structure of an accepted interface member**: comment lines; then either `property name : T ;` with `T` a
    candidate of `typeRefL`, or `[static] [const] [async] name` followed by a candidate of `functionL` starting with `(`
    and `;` -/
theorem member_inv (fuel : Nat) (ts0 : List Token) (a : Member) (r : List Token) (h : member fuel ts0 = some (a, r)) :
    ∃ cs c, cs.map (·.tk) = printComments c ∧
      ((∃ pk nt colon ts2 semi n t p, ts0 = cs ++ pk :: nt :: colon :: ts2 ∧ pk.tk = .kw "property" ∧ nt.tk = .id n ∧
          colon.tk = .kw ":" ∧ (t, semi :: r) ∈ typeRefL fuel ts2 ∧ semi.tk = .kw ";" ∧
          a = .p { name := n, ty := t, comment := c, pos := p }) ∨
       (∃ m1 m2 m3 nt ts5 semi n st co as fl fp ps thr ret p,
          ts0 = cs ++ (m1 ++ (m2 ++ (m3 ++ nt :: ts5))) ∧ m1.map (·.tk) = printMod st "static" ∧
          m2.map (·.tk) = printMod co "const" ∧ m3.map (·.tk) = printMod as "async" ∧ nt.tk = .id n ∧
          peekKw "(" ts5 = true ∧ (FnSig.mk fl fp ps thr ret, semi :: r) ∈ functionL fuel ts5 ∧ semi.tk = .kw ";" ∧
          peekKw "property" (m1 ++ (m2 ++ (m3 ++ nt :: ts5))) = false ∧
          a = .m { name := n, isStatic := st, isConst := co, isAsync := as, params := ps, throwing := thr, ret := ret,
                   comment := c, pos := p })) := by
  obtain ⟨cs, h1, h2⟩ := comments_sound ts0
  unfold member at h
  generalize comments ts0 = x at h h1 h2
  obtain ⟨c, ts⟩ := x
  simp only [Option.bind_eq_bind, Option.pure_def] at h h1 h2
  refine ⟨cs, c, h2, ?_⟩
  split at h
  · next hprop =>
    left
    obtain ⟨pk, hpk, hpkk⟩ := peekKw_inv hprop
    cases hi : ident ts.tail with
    | none => simp [hi] at h
    | some y =>
      obtain ⟨n, ts1⟩ := y
      obtain ⟨nt, hnt, hn⟩ := ident_inv hi
      simp only [hi, Option.bind_some] at h
      cases hk : kw? ":" ts1 with
      | none => simp [hk] at h
      | some ts2 =>
        obtain ⟨colon, rfl, hcolon⟩ := kw?_inv hk
        simp only [hk, Option.bind_some] at h
        obtain ⟨t, r', hmem, hnext⟩ := firstThat_inv h
        cases hs : kw? ";" r' with
        | none => simp [hs] at hnext
        | some ts3 =>
          obtain ⟨semi, rfl, hsemi⟩ := kw?_inv hs
          simp only [hs, Option.bind_some, Option.some.injEq, Prod.mk.injEq] at hnext
          obtain ⟨rfl, rfl⟩ := hnext
          exact ⟨pk, nt, colon, ts2, semi, n, t, _, by rw [h1, hpk, hnt], hpkk, hn, hcolon, hmem, hsemi, rfl⟩
  · next hprop =>
    right
    obtain ⟨m1, hm1, hm1k⟩ := optKw_sound "static" ts
    generalize (if peekKw "static" ts = true then (true, ts.tail) else (false, ts)) = s1 at h hm1 hm1k
    obtain ⟨st, ts1⟩ := s1
    obtain ⟨m2, hm2, hm2k⟩ := optKw_sound "const" ts1
    simp only at h hm1 hm1k
    generalize (if peekKw "const" ts1 = true then (true, ts1.tail) else (false, ts1)) = s2 at h hm2 hm2k
    obtain ⟨co, ts2⟩ := s2
    obtain ⟨m3, hm3, hm3k⟩ := optKw_sound "async" ts2
    simp only at h hm2 hm2k
    generalize (if peekKw "async" ts2 = true then (true, ts2.tail) else (false, ts2)) = s3 at h hm3 hm3k
    obtain ⟨as, ts3⟩ := s3
    simp only at h hm3 hm3k
    cases hi : ident ts3 with
    | none => simp [hi] at h
    | some y =>
      obtain ⟨n, ts5⟩ := y
      obtain ⟨nt, rfl, hn⟩ := ident_inv hi
      simp only [hi, Option.bind_some] at h
      split at h
      · simp at h
      · next hlp =>
        obtain ⟨sig, r', hmem, hnext⟩ := firstThat_inv h
        cases hs : kw? ";" r' with
        | none => simp [hs] at hnext
        | some ts6 =>
          obtain ⟨semi, rfl, hsemi⟩ := kw?_inv hs
          obtain ⟨fl, fp, ps, thr, ret⟩ := sig
          simp only [hs, Option.bind_some, Option.some.injEq, Prod.mk.injEq] at hnext
          obtain ⟨rfl, rfl⟩ := hnext
          refine ⟨m1, m2, m3, nt, ts5, semi, n, st, co, as, fl, fp, ps, thr, ret, _, ?_, hm1k, hm2k, hm3k, hn,
            by simpa using hlp, hmem, hsemi, ?_, rfl⟩
          · rw [h1, hm1, hm2, hm3]
          · rw [← hm3, ← hm2, ← hm1]; simpa using hprop

theorem member_cov (e : Env) (ns : List String) (fuel : Nat) : CovP (memberRefs e ns) (member fuel) := by
  intro ts0 a r h
  obtain ⟨cs, c, _, h | h⟩ := member_inv fuel ts0 a r h
  · obtain ⟨pk, nt, colon, ts2, semi, n, t, p, rfl, _, _, _, hmem, _, rfl⟩ := h
    obtain ⟨pre, rfl, hc⟩ := typeRefL_cov e ns fuel _ _ _ hmem
    refine ⟨cs ++ pk :: nt :: colon :: (pre ++ [semi]), by simp, ?_⟩
    exact ((((hc.right [semi]).cons colon).cons nt).cons pk).left cs
  · obtain ⟨m1, m2, m3, nt, ts5, semi, n, st, co, asy, fl, fp, ps, thr, ret, p, rfl, _, _, _, _, _, hmem, _, _, rfl⟩ := h
    obtain ⟨pre, rfl, hc⟩ := functionL_cov e ns fuel _ _ _ hmem
    refine ⟨cs ++ (m1 ++ (m2 ++ (m3 ++ nt :: (pre ++ [semi])))), by simp, ?_⟩
    have hc' : Cov ((walkOT e ns ret).refs ++ (walkPs e ns ps).refs ++ (walkOTs e ns thr).refs) pre := by
      have := hc; dsimp only at this; rwa [refs_walkF_mk] at this
    have h2 : Cov (memberRefs e ns (.m { name := n, isStatic := st, isConst := co, isAsync := asy, params := ps, throwing := thr, ret := ret, comment := c, pos := p })) pre := by
      simp only [memberRefs, refs_walkMethod]
      intro x
      have := hc' x
      simp only [List.map_append, List.count_append] at *
      omega
    exact (((((h2.right [semi]).cons nt).left m3).left m2).left m1).left cs

/-! ### structure of the accepted interface, error-domain and function declarations -/

theorem typeDecl_interface_inv (fuel : Nat) (c' : List String) (ts0 ts : List Token) (n : String) (c : List String)
    (mn : Bool) (fl : List String) (flp : Pos) (methods : List Method) (props : List Prop') (p : Pos) (rest : List Token)
    (h : typeDecl fuel c' ts0 ts = some (.interface n c mn fl flp methods props p, rest)) :
    c = c' ∧ ∃ nt eq mk k tg lb body rb ms, ts = nt :: eq :: (mk ++ k :: (tg ++ lb :: body)) ∧ nt.tk = .id n ∧
      eq.tk = .kw "=" ∧ mk.map (·.tk) = printMod mn "main" ∧ k.tk = .kw "interface" ∧
      tg.map (·.tk) = printTargets fl ∧ lb.tk = .kw "{" ∧ rb.tk = .kw "}" ∧
      many fuel (peekKw "}") (member fuel) fuel body = some (ms, rb :: rest) ∧
      methods = ms.filterMap Member.method? ∧
      props = ms.filterMap Member.prop? := by
  unfold typeDecl at h
  simp only [Option.bind_eq_bind] at h
  cases hi : ident ts with
  | none => simp [hi] at h
  | some y =>
    obtain ⟨n', ts1⟩ := y
    obtain ⟨nt, rfl, hn⟩ := ident_inv hi
    simp only [hi, Option.bind_some] at h
    cases hk : kw? "=" ts1 with
    | none => simp [hk] at h
    | some ts2 =>
      obtain ⟨eq, rfl, heq⟩ := kw?_inv hk
      simp only [hk, Option.bind_some] at h
      split at h
      · exfalso; simp [Option.bind_eq_some_iff] at h
      split at h
      · exfalso; simp [Option.bind_eq_some_iff] at h
      split at h
      · exfalso
        simp [Option.bind_eq_some_iff] at h
        obtain ⟨a, _, a1, b, _, a2, _, h⟩ := h
        split at h
        · simp only [Option.bind_eq_some_iff] at h
          obtain ⟨ts, _, h⟩ := h
          split at h <;> simp [Option.bind_eq_some_iff] at h
        · simp at h
      split at h
      · next hint =>
        obtain ⟨mk, hmk, hmkk⟩ := optKw_sound "main" ts2
        generalize (if peekKw "main" ts2 = true then (true, ts2.tail) else (false, ts2)) = s1 at h hmk hmkk
        obtain ⟨mn', ts3⟩ := s1
        simp only at h hmk hmkk
        cases hki : kw? "interface" ts3 with
        | none => simp [hki] at h
        | some ts4 =>
          obtain ⟨k, rfl, hkk⟩ := kw?_inv hki
          simp only [hki, Option.bind_some] at h
          obtain ⟨tg, htg1, htg2⟩ := targets_sound ts4
          generalize targets ts4 = x at h htg1 htg2
          obtain ⟨fl', ts5⟩ := x
          simp only at h htg1 htg2
          cases hl : kw? "{" ts5 with
          | none => simp [hl] at h
          | some ts6 =>
            obtain ⟨lb, rfl, hlb⟩ := kw?_inv hl
            simp only [hl, Option.bind_some] at h
            cases hm : many fuel (peekKw "}") (member fuel) fuel ts6 with
            | none => simp [hm] at h
            | some z =>
              obtain ⟨ms, ts7⟩ := z
              simp only [hm, Option.bind_some] at h
              cases hr : kw? "}" ts7 with
              | none => simp [hr] at h
              | some ts8 =>
                obtain ⟨rb, rfl, hrb⟩ := kw?_inv hr
                simp only [hr, Option.bind_some, Option.pure_def, Option.some.injEq, Prod.mk.injEq,
                  Decl.interface.injEq] at h
                obtain ⟨⟨rfl, rfl, rfl, rfl, -, rfl, rfl, -⟩, rfl⟩ := h
                exact ⟨rfl, nt, eq, mk, k, tg, lb, ts6, rb, ms, by rw [hmk, htg1], hn, heq, hmkk, hkk, htg2, hlb, hrb,
                  hm, congrArg (fun f => List.filterMap f ms) (funext fun x => by cases x <;> rfl),
                  congrArg (fun f => List.filterMap f ms) (funext fun x => by cases x <;> rfl)⟩
      · exfalso
        split at h
        · simp [Option.bind_eq_some_iff] at h
        · simp [firstThat, List.findSome?_eq_some_iff, Option.bind_eq_some_iff] at h

theorem typeDecl_error_inv (fuel : Nat) (c' : List String) (ts0 ts : List Token) (n : String) (c : List String)
    (codes : List ErrCode) (p : Pos) (rest : List Token)
    (h : typeDecl fuel c' ts0 ts = some (.error n c codes p, rest)) :
    c = c' ∧ ∃ nt eq k lb body rb, ts = nt :: eq :: k :: lb :: body ∧ nt.tk = .id n ∧ eq.tk = .kw "=" ∧
      k.tk = .kw "error" ∧ lb.tk = .kw "{" ∧ rb.tk = .kw "}" ∧
      many fuel (peekKw "}") (errCode fuel) fuel body = some (codes, rb :: rest) := by
  unfold typeDecl at h
  simp only [Option.bind_eq_bind] at h
  cases hi : ident ts with
  | none => simp [hi] at h
  | some y =>
    obtain ⟨n', ts1⟩ := y
    obtain ⟨nt, rfl, hn⟩ := ident_inv hi
    simp only [hi, Option.bind_some] at h
    cases hk : kw? "=" ts1 with
    | none => simp [hk] at h
    | some ts2 =>
      obtain ⟨eq, rfl, heq⟩ := kw?_inv hk
      simp only [hk, Option.bind_some] at h
      split at h
      · exfalso; simp [Option.bind_eq_some_iff] at h
      split at h
      · exfalso; simp [Option.bind_eq_some_iff] at h
      split at h
      · exfalso
        simp [Option.bind_eq_some_iff] at h
        obtain ⟨a, _, a1, b, _, a2, _, h⟩ := h
        split at h
        · simp only [Option.bind_eq_some_iff] at h
          obtain ⟨ts, _, h⟩ := h
          split at h <;> simp [Option.bind_eq_some_iff] at h
        · simp at h
      split at h
      · exfalso; simp [Option.bind_eq_some_iff] at h
      split at h
      · next herr =>
        obtain ⟨k, hk2, hkk⟩ := peekKw_inv herr
        cases hl : kw? "{" ts2.tail with
        | none => simp [hl] at h
        | some ts3 =>
          obtain ⟨lb, hlb, hlbk⟩ := kw?_inv hl
          simp only [hl, Option.bind_some] at h
          cases hm : many fuel (peekKw "}") (errCode fuel) fuel ts3 with
          | none => simp [hm] at h
          | some z =>
            obtain ⟨cs, ts4⟩ := z
            simp only [hm, Option.bind_some] at h
            cases hr : kw? "}" ts4 with
            | none => simp [hr] at h
            | some ts5 =>
              obtain ⟨rb, rfl, hrb⟩ := kw?_inv hr
              simp only [hr, Option.bind_some, Option.pure_def, Option.some.injEq, Prod.mk.injEq, Decl.error.injEq] at h
              obtain ⟨⟨rfl, rfl, rfl, -⟩, rfl⟩ := h
              exact ⟨rfl, nt, eq, k, lb, ts3, rb, by rw [hk2, hlb], hn, heq, hkk, hlbk, hrb, hm⟩
      · exfalso
        simp [firstThat, List.findSome?_eq_some_iff, Option.bind_eq_some_iff] at h

theorem typeDecl_function_inv (fuel : Nat) (c' : List String) (ts0 ts : List Token) (n : String) (c : List String)
    (sig : FnSig) (p : Pos) (rest : List Token)
    (h : typeDecl fuel c' ts0 ts = some (.function n c sig p, rest)) :
    c = c' ∧ ∃ nt eq ts2 semi, ts = nt :: eq :: ts2 ∧ nt.tk = .id n ∧ eq.tk = .kw "=" ∧
      (sig, semi :: rest) ∈ functionL fuel ts2 ∧ semi.tk = .kw ";" ∧
      (∀ s ∈ ["enum", "flags", "record", "main", "interface", "error"], peekKw s ts2 = false) := by
  unfold typeDecl at h
  simp only [Option.bind_eq_bind] at h
  cases hi : ident ts with
  | none => simp [hi] at h
  | some y =>
    obtain ⟨n', ts1⟩ := y
    obtain ⟨nt, rfl, hn⟩ := ident_inv hi
    simp only [hi, Option.bind_some] at h
    cases hk : kw? "=" ts1 with
    | none => simp [hk] at h
    | some ts2 =>
      obtain ⟨eq, rfl, heq⟩ := kw?_inv hk
      simp only [hk, Option.bind_some] at h
      split at h
      · exfalso; simp [Option.bind_eq_some_iff] at h
      next h1 =>
      split at h
      · exfalso; simp [Option.bind_eq_some_iff] at h
      next h2 =>
      split at h
      · exfalso
        simp [Option.bind_eq_some_iff] at h
        obtain ⟨a, _, a1, b, _, a2, _, h⟩ := h
        split at h
        · simp only [Option.bind_eq_some_iff] at h
          obtain ⟨ts, _, h⟩ := h
          split at h <;> simp [Option.bind_eq_some_iff] at h
        · simp at h
      next h3 =>
      split at h
      · exfalso; simp [Option.bind_eq_some_iff] at h
      next h4 =>
      split at h
      · exfalso; simp [Option.bind_eq_some_iff] at h
      next h5 =>
      obtain ⟨f, r', hmem, hnext⟩ := firstThat_inv h
      cases hs : kw? ";" r' with
      | none => simp [hs] at hnext
      | some ts3 =>
        obtain ⟨semi, rfl, hsemi⟩ := kw?_inv hs
        simp only [hs, Option.bind_some, Option.pure_def, Option.some.injEq, Prod.mk.injEq, Decl.function.injEq] at hnext
        obtain ⟨⟨rfl, rfl, rfl, -⟩, rfl⟩ := hnext
        refine ⟨rfl, nt, eq, ts2, semi, rfl, hn, heq, hmem, hsemi, ?_⟩
        simp only [Bool.or_eq_true, not_or, Bool.not_eq_true] at h4
        intro s hs
        simp only [List.mem_cons, List.mem_nil_iff, or_false] at hs
        rcases hs with rfl | rfl | rfl | rfl | rfl | rfl
        · simpa using h1
        · simpa using h2
        · simpa using h3
        · exact h4.1
        · exact h4.2
        · simpa using h5

/-! ## 6. declarations, namespaces, files -/

theorem item_covP : CovP (fun _ => []) item := by
  intro ts a r h
  obtain ⟨q, hq, _⟩ := item_sound ts a r h
  exact ⟨q, hq, Cov.nil _⟩

theorem flagItem_covP : CovP (fun _ => []) flagItem := by
  intro ts a r h
  obtain ⟨q, hq, _⟩ := flagItem_sound ts a r h
  exact ⟨q, hq, Cov.nil _⟩

theorem flatMap_nil_fun {α β : Type} (l : List α) : l.flatMap (fun _ => ([] : List β)) = [] := by
  induction l with
  | nil => rfl
  | cons a l ih => simp

/-- **declarations**: the tokens consumed by `typeDecl` cover the references of the declaration, for all six kinds -/
theorem typeDecl_cov (e : Env) (ns : List String) (fuel : Nat) (c : List String) (ts0 ts : List Token) (d : Decl)
    (rest : List Token) (h : typeDecl fuel c ts0 ts = some (d, rest)) :
    ∃ pre, ts = pre ++ rest ∧ Cov (walkDecl e ns d).refs pre := by
  cases d with
  | enum n c' items p =>
    obtain ⟨_, nt, eq, k, lb, body, rb, rfl, _, _, _, _, _, hm⟩ := typeDecl_enum_inv fuel c ts0 ts n c' items p rest h
    obtain ⟨pre, rfl, _⟩ := many_cov _ fuel _ item item_covP fuel _ _ _ hm
    exact ⟨nt :: eq :: k :: lb :: (pre ++ [rb]), by simp, Cov.of_eq_nil rfl _⟩
  | flags n c' items p =>
    obtain ⟨_, nt, eq, k, lb, body, rb, rfl, _, _, _, _, _, hm⟩ := typeDecl_flags_inv fuel c ts0 ts n c' items p rest h
    obtain ⟨pre, rfl, _⟩ := many_cov _ fuel _ flagItem flagItem_covP fuel _ _ _ hm
    exact ⟨nt :: eq :: k :: lb :: (pre ++ [rb]), by simp, Cov.of_eq_nil rfl _⟩
  | record n c' fl flp fields dv p =>
    obtain ⟨_, nt, eq, k, tg, lb, body, rb, dvt, rfl, _, _, _, _, _, _, hm, _⟩ :=
      typeDecl_record_inv fuel c ts0 ts n c' fl flp fields dv p rest h
    obtain ⟨pre, rfl, hc⟩ := many_cov _ fuel _ (field fuel) (field_cov e ns fuel) fuel _ _ _ hm
    refine ⟨nt :: eq :: k :: (tg ++ lb :: (pre ++ rb :: dvt)), by simp, ?_⟩
    have hr : (walkDecl e ns (.record n c' fl flp fields dv p)).refs = (walkFields e ns fields).refs := by
      simp [walkDecl, reg1]
    rw [hr, refs_walkFields]
    exact (((((hc.right (rb :: dvt)).cons lb).left tg).cons k).cons eq).cons nt
  | interface n c' mn fl flp methods props p =>
    obtain ⟨_, nt, eq, mk, k, tg, lb, body, rb, ms, rfl, _, _, _, _, _, _, _, hm, rfl, rfl⟩ :=
      typeDecl_interface_inv fuel c ts0 ts n c' mn fl flp methods props p rest h
    obtain ⟨pre, rfl, hc⟩ := many_cov _ fuel _ (member fuel) (member_cov e ns fuel) fuel _ _ _ hm
    refine ⟨nt :: eq :: (mk ++ k :: (tg ++ lb :: (pre ++ [rb]))), by simp, ?_⟩
    have hr : (walkDecl e ns (.interface n c' mn fl flp (ms.filterMap Member.method?)
        (ms.filterMap Member.prop?) p)).refs
        = (walkMethods e ns (ms.filterMap Member.method?)).refs
          ++ (walkProps e ns (ms.filterMap Member.prop?)).refs := by
      simp [walkDecl, reg1]
    rw [hr]
    have hc' := hc.perm (refs_members_perm e ns ms)
    exact ((((((hc'.right [rb]).cons lb).left tg).cons k).left mk).cons eq).cons nt
  | error n c' codes p =>
    obtain ⟨_, nt, eq, k, lb, body, rb, rfl, _, _, _, _, _, hm⟩ := typeDecl_error_inv fuel c ts0 ts n c' codes p rest h
    obtain ⟨pre, rfl, hc⟩ := many_cov _ fuel _ (errCode fuel) (errCode_cov e ns fuel) fuel _ _ _ hm
    refine ⟨nt :: eq :: k :: lb :: (pre ++ [rb]), by simp, ?_⟩
    have hr : (walkDecl e ns (.error n c' codes p)).refs = (walkCodes e ns codes).refs := by
      simp [walkDecl, reg1]
    rw [hr, refs_walkCodes]
    exact ((((hc.right [rb]).cons lb).cons k).cons eq).cons nt
  | function n c' sig p =>
    obtain ⟨_, nt, eq, ts2, semi, rfl, _, _, hmem, _, _⟩ := typeDecl_function_inv fuel c ts0 ts n c' sig p rest h
    obtain ⟨pre, rfl, hc⟩ := functionL_cov e ns fuel _ _ _ hmem
    refine ⟨nt :: eq :: (pre ++ [semi]), by simp, ?_⟩
    have hr : (walkDecl e ns (.function n c' sig p)).refs = (walkF e ns sig).refs := rfl
    rw [hr]
    exact ((hc.right [semi]).cons eq).cons nt

/-- like `CovP`, for results whose references depend on the enclosing namespace: one consumed prefix covers them
    under every namespace -/
def CovPN {α : Type} (R : List String → α → List RefSite) (p : P α) : Prop :=
  ∀ ts a rest, p ts = some (a, rest) → ∃ pre, ts = pre ++ rest ∧ ∀ ns, Cov (R ns a) pre

theorem many_covN {α : Type} (R : List String → α → List RefSite) (fuel : Nat) (stop : List Token → Bool) (p : P α)
    (hp : CovPN R p) (n : Nat) : CovPN (fun ns l => l.flatMap (R ns)) (many fuel stop p n) := by
  induction n with
  | zero => intro ts as rest h; simp [many] at h
  | succ n ih =>
    intro ts as rest h
    simp only [many] at h
    split at h
    · simp at h; obtain ⟨rfl, rfl⟩ := h; exact ⟨[], by simp, fun _ => Cov.nil _⟩
    · cases h1 : p ts with
      | none => simp [h1] at h
      | some x =>
        obtain ⟨a, r⟩ := x
        simp only [h1, Option.bind_eq_bind, Option.bind_some] at h
        cases h2 : many fuel stop p n r with
        | none => simp [h2] at h
        | some y =>
          obtain ⟨as', r'⟩ := y
          simp [h2] at h
          obtain ⟨rfl, rfl⟩ := h
          obtain ⟨q, rfl, hq⟩ := hp _ _ _ h1
          obtain ⟨pre, rfl, hpre⟩ := ih _ _ _ h2
          exact ⟨q ++ pre, by simp, fun ns => by simpa only [List.flatMap_cons] using (hq ns).append (hpre ns)⟩

theorem refs_walkContents (e : Env) (ns : List String) (cs : List Content) :
    (walkContents e ns cs).refs = cs.flatMap (fun c => (walkContent e ns c).refs) := by
  induction cs with
  | nil => simp [walkContents]
  | cons c cs ih => simp only [walkContents, Collected.refs_append, ih, List.flatMap_cons]

/-- **namespace contents** (declarations and nested namespaces) -/
theorem content_cov (e : Env) (fuel : Nat) : CovPN (fun ns c => (walkContent e ns c).refs) (content fuel) := by
  induction fuel with
  | zero => intro ts a rest h; simp [content] at h
  | succ g ih =>
    intro ts0 a rest h
    rw [content_succ] at h
    obtain ⟨cs, h1, _⟩ := comments_sound ts0
    split at h
    · next hns =>
      obtain ⟨nk, hnk, _⟩ := peekKw_inv hns
      cases hn : nsIdent (comments ts0).2.tail with
      | none => simp [hn] at h
      | some y =>
        obtain ⟨n, ts1⟩ := y
        obtain ⟨nt, d, hnt, _⟩ := nsIdent_inv hn
        simp only [hn] at h
        cases hl : kw? "{" ts1 with
        | none => simp [hl] at h
        | some ts2 =>
          obtain ⟨lb, rfl, _⟩ := kw?_inv hl
          simp only [hl] at h
          cases hm : many g (peekKw "}") (content g) g ts2 with
          | none => simp [hm] at h
          | some z =>
            obtain ⟨children, ts3⟩ := z
            simp only [hm] at h
            cases hr : kw? "}" ts3 with
            | none => simp [hr] at h
            | some ts4 =>
              obtain ⟨rb, rfl, _⟩ := kw?_inv hr
              simp only [hr, Option.some.injEq, Prod.mk.injEq] at h
              obtain ⟨rfl, rfl⟩ := h
              obtain ⟨pre, rfl, hc⟩ := many_covN _ g _ (content g) ih g _ _ _ hm
              refine ⟨cs ++ nk :: nt :: lb :: (pre ++ [rb]), by rw [h1, hnk, hnt]; simp, fun ns => ?_⟩
              dsimp only
              simp only [walkContent]
              rw [refs_walkContents]
              exact ((((hc (ns ++ n.splitOn ".")).right [rb]).cons lb).cons nt).cons nk |>.left cs
    · cases ht : typeDecl g (comments ts0).1 ts0 (comments ts0).2 with
      | none => simp [ht] at h
      | some y =>
        obtain ⟨d, r⟩ := y
        simp only [ht, Option.some.injEq, Prod.mk.injEq] at h
        obtain ⟨rfl, rfl⟩ := h
        obtain ⟨pre, hpre, _⟩ := typeDecl_cov e [] g _ _ _ _ _ ht
        refine ⟨cs ++ pre, by rw [List.append_assoc, ← hpre]; exact h1, fun ns => ?_⟩
        obtain ⟨pre', hpre', hc⟩ := typeDecl_cov e ns g _ _ _ _ _ ht
        have : pre' = pre := List.append_cancel_right (hpre'.symm.trans hpre)
        subst this
        dsimp only
        simp only [walkContent]
        exact hc.left cs

theorem load_covP : CovP (fun _ => []) load := by
  intro ts l rest h
  unfold load at h
  split at h
  · next a b r =>
    split at h
    · split at h
      · simp at h; obtain ⟨_, rfl⟩ := h; exact ⟨[a, b], by simp, Cov.nil _⟩
      · split at h
        · simp at h; obtain ⟨_, rfl⟩ := h; exact ⟨[a, b], by simp, Cov.nil _⟩
        · simp at h
    · simp at h
  · simp at h

/-- **files**: all tokens of an accepted token list cover the references of the file's contents -/
theorem parseFile_cov (e : Env) (toks : List Token) (file : File) (h : parseFile toks = some file) (ns : List String) :
    Cov (walkContents e ns file.contents).refs toks := by
  rw [parseFile_eq] at h
  cases hl : many (8 * toks.length + 16) stopLoads load (8 * toks.length + 16) toks with
  | none => simp [hl] at h
  | some x =>
    obtain ⟨ls, ts1⟩ := x
    simp only [hl] at h
    cases hc : many (8 * toks.length + 16) (fun t => t.isEmpty) (content (8 * toks.length + 16)) (8 * toks.length + 16) ts1 with
    | none => simp [hc] at h
    | some y =>
      obtain ⟨cs, ts2⟩ := y
      simp only [hc] at h
      split at h
      · next hemp =>
        simp only [Option.some.injEq] at h
        subst h
        have hts2 : ts2 = [] := by simpa using hemp
        subst hts2
        obtain ⟨p1, hp1, _⟩ := many_cov _ _ _ load load_covP _ _ _ _ hl
        obtain ⟨p2, hp2, hcov⟩ := many_covN _ _ _ _ (content_cov e _) _ _ _ _ hc
        rw [hp1, hp2, refs_walkContents]
        exact ((hcov ns).right []).left p1
      · simp at h

/-! ## 7. H4 -/

theorem nodup_of_nodup_map {α β : Type} (f : α → β) {l : List α} (h : (l.map f).Nodup) : l.Nodup := by
  unfold List.Nodup at *
  rw [List.pairwise_map] at h
  exact h.imp (fun hab heq => hab (congrArg f heq))

/-- **the references of an accepted text start at pairwise distinct positions** -/
theorem parseText_refStarts_nodup (e : Env) (src : String) (file : File) (h : parseText src = some file)
    (ns : List String) : ((walkContents e ns file.contents).refs.map rst).Nodup := by
  unfold parseText at h
  cases hl : lex src with
  | none => simp [hl] at h
  | some toks =>
    simp only [hl, Option.bind_eq_bind, Option.bind_some] at h
    exact (parseFile_cov e toks file h ns).nodup (lex_starts_nodup hl)

/-- **H4 is a theorem**: for every text the model accepts, the type references collected from the parsed contents
    carry pairwise distinct positions — whatever the configuration and the name the file is given. No hypothesis
    beyond acceptance; inline function types, generic arguments, methods, properties, error-code parameters, named
    functions and nested namespaces are all covered. -/
theorem parseText_refPositionsDistinct (cfg : Cfg) (src : String) (file : File) (h : parseText src = some file)
    (name : String) : RefPositionsDistinct cfg { file := name, contents := file.contents } := by
  unfold RefPositionsDistinct
  have hn := parseText_refStarts_nodup { file := name, keys := cfg.keys, defaultDeriving := cfg.defaultDeriving }
    src file h []
  have he : (walkContents { file := name, keys := cfg.keys, defaultDeriving := cfg.defaultDeriving } [] file.contents).refs.map rst
      = ((walkContents { file := name, keys := cfg.keys, defaultDeriving := cfg.defaultDeriving } [] file.contents).refs.map
          (fun r => (r.file, r.pos))).map (fun p => (p.2.sl, p.2.sc)) := by
    rw [List.map_map]; rfl
  rw [he] at hn
  exact nodup_of_nodup_map _ hn

/-! ## non-vacuity: a text with nested generics, an inline function type, a namespace, an interface whose property
precedes a method (the AST reorders them), error-code parameters and a named function -/

def exPosSrc : String :=
  "@import \"a.pydjinni\"\nr = record { a: map<string, list<i32>>; f: (x: i8) -> bool; }\n" ++
  "namespace n.m { i = interface +cpp { property p: r; m(a: i8, b: list<r>) throws e -> r; }\n" ++
  "e = error { c(x: i8 y: r); } }\ng = function (q: r) -> r;\n"

/-- test: the text is accepted and has 16 references -/
example : ((parseText exPosSrc).map (fun f => (walkContents { file := "f", keys := ["cpp"], defaultDeriving := [] } [] f.contents).refs.length))
    = some 16 := by decide +kernel

example : ∀ f, parseText exPosSrc = some f →
    RefPositionsDistinct { cwd := default, keys := ["cpp"], defaultDeriving := [], includeDirs := [] } { file := "f", contents := f.contents } :=
  fun f h => parseText_refPositionsDistinct _ exPosSrc f h "f"

end Pydjinni.Front

section
open Pydjinni.Front
#print axioms lex_starts_increasing
#print axioms parseFile_cov
#print axioms parseText_refPositionsDistinct
#print axioms typeDecl_interface_inv
#print axioms typeDecl_error_inv
#print axioms typeDecl_function_inv
#print axioms member_inv
end
