import PydjinniModel.Props.C03Pos
import PydjinniModel.Props.C03Text
/-!
# C03 — parse, then print: soundness for every declaration kind, namespaces and files

`Props/C03Decl.lean` proves print → parse for all declaration kinds and files, and parse → print for enums, flags and
records. This file proves parse → print for the remaining kinds and for whole files, for results whose type
references are all data types (`shape?` is defined; inline function types are excluded as in `record_sound`: that
sub-grammar is ambiguous and printing is not injective there).

The AST does not record whether an error code without parameters was written `a;` or `a();`. The *refined* shapes
`ErrCodeShape'` (`params : Option (List ParamShape)`: `none` = no parentheses), `DeclShape'` (`plain d` | `error …`),
`ContentShape'`, `FileShape'` with printers `printErrCode'` … `printFile'` record it; `toOld` forgets it and `refine`
is the canonical refinement of an old shape, with the erasure lemmas `printErrCode'_refine`, `printContent'_refine`,
`printFile'_refine` (`printFile' f.refine = printFile f`) and `refine_toOld` — the theorems of `C03Decl` are unchanged.

* signature layer, every candidate of the list-of-successes parsers whose types are data types:
  `paramL_data_sound`, `paramList1L_data_sound`, `paramListL_data_sound`, `throwList1L_data_sound`,
  `throwingL_data_sound`, `sigBody_data_sound`, `functionL_data_sound`, `errParamsL_data_sound`
* `member_sound`, `errCode_sound`, `typeDecl_sound` (all six kinds), `decl_sound`
* **`interface_sound`, `function_sound`, `errorDomain_sound`**   in the style of `record_sound`
* **`content_sound`** (`ContentSound (content fuel)`)             declarations and nested namespaces
* **`file_sound`**                                                `parseFile toks = some file`, `file.shape?` defined ⇒
                                                                  `toks.map (·.tk) = printFile' f`, `file.shape? = some f.toOld.erase`
* `errCode_print'` … `content_print'`, **`file_roundtrip'`**      print → parse for refined shapes (`a ( ) ;` included)
* **`parseFile_iff_print`**, `parseFile_accepts_iff_print`        the accepted token lists are exactly the printings
* **`parseText_iff_render`**                                      the accepted texts are exactly the admissible renderings
Non-vacuity: `exSoundSrc` (an interface with interleaved members, a named function, an error domain with `a;`, `b();`
and `c(x: i8 y: r);` inside a namespace) is lexed by the real `lex` (kernel `decide`) to `printFile' exSound`, and the
theorems are instantiated on it.
-/
set_option linter.unusedSimpArgs false
set_option linter.unusedVariables false

namespace Pydjinni.Front

/-! ## 1. signatures whose types are data types -/

theorem Param.shape?_isSome {n : String} {t : TypeRef} {p : Pos} (h : (Param.mk n t p).shape?.isSome = true) :
    (shapeOf t).isSome = true := by
  simpa [Param.shape?] using h

theorem paramL_data_sound (fuel : Nat) (ts0 : List Token) (p : Param) (r : List Token)
    (hm : (p, r) ∈ paramL fuel ts0) (hd : p.shape?.isSome = true) :
    ∃ pre s, ts0 = pre ++ r ∧ pre.map (·.tk) = printParam s ∧ p.shape? = some s.erase := by
  cases fuel with
  | zero => simp [paramL] at hm
  | succ g =>
    rw [paramL.eq_2] at hm
    cases hi : ident ts0 with
    | none => simp [hi] at hm
    | some y =>
      obtain ⟨n, ts⟩ := y
      obtain ⟨nt, rfl, hn⟩ := ident_inv hi
      simp only [hi] at hm
      cases hk : kw? ":" ts with
      | none => simp [hk] at hm
      | some ts1 =>
        obtain ⟨colon, rfl, hcolon⟩ := kw?_inv hk
        simp only [hk] at hm
        obtain ⟨⟨t, r'⟩, ht, he⟩ := List.mem_map.mp hm
        simp only [Prod.mk.injEq] at he
        obtain ⟨rfl, rfl⟩ := he
        obtain ⟨pre, s, rfl, hpre, hs⟩ := typeRefL_data_sound g ts1 t _ ht (Param.shape?_isSome hd)
        exact ⟨nt :: colon :: pre, ⟨n, s⟩, by simp, by simp [printParam, hn, hcolon, hpre],
          by simp [Param.shape?, hs, ParamShape.erase]⟩

theorem printParams_cons_ne (s : ParamShape) (ss : List ParamShape) (h : ss ≠ []) :
    printParams (s :: ss) = printParam s ++ Tk.kw "," :: printParams ss := by
  cases ss with
  | nil => exact absurd rfl h
  | cons a as => rfl

theorem printTys_cons_ne (s : TyShape) (ss : List TyShape) (h : ss ≠ []) :
    printTys (s :: ss) = printTy s ++ Tk.kw "," :: printTys ss := by
  cases ss with
  | nil => exact absurd rfl h
  | cons a as => rfl

theorem paramList1L_data_sound (fuel : Nat) : ∀ (ts : List Token) (ps : List Param) (r : List Token),
    (ps, r) ∈ paramList1L fuel ts → (∀ p ∈ ps, p.shape?.isSome = true) →
    ∃ pre ss, ss ≠ [] ∧ ts = pre ++ r ∧ pre.map (·.tk) = printParams ss ∧
      mapOpt Param.shape? ps = some (ss.map ParamShape.erase) := by
  induction fuel with
  | zero => intro ts ps r hm; simp [paramList1L] at hm
  | succ g ih =>
    intro ts ps r hm hd
    rw [paramList1L.eq_2] at hm
    rcases List.mem_append.mp hm with hm | hm
    · obtain ⟨⟨p, ts1⟩, hpm, hm2⟩ := List.mem_flatMap.mp hm
      clear hm
      dsimp only at hm2
      split at hm2
      · next hc =>
        obtain ⟨c, hce, hck⟩ := peekKw_inv hc
        obtain ⟨⟨ps', r'⟩, hps, he⟩ := List.mem_map.mp hm2
        simp only [Prod.mk.injEq] at he
        obtain ⟨rfl, rfl⟩ := he
        obtain ⟨pp, s, rfl, hpp, hs⟩ := paramL_data_sound g ts p ts1 hpm (hd p List.mem_cons_self)
        obtain ⟨pr, ss, hne, hpr, hprk, hss⟩ := ih _ _ _ hps (fun q hq => hd q (List.mem_cons_of_mem _ hq))
        refine ⟨pp ++ c :: pr, s :: ss, by simp, by rw [hce, hpr]; simp, ?_, by simp [mapOpt, hs, hss]⟩
        rw [printParams_cons_ne s ss hne]; simp [hpp, hck, hprk]
      · simp at hm2
    · obtain ⟨⟨p, ts1⟩, hpm, he⟩ := List.mem_map.mp hm
      simp only [Prod.mk.injEq] at he
      obtain ⟨rfl, rfl⟩ := he
      obtain ⟨pp, s, rfl, hpp, hs⟩ := paramL_data_sound g ts p ts1 hpm (hd p List.mem_cons_self)
      exact ⟨pp, [s], by simp, rfl, by simpa [printParams] using hpp, by simp [mapOpt, hs]⟩

theorem paramListL_data_sound (fuel : Nat) (ts : List Token) (ps : List Param) (r : List Token)
    (hm : (ps, r) ∈ paramListL fuel ts) (hd : ∀ p ∈ ps, p.shape?.isSome = true) :
    ∃ pre ss, ts = pre ++ r ∧ pre.map (·.tk) = printParams ss ∧ mapOpt Param.shape? ps = some (ss.map ParamShape.erase) := by
  cases fuel with
  | zero => simp [paramListL] at hm
  | succ g =>
    rw [paramListL.eq_2] at hm
    rcases List.mem_append.mp hm with hm | hm
    · split at hm
      · obtain ⟨pre, ss, _, h1, h2, h3⟩ := paramList1L_data_sound g ts ps r hm hd
        exact ⟨pre, ss, h1, h2, h3⟩
      · simp at hm
    · simp only [List.mem_singleton, Prod.mk.injEq] at hm
      obtain ⟨rfl, rfl⟩ := hm
      exact ⟨[], [], by simp, by simp [printParams], by simp [mapOpt]⟩

theorem throwList1L_data_sound (fuel : Nat) : ∀ (ts : List Token) (l : List TypeRef) (r : List Token),
    (l, r) ∈ throwList1L fuel ts → (∀ t ∈ l, (shapeOf t).isSome = true) →
    ∃ pre ss, ss ≠ [] ∧ ts = pre ++ r ∧ pre.map (·.tk) = printTys ss ∧
      mapOpt shapeOf l = some (ss.map TyShape.erase) := by
  induction fuel with
  | zero => intro ts l r hm; simp [throwList1L] at hm
  | succ g ih =>
    intro ts l r hm hd
    rw [throwList1L.eq_2] at hm
    rcases List.mem_append.mp hm with hm | hm
    · obtain ⟨⟨t, ts1⟩, htm, hm2⟩ := List.mem_flatMap.mp hm
      clear hm
      dsimp only at hm2
      split at hm2
      · next hc =>
        obtain ⟨c, hce, hck⟩ := peekKw_inv hc
        obtain ⟨⟨l', r'⟩, hl, he⟩ := List.mem_map.mp hm2
        simp only [Prod.mk.injEq] at he
        obtain ⟨rfl, rfl⟩ := he
        obtain ⟨pp, s, rfl, hpp, hs⟩ := typeRefL_data_sound g ts t ts1 htm (hd t List.mem_cons_self)
        obtain ⟨pr, ss, hne, hpr, hprk, hss⟩ := ih _ _ _ hl (fun q hq => hd q (List.mem_cons_of_mem _ hq))
        refine ⟨pp ++ c :: pr, s :: ss, by simp, by rw [hce, hpr]; simp, ?_, by simp [mapOpt, hs, hss]⟩
        rw [printTys_cons_ne s ss hne]; simp [hpp, hck, hprk]
      · simp at hm2
    · obtain ⟨⟨t, ts1⟩, htm, he⟩ := List.mem_map.mp hm
      simp only [Prod.mk.injEq] at he
      obtain ⟨rfl, rfl⟩ := he
      obtain ⟨pp, s, rfl, hpp, hs⟩ := typeRefL_data_sound g ts t ts1 htm (hd t List.mem_cons_self)
      exact ⟨pp, [s], by simp, rfl, by simpa [printTys] using hpp, by simp [mapOpt, hs]⟩

theorem throwingL_data_sound (fuel : Nat) (ts : List Token) (o : Option (List TypeRef)) (r : List Token)
    (hm : (o, r) ∈ throwingL fuel ts) (hd : (throwingShape? o).isSome = true) :
    ∃ pre so, ts = pre ++ r ∧ pre.map (·.tk) = printThrowing so ∧
      throwingShape? o = some (so.map (fun l => l.map TyShape.erase)) := by
  cases fuel with
  | zero => simp [throwingL] at hm
  | succ g =>
    rw [throwingL.eq_2] at hm
    split at hm
    · next hth =>
      obtain ⟨th, hthe, hthk⟩ := peekKw_inv hth
      rcases List.mem_append.mp hm with hm | hm
      · obtain ⟨⟨l, r'⟩, hl, he⟩ := List.mem_map.mp hm
        simp only [Prod.mk.injEq] at he
        obtain ⟨rfl, rfl⟩ := he
        have hd' : ∀ t ∈ l, (shapeOf t).isSome = true := by
          simp only [throwingShape?, Option.isSome_map] at hd
          obtain ⟨x, hx⟩ := Option.isSome_iff_exists.mp hd
          exact mapOpt_isSome_of hx
        obtain ⟨pr, ss, _, hpr, hprk, hss⟩ := throwList1L_data_sound g _ _ _ hl hd'
        exact ⟨th :: pr, some ss, by rw [hthe, hpr]; simp, by simp [printThrowing, hthk, hprk],
          by simp [throwingShape?, hss]⟩
      · simp only [List.mem_singleton, Prod.mk.injEq] at hm
        obtain ⟨rfl, rfl⟩ := hm
        exact ⟨[th], some [], by rw [hthe]; simp, by simp [printThrowing, printTys, hthk], by simp [throwingShape?, mapOpt]⟩
    · simp only [List.mem_singleton, Prod.mk.injEq] at hm
      obtain ⟨rfl, rfl⟩ := hm
      exact ⟨[], none, by simp, by simp [printThrowing], by simp [throwingShape?]⟩

theorem sigShape?_isSome_inv {ps : List Param} {thr : Option (List TypeRef)} {ret : Option TypeRef}
    (h : (sigShape? ps thr ret).isSome = true) :
    (∀ p ∈ ps, p.shape?.isSome = true) ∧ (throwingShape? thr).isSome = true ∧ (retShape? ret).isSome = true := by
  unfold sigShape? at h
  split at h
  · next a b c h1 h2 h3 => exact ⟨mapOpt_isSome_of h1, by simp [h2], by simp [h3]⟩
  · simp at h

/-- a candidate of `sigBody` whose types are data types is a printed signature -/
theorem sigBody_data_sound (flags : Option (List String)) (fpos : Pos) (g : Nat) (ts : List Token)
    (fl : Option (List String)) (fp : Pos) (ps : List Param) (thr : Option (List TypeRef)) (ret : Option TypeRef)
    (r : List Token) (hm : (FnSig.mk fl fp ps thr ret, r) ∈ sigBody flags fpos g ts)
    (hd : (sigShape? ps thr ret).isSome = true) :
    fl = flags ∧ ∃ pre s, ts = pre ++ r ∧ pre.map (·.tk) = printSig s ∧ sigShape? ps thr ret = some s.erase := by
  obtain ⟨hdp, hdt, hdr⟩ := sigShape?_isSome_inv hd
  unfold sigBody at hm
  cases hk : kw? "(" ts with
  | none => simp [hk] at hm
  | some ts1 =>
    obtain ⟨lp, rfl, hlp⟩ := kw?_inv hk
    simp only [hk] at hm
    obtain ⟨⟨ps', ts2⟩, hps, hm2⟩ := List.mem_flatMap.mp hm
    clear hm
    dsimp only at hm2
    cases hk2 : kw? ")" ts2 with
    | none => simp [hk2] at hm2
    | some ts3 =>
      obtain ⟨rp, rfl, hrp⟩ := kw?_inv hk2
      simp only [hk2] at hm2
      obtain ⟨⟨thr', ts4⟩, hthr, hm3⟩ := List.mem_flatMap.mp hm2
      clear hm2
      dsimp only at hm3
      rcases List.mem_append.mp hm3 with hm | hm
      · split at hm
        · next harrow =>
          obtain ⟨ar, har, hark⟩ := peekKw_inv harrow
          obtain ⟨⟨rt, ts5⟩, hr, he⟩ := List.mem_map.mp hm
          simp only [Prod.mk.injEq, FnSig.mk.injEq] at he
          obtain ⟨⟨rfl, rfl, rfl, rfl, rfl⟩, rfl⟩ := he
          obtain ⟨pp, sps, rfl, hpp, hsps⟩ := paramListL_data_sound g _ _ _ hps hdp
          obtain ⟨pt, sthr, rfl, hpt, hsthr⟩ := throwingL_data_sound g _ _ _ hthr hdt
          have hdr' : (shapeOf rt).isSome = true := by simpa [retShape?] using hdr
          obtain ⟨pr, sr, hpr, hprk, hsr⟩ := typeRefL_data_sound g _ _ _ hr hdr'
          refine ⟨rfl, lp :: (pp ++ rp :: (pt ++ ar :: pr)), ⟨sps, sthr, some sr⟩, ?_, ?_, ?_⟩
          · rw [har, hpr]; simp
          · simp [printSig, printRet, hlp, hpp, hrp, hpt, hark, hprk]
          · simp [sigShape?, hsps, hsthr, retShape?, hsr, SigShape.erase]
        · simp at hm
      · simp only [List.mem_singleton, Prod.mk.injEq, FnSig.mk.injEq] at hm
        obtain ⟨⟨rfl, rfl, rfl, rfl, rfl⟩, rfl⟩ := hm
        obtain ⟨pp, sps, rfl, hpp, hsps⟩ := paramListL_data_sound g _ _ _ hps hdp
        obtain ⟨pt, sthr, rfl, hpt, hsthr⟩ := throwingL_data_sound g _ _ _ hthr hdt
        refine ⟨rfl, lp :: (pp ++ rp :: pt), ⟨sps, sthr, none⟩, by simp, ?_, ?_⟩
        · simp [printSig, printRet, hlp, hpp, hrp, hpt]
        · simp [sigShape?, hsps, hsthr, retShape?, SigShape.erase]

/-- a candidate of `functionL` whose types are data types is `[function targets…]` followed by a printed signature -/
theorem functionL_data_sound (fuel : Nat) (ts : List Token)
    (fl : Option (List String)) (fp : Pos) (ps : List Param) (thr : Option (List TypeRef)) (ret : Option TypeRef)
    (r : List Token) (hm : (FnSig.mk fl fp ps thr ret, r) ∈ functionL fuel ts)
    (hd : (sigShape? ps thr ret).isSome = true) :
    ∃ fpre pre s, ts = fpre ++ (pre ++ r) ∧ fpre.map (·.tk) = printFnKw fl ∧ pre.map (·.tk) = printSig s ∧
      sigShape? ps thr ret = some s.erase ∧ (peekKw "function" ts = false → fl = none) := by
  cases fuel with
  | zero => simp [functionL] at hm
  | succ g =>
    rw [functionL_succ] at hm
    split at hm
    · next hfn =>
      obtain ⟨fk, hfk, hfkk⟩ := peekKw_inv hfn
      obtain ⟨tg, htg, htgk⟩ := targets_sound ts.tail
      obtain ⟨rfl, pre, s, hpre, hprek, hs⟩ := sigBody_data_sound _ _ g _ fl fp ps thr ret r hm hd
      refine ⟨fk :: tg, pre, s, ?_, by simp [printFnKw, hfkk, htgk], hprek, hs, fun h => by rw [hfn] at h; cases h⟩
      rw [hfk, htg, hpre]; simp
    · obtain ⟨rfl, pre, s, hpre, hprek, hs⟩ := sigBody_data_sound _ _ g _ fl fp ps thr ret r hm hd
      exact ⟨[], pre, s, by simpa using hpre, by simp [printFnKw], hprek, hs, fun _ => rfl⟩

/-! ## 2. interface members -/

theorem peekKw_function_of_paren {ts : List Token} (h : peekKw "(" ts = true) : peekKw "function" ts = false := by
  obtain ⟨t, ht, htk⟩ := peekKw_inv h
  rw [ht]
  exact peekKw_ne htk (by decide)

/-- **members** whose types are data types: the consumed tokens are a printing of a member shape whose erasure is
    the shape of the result -/
theorem member_sound (fuel : Nat) (ts0 : List Token) (a : Member) (r : List Token)
    (h : member fuel ts0 = some (a, r)) (hd : a.shape?.isSome = true) :
    ∃ q s, ts0 = q ++ r ∧ q.map (·.tk) = printMember s ∧ a.shape? = some s.erase := by
  obtain ⟨cs, c, hcs, h | h⟩ := member_inv fuel ts0 a r h
  · obtain ⟨pk, nt, colon, ts2, semi, n, t, p, rfl, hpk, hn, hcolon, hmem, hsemi, rfl⟩ := h
    have hd' : (shapeOf t).isSome = true := by simpa [Member.shape?, Prop'.shape?] using hd
    obtain ⟨pre, s, rfl, hpre, hs⟩ := typeRefL_data_sound fuel ts2 t _ hmem hd'
    refine ⟨cs ++ pk :: nt :: colon :: (pre ++ [semi]), .p ⟨n, s, c⟩, by simp, ?_, ?_⟩
    · simp [printMember, printProp, hcs, hpk, hn, hcolon, hpre, hsemi]
    · simp [Member.shape?, Prop'.shape?, hs, MemberShape.erase, PropShape.erase]
  · obtain ⟨m1, m2, m3, nt, ts5, semi, n, st, co, asy, fl, fp, ps, thr, ret, p, rfl, hm1, hm2, hm3, hn, hlp, hmem,
      hsemi, _, rfl⟩ := h
    have hd' : (sigShape? ps thr ret).isSome = true := by simpa [Member.shape?, Method.shape?] using hd
    obtain ⟨fpre, pre, s, hts, hfpre, hpre, hs, hfl⟩ := functionL_data_sound fuel ts5 fl fp ps thr ret _ hmem hd'
    have hfl' := hfl (peekKw_function_of_paren hlp)
    subst hfl'
    simp only [printFnKw, List.map_eq_nil_iff] at hfpre
    subst hfpre
    simp only [List.nil_append] at hts
    subst hts
    refine ⟨cs ++ (m1 ++ (m2 ++ (m3 ++ nt :: (pre ++ [semi])))), .m ⟨n, st, co, asy, s, c⟩, by simp, ?_, ?_⟩
    · simp [printMember, printMethod, hcs, hm1, hm2, hm3, hn, hpre, hsemi]
    · simp [Member.shape?, Method.shape?, hs, MemberShape.erase, MethodShape.erase]

/-! ## 3. error codes: the refined shape records whether the parentheses were written -/

/-- shape of an error code with what the AST forgets: `params = none` — written `name ;`; `params = some l` — written
    `name ( l… ) ;` (`l` may be empty: `name ( ) ;` is accepted and yields the same AST as `name ;`) -/
structure ErrCodeShape' where
  name : String
  params : Option (List ParamShape)
  comment : List String
deriving Repr, DecidableEq

/-- forget the parentheses -/
def ErrCodeShape'.toOld (e : ErrCodeShape') : ErrCodeShape :=
  { name := e.name, params := e.params.getD [], comment := e.comment }

/-- the refined shape `printErrCode` writes: parentheses iff there are parameters -/
def ErrCodeShape.refine (e : ErrCodeShape) : ErrCodeShape' :=
  { name := e.name, params := if e.params = [] then none else some e.params, comment := e.comment }

def printErrCode' (e : ErrCodeShape') : List Tk :=
  printComments e.comment ++ Tk.id e.name ::
    ((match e.params with
      | none => []
      | some ps => Tk.kw "(" :: (ps.flatMap printParam ++ [Tk.kw ")"])) ++ [Tk.kw ";"])

theorem ErrCodeShape.refine_toOld (e : ErrCodeShape) : e.refine.toOld = e := by
  obtain ⟨n, ps, c⟩ := e
  cases ps <;> simp [ErrCodeShape.refine, ErrCodeShape'.toOld]

/-- **erasure**: the old printer is the refined printer on the canonical refinement -/
theorem printErrCode'_refine (e : ErrCodeShape) : printErrCode' e.refine = printErrCode e := by
  obtain ⟨n, ps, c⟩ := e
  cases ps <;> simp [ErrCodeShape.refine, printErrCode', printErrCode]

theorem errParamsL_data_sound (fuel n : Nat) : ∀ (ts : List Token) (ps : List Param) (r : List Token),
    (ps, r) ∈ errParamsL fuel n ts → (∀ p ∈ ps, p.shape?.isSome = true) →
    ∃ (pre : List Token) (ss : List ParamShape), ts = pre ++ r ∧ pre.map (·.tk) = ss.flatMap printParam ∧
      mapOpt Param.shape? ps = some (ss.map ParamShape.erase) := by
  induction n with
  | zero => intro ts ps r hm; simp [errParamsL] at hm
  | succ n ih =>
    intro ts ps r hm hd
    simp only [errParamsL] at hm
    rcases List.mem_append.mp hm with hm | hm
    · split at hm
      · obtain ⟨⟨p, ts1⟩, hpm, hm2⟩ := List.mem_flatMap.mp hm
        clear hm
        dsimp only at hm2
        obtain ⟨⟨ps', r'⟩, hps, he⟩ := List.mem_map.mp hm2
        simp only [Prod.mk.injEq] at he
        obtain ⟨rfl, rfl⟩ := he
        obtain ⟨pp, s, rfl, hpp, hs⟩ := paramL_data_sound fuel ts p ts1 hpm (hd p List.mem_cons_self)
        obtain ⟨pr, ss, rfl, hprk, hss⟩ := ih _ _ _ hps (fun q hq => hd q (List.mem_cons_of_mem _ hq))
        exact ⟨pp ++ pr, s :: ss, by simp, by simp [hpp, hprk], by simp [mapOpt, hs, hss]⟩
      · simp at hm
    · simp only [List.mem_singleton, Prod.mk.injEq] at hm
      obtain ⟨rfl, rfl⟩ := hm
      exact ⟨[], [], by simp, by simp, by simp [mapOpt]⟩

/-- **error codes** whose parameter types are data types -/
theorem errCode_sound (fuel : Nat) (ts0 : List Token) (c : ErrCode) (r : List Token)
    (h : errCode fuel ts0 = some (c, r)) (hd : c.shape?.isSome = true) :
    ∃ q s, ts0 = q ++ r ∧ q.map (·.tk) = printErrCode' s ∧ c.shape? = some s.toOld.erase := by
  obtain ⟨cs, h1, h2⟩ := comments_sound ts0
  unfold errCode at h
  generalize comments ts0 = x at h h1 h2
  obtain ⟨cm, ts⟩ := x
  simp only [Option.bind_eq_bind, Option.pure_def] at h h1 h2
  cases hi : ident ts with
  | none => simp [hi] at h
  | some y =>
    obtain ⟨n, ts1⟩ := y
    obtain ⟨nt, rfl, hn⟩ := ident_inv hi
    simp only [hi, Option.bind_some] at h
    split at h
    · next hlp =>
      obtain ⟨lp, hlpe, hlpk⟩ := peekKw_inv hlp
      obtain ⟨ps, r', hmem, hnext⟩ := firstThat_inv h
      cases hk : kw? ")" r' with
      | none => simp [hk] at hnext
      | some ts3 =>
        obtain ⟨rp, rfl, hrp⟩ := kw?_inv hk
        simp only [hk, Option.bind_some] at hnext
        cases hs : kw? ";" ts3 with
        | none => simp [hs] at hnext
        | some ts4 =>
          obtain ⟨semi, rfl, hsemi⟩ := kw?_inv hs
          simp only [hs, Option.bind_some, Option.some.injEq, Prod.mk.injEq] at hnext
          obtain ⟨rfl, rfl⟩ := hnext
          have hd' : ∀ p ∈ ps, p.shape?.isSome = true := by
            simp only [ErrCode.shape?, Option.isSome_map] at hd
            obtain ⟨x, hx⟩ := Option.isSome_iff_exists.mp hd
            exact mapOpt_isSome_of hx
          obtain ⟨pre, ss, hpre, hprek, hss⟩ := errParamsL_data_sound fuel fuel _ _ _ hmem hd'
          refine ⟨cs ++ nt :: lp :: (pre ++ [rp, semi]), ⟨n, some ss, cm⟩, by rw [h1, hlpe, hpre]; simp, ?_, ?_⟩
          · simp [printErrCode', h2, hn, hlpk, hprek, hrp, hsemi]
          · simp [ErrCode.shape?, hss, ErrCodeShape'.toOld, ErrCodeShape.erase]
    · cases hs : kw? ";" ts1 with
      | none => simp [hs] at h
      | some ts4 =>
        obtain ⟨semi, rfl, hsemi⟩ := kw?_inv hs
        simp only [hs, Option.bind_some, Option.some.injEq, Prod.mk.injEq] at h
        obtain ⟨rfl, rfl⟩ := h
        refine ⟨cs ++ [nt, semi], ⟨n, none, cm⟩, by rw [h1]; simp, ?_, ?_⟩
        · simp [printErrCode', h2, hn, hsemi]
        · simp [ErrCode.shape?, mapOpt, ErrCodeShape'.toOld, ErrCodeShape.erase]

/-! ## 4. refined shapes of declarations, namespace contents and files -/

/-- a declaration shape that also records the parentheses of error codes: `plain d` is printed as `printDecl d`
    (for an error domain: parentheses exactly around non-empty parameter lists); `error` gives them explicitly -/
inductive DeclShape'
  | plain (d : DeclShape)
  | error (name : String) (comment : List String) (codes : List ErrCodeShape')
deriving Repr, DecidableEq

def DeclShape'.toOld : DeclShape' → DeclShape
  | .plain d => d
  | .error n c cs => .error n c (cs.map ErrCodeShape'.toOld)

def DeclShape'.comment : DeclShape' → List String
  | .plain d => d.comment
  | .error _ c _ => c

def printDeclBody' : DeclShape' → List Tk
  | .plain d => printDeclBody d
  | .error n _ cs => Tk.id n :: Tk.kw "=" :: Tk.kw "error" :: Tk.kw "{" :: (cs.flatMap printErrCode' ++ [Tk.kw "}"])

def printDecl' (d : DeclShape') : List Tk := printComments d.comment ++ printDeclBody' d

theorem printDecl'_plain (d : DeclShape) : printDecl' (.plain d) = printDecl d := by
  rw [printDecl_eq]; rfl

inductive ContentShape'
  | decl (d : DeclShape')
  | ns (name : String) (dotted : Bool) (comment : List String) (children : List ContentShape')
deriving Repr

mutual
def ContentShape'.toOld : ContentShape' → ContentShape
  | .decl d => .decl d.toOld
  | .ns n d c cs => .ns n d c (toOldContents cs)
def toOldContents : List ContentShape' → List ContentShape
  | [] => []
  | a :: as => a.toOld :: toOldContents as
end

mutual
def ContentShape.refine : ContentShape → ContentShape'
  | .decl d => .decl (.plain d)
  | .ns n d c cs => .ns n d c (refineContents cs)
def refineContents : List ContentShape → List ContentShape'
  | [] => []
  | a :: as => a.refine :: refineContents as
end

mutual
def printContent' : ContentShape' → List Tk
  | .decl d => printDecl' d
  | .ns n d c cs => printComments c ++ Tk.kw "namespace" :: nameTk n d :: Tk.kw "{" :: (printContents' cs ++ [Tk.kw "}"])
def printContents' : List ContentShape' → List Tk
  | [] => []
  | a :: as => printContent' a ++ printContents' as
end

structure FileShape' where
  loads : List LoadShape
  contents : List ContentShape'
deriving Repr

def FileShape'.toOld (f : FileShape') : FileShape := { loads := f.loads, contents := toOldContents f.contents }
def FileShape.refine (f : FileShape) : FileShape' := { loads := f.loads, contents := refineContents f.contents }
def printFile' (f : FileShape') : List Tk := f.loads.flatMap printLoad ++ printContents' f.contents

theorem toOldContents_eq_map (l : List ContentShape') : toOldContents l = l.map ContentShape'.toOld := by
  induction l with
  | nil => simp [toOldContents]
  | cons a as ih => simp [toOldContents, ih]

theorem printContents'_eq_flatMap (l : List ContentShape') : printContents' l = l.flatMap printContent' := by
  induction l with
  | nil => simp [printContents']
  | cons a as ih => simp [printContents', ih]

theorem eraseContents_eq_map (l : List ContentShape) : eraseContents l = l.map ContentShape.erase := by
  induction l with
  | nil => simp [eraseContents]
  | cons a as ih => simp [eraseContents, ih]

theorem contentsShape?_eq_mapOpt (l : List Content) : contentsShape? l = mapOpt Content.shape? l := by
  induction l with
  | nil => simp [contentsShape?, mapOpt]
  | cons a as ih =>
    simp only [contentsShape?, mapOpt, ih]
    cases a.shape? <;> cases mapOpt Content.shape? as <;> rfl

/-- **erasure lemmas**: refining and forgetting is the identity, and the refined printers extend the old ones -/
theorem refine_toOld_content : ∀ s : ContentShape, s.refine.toOld = s := by
  intro s
  refine ContentShape.rec (motive_1 := fun s => s.refine.toOld = s)
    (motive_2 := fun l => toOldContents (refineContents l) = l) ?_ ?_ ?_ ?_ s
  · intro d; simp [ContentShape.refine, ContentShape'.toOld, DeclShape'.toOld]
  · intro n d c cs ih; simp [ContentShape.refine, ContentShape'.toOld, ih]
  · simp [refineContents, toOldContents]
  · intro a as iha ihas; simp [refineContents, toOldContents, iha, ihas]

theorem refine_toOld_contents (l : List ContentShape) : toOldContents (refineContents l) = l := by
  induction l with
  | nil => simp [refineContents, toOldContents]
  | cons a as ih => simp [refineContents, toOldContents, refine_toOld_content, ih]

theorem FileShape.refine_toOld (f : FileShape) : f.refine.toOld = f := by
  simp [FileShape.refine, FileShape'.toOld, refine_toOld_contents]

theorem printContent'_refine : ∀ s : ContentShape, printContent' s.refine = printContent s := by
  intro s
  refine ContentShape.rec (motive_1 := fun s => printContent' s.refine = printContent s)
    (motive_2 := fun l => printContents' (refineContents l) = printContents l) ?_ ?_ ?_ ?_ s
  · intro d; simp [ContentShape.refine, printContent', printContent, printDecl'_plain]
  · intro n d c cs ih; simp [ContentShape.refine, printContent', printContent, ih]
  · simp [refineContents, printContents', printContents]
  · intro a as iha ihas; simp [refineContents, printContents', printContents, iha, ihas]

theorem printContents'_refine (l : List ContentShape) : printContents' (refineContents l) = printContents l := by
  induction l with
  | nil => simp [refineContents, printContents', printContents]
  | cons a as ih => simp [refineContents, printContents', printContents, printContent'_refine, ih]

theorem printFile'_refine (f : FileShape) : printFile' f.refine = printFile f := by
  simp [printFile', printFile, FileShape.refine, printContents'_refine]

/-! ## 5. declarations -/

theorem members_isSome (ms : List Member)
    (h1 : (mapOpt Method.shape? (ms.filterMap Member.method?)).isSome = true)
    (h2 : (mapOpt Prop'.shape? (ms.filterMap Member.prop?)).isSome = true) :
    ∀ a ∈ ms, a.shape?.isSome = true := by
  obtain ⟨l1, hl1⟩ := Option.isSome_iff_exists.mp h1
  obtain ⟨l2, hl2⟩ := Option.isSome_iff_exists.mp h2
  intro a ha
  cases a with
  | m x =>
    have := mapOpt_isSome_of hl1 x (List.mem_filterMap.mpr ⟨.m x, ha, rfl⟩)
    simpa [Member.shape?] using this
  | p x =>
    have := mapOpt_isSome_of hl2 x (List.mem_filterMap.mpr ⟨.p x, ha, rfl⟩)
    simpa [Member.shape?] using this

/-- **declarations** (all six kinds) whose types are data types: after the comment lines, `typeDecl` consumes exactly
    a printing of a refined declaration shape whose erasure is the shape of the result -/
theorem typeDecl_sound (fuel : Nat) (c : List String) (ts0 ts : List Token) (d : Decl) (rest : List Token)
    (h : typeDecl fuel c ts0 ts = some (d, rest)) (hd : d.shape?.isSome = true) :
    ∃ body d', ts = body ++ rest ∧ body.map (·.tk) = printDeclBody' d' ∧ d'.comment = c ∧
      d.shape? = some d'.toOld.erase := by
  cases d with
  | enum n c' items p =>
    obtain ⟨rfl, nt, eq, k, lb, body, rb, rfl, hn, heq, hk, hlb, hrb, hm⟩ := typeDecl_enum_inv fuel c ts0 ts n c' items p rest h
    obtain ⟨-, pre, rfl, hpre⟩ := many_sound fuel (peekKw "}") item printItem Item.shape item_sound fuel body items _ hm
    refine ⟨nt :: eq :: k :: lb :: (pre ++ [rb]), .plain (.enum n c' (items.map Item.shape)), by simp, ?_, rfl, ?_⟩
    · simp [printDeclBody', printDeclBody, hn, heq, hk, hlb, hrb, hpre]
    · simp [Decl.shape?, DeclShape'.toOld, DeclShape.erase]
  | flags n c' items p =>
    obtain ⟨rfl, nt, eq, k, lb, body, rb, rfl, hn, heq, hk, hlb, hrb, hm⟩ := typeDecl_flags_inv fuel c ts0 ts n c' items p rest h
    obtain ⟨-, pre, rfl, hpre⟩ := many_sound fuel (peekKw "}") flagItem printFlagItem FlagItem.shape flagItem_sound fuel
      body items _ hm
    refine ⟨nt :: eq :: k :: lb :: (pre ++ [rb]), .plain (.flags n c' (items.map FlagItem.shape)), by simp, ?_, rfl, ?_⟩
    · simp [printDeclBody', printDeclBody, hn, heq, hk, hlb, hrb, hpre]
    · simp [Decl.shape?, DeclShape'.toOld, DeclShape.erase]
  | record n c' fl flp fs dv p =>
    obtain ⟨rfl, nt, eq, k, tg, lb, body, rb, dvt, rfl, hn, heq, hk, htg, hlb, hrb, hm, hdv⟩ :=
      typeDecl_record_inv fuel c ts0 ts n c' fl flp fs dv p rest h
    obtain ⟨r, hr⟩ : ∃ r, mapOpt Field.shape? fs = some r := by
      simp only [Decl.shape?, Option.isSome_map] at hd
      exact Option.isSome_iff_exists.mp hd
    obtain ⟨pre, ss, rfl, hpre, hss⟩ := many_sound_rel fuel (peekKw "}") (field fuel) printField Field.shape? FieldShape.erase
      (fun ts a r h hd => field_sound fuel ts a r h hd) fuel body fs _ hm (mapOpt_isSome_of hr)
    refine ⟨nt :: eq :: k :: (tg ++ lb :: (pre ++ rb :: dvt)),
      .plain (.record n c' fl ss (dv.map (fun l => l.map (·.1)))), by simp, ?_, rfl, ?_⟩
    · simp [printDeclBody', printDeclBody, hn, heq, hk, htg, hlb, hrb, hpre, hdv]
    · simp [Decl.shape?, hss, DeclShape'.toOld, DeclShape.erase]
  | interface n c' mn fl flp methods props p =>
    obtain ⟨rfl, nt, eq, mk, k, tg, lb, body, rb, ms, rfl, hn, heq, hmk, hk, htg, hlb, hrb, hm, rfl, rfl⟩ :=
      typeDecl_interface_inv fuel c ts0 ts n c' mn fl flp methods props p rest h
    have hsome : ∀ a ∈ ms, a.shape?.isSome = true := by
      simp only [Decl.shape?] at hd
      split at hd
      · next a b h1 h2 => exact members_isSome ms (by simp [h1]) (by simp [h2])
      · simp at hd
    obtain ⟨pre, ss, rfl, hpre, hss⟩ := many_sound_rel fuel (peekKw "}") (member fuel) printMember Member.shape?
      MemberShape.erase (fun ts a r h hd => member_sound fuel ts a r h hd) fuel body ms _ hm hsome
    refine ⟨nt :: eq :: (mk ++ k :: (tg ++ lb :: (pre ++ [rb]))), .plain (.interface n c' mn fl ss), by simp, ?_, rfl, ?_⟩
    · simp [printDeclBody', printDeclBody, hn, heq, hmk, hk, htg, hlb, hrb, hpre]
    · have h1 := methods_split Member.method? (fun _ => rfl) (fun _ => rfl) ms _ hss
      have h2 := props_split Member.prop? (fun _ => rfl) (fun _ => rfl) ms _ hss
      simp only [Decl.shape?, h1, h2, DeclShape'.toOld, DeclShape.erase, sortMembers]
  | function n c' sig p =>
    obtain ⟨rfl, nt, eq, ts2, semi, rfl, hn, heq, hmem, hsemi, _⟩ := typeDecl_function_inv fuel c ts0 ts n c' sig p rest h
    obtain ⟨fl, fp, ps, thr, ret⟩ := sig
    have hd' : (sigShape? ps thr ret).isSome = true := by simpa [Decl.shape?] using hd
    obtain ⟨fpre, pre, s, rfl, hfpre, hpre, hs, _⟩ := functionL_data_sound fuel ts2 fl fp ps thr ret _ hmem hd'
    refine ⟨nt :: eq :: (fpre ++ (pre ++ [semi])), .plain (.function n c' fl s), by simp, ?_, rfl, ?_⟩
    · simp [printDeclBody', printDeclBody, hn, heq, hfpre, hpre, hsemi]
    · simp [Decl.shape?, hs, DeclShape'.toOld, DeclShape.erase]
  | error n c' codes p =>
    obtain ⟨rfl, nt, eq, k, lb, body, rb, rfl, hn, heq, hk, hlb, hrb, hm⟩ := typeDecl_error_inv fuel c ts0 ts n c' codes p rest h
    obtain ⟨r, hr⟩ : ∃ r, mapOpt ErrCode.shape? codes = some r := by
      simp only [Decl.shape?, Option.isSome_map] at hd
      exact Option.isSome_iff_exists.mp hd
    obtain ⟨pre, ss, rfl, hpre, hss⟩ := many_sound_rel fuel (peekKw "}") (errCode fuel) printErrCode' ErrCode.shape?
      (fun s => s.toOld.erase) (fun ts a r h hd => errCode_sound fuel ts a r h hd) fuel body codes _ hm (mapOpt_isSome_of hr)
    refine ⟨nt :: eq :: k :: lb :: (pre ++ [rb]), .error n c' ss, by simp, ?_, rfl, ?_⟩
    · simp [printDeclBody', hn, heq, hk, hlb, hrb, hpre]
    · simp [Decl.shape?, hss, DeclShape'.toOld, DeclShape.erase, Function.comp_def]

/-! ## 6. namespace contents -/

/-- what `content_sound` says about one parser `p` -/
def ContentSound (p : P Content) : Prop :=
  ∀ ts c rest, p ts = some (c, rest) → c.shape?.isSome = true →
    ∃ pre s, ts = pre ++ rest ∧ pre.map (·.tk) = printContent' s ∧ c.shape? = some s.toOld.erase

theorem contents_sound_of (p : P Content) (hp : ContentSound p) (fuel : Nat) (stop : List Token → Bool) (n : Nat)
    (ts : List Token) (cs : List Content) (rest : List Token) (h : many fuel stop p n ts = some (cs, rest))
    (hd : (contentsShape? cs).isSome = true) :
    ∃ pre ss, ts = pre ++ rest ∧ pre.map (·.tk) = printContents' ss ∧
      contentsShape? cs = some (eraseContents (toOldContents ss)) := by
  rw [contentsShape?_eq_mapOpt] at hd ⊢
  obtain ⟨r, hr⟩ := Option.isSome_iff_exists.mp hd
  obtain ⟨pre, ss, hts, hpre, hss⟩ := many_sound_rel fuel stop p printContent' Content.shape? (fun s => s.toOld.erase)
    (fun ts a r h hd => hp ts a r h hd) n ts cs rest h (mapOpt_isSome_of hr)
  refine ⟨pre, ss, hts, by rw [printContents'_eq_flatMap]; exact hpre, ?_⟩
  rw [hss, toOldContents_eq_map, eraseContents_eq_map, List.map_map]
  rfl

/-- **namespace contents** (declarations and nested `namespace` blocks) whose types are data types -/
theorem content_sound (fuel : Nat) : ContentSound (content fuel) := by
  induction fuel with
  | zero => intro ts c rest h; simp [content] at h
  | succ g ih =>
    intro ts0 c rest h hd
    rw [content_succ] at h
    obtain ⟨cs, h1, h2⟩ := comments_sound ts0
    split at h
    · next hns =>
      obtain ⟨nk, hnk, hnkk⟩ := peekKw_inv hns
      cases hn : nsIdent (comments ts0).2.tail with
      | none => simp [hn] at h
      | some y =>
        obtain ⟨n, ts1⟩ := y
        obtain ⟨nt, d, hnt, hntk⟩ := nsIdent_inv hn
        simp only [hn] at h
        cases hl : kw? "{" ts1 with
        | none => simp [hl] at h
        | some ts2 =>
          obtain ⟨lb, rfl, hlb⟩ := kw?_inv hl
          simp only [hl] at h
          cases hm : many g (peekKw "}") (content g) g ts2 with
          | none => simp [hm] at h
          | some z =>
            obtain ⟨children, ts3⟩ := z
            simp only [hm] at h
            cases hr : kw? "}" ts3 with
            | none => simp [hr] at h
            | some ts4 =>
              obtain ⟨rb, rfl, hrb⟩ := kw?_inv hr
              simp only [hr, Option.some.injEq, Prod.mk.injEq] at h
              obtain ⟨rfl, rfl⟩ := h
              have hd' : (contentsShape? children).isSome = true := by
                simpa [Content.shape?] using hd
              obtain ⟨pre, ss, rfl, hpre, hss⟩ := contents_sound_of (content g) ih g _ g ts2 children _ hm hd'
              refine ⟨cs ++ nk :: nt :: lb :: (pre ++ [rb]), .ns n d (comments ts0).1 ss, by rw [h1, hnk, hnt]; simp, ?_, ?_⟩
              · simp [printContent', h2, hnkk, hntk, hlb, hpre, hrb]
              · simp [Content.shape?, hss, ContentShape'.toOld, ContentShape.erase]
    · cases ht : typeDecl g (comments ts0).1 ts0 (comments ts0).2 with
      | none => simp [ht] at h
      | some y =>
        obtain ⟨d, r⟩ := y
        simp only [ht, Option.some.injEq, Prod.mk.injEq] at h
        obtain ⟨rfl, rfl⟩ := h
        have hd' : d.shape?.isSome = true := by simpa [Content.shape?] using hd
        obtain ⟨body, d', hbody, hbk, hc, hs⟩ := typeDecl_sound g _ ts0 _ d r ht hd'
        refine ⟨cs ++ body, .decl d', by rw [List.append_assoc, ← hbody]; exact h1, ?_, ?_⟩
        · simp [printContent', printDecl', h2, hbk, hc]
        · simp [Content.shape?, hs, ContentShape'.toOld, ContentShape.erase]

/-! ## 7. files -/

theorem load_sound (ts : List Token) (l : LoadAt) (r : List Token) (h : load ts = some (l, r)) :
    ∃ q, ts = q ++ r ∧ q.map (·.tk) = printLoad l.shape := by
  unfold load at h
  split at h
  · next a b r' =>
    split at h
    · next s hs =>
      split at h
      · next ha =>
        simp at h; obtain ⟨rfl, rfl⟩ := h
        exact ⟨[a, b], by simp, by simp [printLoad, LoadAt.shape, hs, eq_of_beq ha]⟩
      · split at h
        · next ha =>
          simp at h; obtain ⟨rfl, rfl⟩ := h
          exact ⟨[a, b], by simp, by simp [printLoad, LoadAt.shape, hs, eq_of_beq ha]⟩
        · simp at h
    · simp at h
  · simp at h

/-- **files**: an accepted token list whose result is free of inline function types is, token kind by token kind,
    the printing of a refined file shape whose erasure is the shape of the result -/
theorem file_sound (toks : List Token) (file : File) (h : parseFile toks = some file) (hd : file.shape?.isSome = true) :
    ∃ f : FileShape', toks.map (·.tk) = printFile' f ∧ file.shape? = some f.toOld.erase := by
  rw [parseFile_eq] at h
  cases hl : many (8 * toks.length + 16) stopLoads load (8 * toks.length + 16) toks with
  | none => simp [hl] at h
  | some x =>
    obtain ⟨ls, ts1⟩ := x
    simp only [hl] at h
    cases hc : many (8 * toks.length + 16) (fun t => t.isEmpty) (content (8 * toks.length + 16)) (8 * toks.length + 16) ts1 with
    | none => simp [hc] at h
    | some y =>
      obtain ⟨cs, ts2⟩ := y
      simp only [hc] at h
      split at h
      · next hemp =>
        simp only [Option.some.injEq] at h
        subst h
        have hts2 : ts2 = [] := by simpa using hemp
        subst hts2
        obtain ⟨-, p1, hp1, hp1k⟩ := many_sound _ _ load printLoad LoadAt.shape load_sound _ _ _ _ hl
        have hd' : (contentsShape? cs).isSome = true := by simpa [File.shape?] using hd
        obtain ⟨p2, ss, hp2, hp2k, hss⟩ := contents_sound_of _ (content_sound _) _ _ _ _ _ _ hc hd'
        refine ⟨⟨ls.map LoadAt.shape, ss⟩, ?_, ?_⟩
        · rw [hp1, hp2]; simp [printFile', hp1k, hp2k]
        · simp [File.shape?, hss, FileShape'.toOld, FileShape.erase]
      · simp at h

/-! ## 8. print, then parse for the refined shapes (the round trip of `C03Decl` with explicit parentheses) -/

theorem errCode_print' (s : ErrCodeShape') (q r : List Token) (fuel : Nat)
    (hq : q.map (·.tk) = printErrCode' s) (hfuel : q.length ≤ fuel) :
    ∃ a, errCode fuel (q ++ r) = some (a, r) ∧ a.shape? = some s.toOld.erase := by
  obtain ⟨sn, sps, sc⟩ := s
  cases sps with
  | none =>
    exact errCode_print ⟨sn, [], sc⟩ q r fuel (by simpa [printErrCode', printErrCode] using hq) hfuel
  | some ps =>
    simp only [printErrCode'] at hq
    obtain ⟨cs, b1, rfl, hcs, hb⟩ := List.map_eq_append_iff.mp hq
    obtain ⟨nt, b2, rfl, hn, hb⟩ := List.map_eq_cons_iff.mp hb
    obtain ⟨par, b3, rfl, hpar, hb⟩ := List.map_eq_append_iff.mp hb
    obtain ⟨semi, b5, rfl, hsemi, hb⟩ := List.map_eq_cons_iff.mp hb
    rw [List.map_eq_nil_iff] at hb; subst hb
    have hcm := comments_print' cs sc nt (par ++ semi :: r) hcs (by simp [hn])
    have e : cs ++ nt :: (par ++ [semi]) ++ r = cs ++ nt :: (par ++ semi :: r) := by simp
    rw [e]
    obtain ⟨lp, b6, rfl, hlp, hb⟩ := List.map_eq_cons_iff.mp hpar
    obtain ⟨pp, b7, rfl, hpp, hb⟩ := List.map_eq_append_iff.mp hb
    obtain ⟨rp, b8, rfl, hrp, hb⟩ := List.map_eq_cons_iff.mp hb
    rw [List.map_eq_nil_iff] at hb; subst hb
    simp only [List.length_append, List.length_cons] at hfuel
    have hlen := length_le_of_flatMap printParam (fun s => by have := printParam_length s; omega) ps pp hpp
    obtain ⟨as, has, hss⟩ := errParamsL_print ps pp rp (semi :: r) fuel fuel hpp hrp (by omega) (by omega)
    unfold errCode
    simp only [List.cons_append, List.append_assoc, List.nil_append] at hcm ⊢
    simp only [hcm, ident, hn, Option.bind_eq_bind, Option.bind_some, peekKw_eq hlp, if_true, List.tail_cons]
    rw [firstThat_head' has (by simp [kw?_cons _ _ _ hrp, kw?_cons _ _ _ hsemi])]
    simp only [kw?_cons _ _ _ hrp, kw?_cons _ _ _ hsemi, Option.bind_some, Option.pure_def]
    exact ⟨_, rfl, by simp [ErrCode.shape?, hss, ErrCodeShape.erase, ErrCodeShape'.toOld]⟩

theorem typeDecl_error_print' (fuel : Nat) (c : List String) (ts0 : List Token) (n : String) (codes : List ErrCodeShape')
    (body rest : List Token)
    (hb : body.map (·.tk) = Tk.id n :: Tk.kw "=" :: Tk.kw "error" :: Tk.kw "{" :: (codes.flatMap printErrCode' ++ [Tk.kw "}"]))
    (hfuel : body.length ≤ fuel + 1) :
    ∃ d, typeDecl fuel c ts0 (body ++ rest) = some (d, rest) ∧
      d.shape? = some (.error n c (codes.map (fun s => s.toOld.erase))) := by
  obtain ⟨nt, b1, rfl, hn, hb⟩ := List.map_eq_cons_iff.mp hb
  obtain ⟨eq, b2, rfl, heq, hb⟩ := List.map_eq_cons_iff.mp hb
  obtain ⟨k, b3, rfl, hk, hb⟩ := List.map_eq_cons_iff.mp hb
  obtain ⟨lb, b4, rfl, hlb, hb⟩ := List.map_eq_cons_iff.mp hb
  obtain ⟨pre, b5, rfl, hpre, hb⟩ := List.map_eq_append_iff.mp hb
  obtain ⟨rb, b6, rfl, hrb, hb⟩ := List.map_eq_cons_iff.mp hb
  rw [List.map_eq_nil_iff] at hb; subst hb
  simp only [List.length_cons, List.length_append] at hfuel
  obtain ⟨cs, hmany, hcs⟩ := many_block fuel (errCode fuel) printErrCode' ErrCode.shape? (fun s => s.toOld.erase) codes fuel
    (fun s => by simp [printErrCode']; omega)
    (fun s _ q r hq => startsCI_peekKw (startsCI_of s.comment s.name _ q r hq) _)
    (fun s _ q r hq hl => errCode_print' s q r fuel hq hl)
    pre rb rest fuel hpre hrb (by omega) (by omega)
  have e : nt :: eq :: k :: lb :: (pre ++ [rb]) ++ rest = nt :: eq :: k :: lb :: (pre ++ rb :: rest) := by simp
  rw [e]
  unfold typeDecl
  simp only [ident, hn, Option.bind_eq_bind, Option.bind_some, kw?_cons _ _ _ heq,
    peekKw_ne hk (by decide : "error" ≠ "enum"), peekKw_ne hk (by decide : "error" ≠ "flags"),
    peekKw_ne hk (by decide : "error" ≠ "record"), peekKw_ne hk (by decide : "error" ≠ "main"),
    peekKw_ne hk (by decide : "error" ≠ "interface"), peekKw_eq hk,
    Bool.false_eq_true, if_false, Bool.or_false, if_true, List.tail_cons, kw?_cons _ _ _ hlb, hmany,
    kw?_cons _ _ _ hrb, Option.pure_def]
  exact ⟨_, rfl, by simp [Decl.shape?, hcs]⟩

def DeclFollowOK' (d : DeclShape') (rest : List Token) : Prop := DeclFollowOK d.toOld rest

theorem printDeclBody'_head (d : DeclShape') : ∃ n tl, printDeclBody' d = Tk.id n :: tl := by
  cases d with
  | plain d => exact printDeclBody_head d
  | error n c cs => exact ⟨_, _, rfl⟩

theorem typeDecl_print' (d : DeclShape') (fuel : Nat) (ts0 body rest : List Token)
    (hb : body.map (·.tk) = printDeclBody' d) (hfollow : DeclFollowOK' d rest) (hfuel : body.length ≤ fuel + 1) :
    ∃ x, typeDecl fuel d.comment ts0 (body ++ rest) = some (x, rest) ∧ x.shape? = some d.toOld.erase := by
  cases d with
  | plain d => exact typeDecl_print d fuel ts0 body rest hb hfollow hfuel
  | error n c cs =>
    obtain ⟨x, hx, hxs⟩ := typeDecl_error_print' fuel c ts0 n cs body rest hb hfuel
    exact ⟨x, hx, by simp [hxs, DeclShape'.toOld, DeclShape.erase, Function.comp_def]⟩

theorem printContent'_head (s : ContentShape') (q r : List Token) (hq : q.map (·.tk) = printContent' s) :
    StartsContent (q ++ r) := by
  cases s with
  | decl d =>
    simp only [printContent', printDecl'] at hq
    obtain ⟨cs, body, rfl, hcs, hb⟩ := List.map_eq_append_iff.mp hq
    obtain ⟨n, tl, hd⟩ := printDeclBody'_head d
    rw [hd] at hb
    obtain ⟨nt, b, rfl, hn, _⟩ := List.map_eq_cons_iff.mp hb
    rw [List.append_assoc]
    exact startsContent_of_comments _ cs _ hcs ⟨nt, _, rfl, Or.inr (Or.inl ⟨_, hn⟩)⟩
  | ns n d c cs' =>
    simp only [printContent'] at hq
    obtain ⟨cs, body, rfl, hcs, hb⟩ := List.map_eq_append_iff.mp hq
    obtain ⟨nk, b, rfl, hnk, _⟩ := List.map_eq_cons_iff.mp hb
    rw [List.append_assoc]
    exact startsContent_of_comments _ cs _ hcs ⟨nk, _, rfl, Or.inr (Or.inr hnk)⟩

theorem printContent'_length_pos (s : ContentShape') : 1 ≤ (printContent' s).length := by
  cases s with
  | decl d =>
    obtain ⟨n, tl, hd⟩ := printDeclBody'_head d
    simp [printContent', printDecl', hd]; omega
  | ns n d c cs' => simp [printContent']; omega

def ContentFollowOK' : ContentShape' → List Token → Prop
  | .decl d, rest => DeclFollowOK' d rest
  | .ns _ _ _ _, _ => True

theorem ContentFollowOK'_of_simple (s : ContentShape') (rest : List Token) (h : peekKw "deriving" rest = false) :
    ContentFollowOK' s rest := by
  cases s with
  | decl d =>
    cases d with
    | plain d => exact ContentFollowOK_of_simple (.decl d) rest h
    | error n c cs => trivial
  | ns _ _ _ _ => trivial

theorem printContents'_follow (l : List ContentShape') (pre rest : List Token) (hp : pre.map (·.tk) = printContents' l)
    (h : peekKw "deriving" rest = false) : peekKw "deriving" (pre ++ rest) = false := by
  cases l with
  | nil => simp [printContents'] at hp; subst hp; exact h
  | cons a as =>
    simp only [printContents'] at hp
    obtain ⟨q, pre', rfl, hq, _⟩ := List.map_eq_append_iff.mp hp
    rw [List.append_assoc]
    exact (printContent'_head a q (pre' ++ rest) hq).peekKw_false _ (by decide)

mutual
theorem content_print' (s : ContentShape') (pre rest : List Token) (fuel : Nat)
    (hp : pre.map (·.tk) = printContent' s) (hfollow : ContentFollowOK' s rest) (hfuel : pre.length ≤ fuel) :
    ∃ a, content fuel (pre ++ rest) = some (a, rest) ∧ a.shape? = some s.toOld.erase := by
  match s with
  | .decl d =>
    simp only [printContent', printDecl'] at hp
    obtain ⟨cs, body, rfl, hcs, hb⟩ := List.map_eq_append_iff.mp hp
    obtain ⟨n, tl, hd⟩ := printDeclBody'_head d
    have hb' := hb
    rw [hd] at hb'
    obtain ⟨nt, b, rfl, hn, _⟩ := List.map_eq_cons_iff.mp hb'
    simp only [List.length_append] at hfuel
    cases fuel with
    | zero => simp at hfuel
    | succ g =>
      have hcm := comments_print' cs d.comment nt (b ++ rest) hcs (by simp [hn])
      obtain ⟨x, hx, hxs⟩ := typeDecl_print' d g (cs ++ nt :: (b ++ rest)) (nt :: b) rest hb hfollow (by omega)
      have e : cs ++ nt :: b ++ rest = cs ++ nt :: (b ++ rest) := by simp
      rw [e, content_succ, hcm]
      simp only [peekKw_id hn, Bool.false_eq_true, if_false]
      rw [List.cons_append] at hx
      rw [hx]
      exact ⟨_, rfl, by simp [Content.shape?, hxs, ContentShape.erase, ContentShape'.toOld]⟩
  | .ns n d c l =>
    simp only [printContent'] at hp
    obtain ⟨cs, b1, rfl, hcs, hb⟩ := List.map_eq_append_iff.mp hp
    obtain ⟨nk, b2, rfl, hnk, hb⟩ := List.map_eq_cons_iff.mp hb
    obtain ⟨nm, b3, rfl, hnm, hb⟩ := List.map_eq_cons_iff.mp hb
    obtain ⟨lb, b4, rfl, hlb, hb⟩ := List.map_eq_cons_iff.mp hb
    obtain ⟨cpre, b5, rfl, hcpre, hb⟩ := List.map_eq_append_iff.mp hb
    obtain ⟨rb, b6, rfl, hrb, hb⟩ := List.map_eq_cons_iff.mp hb
    rw [List.map_eq_nil_iff] at hb; subst hb
    simp only [List.length_append, List.length_cons] at hfuel
    cases fuel with
    | zero => omega
    | succ g =>
      have hcm := comments_print' cs c nk (nm :: lb :: (cpre ++ rb :: rest)) hcs (by simp [hnk])
      obtain ⟨as, has, hss⟩ := contents_print' l cpre (rb :: rest) (peekKw "}") g g g hcpre (peekKw_eq hrb)
        (fun ts h => h.peekKw_false _ (by decide)) (peekKw_ne hrb (by decide)) (by omega) (by omega)
      have e : cs ++ nk :: nm :: lb :: (cpre ++ [rb]) ++ rest = cs ++ nk :: nm :: lb :: (cpre ++ rb :: rest) := by simp
      rw [e, content_succ, hcm]
      simp only [peekKw_eq hnk, if_true, List.tail_cons, nsIdent_name nm _ n d hnm, kw?_cons _ _ _ hlb, has,
        kw?_cons _ _ _ hrb]
      exact ⟨_, rfl, by simp [Content.shape?, hss, ContentShape.erase, ContentShape'.toOld]⟩
theorem contents_print' (l : List ContentShape') (pre rest : List Token) (stop : List Token → Bool) (fuel' fuel n : Nat)
    (hp : pre.map (·.tk) = printContents' l) (hstop : stop rest = true)
    (hstart : ∀ ts, StartsContent ts → stop ts = false) (hfollow : peekKw "deriving" rest = false)
    (hfuel : pre.length ≤ fuel) (hn : pre.length < n) :
    ∃ as, many fuel' stop (content fuel) n (pre ++ rest) = some (as, rest) ∧
      contentsShape? as = some (eraseContents (toOldContents l)) := by
  match l with
  | [] =>
    simp [printContents'] at hp; subst hp
    cases n with
    | zero => simp at hn
    | succ k => exact ⟨[], by simp [many, hstop], rfl⟩
  | a :: as =>
    simp only [printContents'] at hp
    obtain ⟨q, pre', rfl, hq, hpre'⟩ := List.map_eq_append_iff.mp hp
    have hpos := printContent'_length_pos a
    rw [← hq, List.length_map] at hpos
    simp only [List.length_append] at hfuel hn
    cases n with
    | zero => omega
    | succ k =>
      have hfo := printContents'_follow as pre' rest hpre' hfollow
      obtain ⟨x, hx, hxs⟩ := content_print' a q (pre' ++ rest) fuel hq (ContentFollowOK'_of_simple _ _ hfo) (by omega)
      obtain ⟨xs, hxs', hxss⟩ := contents_print' as pre' rest stop fuel' fuel k hpre' hstop hstart hfollow
        (by omega) (by omega)
      have hst := hstart _ (printContent'_head a q (pre' ++ rest) hq)
      rw [List.append_assoc]
      refine ⟨x :: xs, ?_, by simp [contentsShape?, hxs, hxss, eraseContents, toOldContents]⟩
      simp [many, hst, hx, hxs']
end

theorem printContents'_nil_or_starts (l : List ContentShape') (pre : List Token) (hp : pre.map (·.tk) = printContents' l) :
    pre = [] ∨ StartsContent pre := by
  cases l with
  | nil => simp [printContents'] at hp; exact Or.inl hp
  | cons a as =>
    simp only [printContents'] at hp
    obtain ⟨q, pre', rfl, hq, _⟩ := List.map_eq_append_iff.mp hp
    exact Or.inr (printContent'_head a q pre' hq)

/-- **round trip for refined file shapes**: every printing — with `name ( ) ;` error codes too — is accepted, and the
    result has the printed shape (up to what the AST does not record) -/
theorem file_roundtrip' (f : FileShape') (toks : List Token) (h : toks.map (·.tk) = printFile' f) :
    ∃ file, parseFile toks = some file ∧ file.shape? = some f.toOld.erase := by
  obtain ⟨lpre, cpre, rfl, hl, hc⟩ := List.map_eq_append_iff.mp h
  have hlen := length_le_of_flatMap printLoad (fun s => by simp [printLoad]) f.loads lpre hl
  have hstop : stopLoads cpre = true := by
    rcases printContents'_nil_or_starts _ cpre hc with rfl | hs
    · rfl
    · simp [stopLoads, hs.peekKw_false "@import" (by decide), hs.peekKw_false "@extern" (by decide)]
  obtain ⟨-, ls, hls, hlss⟩ := many_print (8 * (lpre ++ cpre).length + 16) stopLoads load printLoad
    (fun a => some a.shape) id (fun _ => True) f.loads
    (by
      intro s _ q r hq _
      obtain ⟨a, ha, has⟩ := load_print s q r hq
      refine ⟨?_, trivial, a, ha, by simp [has]⟩
      simp only [printLoad] at hq
      obtain ⟨x, b1, rfl, hx, _⟩ := List.map_eq_cons_iff.mp hq
      cases hi : s.isImport <;> simp [hi] at hx <;> simp [stopLoads, peekKw, hx])
    lpre cpre (8 * (lpre ++ cpre).length + 16) hl hstop trivial (by simp only [List.length_append]; omega)
  obtain ⟨cs, hcs, hcss⟩ := contents_print' f.contents cpre [] (fun t => t.isEmpty) (8 * (lpre ++ cpre).length + 16)
    (8 * (lpre ++ cpre).length + 16) (8 * (lpre ++ cpre).length + 16) hc rfl
    (by rintro ts ⟨x, xs, rfl, _⟩; rfl) rfl
    (by simp only [List.length_append]; omega) (by simp only [List.length_append]; omega)
  rw [List.append_nil] at hcs
  rw [parseFile_eq, hls]
  simp only [hcs, List.isEmpty_nil, if_true]
  refine ⟨_, rfl, ?_⟩
  rw [mapOpt_total] at hlss
  simp at hlss
  simp [File.shape?, hcss, FileShape.erase, FileShape'.toOld, hlss]

/-! # Main theorems -/

/-- **declarations, parse → print**: if the declaration parser (`content`: comment lines, then `typeDecl`) returns a
    declaration `x` of any of the six kinds whose types are all data types (`x.shape?` is defined), then its input
    is `pre ++ rest`, `rest` the returned remainder, and the kinds of `pre` are exactly the printing of a refined
    declaration shape whose erasure is the shape of `x`. All inputs, all fuel. -/
theorem decl_sound (fuel : Nat) (ts : List Token) (x : Decl) (rest : List Token)
    (h : content fuel ts = some (.decl x, rest)) (hd : x.shape?.isSome = true) :
    ∃ pre d', ts = pre ++ rest ∧ pre.map (·.tk) = printDecl' d' ∧ x.shape? = some d'.toOld.erase := by
  obtain ⟨g, rfl, ht⟩ := content_decl_inv fuel ts _ rest h
  obtain ⟨cs, h1, h2⟩ := comments_sound ts
  obtain ⟨body, d', hbody, hbk, hc, hs⟩ := typeDecl_sound g _ ts _ x rest ht hd
  exact ⟨cs ++ body, d', by rw [List.append_assoc, ← hbody]; exact h1, by simp [printDecl', h2, hbk, hc], hs⟩

/-- **soundness for interfaces** whose member types are data types: the consumed tokens are the printing of an
    interface shape (members in source order) whose erasure — methods first, then properties, `dotted` forgotten —
    is the shape of the returned interface -/
theorem interface_sound (fuel : Nat) (ts : List Token) (n : String) (c : List String) (mn : Bool) (fl : List String)
    (flp : Pos) (methods : List Method) (props : List Prop') (p : Pos) (rest : List Token)
    (h : content fuel ts = some (.decl (.interface n c mn fl flp methods props p), rest))
    (hd : (Decl.interface n c mn fl flp methods props p).shape?.isSome = true) :
    ∃ (pre : List Token) (members : List MemberShape), ts = pre ++ rest ∧
      pre.map (·.tk) = printInterface n c mn fl members ∧
      (Decl.interface n c mn fl flp methods props p).shape? = some (DeclShape.interface n c mn fl members).erase := by
  obtain ⟨pre, d', hts, hpre, hs⟩ := decl_sound fuel ts _ rest h hd
  obtain ⟨L, hL⟩ : ∃ L, (Decl.interface n c mn fl flp methods props p).shape? = some (.interface n c mn fl L) := by
    simp only [Decl.shape?] at hd ⊢
    split
    · exact ⟨_, rfl⟩
    · next hne => split at hd <;> simp_all
  have he := hL.symm.trans hs
  cases d' with
  | error n' c' cs => simp [DeclShape'.toOld, DeclShape.erase] at he
  | plain d =>
    cases d with
    | interface n' c' mn' fl' ms =>
      simp only [DeclShape'.toOld, DeclShape.erase, Option.some.injEq, DeclShape.interface.injEq] at he
      obtain ⟨rfl, rfl, rfl, rfl, -⟩ := he
      exact ⟨pre, ms, hts, by rw [hpre, printDecl'_plain]; rfl, hs⟩
    | _ => simp [DeclShape'.toOld, DeclShape.erase] at he

/-- **soundness for named functions** whose parameter, `throws` and return types are data types -/
theorem function_sound (fuel : Nat) (ts : List Token) (n : String) (c : List String) (fl : Option (List String))
    (fp : Pos) (ps : List Param) (thr : Option (List TypeRef)) (ret : Option TypeRef) (p : Pos) (rest : List Token)
    (h : content fuel ts = some (.decl (.function n c (.mk fl fp ps thr ret) p), rest))
    (hd : (Decl.function n c (.mk fl fp ps thr ret) p).shape?.isSome = true) :
    ∃ (pre : List Token) (sig : SigShape), ts = pre ++ rest ∧
      pre.map (·.tk) = printFunction n c fl sig ∧
      (Decl.function n c (.mk fl fp ps thr ret) p).shape? = some (DeclShape.function n c fl sig).erase := by
  obtain ⟨pre, d', hts, hpre, hs⟩ := decl_sound fuel ts _ rest h hd
  obtain ⟨L, hL⟩ : ∃ L, (Decl.function n c (.mk fl fp ps thr ret) p).shape? = some (.function n c fl L) := by
    simp only [Decl.shape?, Option.isSome_map] at hd ⊢
    obtain ⟨x, hx⟩ := Option.isSome_iff_exists.mp hd
    exact ⟨x, by simp [hx]⟩
  have he := hL.symm.trans hs
  cases d' with
  | error n' c' cs => simp [DeclShape'.toOld, DeclShape.erase] at he
  | plain d =>
    cases d with
    | function n' c' fl' sg =>
      simp only [DeclShape'.toOld, DeclShape.erase, Option.some.injEq, DeclShape.function.injEq] at he
      obtain ⟨rfl, rfl, rfl, -⟩ := he
      exact ⟨pre, sg, hts, by rw [hpre, printDecl'_plain]; rfl, hs⟩
    | _ => simp [DeclShape'.toOld, DeclShape.erase] at he

def printErrorDomain' (name : String) (comment : List String) (codes : List ErrCodeShape') : List Tk :=
  printHead name comment (Tk.kw "error" :: Tk.kw "{" :: (codes.flatMap printErrCode' ++ [Tk.kw "}"]))

theorem printErrorDomain'_refine (n : String) (c : List String) (cs : List ErrCodeShape) :
    printErrorDomain' n c (cs.map ErrCodeShape.refine) = printErrorDomain n c cs := by
  simp [printErrorDomain', printErrorDomain, List.flatMap_map, printErrCode'_refine]

/-- **soundness for error domains** whose parameter types are data types: the consumed tokens are the printing of
    refined error-code shapes (each records whether its parentheses were written) whose erasures are the shapes of the
    returned codes -/
theorem errorDomain_sound (fuel : Nat) (ts : List Token) (n : String) (c : List String) (codes : List ErrCode)
    (p : Pos) (rest : List Token)
    (h : content fuel ts = some (.decl (.error n c codes p), rest))
    (hd : (Decl.error n c codes p).shape?.isSome = true) :
    ∃ (pre : List Token) (cs : List ErrCodeShape'), ts = pre ++ rest ∧
      pre.map (·.tk) = printErrorDomain' n c cs ∧
      (Decl.error n c codes p).shape? = some (DeclShape.error n c (cs.map ErrCodeShape'.toOld)).erase := by
  obtain ⟨pre, d', hts, hpre, hs⟩ := decl_sound fuel ts _ rest h hd
  obtain ⟨L, hL⟩ : ∃ L, (Decl.error n c codes p).shape? = some (.error n c L) := by
    simp only [Decl.shape?, Option.isSome_map] at hd ⊢
    obtain ⟨x, hx⟩ := Option.isSome_iff_exists.mp hd
    exact ⟨x, by simp [hx]⟩
  have he := hL.symm.trans hs
  cases d' with
  | error n' c' cs =>
    simp only [DeclShape'.toOld, DeclShape.erase, Option.some.injEq, DeclShape.error.injEq] at he
    obtain ⟨rfl, rfl, -⟩ := he
    exact ⟨pre, cs, hts, by rw [hpre]; rfl, hs⟩
  | plain d =>
    cases d with
    | error n' c' cs =>
      simp only [DeclShape'.toOld, DeclShape.erase, Option.some.injEq, DeclShape.error.injEq] at he
      obtain ⟨rfl, rfl, -⟩ := he
      refine ⟨pre, cs.map ErrCodeShape.refine, hts, ?_, ?_⟩
      · rw [hpre, printDecl'_plain, printErrorDomain'_refine]; rfl
      · rw [hs]; simp [DeclShape'.toOld, Function.comp_def, ErrCodeShape.refine_toOld]
    | _ => simp [DeclShape'.toOld, DeclShape.erase] at he

/-- **`parseFile_iff_print`: the accepted token lists are exactly the printings.** A token list is accepted by
    `parseFile` with a result free of inline function types, of shape `F`, **iff** its kinds are the printing of a
    refined file shape `f` with `f.toOld.erase = F` (erasure forgets what the AST does not record: whether a name
    token was dotted, the interleaving of methods and properties, the parentheses of parameterless error codes). -/
theorem parseFile_iff_print (toks : List Token) (F : FileShape) :
    (∃ file, parseFile toks = some file ∧ file.shape? = some F) ↔
      ∃ f : FileShape', toks.map (·.tk) = printFile' f ∧ f.toOld.erase = F := by
  constructor
  · rintro ⟨file, h, hs⟩
    obtain ⟨f, hf, hfs⟩ := file_sound toks file h (by simp [hs])
    exact ⟨f, hf, Option.some.inj (hfs.symm.trans hs)⟩
  · rintro ⟨f, hf, rfl⟩
    exact file_roundtrip' f toks hf

/-- the same without naming the shape: accepted without inline function types iff a printing -/
theorem parseFile_accepts_iff_print (toks : List Token) :
    (∃ file, parseFile toks = some file ∧ file.shape?.isSome = true) ↔ ∃ f : FileShape', toks.map (·.tk) = printFile' f := by
  constructor
  · rintro ⟨file, h, hs⟩
    obtain ⟨f, hf, _⟩ := file_sound toks file h hs
    exact ⟨f, hf⟩
  · rintro ⟨f, hf⟩
    obtain ⟨file, h, hs⟩ := file_roundtrip' f toks hf
    exact ⟨file, h, by simp [hs]⟩

/-- **`parseText_iff_render`: the accepted texts are exactly the admissible renderings of printings.** A text `s` is
    accepted by `parseText` (lexer, then parser) with a result free of inline function types, of shape `F`, **iff**
    `s = renderTks sep (printFile' f)` for a refined file shape `f` with `f.toOld.erase = F` whose printed tokens are
    well-formed (`Tk.WF`) and a layout `sep` admissible for them (`Layout`, `Props/C03Text.lean`). -/
theorem parseText_iff_render (s : String) (F : FileShape) :
    (∃ file, parseText s = some file ∧ file.shape? = some F) ↔
      ∃ f : FileShape', f.toOld.erase = F ∧ (∀ t ∈ printFile' f, t.WF) ∧
        ∃ sep, Layout sep (printFile' f) ∧ renderTks sep (printFile' f) = s := by
  constructor
  · rintro ⟨file, h, hs⟩
    unfold parseText at h
    cases hl : lex s with
    | none => simp [hl] at h
    | some toks =>
      simp only [hl, Option.bind_eq_bind, Option.bind_some] at h
      obtain ⟨f, hf, hfe⟩ := (parseFile_iff_print toks F).mp ⟨file, h, hs⟩
      have hlex : (lex s).map (·.map (·.tk)) = some (printFile' f) := by rw [hl]; simp [hf]
      obtain ⟨hwf, sep, hlay, hr⟩ := (lex_iff_render s (printFile' f)).mp hlex
      exact ⟨f, hfe, hwf, sep, hlay, hr⟩
  · rintro ⟨f, rfl, hwf, sep, hlay, hr⟩
    have hlex := (lex_iff_render s (printFile' f)).mpr ⟨hwf, sep, hlay, hr⟩
    cases hl : lex s with
    | none => rw [hl] at hlex; cases hlex
    | some toks =>
      rw [hl] at hlex
      have hk : toks.map (·.tk) = printFile' f := Option.some.inj hlex
      obtain ⟨file, h, hs⟩ := file_roundtrip' f toks hk
      exact ⟨file, by simp [parseText, hl, h], hs⟩

/-! # Non-vacuity -/

def exSoundSrc : String :=
"@extern \"t.yaml\"
namespace n.m {
  # an interface
  i = main interface +cpp { property p: list<r>; static m(a: i8, b: x.y?) throws e -> r; const async k(); property q: i8; }
  d = error { a; # with parentheses
    b(); c(x: i8 y: r); }
}
g = function -java (q: map<i8, r>) throws e, f;
h = (x: i8) -> r;"

def exSound : FileShape' :=
  { loads := [⟨false, "\"t.yaml\""⟩],
    contents := [
      .ns "n.m" true [] [
        .decl (.plain (.interface "i" ["# an interface"] true ["+cpp"] [
          .p ⟨"p", .mk "list" false [ty "r"] false, []⟩,
          .m ⟨"m", true, false, false, ⟨[⟨"a", ty "i8"⟩, ⟨"b", .mk "x.y" true [] true⟩], some [ty "e"], some (ty "r")⟩, []⟩,
          .m ⟨"k", false, true, true, ⟨[], none, none⟩, []⟩,
          .p ⟨"q", ty "i8", []⟩])),
        .decl (.error "d" [] [⟨"a", none, []⟩, ⟨"b", some [], ["# with parentheses"]⟩,
          ⟨"c", some [⟨"x", ty "i8"⟩, ⟨"y", ty "r"⟩], []⟩])],
      .decl (.plain (.function "g" [] (some ["-java"]) ⟨[⟨"q", .mk "map" false [ty "i8", ty "r"] false⟩], some [ty "e", ty "f"], none⟩)),
      .decl (.plain (.function "h" [] none ⟨[⟨"x", ty "i8"⟩], none, some (ty "r")⟩))] }

theorem exSound_lex : (lex exSoundSrc).map (fun ts => ts.map (·.tk)) = some (printFile' exSound) := by
  decide +kernel

/-- the text is accepted and its shape is the erasure of `exSound` (kernel-evaluated) -/
theorem exSound_parse : (parseText exSoundSrc).bind File.shape? = some exSound.toOld.erase := by decide +kernel

/-- `b();` and `b;` give the same AST shape but are different printings: the refined shape is needed -/
example : printFile' exSound ≠ printFile exSound.toOld := by decide +kernel

/-- `file_sound` instantiated on the lexer output: its hypotheses hold, and the shape it yields prints the tokens -/
example : ∀ toks file, lex exSoundSrc = some toks → parseFile toks = some file →
    ∃ f : FileShape', toks.map (·.tk) = printFile' f ∧ file.shape? = some f.toOld.erase := by
  intro toks file hl hp
  have hs := exSound_parse
  refine file_sound toks file hp ?_
  simp only [parseText, hl, Option.bind_eq_bind, Option.bind_some, hp] at hs
  simp [hs]

/-- `parseText_iff_render` instantiated, right to left direction's conclusion holds for the example text -/
example : ∃ f : FileShape', f.toOld.erase = exSound.toOld.erase ∧ (∀ t ∈ printFile' f, t.WF) ∧
    ∃ sep, Layout sep (printFile' f) ∧ renderTks sep (printFile' f) = exSoundSrc := by
  refine (parseText_iff_render exSoundSrc exSound.toOld.erase).mp ?_
  have hs := exSound_parse
  cases hp : parseText exSoundSrc with
  | none => rw [hp] at hs; cases hs
  | some file => rw [hp] at hs; exact ⟨file, rfl, hs⟩

/-- a text with an inline function type is accepted but outside the fragment (`shape?` undefined) -/
example : ((parseText "r = record { f: (x: i8) -> bool; }").map (fun f => f.shape?.isSome)) = some false := by
  decide +kernel

end Pydjinni.Front

section
open Pydjinni.Front
#print axioms member_sound
#print axioms errCode_sound
#print axioms typeDecl_sound
#print axioms interface_sound
#print axioms function_sound
#print axioms errorDomain_sound
#print axioms content_sound
#print axioms file_sound
#print axioms file_roundtrip'
#print axioms parseFile_iff_print
#print axioms parseText_iff_render
end
