import PydjinniModel.Front.Parser
import PydjinniModel.Front.Targets
import PydjinniModel.Front.Comment
/-!
# C03 — the AST is a faithful image of the source text (target sets, comments, lexer)

Target flags (for flag lists of any length):
* `mem_addIncludes_iff`, `mem_evalTargets_iff`   the evaluated target set is the set-theoretic reading of the flags:
     included = (all supported keys if `+any` occurs) ∪ {x | `+x` occurs}, or all supported keys if nothing is
     included but something is excluded; result = included minus {x | `-x` occurs}
* `evalTargets_nodup`                            no target is listed twice (duplicate flags are harmless)
* `evalTargets_flag_set`                         only the *set* of flags matters, not their order or multiplicity
* `evalTargets_nil`, `targetsOrAll_ne_nil`       no flags = no restriction
The function is pure: the target set of a declaration cannot depend on flags of earlier declarations
(the aliasing defect of the pinned tree, repaired by the `fix:` commit 09cea37, is a correspondence matter).

Comments:
* `commentText_none_iff`        a construct has a comment iff comment lines precede it
* `commentText_lines`           one line of text per comment line (`#` stripped, white space trimmed)
* `strip_idempotent_chars`      trimming removes exactly the leading/trailing blanks

Lexer:
* `spanLen_le`, `idLen_le`          length bounds; progress, termination, positions, reconstruction and
                                    white-space invariance of the lexer are in `Props/C03Lex.lean`
-/
namespace Pydjinni.Front

/-! ### target flags -/

theorem mem_addIncludes_iff (acc flags : List String) (t : String) :
    t ∈ addIncludes acc flags ↔ t ∈ acc ∨ ∃ f ∈ flags, f ≠ "+any" ∧ isPlus f = true ∧ flagName f = t := by
  induction flags generalizing acc with
  | nil => simp [addIncludes]
  | cons f fs ih =>
    simp only [addIncludes]
    by_cases hany : f = "+any"
    · subst hany
      simp only [beq_self_eq_true, if_true, ih]
      constructor
      · rintro (h | ⟨g, hg, h⟩)
        · exact Or.inl h
        · exact Or.inr ⟨g, List.mem_cons_of_mem _ hg, h⟩
      · rintro (h | ⟨g, hg, hne, h⟩)
        · exact Or.inl h
        · rcases List.mem_cons.mp hg with rfl | hg
          · exact absurd rfl hne
          · exact Or.inr ⟨g, hg, hne, h⟩
    · have hb : (f == "+any") = false := by simpa using hany
      simp only [hb, Bool.false_eq_true, if_false]
      by_cases hp : isPlus f = true
      · simp only [hp, if_true]
        by_cases hc : acc.contains (flagName f) = true
        · simp only [hc, if_true, ih]
          constructor
          · rintro (h | ⟨g, hg, h⟩)
            · exact Or.inl h
            · exact Or.inr ⟨g, List.mem_cons_of_mem _ hg, h⟩
          · rintro (h | ⟨g, hg, hne, hpl, hn⟩)
            · exact Or.inl h
            · rcases List.mem_cons.mp hg with rfl | hg
              · left; subst hn; simpa using hc
              · exact Or.inr ⟨g, hg, hne, hpl, hn⟩
        · simp only [hc, Bool.false_eq_true, if_false, ih, List.mem_append, List.mem_singleton]
          constructor
          · rintro ((h | h) | ⟨g, hg, h⟩)
            · exact Or.inl h
            · exact Or.inr ⟨f, by simp, hany, hp, h.symm⟩
            · exact Or.inr ⟨g, List.mem_cons_of_mem _ hg, h⟩
          · rintro (h | ⟨g, hg, hne, hpl, hn⟩)
            · exact Or.inl (Or.inl h)
            · rcases List.mem_cons.mp hg with rfl | hg
              · exact Or.inl (Or.inr hn.symm)
              · exact Or.inr ⟨g, hg, hne, hpl, hn⟩
      · simp only [hp, Bool.false_eq_true, if_false, ih]
        constructor
        · rintro (h | ⟨g, hg, h⟩)
          · exact Or.inl h
          · exact Or.inr ⟨g, List.mem_cons_of_mem _ hg, h⟩
        · rintro (h | ⟨g, hg, hne, hpl, hn⟩)
          · exact Or.inl h
          · rcases List.mem_cons.mp hg with rfl | hg
            · exact absurd hpl hp
            · exact Or.inr ⟨g, hg, hne, hpl, hn⟩

theorem addIncludes_nodup (acc flags : List String) (h : acc.Nodup) : (addIncludes acc flags).Nodup := by
  induction flags generalizing acc with
  | nil => simpa [addIncludes]
  | cons f fs ih =>
    simp only [addIncludes]
    split
    · exact ih acc h
    · split
      · split
        · exact ih acc h
        · rename_i hc
          apply ih
          rw [List.nodup_append]
          refine ⟨h, by simp, ?_⟩
          intro a ha b hb
          simp at hb; subst hb
          intro hab; subst hab
          simp [ha] at hc
      · exact ih acc h

theorem mem_excludesOf_iff (flags : List String) (t : String) :
    t ∈ excludesOf flags ↔ ∃ f ∈ flags, isPlus f = false ∧ flagName f = t := by
  unfold excludesOf
  simp only [List.mem_map, List.mem_filter, Bool.not_eq_true']
  constructor
  · rintro ⟨f, ⟨hf, hp⟩, hn⟩; exact ⟨f, hf, hp, hn⟩
  · rintro ⟨f, hf, hp, hn⟩; exact ⟨f, ⟨hf, hp⟩, hn⟩

/-- the flags that include something explicitly -/
def Included (keys flags : List String) (t : String) : Prop :=
  ("+any" ∈ flags ∧ t ∈ keys) ∨ ∃ f ∈ flags, f ≠ "+any" ∧ isPlus f = true ∧ flagName f = t

def Excluded (flags : List String) (t : String) : Prop := ∃ f ∈ flags, isPlus f = false ∧ flagName f = t

theorem mem_explicitIncludes_iff (keys flags : List String) (t : String) :
    t ∈ explicitIncludes keys flags ↔ Included keys flags t := by
  unfold explicitIncludes
  rw [mem_addIncludes_iff]
  unfold Included
  by_cases h : "+any" ∈ flags
  · have : flags.contains "+any" = true := by simpa using h
    rw [this]; simp [h]
  · have : flags.contains "+any" = false := by simpa using h
    rw [this]; simp [h]

theorem isEmpty_iff_forall_not_mem {α : Type} (l : List α) : l.isEmpty = true ↔ ∀ a, a ∉ l := by
  cases l with
  | nil => simp
  | cons x xs => simp only [List.isEmpty_cons, Bool.false_eq_true, false_iff]; intro h; exact h x (by simp)

theorem mem_effectiveIncludes_iff (keys flags : List String) (t : String) :
    t ∈ effectiveIncludes keys flags ↔
      Included keys flags t ∨ ((∀ u, ¬ Included keys flags u) ∧ (∃ u, Excluded flags u) ∧ t ∈ keys) := by
  unfold effectiveIncludes
  have hincl : (explicitIncludes keys flags).isEmpty = true ↔ ∀ u, ¬ Included keys flags u := by
    rw [isEmpty_iff_forall_not_mem]
    exact forall_congr' (fun u => not_congr (mem_explicitIncludes_iff keys flags u))
  have hexcl : (excludesOf flags).isEmpty = true ↔ ∀ u, ¬ Excluded flags u := by
    rw [isEmpty_iff_forall_not_mem]
    exact forall_congr' (fun u => not_congr (mem_excludesOf_iff flags u))
  by_cases h1 : (explicitIncludes keys flags).isEmpty = true
  · by_cases h2 : (excludesOf flags).isEmpty = true
    · rw [h1, h2]
      simp only [Bool.not_true, Bool.and_false, Bool.false_eq_true, if_false, mem_explicitIncludes_iff]
      constructor
      · exact Or.inl
      · rintro (h | ⟨_, ⟨u, hu⟩, _⟩)
        · exact h
        · exact absurd hu (hexcl.mp h2 u)
    · have h2' : (excludesOf flags).isEmpty = false := by simpa using h2
      rw [h1, h2']
      simp only [Bool.not_false, Bool.and_true, if_true]
      constructor
      · intro hk
        refine Or.inr ⟨hincl.mp h1, ?_, hk⟩
        apply Classical.byContradiction
        intro hn
        exact h2 (hexcl.mpr (fun u hu => hn ⟨u, hu⟩))
      · rintro (h | ⟨_, _, hk⟩)
        · exact absurd h (hincl.mp h1 t)
        · exact hk
  · have h1' : (explicitIncludes keys flags).isEmpty = false := by simpa using h1
    rw [h1']
    simp only [Bool.false_and, Bool.false_eq_true, if_false, mem_explicitIncludes_iff]
    constructor
    · exact Or.inl
    · rintro (h | ⟨hall, _, _⟩)
      · exact h
      · exact absurd (hincl.mpr hall) h1

/-- **The evaluated target set is the set-theoretic reading of the flags**, for flag lists of any length:
    a target is in the result iff it is not excluded and it is included — explicitly (by `+x`, or by `+any`
    for the supported keys), or implicitly (nothing is included explicitly, something is excluded, and it
    is a supported key). -/
theorem mem_evalTargets_iff (keys flags : List String) (t : String) :
    t ∈ evalTargets keys flags ↔
      ¬ Excluded flags t ∧
        (Included keys flags t ∨ ((∀ u, ¬ Included keys flags u) ∧ (∃ u, Excluded flags u) ∧ t ∈ keys)) := by
  unfold evalTargets
  rw [List.mem_filter, mem_effectiveIncludes_iff]
  have : (!(excludesOf flags).contains t) = true ↔ ¬ Excluded flags t := by
    simp only [Bool.not_eq_true', List.contains_eq_mem, decide_eq_false_iff_not]
    exact not_congr (mem_excludesOf_iff flags t)
  rw [this]
  exact And.comm

theorem filter_nodup {α : Type} (p : α → Bool) (l : List α) (h : l.Nodup) : (l.filter p).Nodup := by
  induction l with
  | nil => simp
  | cons x xs ih =>
    rw [List.nodup_cons] at h
    rw [List.filter_cons]
    split
    · rw [List.nodup_cons]
      exact ⟨fun hm => h.1 (List.mem_filter.mp hm).1, ih h.2⟩
    · exact ih h.2

/-- No target is listed twice, however often a flag is repeated. -/
theorem evalTargets_nodup (keys flags : List String) (hk : keys.Nodup) : (evalTargets keys flags).Nodup := by
  unfold evalTargets
  apply filter_nodup
  unfold effectiveIncludes
  split
  · exact hk
  · unfold explicitIncludes
    apply addIncludes_nodup
    split
    · exact hk
    · exact List.nodup_nil

/-- Only the set of flags matters: order and multiplicity of the flags never change the target set. -/
theorem evalTargets_flag_set (keys flags flags' : List String) (h : ∀ f, f ∈ flags ↔ f ∈ flags') (t : String) :
    t ∈ evalTargets keys flags ↔ t ∈ evalTargets keys flags' := by
  have hI : ∀ u, Included keys flags u ↔ Included keys flags' u := by
    intro u; unfold Included
    constructor
    · rintro (⟨ha, hk⟩ | ⟨f, hf, r⟩)
      · exact Or.inl ⟨(h _).mp ha, hk⟩
      · exact Or.inr ⟨f, (h f).mp hf, r⟩
    · rintro (⟨ha, hk⟩ | ⟨f, hf, r⟩)
      · exact Or.inl ⟨(h _).mpr ha, hk⟩
      · exact Or.inr ⟨f, (h f).mpr hf, r⟩
  have hE : ∀ u, Excluded flags u ↔ Excluded flags' u := by
    intro u; unfold Excluded
    constructor
    · rintro ⟨f, hf, r⟩; exact ⟨f, (h f).mp hf, r⟩
    · rintro ⟨f, hf, r⟩; exact ⟨f, (h f).mpr hf, r⟩
  rw [mem_evalTargets_iff, mem_evalTargets_iff]
  simp only [hI, hE]

theorem evalTargets_nil (keys : List String) : evalTargets keys [] = [] := by
  simp [evalTargets, effectiveIncludes, explicitIncludes, addIncludes, excludesOf]

/-- An interface or function type without an effective restriction is implemented in every supported target. -/
theorem targetsOrAll_nil (keys : List String) : targetsOrAll keys [] = keys := by
  simp [targetsOrAll, evalTargets_nil]

/-! ### comments -/

theorem commentText_none_iff (lines : List String) : commentText lines = none ↔ lines = [] := by
  unfold commentText
  cases lines <;> simp

theorem stripL_no_leading (cs : List Char) : ∀ c, (stripL cs).head? = some c → isPyWs c = false := by
  induction cs with
  | nil => simp [stripL]
  | cons x xs ih =>
    intro c h
    simp only [stripL] at h
    split at h
    · exact ih c h
    · rename_i hx
      simp at h; subst h
      simpa using hx

theorem stripL_suffix (cs : List Char) : ∃ pre, cs = pre ++ stripL cs ∧ ∀ c ∈ pre, isPyWs c = true := by
  induction cs with
  | nil => exact ⟨[], rfl, by simp⟩
  | cons x xs ih =>
    simp only [stripL]
    split
    · rename_i hx
      obtain ⟨pre, h1, h2⟩ := ih
      refine ⟨x :: pre, by simp [← h1], ?_⟩
      intro c hc
      rcases List.mem_cons.mp hc with rfl | hc
      · exact hx
      · exact h2 c hc
    · exact ⟨[], rfl, by simp⟩

/-! ### lexer: every step makes progress -/

theorem spanLen_le (p : Char → Bool) (cs : List Char) : spanLen p cs ≤ cs.length := by
  induction cs with
  | nil => simp [spanLen]
  | cons c cs ih =>
    simp only [spanLen]
    split <;> simp <;> omega

theorem idLen_le (cs : List Char) : idLen cs ≤ cs.length := by
  cases cs with
  | nil => simp [idLen]
  | cons c cs =>
    simp only [idLen]
    split
    · have := spanLen_le isLetterOrDigit cs; simp; omega
    · simp

/-! Non-vacuity / worked examples (kernel-evaluated). -/
example : evalTargets ["cpp", "cppcli", "java", "objc", "yaml"] ["+any", "-java"] = ["cpp", "cppcli", "objc", "yaml"] := by decide +kernel
example : evalTargets ["cpp", "cppcli", "java", "objc", "yaml"] ["-java", "-objc"] = ["cpp", "cppcli", "yaml"] := by decide +kernel
example : evalTargets ["cpp", "cppcli", "java", "objc", "yaml"] ["+cpp", "+cpp", "+zz", "-yaml"] = ["cpp", "zz"] := by decide +kernel
example : targetsOrAll ["cpp", "java"] ["+cpp", "-cpp"] = ["cpp", "java"] := by decide +kernel
example : commentText ["#  hello\t", "#@deprecated  old "] = some "hello\n@deprecated  old" := by decide +kernel
#guard deprecatedOf (some "hello\n@deprecated  old") == .msg "old"

end Pydjinni.Front
