import PydjinniModel.Front.Parser
import PydjinniModel.Front.Targets
import PydjinniModel.Front.Comment
/-! Property theorems for C03 (text → AST). -/
namespace Pydjinni.Front
end Pydjinni.Front
