import PydjinniModel.Front.Order
import PydjinniModel.Props.C16
import PydjinniModel.Props.C04
namespace Pydjinni.Front

/-! ### path search: a file that is found has the normalised path of its spelling -/

theorem walk_eq_fold (fs : FS) (p : List String) (cur q : APath) (h : fs.walk cur p = some q) :
    q = p.foldl (fun (acc : List String) c => if c == ".." then acc.dropLast else acc ++ [c]) cur := by
  induction p generalizing cur with
  | nil => simp [FS.walk] at h; simp [h]
  | cons c rest ih =>
    simp only [FS.walk] at h
    simp only [List.foldl_cons]
    split at h
    · rename_i hc
      split at h
      · rw [if_pos hc]; exact ih _ h
      · cases h
    · rename_i hc
      rw [if_neg hc]
      split at h
      · rename_i hr
        split at h
        · have : rest = [] := by simpa using hr
          subst this
          cases h; rfl
        · cases h
      · split at h
        · exact ih _ h
        · cases h

theorem regularFile_eq_norm (fs : FS) (p q : APath) (h : fs.regularFile p = some q) : q = normPath p := by
  unfold FS.regularFile at h
  split at h
  · rename_i q' hw
    split at h
    · cases h; exact walk_eq_fold fs p [] _ hw
    · cases h
  · cases h

/-! ### what a registration adds, with all fields -/

theorem defs_walkDecl (e : Env) (ns : List String) (d : Decl) :
    (walkDecl e ns d).regs.map siteDef = [{ key := declKey ns d, prim := declPrim d, arity := 0 }] := by
  cases d with
  | enum n c items pos => simp [walkDecl, reg1, declKey, declPrim, siteDef]
  | flags n c items pos => simp [walkDecl, reg1, declKey, declPrim, siteDef]
  | record n c fl fp fields der pos => simp [walkDecl, reg1, declKey, declPrim, siteDef, regs_walkFields]
  | interface n c main fl fp methods props pos => simp [walkDecl, reg1, declKey, declPrim, siteDef, regs_walkMethods, regs_walkProps]
  | function n c sig pos => simp [walkDecl, declKey, declPrim, siteDef, regs_walkF]
  | error n c codes pos => simp [walkDecl, reg1, declKey, declPrim, siteDef, regs_walkCodes]

mutual
theorem defs_walkContent (e : Env) (ns : List String) (c : Content) :
    (walkContent e ns c).regs.map siteDef
      = (declsOfContent ns c).map (fun x => { key := declKey x.1 x.2, prim := declPrim x.2, arity := 0 }) := by
  cases c with
  | decl d => simp [walkContent, declsOfContent, defs_walkDecl]
  | ns name cm children pos => simp only [walkContent, declsOfContent]; exact defs_walkContents e _ children
theorem defs_walkContents (e : Env) (ns : List String) (cs : List Content) :
    (walkContents e ns cs).regs.map siteDef
      = (declsOfContents ns cs).map (fun x => { key := declKey x.1 x.2, prim := declPrim x.2, arity := 0 }) := by
  cases cs with
  | nil => rfl
  | cons c cs =>
    simp only [walkContents, declsOfContents, Collected.regs_append', List.map_append]
    rw [defs_walkContent e ns c, defs_walkContents e ns cs]
end

/-- The registry entries of a file's own declarations: key, kind and arity 0, in textual order. -/
theorem defs_file (e : Env) (contents : List Content) :
    (walkContents e [] contents).regs.map siteDef = declDefs contents := defs_walkContents e [] contents

theorem extRegs_siteDef (file : String) (defs : List ExtDef) : (extRegs file defs).map siteDef = extDefs defs := by
  induction defs with
  | nil => rfl
  | cons d ds ih =>
    simp only [extRegs, List.map_cons, ih, extDefs, siteDef]

/-- `finishFile` only adds the file's own declarations to the registry and leaves the imported set alone. -/
theorem finishFile_reg (cfg : Cfg) (file : APath) (contents : List Content) (res : PResult) (st : PState)
    (r : PResult) (st' : PState) (h : finishFile cfg file contents res st = .ok (r, st')) :
    st'.reg = st.reg ++ declDefs contents ∧ st'.imported = st.imported := by
  refine ⟨?_, finishFile_imported _ _ _ _ _ _ _ h⟩
  unfold finishFile at h
  simp only at h
  split at h
  · cases h
  · rename_i reg hreg
    have hr := registerAll_ok_eq _ _ _ hreg
    rw [defs_file] at hr
    split at h
    · cases h
    · split at h
      · cases h
      · cases h; exact hr

/-! ### the simulation: `parseOne` against `loadOrder` -/

/-- the search's `visited` list holds exactly the files in progress and the files already entered -/
def Visited (visited stack imported : List APath) : Prop := ∀ q, q ∈ visited ↔ q ∈ stack ∨ q ∈ imported

/-- the spelling a file was found under leads back to that file -/
def SelfOk (fs : FS) (spelled file : APath) : Prop := ∀ q, fs.regularFile spelled = some q → q = file

theorem SelfOk.root (fs : FS) (root : APath) : SelfOk fs root (normPath root) :=
  fun q h => regularFile_eq_norm fs root q h

theorem SelfOk.found (cfg : Cfg) (fs : FS) (sp : APath) (lit : String) (c : Cand) (p : APath)
    (h : findFile cfg fs sp lit = some (c, p)) : SelfOk fs c.path p := by
  obtain ⟨_, _, _, _, hq⟩ := findFile_first cfg fs sp lit c p h
  intro q hq'
  rw [hq] at hq'
  cases hq'; rfl

/-- what the simulation maintains: the `visited` list, and the registry as the start registry plus what the
    events so far add -/
def Sim (fs : FS) (R0 : Registry) (stack : List APath) (st : PState) (acc : OrderAcc) : Prop :=
  Visited acc.1 stack st.imported ∧ st.reg = R0 ++ acc.2.flatMap (evDefs fs)

theorem evDefs_finished (fs : FS) (file : APath) (text : String) (f : File)
    (hf : fs.get file = some (.idl text)) (hp : parseText text = some f) :
    evDefs fs (.finished file) = declDefs f.contents := by
  simp [evDefs, fileDefs, hf, hp]

theorem doLoads_order (cfg : Cfg) (fs : FS) (n : Nat) (R0 : Registry)
    (ih : ∀ stack file spelled st res st' acc, parseOne cfg fs n stack file spelled st = .ok (res, st') →
      SelfOk fs spelled file → Sim fs R0 (stack ++ [file]) st acc →
      Sim fs R0 (stack ++ [file]) st' (loadOrder cfg fs n file spelled acc))
    (stack : List APath) (file spelled : APath) (text : String) (hself : SelfOk fs spelled file)
    (hfile : fs.get file = some (.idl text)) (hin : file ∈ stack)
    (loads : List LoadAt) (res : PResult) (st : PState) (res' : PResult) (st' : PState) (acc : OrderAcc)
    (h : doLoads cfg fs (parseOne cfg fs n) stack file spelled loads res st = .ok (res', st'))
    (hsim : Sim fs R0 stack st acc) :
    Sim fs R0 stack st' (loads.foldl (loadStep cfg fs (loadOrder cfg fs n) spelled) acc) := by
  induction loads generalizing res st acc with
  | nil =>
    simp only [doLoads, Except.ok.injEq, Prod.mk.injEq] at h
    rw [← h.2]; exact hsim
  | cons l ls ihl =>
    simp only [doLoads] at h
    simp only [List.foldl_cons]
    split at h
    · -- not found
      rename_i hfind
      have hstep : loadStep cfg fs (loadOrder cfg fs n) spelled acc l = acc := by simp [loadStep, hfind]
      rw [hstep]; exact ihl _ _ _ h hsim
    · rename_i c p hfind
      have hfound := SelfOk.found cfg fs spelled _ c p hfind
      split at h
      · -- the file itself
        rename_i hs
        have hp : p = file := by
          simp only [Bool.and_eq_true, beq_iff_eq] at hs
          obtain ⟨_, _, _, _, hq⟩ := findFile_first cfg fs spelled _ c p hfind
          rw [hs.2] at hq
          exact hself p hq
        have hv : p ∈ acc.1 := (hsim.1 p).mpr (Or.inl (hp ▸ hin))
        have hstep : loadStep cfg fs (loadOrder cfg fs n) spelled acc l = acc := by
          simp only [loadStep, hfind]
          split
          · simp [hv]
          · rw [hp, hfile]
        rw [hstep]; exact ihl _ _ _ h hsim
      · split at h
        · rename_i himp
          split at h
          · -- on the stack
            rename_i hst
            have hv : p ∈ acc.1 := (hsim.1 p).mpr (Or.inl (by simpa using hst))
            have hstep : loadStep cfg fs (loadOrder cfg fs n) spelled acc l = acc := by
              simp [loadStep, hfind, himp, hv]
            rw [hstep]; exact ihl _ _ _ h hsim
          · rename_i hst
            split at h
            · -- already imported
              rename_i hi
              have hv : p ∈ acc.1 := (hsim.1 p).mpr (Or.inr (by simpa using hi))
              have hstep : loadStep cfg fs (loadOrder cfg fs n) spelled acc l = acc := by
                simp [loadStep, hfind, himp, hv]
              rw [hstep]; exact ihl _ _ _ h hsim
            · -- a new file: nested parse
              rename_i hi
              have hst' : p ∉ stack := by simpa using hst
              have hi' : p ∉ st.imported := by simpa using hi
              have hv : p ∉ acc.1 := fun hm => by
                rcases (hsim.1 p).mp hm with h1 | h1
                · exact hst' h1
                · exact hi' h1
              have hstep : loadStep cfg fs (loadOrder cfg fs n) spelled acc l
                  = loadOrder cfg fs n p c.path (acc.1 ++ [p], acc.2) := by
                simp [loadStep, hfind, himp, hv]
              rw [hstep]
              split at h
              · cases h
              · rename_i r1 st1 hr
                have hsim1 : Sim fs R0 (stack ++ [p]) { st with imported := st.imported ++ [p] } (acc.1 ++ [p], acc.2) := by
                  refine ⟨fun q => ?_, hsim.2⟩
                  have := hsim.1 q
                  simp only [List.mem_append, List.mem_singleton, this]
                  constructor
                  · rintro ((h1 | h1) | h1)
                    · exact Or.inl (Or.inl h1)
                    · exact Or.inr (Or.inl h1)
                    · exact Or.inl (Or.inr h1)
                  · rintro ((h1 | h1) | (h1 | h1))
                    · exact Or.inl (Or.inl h1)
                    · exact Or.inr h1
                    · exact Or.inl (Or.inr h1)
                    · exact Or.inr h1
                have hsim2 := ih stack p c.path _ r1 st1 _ hr hfound hsim1
                have hmono := parseOne_imported_mono cfg fs n stack p c.path _ r1 st1 hr p (by simp)
                have hsim3 : Sim fs R0 stack st1 (loadOrder cfg fs n p c.path (acc.1 ++ [p], acc.2)) := by
                  refine ⟨fun q => ?_, hsim2.2⟩
                  rw [hsim2.1 q]
                  simp only [List.mem_append, List.mem_singleton]
                  constructor
                  · rintro ((h1 | h1) | h1)
                    · exact Or.inl h1
                    · exact Or.inr (h1 ▸ hmono)
                    · exact Or.inr h1
                  · rintro (h1 | h1)
                    · exact Or.inl (Or.inl h1)
                    · exact Or.inr h1
                exact ihl _ _ _ h hsim3
        · -- `@extern`
          rename_i himp
          have himp' : l.isImport = false := by simpa using himp
          split at h
          · rename_i defs hg
            split at h
            · cases h
            · rename_i reg hreg
              have hr := registerAll_ok_eq _ _ _ hreg
              rw [extRegs_siteDef] at hr
              have hstep : loadStep cfg fs (loadOrder cfg fs n) spelled acc l = (acc.1, acc.2 ++ [.extern p]) := by
                simp [loadStep, hfind, himp', hg]
              rw [hstep]
              refine ihl _ _ _ h ⟨hsim.1, ?_⟩
              simp only [hr, hsim.2, List.flatMap_append, List.flatMap_cons, List.flatMap_nil, List.append_nil, evDefs, hg,
                List.append_assoc]
          · rename_i pos hg
            have hstep : loadStep cfg fs (loadOrder cfg fs n) spelled acc l = acc := by
              simp [loadStep, hfind, himp', hg]
            rw [hstep]; exact ihl _ _ _ h hsim
          · rename_i hne1 hne2
            have hstep : loadStep cfg fs (loadOrder cfg fs n) spelled acc l = acc := by
              cases hg : fs.get p with
              | none => simp [loadStep, hfind, himp', hg]
              | some fc =>
                cases fc with
                | ext defs => exact absurd hg (hne1 defs)
                | _ => simp [loadStep, hfind, himp', hg]
            rw [hstep]; exact ihl _ _ _ h hsim

/-- **The simulation.** A successful `parseOne` keeps the correspondence with the search: afterwards the
    `visited` list of `loadOrder` is again the stack plus the imported set, and the registry is the start registry
    plus what the events of `loadOrder` add, in order. -/
theorem parseOne_order (cfg : Cfg) (fs : FS) (R0 : Registry) (fuel : Nat) (stack : List APath) (file spelled : APath)
    (st : PState) (res : PResult) (st' : PState) (acc : OrderAcc)
    (h : parseOne cfg fs fuel stack file spelled st = .ok (res, st'))
    (hself : SelfOk fs spelled file) (hsim : Sim fs R0 (stack ++ [file]) st acc) :
    Sim fs R0 (stack ++ [file]) st' (loadOrder cfg fs fuel file spelled acc) := by
  induction fuel generalizing stack file spelled st res st' acc with
  | zero => simp [parseOne] at h
  | succ n ih =>
    simp only [parseOne] at h
    split at h
    · rename_i text hfile
      split at h
      · cases h
      · rename_i toks hlex
        split at h
        · cases h
        · rename_i loads contents hparse
          have hpt : parseText text = some { loads := loads, contents := contents } := by
            simp [parseText, hlex, hparse]
          split at h
          · cases h
          · rename_i res1 st1 hd
            have h1 := doLoads_order cfg fs n R0
              (fun stack file spelled st res st' acc hh hs hm => ih stack file spelled st res st' acc hh hs hm)
              (stack ++ [file]) file spelled text hself hfile (by simp) loads _ st res1 st1 acc hd hsim
            obtain ⟨hreg, himp⟩ := finishFile_reg _ _ _ _ _ _ _ h
            have hlo : loadOrder cfg fs (n + 1) file spelled acc
                = ((loads.foldl (loadStep cfg fs (loadOrder cfg fs n) spelled) acc).1,
                   (loads.foldl (loadStep cfg fs (loadOrder cfg fs n) spelled) acc).2 ++ [.finished file]) := by
              simp only [loadOrder, hfile, hpt]
            rw [hlo]
            refine ⟨fun q => by rw [himp]; exact h1.1 q, ?_⟩
            simp only [hreg, h1.2, List.flatMap_append, List.flatMap_cons, List.flatMap_nil, List.append_nil,
              evDefs_finished fs file text _ hfile hpt, List.append_assoc]
    · rename_i pos hfile
      simp only [Except.ok.injEq, Prod.mk.injEq] at h
      have hlo : loadOrder cfg fs (n + 1) file spelled acc = acc := by
        simp only [loadOrder, hfile]
      rw [hlo, ← h.2]; exact hsim
    · cases h

/-! ### `finishOrder` is `loadOrder` without the `@extern` events -/

/-- one load line in `finishOrder` -/
def finishStep (cfg : Cfg) (fs : FS) (rec : APath → APath → List APath × List APath → List APath × List APath)
    (spelled : APath) (acc : List APath × List APath) (l : LoadAt) : List APath × List APath :=
  if !l.isImport then acc else
  match findFile cfg fs spelled (filepathText l.lit) with
  | some (c, p) => if acc.1.contains p then acc else rec p c.path (acc.1 ++ [p], acc.2)
  | none => acc

theorem finishOrder_succ (cfg : Cfg) (fs : FS) (n : Nat) (file spelled : APath) (acc : List APath × List APath) :
    finishOrder cfg fs (n + 1) file spelled acc =
      match fs.get file with
      | some (.idl text) =>
        match parseText text with
        | none => acc
        | some f =>
          ((f.loads.foldl (finishStep cfg fs (finishOrder cfg fs n) spelled) acc).1,
           (f.loads.foldl (finishStep cfg fs (finishOrder cfg fs n) spelled) acc).2 ++ [file])
      | _ => acc := by
  obtain ⟨v, d⟩ := acc
  simp only [finishOrder]
  cases hf : fs.get file with
  | none => rfl
  | some fc =>
    cases fc with
    | idl text =>
      simp only []
      cases hp : parseText text with
      | none => rfl
      | some f =>
        simp only []
        have key : ∀ (F G : List APath × List APath → LoadAt → List APath × List APath), (∀ a l, F a l = G a l) →
            ((f.loads.foldl F (v, d)).1, (f.loads.foldl F (v, d)).2 ++ [file])
              = ((f.loads.foldl G (v, d)).1, (f.loads.foldl G (v, d)).2 ++ [file]) := by
          intro F G h
          rw [show F = G from funext fun a => funext fun l => h a l]
        apply key
        intro a l
        simp only [finishStep]
        generalize findFile cfg fs spelled (filepathText l.lit) = x
        cases x with
        | none => rfl
        | some cp => rfl
    | ext d => simp only []
    | badExt => simp only []
    | notText pos => simp only []

def projAcc (acc : OrderAcc) : List APath × List APath := (acc.1, acc.2.filterMap LoadEvent.file?)

theorem projAcc_step (cfg : Cfg) (fs : FS) (recL : APath → APath → OrderAcc → OrderAcc)
    (recF : APath → APath → List APath × List APath → List APath × List APath)
    (hrec : ∀ p s a, projAcc (recL p s a) = recF p s (projAcc a)) (spelled : APath) (acc : OrderAcc) (l : LoadAt) :
    projAcc (loadStep cfg fs recL spelled acc l) = finishStep cfg fs recF spelled (projAcc acc) l := by
  unfold loadStep finishStep
  cases hfind : findFile cfg fs spelled (filepathText l.lit) with
  | none => cases l.isImport <;> simp
  | some cp =>
    obtain ⟨c, p⟩ := cp
    cases himp : l.isImport with
    | true =>
      have hr := hrec p c.path (acc.1 ++ [p], acc.2)
      by_cases hm : p ∈ acc.1
      · simp [hm, projAcc]
      · simpa [hm, projAcc] using hr
    | false =>
      simp only [Bool.not_false, if_true, Bool.false_eq_true, if_false]
      split
      · simp [projAcc, LoadEvent.file?]
      · rfl

theorem projAcc_foldl (cfg : Cfg) (fs : FS) (recL : APath → APath → OrderAcc → OrderAcc)
    (recF : APath → APath → List APath × List APath → List APath × List APath)
    (hrec : ∀ p s a, projAcc (recL p s a) = recF p s (projAcc a)) (spelled : APath) (loads : List LoadAt) (acc : OrderAcc) :
    projAcc (loads.foldl (loadStep cfg fs recL spelled) acc) = loads.foldl (finishStep cfg fs recF spelled) (projAcc acc) := by
  induction loads generalizing acc with
  | nil => rfl
  | cons l ls ih => simp only [List.foldl_cons]; rw [ih, projAcc_step cfg fs recL recF hrec]

/-- `finishOrder` is `loadOrder` with the `@extern` events dropped. -/
theorem projAcc_loadOrder (cfg : Cfg) (fs : FS) (fuel : Nat) (file spelled : APath) (acc : OrderAcc) :
    projAcc (loadOrder cfg fs fuel file spelled acc) = finishOrder cfg fs fuel file spelled (projAcc acc) := by
  induction fuel generalizing file spelled acc with
  | zero => simp [loadOrder, finishOrder]
  | succ n ih =>
    rw [finishOrder_succ]
    simp only [loadOrder]
    cases hf : fs.get file with
    | none => rfl
    | some fc =>
      cases fc with
      | idl text =>
        simp only []
        cases hp : parseText text with
        | none => rfl
        | some f =>
          simp only []
          rw [← projAcc_foldl cfg fs (loadOrder cfg fs n) (finishOrder cfg fs n) (fun p s a => ih p s a) spelled f.loads acc]
          simp [projAcc, LoadEvent.file?]
      | _ => rfl

end Pydjinni.Front
