import PydjinniModel.Front.Order
import PydjinniModel.Props.C16
import PydjinniModel.Props.C04
/-!
# C16 — the model finishes files in the order the specification reads them in

The declarative specification (`regUpTo`, `violationsOrdered` of `Front/Spec.lean`) reads a multi-file program "in
finish order". That order is computed by `finishOrder` / `programInOrder` (`Front/Order.lean`: a plain depth-first
search over `@import` lines, used by the drivers). This file proves that it is the order in which the model
(`parseOne` of `Front/Imports.lean`) finishes files — so the order is no longer trusted.

* `parseOne_order`                the simulation (induction over fuel and load lists): `visited` of the search = in-progress
                                  stack + imported set, registry = start registry + what the events so far add
* `projAcc_loadOrder`             `finishOrder` is `loadOrder` (the search that also records `@extern` loads) without the
                                  `@extern` events
* `parseOne_load_order`           registration order of a successful call, `@extern` loads included, entry by entry
* `parseOne_finish_order`         the same when no `@extern` line loaded an external type file: the files whose declarations
                                  were registered are exactly `finishOrder`'s `finished` list, in that order
* `loadOrder_allFinished`         `NoExternLoads fs` is sufficient for "no `@extern` load"
* `programInOrder_eq`, `front_final_registry`   the final registry is `progRegistry builtins (programInOrder …)`
* `FinishedAt`, `finishedAt_events`, `front_registry_is_regUpTo`
                                  **the registry file number `i` is read against is `regUpTo builtins prog i`**
* `finishedAt_complete`, `front_finishes_all`   every file of the finish order is finished (`FinishedAt`) in a successful run
* `rootOrder_nodup`, `rootOrder_index_unique`   no file is finished twice: the number of a file is unique
-/
namespace Pydjinni.Front

/-! ### path search: a file that is found has the normalised path of its spelling -/

theorem walk_eq_fold (fs : FS) (p : List String) (cur q : APath) (h : fs.walk cur p = some q) :
    q = p.foldl (fun (acc : List String) c => if c == ".." then acc.dropLast else acc ++ [c]) cur := by
  induction p generalizing cur with
  | nil => simp [FS.walk] at h; simp [h]
  | cons c rest ih =>
    simp only [FS.walk] at h
    simp only [List.foldl_cons]
    split at h
    · rename_i hc
      split at h
      · rw [if_pos hc]; exact ih _ h
      · cases h
    · rename_i hc
      rw [if_neg hc]
      split at h
      · rename_i hr
        split at h
        · have : rest = [] := by simpa using hr
          subst this
          cases h; rfl
        · cases h
      · split at h
        · exact ih _ h
        · cases h

theorem regularFile_eq_norm (fs : FS) (p q : APath) (h : fs.regularFile p = some q) : q = normPath p := by
  unfold FS.regularFile at h
  split at h
  · rename_i q' hw
    split at h
    · cases h; exact walk_eq_fold fs p [] _ hw
    · cases h
  · cases h

/-! ### what a registration adds, with all fields -/

theorem defs_walkDecl (e : Env) (ns : List String) (d : Decl) :
    (walkDecl e ns d).regs.map siteDef = [{ key := declKey ns d, prim := declPrim d, arity := 0 }] := by
  cases d with
  | enum n c items pos => simp [walkDecl, reg1, declKey, declPrim, siteDef]
  | flags n c items pos => simp [walkDecl, reg1, declKey, declPrim, siteDef]
  | record n c fl fp fields der pos => simp [walkDecl, reg1, declKey, declPrim, siteDef, regs_walkFields]
  | interface n c main fl fp methods props pos => simp [walkDecl, reg1, declKey, declPrim, siteDef, regs_walkMethods, regs_walkProps]
  | function n c sig pos => simp [walkDecl, declKey, declPrim, siteDef, regs_walkF]
  | error n c codes pos => simp [walkDecl, reg1, declKey, declPrim, siteDef, regs_walkCodes]

mutual
theorem defs_walkContent (e : Env) (ns : List String) (c : Content) :
    (walkContent e ns c).regs.map siteDef
      = (declsOfContent ns c).map (fun x => { key := declKey x.1 x.2, prim := declPrim x.2, arity := 0 }) := by
  cases c with
  | decl d => simp [walkContent, declsOfContent, defs_walkDecl]
  | ns name cm children pos => simp only [walkContent, declsOfContent]; exact defs_walkContents e _ children
theorem defs_walkContents (e : Env) (ns : List String) (cs : List Content) :
    (walkContents e ns cs).regs.map siteDef
      = (declsOfContents ns cs).map (fun x => { key := declKey x.1 x.2, prim := declPrim x.2, arity := 0 }) := by
  cases cs with
  | nil => rfl
  | cons c cs =>
    simp only [walkContents, declsOfContents, Collected.regs_append', List.map_append]
    rw [defs_walkContent e ns c, defs_walkContents e ns cs]
end

/-- The registry entries of a file's own declarations: key, kind and arity 0, in textual order. -/
theorem defs_file (e : Env) (contents : List Content) :
    (walkContents e [] contents).regs.map siteDef = declDefs contents := defs_walkContents e [] contents

theorem extRegs_siteDef (file : String) (defs : List ExtDef) : (extRegs file defs).map siteDef = extDefs defs := by
  induction defs with
  | nil => rfl
  | cons d ds ih =>
    simp only [extRegs, List.map_cons, ih, extDefs, siteDef]

/-- `finishFile` only adds the file's own declarations to the registry and leaves the imported set alone. -/
theorem finishFile_reg (cfg : Cfg) (file : APath) (contents : List Content) (res : PResult) (st : PState)
    (r : PResult) (st' : PState) (h : finishFile cfg file contents res st = .ok (r, st')) :
    st'.reg = st.reg ++ declDefs contents ∧ st'.imported = st.imported := by
  refine ⟨?_, finishFile_imported _ _ _ _ _ _ _ h⟩
  unfold finishFile at h
  simp only at h
  split at h
  · cases h
  · rename_i reg hreg
    have hr := registerAll_ok_eq _ _ _ hreg
    rw [defs_file] at hr
    split at h
    · cases h
    · split at h
      · cases h
      · cases h; exact hr

/-! ### the simulation: `parseOne` against `loadOrder` -/

/-- the search's `visited` list holds exactly the files in progress and the files already entered -/
def Visited (visited stack imported : List APath) : Prop := ∀ q, q ∈ visited ↔ q ∈ stack ∨ q ∈ imported

/-- the spelling a file was found under leads back to that file -/
def SelfOk (fs : FS) (spelled file : APath) : Prop := ∀ q, fs.regularFile spelled = some q → q = file

theorem SelfOk.root (fs : FS) (root : APath) : SelfOk fs root (normPath root) :=
  fun q h => regularFile_eq_norm fs root q h

theorem SelfOk.found (cfg : Cfg) (fs : FS) (sp : APath) (lit : String) (c : Cand) (p : APath)
    (h : findFile cfg fs sp lit = some (c, p)) : SelfOk fs c.path p := by
  obtain ⟨_, _, _, _, hq⟩ := findFile_first cfg fs sp lit c p h
  intro q hq'
  rw [hq] at hq'
  cases hq'; rfl

/-- what the simulation maintains: the `visited` list, and the registry as the start registry plus what the
    events so far add -/
def Sim (fs : FS) (R0 : Registry) (stack : List APath) (st : PState) (acc : OrderAcc) : Prop :=
  Visited acc.1 stack st.imported ∧ st.reg = R0 ++ acc.2.flatMap (evDefs fs)

theorem evDefs_finished (fs : FS) (file : APath) (text : String) (f : File)
    (hf : fs.get file = some (.idl text)) (hp : parseText text = some f) :
    evDefs fs (.finished file) = declDefs f.contents := by
  simp [evDefs, fileDefs, hf, hp]

theorem doLoads_order (cfg : Cfg) (fs : FS) (n : Nat) (R0 : Registry)
    (ih : ∀ stack file spelled st res st' acc, parseOne cfg fs n stack file spelled st = .ok (res, st') →
      SelfOk fs spelled file → Sim fs R0 (stack ++ [file]) st acc →
      Sim fs R0 (stack ++ [file]) st' (loadOrder cfg fs n file spelled acc))
    (stack : List APath) (file spelled : APath) (text : String) (hself : SelfOk fs spelled file)
    (hfile : fs.get file = some (.idl text)) (hin : file ∈ stack)
    (loads : List LoadAt) (res : PResult) (st : PState) (res' : PResult) (st' : PState) (acc : OrderAcc)
    (h : doLoads cfg fs (parseOne cfg fs n) stack file spelled loads res st = .ok (res', st'))
    (hsim : Sim fs R0 stack st acc) :
    Sim fs R0 stack st' (loads.foldl (loadStep cfg fs (loadOrder cfg fs n) spelled) acc) := by
  induction loads generalizing res st acc with
  | nil =>
    simp only [doLoads, Except.ok.injEq, Prod.mk.injEq] at h
    rw [← h.2]; exact hsim
  | cons l ls ihl =>
    simp only [doLoads] at h
    simp only [List.foldl_cons]
    split at h
    · -- not found
      rename_i hfind
      have hstep : loadStep cfg fs (loadOrder cfg fs n) spelled acc l = acc := by simp [loadStep, hfind]
      rw [hstep]; exact ihl _ _ _ h hsim
    · rename_i c p hfind
      have hfound := SelfOk.found cfg fs spelled _ c p hfind
      split at h
      · -- the file itself
        rename_i hs
        have hp : p = file := by
          simp only [Bool.and_eq_true, beq_iff_eq] at hs
          obtain ⟨_, _, _, _, hq⟩ := findFile_first cfg fs spelled _ c p hfind
          rw [hs.2] at hq
          exact hself p hq
        have hv : p ∈ acc.1 := (hsim.1 p).mpr (Or.inl (hp ▸ hin))
        have hstep : loadStep cfg fs (loadOrder cfg fs n) spelled acc l = acc := by
          simp only [loadStep, hfind]
          split
          · simp [hv]
          · rw [hp, hfile]
        rw [hstep]; exact ihl _ _ _ h hsim
      · split at h
        · rename_i himp
          split at h
          · -- on the stack
            rename_i hst
            have hv : p ∈ acc.1 := (hsim.1 p).mpr (Or.inl (by simpa using hst))
            have hstep : loadStep cfg fs (loadOrder cfg fs n) spelled acc l = acc := by
              simp [loadStep, hfind, himp, hv]
            rw [hstep]; exact ihl _ _ _ h hsim
          · rename_i hst
            split at h
            · -- already imported
              rename_i hi
              have hv : p ∈ acc.1 := (hsim.1 p).mpr (Or.inr (by simpa using hi))
              have hstep : loadStep cfg fs (loadOrder cfg fs n) spelled acc l = acc := by
                simp [loadStep, hfind, himp, hv]
              rw [hstep]; exact ihl _ _ _ h hsim
            · -- a new file: nested parse
              rename_i hi
              have hst' : p ∉ stack := by simpa using hst
              have hi' : p ∉ st.imported := by simpa using hi
              have hv : p ∉ acc.1 := fun hm => by
                rcases (hsim.1 p).mp hm with h1 | h1
                · exact hst' h1
                · exact hi' h1
              have hstep : loadStep cfg fs (loadOrder cfg fs n) spelled acc l
                  = loadOrder cfg fs n p c.path (acc.1 ++ [p], acc.2) := by
                simp [loadStep, hfind, himp, hv]
              rw [hstep]
              split at h
              · cases h
              · rename_i r1 st1 hr
                have hsim1 : Sim fs R0 (stack ++ [p]) { st with imported := st.imported ++ [p] } (acc.1 ++ [p], acc.2) := by
                  refine ⟨fun q => ?_, hsim.2⟩
                  have := hsim.1 q
                  simp only [List.mem_append, List.mem_singleton, this]
                  constructor
                  · rintro ((h1 | h1) | h1)
                    · exact Or.inl (Or.inl h1)
                    · exact Or.inr (Or.inl h1)
                    · exact Or.inl (Or.inr h1)
                  · rintro ((h1 | h1) | (h1 | h1))
                    · exact Or.inl (Or.inl h1)
                    · exact Or.inr h1
                    · exact Or.inl (Or.inr h1)
                    · exact Or.inr h1
                have hsim2 := ih stack p c.path _ r1 st1 _ hr hfound hsim1
                have hmono := parseOne_imported_mono cfg fs n stack p c.path _ r1 st1 hr p (by simp)
                have hsim3 : Sim fs R0 stack st1 (loadOrder cfg fs n p c.path (acc.1 ++ [p], acc.2)) := by
                  refine ⟨fun q => ?_, hsim2.2⟩
                  rw [hsim2.1 q]
                  simp only [List.mem_append, List.mem_singleton]
                  constructor
                  · rintro ((h1 | h1) | h1)
                    · exact Or.inl h1
                    · exact Or.inr (h1 ▸ hmono)
                    · exact Or.inr h1
                  · rintro (h1 | h1)
                    · exact Or.inl (Or.inl h1)
                    · exact Or.inr h1
                exact ihl _ _ _ h hsim3
        · -- `@extern`
          rename_i himp
          have himp' : l.isImport = false := by simpa using himp
          split at h
          · rename_i defs hg
            split at h
            · cases h
            · rename_i reg hreg
              have hr := registerAll_ok_eq _ _ _ hreg
              rw [extRegs_siteDef] at hr
              have hstep : loadStep cfg fs (loadOrder cfg fs n) spelled acc l = (acc.1, acc.2 ++ [.extern p]) := by
                simp [loadStep, hfind, himp', hg]
              rw [hstep]
              refine ihl _ _ _ h ⟨hsim.1, ?_⟩
              simp only [hr, hsim.2, List.flatMap_append, List.flatMap_cons, List.flatMap_nil, List.append_nil, evDefs, hg,
                List.append_assoc]
          · rename_i pos hg
            have hstep : loadStep cfg fs (loadOrder cfg fs n) spelled acc l = acc := by
              simp [loadStep, hfind, himp', hg]
            rw [hstep]; exact ihl _ _ _ h hsim
          · rename_i hne1 hne2
            have hstep : loadStep cfg fs (loadOrder cfg fs n) spelled acc l = acc := by
              cases hg : fs.get p with
              | none => simp [loadStep, hfind, himp', hg]
              | some fc =>
                cases fc with
                | ext defs => exact absurd hg (hne1 defs)
                | _ => simp [loadStep, hfind, himp', hg]
            rw [hstep]; exact ihl _ _ _ h hsim

/-- **The simulation.** A successful `parseOne` keeps the correspondence with the search: afterwards the
    `visited` list of `loadOrder` is again the stack plus the imported set, and the registry is the start registry
    plus what the events of `loadOrder` add, in order. -/
theorem parseOne_order (cfg : Cfg) (fs : FS) (R0 : Registry) (fuel : Nat) (stack : List APath) (file spelled : APath)
    (st : PState) (res : PResult) (st' : PState) (acc : OrderAcc)
    (h : parseOne cfg fs fuel stack file spelled st = .ok (res, st'))
    (hself : SelfOk fs spelled file) (hsim : Sim fs R0 (stack ++ [file]) st acc) :
    Sim fs R0 (stack ++ [file]) st' (loadOrder cfg fs fuel file spelled acc) := by
  induction fuel generalizing stack file spelled st res st' acc with
  | zero => simp [parseOne] at h
  | succ n ih =>
    simp only [parseOne] at h
    split at h
    · rename_i text hfile
      split at h
      · cases h
      · rename_i toks hlex
        split at h
        · cases h
        · rename_i loads contents hparse
          have hpt : parseText text = some { loads := loads, contents := contents } := by
            simp [parseText, hlex, hparse]
          split at h
          · cases h
          · rename_i res1 st1 hd
            have h1 := doLoads_order cfg fs n R0
              (fun stack file spelled st res st' acc hh hs hm => ih stack file spelled st res st' acc hh hs hm)
              (stack ++ [file]) file spelled text hself hfile (by simp) loads _ st res1 st1 acc hd hsim
            obtain ⟨hreg, himp⟩ := finishFile_reg _ _ _ _ _ _ _ h
            have hlo : loadOrder cfg fs (n + 1) file spelled acc
                = ((loads.foldl (loadStep cfg fs (loadOrder cfg fs n) spelled) acc).1,
                   (loads.foldl (loadStep cfg fs (loadOrder cfg fs n) spelled) acc).2 ++ [.finished file]) := by
              simp only [loadOrder, hfile, hpt]
            rw [hlo]
            refine ⟨fun q => by rw [himp]; exact h1.1 q, ?_⟩
            simp only [hreg, h1.2, List.flatMap_append, List.flatMap_cons, List.flatMap_nil, List.append_nil,
              evDefs_finished fs file text _ hfile hpt, List.append_assoc]
    · rename_i pos hfile
      simp only [Except.ok.injEq, Prod.mk.injEq] at h
      have hlo : loadOrder cfg fs (n + 1) file spelled acc = acc := by
        simp only [loadOrder, hfile]
      rw [hlo, ← h.2]; exact hsim
    · cases h

/-! ### `finishOrder` is `loadOrder` without the `@extern` events -/

/-- one load line in `finishOrder` -/
def finishStep (cfg : Cfg) (fs : FS) (rec : APath → APath → List APath × List APath → List APath × List APath)
    (spelled : APath) (acc : List APath × List APath) (l : LoadAt) : List APath × List APath :=
  if !l.isImport then acc else
  match findFile cfg fs spelled (filepathText l.lit) with
  | some (c, p) => if acc.1.contains p then acc else rec p c.path (acc.1 ++ [p], acc.2)
  | none => acc

theorem finishOrder_succ (cfg : Cfg) (fs : FS) (n : Nat) (file spelled : APath) (acc : List APath × List APath) :
    finishOrder cfg fs (n + 1) file spelled acc =
      match fs.get file with
      | some (.idl text) =>
        match parseText text with
        | none => acc
        | some f =>
          ((f.loads.foldl (finishStep cfg fs (finishOrder cfg fs n) spelled) acc).1,
           (f.loads.foldl (finishStep cfg fs (finishOrder cfg fs n) spelled) acc).2 ++ [file])
      | _ => acc := by
  obtain ⟨v, d⟩ := acc
  simp only [finishOrder]
  cases hf : fs.get file with
  | none => rfl
  | some fc =>
    cases fc with
    | idl text =>
      simp only []
      cases hp : parseText text with
      | none => rfl
      | some f =>
        simp only []
        have key : ∀ (F G : List APath × List APath → LoadAt → List APath × List APath), (∀ a l, F a l = G a l) →
            ((f.loads.foldl F (v, d)).1, (f.loads.foldl F (v, d)).2 ++ [file])
              = ((f.loads.foldl G (v, d)).1, (f.loads.foldl G (v, d)).2 ++ [file]) := by
          intro F G h
          rw [show F = G from funext fun a => funext fun l => h a l]
        apply key
        intro a l
        simp only [finishStep]
        generalize findFile cfg fs spelled (filepathText l.lit) = x
        cases x with
        | none => rfl
        | some cp => rfl
    | ext d => simp only []
    | badExt => simp only []
    | notText pos => simp only []

def projAcc (acc : OrderAcc) : List APath × List APath := (acc.1, acc.2.filterMap LoadEvent.file?)

theorem projAcc_step (cfg : Cfg) (fs : FS) (recL : APath → APath → OrderAcc → OrderAcc)
    (recF : APath → APath → List APath × List APath → List APath × List APath)
    (hrec : ∀ p s a, projAcc (recL p s a) = recF p s (projAcc a)) (spelled : APath) (acc : OrderAcc) (l : LoadAt) :
    projAcc (loadStep cfg fs recL spelled acc l) = finishStep cfg fs recF spelled (projAcc acc) l := by
  unfold loadStep finishStep
  cases hfind : findFile cfg fs spelled (filepathText l.lit) with
  | none => cases l.isImport <;> simp
  | some cp =>
    obtain ⟨c, p⟩ := cp
    cases himp : l.isImport with
    | true =>
      have hr := hrec p c.path (acc.1 ++ [p], acc.2)
      by_cases hm : p ∈ acc.1
      · simp [hm, projAcc]
      · simpa [hm, projAcc] using hr
    | false =>
      simp only [Bool.not_false, if_true, Bool.false_eq_true, if_false]
      split
      · simp [projAcc, LoadEvent.file?]
      · rfl

theorem projAcc_foldl (cfg : Cfg) (fs : FS) (recL : APath → APath → OrderAcc → OrderAcc)
    (recF : APath → APath → List APath × List APath → List APath × List APath)
    (hrec : ∀ p s a, projAcc (recL p s a) = recF p s (projAcc a)) (spelled : APath) (loads : List LoadAt) (acc : OrderAcc) :
    projAcc (loads.foldl (loadStep cfg fs recL spelled) acc) = loads.foldl (finishStep cfg fs recF spelled) (projAcc acc) := by
  induction loads generalizing acc with
  | nil => rfl
  | cons l ls ih => simp only [List.foldl_cons]; rw [ih, projAcc_step cfg fs recL recF hrec]

/-- `finishOrder` is `loadOrder` with the `@extern` events dropped. -/
theorem projAcc_loadOrder (cfg : Cfg) (fs : FS) (fuel : Nat) (file spelled : APath) (acc : OrderAcc) :
    projAcc (loadOrder cfg fs fuel file spelled acc) = finishOrder cfg fs fuel file spelled (projAcc acc) := by
  induction fuel generalizing file spelled acc with
  | zero => simp [loadOrder, finishOrder]
  | succ n ih =>
    rw [finishOrder_succ]
    simp only [loadOrder]
    cases hf : fs.get file with
    | none => rfl
    | some fc =>
      cases fc with
      | idl text =>
        simp only []
        cases hp : parseText text with
        | none => rfl
        | some f =>
          simp only []
          rw [← projAcc_foldl cfg fs (loadOrder cfg fs n) (finishOrder cfg fs n) (fun p s a => ih p s a) spelled f.loads acc]
          simp [projAcc, LoadEvent.file?]
      | _ => rfl

/-! ### the finish order of `parseOne` -/

/-- no event of the list is an `@extern` load -/
def AllFinished (evs : List LoadEvent) : Prop := ∀ e ∈ evs, ∃ p, e = LoadEvent.finished p

theorem AllFinished.eq_map {evs : List LoadEvent} (h : AllFinished evs) :
    evs = (evs.filterMap LoadEvent.file?).map LoadEvent.finished := by
  induction evs with
  | nil => rfl
  | cons e es ih =>
    obtain ⟨p, rfl⟩ := h e (by simp)
    have := ih (fun e he => h e (List.mem_cons_of_mem _ he))
    simp only [List.filterMap_cons, LoadEvent.file?, List.map_cons]
    rw [← this]

theorem flatMap_evDefs_map_finished (fs : FS) (l : List APath) :
    (l.map LoadEvent.finished).flatMap (evDefs fs) = l.flatMap (fileDefs fs) := by
  induction l with
  | nil => rfl
  | cons p ps ih => simp only [List.map_cons, List.flatMap_cons, ih, evDefs]

/-- the finished files among the events of `loadOrder` are the `finished` list of `finishOrder` -/
theorem loadOrder_files (cfg : Cfg) (fs : FS) (fuel : Nat) (file spelled : APath) (visited : List APath) :
    (loadOrder cfg fs fuel file spelled (visited, [])).2.filterMap LoadEvent.file?
      = (finishOrder cfg fs fuel file spelled (visited, [])).2 := by
  have := projAcc_loadOrder cfg fs fuel file spelled (visited, [])
  simp only [projAcc, List.filterMap_nil] at this
  rw [← this]

theorem loadOrder_visited (cfg : Cfg) (fs : FS) (fuel : Nat) (file spelled : APath) (visited : List APath) :
    (loadOrder cfg fs fuel file spelled (visited, [])).1 = (finishOrder cfg fs fuel file spelled (visited, [])).1 := by
  have := projAcc_loadOrder cfg fs fuel file spelled (visited, [])
  simp only [projAcc, List.filterMap_nil] at this
  rw [← this]

/-- **Registration order, `@extern` loads included.** If a call of `parseOne` succeeds, the registry afterwards is the
    registry before plus — in the order of `loadOrder`, a depth-first search over the load lines that knows nothing of
    registries — the declarations of every file finished during the call (in textual order, each with its kind) and
    the definitions of every external type file loaded by an `@extern` line, each at its place.

    Hypotheses: `spelled` is a spelling of `file` (`SelfOk`; true for the root call and for every nested call), and
    `visited` holds exactly the files in progress (`stack ++ [file]`) and the files already entered (`st.imported`). -/
theorem parseOne_load_order (cfg : Cfg) (fs : FS) (fuel : Nat) (stack : List APath) (file spelled : APath)
    (st : PState) (res : PResult) (st' : PState) (visited : List APath)
    (h : parseOne cfg fs fuel stack file spelled st = .ok (res, st'))
    (hself : SelfOk fs spelled file) (hv : Visited visited (stack ++ [file]) st.imported) :
    st'.reg = st.reg ++ (loadOrder cfg fs fuel file spelled (visited, [])).2.flatMap (evDefs fs)
      ∧ Visited (loadOrder cfg fs fuel file spelled (visited, [])).1 (stack ++ [file]) st'.imported := by
  have := parseOne_order cfg fs st.reg fuel stack file spelled st res st' (visited, []) h hself ⟨hv, by simp⟩
  exact ⟨this.2, this.1⟩

/-- the qualified names a file declares, in the order `walkContents` registers them -/
def fileKeys (fs : FS) (p : APath) : List String := (fileDefs fs p).map (·.key)

theorem fileKeys_eq (fs : FS) (p : APath) (text : String) (f : File)
    (hf : fs.get p = some (.idl text)) (hp : parseText text = some f) (e : Env) :
    fileKeys fs p = (walkContents e [] f.contents).regs.map (·.key) := by
  rw [regs_walkContents]
  simp [fileKeys, fileDefs, hf, hp, declDefs]

/-- **Finish order.** If a call of `parseOne` succeeds and no `@extern` line loaded an external type file during it,
    then the files whose own declarations were registered during the call are, in order, exactly the `finished` list of
    `finishOrder` (the depth-first search over `@import` lines started from the same `visited` list): the registry
    afterwards is the registry before plus the declarations of these files, file by file, each file's in textual
    order — entry by entry (key, kind, arity 0), hence in particular key by key. -/
theorem parseOne_finish_order (cfg : Cfg) (fs : FS) (fuel : Nat) (stack : List APath) (file spelled : APath)
    (st : PState) (res : PResult) (st' : PState) (visited : List APath)
    (h : parseOne cfg fs fuel stack file spelled st = .ok (res, st'))
    (hself : SelfOk fs spelled file) (hv : Visited visited (stack ++ [file]) st.imported)
    (hne : AllFinished (loadOrder cfg fs fuel file spelled (visited, [])).2) :
    st'.reg = st.reg ++ (finishOrder cfg fs fuel file spelled (visited, [])).2.flatMap (fileDefs fs)
      ∧ st'.reg.map (·.key) = st.reg.map (·.key) ++ (finishOrder cfg fs fuel file spelled (visited, [])).2.flatMap (fileKeys fs)
      ∧ Visited (finishOrder cfg fs fuel file spelled (visited, [])).1 (stack ++ [file]) st'.imported := by
  obtain ⟨h1, h2⟩ := parseOne_load_order cfg fs fuel stack file spelled st res st' visited h hself hv
  rw [hne.eq_map, flatMap_evDefs_map_finished, loadOrder_files] at h1
  rw [loadOrder_visited] at h2
  refine ⟨h1, ?_, h2⟩
  rw [h1, List.map_append, List.map_flatMap]
  rfl

/-! ### when no `@extern` line loads anything; the events only grow -/

/-- no `@extern` line can load an external type file: no IDL file has an `@extern` line, or the file system holds no
    (valid) external type file -/
def NoExternLoads (fs : FS) : Prop :=
  (∀ p text f l, fs.get p = some (.idl text) → parseText text = some f → l ∈ f.loads → l.isImport = true)
    ∨ (∀ p defs, fs.get p ≠ some (.ext defs))

theorem AllFinished.append {a b : List LoadEvent} (ha : AllFinished a) (hb : AllFinished b) : AllFinished (a ++ b) := by
  intro e he
  rcases List.mem_append.mp he with h | h
  · exact ha e h
  · exact hb e h

theorem loadStep_allFinished (cfg : Cfg) (fs : FS) (rec : APath → APath → OrderAcc → OrderAcc)
    (hrec : ∀ p s a, AllFinished a.2 → AllFinished (rec p s a).2) (spelled : APath) (acc : OrderAcc) (l : LoadAt)
    (hl : l.isImport = true ∨ ∀ p defs, fs.get p ≠ some (.ext defs)) (ha : AllFinished acc.2) :
    AllFinished (loadStep cfg fs rec spelled acc l).2 := by
  unfold loadStep
  split
  · exact ha
  · rename_i c p hfind
    split
    · split
      · exact ha
      · exact hrec _ _ _ ha
    · rename_i himp
      split
      · rename_i defs hg
        rcases hl with hl | hl
        · exact absurd hl himp
        · exact absurd hg (hl p defs)
      · exact ha

theorem foldl_loadStep_allFinished (cfg : Cfg) (fs : FS) (rec : APath → APath → OrderAcc → OrderAcc)
    (hrec : ∀ p s a, AllFinished a.2 → AllFinished (rec p s a).2) (spelled : APath) (loads : List LoadAt) (acc : OrderAcc)
    (hl : ∀ l ∈ loads, l.isImport = true ∨ ∀ p defs, fs.get p ≠ some (.ext defs)) (ha : AllFinished acc.2) :
    AllFinished (loads.foldl (loadStep cfg fs rec spelled) acc).2 := by
  induction loads generalizing acc with
  | nil => exact ha
  | cons l ls ih =>
    simp only [List.foldl_cons]
    exact ih _ (fun l' hl' => hl l' (List.mem_cons_of_mem _ hl'))
      (loadStep_allFinished cfg fs rec hrec spelled acc l (hl l (by simp)) ha)

/-- Under `NoExternLoads` the events of `loadOrder` are all `finished` events. -/
theorem loadOrder_allFinished (cfg : Cfg) (fs : FS) (hno : NoExternLoads fs) (fuel : Nat) (file spelled : APath)
    (acc : OrderAcc) (ha : AllFinished acc.2) : AllFinished (loadOrder cfg fs fuel file spelled acc).2 := by
  induction fuel generalizing file spelled acc with
  | zero => exact ha
  | succ n ih =>
    simp only [loadOrder]
    cases hf : fs.get file with
    | none => exact ha
    | some fc =>
      cases fc with
      | idl text =>
        simp only []
        cases hp : parseText text with
        | none => exact ha
        | some f =>
          simp only []
          refine AllFinished.append ?_ (fun e he => ⟨file, by simpa using he⟩)
          refine foldl_loadStep_allFinished cfg fs _ (fun p s a h => ih p s a h) spelled f.loads acc ?_ ha
          intro l hl
          rcases hno with h | h
          · exact Or.inl (h file text f l hf hp hl)
          · exact Or.inr h
      | _ => exact ha

theorem loadStep_extends (cfg : Cfg) (fs : FS) (rec : APath → APath → OrderAcc → OrderAcc)
    (hrec : ∀ p s a, ∃ ext, (rec p s a).2 = a.2 ++ ext) (spelled : APath) (acc : OrderAcc) (l : LoadAt) :
    ∃ ext, (loadStep cfg fs rec spelled acc l).2 = acc.2 ++ ext := by
  unfold loadStep
  split
  · exact ⟨[], by simp⟩
  · split
    · split
      · exact ⟨[], by simp⟩
      · exact hrec _ _ _
    · split
      · exact ⟨_, rfl⟩
      · exact ⟨[], by simp⟩

theorem foldl_loadStep_extends (cfg : Cfg) (fs : FS) (rec : APath → APath → OrderAcc → OrderAcc)
    (hrec : ∀ p s a, ∃ ext, (rec p s a).2 = a.2 ++ ext) (spelled : APath) (loads : List LoadAt) (acc : OrderAcc) :
    ∃ ext, (loads.foldl (loadStep cfg fs rec spelled) acc).2 = acc.2 ++ ext := by
  induction loads generalizing acc with
  | nil => exact ⟨[], by simp⟩
  | cons l ls ih =>
    simp only [List.foldl_cons]
    obtain ⟨e1, h1⟩ := loadStep_extends cfg fs rec hrec spelled acc l
    obtain ⟨e2, h2⟩ := ih (loadStep cfg fs rec spelled acc l)
    exact ⟨e1 ++ e2, by rw [h2, h1, List.append_assoc]⟩

/-- `loadOrder` only appends events. -/
theorem loadOrder_extends (cfg : Cfg) (fs : FS) (fuel : Nat) (file spelled : APath) (acc : OrderAcc) :
    ∃ ext, (loadOrder cfg fs fuel file spelled acc).2 = acc.2 ++ ext := by
  induction fuel generalizing file spelled acc with
  | zero => exact ⟨[], by simp [loadOrder]⟩
  | succ n ih =>
    simp only [loadOrder]
    cases hf : fs.get file with
    | none => exact ⟨[], by simp⟩
    | some fc =>
      cases fc with
      | idl text =>
        simp only []
        cases hp : parseText text with
        | none => exact ⟨[], by simp⟩
        | some f =>
          simp only []
          obtain ⟨e, he⟩ := foldl_loadStep_extends cfg fs _ (fun p s a => ih p s a) spelled f.loads acc
          exact ⟨e ++ [.finished file], by rw [he, List.append_assoc]⟩
      | _ => exact ⟨[], by simp⟩

/-! ### the finished files as a program -/

/-- an IDL file inside the grammar -/
def Parsable (fs : FS) (p : APath) : Prop := ∃ text f, fs.get p = some (.idl text) ∧ parseText text = some f

def EvOk (fs : FS) (evs : List LoadEvent) : Prop := ∀ p, LoadEvent.finished p ∈ evs → Parsable fs p

theorem loadStep_evOk (cfg : Cfg) (fs : FS) (rec : APath → APath → OrderAcc → OrderAcc)
    (hrec : ∀ p s a, EvOk fs a.2 → EvOk fs (rec p s a).2) (spelled : APath) (acc : OrderAcc) (l : LoadAt)
    (ha : EvOk fs acc.2) : EvOk fs (loadStep cfg fs rec spelled acc l).2 := by
  unfold loadStep
  split
  · exact ha
  · split
    · split
      · exact ha
      · exact hrec _ _ _ ha
    · split
      · intro q hq
        simp only [List.mem_append, List.mem_singleton] at hq
        rcases hq with hq | hq
        · exact ha q hq
        · cases hq
      · exact ha

theorem foldl_loadStep_evOk (cfg : Cfg) (fs : FS) (rec : APath → APath → OrderAcc → OrderAcc)
    (hrec : ∀ p s a, EvOk fs a.2 → EvOk fs (rec p s a).2) (spelled : APath) (loads : List LoadAt) (acc : OrderAcc)
    (ha : EvOk fs acc.2) : EvOk fs (loads.foldl (loadStep cfg fs rec spelled) acc).2 := by
  induction loads generalizing acc with
  | nil => exact ha
  | cons l ls ih =>
    simp only [List.foldl_cons]
    exact ih _ (loadStep_evOk cfg fs rec hrec spelled acc l ha)

theorem loadOrder_evOk (cfg : Cfg) (fs : FS) (fuel : Nat) (file spelled : APath)
    (acc : OrderAcc) (ha : EvOk fs acc.2) : EvOk fs (loadOrder cfg fs fuel file spelled acc).2 := by
  induction fuel generalizing file spelled acc with
  | zero => exact ha
  | succ n ih =>
    simp only [loadOrder]
    cases hf : fs.get file with
    | none => exact ha
    | some fc =>
      cases fc with
      | idl text =>
        simp only []
        cases hp : parseText text with
        | none => exact ha
        | some f =>
          simp only []
          intro q hq
          simp only [List.mem_append, List.mem_singleton] at hq
          rcases hq with hq | hq
          · exact foldl_loadStep_evOk cfg fs _ (fun p s a h => ih p s a h) spelled f.loads acc ha q hq
          · cases hq; exact ⟨text, f, hf, hp⟩
      | _ => exact ha

/-- Every file of the finish order is an IDL file inside the grammar. -/
theorem finishOrder_parsable (cfg : Cfg) (fs : FS) (fuel : Nat) (file spelled : APath) (visited : List APath) :
    ∀ p ∈ (finishOrder cfg fs fuel file spelled (visited, [])).2, Parsable fs p := by
  intro p hp
  rw [← loadOrder_files, List.mem_filterMap] at hp
  obtain ⟨e, he, hfile⟩ := hp
  cases e with
  | finished q =>
    simp only [LoadEvent.file?, Option.some.injEq] at hfile
    subst hfile
    exact loadOrder_evOk cfg fs fuel file spelled (visited, []) (fun _ h => by cases h) _ he
  | extern q => simp [LoadEvent.file?] at hfile

/-- a file of the program, as parsed -/
def progFile (fs : FS) (p : APath) : ProgFile :=
  { file := showPath p,
    contents := match fs.get p with
      | some (.idl text) => (match parseText text with | some f => f.contents | none => [])
      | _ => [] }

theorem declDefs_progFile (fs : FS) (p : APath) : declDefs (progFile fs p).contents = fileDefs fs p := by
  unfold progFile fileDefs
  cases fs.get p with
  | none => rfl
  | some fc =>
    cases fc with
    | idl text =>
      simp only []
      cases parseText text <;> rfl
    | _ => rfl

theorem progFilesOf_eq (fs : FS) (order : List APath) (h : ∀ p ∈ order, Parsable fs p) :
    progFilesOf fs order = some (order.map (progFile fs)) := by
  induction order with
  | nil => rfl
  | cons p ps ih =>
    obtain ⟨text, f, hf, hp⟩ := h p (by simp)
    have ih' := ih (fun q hq => h q (List.mem_cons_of_mem _ hq))
    unfold progFilesOf at ih' ⊢
    simp only [List.foldr_cons, ih', hf, hp, List.map_cons, progFile]

/-- `programInOrder` always answers: the files of the finish order, as parsed. -/
theorem programInOrder_eq (cfg : Cfg) (fs : FS) (root : APath) :
    programInOrder cfg fs.files root = some ((rootOrder cfg fs root).map (progFile fs)) := by
  unfold programInOrder
  exact progFilesOf_eq fs _ (finishOrder_parsable cfg fs _ _ _ _)

theorem progRegistry_eq (pre : Registry) (prog : List ProgFile) :
    progRegistry pre prog = pre ++ prog.flatMap (fun f => declDefs f.contents) := by
  simp only [progRegistry, progDecls, declDefs, List.map_flatMap, List.map_map]
  rfl

theorem progRegistry_order (fs : FS) (pre : Registry) (order : List APath) :
    progRegistry pre (order.map (progFile fs)) = pre ++ order.flatMap (fileDefs fs) := by
  rw [progRegistry_eq, List.flatMap_map]
  congr 2
  funext p
  exact declDefs_progFile fs p

theorem rootEvents_files (cfg : Cfg) (fs : FS) (root : APath) :
    (rootEvents cfg fs root).filterMap LoadEvent.file? = rootOrder cfg fs root :=
  loadOrder_files cfg fs _ _ _ _

theorem Visited.root (root : APath) : Visited [normPath root] ([] ++ [normPath root]) ({ reg := builtins } : PState).imported := by
  intro q; simp

/-- **The final registry of a run.** If the front end's root call succeeds and no `@extern` line loaded an external
    type file, the registry at the end is the registry of the program `programInOrder` (the driver's reading of the
    program: files in finish order): built-ins, then every declaration, file by file in finish order. -/
theorem front_final_registry (cfg : Cfg) (fs : FS) (builtins : Registry) (root : APath) (res : PResult) (st : PState)
    (h : parseOne cfg fs (fs.files.length + 2) [] (normPath root) root { reg := builtins } = .ok (res, st))
    (hne : AllFinished (rootEvents cfg fs root)) :
    ∃ prog, programInOrder cfg fs.files root = some prog ∧ st.reg = progRegistry builtins prog := by
  refine ⟨_, programInOrder_eq cfg fs root, ?_⟩
  obtain ⟨h1, _⟩ := parseOne_finish_order cfg fs _ [] _ root _ res st [normPath root] h (SelfOk.root fs root)
    (Visited.root root) hne
  rw [progRegistry_order]
  exact h1

/-! ### the registry a file is read against

`finishFile` registers a file's own declarations and binds its references and checks its rules against the registry
*as it is at that moment*. To say which registry that is for file number `i` of a run, the call tree of `parseOne` is
followed with the model's own functions (nothing is instrumented): a load list is run up to a directive (`doLoads` on
the prefix — `doLoads_append` is the justification), and the nested parse of that directive starts in the state
reached there. -/

theorem doLoads_append (cfg : Cfg) (fs : FS) (rec : ParseFn) (stack : List APath) (file spelled : APath)
    (pre post : List LoadAt) (res : PResult) (st : PState) :
    doLoads cfg fs rec stack file spelled (pre ++ post) res st =
      match doLoads cfg fs rec stack file spelled pre res st with
      | .error a => .error a
      | .ok (r1, s1) => doLoads cfg fs rec stack file spelled post r1 s1 := by
  induction pre generalizing res st with
  | nil => simp [doLoads]
  | cons l ls ih =>
    simp only [List.cons_append, doLoads]
    split
    · exact ih _ _
    · split
      · exact ih _ _
      · split
        · split
          · exact ih _ _
          · split
            · exact ih _ _
            · split
              · rfl
              · exact ih _ _
        · split
          · split
            · rfl
            · exact ih _ _
          · exact ih _ _
          · exact ih _ _

/-- `FinishedAt cfg fs fuel stack file spelled st q r`: in the course of the call
    `parseOne cfg fs fuel stack file spelled st`, the own content of file `q` is finished, and `r` is the registry its
    references are bound in and its rules are checked against (the registry at that moment, `q`'s own declarations
    registered). -/
inductive FinishedAt (cfg : Cfg) (fs : FS) : Nat → List APath → APath → APath → PState → APath → Registry → Prop
  /-- the file of the call itself: after all its loads -/
  | own {n : Nat} {stack : List APath} {file spelled : APath} {st : PState} {text : String} {toks : List Token}
      {loads : List LoadAt} {contents : List Content} {res1 : PResult} {st1 : PState} {r : Registry} :
      fs.get file = some (.idl text) → lex text = some toks → parseFile toks = some ⟨loads, contents⟩ →
      doLoads cfg fs (parseOne cfg fs n) (stack ++ [file]) file spelled loads {} st = .ok (res1, st1) →
      registerAll st1.reg (walkContents { file := showPath file, keys := cfg.keys, defaultDeriving := cfg.defaultDeriving } []
        contents).regs = .ok r →
      FinishedAt cfg fs (n + 1) stack file spelled st file r
  /-- a file finished in the nested parse that an `@import` line `l` of the call's file starts -/
  | nested {n : Nat} {stack : List APath} {file spelled : APath} {st : PState} {text : String} {toks : List Token}
      {pre : List LoadAt} {l : LoadAt} {post : List LoadAt} {contents : List Content} {res1 : PResult} {st1 : PState}
      {c : Cand} {p q : APath} {r : Registry} :
      fs.get file = some (.idl text) → lex text = some toks → parseFile toks = some ⟨pre ++ l :: post, contents⟩ →
      doLoads cfg fs (parseOne cfg fs n) (stack ++ [file]) file spelled pre {} st = .ok (res1, st1) →
      findFile cfg fs spelled (filepathText l.lit) = some (c, p) →
      (c.spelledAbsolute && c.path == spelled) = false → l.isImport = true →
      (stack ++ [file]).contains p = false → st1.imported.contains p = false →
      FinishedAt cfg fs n (stack ++ [file]) p c.path { st1 with imported := st1.imported ++ [p] } q r →
      FinishedAt cfg fs (n + 1) stack file spelled st q r

theorem Sim.enter {fs : FS} {R0 : Registry} {stack : List APath} {st : PState} {acc : OrderAcc} (p : APath)
    (hsim : Sim fs R0 stack st acc) :
    Sim fs R0 (stack ++ [p]) { st with imported := st.imported ++ [p] } (acc.1 ++ [p], acc.2) := by
  refine ⟨fun q => ?_, hsim.2⟩
  have := hsim.1 q
  simp only [List.mem_append, List.mem_singleton, this]
  constructor
  · rintro ((h1 | h1) | h1)
    · exact Or.inl (Or.inl h1)
    · exact Or.inr (Or.inl h1)
    · exact Or.inl (Or.inr h1)
  · rintro ((h1 | h1) | (h1 | h1))
    · exact Or.inl (Or.inl h1)
    · exact Or.inr h1
    · exact Or.inl (Or.inr h1)
    · exact Or.inr h1

/-- A file finished during a call is a `finished` event of the search, and the registry it is read against is the start
    registry plus what the events up to and including that one add. -/
theorem finishedAt_events (cfg : Cfg) (fs : FS) (R0 : Registry) {fuel : Nat} {stack : List APath} {file spelled : APath}
    {st : PState} {q : APath} {r : Registry} (hfin : FinishedAt cfg fs fuel stack file spelled st q r) :
    ∀ acc, SelfOk fs spelled file → Sim fs R0 (stack ++ [file]) st acc →
      ∃ pre post, (loadOrder cfg fs fuel file spelled acc).2 = pre ++ LoadEvent.finished q :: post
        ∧ r = R0 ++ (pre ++ [LoadEvent.finished q]).flatMap (evDefs fs) := by
  induction hfin with
  | @own n stack file spelled st text toks loads contents res1 st1 r hfile hlex hparse hd hreg =>
    intro acc hself hsim
    have hpt : parseText text = some { loads := loads, contents := contents } := by
      simp [parseText, hlex, hparse]
    have h1 := doLoads_order cfg fs n R0
      (fun stack file spelled st res st' acc hh hs hm => parseOne_order cfg fs R0 n stack file spelled st res st' acc hh hs hm)
      (stack ++ [file]) file spelled text hself hfile (by simp) loads _ st res1 st1 acc hd hsim
    have hlo : loadOrder cfg fs (n + 1) file spelled acc
        = ((loads.foldl (loadStep cfg fs (loadOrder cfg fs n) spelled) acc).1,
           (loads.foldl (loadStep cfg fs (loadOrder cfg fs n) spelled) acc).2 ++ [.finished file]) := by
      simp only [loadOrder, hfile, hpt]
    refine ⟨(loads.foldl (loadStep cfg fs (loadOrder cfg fs n) spelled) acc).2, [], by rw [hlo], ?_⟩
    have hr := registerAll_ok_eq _ _ _ hreg
    rw [defs_file] at hr
    simp only [hr, h1.2, List.flatMap_append, List.flatMap_cons, List.flatMap_nil, List.append_nil,
      evDefs_finished fs file text _ hfile hpt, List.append_assoc]
  | @nested n stack file spelled st text toks pre l post contents res1 st1 c p q r hfile hlex hparse hd hfind hs himp hst hi _ ih =>
    intro acc hself hsim
    have hpt : parseText text = some { loads := pre ++ l :: post, contents := contents } := by
      simp [parseText, hlex, hparse]
    have h1 := doLoads_order cfg fs n R0
      (fun stack file spelled st res st' acc hh hs hm => parseOne_order cfg fs R0 n stack file spelled st res st' acc hh hs hm)
      (stack ++ [file]) file spelled text hself hfile (by simp) pre _ st res1 st1 acc hd hsim
    have hst' : p ∉ stack ++ [file] := by simpa using hst
    have hi' : p ∉ st1.imported := by simpa using hi
    have hv : p ∉ (pre.foldl (loadStep cfg fs (loadOrder cfg fs n) spelled) acc).1 := fun hm => by
      rcases (h1.1 p).mp hm with h2 | h2
      · exact hst' h2
      · exact hi' h2
    have hstep : loadStep cfg fs (loadOrder cfg fs n) spelled (pre.foldl (loadStep cfg fs (loadOrder cfg fs n) spelled) acc) l
        = loadOrder cfg fs n p c.path ((pre.foldl (loadStep cfg fs (loadOrder cfg fs n) spelled) acc).1 ++ [p],
            (pre.foldl (loadStep cfg fs (loadOrder cfg fs n) spelled) acc).2) := by
      simp [loadStep, hfind, himp, hv]
    obtain ⟨pre', post', he, hr⟩ := ih _ (SelfOk.found cfg fs spelled _ c p hfind) (Sim.enter p h1)
    obtain ⟨ext, hext⟩ := foldl_loadStep_extends cfg fs (loadOrder cfg fs n) (fun p s a => loadOrder_extends cfg fs n p s a)
      spelled post (loadStep cfg fs (loadOrder cfg fs n) spelled (pre.foldl (loadStep cfg fs (loadOrder cfg fs n) spelled) acc) l)
    have hlo : (loadOrder cfg fs (n + 1) file spelled acc).2
        = ((pre ++ l :: post).foldl (loadStep cfg fs (loadOrder cfg fs n) spelled) acc).2 ++ [.finished file] := by
      simp only [loadOrder, hfile, hpt]
    refine ⟨pre', post' ++ ext ++ [.finished file], ?_, hr⟩
    rw [hlo, List.foldl_append, List.foldl_cons, hext, hstep, he]
    simp only [List.append_assoc, List.cons_append]

theorem AllFinished.left {a b : List LoadEvent} (h : AllFinished (a ++ b)) : AllFinished a :=
  fun e he => h e (List.mem_append.mpr (Or.inl he))

/-- **`regUpTo` is the registry the model reads a file against.** In a run of the front end from `root` in which no
    `@extern` line loads an external type file: whenever the own content of a file `q` is finished, `q` is file number
    `i` — for some `i` — of the finish order `rootOrder` (computed by `finishOrder`), hence of the program
    `programInOrder` the specification reads, and the registry `q`'s references are bound in and its rules are checked
    against is `regUpTo builtins prog i` = `progRegistry builtins (prog.take (i + 1))`: equal as a list of registry
    entries — the same keys in the same order, with the same kind and arity. -/
theorem front_registry_is_regUpTo (cfg : Cfg) (fs : FS) (builtins : Registry) (root q : APath) (r : Registry)
    (hfin : FinishedAt cfg fs (fs.files.length + 2) [] (normPath root) root { reg := builtins } q r)
    (hne : AllFinished (rootEvents cfg fs root)) :
    ∃ prog i, programInOrder cfg fs.files root = some prog
      ∧ (rootOrder cfg fs root)[i]? = some q ∧ prog[i]? = some (progFile fs q)
      ∧ r = regUpTo builtins prog i := by
  obtain ⟨pre, post, he, hr⟩ := finishedAt_events cfg fs builtins hfin ([normPath root], []) (SelfOk.root fs root)
    ⟨Visited.root root, by simp⟩
  have he' : rootEvents cfg fs root = pre ++ LoadEvent.finished q :: post := he
  have hord : rootOrder cfg fs root
      = pre.filterMap LoadEvent.file? ++ q :: post.filterMap LoadEvent.file? := by
    rw [← rootEvents_files, he']
    simp [LoadEvent.file?]
  have hpre : AllFinished pre := by rw [he'] at hne; exact hne.left
  refine ⟨_, (pre.filterMap LoadEvent.file?).length, programInOrder_eq cfg fs root, ?_, ?_, ?_⟩
  · rw [hord]; simp
  · rw [hord]; simp
  · have htake : (rootOrder cfg fs root).take ((pre.filterMap LoadEvent.file?).length + 1)
        = pre.filterMap LoadEvent.file? ++ [q] := by
      rw [hord, List.take_append]
      simp [List.take_of_length_le]
    rw [regUpTo, ← List.map_take, htake, progRegistry_order, hr]
    congr 1
    rw [List.flatMap_append, List.flatMap_append]
    conv => lhs; rw [hpre.eq_map, flatMap_evDefs_map_finished]
    simp [evDefs]

/-! ### completeness of `FinishedAt`: every file of the finish order is finished in a successful run -/

theorem finishFile_registers (cfg : Cfg) (file : APath) (contents : List Content) (res : PResult) (st : PState)
    (r : PResult) (st' : PState) (h : finishFile cfg file contents res st = .ok (r, st')) :
    ∃ reg, registerAll st.reg (walkContents { file := showPath file, keys := cfg.keys, defaultDeriving := cfg.defaultDeriving } []
      contents).regs = .ok reg := by
  unfold finishFile at h
  simp only at h
  split at h
  · cases h
  · rename_i reg hreg; exact ⟨reg, hreg⟩

theorem doLoads_cons_ok (cfg : Cfg) (fs : FS) (rec : ParseFn) (stack : List APath) (file spelled : APath)
    (l : LoadAt) (ls : List LoadAt) (res : PResult) (st : PState) (res' : PResult) (st' : PState)
    (h : doLoads cfg fs rec stack file spelled (l :: ls) res st = .ok (res', st')) :
    ∃ r1 s1, doLoads cfg fs rec stack file spelled [l] res st = .ok (r1, s1)
      ∧ doLoads cfg fs rec stack file spelled ls r1 s1 = .ok (res', st') := by
  have := doLoads_append cfg fs rec stack file spelled [l] ls res st
  rw [List.singleton_append, h] at this
  split at this
  · cases this
  · rename_i r1 s1 h1
    exact ⟨r1, s1, h1, this.symm⟩

theorem doLoads_complete (cfg : Cfg) (fs : FS) (n : Nat) (R0 : Registry)
    (ihn : ∀ stack file spelled st res st' acc, parseOne cfg fs n stack file spelled st = .ok (res, st') →
      SelfOk fs spelled file → Sim fs R0 (stack ++ [file]) st acc →
      ∀ q, LoadEvent.finished q ∈ (loadOrder cfg fs n file spelled acc).2 →
        LoadEvent.finished q ∈ acc.2 ∨ ∃ r, FinishedAt cfg fs n stack file spelled st q r)
    (stack0 : List APath) (file spelled : APath) (st0 : PState) (text : String) (toks : List Token)
    (contents : List Content) (hself : SelfOk fs spelled file) (hfile : fs.get file = some (.idl text))
    (hlex : lex text = some toks) (all : List LoadAt) (hparse : parseFile toks = some ⟨all, contents⟩)
    (rest pre : List LoadAt) (hall : all = pre ++ rest) (res0 : PResult) (s0 : PState) (res1 : PResult) (st1 : PState)
    (a0 : OrderAcc)
    (hpre : doLoads cfg fs (parseOne cfg fs n) (stack0 ++ [file]) file spelled pre {} st0 = .ok (res0, s0))
    (hrest : doLoads cfg fs (parseOne cfg fs n) (stack0 ++ [file]) file spelled rest res0 s0 = .ok (res1, st1))
    (hsim : Sim fs R0 (stack0 ++ [file]) s0 a0) :
    ∀ q, LoadEvent.finished q ∈ (rest.foldl (loadStep cfg fs (loadOrder cfg fs n) spelled) a0).2 →
      LoadEvent.finished q ∈ a0.2 ∨ ∃ r, FinishedAt cfg fs (n + 1) stack0 file spelled st0 q r := by
  induction rest generalizing pre res0 s0 a0 with
  | nil => intro q hq; exact Or.inl hq
  | cons l ls ih =>
    intro q hq
    simp only [List.foldl_cons] at hq
    obtain ⟨r1, s1, h1, h2⟩ := doLoads_cons_ok _ _ _ _ _ _ _ _ _ _ _ _ hrest
    have hpre' : doLoads cfg fs (parseOne cfg fs n) (stack0 ++ [file]) file spelled (pre ++ [l]) {} st0 = .ok (r1, s1) := by
      rw [doLoads_append, hpre]; exact h1
    have hsim1 := doLoads_order cfg fs n R0
      (fun stack file spelled st res st' acc hh hs hm => parseOne_order cfg fs R0 n stack file spelled st res st' acc hh hs hm)
      (stack0 ++ [file]) file spelled text hself hfile (by simp) [l] res0 s0 r1 s1 a0 h1 hsim
    simp only [List.foldl_cons, List.foldl_nil] at hsim1
    rcases ih (pre ++ [l]) (by rw [hall]; simp) r1 s1 _ hpre' h2 hsim1 q hq with hq1 | hq1
    · -- the event is produced by the line `l` itself
      clear hq ih
      unfold loadStep at hq1
      split at hq1
      · exact Or.inl hq1
      · rename_i c p hfind
        split at hq1
        · rename_i himp
          split at hq1
          · exact Or.inl hq1
          · rename_i hv
            have hv' : p ∉ a0.1 := by simpa using hv
            have hst : p ∉ stack0 ++ [file] := fun hm => hv' ((hsim.1 p).mpr (Or.inl hm))
            have hi : p ∉ s0.imported := fun hm => hv' ((hsim.1 p).mpr (Or.inr hm))
            have hs : (c.spelledAbsolute && c.path == spelled) = false := by
              cases hb : (c.spelledAbsolute && c.path == spelled) with
              | false => rfl
              | true =>
                exfalso
                simp only [Bool.and_eq_true, beq_iff_eq] at hb
                obtain ⟨_, _, _, _, hq'⟩ := findFile_first cfg fs spelled _ c p hfind
                rw [hb.2] at hq'
                exact hst (by rw [hself p hq']; simp)
            have hstc : (stack0 ++ [file]).contains p = false := by simpa using hst
            have hic : s0.imported.contains p = false := by simpa using hi
            simp only [doLoads, hfind, hs, himp, hstc, hic, Bool.false_eq_true, if_false, if_true] at h1
            cases hr : parseOne cfg fs n (stack0 ++ [file]) p c.path { s0 with imported := s0.imported ++ [p] } with
            | error a => rw [hr] at h1; cases h1
            | ok v =>
              obtain ⟨r2, s2⟩ := v
              rcases ihn _ _ _ _ _ _ _ hr (SelfOk.found cfg fs spelled _ c p hfind) (Sim.enter p hsim) q hq1 with h3 | ⟨r, h3⟩
              · exact Or.inl h3
              · refine Or.inr ⟨r, ?_⟩
                exact FinishedAt.nested hfile hlex (by rw [hparse, hall]) hpre hfind hs himp hstc hic h3
        · split at hq1
          · simp only [List.mem_append, List.mem_singleton] at hq1
            rcases hq1 with hq1 | hq1
            · exact Or.inl hq1
            · cases hq1
          · exact Or.inl hq1
    · exact Or.inr hq1

/-- **Completeness.** In a successful call every file the search reports as finished during the call is indeed finished
    (`FinishedAt`), against some registry — which `finishedAt_events` / `front_registry_is_regUpTo` then identify. -/
theorem finishedAt_complete (cfg : Cfg) (fs : FS) (R0 : Registry) (fuel : Nat) (stack : List APath) (file spelled : APath)
    (st : PState) (res : PResult) (st' : PState) (acc : OrderAcc)
    (h : parseOne cfg fs fuel stack file spelled st = .ok (res, st'))
    (hself : SelfOk fs spelled file) (hsim : Sim fs R0 (stack ++ [file]) st acc) :
    ∀ q, LoadEvent.finished q ∈ (loadOrder cfg fs fuel file spelled acc).2 →
      LoadEvent.finished q ∈ acc.2 ∨ ∃ r, FinishedAt cfg fs fuel stack file spelled st q r := by
  induction fuel generalizing stack file spelled st res st' acc with
  | zero => simp [parseOne] at h
  | succ n ih =>
    intro q hq
    simp only [parseOne] at h
    split at h
    · rename_i text hfile
      split at h
      · cases h
      · rename_i toks hlex
        split at h
        · cases h
        · rename_i loads contents hparse
          have hpt : parseText text = some { loads := loads, contents := contents } := by
            simp [parseText, hlex, hparse]
          split at h
          · cases h
          · rename_i res1 st1 hd
            simp only [loadOrder, hfile, hpt, List.mem_append, List.mem_singleton] at hq
            rcases hq with hq | hq
            · exact doLoads_complete cfg fs n R0
                (fun stack file spelled st res st' acc hh hs hm => ih stack file spelled st res st' acc hh hs hm)
                stack file spelled st text toks contents hself hfile hlex loads hparse loads [] rfl {} st res1 st1 acc
                (by simp [doLoads]) hd hsim q hq
            · cases hq
              obtain ⟨reg, hreg⟩ := finishFile_registers _ _ _ _ _ _ _ h
              exact Or.inr ⟨reg, FinishedAt.own hfile hlex hparse hd hreg⟩
    · rename_i pos hfile
      simp only [loadOrder, hfile] at hq
      exact Or.inl hq
    · cases h

/-- In a successful run from `root`, every file of the finish order is finished, against `regUpTo` of its number (when
    no `@extern` line loads an external type file). -/
theorem front_finishes_all (cfg : Cfg) (fs : FS) (builtins : Registry) (root : APath) (res : PResult) (st : PState)
    (h : parseOne cfg fs (fs.files.length + 2) [] (normPath root) root { reg := builtins } = .ok (res, st)) :
    ∀ q ∈ rootOrder cfg fs root,
      ∃ r, FinishedAt cfg fs (fs.files.length + 2) [] (normPath root) root { reg := builtins } q r := by
  intro q hq
  rw [← rootEvents_files, List.mem_filterMap] at hq
  obtain ⟨e, he, hfile⟩ := hq
  cases e with
  | extern p => simp [LoadEvent.file?] at hfile
  | finished p =>
    simp only [LoadEvent.file?, Option.some.injEq] at hfile
    subst hfile
    rcases finishedAt_complete cfg fs builtins _ [] _ root _ res st ([normPath root], []) h (SelfOk.root fs root)
      ⟨Visited.root root, by simp⟩ p he with h1 | h1
    · cases h1
    · exact h1

/-! ### every file is finished once: "file number `i`" determines the file and vice versa -/

/-- what a call of the search adds: the new finished files are pairwise distinct, were not visited before (except the
    call's own file), and are visited afterwards -/
def AddsNew (v : List APath) (d : List APath) (file : Option APath) (out : List APath × List APath) : Prop :=
  ∃ new, out.2 = d ++ new ∧ new.Nodup ∧ (∀ q ∈ new, some q = file ∨ q ∉ v) ∧ (∀ q ∈ new, q ∈ out.1) ∧ (∀ q ∈ v, q ∈ out.1)

theorem AddsNew.refl (v d : List APath) (o : Option APath := none) : AddsNew v d o (v, d) :=
  ⟨[], by simp, List.nodup_nil, fun _ h => (by cases h), fun _ h => (by cases h), fun _ h => h⟩

theorem finishStep_addsNew (cfg : Cfg) (fs : FS) (rec : APath → APath → List APath × List APath → List APath × List APath)
    (hrec : ∀ p s v d, p ∈ v → AddsNew v d (some p) (rec p s (v, d))) (spelled : APath) (v d : List APath) (l : LoadAt) :
    AddsNew v d none (finishStep cfg fs rec spelled (v, d) l) := by
  unfold finishStep
  split
  · exact AddsNew.refl v d
  · split
    · rename_i c p hfind
      split
      · exact AddsNew.refl v d
      · rename_i hv
        have hv' : p ∉ v := by simpa using hv
        obtain ⟨new, h1, h2, h3, h4, h5⟩ := hrec p c.path (v ++ [p]) d (by simp)
        refine ⟨new, h1, h2, fun q hq => Or.inr ?_, h4, fun q hq => h5 q (by simp [hq])⟩
        rcases h3 q hq with h | h
        · cases h; exact hv'
        · exact fun hm => h (by simp [hm])
    · exact AddsNew.refl v d

theorem foldl_finishStep_addsNew (cfg : Cfg) (fs : FS) (rec : APath → APath → List APath × List APath → List APath × List APath)
    (hrec : ∀ p s v d, p ∈ v → AddsNew v d (some p) (rec p s (v, d))) (spelled : APath) (loads : List LoadAt) (v d : List APath) :
    AddsNew v d none (loads.foldl (finishStep cfg fs rec spelled) (v, d)) := by
  induction loads generalizing v d with
  | nil => exact AddsNew.refl v d
  | cons l ls ih =>
    simp only [List.foldl_cons]
    obtain ⟨n1, h1, h2, h3, h4, h5⟩ := finishStep_addsNew cfg fs rec hrec spelled v d l
    obtain ⟨n2, k1, k2, k3, k4, k5⟩ := ih (finishStep cfg fs rec spelled (v, d) l).1 (finishStep cfg fs rec spelled (v, d) l).2
    refine ⟨n1 ++ n2, by rw [k1, h1, List.append_assoc], ?_, ?_, ?_, fun q hq => k5 q (h5 q hq)⟩
    · rw [List.nodup_append]
      refine ⟨h2, k2, fun a ha b hb hab => ?_⟩
      subst hab
      rcases k3 a hb with h | h
      · cases h
      · exact h (h4 a ha)
    · intro q hq
      rcases List.mem_append.mp hq with hq | hq
      · exact h3 q hq
      · rcases k3 q hq with h | h
        · cases h
        · exact Or.inr (fun hm => h (h5 q hm))
    · intro q hq
      rcases List.mem_append.mp hq with hq | hq
      · exact k5 q (h4 q hq)
      · exact k4 q hq

theorem finishOrder_addsNew (cfg : Cfg) (fs : FS) (fuel : Nat) (file spelled : APath) (v d : List APath) (hin : file ∈ v) :
    AddsNew v d (some file) (finishOrder cfg fs fuel file spelled (v, d)) := by
  have hrefl : AddsNew v d (some file) (v, d) := AddsNew.refl v d (some file)
  induction fuel generalizing file spelled v d with
  | zero => exact hrefl
  | succ n ih =>
    rw [finishOrder_succ]
    cases hf : fs.get file with
    | none => exact hrefl
    | some fc =>
      cases fc with
      | idl text =>
        simp only []
        cases hp : parseText text with
        | none => exact hrefl
        | some f =>
          simp only []
          obtain ⟨n1, h1, h2, h3, h4, h5⟩ := foldl_finishStep_addsNew cfg fs (finishOrder cfg fs n)
            (fun p s v d hp => ih p s v d hp (AddsNew.refl v d (some p)))
            spelled f.loads v d
          refine ⟨n1 ++ [file], by simp only [h1, List.append_assoc], ?_, ?_, ?_, h5⟩
          · rw [List.nodup_append]
            refine ⟨h2, by simp, fun a ha b hb hab => ?_⟩
            simp only [List.mem_singleton] at hb
            subst hab; subst hb
            rcases h3 a ha with h | h
            · cases h
            · exact h hin
          · intro q hq
            rcases List.mem_append.mp hq with hq | hq
            · rcases h3 q hq with h | h
              · cases h
              · exact Or.inr h
            · simp only [List.mem_singleton] at hq; subst hq; exact Or.inl rfl
          · intro q hq
            rcases List.mem_append.mp hq with hq | hq
            · exact h4 q hq
            · simp only [List.mem_singleton] at hq; subst hq; exact h5 q hin
      | _ => exact hrefl

/-- No file is finished twice: a file's number in the finish order is unique. -/
theorem rootOrder_nodup (cfg : Cfg) (fs : FS) (root : APath) : (rootOrder cfg fs root).Nodup := by
  obtain ⟨new, h1, h2, _⟩ := finishOrder_addsNew cfg fs (fs.files.length + 2) (normPath root) root [normPath root] [] (by simp)
  unfold rootOrder
  rw [h1]; simpa using h2

/-- The number `i` in `front_registry_is_regUpTo` is determined by the file. -/
theorem rootOrder_index_unique (cfg : Cfg) (fs : FS) (root q : APath) (i j : Nat)
    (hi : (rootOrder cfg fs root)[i]? = some q) (hj : (rootOrder cfg fs root)[j]? = some q) : i = j := by
  have hlt : i < (rootOrder cfg fs root).length := by
    rcases Nat.lt_or_ge i (rootOrder cfg fs root).length with h | h
    · exact h
    · rw [List.getElem?_eq_none h] at hi; cases hi
  exact (List.getElem?_inj hlt (rootOrder_nodup cfg fs root)).mp (hi.trans hj.symm)

/-- `NoExternLoads` (no IDL file has an `@extern` line, or there is no valid external type file) discharges the
    "no `@extern` load" hypothesis of `parseOne_finish_order`, `front_final_registry`, `front_registry_is_regUpTo`. -/
theorem rootEvents_allFinished (cfg : Cfg) (fs : FS) (root : APath) (hno : NoExternLoads fs) :
    AllFinished (rootEvents cfg fs root) :=
  loadOrder_allFinished cfg fs hno _ _ _ _ (fun _ h => by cases h)

/-! ### non-vacuity

Compiled evaluation with `#guard` — tests, not proofs (kernel reduction of the path-splitting functions is too slow for
`decide`, as in `Props/C16.lean`). The model has no notion of "order" of its own: the order in which it finished the
files is read off the final registry (every file declares a name of its own), and compared with what `finishOrder`
says. -/

/-- the registered keys of a run (built-ins dropped), or `none` if the run aborted -/
def runKeys (cfg : Cfg) (fs : FS) (root : APath) : Option (List String) :=
  match parseOne cfg fs (fs.files.length + 2) [] (normPath root) root { reg := [] } with
  | .ok (_, st) => some (st.reg.map (·.key))
  | .error _ => none

def orderKeys (cfg : Cfg) (fs : FS) (root : APath) : List String := (rootOrder cfg fs root).flatMap (fileKeys fs)

-- three files: `a` imports `b` and `c`, `b` imports `c`
def exTri : FS := fsOf [("a", "@import \"b\"\n@import \"c\"\nta = enum { k; }"), ("b", "@import \"c\"\ntb = enum { k; }"),
  ("c", "tc = enum { k; }\nnamespace ns { tc2 = enum { k; } }")]
#guard rootOrder cfg0 exTri ["w", "a"] == [["w", "c"], ["w", "b"], ["w", "a"]]
#guard runKeys cfg0 exTri ["w", "a"] == some ["tc", "ns.tc2", "tb", "ta"]
#guard runKeys cfg0 exTri ["w", "a"] == some (orderKeys cfg0 exTri ["w", "a"])

-- a diamond: `a` imports `b` and `c`, both import `d`
def exDiamond : FS := fsOf [("a", "@import \"b\"\n@import \"c\"\nta = enum { k; }"), ("b", "@import \"d\"\ntb = enum { k; }"),
  ("c", "@import \"d\"\ntc = enum { k; }"), ("d", "td = enum { k; }")]
#guard rootOrder cfg0 exDiamond ["w", "a"] == [["w", "d"], ["w", "b"], ["w", "c"], ["w", "a"]]
#guard runKeys cfg0 exDiamond ["w", "a"] == some ["td", "tb", "tc", "ta"]
#guard runKeys cfg0 exDiamond ["w", "a"] == some (orderKeys cfg0 exDiamond ["w", "a"])

-- a cycle with a branch: `a` imports `b` and `c`; `b` imports `c` and `a` (on the stack); `c` imports `b` (on the stack)
def exCycle : FS := fsOf [("a", "@import \"b\"\n@import \"c\"\nta = enum { k; }"), ("b", "@import \"c\"\n@import \"a\"\ntb = enum { k; }"),
  ("c", "@import \"b\"\ntc = enum { k; }")]
#guard rootOrder cfg0 exCycle ["w", "a"] == [["w", "c"], ["w", "b"], ["w", "a"]]
#guard rulesOf (front cfg0 exCycle [] ["w", "a"]) == ["circular-import", "circular-import"]
#guard runKeys cfg0 exCycle ["w", "a"] == some ["tc", "tb", "ta"]
#guard runKeys cfg0 exCycle ["w", "a"] == some (orderKeys cfg0 exCycle ["w", "a"])

-- a self import, a missing file and a root spelled with `..`
def exSelf : FS := fsOf [("a", "@import \"a\"\n@import \"nope\"\n@import \"b\"\nta = enum { k; }"), ("b", "tb = enum { k; }")]
#guard rootOrder cfg0 exSelf ["w", "x", "..", "a"] == [["w", "b"], ["w", "a"]]
#guard runKeys cfg0 exSelf ["w", "a"] == some (orderKeys cfg0 exSelf ["w", "a"])

-- `@extern` lines: the external definitions are registered at the line that loads them, between the imports
def exExtern : FS := { files := [(["w", "a"], .idl "@import \"b\"\n@extern \"e.yaml\"\n@import \"c\"\nta = enum { k; }"),
  (["w", "b"], .idl "tb = enum { k; }"), (["w", "c"], .idl "@extern \"f.yaml\"\ntc = enum { k; }"),
  (["w", "e.yaml"], .ext [{ key := "ext1", prim := .record, arity := 0, pos := default }]),
  (["w", "f.yaml"], .ext [{ key := "ext2", prim := .record, arity := 1, pos := default }])] }
#guard rootEvents cfg0 exExtern ["w", "a"]
  == [.finished ["w", "b"], .extern ["w", "e.yaml"], .extern ["w", "f.yaml"], .finished ["w", "c"], .finished ["w", "a"]]
#guard runKeys cfg0 exExtern ["w", "a"] == some ["tb", "ext1", "ext2", "tc", "ta"]
#guard runKeys cfg0 exExtern ["w", "a"] == some (((rootEvents cfg0 exExtern ["w", "a"]).flatMap (evDefs exExtern)).map (·.key))
#guard rootOrder cfg0 exExtern ["w", "a"] == [["w", "b"], ["w", "c"], ["w", "a"]]

end Pydjinni.Front
