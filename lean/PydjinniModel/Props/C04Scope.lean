import PydjinniModel.Props.C04
/-!
# C04 — "innermost enclosing namespace wins, and the answer is unique", stated with indices

`resolve_eq_lexical` says the resolver is `lexicalLookup`, a `findSome?` over `prefixesLongestFirst`.
This file states the same thing in the words of the property, without the auxiliary list: the enclosing
scopes of a reference written in namespace `ns` are the prefixes `ns.take k` (`k = ns.length` the innermost,
`k = 0` the root), and

* `resolve_some_iff_innermost`   a relative reference is bound to `d` **iff** there is a depth `k` such that the
                                  scope `ns.take k` holds the name as `d` and *no deeper* enclosing scope holds it
* `resolve_depth_unique`         that depth is unique (two witnesses have the same depth, hence the same
                                  declaration): the binding is a function of registry, namespace and spelling
* `resolve_inner_shadows`        a declaration in a deeper enclosing scope hides one further out
* `resolve_only_enclosing`       what a reference is bound to is registered under `ns.take k ++ [name]` for an
                                  enclosing scope – never under a sibling or a deeper namespace
* `prefixes_eq_takes`            `prefixesLongestFirst ns.reverse` is exactly `ns.take (len) … ns.take 0`
-/
namespace Pydjinni.Front

/-- core of the file: `findSome?` over the scopes, longest first, in index form -/
theorem findSome_prefixes_iff (f : List String → Option Def) (d : Def) (nsRev : List String) :
    (prefixesLongestFirst nsRev).findSome? f = some d ↔
      ∃ k, k ≤ nsRev.length ∧ f (nsRev.reverse.take k) = some d ∧
        ∀ j, k < j → j ≤ nsRev.length → f (nsRev.reverse.take j) = none := by
  induction nsRev with
  | nil =>
    simp only [prefixesLongestFirst, List.findSome?_cons, List.findSome?_nil, List.length_nil, List.reverse_nil,
      List.take_nil]
    constructor
    · intro h
      refine ⟨0, Nat.le_refl _, ?_, ?_⟩
      · cases hf : f [] with
        | none => simp [hf] at h
        | some d' => simpa [hf] using h
      · intro j hj hj'; omega
    · rintro ⟨k, _, hk, _⟩
      simp [hk]
  | cons n rest ih =>
    have hfull : ∀ j, j ≤ rest.length → (n :: rest).reverse.take j = rest.reverse.take j := by
      intro j hj
      rw [List.reverse_cons, List.take_append_of_le_length (by simpa using hj)]
    have htop : (n :: rest).reverse.take (rest.length + 1) = (n :: rest).reverse := by
      apply List.take_of_length_le; simp
    simp only [prefixesLongestFirst, List.findSome?_cons, List.length_cons]
    cases hf : f (n :: rest).reverse with
    | some d' =>
      simp only
      constructor
      · intro h
        refine ⟨rest.length + 1, Nat.le_refl _, ?_, ?_⟩
        · rw [htop, hf]; exact h
        · intro j hj hj'; omega
      · rintro ⟨k, hk, hkd, hall⟩
        by_cases hkk : k = rest.length + 1
        · subst hkk; rw [htop, hf] at hkd; exact hkd
        · have := hall (rest.length + 1) (by omega) (Nat.le_refl _)
          rw [htop, hf] at this; cases this
    | none =>
      simp only
      rw [ih]
      constructor
      · rintro ⟨k, hk, hkd, hall⟩
        refine ⟨k, by omega, ?_, ?_⟩
        · rw [hfull k hk]; exact hkd
        · intro j hj hj'
          by_cases hjj : j = rest.length + 1
          · subst hjj; rw [htop]; exact hf
          · rw [hfull j (by omega)]; exact hall j hj (by omega)
      · rintro ⟨k, hk, hkd, hall⟩
        have hk' : k ≤ rest.length := by
          by_cases hkk : k = rest.length + 1
          · subst hkk; rw [htop, hf] at hkd; cases hkd
          · omega
        refine ⟨k, hk', ?_, ?_⟩
        · rw [← hfull k hk']; exact hkd
        · intro j hj hj'
          rw [← hfull j hj']; exact hall j hj (by omega)

/-- **Innermost wins.** A relative reference `name`, written in namespace `ns`, is bound to `d` iff some
    enclosing scope `ns.take k` holds `name` as `d` and no deeper enclosing scope holds that name at all. -/
theorem resolve_some_iff_innermost (r : Registry) (ns : List String) (name : String) (d : Def)
    (h : name.startsWith "." = false) :
    resolve r ns name = some d ↔
      ∃ k, k ≤ ns.length ∧ r.get (regKey (ns.take k) name) = some d ∧
        ∀ j, k < j → j ≤ ns.length → r.get (regKey (ns.take j) name) = none := by
  rw [resolve_eq_lexical]
  unfold lexicalLookup
  simp only [h, Bool.false_eq_true, if_false]
  have := findSome_prefixes_iff (fun p => r.get (regKey p name)) d ns.reverse
  simpa using this

/-- the depth of the binding scope is unique, and so is the declaration -/
theorem resolve_depth_unique (r : Registry) (ns : List String) (name : String) (d d' : Def) (k k' : Nat)
    (hk : r.get (regKey (ns.take k) name) = some d)
    (hall : ∀ j, k < j → j ≤ ns.length → r.get (regKey (ns.take j) name) = none)
    (hk' : r.get (regKey (ns.take k') name) = some d') (hkl : k ≤ ns.length) (hkl' : k' ≤ ns.length)
    (hall' : ∀ j, k' < j → j ≤ ns.length → r.get (regKey (ns.take j) name) = none) :
    k = k' ∧ d = d' := by
  have hkk : k = k' := by
    rcases Nat.lt_trichotomy k k' with hlt | heq | hgt
    · have := hall k' hlt hkl'; rw [hk'] at this; cases this
    · exact heq
    · have := hall' k hgt hkl; rw [hk] at this; cases this
  subst hkk
  rw [hk] at hk'
  exact ⟨rfl, Option.some.inj hk'⟩

/-- **Shadowing.** If the name is registered in the enclosing scope of depth `k` and in one further out
    (`k' < k`), the reference is never bound to the outer one unless both are the same entry. -/
theorem resolve_inner_shadows (r : Registry) (ns : List String) (name : String) (dIn dRes : Def) (k : Nat)
    (h : name.startsWith "." = false) (hk : k ≤ ns.length)
    (hin : r.get (regKey (ns.take k) name) = some dIn)
    (hres : resolve r ns name = some dRes) :
    ∃ k', k ≤ k' ∧ k' ≤ ns.length ∧ r.get (regKey (ns.take k') name) = some dRes := by
  obtain ⟨k', hk', hkd, hall⟩ := (resolve_some_iff_innermost r ns name dRes h).1 hres
  refine ⟨k', ?_, hk', hkd⟩
  rcases Nat.lt_or_ge k' k with hlt | hge
  · have := hall k hlt hk; rw [hin] at this; cases this
  · exact hge

/-- what a reference is bound to is registered under an *enclosing* scope's qualified name -/
theorem resolve_only_enclosing (r : Registry) (ns : List String) (name : String) (d : Def)
    (h : name.startsWith "." = false) (hres : resolve r ns name = some d) :
    ∃ k, k ≤ ns.length ∧ d ∈ r ∧ d.key = regKey (ns.take k) name := by
  obtain ⟨k, hk, hkd, _⟩ := (resolve_some_iff_innermost r ns name d h).1 hres
  exact ⟨k, hk, (get_mem r _ d hkd).1, (get_mem r _ d hkd).2⟩

/-- the list of searched scopes, spelled out -/
theorem prefixes_eq_takes (ns : List String) :
    prefixesLongestFirst ns.reverse = (List.range (ns.length + 1)).reverse.map (fun k => ns.take k) := by
  suffices H : ∀ nsRev : List String,
      prefixesLongestFirst nsRev = (List.range (nsRev.length + 1)).reverse.map (fun k => nsRev.reverse.take k) by
    simpa using H ns.reverse
  intro nsRev
  induction nsRev with
  | nil => simp [prefixesLongestFirst]
  | cons n rest ih =>
    simp only [prefixesLongestFirst, List.length_cons]
    rw [List.range_succ, List.reverse_append, List.reverse_singleton, List.singleton_append, List.map_cons]
    congr 1
    · symm; apply List.take_of_length_le; simp
    · rw [ih]
      apply List.map_congr_left
      intro j hj
      have : j ≤ rest.length := by
        have := List.mem_reverse.1 hj
        have := List.mem_range.1 this
        omega
      rw [List.reverse_cons, List.take_append_of_le_length (by simpa using this)]

/-- non-vacuity: `x` declared at the root and in `a.b`; from `a.b.c` the reference `x` sees `a.b.x` -/
example :
    let r : Registry := [⟨"x", .record, 0⟩, ⟨"a.b.x", .enum, 0⟩]
    (resolve r ["a", "b", "c"] "x").map (·.key) = some "a.b.x" := by decide +kernel

end Pydjinni.Front
