import PydjinniModel.Gen.Yaml
import PydjinniModel.Props.C13Export
/-!
# C13 — exported type YAML re-imports to the same types

The round trip `load spec (export d)` in the model of `generate_type_dict` / `model_validate`:

* `roundtrip_view`      an attribute that is a `@computed_field` with a value (not `None`) of the declaration's marshalling
                        object **and** a field of the generator's external-type model reads the same through the loaded type
                        as through the local declaration;
* `roundtrip_view_none` … also when its value is `None`, provided the model field's default is `None`;
* `roundtrip_header`    the include a dependant emits (`filters.py: headers`) is the same, unless the type is a base record
                        (`base_type` true: Dom clause `noExternBaseRecord`; `base_record_header_counterexample`);
* `roundtrip_base`, `roundtrip_key`  the `BaseExternalType` fields and the registry key survive;
* `export_validates`    if every required model field is a computed field with a value, the exported document validates;
* `not_exported_unreadable`  an attribute that is no field of the external-type model cannot be read through a loaded type
                        (why `usedThroughTypeDef ⊆ loadable` is an obligation, generated from the live templates every run).
* `loadFile_registers`, `export_registered`  `Resolver.load_external` over a whole file: every document is registered under
                        its own qualified name with exactly the validated type, whether or not the loader can locate the
                        `name:` line (`located` — false for names `yaml.dump` quotes: `on`, `No`, `NULL`, …); a file is only
                        refused for an invalid document or an already registered name (`loadFile_ok_of_valid_fresh`).

* `cppNameOk_joined`, `any_accepts`  value constraints of the model fields (`Field(pattern=…)`, Lean `Pat`): the one constrained field of
                        the pinned tree (`jni.translator`) accepts every `::`-joined list of identifiers — letters, digits, underscores —
                        with or without a leading `::`; every other string field accepts every string. That the live models constrain
                        nothing else is the generated obligation `patterns_modelled`.
* `round_history_free`, `runRounds_history_free`, `reexport_registered`  re-export histories (`Disk`, `Round`, `runRounds`): when a library is
                        exported again and again to the same paths and pulled in again in one process, every round registers exactly what
                        it registers alone on an empty disk (`read_after_write`, `loadPaths_congr`) — the loader has no memory.

Which attributes dependants read, which are computed fields for which declaration kind, and which are model fields are
tables regenerated from the live source; the inclusions `usedOk`, `exportedOk`, `requiredOk` over them are checked by
`decide` in `Generated/C13_tables`.
-/
namespace Pydjinni.C13
open Pydjinni.Gen.Yaml

theorem lookup_exportProps (ps : List MProp) (a : String) (p : MProp) (h : findProp a ps = some p)
    (hc : p.computed = true) (hv : p.value.isNull = false) : lookup a (exportProps ps) = some p.value := by
  induction ps with
  | nil => simp [findProp] at h
  | cons q rest ih =>
    unfold findProp at h
    by_cases hq : q.name = a
    · simp only [hq, if_true, Option.some.injEq] at h
      subst h
      simp [exportProps, MProp.exported, hc, hv, lookup, hq]
    · simp only [hq, if_false] at h
      cases he : q.exported
      · simp [exportProps, he, ih h]
      · simp [exportProps, he, lookup, hq, ih h]

theorem lookup_exportProps_absent (r : List MProp) (a : String) (hr : ∀ x ∈ r, x.name ≠ a) : lookup a (exportProps r) = none := by
  induction r with
  | nil => rfl
  | cons x r ih =>
    have hx := hr x (by simp)
    have := ih (fun y hy => hr y (by simp [hy]))
    cases he : x.exported
    · simp [exportProps, he, this]
    · simp [exportProps, he, lookup, hx, this]

/-- a property that is not exported under its name, when names are unique -/
theorem lookup_exportProps_none (ps : List MProp) (a : String) (p : MProp) (h : findProp a ps = some p)
    (hnd : (ps.map (·.name)).Nodup) (hn : p.exported = false) : lookup a (exportProps ps) = none := by
  induction ps with
  | nil => simp [findProp] at h
  | cons q rest ih =>
    simp only [List.map_cons, List.nodup_cons] at hnd
    unfold findProp at h
    by_cases hq : q.name = a
    · simp only [hq, if_true, Option.some.injEq] at h
      subst h
      have hne : ∀ x ∈ rest, x.name ≠ a := by
        intro x hx hxa
        exact hnd.1 (by rw [hq]; exact List.mem_map.mpr ⟨x, hx, hxa⟩)
      simp [exportProps, hn, lookup_exportProps_absent rest a hne]
    · simp only [hq, if_false] at h
      cases he : q.exported
      · simp [exportProps, he, ih h hnd.2]
      · simp [exportProps, he, lookup, hq, ih h hnd.2]

theorem lookup_export_gens (marsh : List (String × List MProp)) (g : String) (ps : List MProp) (h : lookup g marsh = some ps) :
    lookup g (marsh.map (fun (g, ps) => (g, exportProps ps))) = some (exportProps ps) := by
  induction marsh with
  | nil => simp [lookup] at h
  | cons x rest ih =>
    obtain ⟨g', ps'⟩ := x
    unfold lookup at h
    by_cases hg : g' = g
    · simp only [hg, if_true, Option.some.injEq] at h
      subst h
      simp [lookup, hg]
    · simp only [hg, if_false] at h
      simp [lookup, hg, ih h]

theorem lookup_export_gens_none (marsh : List (String × List MProp)) (g : String) (h : lookup g marsh = none) :
    lookup g (marsh.map (fun (g, ps) => (g, exportProps ps))) = none := by
  induction marsh with
  | nil => rfl
  | cons y ys ih =>
    obtain ⟨g', ps'⟩ := y
    unfold lookup at h
    by_cases hg : g' = g
    · simp [hg] at h
    · simp only [hg, if_false] at h
      simp [lookup, hg, ih h]

def findField (a : String) : List FieldSpec → Option FieldSpec
  | [] => none
  | f :: rest => if f.name = a then some f else findField a rest

theorem lookup_map_fields (fs : List FieldSpec) (kv : List (String × Val)) (a : String) (f : FieldSpec) (hf : findField a fs = some f) :
    lookup a (fs.map (fun f => (f.name, (lookup f.name kv).getD f.default))) = some ((lookup a kv).getD f.default) := by
  induction fs with
  | nil => simp [findField] at hf
  | cons x rest ih =>
    unfold findField at hf
    by_cases hx : x.name = a
    · simp only [hx, if_true, Option.some.injEq] at hf
      subst hf
      simp [lookup, hx]
    · simp only [hx, if_false] at hf
      simp [lookup, hx, ih hf]

theorem lookup_map_fields_none (fs : List FieldSpec) (kv : List (String × Val)) (a : String) (h4 : ∀ f ∈ fs, f.name ≠ a) :
    lookup a (fs.map (fun f => (f.name, (lookup f.name kv).getD f.default))) = none := by
  induction fs with
  | nil => rfl
  | cons x rest ih =>
    have hx := h4 x (by simp)
    simp [lookup, hx, ih (fun f hf => h4 f (by simp [hf]))]

theorem lookup_loadFields (fs : List FieldSpec) (kv vals : List (String × Val)) (h : loadFields fs kv = some vals)
    (a : String) (f : FieldSpec) (hf : findField a fs = some f) : lookup a vals = some ((lookup a kv).getD f.default) := by
  unfold loadFields at h
  split at h
  · simp only [Option.some.injEq] at h
    subst h
    exact lookup_map_fields fs kv a f hf
  · cases h

theorem loadGens_lookup (doc : Doc) (spec : ExtSpec) (gs : List (String × Option (List (String × Val))))
    (h : loadGens doc spec = some gs) (g : String) (fs : List FieldSpec) (hs : lookup g spec = some fs)
    (kv : List (String × Val)) (hd : lookup g doc.gens = some kv) :
    ∃ vals, loadFields fs kv = some vals ∧ lookup g gs = some (some vals) := by
  induction spec generalizing gs with
  | nil => simp [lookup] at hs
  | cons x rest ih =>
    obtain ⟨g', fs'⟩ := x
    unfold lookup at hs
    unfold loadGens at h
    by_cases hg : g' = g
    · simp only [hg, if_true, Option.some.injEq] at hs
      subst hs hg
      simp only [hd] at h
      cases hlf : loadFields fs' kv with
      | none => simp [hlf] at h
      | some vals =>
        cases hlg : loadGens doc rest with
        | none => simp [hlf, hlg] at h
        | some r =>
          simp only [hlf, hlg, Option.some.injEq] at h
          subst h
          exact ⟨vals, rfl, by simp [lookup]⟩
    · simp only [hg, if_false] at hs
      cases hdg : lookup g' doc.gens with
      | none =>
        simp only [hdg] at h
        cases hlg : loadGens doc rest with
        | none => simp [hlg] at h
        | some r =>
          simp only [hlg, Option.map_some, Option.some.injEq] at h
          subst h
          obtain ⟨vals, h1, h2⟩ := ih r hlg hs
          exact ⟨vals, h1, by simp [lookup, hg, h2]⟩
      | some kv' =>
        simp only [hdg] at h
        cases hlf : loadFields fs' kv' with
        | none => simp [hlf] at h
        | some vals' =>
          cases hlg : loadGens doc rest with
          | none => simp [hlf, hlg] at h
          | some r =>
            simp only [hlf, hlg, Option.some.injEq] at h
            subst h
            obtain ⟨vals, h1, h2⟩ := ih r hlg hs
            exact ⟨vals, h1, by simp [lookup, hg, h2]⟩

/-- the loaded value of a model field: the exported value if there is one, the field's default otherwise -/
theorem loaded_value (d : LocalDecl) (spec : ExtSpec) (e : ExtType) (hl : load spec («export» d) = some e)
    (g a : String) (ps : List MProp) (fs : List FieldSpec) (f : FieldSpec)
    (h1 : lookup g d.marsh = some ps) (h3 : lookup g spec = some fs) (h4 : findField a fs = some f) :
    ∃ vals, lookup g e.gens = some (some vals) ∧ lookup a vals = some ((lookup a (exportProps ps)).getD f.default) := by
  unfold load at hl
  cases hg : loadGens («export» d) spec with
  | none => simp [hg] at hl
  | some gs =>
    simp only [hg, Option.map_some, Option.some.injEq] at hl
    subst hl
    have hdoc : lookup g («export» d).gens = some (exportProps ps) := lookup_export_gens d.marsh g ps h1
    obtain ⟨vals, hv1, hv2⟩ := loadGens_lookup _ spec gs hg g fs h3 _ hdoc
    exact ⟨vals, hv2, lookup_loadFields fs _ vals hv1 a f h4⟩

/-- **roundtrip_view**: a computed field with a value that is also a field of the external-type model reads the same
    through the loaded type as through the local declaration. -/
theorem roundtrip_view (d : LocalDecl) (spec : ExtSpec) (e : ExtType) (hl : load spec («export» d) = some e)
    (g a : String) (hg : g ≠ "") (ha : a ≠ "<header>") (ps : List MProp) (p : MProp) (fs : List FieldSpec) (f : FieldSpec)
    (h1 : lookup g d.marsh = some ps) (h2 : findProp a ps = some p) (hc : p.computed = true) (hv : p.value.isNull = false)
    (h3 : lookup g spec = some fs) (h4 : findField a fs = some f) :
    view (.ext e) (g, a) = view (.local d) (g, a) := by
  obtain ⟨vals, hv1, hv2⟩ := loaded_value d spec e hl g a ps fs f h1 h3 h4
  simp [view, hg, ha, hv1, hv2, h1, h2, lookup_exportProps ps a p h2 hc hv]

/-- … and when its value is `None` (dropped by `exclude_none`), provided the model field's default is `None` too -/
theorem roundtrip_view_none (d : LocalDecl) (spec : ExtSpec) (e : ExtType) (hl : load spec («export» d) = some e)
    (g a : String) (hg : g ≠ "") (ha : a ≠ "<header>") (ps : List MProp) (p : MProp) (fs : List FieldSpec) (f : FieldSpec)
    (h1 : lookup g d.marsh = some ps) (h2 : findProp a ps = some p) (hnd : (ps.map (·.name)).Nodup) (hv : p.value = .null)
    (h3 : lookup g spec = some fs) (h4 : findField a fs = some f) (hdef : f.default = .null) :
    view (.ext e) (g, a) = view (.local d) (g, a) := by
  obtain ⟨vals, hv1, hv2⟩ := loaded_value d spec e hl g a ps fs f h1 h3 h4
  simp [view, hg, ha, hv1, hv2, h1, h2, lookup_exportProps_none ps a p h2 hnd (by simp [MProp.exported, hv, Val.isNull]), hdef, hv]

/-- **roundtrip_header**: the include a dependant emits is the exported `header`, unless the type is a base record -/
theorem roundtrip_header (d : LocalDecl) (spec : ExtSpec) (e : ExtType) (hl : load spec («export» d) = some e)
    (g : String) (hg : g ≠ "") (ps : List MProp) (p : MProp) (fs : List FieldSpec) (f : FieldSpec)
    (h1 : lookup g d.marsh = some ps) (h2 : findProp "header" ps = some p) (hc : p.computed = true) (hv : p.value.isNull = false)
    (h3 : lookup g spec = some fs) (h4 : findField "header" fs = some f)
    (noExternBaseRecord : ∀ b, findProp "base_type" ps = some b → b.value ≠ .bool true) :
    view (.ext e) (g, "<header>") = view (.local d) (g, "<header>") := by
  obtain ⟨vals, hv1, hv2⟩ := loaded_value d spec e hl g "header" ps fs f h1 h3 h4
  have heff : effHeaderLocal ps = some p.value := by
    unfold effHeaderLocal
    cases hb : findProp "base_type" ps with
    | none => simp [h2]
    | some b =>
      cases hdh : findProp "derived_header" ps with
      | none => simp [h2]
      | some dh => simp [noExternBaseRecord b hb, h2]
  simp [view, hg, hv1, hv2, h1, heff, lookup_exportProps ps "header" p h2 hc hv]

/-- a `+cpp` base record `rb` -/
def rbDecl : LocalDecl :=
  { base := ⟨[("name", .str "rb"), ("namespace", .list []), ("primitive", .str "record")]⟩
    node := []
    marsh := [("cpp", [⟨"typename", .str "::RbBase", true⟩, ⟨"header", .str "rb_base.hpp", true⟩, ⟨"base_type", .bool true, false⟩,
                        ⟨"derived_header", .str "rb.hpp", true⟩])] }
def cppSpec : ExtSpec := [("cpp", [⟨"typename", true, .null, .any⟩, ⟨"header", false, .null, .any⟩, ⟨"by_value", false, .bool false, .any⟩])]

/-- dependants of the local base record include `rb.hpp`, dependants of the loaded type `rb_base.hpp` (row 13) -/
theorem base_record_header_counterexample :
    (load cppSpec («export» rbDecl)).map (fun e => view (.ext e) ("cpp", "<header>")) = some (some (.str "rb_base.hpp")) ∧
    view (.local rbDecl) ("cpp", "<header>") = some (.str "rb.hpp") := by decide

/-- **not_exported_unreadable**: an attribute that is no field of the generator's external-type model cannot be read
    through a loaded type, whatever was exported — e.g. `error_domain.java.name` for the domain of a `throws` clause -/
theorem not_exported_unreadable (spec : ExtSpec) (doc : Doc) (e : ExtType) (hl : load spec doc = some e)
    (g a : String) (hg : g ≠ "") (ha : a ≠ "<header>") (fs : List FieldSpec) (h3 : lookup g spec = some fs)
    (h4 : ∀ f ∈ fs, f.name ≠ a) : view (.ext e) (g, a) = none := by
  unfold load at hl
  cases hgs : loadGens doc spec with
  | none => simp [hgs] at hl
  | some gs =>
    simp only [hgs, Option.map_some, Option.some.injEq] at hl
    subst hl
    simp only [view, hg, ha, if_false]
    cases hd : lookup g doc.gens with
    | none =>
      -- the generator key is absent from the document: the field is `None`
      have : lookup g gs = some none := by
        clear h4
        induction spec generalizing gs with
        | nil => simp [lookup] at h3
        | cons x rest ih =>
          obtain ⟨g', fs'⟩ := x
          unfold lookup at h3
          unfold loadGens at hgs
          by_cases hgg : g' = g
          · subst hgg
            simp only [hd] at hgs
            cases hr : loadGens doc rest with
            | none => simp [hr] at hgs
            | some r => simp only [hr, Option.map_some, Option.some.injEq] at hgs; subst hgs; simp [lookup]
          · simp only [hgg, if_false] at h3
            cases hdg : lookup g' doc.gens with
            | none =>
              simp only [hdg] at hgs
              cases hr : loadGens doc rest with
              | none => simp [hr] at hgs
              | some r =>
                simp only [hr, Option.map_some, Option.some.injEq] at hgs; subst hgs
                simp [lookup, hgg, ih h3 r hr]
            | some kv' =>
              simp only [hdg] at hgs
              cases hlf : loadFields fs' kv' with
              | none => simp [hlf] at hgs
              | some vals' =>
                cases hr : loadGens doc rest with
                | none => simp [hlf, hr] at hgs
                | some r =>
                  simp only [hlf, hr, Option.some.injEq] at hgs; subst hgs
                  simp [lookup, hgg, ih h3 r hr]
      simp [this]
    | some kv =>
      obtain ⟨vals, hv1, hv2⟩ := loadGens_lookup doc spec gs hgs g fs h3 kv hd
      simp only [hv2]
      unfold loadFields at hv1
      split at hv1
      · simp only [Option.some.injEq] at hv1
        subst hv1
        exact lookup_map_fields_none fs kv a h4
      · cases hv1

theorem lookup_filter_some (kvs : List (String × Val)) (a : String) (v : Val) (h : lookup a kvs = some v) (hv : v.isNull = false) :
    lookup a (kvs.filter (fun kv => !kv.2.isNull)) = some v := by
  induction kvs with
  | nil => simp [lookup] at h
  | cons x rest ih =>
    obtain ⟨k, w⟩ := x
    unfold lookup at h
    by_cases hk : k = a
    · simp only [hk, if_true, Option.some.injEq] at h
      subst h
      simp [hv, lookup, hk]
    · simp only [hk, if_false] at h
      cases hw : w.isNull
      · simp [hw, lookup, hk, ih h]
      · simp [hw, ih h]

theorem lookup_append_some (a : String) (l r : List (String × Val)) (v : Val) (h : lookup a l = some v) :
    lookup a (l ++ r) = some v := by
  induction l with
  | nil => simp [lookup] at h
  | cons x rest ih =>
    obtain ⟨k, w⟩ := x
    unfold lookup at h
    by_cases hk : k = a
    · simp only [hk, if_true] at h; simp [lookup, hk, h]
    · simp only [hk, if_false] at h; simp [lookup, hk, ih h]

/-- **roundtrip_base**: a `BaseExternalType` field with a value survives the round trip -/
theorem roundtrip_base (d : LocalDecl) (spec : ExtSpec) (e : ExtType) (hl : load spec («export» d) = some e)
    (a : String) (v : Val) (h : lookup a d.base.fields = some v) (hv : v.isNull = false) :
    view (.ext e) ("", a) = view (.local d) ("", a) := by
  unfold load at hl
  cases hg : loadGens («export» d) spec with
  | none => simp [hg] at hl
  | some gs =>
    simp only [hg, Option.map_some, Option.some.injEq] at hl
    subst hl
    have : lookup a («export» d).base = some v := lookup_filter_some d.base.fields a v h hv
    simp [view, lookup_append_some a _ _ v this, h]

/-- **roundtrip_key**: the loaded type registers under the same qualified name -/
theorem roundtrip_key (d : LocalDecl) (spec : ExtSpec) (e : ExtType) (hl : load spec («export» d) = some e)
    (ns : List String) (n : String) (h1 : lookup "namespace" d.base.fields = some (.list ns)) (h2 : lookup "name" d.base.fields = some (.str n)) :
    registryKey e.base = registryKey d.base.fields := by
  unfold load at hl
  cases hg : loadGens («export» d) spec with
  | none => simp [hg] at hl
  | some gs =>
    simp only [hg, Option.map_some, Option.some.injEq] at hl
    subst hl
    have e1 := lookup_append_some "namespace" _ (baseDefaults.filter (fun kv => (lookup kv.1 («export» d).base).isNone)) _
      (lookup_filter_some d.base.fields "namespace" _ h1 rfl)
    have e2 := lookup_append_some "name" _ (baseDefaults.filter (fun kv => (lookup kv.1 («export» d).base).isNone)) _
      (lookup_filter_some d.base.fields "name" _ h2 rfl)
    simp only [«export»] at e1 e2
    simp [registryKey, «export», e1, e2, h1, h2]

/-- **export_validates**: if for every generator of the model every required field is a computed field with a value, and the exported
    values of the constrained fields match their patterns (`cppNameOk_joined`: every `::`-joined list of identifiers does),
    the exported document passes `model_validate` -/
theorem export_validates (d : LocalDecl) (spec : ExtSpec)
    (h : ∀ g fs, (g, fs) ∈ spec → ∀ ps, lookup g d.marsh = some ps →
      ∀ f ∈ fs, f.required = true → ∃ p, findProp f.name ps = some p ∧ p.computed = true ∧ p.value.isNull = false)
    (hp : ∀ g fs, (g, fs) ∈ spec → ∀ ps, lookup g d.marsh = some ps → patsOk fs (exportProps ps) = true) :
    (load spec («export» d)).isSome = true := by
  unfold load
  suffices hs : (loadGens («export» d) spec).isSome = true by
    cases hg : loadGens («export» d) spec with
    | none => simp [hg] at hs
    | some gs => simp
  induction spec with
  | nil => simp [loadGens]
  | cons x rest ih =>
    obtain ⟨g, fs⟩ := x
    have ihr := ih (fun g' fs' hm => h g' fs' (by simp [hm])) (fun g' fs' hm => hp g' fs' (by simp [hm]))
    unfold loadGens
    cases hd : lookup g («export» d).gens with
    | none =>
      cases hr : loadGens («export» d) rest with
      | none => simp [hr] at ihr
      | some r => simp
    | some kv =>
      -- the document has the key: it came from the declaration's marshalling object
      have hfields : (loadFields fs kv).isSome = true := by
        cases hm : lookup g d.marsh with
        | none =>
          exfalso
          have := lookup_export_gens_none d.marsh g hm
          simp only [«export»] at hd
          rw [this] at hd; cases hd
        | some ps =>
          have hkv : kv = exportProps ps := by
            have := lookup_export_gens d.marsh g ps hm
            simp only [«export»] at hd
            rw [this] at hd; exact (Option.some.inj hd).symm
          subst hkv
          unfold loadFields
          have hall : (fs.all fun f => !f.required || (lookup f.name (exportProps ps)).isSome) = true := by
            rw [List.all_eq_true]
            intro f hf
            cases hreq : f.required with
            | false => simp
            | true =>
              obtain ⟨p, hp1, hp2, hp3⟩ := h g fs (by simp) ps hm f hf hreq
              simp [lookup_exportProps ps f.name p hp1 hp2 hp3]
          simp [hall, hp g fs (by simp) ps hm]
      cases hlf : loadFields fs kv with
      | none => simp [hlf] at hfields
      | some vals =>
        cases hr : loadGens («export» d) rest with
        | none => simp [hr] at ihr
        | some r => simp [hlf]

/-! ## whole files: every exported declaration is registered, whatever its name -/

theorem hasKey_append (k : List String × String) (a b : List Entry) : hasKey k (a ++ b) = (hasKey k a || hasKey k b) := by
  induction a with
  | nil => simp [hasKey]
  | cons x rest ih => simp [hasKey, ih, Bool.or_assoc]

theorem hasKey_iff (k : List String × String) (reg : List Entry) : hasKey k reg = true ↔ ∃ en ∈ reg, en.key = k := by
  induction reg with
  | nil => simp [hasKey]
  | cons x rest ih => simp [hasKey, ih]

/-- the registry only grows, and every document of the file ends up in it under its own qualified name with exactly the
    validated type — no condition on `located` (on whether the loader could find the `name:` line) -/
theorem loadFile_registers (spec : ExtSpec) (docs : List Doc) (reg reg' : List Entry) (h : loadFile spec docs reg = .ok reg') :
    (∀ en ∈ reg, en ∈ reg') ∧
    ∀ d ∈ docs, ∃ e k, load spec d = some e ∧ registryKey e.base = some k ∧ ∃ en ∈ reg', en.key = k ∧ en.ext = e := by
  induction docs generalizing reg with
  | nil =>
    simp only [loadFile, FileResult.ok.injEq] at h
    subst h
    exact ⟨fun _ h => h, fun _ hd => by cases hd⟩
  | cons d ds ih =>
    unfold loadFile at h
    cases hl : load spec d with
    | none => simp [hl] at h
    | some e =>
      simp only [hl] at h
      cases hk : registryKey e.base with
      | none => simp [hk] at h
      | some k =>
        simp only [hk] at h
        by_cases hdup : hasKey k reg = true
        · simp [hdup] at h
        · have hdup' : hasKey k reg = false := by cases hq : hasKey k reg <;> simp_all
          simp only [hdup', Bool.false_eq_true, if_false] at h
          obtain ⟨hmono, hall⟩ := ih _ h
          refine ⟨fun en hen => hmono en (by simp [hen]), ?_⟩
          intro d' hd'
          rcases List.mem_cons.mp hd' with rfl | hd'
          · exact ⟨e, k, hl, hk, ⟨{ key := k, ext := e, located := plainScalar k.2 }, hmono _ (by simp), rfl, rfl⟩⟩
          · exact hall d' hd'

/-- a file is refused only for an invalid document or a qualified name that is already registered — never for its spelling -/
theorem loadFile_ok_of_valid_fresh (spec : ExtSpec) (d : Doc) (reg : List Entry) (e : ExtType) (k : List String × String)
    (hl : load spec d = some e) (hk : registryKey e.base = some k) (hf : hasKey k reg = false) :
    loadFile spec [d] reg = .ok (reg ++ [{ key := k, ext := e, located := plainScalar k.2 }]) := by
  simp [loadFile, hl, hk, hf]

/-- **export_registered**: when the file written for the declarations `ds` loads, every declaration is found under its own
    qualified name (`roundtrip_key`), also one whose name PyYAML has to quote -/
theorem export_registered (spec : ExtSpec) (ds : List LocalDecl) (reg : List Entry)
    (h : loadFile spec (ds.map «export») [] = .ok reg)
    (d : LocalDecl) (hd : d ∈ ds) (ns : List String) (n : String)
    (h1 : lookup "namespace" d.base.fields = some (.list ns)) (h2 : lookup "name" d.base.fields = some (.str n)) :
    ∃ en ∈ reg, en.key = (ns, n) := by
  obtain ⟨_, hall⟩ := loadFile_registers spec _ [] reg h
  obtain ⟨e, k, hl, hk, en, hen, hkey, _⟩ := hall («export» d) (List.mem_map.mpr ⟨d, hd, rfl⟩)
  have := roundtrip_key d spec e hl ns n h1 h2
  rw [hk] at this
  have hk' : k = (ns, n) := by
    simp [registryKey, h1, h2] at this
    exact this
  exact ⟨en, hen, hkey.trans hk'⟩

/-- the quoted names are registered like the others (non-vacuity: `on` is not located, `level` is) -/
def tinySpec : ExtSpec := [("cpp", [⟨"typename", true, .null, .any⟩])]
def tinyDoc (n : String) : Doc := { base := [("name", .str n), ("namespace", .list ["power"])], gens := [("cpp", [("typename", .str "T")])] }
example : (match loadFile tinySpec [tinyDoc "on", tinyDoc "level"] [] with
    | .ok reg => reg.map (fun en => (en.key, en.located))
    | _ => []) = [((["power"], "on"), false), ((["power"], "level"), true)] := by decide +kernel
example : loadFile tinySpec [tinyDoc "on", tinyDoc "on"] [] = .duplicate (["power"], "on") := by decide +kernel

/-! ## the value constraint of the pinned tree accepts the whole alphabet of identifiers -/

/-- an identifier of C++ (and of the IDL): a letter followed by letters, digits, underscores -/
def identL : List Char → Bool
  | [] => false
  | c :: cs => isAlphaC c && cs.all isWordC

def joinColons : List (List Char) → List Char
  | [] => []
  | [p] => p
  | p :: q :: rest => p ++ ':' :: ':' :: joinColons (q :: rest)

theorem nameRun_words (ws r : List Char) (h : ws.all isWordC = true) : nameRun .ident (ws ++ r) = nameRun .ident r := by
  induction ws with
  | nil => rfl
  | cons c cs ih =>
    simp only [List.all_cons, Bool.and_eq_true] at h
    simp only [List.cons_append, nameRun, nameStep, h.1, if_true]
    exact ih h.2

theorem nameRun_ident (p r : List Char) (h : identL p = true) : nameRun .start (p ++ r) = nameRun .ident r := by
  cases p with
  | nil => simp [identL] at h
  | cons c cs =>
    simp only [identL, Bool.and_eq_true] at h
    simp only [List.cons_append, nameRun, nameStep, h.1, if_true]
    exact nameRun_words cs r h.2

theorem colon_not_word : isWordC ':' = false := by decide

theorem nameRun_joined (ps : List (List Char)) (hne : ps ≠ []) (h : ∀ p ∈ ps, identL p = true) :
    nameRun .start (joinColons ps) = some .ident := by
  induction ps with
  | nil => exact absurd rfl hne
  | cons p rest ih =>
    cases rest with
    | nil =>
      have := nameRun_ident p [] (h p (by simp))
      simpa [joinColons, nameRun] using this
    | cons q qs =>
      have hq := ih (by simp) (fun x hx => h x (by simp [hx]))
      simp only [joinColons]
      rw [nameRun_ident p _ (h p (by simp))]
      simp only [nameRun, nameStep, colon_not_word, Bool.false_eq_true, if_false, if_true]
      exact hq

/-- the joined text does not start with a colon, so nothing is taken for the optional leading `::` -/
theorem dropLead_joined (ps : List (List Char)) (hne : ps ≠ []) (h : ∀ p ∈ ps, identL p = true) :
    dropLead (joinColons ps) = joinColons ps := by
  cases ps with
  | nil => exact absurd rfl hne
  | cons p rest =>
    have hp := h p (by simp)
    cases p with
    | nil => simp [identL] at hp
    | cons c cs =>
      simp only [identL, Bool.and_eq_true] at hp
      have hc : c ≠ ':' := by
        intro e; subst e
        have : isAlphaC ':' = false := by decide
        rw [this] at hp; exact absurd hp.1 (by simp)
      cases rest with
      | nil => simp only [joinColons]; unfold dropLead; split <;> simp_all
      | cons q qs => simp only [joinColons, List.cons_append]; unfold dropLead; split <;> simp_all

/-- **cppNameOk_joined**: the pattern of `jni.translator` accepts every `::`-joined non-empty list of identifiers — letters, digits and
    underscores in any mixture behind a leading letter — with or without the leading `::`. (What the exporter writes: the configured JNI
    namespace, the converted namespace of the declaration, the class name.) -/
theorem cppNameOk_joined (ps : List (List Char)) (hne : ps ≠ []) (h : ∀ p ∈ ps, identL p = true) :
    cppNameOk (joinColons ps) = true ∧ cppNameOk (':' :: ':' :: joinColons ps) = true := by
  constructor
  · simp [cppNameOk, dropLead_joined ps hne h, nameRun_joined ps hne h]
  · simp [cppNameOk, dropLead, nameRun_joined ps hne h]

/-- a field without a pattern takes every value: descriptors, type names and header paths with `_`, `$`, `-`, `.`, digits -/
theorem any_accepts (v : Val) : Pat.any.accepts v = true := rfl

example : cppNameOk "::geo_lib::jni_2::geo_data::j_geo_point".toList = true ∧ cppNameOk "Geo_Lib::Jni_2::Z9".toList = true
    ∧ cppNameOk "a::2b".toList = false ∧ cppNameOk "a:b".toList = false ∧ cppNameOk "a::".toList = false ∧ cppNameOk "".toList = false
    ∧ cppNameOk "::".toList = false ∧ cppNameOk "a$b".toList = false ∧ cppNameOk "_a".toList = false ∧ cppNameOk ":::a".toList = false := by decide +kernel
example : Pat.any.accepts (.str "Lorg/x_y/z2_/geo_data/Outer$Inner;") = true := rfl

/-! ## re-export histories: what a round registers does not depend on what the paths held before -/

theorem lookup_append_left (a : String) (l r : List (String × List Doc)) (v : List Doc) (h : lookup a l = some v) :
    lookup a (l ++ r) = some v := by
  induction l with
  | nil => simp [lookup] at h
  | cons x rest ih =>
    obtain ⟨k, w⟩ := x
    by_cases hk : k = a
    · subst hk
      simp only [lookup, if_true, List.cons_append] at h ⊢
      exact h
    · simp only [lookup, hk, if_false, List.cons_append] at h ⊢
      exact ih h

/-- a file reads as it was written last -/
theorem read_after_write (disk : Disk) (files : List (String × List Doc)) (p : String) (docs : List Doc)
    (h : lookup p files = some docs) : (disk.write files).read p = some docs :=
  lookup_append_left p files disk docs h

/-- loading depends on the contents of the named files only -/
theorem loadPaths_congr (spec : ExtSpec) (d₁ d₂ : Disk) (ps : List String) (reg : List Entry)
    (h : ∀ p ∈ ps, d₁.read p = d₂.read p) : loadPaths spec d₁ ps reg = loadPaths spec d₂ ps reg := by
  induction ps generalizing reg with
  | nil => rfl
  | cons p rest ih =>
    unfold loadPaths
    rw [h p (by simp)]
    cases d₂.read p with
    | none => rfl
    | some docs =>
      dsimp only
      cases loadFile spec docs reg with
      | ok reg' => exact ih reg' (fun q hq => h q (by simp [hq]))
      | invalid => rfl
      | duplicate k => rfl

/-- **round_history_free**: a round that pulls in only files it has exported itself registers what it would register on an empty disk,
    whatever the paths held before -/
theorem round_history_free (spec : ExtSpec) (disk : Disk) (r : Round) (hc : r.closed = true) :
    loadPaths spec (disk.write r.written) r.externs [] = r.alone spec := by
  unfold Round.alone
  apply loadPaths_congr
  intro p hp
  simp only [Round.closed, List.all_eq_true] at hc
  have := hc p hp
  cases hl : lookup p r.written with
  | none => simp [hl] at this
  | some docs =>
    rw [read_after_write disk r.written p docs hl]
    simp [Disk.read, hl]

/-- **runRounds_history_free**: in a history of closed rounds — re-exports to the same paths under other naming configurations, with
    edited declarations, in any order, after any earlier state of the directory — every round registers exactly what it registers alone -/
theorem runRounds_history_free (spec : ExtSpec) (disk : Disk) (rs : List Round) (hc : ∀ r ∈ rs, r.closed = true) :
    runRounds spec disk rs = rs.map (Round.alone spec) := by
  induction rs generalizing disk with
  | nil => rfl
  | cons r rest ih =>
    simp only [runRounds, List.map_cons]
    rw [round_history_free spec disk r (hc r (by simp)), ih _ (fun x hx => hc x (by simp [hx]))]

/-- a re-export registers the re-exported declarations: the second round of a history over one `out_file` path registers every
    declaration of the second export under its qualified name (and nothing the path held before decides it) -/
theorem reexport_registered (spec : ExtSpec) (disk : Disk) (path : String) (ds : List LocalDecl) (reg : List Entry)
    (h : Round.alone spec { written := [(path, ds.map «export»)], externs := [path] } = some (.ok reg))
    (d : LocalDecl) (hd : d ∈ ds) (ns : List String) (n : String)
    (h1 : lookup "namespace" d.base.fields = some (.list ns)) (h2 : lookup "name" d.base.fields = some (.str n)) :
    loadPaths spec (disk.write [(path, ds.map «export»)]) [path] [] = some (.ok reg) ∧ ∃ en ∈ reg, en.key = (ns, n) := by
  have hfree := round_history_free spec disk { written := [(path, ds.map «export»)], externs := [path] } (by simp [Round.closed, lookup])
  refine ⟨by rw [← h]; exact hfree, ?_⟩
  have hf : loadFile spec (ds.map «export») [] = .ok reg := by
    simp only [Round.alone, loadPaths, Disk.read, lookup, if_true] at h
    cases hl : loadFile spec (ds.map «export») [] with
    | ok reg' => simp only [hl, loadPaths, Option.some.injEq, FileResult.ok.injEq] at h; rw [h]
    | invalid => simp [hl] at h
    | duplicate k => simp [hl] at h
  exact export_registered spec ds reg hf d hd ns n h1 h2

/-- non-vacuity: two rounds over one path; the second round sees the second export -/
example : (runRounds tinySpec [] [{ written := [("lib/all.yaml", [tinyDoc "point"])], externs := ["lib/all.yaml"] },
                                  { written := [("lib/all.yaml", [tinyDoc "level"])], externs := ["lib/all.yaml"] }]).map
      (fun r => match r with | some (.ok reg) => reg.map (·.key) | _ => []) = [[(["power"], "point")], [(["power"], "level")]] := by decide +kernel


/-! ## the workspace of the dependent program: decoys further down the search order never win -/

theorem locate_first_file {α : Type} (pre post : List (Slot α)) (a : α) (h : ∀ s ∈ pre, s.isFile = false) :
    locate (pre ++ .file a :: post) = some a := by
  induction pre with
  | nil => rfl
  | cons s rest ih =>
    have hs : s.isFile = false := h s (by simp)
    have hr := ih (fun x hx => h x (by simp [hx]))
    cases s with
    | file b => simp [Slot.isFile] at hs
    | absent => simpa [locate] using hr
    | dir => simpa [locate] using hr

/-- what stands *behind* the first regular file in the search order is irrelevant -/
theorem locate_decoys_irrelevant {α : Type} (pre post post' : List (Slot α)) (a : α) (h : ∀ s ∈ pre, s.isFile = false) :
    locate (pre ++ .file a :: post) = locate (pre ++ .file a :: post') := by
  rw [locate_first_file pre post a h, locate_first_file pre post' a h]

/-- **search order**: a file reachable by the literal as given wins over everything; the file next to the IDL file wins over
    every include directory; an include directory wins over the later ones (directories of that name are skipped) -/
theorem asGiven_first {α : Type} (a : α) (own : Slot α) (incs : List (Slot α)) :
    locate (searchOrder (.file a) own incs) = some a := rfl

theorem nextToIdl_before_includeDirs {α : Type} (given : Slot α) (hg : given.isFile = false) (a : α) (incs : List (Slot α)) :
    locate (searchOrder given (.file a) incs) = some a :=
  locate_first_file [given] incs a (by simpa using hg)

theorem includeDirs_in_order {α : Type} (given own : Slot α) (hg : given.isFile = false) (ho : own.isFile = false)
    (pre post : List (Slot α)) (hp : ∀ s ∈ pre, s.isFile = false) (a : α) :
    locate (searchOrder given own (pre ++ .file a :: post)) = some a := by
  have := locate_first_file (given :: own :: pre) post a (by
    intro s hs
    rcases List.mem_cons.mp hs with rfl | hs
    · exact hg
    rcases List.mem_cons.mp hs with rfl | hs
    · exact ho
    · exact hp s hs)
  simpa [searchOrder] using this

/-- **extern_loads_export**: when the first regular file in the search order is the file the yaml target wrote for `ds`, the
    dependent program starts from the registry of that export — whatever other exports of the same names (other kinds, other
    naming configuration) stand further down — and (`export_registered`) finds every declaration under its qualified name. -/
theorem extern_loads_export (spec : ExtSpec) (ds : List LocalDecl) (pre post : List (Slot (List Doc)))
    (h : ∀ s ∈ pre, s.isFile = false) :
    externRegistry spec (pre ++ .file (ds.map «export») :: post) = some (loadFile spec (ds.map «export») []) := by
  simp [externRegistry, locate_first_file pre post _ h]

theorem extern_export_registered (spec : ExtSpec) (ds : List LocalDecl) (pre post : List (Slot (List Doc)))
    (h : ∀ s ∈ pre, s.isFile = false) (reg : List Entry)
    (hr : externRegistry spec (pre ++ .file (ds.map «export») :: post) = some (.ok reg))
    (d : LocalDecl) (hd : d ∈ ds) (ns : List String) (n : String)
    (h1 : lookup "namespace" d.base.fields = some (.list ns)) (h2 : lookup "name" d.base.fields = some (.str n)) :
    ∃ en ∈ reg, en.key = (ns, n) := by
  rw [extern_loads_export spec ds pre post h] at hr
  exact export_registered spec ds reg (Option.some.inj hr) d hd ns n h1 h2

/-- non-vacuity: a decoy in an include directory, a directory of that name in the working directory -/
example : locate (searchOrder (.dir : Slot String) (.file "app/ext/t.yaml") [.file "vendor/ext/t.yaml"]) = some "app/ext/t.yaml" := by decide
example : locate (searchOrder (.absent : Slot String) .absent [.absent, .dir, .file "inc3/t.yaml", .file "inc4/t.yaml"]) = some "inc3/t.yaml" := by decide
example : locate (searchOrder (.absent : Slot String) .dir [.absent]) = none := by decide

end Pydjinni.C13
