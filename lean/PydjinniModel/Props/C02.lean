import PydjinniModel.Gen.Fidelity
import PydjinniModel.Gen.IdentSpec
/-!
# C02 — generated API declares exactly what the IDL declares; type mapping is compositional

Theorems about the generator-layer models (`Gen/Ident`, `Gen/Cpp`, `Gen/Java`, `Gen/Objc`, `Gen/CppCli`) against the
specification side (`Gen/IdentSpec`, `Gen/Ref`, `Gen/Fidelity`).  All quantify over every identifier / type
expression of any nesting depth / declaration with any number of members.

Identifier conversion
* `convert_preserves_letters`  conversion only changes case and separators
* `convert_style`, `convert_spec`  the result has the shape of the style (hypothesis: no leading underscore — needed for
  camelCase only; every identifier of the IDL grammar starts with a letter)

Type mapping, per target (`…_typeSpec_homomorphic`: the written type of `g<a₁..aₙ>?` is built from the written types of
the `aᵢ` by the target's combinators; `…_eq_ref`: it is the reference mapping `printT (ref… t)` at every nesting depth)
* C++      `cpp_typeSpec_homomorphic`, `cppCore_eq_ref`, `cppSpec_eq_ref` (field / parameter / result position),
           `cpp_optional_interface`, `cpp_optional_function`, `cpp_not_null_wraps`, `cpp_param_constref_iff`
* Java     `java_typeSpec_homomorphic`, `java_optional_is_boxed`, `java_async_boxed`, `javaDataType_eq_ref_partial`
           (no annotation configured; see the theorem's comment for the full statement)
* C++/CLI  `cli_typeSpec_homomorphic`, `cli_nullable_iff`, `cliTypename_eq_ref`
* ObjC     `objc_typeSpec_homomorphic`, `objc_interface_parameter`, `objcTypeDecl_eq_ref`
The hypotheses `builtinsAll …OK` are the generated table obligations (checked by `decide` on the live tables every run).

Declaration skeletons (`api_fidelity`: for every declaration the model's skeleton satisfies the fidelity specification —
members in IDL order, converted names, reference types, modifier table)
* `cpp_api_fidelity`, `cli_api_fidelity`, `objc_api_fidelity`, `java_api_fidelity_partial`,
  `cpp_api_members_in_order`, `cpp_api_methods_in_order`
-/
namespace Pydjinni.Gen

/-! ## Identifier conversion -/

theorem splitU_ne_nil (s : List Char) : splitU s ≠ [] := by
  induction s with
  | nil => simp [splitU]
  | cons c cs ih =>
    simp only [splitU]
    split
    · simp
    · split <;> simp

theorem splitU_flatten (s : List Char) : (splitU s).flatten = s.filter (fun c => c != '_') := by
  induction s with
  | nil => simp [splitU]
  | cons c cs ih =>
    simp only [splitU]
    by_cases h : c = '_'
    · simp [h, ih]
    · simp only [h, if_false]
      cases hs : splitU cs with
      | nil => exact absurd hs (splitU_ne_nil cs)
      | cons t ts =>
        rw [hs] at ih
        simp at ih
        simp [h, ih]

def uppers : List Char := "ABCDEFGHIJKLMNOPQRSTUVWXYZ".toList
def lowers : List Char := "abcdefghijklmnopqrstuvwxyz".toList

theorem char_range (c : Char) (lo hi : Char) (h1 : lo ≤ c) (h2 : c ≤ hi) : lo.toNat ≤ c.toNat ∧ c.toNat ≤ hi.toNat := by
  have a := Char.le_def.mp h1
  have b := Char.le_def.mp h2
  rw [UInt32.le_iff_toNat_le] at a b
  exact ⟨a, b⟩

theorem upper_mem (c : Char) (h : isUpperC c = true) : c ∈ uppers := by
  simp only [isUpperC, Bool.and_eq_true, decide_eq_true_eq] at h
  obtain ⟨h1', h2'⟩ := char_range c 'A' 'Z' h.1 h.2
  have hc : c = Char.ofNat c.toNat := (Char.ofNat_toNat c).symm
  rw [hc]
  have e1 : 'A'.toNat = 65 := by decide
  have e2 : 'Z'.toNat = 90 := by decide
  rw [e1] at h1'; rw [e2] at h2'
  generalize c.toNat = n at *
  have : n = 65 ∨ n = 66 ∨ n = 67 ∨ n = 68 ∨ n = 69 ∨ n = 70 ∨ n = 71 ∨ n = 72 ∨ n = 73 ∨ n = 74 ∨ n = 75 ∨ n = 76 ∨ n = 77 ∨
      n = 78 ∨ n = 79 ∨ n = 80 ∨ n = 81 ∨ n = 82 ∨ n = 83 ∨ n = 84 ∨ n = 85 ∨ n = 86 ∨ n = 87 ∨ n = 88 ∨ n = 89 ∨ n = 90 := by omega
  rcases this with h|h|h|h|h|h|h|h|h|h|h|h|h|h|h|h|h|h|h|h|h|h|h|h|h|h <;> subst h <;> decide

theorem lower_mem (c : Char) (h : isLowerC c = true) : c ∈ lowers := by
  simp only [isLowerC, Bool.and_eq_true, decide_eq_true_eq] at h
  obtain ⟨h1', h2'⟩ := char_range c 'a' 'z' h.1 h.2
  have hc : c = Char.ofNat c.toNat := (Char.ofNat_toNat c).symm
  rw [hc]
  have e1 : 'a'.toNat = 97 := by decide
  have e2 : 'z'.toNat = 122 := by decide
  rw [e1] at h1'; rw [e2] at h2'
  generalize c.toNat = n at *
  have : n = 97 ∨ n = 98 ∨ n = 99 ∨ n = 100 ∨ n = 101 ∨ n = 102 ∨ n = 103 ∨ n = 104 ∨ n = 105 ∨ n = 106 ∨ n = 107 ∨ n = 108 ∨ n = 109 ∨
      n = 110 ∨ n = 111 ∨ n = 112 ∨ n = 113 ∨ n = 114 ∨ n = 115 ∨ n = 116 ∨ n = 117 ∨ n = 118 ∨ n = 119 ∨ n = 120 ∨ n = 121 ∨ n = 122 := by omega
  rcases this with h|h|h|h|h|h|h|h|h|h|h|h|h|h|h|h|h|h|h|h|h|h|h|h|h|h <;> subst h <;> decide

def CharFacts (c : Char) : Prop :=
  lo (lo c) = lo c ∧ lo (up c) = lo c ∧ isUpperC (lo c) = false ∧ isLowerC (up c) = false ∧
    ((lo c == '_') = (c == '_')) ∧ ((up c == '_') = (c == '_')) ∧ ((lo c == '-') = (c == '-')) ∧ ((up c == '-') = (c == '-'))

instance (c : Char) : Decidable (CharFacts c) := by unfold CharFacts; infer_instance

theorem letters_facts : ∀ c ∈ uppers ++ lowers, CharFacts c := by decide

/-- facts about `lo` / `up`: checked on the 52 letters, trivial elsewhere -/
theorem lo_props (c : Char) : CharFacts c := by
  by_cases hu : isUpperC c = true
  · exact letters_facts c (List.mem_append_left _ (upper_mem c hu))
  · by_cases hl : isLowerC c = true
    · exact letters_facts c (List.mem_append_right _ (lower_mem c hl))
    · simp only [Bool.not_eq_true] at hu hl
      simp [CharFacts, lo, up, hu, hl]

/-! ### letters are preserved -/

theorem letters_append (a b : List Char) : letters (a ++ b) = letters a ++ letters b := by
  simp [letters]

theorem isSep_lo (c : Char) : isSep (lo c) = isSep c := by
  have h := lo_props c
  simp only [isSep, h.2.2.2.2.1, h.2.2.2.2.2.2.1]

theorem isSep_up (c : Char) : isSep (up c) = isSep c := by
  have h := lo_props c
  simp only [isSep, h.2.2.2.2.2.1, h.2.2.2.2.2.2.2]

theorem letters_lowerL (t : List Char) : letters (lowerL t) = letters t := by
  induction t with
  | nil => rfl
  | cons c cs ih =>
    simp only [lowerL, letters, List.map_cons, List.filter_cons, isSep_lo] at *
    split <;> simp [(lo_props c).1, ih]

theorem letters_upperL (t : List Char) : letters (upperL t) = letters t := by
  induction t with
  | nil => rfl
  | cons c cs ih =>
    simp only [upperL, letters, List.map_cons, List.filter_cons, isSep_up] at *
    split <;> simp [(lo_props c).2.1, ih]

theorem letters_capitalizeL (t : List Char) : letters (capitalizeL t) = letters t := by
  cases t with
  | nil => rfl
  | cons c cs =>
    have h := letters_lowerL cs
    simp only [lowerL] at h
    simp only [capitalizeL, letters, List.filter_cons, isSep_up] at *
    split <;> simp [(lo_props c).2.1, h]

theorem letters_convTok (k : Case) (f : Bool) (t : List Char) : letters (convTok k f t) = letters t := by
  cases k <;> cases f <;> simp [convTok, letters_lowerL, letters_upperL, letters_capitalizeL]

theorem letters_link (k : Case) : letters (link k) = [] := by
  cases k <;> decide

theorem letters_joinL (sep : List Char) (hs : letters sep = []) (ts : List (List Char)) :
    letters (joinL sep ts) = (ts.map letters).flatten := by
  induction ts with
  | nil => rfl
  | cons t ts ih =>
    cases ts with
    | nil => simp [joinL]
    | cons u us => simp [joinL, letters_append, hs, ih]

theorem letters_flatten (ts : List (List Char)) : (ts.map letters).flatten = letters ts.flatten := by
  induction ts with
  | nil => rfl
  | cons t ts ih => simp [letters_append, ih]

theorem letters_filter_underscore (s : List Char) : letters (s.filter (fun c => c != '_')) = letters s := by
  simp only [letters, List.filter_filter]
  congr 1
  apply List.filter_congr
  intro a _
  by_cases h : a = '_'
  · subst h; decide
  · simp [h]

theorem map_letters_convTokens (k : Case) (ts : List (List Char)) :
    (convTokens k ts).map letters = ts.map letters := by
  cases ts with
  | nil => rfl
  | cons t ts => simp [convTokens, letters_convTok, Function.comp_def]

/-- `convert` only changes case and separators: the letters and digits of the identifier are preserved, in order -/
theorem convert_preserves_letters (k : Case) (s : List Char) : letters (convertBody k s) = letters s := by
  unfold convertBody
  rw [letters_joinL _ (letters_link k), map_letters_convTokens, letters_flatten]
  unfold tokensOf
  split
  · simp
  · rw [splitU_flatten, letters_filter_underscore]


/-! ### the result has the shape of the style -/

theorem splitU_no_underscore (s : List Char) : ∀ t ∈ splitU s, ∀ c ∈ t, c ≠ '_' := by
  induction s with
  | nil => simp [splitU]
  | cons c cs ih =>
    simp only [splitU]
    by_cases h : c = '_'
    · simp only [h, if_true, List.mem_cons]
      intro t ht
      rcases ht with rfl | ht
      · simp
      · exact ih t ht
    · simp only [h, if_false]
      cases hs : splitU cs with
      | nil => exact absurd hs (splitU_ne_nil cs)
      | cons t ts =>
        rw [hs] at ih
        intro u hu
        simp only [List.mem_cons] at hu
        rcases hu with rfl | hu
        · intro d hd
          simp only [List.mem_cons] at hd
          rcases hd with rfl | hd
          · exact h
          · exact ih t (by simp) d hd
        · exact ih u (by simp [hu])

theorem all_joinL (p : Char → Bool) (sep : List Char) (hs : sep.all p = true) (ts : List (List Char))
    (ht : ∀ t ∈ ts, t.all p = true) : (joinL sep ts).all p = true := by
  induction ts with
  | nil => rfl
  | cons t ts ih =>
    cases ts with
    | nil => simpa [joinL] using ht t (by simp)
    | cons u us =>
      simp only [joinL, List.all_append, Bool.and_eq_true]
      exact ⟨⟨ht t (by simp), hs⟩, ih (fun x hx => ht x (by simp [hx]))⟩

theorem mem_convTokens (k : Case) (ts : List (List Char)) (x : List Char) (hx : x ∈ convTokens k ts) :
    ∃ t ∈ ts, ∃ f, x = convTok k f t := by
  cases ts with
  | nil => simp [convTokens] at hx
  | cons t ts =>
    simp only [convTokens, List.mem_cons, List.mem_map] at hx
    rcases hx with rfl | ⟨u, hu, rfl⟩
    · exact ⟨t, by simp, true, rfl⟩
    · exact ⟨u, by simp [hu], false, rfl⟩

theorem all_map_of (p : Char → Bool) (f : Char → Char) (h : ∀ c, p (f c) = true) (t : List Char) : (t.map f).all p = true := by
  simp [List.all_map, h]

theorem not_upper_lo (c : Char) : (!isUpperC (lo c)) = true := by simp [(lo_props c).2.2.1]
theorem not_lower_up (c : Char) : (!isLowerC (up c)) = true := by simp [(lo_props c).2.2.2.1]

theorem noUnderscore_convTok (k : Case) (f : Bool) (t : List Char) (h : ∀ c ∈ t, c ≠ '_') :
    (convTok k f t).all (fun c => c != '_') = true := by
  have hlo : ∀ c ∈ t, (lo c != '_') = true := fun c hc => by
    have := (lo_props c).2.2.2.2.1
    simp only [bne, this]; simpa using h c hc
  have hup : ∀ c ∈ t, (up c != '_') = true := fun c hc => by
    have := (lo_props c).2.2.2.2.2.1
    simp only [bne, this]; simpa using h c hc
  have hL : (lowerL t).all (fun c => c != '_') = true := by
    simp only [lowerL, List.all_map, List.all_eq_true]; exact hlo
  have hU : (upperL t).all (fun c => c != '_') = true := by
    simp only [upperL, List.all_map, List.all_eq_true]; exact hup
  have hC : (capitalizeL t).all (fun c => c != '_') = true := by
    cases t with
    | nil => rfl
    | cons c cs =>
      simp only [capitalizeL, List.all_cons, Bool.and_eq_true, List.all_map, List.all_eq_true]
      exact ⟨hup c (by simp), fun d hd => hlo d (by simp [hd])⟩
  have hI : t.all (fun c => c != '_') = true := by
    simp only [List.all_eq_true]; intro c hc; simpa using h c hc
  cases k <;> cases f <;> simp only [convTok] <;> assumption

theorem joinL_nil_sep (ts : List (List Char)) : joinL [] ts = ts.flatten := by
  induction ts with
  | nil => rfl
  | cons t ts ih =>
    cases ts with
    | nil => simp [joinL]
    | cons u us => simp [joinL, ih]

theorem headOk_flatten_capitalize (ts : List (List Char)) :
    headOk (fun c => !isLowerC c) ((ts.map capitalizeL).flatten) = true := by
  induction ts with
  | nil => rfl
  | cons t ts ih =>
    cases t with
    | nil => simpa [capitalizeL] using ih
    | cons c cs => simp [capitalizeL, headOk, (lo_props c).2.2.2.1]

theorem tokens_noUnderscore (k : Case) (s : List Char) (hk : k ≠ .none) : ∀ t ∈ tokensOf k s, ∀ c ∈ t, c ≠ '_' := by
  simp only [tokensOf, hk, if_false]
  exact splitU_no_underscore s

theorem body_noUnderscore (k : Case) (s : List Char) (hk : k ≠ .none) (hl : link k = []) :
    (convertBody k s).all (fun c => c != '_') = true := by
  unfold convertBody
  rw [hl]
  apply all_joinL _ _ rfl
  intro x hx
  obtain ⟨t, ht, f, rfl⟩ := mem_convTokens k _ x hx
  exact noUnderscore_convTok k f t (tokens_noUnderscore k s hk t ht)

/-! ### capital letters exactly at the word starts; separators kept in place -/

/-- the converted characters written directly: `_` dropped, the first character of every word upper-cased (of the first word
    only when `start`), every other character lower-cased -/
def capsGo (start : Bool) : List Char → List Char
  | [] => []
  | c :: cs => if c = '_' then capsGo true cs else (if start then up c else lo c) :: capsGo false cs

theorem tokens_capsGo (start : Bool) (s : List Char) :
    (match splitU s with
     | [] => []
     | t :: ts => (if start then capitalizeL t else lowerL t) ++ (ts.map capitalizeL).flatten) = capsGo start s := by
  induction s generalizing start with
  | nil => cases start <;> simp [splitU, capsGo, capitalizeL, lowerL]
  | cons c cs ih =>
    by_cases h : c = '_'
    · have h1 := ih true
      simp only [splitU, h, if_true, capsGo]
      cases hs : splitU cs with
      | nil => exact absurd hs (splitU_ne_nil cs)
      | cons t ts =>
        rw [hs] at h1
        simp only [if_true] at h1
        have e1 : capitalizeL ([] : List Char) = [] := rfl
        have e2 : lowerL ([] : List Char) = [] := rfl
        cases start <;> simp [e1, e2, h1]
    · have h1 := ih false
      simp only [splitU, h, if_false, capsGo]
      cases hs : splitU cs with
      | nil => exact absurd hs (splitU_ne_nil cs)
      | cons t ts =>
        rw [hs] at h1
        simp only [Bool.false_eq_true, if_false] at h1
        have e1 : capitalizeL (c :: t) = up c :: lowerL t := rfl
        have e2 : lowerL (c :: t) = lo c :: lowerL t := rfl
        cases start <;> simp [e1, e2, h1]

theorem capsAt_capsGo (start : Bool) (s : List Char) : capsAt (wordStarts start s) (capsGo start s) = true := by
  induction s generalizing start with
  | nil => rfl
  | cons c cs ih =>
    by_cases h : c = '_'
    · simp [wordStarts, capsGo, h, ih]
    · cases start <;> simp [wordStarts, capsGo, h, capsAt, ih, (lo_props c).2.2.1, (lo_props c).2.2.2.1]

theorem pascal_body_eq (s : List Char) : convertBody .pascal s = capsGo true s := by
  have h := tokens_capsGo true s
  simp only [convertBody, link, joinL_nil_sep, tokensOf]
  cases hs : splitU s with
  | nil => exact absurd hs (splitU_ne_nil s)
  | cons t ts =>
    have e : convTok .pascal false = capitalizeL := by funext t; rfl
    rw [hs] at h; simpa [convTokens, convTok, e] using h

theorem camel_body_eq (s : List Char) : convertBody .camel s = capsGo false s := by
  have h := tokens_capsGo false s
  simp only [convertBody, link, joinL_nil_sep, tokensOf]
  cases hs : splitU s with
  | nil => exact absurd hs (splitU_ne_nil s)
  | cons t ts =>
    have e : convTok .camel false = capitalizeL := by funext t; rfl
    rw [hs] at h; simpa [convTokens, convTok, e] using h

theorem joinL_cons_cons (sep : List Char) (x : Char) (t : List Char) (ts : List (List Char)) :
    joinL sep ((x :: t) :: ts) = x :: joinL sep (t :: ts) := by
  cases ts <;> simp [joinL]

/-- splitting at `_`, changing every token character by character and joining with one separator is a character-wise map -/
theorem joinL_map_splitU (sep : Char) (g : Char → Char) (s : List Char) :
    joinL [sep] ((splitU s).map (List.map g)) = s.map (fun c => if c = '_' then sep else g c) := by
  induction s with
  | nil => simp [splitU, joinL]
  | cons c cs ih =>
    by_cases h : c = '_'
    · simp only [splitU, h, if_true]
      cases hs : splitU cs with
      | nil => exact absurd hs (splitU_ne_nil cs)
      | cons t ts => rw [hs] at ih; simp only [List.map_cons] at ih; simp [joinL, ih]
    · simp only [splitU, h, if_false]
      cases hs : splitU cs with
      | nil => exact absurd hs (splitU_ne_nil cs)
      | cons t ts => rw [hs] at ih; simp only [List.map_cons] at ih; simp [joinL_cons_cons, ih, h]

theorem foldSep_lo (c : Char) : foldSep (lo c) = foldSep c := by
  simp [foldSep, isSep_lo, (lo_props c).1]

theorem foldSep_up (c : Char) : foldSep (up c) = foldSep c := by
  simp [foldSep, isSep_up, (lo_props c).2.1]

theorem sameSkeleton_map (sep : Char) (hsep : foldSep sep = '_') (g : Char → Char) (hg : ∀ c, foldSep (g c) = foldSep c) (s : List Char) :
    sameSkeleton s (s.map (fun c => if c = '_' then sep else g c)) = true := by
  simp only [sameSkeleton, List.map_map, beq_iff_eq]
  apply List.map_congr_left
  intro c _
  by_cases h : c = '_'
  · subst h; simp [hsep]; decide
  · simp [h, hg]

theorem convTokens_uniform (k : Case) (f : List Char → List Char) (h : ∀ b t, convTok k b t = f t) (ts : List (List Char)) :
    convTokens k ts = ts.map f := by
  cases ts <;> simp [convTokens, h]

theorem sep_body_eq (k : Case) (sep : Char) (g : Char → Char) (hk : k ≠ .none) (hl : link k = [sep]) (h : ∀ b t, convTok k b t = t.map g)
    (s : List Char) : convertBody k s = s.map (fun c => if c = '_' then sep else g c) := by
  simp only [convertBody, tokensOf, hk, if_false, hl, convTokens_uniform k (List.map g) h]
  exact joinL_map_splitU sep g s

/-- **convert_style** — for every identifier that does not start with an underscore (every identifier of the IDL
    grammar starts with a letter) the converted name has the shape of the configured style: for camelCase / PascalCase capital
    letters exactly at the starts of the `_`-separated words, for the separator styles every separator kept in place.
    The hypothesis is needed for `camelCase` only: `convert camel "_ab" = "Ab"` (probed on the real code by the check). -/
theorem convert_style (k : Case) (s : List Char) (h : s.head? ≠ some '_') : styleShape k s (convertBody k s) = true := by
  cases k with
  | none => simp [styleShape, convertBody, tokensOf, convTokens, convTok, joinL]
  | snake =>
    simp only [styleShape, Bool.and_eq_true]
    refine ⟨?_, ?_⟩
    · simp only [convertBody]
      apply all_joinL _ _ (by decide)
      intro x hx
      obtain ⟨t, _, f, rfl⟩ := mem_convTokens _ _ x hx
      cases f <;> simp only [convTok, lowerL, List.all_map, List.all_eq_true] <;> intro c _ <;> exact not_upper_lo c
    · rw [sep_body_eq .snake '_' lo (by decide) rfl (by intro b t; cases b <;> rfl)]
      exact sameSkeleton_map '_' (by decide) lo foldSep_lo s
  | train =>
    simp only [styleShape, Bool.and_eq_true]
    refine ⟨?_, ?_⟩
    · simp only [convertBody]
      apply all_joinL _ _ (by decide)
      intro x hx
      obtain ⟨t, _, f, rfl⟩ := mem_convTokens _ _ x hx
      cases f <;> simp only [convTok, upperL, List.all_map, List.all_eq_true] <;> intro c _ <;> exact not_lower_up c
    · rw [sep_body_eq .train '_' up (by decide) rfl (by intro b t; cases b <;> rfl)]
      exact sameSkeleton_map '_' (by decide) up foldSep_up s
  | kebab =>
    simp only [styleShape, Bool.and_eq_true]
    refine ⟨?_, ?_⟩
    · simp only [convertBody]
      apply all_joinL _ _ (by decide)
      intro x hx
      obtain ⟨t, ht, f, rfl⟩ := mem_convTokens _ _ x hx
      have hu := noUnderscore_convTok .kebab f t (tokens_noUnderscore .kebab s (by decide) t ht)
      simp only [List.all_eq_true] at hu ⊢
      intro c hc
      have h1 := hu c hc
      cases f <;> simp only [convTok, lowerL, List.mem_map] at hc <;> obtain ⟨d, _, rfl⟩ := hc <;>
        simp only [Bool.and_eq_true] <;> exact ⟨not_upper_lo d, h1⟩
    · rw [sep_body_eq .kebab '-' lo (by decide) rfl (by intro b t; cases b <;> rfl)]
      exact sameSkeleton_map '-' (by decide) lo foldSep_lo s
  | pascal =>
    simp only [styleShape, Bool.and_eq_true]
    refine ⟨⟨body_noUnderscore .pascal s (by decide) rfl, ?_⟩, ?_⟩
    · simp only [convertBody, link, joinL_nil_sep]
      have : convTokens .pascal (tokensOf .pascal s) = (tokensOf .pascal s).map capitalizeL := by
        cases tokensOf .pascal s <;> simp [convTokens, convTok]
      rw [this]
      exact headOk_flatten_capitalize _
    · rw [pascal_body_eq]; exact capsAt_capsGo true s
  | camel =>
    simp only [styleShape, Bool.and_eq_true]
    refine ⟨⟨body_noUnderscore .camel s (by decide) rfl, ?_⟩, ?_⟩
    · simp only [convertBody, link, joinL_nil_sep, tokensOf]
      cases s with
      | nil => decide
      | cons c cs =>
        have hc : c ≠ '_' := by simpa using h
        simp only [splitU, hc, if_false]
        cases hs : splitU cs with
        | nil => exact absurd hs (splitU_ne_nil cs)
        | cons t ts =>
          simp [convTokens, convTok, lowerL, headOk, (lo_props c).2.2.1]
    · rw [camel_body_eq]; exact capsAt_capsGo false s

/-- what the shape excludes: a capital letter after a digit (`str.title()` instead of `str.capitalize()`), an inner capital kept,
    a doubled separator collapsed, a trailing separator dropped -/
example : styleShape .pascal "vec3d".toList "Vec3D".toList = false := by decide
example : styleShape .camel "to_base64url".toList "toBase64Url".toList = false := by decide
example : styleShape .pascal "vec3d".toList "Vec3d".toList = true := by decide
example : styleShape .pascal "fooBar".toList "FooBar".toList = false := by decide
example : styleShape .snake "a__b".toList "a_b".toList = false := by decide
example : styleShape .train "e_".toList "E".toList = false := by decide
example : styleShape .kebab "x1_Y2".toList "x1-y2".toList = true := by decide

/-- the excluded point: a leading underscore gives a capitalised first letter under `camelCase` -/
example : styleShape .camel "_ab".toList (convertBody .camel "_ab".toList) = false := by decide

theorem isPrefixOf_append_self (a b : List Char) : a.isPrefixOf (a ++ b) = true := by
  induction a with
  | nil => simp [List.isPrefixOf]
  | cons x xs ih => simp [List.isPrefixOf, ih]

/-- **convert_spec** — the specification of identifier conversion holds for the model, for every style,
    prefix and identifier of the grammar -/
theorem convert_spec (st : Style) (s : List Char) (h : s.head? ≠ some '_') : convertSpec st s (convertL st s) = true := by
  simp only [convertSpec, convertL, isPrefixOf_append_self, List.drop_left, Bool.true_and, Bool.and_eq_true]
  exact ⟨convert_style st.case s h, by simp [convert_preserves_letters]⟩

example : convertSpec { case := .camel, pfx := some "X" } "foo_bar__bAZ_1x".toList (convertL { case := .camel, pfx := some "X" } "foo_bar__bAZ_1x".toList) = true := by decide


/-! ## C++ type mapping -/

theorem cppSpecs_isEmpty (c : CppCfg) (ts : List RType) : (cppSpecs c ts).isEmpty = ts.isEmpty := by
  cases ts <;> simp [cppSpecs]

theorem printTs_isEmpty (es : List TExp) : (printTs es).isEmpty = es.isEmpty := by
  cases es <;> simp [printTs]

theorem printT_wrap1 (w : String) (e : TExp) : printT (wrap1 w e) = w ++ "<" ++ printT e ++ ">" := by
  simp [wrap1, printT, printTs, joinS]

theorem printT_app (h : TExp) (args : List TExp) : printT (.app h args) = applyArgs (printT h) (printTs args) := by
  simp [printT, applyArgs, printTs_isEmpty]

theorem printT_refCppWrap (c : CppCfg) (prim : Prim) (o : Bool) (e : TExp) :
    printT (refCppWrap prim o e) = cppWrap c prim o false (printT e) := by
  cases prim <;> cases o <;> simp [refCppWrap, cppWrap, printT_wrap1] <;> cases c.notNull <;> simp

mutual
theorem cppCore_eq_ref (c : CppCfg) : ∀ (t : RType), t.builtinsAll Builtin.cppOK = true →
    cppSpec c t false false = printT (refCppCore c t)
  | .mk d args o, h => by
    simp only [RType.builtinsAll, Bool.and_eq_true] at h
    rw [cppSpec, refCppCore, printT_refCppWrap c, printT_app, cppSpecs_eq_ref c args h.2, cppTypename_eq_ref c d h.1]
    simp [cppPlace]
theorem cppTypename_eq_ref (c : CppCfg) : ∀ (d : TDef), d.builtinsAll Builtin.cppOK = true →
    cppTypename c d = printT (refCppHead c d)
  | .builtin b, h => by
    simp only [TDef.builtinsAll, Builtin.cppOK, Bool.and_eq_true, beq_iff_eq] at h
    simp [cppTypename, refCppHead, printT, h.1]
  | .user u, _ => by simp [cppTypename, refCppHead, printT]
  | .func u a n params ret, h => by
    simp only [TDef.builtinsAll, Bool.and_eq_true] at h
    simp [cppTypename, refCppHead, printT, cppSpecs_eq_ref c params h.1, cppSpecO_eq_ref c ret h.2]
theorem cppSpecs_eq_ref (c : CppCfg) : ∀ (ts : List RType), builtinsAllL Builtin.cppOK ts = true →
    cppSpecs c ts = printTs (refCppCores c ts)
  | [], _ => by simp [cppSpecs, refCppCores, printTs]
  | t :: ts, h => by
    simp only [builtinsAllL, Bool.and_eq_true] at h
    simp [cppSpecs, refCppCores, printTs, cppCore_eq_ref c t h.1, cppSpecs_eq_ref c ts h.2]
theorem cppSpecO_eq_ref (c : CppCfg) : ∀ (t : Option RType), builtinsAllO Builtin.cppOK t = true →
    cppSpecO c t = printT (refCppCoreO c t)
  | none, _ => by simp [cppSpecO, refCppCoreO, printT]
  | some t, h => by
    simp only [builtinsAllO] at h
    simp [cppSpecO, refCppCoreO, cppCore_eq_ref c t h]
end

theorem refByValue_eq (d : TDef) (h : d.builtinsAll Builtin.cppOK = true) : refByValue d = cppByValue d := by
  cases d with
  | builtin b =>
    simp only [TDef.builtinsAll, Builtin.cppOK, Bool.and_eq_true, beq_iff_eq] at h
    simp [refByValue, cppByValue, h.2, ← h.1]
  | user u => rfl
  | func u a n ps r => rfl

theorem cppSpecs_eq_map (c : CppCfg) (ts : List RType) : cppSpecs c ts = ts.map (fun a => cppSpec c a false false) := by
  induction ts with
  | nil => rfl
  | cons t ts ih => simp [cppSpecs, ih]

/-- **typeSpec_homomorphic (C++)** — the written type of `g<a₁..aₙ>?` is built from the written types of the `aᵢ`
    (always in plain position) by the three combinators, at every nesting depth. -/
theorem cpp_typeSpec_homomorphic (c : CppCfg) (d : TDef) (args : List RType) (o isParam useNotNull : Bool) :
    cppSpec c (.mk d args o) isParam useNotNull =
      cppPlace (cppByValue d) isParam (cppWrap c d.prim o useNotNull
        (applyArgs (cppTypename c d) (args.map (fun a => cppSpec c a false false)))) := by
  rw [cppSpec, cppSpecs_eq_map]

/-- optional ∘ interface = interface pointer: without a configured `not_null` (or where it is not requested) an optional
    interface is written exactly like a non-optional one -/
theorem cpp_optional_interface (c : CppCfg) (d : TDef) (args : List RType) (isParam useNotNull : Bool)
    (hd : d.prim = .interface) (hn : useNotNull = false ∨ c.notNull = none) :
    cppSpec c (.mk d args true) isParam useNotNull = cppSpec c (.mk d args false) isParam useNotNull := by
  simp only [cppSpec, cppWrap, hd]
  rcases hn with h | h
  · subst h; cases c.notNull <;> simp
  · simp [h]

/-- with `not_null` configured, exactly the non-optional interface references in parameter / result position are wrapped -/
theorem cpp_not_null_wraps (c : CppCfg) (nn : String) (d : TDef) (args : List RType) (o : Bool)
    (hd : d.prim = .interface) (hc : c.notNull = some nn) (hne : nn.isEmpty = false) :
    cppSpec c (.mk d args o) false true =
      if o then cppSpec c (.mk d args o) false false else nn ++ "<" ++ cppSpec c (.mk d args o) false false ++ ">" := by
  cases o <;> simp [cppSpec, cppWrap, cppPlace, hd, hc, hne]

/-- optional ∘ function = function (a `std::function` is nullable by itself) -/
theorem cpp_optional_function (c : CppCfg) (d : TDef) (args : List RType) (isParam useNotNull : Bool) (hd : d.prim = .function) :
    cppSpec c (.mk d args true) isParam useNotNull = cppSpec c (.mk d args false) isParam useNotNull := by
  simp [cppSpec, cppWrap, hd]

/-- parameter position adds `const … &` exactly for non-value types -/
theorem cpp_param_constref_iff (c : CppCfg) (t : RType) (useNotNull : Bool) :
    cppSpec c t true useNotNull =
      if cppByValue t.def' then cppSpec c t false useNotNull else "const " ++ cppSpec c t false useNotNull ++ " &" := by
  cases t with
  | mk d args o => cases h : cppByValue d <;> simp [cppSpec, cppPlace, RType.def', h]

def posIsParam (p : Pos) : Bool := p == .param
def posNotNull (p : Pos) : Bool := p != .field

theorem printT_refCppNotNull (c : CppCfg) (d : TDef) (args : List RType) (o : Bool) (p : Pos)
    (hcore : cppWrap c d.prim o false (applyArgs (cppTypename c d) (cppSpecs c args)) = printT (refCppCore c (.mk d args o))) :
    printT (refCppNotNull c d.prim o p (refCppCore c (.mk d args o))) =
      cppWrap c d.prim o (posNotNull p) (applyArgs (cppTypename c d) (cppSpecs c args)) := by
  unfold refCppNotNull
  cases hnn : c.notNull with
  | none =>
    simp only [← hcore]
    simp [cppWrap, hnn]
  | some nn =>
    simp only [posNotNull]
    cases hp : (p != Pos.field) <;> cases hne : nn.isEmpty <;> cases o <;> by_cases hi : d.prim = .interface <;>
      simp [cppWrap, hnn, hne, hi, printT_wrap1, ← hcore]

/-- **cppSpec_eq_ref** — in every position and at every nesting depth `_type_specifier` writes exactly the reference mapping,
    provided the built-in rows it meets satisfy the table obligation `cppOK` (checked on the live table every run). -/
theorem cppSpec_eq_ref (c : CppCfg) (t : RType) (p : Pos) (h : t.builtinsAll Builtin.cppOK = true) :
    cppSpec c t (posIsParam p) (posNotNull p) = printT (refCpp c t p) := by
  cases t with
  | mk d args o =>
    have hcore := cppCore_eq_ref c (.mk d args o) h
    simp only [RType.builtinsAll, Bool.and_eq_true] at h
    have hbv := refByValue_eq d h.1
    simp only [cppSpec, cppPlace, Bool.false_and] at hcore
    have hw := printT_refCppNotNull c d args o p (by simpa using hcore)
    unfold refCpp
    simp only [RType.def', RType.optional, hbv]
    cases hcase : (p == Pos.param && !cppByValue d) <;> simp [hcase, printT, cppSpec, cppPlace, posIsParam, hw]


/-! ## Java type mapping -/

theorem joinS_snoc (sep x : String) (l : List String) (h : l ≠ []) : joinS sep (l ++ [x]) = joinS sep l ++ sep ++ x := by
  induction l with
  | nil => exact absurd rfl h
  | cons a as ih =>
    cases as with
    | nil => simp [joinS]
    | cons b bs =>
      have := ih (by simp)
      simp only [List.cons_append, joinS] at this ⊢
      rw [this]; simp [String.append_assoc]

theorem printJs_isEmpty (ts : List JType) : (printJs ts).isEmpty = ts.isEmpty := by cases ts <;> simp [printJs]
theorem plainJs_isEmpty (ts : List JType) : (plainJs ts).isEmpty = ts.isEmpty := by cases ts <;> simp [plainJs]

theorem printT_qname_none (pkg : List String) (name : String) :
    printT (.qname pkg none name) = if pkg == ["java", "lang"] then name else joinS "." (pkg ++ [name]) := by
  by_cases h : pkg = ["java", "lang"]
  · subst h; simp [printT]
  · cases pkg with
    | nil => simp [printT, joinS]
    | cons a as =>
      have : (a :: as == ["java", "lang"]) = false := by simpa using h
      have hs := joinS_snoc "." name (a :: as) (by simp)
      simp only [printT, this, List.isEmpty_cons, Bool.or_self, Bool.false_eq_true, if_false]
      rw [hs]

mutual
theorem printT_plainJ : ∀ (t : JType), printT (plainJ t) = printJ t
  | .prim p => by simp [plainJ, printT, printJ]
  | .cls pkg name args => by
    simp only [plainJ, printJ, printT_app, printT_qname_none, applyArgs, printTs_isEmpty, plainJs_isEmpty, printTs_plainJs args]
    rw [printJs_isEmpty]
  | .arr e => by simp [plainJ, printT, printJ, printT_plainJ e]
theorem printTs_plainJs : ∀ (ts : List JType), printTs (plainJs ts) = printJs ts
  | [] => by simp [plainJs, printTs, printJs]
  | t :: ts => by simp [plainJs, printTs, printJs, printT_plainJ t, printTs_plainJs ts]
end

/-! ### Java -/

theorem javaDataTypes_eq_map (c : JavaCfg) (ts : List RType) : javaDataTypes c ts = ts.map (fun a => javaDataType c a true) := by
  induction ts with
  | nil => rfl
  | cons t ts ih => simp [javaDataTypes, ih]

/-- **typeSpec_homomorphic (Java)** — `compute_data_type` of `g<a₁..aₙ>?` is the annotated (boxed when `boxed` or optional)
    head applied to the *boxed* written types of the arguments. -/
theorem java_typeSpec_homomorphic (c : JavaCfg) (d : TDef) (args : List RType) (o boxed : Bool) :
    javaDataType c (.mk d args o) boxed = applyArgs (javaHead c d o boxed) (args.map (fun a => javaDataType c a true)) := by
  rw [javaDataType, javaDataTypes_eq_map]

/-- Java boxes exactly under generics, optional and async: an optional reference is written like the boxed one … -/
theorem java_optional_is_boxed (c : JavaCfg) (d : TDef) (args : List RType) (boxed : Bool) :
    javaDataType c (.mk d args true) boxed = javaDataType c (.mk d args true) true := by
  simp [javaDataType, javaHead]

/-- … a non-optional reference in plain position uses the unboxed name … -/
theorem java_plain_unboxed (c : JavaCfg) (d : TDef) (args : List RType) :
    javaHead c d false false = applyAnnotation (javaTypename c d) c.nonnull := by
  simp [javaHead]

/-- … and the result of an asynchronous method is a `CompletableFuture` of the boxed type -/
theorem java_async_boxed (c : JavaCfg) (t : RType) :
    javaReturnType c (some t) true = applyAnnotation "java.util.concurrent.CompletableFuture" c.nonnull ++ "<" ++ javaDataType c t true ++ ">" := by
  simp [javaReturnType]

theorem applyAnnotation_none (ty : String) (a : Option String) (h : annOf a = none) : applyAnnotation ty a = ty := by
  cases a with
  | none => rfl
  | some s =>
    by_cases he : s.isEmpty = true
    · simp [applyAnnotation, he]
    · simp [annOf, he] at h

/-- configuration domain of the Java string theorems: a real package (pydjinni's configuration schema requires at least two
    components), not `java.*` -/
def javaPackageOk (c : JavaCfg) : Prop := c.package ≠ [] ∧ c.package.head? ≠ some "java"

theorem javaPackageL_ok (c : JavaCfg) (hp : javaPackageOk c) (ns : List String) :
    javaPackageL c ns ≠ [] ∧ (javaPackageL c ns == ["java", "lang"]) = false := by
  obtain ⟨h1, h2⟩ := hp
  unfold javaPackageL
  cases hc : c.package with
  | nil => exact absurd hc h1
  | cons a as =>
    rw [hc] at h2
    constructor
    · simp
    · have : a ≠ "java" := by simpa using h2
      simp [this]

theorem printJ_user (c : JavaCfg) (hp : javaPackageOk c) (ns : List String) (name : String) :
    printJ (javaUserJ c ns name) = javaPackage c ns ++ "." ++ name := by
  obtain ⟨h1, h2⟩ := javaPackageL_ok c hp ns
  simp [javaUserJ, printJ, h2, javaPackage, joinS_snoc _ _ _ h1]

theorem printT_annotHead_noArgs (jt : JType) (as : Option (List TExp)) (h : jtNoArgs jt = true) :
    printT (annotHead none as jt) = applyArgs (printJ jt) (printTs (as.getD [])) := by
  cases jt with
  | prim p => simp [annotHead, printT_app, printT, printJ]
  | cls pkg name hargs =>
    simp only [jtNoArgs, List.isEmpty_iff] at h
    subst h
    cases as <;> simp [annotHead, printT_app, printT_qname_none, printJ, plainJs, printTs]
  | arr e =>
    cases e with
    | prim p => simp [annotHead, printT_app, printT, printJ]
    | cls pkg name hargs => simp [annotHead, printT_app, printT, printJ, printT_plainJ]
    | arr e' => simp [annotHead, printT_app, printT, printJ, printT_plainJ]

theorem printT_annotHead_none (jt : JType) : printT (annotHead none none jt) = printJ jt := by
  cases jt with
  | prim p => simp [annotHead, printT_app, printT, printJ, applyArgs, printTs]
  | cls pkg name hargs =>
    simp [annotHead, printT_app, printT_qname_none, printJ, applyArgs, printTs_plainJs, printJs_isEmpty]
  | arr e =>
    cases e with
    | prim p => simp [annotHead, printT_app, printT, printJ, applyArgs, printTs]
    | cls pkg name hargs => simp [annotHead, printT_app, printT, printJ, printT_plainJ, applyArgs, printTs]
    | arr e' => simp [annotHead, printT_app, printT, printJ, printT_plainJ, applyArgs, printTs]

theorem jtNoArgs_boxOf (jt : JType) (h : jtNoArgs jt = true) : jtNoArgs (boxOf jt) = true := by
  unfold boxOf
  split <;> first | rfl | exact h

/-- the written head (no annotations configured) is the Java spelling of the reference head type -/
theorem javaHead_eq_printJ (c : JavaCfg) (hp : javaPackageOk c) (hn : annOf c.nullable = none ∧ annOf c.nonnull = none)
    (d : TDef) (o boxed : Bool) (hd : d.builtinsAll Builtin.javaOK = true) :
    javaHead c d o boxed = printJ (refJavaHead c d (boxed || o)) := by
  have hann : ∀ s, applyAnnotation s (if o = true then c.nullable else c.nonnull) = s := by
    intro s; cases o <;> simp [applyAnnotation_none, hn.1, hn.2]
  rw [javaHead, hann]
  cases d with
  | builtin b =>
    simp only [TDef.builtinsAll, Builtin.javaOK, Bool.and_eq_true, beq_iff_eq] at hd
    cases hb : (boxed || o) <;> simp [javaBoxed, javaTypename, refJavaHead, hd.1.1.1.1.2, hd.1.1.1.2]
  | user u =>
    by_cases hf : u.prim = .flags
    · simp [javaBoxed, javaTypename, refJavaHead, javaHeadJ, hf, printJ, printJs, joinS, printJ_user c hp]
    · have : (u.prim == Prim.flags) = false := by simpa using hf
      simp [javaBoxed, javaTypename, refJavaHead, javaHeadJ, this, printJ_user c hp]
  | func u a n ps r =>
    simp [javaBoxed, javaTypename, refJavaHead, javaHeadJ, printJ_user c hp]


theorem annOf_ite (c : JavaCfg) (hn : annOf c.nullable = none ∧ annOf c.nonnull = none) (o : Bool) :
    annOf (if o = true then c.nullable else c.nonnull) = none := by
  cases o <;> simp [hn.1, hn.2]

mutual
/-- **javaDataType_eq_ref_partial** — `compute_data_type` writes the reference mapping at every nesting depth.
    Full statement (target): the same without `hn`, i.e. with nullable / nonnull annotations configured; the annotated case
    needs `apply_type_annotation`'s string splitting (`rsplit('.')` on the written name) to be inverted and is covered by the
    correspondence and by `spec` on every run instead (random configurations with both annotations). -/
theorem javaDataType_eq_ref_partial (c : JavaCfg) (hp : javaPackageOk c) (hn : annOf c.nullable = none ∧ annOf c.nonnull = none) :
    ∀ (t : RType) (boxed : Bool), t.builtinsAll Builtin.javaOK = true → t.genericsOk = true →
      javaDataType c t boxed = printT (refJava c t boxed)
  | .mk d args o, boxed, hb, hg => by
    simp only [RType.builtinsAll, Bool.and_eq_true] at hb
    simp only [RType.genericsOk, Bool.and_eq_true] at hg
    rw [javaDataType, refJava, annOf_ite c hn, javaHead_eq_printJ c hp hn d o boxed hb.1, javaDataTypes_eq_ref c hp hn args hb.2 hg.2]
    cases args with
    | nil => simp [refJavas, printTs, applyArgs, printT_annotHead_none]
    | cons a as =>
      have hd : d.isBuiltin = true := by simpa using hg.1.1
      cases d with
      | builtin b =>
        have hb1 := hb.1
        simp only [TDef.builtinsAll, Builtin.javaOK, Bool.and_eq_true] at hb1
        have hna : jtNoArgs (refJavaHead c (.builtin b) (boxed || o)) = true := by
          cases hbo : (boxed || o) <;> simp [refJavaHead, hb1.2, jtNoArgs_boxOf]
        simp [printT_annotHead_noArgs _ _ hna]
      | user u => simp [TDef.isBuiltin] at hd
      | func u a' n ps r => simp [TDef.isBuiltin] at hd
theorem javaDataTypes_eq_ref (c : JavaCfg) (hp : javaPackageOk c) (hn : annOf c.nullable = none ∧ annOf c.nonnull = none) :
    ∀ (ts : List RType), builtinsAllL Builtin.javaOK ts = true → genericsOkL ts = true →
      javaDataTypes c ts = printTs (refJavas c ts)
  | [], _, _ => by simp [javaDataTypes, refJavas, printTs]
  | t :: ts, hb, hg => by
    simp only [builtinsAllL, genericsOkL, Bool.and_eq_true] at hb hg
    simp [javaDataTypes, refJavas, printTs, javaDataType_eq_ref_partial c hp hn t true hb.1 hg.1, javaDataTypes_eq_ref c hp hn ts hb.2 hg.2]
end


/-! ## C++/CLI and Objective-C type mapping -/

/-! ### C++/CLI -/

theorem printTs_append (a b : List TExp) : printTs (a ++ b) = printTs a ++ printTs b := by
  induction a with
  | nil => simp [printTs]
  | cons x xs ih => simp [printTs, ih]

theorem printT_handle (e : TExp) : printT (.handle e) = printT e ++ "^" := by simp [printT]

theorem cliTypenames_eq_map (c : CliCfg) (ts : List RType) : cliTypenames c ts = ts.map (cliTypename c) := by
  induction ts with
  | nil => rfl
  | cons t ts ih => simp [cliTypenames, ih]

/-- **typeSpec_homomorphic (C++/CLI)** -/
theorem cli_typeSpec_homomorphic (c : CliCfg) (d : TDef) (args : List RType) (o : Bool) :
    cliTypename c (.mk d args o) = cliShape (cliReference d) o (cliDefTypename c d) (args.map (cliTypename c)) := by
  rw [cliTypename, cliTypenames_eq_map]

/-- `System::Nullable<…>` exactly for optional value types; the handle `^` exactly for reference types -/
theorem cli_nullable_iff (reference optional : Bool) (name : String) :
    cliShape reference optional name [] =
      (if optional && !reference then "System::Nullable<" ++ name ++ ">" else name) ++ (if reference then "^" else "") := by
  simp [cliShape, applyArgs]

theorem refCliReference_eq (d : TDef) (h : d.builtinsAll Builtin.cliOK = true) : refCliReference d = cliReference d := by
  cases d with
  | builtin b =>
    simp only [TDef.builtinsAll, Builtin.cliOK, Bool.and_eq_true, beq_iff_eq] at h
    simp [refCliReference, cliReference, h.2, ← h.1]
  | user u => rfl
  | func u a n ps r => rfl

mutual
/-- **cliTypename_eq_ref** — `typename(type_ref)` of the C++/CLI generator writes the reference mapping at every depth -/
theorem cliTypename_eq_ref (c : CliCfg) : ∀ (t : RType), t.builtinsAll Builtin.cliOK = true → cliTypename c t = printT (refCli c t)
  | .mk d args o, h => by
    simp only [RType.builtinsAll, Bool.and_eq_true] at h
    rw [cliTypename, refCli, cliTypenames_eq_ref c args h.2, cliDefTypename_eq_ref c d h.1, refCliReference_eq d h.1]
    cases hr : cliReference d <;> cases o <;> simp [cliShape, printT_app, printT_wrap1, printT_handle]
theorem cliDefTypename_eq_ref (c : CliCfg) : ∀ (d : TDef), d.builtinsAll Builtin.cliOK = true → cliDefTypename c d = printT (refCliHead c d)
  | .builtin b, h => by
    simp only [TDef.builtinsAll, Builtin.cliOK, Bool.and_eq_true, beq_iff_eq] at h
    simp [cliDefTypename, refCliHead, printT, h.1]
  | .user u, _ => by simp [cliDefTypename, refCliHead, printT]
  | .func u a n params ret, h => by
    simp only [TDef.builtinsAll, Bool.and_eq_true] at h
    cases a with
    | false => simp [cliDefTypename, refCliHead, printT]
    | true =>
      cases ret with
      | none => simp [cliDefTypename, refCliHead, printT_app, printT, cliTypenames_eq_ref c params h.1]
      | some r =>
        simp only [builtinsAllO] at h
        have hne : (printTs (refClis c params) ++ [printT (refCli c r)]).isEmpty = false := by simp
        simp [cliDefTypename, refCliHead, printT_app, printT, printTs_append, printTs, applyArgs, hne,
          cliTypenames_eq_ref c params h.1, cliTypename_eq_ref c r h.2]
theorem cliTypenames_eq_ref (c : CliCfg) : ∀ (ts : List RType), builtinsAllL Builtin.cliOK ts = true → cliTypenames c ts = printTs (refClis c ts)
  | [], _ => by simp [cliTypenames, refClis, printTs]
  | t :: ts, h => by
    simp only [builtinsAllL, Bool.and_eq_true] at h
    simp [cliTypenames, refClis, printTs, cliTypename_eq_ref c t h.1, cliTypenames_eq_ref c ts h.2]
end

/-! ### Objective-C -/

theorem objcTypeDecls_eq_map (c : ObjcCfg) (ts : List RType) : objcTypeDecls c ts = ts.map (fun a => objcTypeDecl c a false true) := by
  induction ts with
  | nil => rfl
  | cons t ts ih => simp [objcTypeDecls, ih]

/-- **typeSpec_homomorphic (Objective-C)** — collection elements are written in boxed position -/
theorem objc_typeSpec_homomorphic (c : ObjcCfg) (d : TDef) (args : List RType) (o parameter boxed : Bool) :
    objcTypeDecl c (.mk d args o) parameter boxed =
      objcShape d parameter boxed o (objcBase c d (boxed || o) o) (args.map (fun a => objcTypeDecl c a false true)) := by
  rw [objcTypeDecl, objcTypeDecls_eq_map]

/-- an interface-typed parameter is `id<Protocol>` without a star -/
theorem objc_interface_parameter (d : TDef) (name : String) (hd : d.prim = .interface) :
    objcShape d true false false name [] = "id<" ++ name ++ ">" := by
  simp [objcShape, applyArgs, hd]

theorem refObjcPointer_eq (d : TDef) (h : d.builtinsAll Builtin.objcOK = true) : refObjcPointer d = objcPointer d := by
  cases d with
  | builtin b =>
    simp only [TDef.builtinsAll, Builtin.objcOK, Bool.and_eq_true, beq_iff_eq] at h
    simp [refObjcPointer, objcPointer, h.1.2, ← h.1.1]
  | user u => rfl
  | func u a n ps r => rfl

theorem refObjcAnnotation_eq (t : RType) (m : Bool) (h : t.builtinsAll Builtin.objcOK = true) :
    refObjcAnnotation (some t) m = objcAnnotation (some t) m := by
  cases t with
  | mk d args o =>
    simp only [RType.builtinsAll, Bool.and_eq_true] at h
    simp [refObjcAnnotation, objcAnnotation, refObjcPointer_eq d h.1]

theorem printT_block (r : TExp) (nullable : Bool) (ps : List TExp) (noexcept : Bool) :
    printT (.block r nullable ps (!noexcept)) =
      blockText (printT r) (if nullable then "(^ _Nullable)" else "(^ _Nonnull)") (printTs ps) noexcept := by
  cases noexcept <;> simp [printT, blockText]

theorem printT_ptr (e : TExp) : printT (.ptr e) = printT e ++ " *" := by simp [printT]
theorem printT_idOf (e : TExp) : printT (.idOf e) = "id<" ++ printT e ++ ">" := by simp [printT]

mutual
/-- **objcTypeDecl_eq_ref** — `type_decl(type_ref, parameter, boxed)` writes the reference mapping at every depth -/
theorem objcTypeDecl_eq_ref (c : ObjcCfg) : ∀ (t : RType) (parameter boxed : Bool), t.builtinsAll Builtin.objcOK = true →
    objcTypeDecl c t parameter boxed = printT (refObjc c t parameter boxed)
  | .mk d args o, parameter, boxed, h => by
    simp only [RType.builtinsAll, Bool.and_eq_true] at h
    rw [objcTypeDecl, refObjc, objcTypeDecls_eq_ref c args h.2, objcBase_eq_ref c d (boxed || o) o h.1, refObjcPointer_eq d h.1]
    simp only [objcShape]
    cases hi : (d.prim == Prim.interface && parameter) <;>
      cases hs : ((!false && objcPointer d) || boxed || (o && d.prim != .function)) <;>
      cases hs' : ((!true && objcPointer d) || boxed || (o && d.prim != .function)) <;>
      simp_all [printT_ptr, printT_idOf, printT_app]
theorem objcBase_eq_ref (c : ObjcCfg) : ∀ (d : TDef) (bo o : Bool), d.builtinsAll Builtin.objcOK = true →
    objcBase c d bo o = printT (refObjcBase c d bo o)
  | .builtin b, bo, o, h => by
    simp only [TDef.builtinsAll, Builtin.objcOK, Bool.and_eq_true, beq_iff_eq] at h
    cases bo
    · simp [objcBase, refObjcBase, printT, h.1.1]
    · simp only [objcBase, refObjcBase, printT, if_true]
      rw [h.2, h.1.1]
  | .user u, _, _, _ => by simp [objcBase, refObjcBase, printT]
  | .func u a n params ret, bo, o, h => by
    simp only [TDef.builtinsAll, Bool.and_eq_true] at h
    rw [objcBase, refObjcBase, printT_block, objcTypeDeclO_eq_ref c ret h.2, objcFnParams_eq_ref c params h.1]
theorem objcFnParams_eq_ref (c : ObjcCfg) : ∀ (ts : List RType), builtinsAllL Builtin.objcOK ts = true →
    objcFnParams c ts = printTs (refObjcParams c ts)
  | [], _ => by simp [objcFnParams, refObjcParams, printTs]
  | t :: ts, h => by
    simp only [builtinsAllL, Bool.and_eq_true] at h
    simp [objcFnParams, refObjcParams, printTs, printT, objcTypeDecl_eq_ref c t true false h.1, objcFnParams_eq_ref c ts h.2,
      refObjcAnnotation_eq t true h.1]
theorem objcTypeDecls_eq_ref (c : ObjcCfg) : ∀ (ts : List RType), builtinsAllL Builtin.objcOK ts = true →
    objcTypeDecls c ts = printTs (refObjcBoxeds c ts)
  | [], _ => by simp [objcTypeDecls, refObjcBoxeds, printTs]
  | t :: ts, h => by
    simp only [builtinsAllL, Bool.and_eq_true] at h
    simp [objcTypeDecls, refObjcBoxeds, printTs, objcTypeDecl_eq_ref c t false true h.1, objcTypeDecls_eq_ref c ts h.2]
theorem objcTypeDeclO_eq_ref (c : ObjcCfg) : ∀ (t : Option RType), builtinsAllO Builtin.objcOK t = true →
    objcTypeDeclO c t = printT (refObjcO c t)
  | none, _ => by simp [objcTypeDeclO, refObjcO, printT]
  | some t, h => by
    simp only [builtinsAllO] at h
    simp [objcTypeDeclO, refObjcO, objcTypeDecl_eq_ref c t false false h]
end

/-! ## Declaration skeletons -/

/-! ### declaration skeletons -/

theorem membersOk_self (label : String) (dc : Bool) (want : List Want) (got : List MemberS)
    (hn : got.map (·.name) = want.map (·.name)) (ht : got.map (·.ty) = want.map (fun w => printT w.ty)) :
    membersOk label dc want got = [] := by
  have hl : got.length = want.length := by simpa using congrArg List.length hn
  have ht' : got.map (fun m => cmpTy dc m.ty) = want.map (fun w => cmpTy dc (printT w.ty)) := by
    have := congrArg (List.map (cmpTy dc)) ht
    simpa [List.map_map, Function.comp_def] using this
  simp [membersOk, hl, hn, ht']

theorem itemsOk_self (l : List String) : itemsOk l l = [] := by simp [itemsOk]

theorem methodOk_self (w : WantMethod) (g : MethodS) (hn : g.name = w.name) (hr : g.ret = printT w.ret)
    (hpre : g.pre = w.pre) (hpost : g.post = w.post)
    (hpn : g.params.map (·.name) = w.params.map (·.name)) (hpt : g.params.map (·.ty) = w.params.map (fun x => printT x.ty)) :
    methodOk w g = [] := by
  simp [methodOk, hn, hr, hpre, hpost, membersOk_self "param" false w.params g.params hpn hpt]

theorem zipWith_all_nil {α β : Type} (f : α → β → List String) : ∀ (a : List α) (b : List β),
    (∀ x ∈ List.zip a b, f x.1 x.2 = []) → (List.zipWith f a b).flatten = []
  | [], _, _ => by simp
  | _ :: _, [], _ => by simp
  | x :: xs, y :: ys, h => by
    simp only [List.zipWith_cons_cons, List.flatten_cons]
    rw [h (x, y) (by simp), zipWith_all_nil f xs ys (fun p hp => h p (by simp [hp]))]
    rfl

theorem methodsOk_self (want : List WantMethod) (got : List MethodS) (hl : got.length = want.length)
    (hn : got.map (·.name) = want.map (·.name)) (h : ∀ x ∈ List.zip want got, methodOk x.1 x.2 = []) :
    methodsOk want got = [] := by
  simp [methodsOk, hl, hn, zipWith_all_nil methodOk want got h]


theorem codesOk_self (dc : Bool) (want : List WantCode) (got : List CodeS) (hl : got.length = want.length)
    (hn : got.map (·.name) = want.map (·.name))
    (h : ∀ x ∈ List.zip want got, codeOk dc x.1 x.2 = []) :
    codesOk dc want got = [] := by
  have := zipWith_all_nil (codeOk dc) want got h
  simp [codesOk, hl, hn, this]

theorem codeOk_self (dc : Bool) (w : WantCode) (g : CodeS) (hf : membersOk "code-field" dc w.fields g.fields = [])
    (hc : membersOk "code-ctor" false w.ctor g.ctor = []) (hfm : g.fmods = w.fmods) (hmeth : methodsOk w.methods g.methods = []) :
    codeOk dc w g = [] := by
  simp [codeOk, hf, hc, hfm, hmeth]

theorem declOk_self (w : WantDecl) (g : DeclS) (hk : g.kind = w.kind) (hn : g.name = w.name) (hs : g.scope = w.scope) (hm : g.mods = w.mods)
    (hfm : g.fmods = w.fmods)
    (hf : membersOk "field" w.constFields w.fields g.fields = []) (hc : membersOk "ctor" false w.ctor g.ctor = [])
    (hmeth : methodsOk w.methods g.methods = []) (hi : itemsOk w.items g.items = [])
    (hcodes : codesOk w.constFields w.codes g.codes = []) : declOk w g = [] := by
  simp [declOk, hk, hn, hs, hm, hfm, hf, hc, hmeth, hi, hcodes]

theorem membersOk_nil (label : String) (dc : Bool) : membersOk label dc [] [] = [] := by simp [membersOk]
theorem methodsOk_nil : methodsOk [] [] = [] := by simp [methodsOk]
theorem codesOk_nil (dc : Bool) : codesOk dc [] [] = [] := by simp [codesOk]

theorem cppDeclName_eq (c : CppCfg) (u : UInfo) : cppDeclName c u = convert c.tyStyle (baseName "cpp" u) := by
  simp only [cppDeclName, baseName]; split <;> rfl

theorem mem_zip_map {α β γ : Type} (f : α → β) (g : α → γ) (l : List α) (x : β × γ) (h : x ∈ List.zip (l.map f) (l.map g)) :
    ∃ a ∈ l, x = (f a, g a) := by
  induction l with
  | nil => simp at h
  | cons a as ih =>
    simp only [List.map_cons, List.zip_cons_cons, List.mem_cons] at h
    rcases h with rfl | h
    · exact ⟨a, by simp, rfl⟩
    · obtain ⟨b, hb, rfl⟩ := ih h
      exact ⟨b, by simp [hb], rfl⟩

theorem fieldsAll_mem {q : RType → Bool} {fs : List FieldD} (h : fieldsAll q fs = true) : ∀ f ∈ fs, q f.ty = true := by
  simpa [fieldsAll] using h

abbrev cppTypesOk (d : Decl) : Prop := d.typesAll (fun t => t.builtinsAll Builtin.cppOK) = true


theorem cpp_fields_ok (c : CppCfg) (fs : List FieldD) (h : fieldsAll (fun t => t.builtinsAll Builtin.cppOK) fs = true) :
    membersOk "field" true (fs.map (cppWantField c)) (fs.map (cppField c)) = [] ∧
    membersOk "ctor" false (fs.map (cppWantField c)) (fs.map (cppField c)) = [] ∧
    membersOk "code-field" true (fs.map (cppWantField c)) (fs.map (cppField c)) = [] := by
  have hn : (fs.map (cppField c)).map (·.name) = (fs.map (cppWantField c)).map (·.name) := by
    simp [List.map_map, Function.comp_def, cppField, cppWantField]
  have ht : (fs.map (cppField c)).map (·.ty) = (fs.map (cppWantField c)).map (fun w => printT w.ty) := by
    simp only [List.map_map]
    apply List.map_congr_left
    intro f hf
    have := cppSpec_eq_ref c f.ty .field (fieldsAll_mem h f hf)
    rw [show posIsParam Pos.field = false from rfl, show posNotNull Pos.field = false from rfl] at this
    simpa [cppField, cppWantField] using this
  exact ⟨membersOk_self _ _ _ _ hn ht, membersOk_self _ _ _ _ hn ht, membersOk_self _ _ _ _ hn ht⟩

theorem cpp_params_ok (c : CppCfg) (label : String) (dc : Bool) (fs : List FieldD) (h : fieldsAll (fun t => t.builtinsAll Builtin.cppOK) fs = true) :
    membersOk label dc (fs.map (cppWantParam c)) (fs.map (cppParam c)) = [] := by
  have hn : (fs.map (cppParam c)).map (·.name) = (fs.map (cppWantParam c)).map (·.name) := by
    simp [List.map_map, Function.comp_def, cppParam, cppWantParam]
  have ht : (fs.map (cppParam c)).map (·.ty) = (fs.map (cppWantParam c)).map (fun w => printT w.ty) := by
    simp only [List.map_map]
    apply List.map_congr_left
    intro f hf
    have := cppSpec_eq_ref c f.ty .param (fieldsAll_mem h f hf)
    rw [show posIsParam Pos.param = true from rfl, show posNotNull Pos.param = true from rfl] at this
    simpa [cppParam, cppWantParam] using this
  exact membersOk_self _ _ _ _ hn ht


/-- **api_fidelity (C++)** — for every declaration (any number of members, any nesting depth of their types) the C++ header
    skeleton of the model satisfies the fidelity specification: members in IDL order, converted names, reference types,
    modifier table. -/
theorem cpp_api_fidelity (c : Cfg) (d : Decl) (h : cppTypesOk d) : fidelity .cpp c d (apiSkel .cpp c d) = [] := by
  simp only [fidelity, apiSkel, want]
  cases d with
  | enum u items =>
    apply declOk_self <;> simp [wantCpp, cppSkel, cppDeclName_eq, DeclS.empty, Decl.info, membersOk_nil, methodsOk_nil, codesOk_nil, itemsOk_self]
  | flags u items =>
    apply declOk_self <;> simp [wantCpp, cppSkel, cppDeclName_eq, DeclS.empty, Decl.info, membersOk_nil, methodsOk_nil, codesOk_nil, itemsOk_self]
  | function u a ps r t =>
    apply declOk_self <;> simp [wantCpp, cppSkel, DeclS.empty, Decl.info, membersOk_nil, methodsOk_nil, codesOk_nil, itemsOk_self]
  | record u fields e o =>
    simp only [cppTypesOk, Decl.typesAll] at h
    obtain ⟨hf, hc, _⟩ := cpp_fields_ok c.cpp fields h
    apply declOk_self <;> simp [wantCpp, cppSkel, cppDeclName_eq, DeclS.empty, Decl.info, methodsOk_nil, codesOk_nil, itemsOk_self, hf, hc]
  | interface u ms =>
    simp only [cppTypesOk, Decl.typesAll, List.all_eq_true, Bool.and_eq_true] at h
    have hm : methodsOk (ms.map (cppWantMethod c.cpp)) (ms.map (cppMethod c.cpp)) = [] := by
      apply methodsOk_self
      · simp
      · simp [List.map_map, Function.comp_def, cppMethod, cppWantMethod]
      · intro x hx
        obtain ⟨m, hmem, rfl⟩ := mem_zip_map _ _ ms x hx
        have hmm := h m hmem
        have hp := cpp_params_ok c.cpp "param" false m.params hmm.1
        have hret : (cppMethod c.cpp m).ret = printT (cppWantMethod c.cpp m).ret := by
          simp only [cppMethod, cppMethodRet, cppWantMethod]
          cases hr : m.ret with
          | none => cases m.isAsync <;> simp [cppSpecOpt, printT, printT_wrap1]
          | some r =>
            have hrr : r.builtinsAll Builtin.cppOK = true := by simpa [hr] using hmm.2
            cases m.isAsync
            · have := cppSpec_eq_ref c.cpp r .result hrr
              rw [show posIsParam Pos.result = false from rfl, show posNotNull Pos.result = true from rfl] at this
              simpa [cppSpecOpt] using this
            · simp [cppSpecOpt, printT_wrap1, cppCore_eq_ref c.cpp r hrr]
        simp only [methodOk, hret]
        simp [cppMethod, cppWantMethod, cppPrefix, cppPostfix, hp]
        cases m.isStatic <;> simp
    apply declOk_self <;> simp [wantCpp, cppSkel, cppDeclName_eq, DeclS.empty, Decl.info, membersOk_nil, codesOk_nil, itemsOk_self, hm]
  | error u codes =>
    simp only [cppTypesOk, Decl.typesAll, List.all_eq_true] at h
    have hk : codesOk true (codes.map (cppWantCode c.cpp)) (codes.map (cppCode c.cpp)) = [] := by
      apply codesOk_self
      · simp
      · simp [List.map_map, Function.comp_def, cppCode, cppWantCode]
      · intro x hx
        obtain ⟨k, hmem, rfl⟩ := mem_zip_map _ _ codes x hx
        have hk := h k hmem
        simp [codeOk, methodsOk_nil, cppCode, cppWantCode, cpp_params_ok c.cpp "code-field" true k.params hk, cpp_params_ok c.cpp "code-ctor" false k.params hk]
    apply declOk_self <;> simp [wantCpp, cppSkel, cppDeclName_eq, DeclS.empty, Decl.info, membersOk_nil, methodsOk_nil, itemsOk_self, hk]

/-- **api_members_in_order (C++)** — a record exposes its fields in declaration order under their converted names
    (and a matching constructor); an interface one method per IDL method, in order -/
theorem cpp_api_members_in_order (c : CppCfg) (u : UInfo) (fields : List FieldD) (e o : Bool) :
    (cppSkel c (.record u fields e o)).fields.map (·.name) = fields.map (fun f => convert c.fieldStyle f.name) ∧
    (cppSkel c (.record u fields e o)).ctor = (cppSkel c (.record u fields e o)).fields := by
  simp [cppSkel, DeclS.empty, cppField, List.map_map, Function.comp_def]

theorem cpp_api_methods_in_order (c : CppCfg) (u : UInfo) (ms : List MethodD) :
    (cppSkel c (.interface u ms)).methods.map (·.name) = ms.map (fun m => convert c.methodStyle m.name) := by
  simp [cppSkel, DeclS.empty, cppMethod, List.map_map, Function.comp_def]


/-! ## C++/CLI and Java declaration skeletons -/

/-! ### C++/CLI skeleton -/

abbrev cliTypesOk (d : Decl) : Prop := d.typesAll (fun t => t.builtinsAll Builtin.cliOK) = true

theorem cliDeclName_eq (c : CliCfg) (u : UInfo) : cliDeclName c u = convert c.tyStyle (baseName "cppcli" u) := by
  simp only [cliDeclName, baseName]; split <;> rfl

theorem cliAttr_eq (c : CliCfg) (o : Bool) : cliAttr c o = cliWantAttr c o := rfl

theorem cli_members_ok (c : CliCfg) (label : String) (dc : Bool) (fs : List FieldD)
    (h : fieldsAll (fun t => t.builtinsAll Builtin.cliOK) fs = true) :
    membersOk label dc (fs.map (cliWantParam c)) (fs.map (cliParam c)) = [] ∧
    membersOk label dc (fs.map (cliWantPlainParam c)) (fs.map (cliPlainParam c)) = [] ∧
    membersOk label dc (fs.map (cliWantProp c)) (fs.map (cliProperty c)) = [] := by
  refine ⟨?_, ?_, ?_⟩ <;> apply membersOk_self
  · simp [List.map_map, Function.comp_def, cliParam, cliWantParam]
  · simp only [List.map_map]
    apply List.map_congr_left
    intro f hf
    simp [cliParam, cliWantParam, printT, cliAttr_eq, cliTypename_eq_ref c f.ty (fieldsAll_mem h f hf)]
  · simp [List.map_map, Function.comp_def, cliPlainParam, cliWantPlainParam]
  · simp only [List.map_map]
    apply List.map_congr_left
    intro f hf
    simp [cliPlainParam, cliWantPlainParam, cliTypename_eq_ref c f.ty (fieldsAll_mem h f hf)]
  · simp [List.map_map, Function.comp_def, cliProperty, cliWantProp]
  · simp only [List.map_map]
    apply List.map_congr_left
    intro f hf
    simp [cliProperty, cliWantProp, cliTypename_eq_ref c f.ty (fieldsAll_mem h f hf)]

theorem cliTypenameO_eq_ref (c : CliCfg) (t : Option RType) (async : Bool)
    (h : ∀ r, t = some r → r.builtinsAll Builtin.cliOK = true) : cliTypenameO c t async = printT (refCliRet c t async) := by
  cases t with
  | none => cases async <;> simp [cliTypenameO, refCliRet, printT]
  | some r =>
    have lit : ">" ++ "^" = ">^" := by decide
    cases async <;> simp [cliTypenameO, refCliRet, printT, printT_wrap1, cliTypename_eq_ref c r (h r rfl), String.append_assoc, lit]

/-- **api_fidelity (C++/CLI)** -/
theorem cli_api_fidelity (c : Cfg) (d : Decl) (h : cliTypesOk d) : fidelity .cppcli c d (apiSkel .cppcli c d) = [] := by
  simp only [fidelity, apiSkel, want]
  cases d with
  | enum u items =>
    apply declOk_self <;> simp [wantCli, cliSkel, cliDeclName_eq, DeclS.empty, Decl.info, membersOk_nil, methodsOk_nil, codesOk_nil, itemsOk_self]
  | flags u items =>
    apply declOk_self <;> simp [wantCli, cliSkel, cliDeclName_eq, DeclS.empty, Decl.info, membersOk_nil, methodsOk_nil, codesOk_nil, itemsOk_self]
  | record u fields e o =>
    simp only [cliTypesOk, Decl.typesAll] at h
    obtain ⟨hp, _, hf⟩ := cli_members_ok c.cli "field" false fields h
    obtain ⟨hc, _, _⟩ := cli_members_ok c.cli "ctor" false fields h
    apply declOk_self <;> simp [wantCli, cliSkel, cliDeclName_eq, DeclS.empty, Decl.info, methodsOk_nil, codesOk_nil, itemsOk_self, hf, hc]
  | interface u ms =>
    simp only [cliTypesOk, Decl.typesAll, List.all_eq_true, Bool.and_eq_true] at h
    have hm : methodsOk (ms.map (cliWantMethod c.cli)) (ms.map (cliMethod c.cli)) = [] := by
      apply methodsOk_self
      · simp
      · simp [List.map_map, Function.comp_def, cliMethod, cliWantMethod]
      · intro x hx
        obtain ⟨m, hmem, rfl⟩ := mem_zip_map _ _ ms x hx
        have hmm := h m hmem
        obtain ⟨hp, _, _⟩ := cli_members_ok c.cli "param" false m.params hmm.1
        have hret := cliTypenameO_eq_ref c.cli m.ret m.isAsync (by intro r hr; simpa [hr] using hmm.2)
        simp only [methodOk, cliMethod, cliWantMethod, hret]
        simp [hp]
    apply declOk_self <;> simp [wantCli, cliSkel, cliDeclName_eq, DeclS.empty, Decl.info, membersOk_nil, codesOk_nil, itemsOk_self, hm]
  | function u a ps r t =>
    simp only [cliTypesOk, Decl.typesAll, Bool.and_eq_true] at h
    cases a with
    | true => apply declOk_self <;> simp [wantCli, cliSkel, DeclS.empty, Decl.info, membersOk_nil, methodsOk_nil, codesOk_nil, itemsOk_self]
    | false =>
      obtain ⟨hp, _, _⟩ := cli_members_ok c.cli "param" false ps h.1
      have hret := cliTypenameO_eq_ref c.cli r false (by intro r' hr; simpa [hr] using h.2)
      have hm : methodsOk [({ pre := [], ret := refCliRet c.cli r false, name := convert c.cli.tyStyle (baseName "cppcli" u), params := ps.map (cliWantParam c.cli), post := [] } : WantMethod)]
          [({ pre := [], ret := cliTypenameO c.cli r false, name := convert c.cli.tyStyle (baseName "cppcli" u), params := ps.map (cliParam c.cli), post := [] } : MethodS)] = [] := by
        simp [methodsOk, methodOk, hret, hp]
      apply declOk_self <;> simp [wantCli, cliSkel, cliDeclName_eq, DeclS.empty, Decl.info, membersOk_nil, codesOk_nil, itemsOk_self, hm]
  | error u codes =>
    simp only [cliTypesOk, Decl.typesAll, List.all_eq_true] at h
    have hk : codesOk false (codes.map (cliWantCode c.cli)) (codes.map (cliCode c.cli)) = [] := by
      apply codesOk_self
      · simp
      · simp [List.map_map, Function.comp_def, cliCode, cliWantCode]
      · intro x hx
        obtain ⟨k, hmem, rfl⟩ := mem_zip_map _ _ codes x hx
        have hk := h k hmem
        obtain ⟨_, _, hf⟩ := cli_members_ok c.cli "code-field" false k.params hk
        obtain ⟨_, hc, _⟩ := cli_members_ok c.cli "code-ctor" false k.params hk
        simp [codeOk, methodsOk_nil, cliCode, cliWantCode, hf, hc]
    apply declOk_self <;> simp [wantCli, cliSkel, cliDeclName_eq, DeclS.empty, Decl.info, membersOk_nil, methodsOk_nil, itemsOk_self, hk]


/-! ### Java skeleton -/

abbrev javaTypesOk (d : Decl) : Prop := d.typesAll (fun t => t.builtinsAll Builtin.javaOK && t.genericsOk) = true

structure JavaDom (c : JavaCfg) : Prop where
  pkg : javaPackageOk c
  noAnn : annOf c.nullable = none ∧ annOf c.nonnull = none

theorem java_members_ok (c : JavaCfg) (hc : JavaDom c) (label : String) (dc : Bool) (fs : List FieldD)
    (h : fieldsAll (fun t => t.builtinsAll Builtin.javaOK && t.genericsOk) fs = true) :
    membersOk label dc (fs.map (javaWantMember c)) (fs.map (javaMember c)) = [] := by
  apply membersOk_self
  · simp [List.map_map, Function.comp_def, javaMember, javaWantMember]
  · simp only [List.map_map]
    apply List.map_congr_left
    intro f hf
    have := fieldsAll_mem h f hf
    simp only [Bool.and_eq_true] at this
    simp [javaMember, javaWantMember, javaDataType_eq_ref_partial c hc.pkg hc.noAnn f.ty false this.1 this.2]

/-- the getters written for a list of fields (record fields, error-code parameters) are the getters the specification expects -/
theorem java_getters_ok (c : JavaCfg) (hc : JavaDom c) (fs : List FieldD)
    (h : fieldsAll (fun t => t.builtinsAll Builtin.javaOK && t.genericsOk) fs = true) :
    methodsOk (fs.map (javaWantGetter c)) (fs.map (javaGetter c)) = [] := by
  apply methodsOk_self
  · simp
  · simp [List.map_map, Function.comp_def, javaGetter, javaWantGetter]
  · intro x hx
    obtain ⟨f, hmem, rfl⟩ := mem_zip_map _ _ fs x hx
    have := fieldsAll_mem h f hmem
    simp only [Bool.and_eq_true] at this
    simp [methodOk, javaGetter, javaWantGetter, membersOk_nil, javaDataType_eq_ref_partial c hc.pkg hc.noAnn f.ty false this.1 this.2]

theorem javaReturnType_eq_ref (c : JavaCfg) (hc : JavaDom c) (t : Option RType) (async : Bool)
    (h : ∀ r, t = some r → r.builtinsAll Builtin.javaOK = true ∧ r.genericsOk = true) :
    javaReturnType c t async = printT (refJavaRet c t async) := by
  have hq : printT (.qname ["java", "util", "concurrent"] none "CompletableFuture") = "java.util.concurrent.CompletableFuture" := by decide
  have hv : printT (.qname ["java", "lang"] none "Void") = "Void" := by decide
  cases t with
  | none =>
    cases async <;> simp [javaReturnType, refJavaRet, printT_app, applyArgs, printTs, joinS, applyAnnotation_none _ _ hc.noAnn.2, hc.noAnn.2, hq, hv]
    · simp [printT]
  | some r =>
    have hr := h r rfl
    cases async <;>
      simp [javaReturnType, refJavaRet, printT_app, applyArgs, printTs, joinS, applyAnnotation_none _ _ hc.noAnn.2, hc.noAnn.2, hq,
        javaDataType_eq_ref_partial c hc.pkg hc.noAnn r _ hr.1 hr.2]


theorem javaThrows_eq (c : JavaCfg) (m : MethodD) : javaThrows c m = javaWantThrows c m := by
  unfold javaThrows javaWantThrows
  cases m.throwing with
  | none => rfl
  | some l => rfl

theorem javaDeclName_eq (c : JavaCfg) (d : Decl) (hwf : d.wf = true) :
    javaDeclName c d.info (match d with | .function _ a _ _ _ => a | _ => false) =
      (if d.info.prim == .function && (match d with | .function _ a _ _ _ => a | _ => false) then title d.info.name
       else convert c.tyStyle (baseName "java" d.info)) := by
  cases d <;> simp only [Decl.wf, beq_iff_eq] at hwf <;> simp [javaDeclName, baseName, Decl.info, hwf] <;> split <;> simp_all

/-- **api_fidelity (Java), partial** — under `JavaDom` (no nullable / nonnull annotation configured; the annotated
    configurations are covered by the correspondence and by `spec` on every generated file each run) -/
theorem java_api_fidelity_partial (c : Cfg) (hc : JavaDom c.java) (d : Decl) (hwf : d.wf = true) (h : javaTypesOk d) :
    fidelity .java c d (apiSkel .java c d) = [] := by
  simp only [fidelity, apiSkel, want]
  have hname := javaDeclName_eq c.java d hwf
  cases d with
  | enum u items =>
    apply declOk_self <;> simp [wantJava, javaSkel, DeclS.empty, Decl.info, membersOk_nil, methodsOk_nil, codesOk_nil, itemsOk_self] <;> simpa [Decl.info] using hname
  | flags u items =>
    apply declOk_self <;> simp [wantJava, javaSkel, DeclS.empty, Decl.info, membersOk_nil, methodsOk_nil, codesOk_nil, itemsOk_self] <;> first | (simpa [Decl.info] using hname) | skip
  | record u fields e o =>
    simp only [javaTypesOk, Decl.typesAll] at h
    have hf := java_members_ok c.java hc "field" false fields h
    have hct := java_members_ok c.java hc "ctor" false fields h
    have hg := java_getters_ok c.java hc fields h
    apply declOk_self <;> simp [wantJava, javaSkel, DeclS.empty, Decl.info, codesOk_nil, itemsOk_self, hf, hct, hg, javaFieldMod, javaWantFieldMod] <;> first | (simpa [Decl.info] using hname) | skip
  | interface u ms =>
    simp only [javaTypesOk, Decl.typesAll, List.all_eq_true, Bool.and_eq_true] at h
    have hm : methodsOk (ms.map (javaWantMethod c.java)) (ms.map (javaMethod c.java)) = [] := by
      apply methodsOk_self
      · simp
      · simp [List.map_map, Function.comp_def, javaMethod, javaWantMethod]
      · intro x hx
        obtain ⟨m, hmem, rfl⟩ := mem_zip_map _ _ ms x hx
        have hmm := h m hmem
        have hp := java_members_ok c.java hc "param" false m.params (by simpa [fieldsAll, List.all_eq_true] using hmm.1)
        have hret := javaReturnType_eq_ref c.java hc m.ret m.isAsync (by intro r hr; simpa [hr] using hmm.2)
        simp only [methodOk, javaMethod, javaWantMethod, hret]
        simp [hp, javaThrows_eq]
    apply declOk_self <;> simp [wantJava, javaSkel, DeclS.empty, Decl.info, membersOk_nil, codesOk_nil, itemsOk_self, hm] <;> first | (simpa [Decl.info] using hname) | skip
  | function u a ps r t =>
    simp only [javaTypesOk, Decl.typesAll, Bool.and_eq_true] at h
    have hp := java_members_ok c.java hc "param" false ps (by simpa [fieldsAll, List.all_eq_true] using h.1)
    have hret := javaReturnType_eq_ref c.java hc r false (by intro r' hr; simpa [hr] using h.2)
    have hm : methodsOk [({ pre := [], ret := refJavaRet c.java r false, name := "invoke", params := ps.map (javaWantMember c.java), post := [] } : WantMethod)]
        [({ pre := [], ret := javaReturnType c.java r false, name := "invoke", params := ps.map (javaMember c.java), post := [] } : MethodS)] = [] := by
      simp [methodsOk, methodOk, hret, hp]
    apply declOk_self <;> simp [wantJava, javaSkel, DeclS.empty, Decl.info, membersOk_nil, codesOk_nil, itemsOk_self, hm] <;> first | (simpa [Decl.info] using hname) | skip
  | error u codes =>
    simp only [javaTypesOk, Decl.typesAll, List.all_eq_true] at h
    have hk : codesOk false (codes.map (javaWantCode c.java)) (codes.map (javaCode c.java)) = [] := by
      apply codesOk_self
      · simp
      · simp [List.map_map, Function.comp_def, javaCode, javaWantCode]
      · intro x hx
        obtain ⟨k, hmem, rfl⟩ := mem_zip_map _ _ codes x hx
        have hk := h k hmem
        apply codeOk_self <;>
          simp [javaCode, javaWantCode, javaFieldMod, javaWantFieldMod, java_members_ok c.java hc "code-field" false k.params hk,
            java_members_ok c.java hc "code-ctor" false k.params hk, java_getters_ok c.java hc k.params hk]
    apply declOk_self <;> simp [wantJava, javaSkel, DeclS.empty, Decl.info, membersOk_nil, methodsOk_nil, itemsOk_self, hk] <;> first | (simpa [Decl.info] using hname) | skip


/-! ## Objective-C declaration skeleton -/

/-! ### Objective-C skeleton -/

abbrev objcTypesOk (d : Decl) : Prop := d.typesAll (fun t => t.builtinsAll Builtin.objcOK) = true

theorem objcDeclName_eq (c : ObjcCfg) (u : UInfo) : objcDeclName c u = objcWantName c u := by
  simp only [objcDeclName, objcWantName, baseName, objcUserTypename]; split <;> rfl

theorem printT_annT (ann : String) (e : TExp) : printT (annT ann e) = withAnn ann (printT e) := by
  unfold annT withAnn
  split <;> simp [printT]

theorem objc_member_ty (c : ObjcCfg) (parameter : Bool) (f : FieldD) (h : f.ty.builtinsAll Builtin.objcOK = true) :
    withAnn (objcAnnotation (some f.ty) false) (objcTypeDecl c f.ty parameter false) = printT (objcWantMember c parameter f).ty := by
  simp [objcWantMember, printT_annT, refObjcAnnotation_eq f.ty false h, objcTypeDecl_eq_ref c f.ty parameter false h]

theorem objc_members_ok (c : ObjcCfg) (label : String) (dc : Bool) (fs : List FieldD)
    (h : fieldsAll (fun t => t.builtinsAll Builtin.objcOK) fs = true) :
    membersOk label dc (fs.map (objcWantMember c false)) (fs.map (objcProperty c)) = [] ∧
    membersOk label dc (fs.map (objcWantMember c false)) (fs.map (objcFieldArg c)) = [] ∧
    membersOk label dc (fs.map (objcWantMember c true)) (fs.map (objcParam c)) = [] := by
  refine ⟨?_, ?_, ?_⟩ <;> apply membersOk_self
  · simp [List.map_map, Function.comp_def, objcProperty, objcWantMember]
  · simp only [List.map_map]
    apply List.map_congr_left
    intro f hf
    simpa [objcProperty] using objc_member_ty c false f (fieldsAll_mem h f hf)
  · simp [List.map_map, Function.comp_def, objcFieldArg, objcWantMember]
  · simp only [List.map_map]
    apply List.map_congr_left
    intro f hf
    simpa [objcFieldArg] using objc_member_ty c false f (fieldsAll_mem h f hf)
  · simp [List.map_map, Function.comp_def, objcParam, objcWantMember]
  · simp only [List.map_map]
    apply List.map_congr_left
    intro f hf
    simpa [objcParam] using objc_member_ty c true f (fieldsAll_mem h f hf)

theorem refObjcAnnotationO_eq (t : Option RType) (m : Bool) (h : ∀ r, t = some r → r.builtinsAll Builtin.objcOK = true) :
    refObjcAnnotation t m = objcAnnotation t m := by
  cases t with
  | none => rfl
  | some r => exact refObjcAnnotation_eq r m (h r rfl)

theorem objcCompletion_eq (c : ObjcCfg) (m : MethodD) (h : ∀ r, m.ret = some r → r.builtinsAll Builtin.objcOK = true) :
    objcCompletion c m = printT (objcWantCompletion c m) := by
  have hb : builtinsAllO Builtin.objcOK m.ret = true := by
    cases hr : m.ret with
    | none => rfl
    | some r => simpa [builtinsAllO] using h r hr
  unfold objcCompletion objcWantCompletion
  simp only [objcTypeDeclO_eq_ref c m.ret hb, refObjcAnnotationO_eq m.ret true h]
  split <;> simp [printT]


theorem objcMethod_ok (c : ObjcCfg) (m : MethodD)
    (hp : fieldsAll (fun t => t.builtinsAll Builtin.objcOK) m.params = true)
    (hr : ∀ r, m.ret = some r → r.builtinsAll Builtin.objcOK = true) :
    methodOk (objcWantMethod c m) (objcMethod c m) = [] := by
  have hb : builtinsAllO Builtin.objcOK m.ret = true := by
    cases hr' : m.ret with
    | none => rfl
    | some r => simpa [builtinsAllO] using hr r hr'
  obtain ⟨_, _, hps⟩ := objc_members_ok c "param" false m.params hp
  have hret : (objcMethod c m).ret = printT (objcWantMethod c m).ret := by
    simp only [objcMethod, objcWantMethod]
    cases m.isAsync
    · simp [printT_annT, refObjcAnnotationO_eq m.ret false hr, objcTypeDeclO_eq_ref c m.ret hb]
    · simp [printT]
  have hparams : membersOk "param" false (objcWantMethod c m).params (objcMethod c m).params = [] := by
    simp only [objcMethod, objcWantMethod, objcMethodParams]
    apply membersOk_self
    · cases m.isAsync <;> cases m.throwing.isSome <;> simp [List.map_map, Function.comp_def, objcParam, objcWantMember]
    · have h1 : (m.params.map (objcParam c)).map (·.ty) = (m.params.map (objcWantMember c true)).map (fun w => printT w.ty) := by
        simp only [List.map_map]
        apply List.map_congr_left
        intro f hf
        simpa [objcParam] using objc_member_ty c true f (fieldsAll_mem hp f hf)
      cases m.isAsync <;> cases m.throwing.isSome <;> simp [List.map_append, h1, printT, objcCompletion_eq c m hr]
  simp only [methodOk, hret, hparams]
  simp [objcMethod, objcWantMethod]

/-- **api_fidelity (Objective-C)** -/
theorem objc_api_fidelity (c : Cfg) (d : Decl) (hwf : d.wf = true) (h : objcTypesOk d) : fidelity .objc c d (apiSkel .objc c d) = [] := by
  simp only [fidelity, apiSkel, want]
  cases d with
  | enum u items =>
    apply declOk_self <;> simp [wantObjc, objcSkel, objcDeclName_eq, DeclS.empty, Decl.info, membersOk_nil, methodsOk_nil, codesOk_nil, itemsOk_self]
  | flags u items =>
    apply declOk_self <;> simp [wantObjc, objcSkel, objcDeclName_eq, DeclS.empty, Decl.info, membersOk_nil, methodsOk_nil, codesOk_nil, itemsOk_self]
  | function u a ps r t =>
    apply declOk_self <;> simp [wantObjc, objcSkel, DeclS.empty, Decl.info, membersOk_nil, methodsOk_nil, codesOk_nil, itemsOk_self]
  | interface u ms =>
    simp only [objcTypesOk, Decl.typesAll, List.all_eq_true, Bool.and_eq_true] at h
    have hm : methodsOk (ms.map (objcWantMethod c.objc)) (ms.map (objcMethod c.objc)) = [] := by
      apply methodsOk_self
      · simp
      · simp [List.map_map, Function.comp_def, objcMethod, objcWantMethod]
      · intro x hx
        obtain ⟨m, hmem, rfl⟩ := mem_zip_map _ _ ms x hx
        have hmm := h m hmem
        exact objcMethod_ok c.objc m hmm.1 (by intro r hr; simpa [hr] using hmm.2)
    apply declOk_self <;> simp [wantObjc, objcSkel, objcDeclName_eq, DeclS.empty, Decl.info, membersOk_nil, codesOk_nil, itemsOk_self, hm]
  | record u fields e o =>
    simp only [objcTypesOk, Decl.typesAll] at h
    simp only [Decl.wf, beq_iff_eq] at hwf
    obtain ⟨hf, _, _⟩ := objc_members_ok c.objc "field" false fields h
    obtain ⟨_, hctor, _⟩ := objc_members_ok c.objc "ctor" false fields h
    obtain ⟨_, hpar, _⟩ := objc_members_ok c.objc "param" false fields h
    have hbase : baseName "objc" u = (if u.targets.contains "objc" then u.name ++ "_base" else u.name) := by
      simp [baseName, hwf]
    have hcmp : membersOk "param" false [({ ty := .atom ("nonnull " ++ objcWantName c.objc u ++ " *"), name := "other" } : Want)]
        [({ ty := "nonnull " ++ objcWantName c.objc u ++ " *", name := "other" } : MemberS)] = [] := by
      apply membersOk_self <;> simp [printT]
    apply declOk_self <;> simp [wantObjc, objcSkel, objcDeclName_eq, DeclS.empty, Decl.info, codesOk_nil, itemsOk_self, hf, hctor]
    cases fields with
    | nil => cases o <;> simp [methodsOk, methodOk, membersOk_nil, hcmp, printT]
    | cons f fs =>
      simp only [List.map_cons] at hpar
      cases o <;> simp [methodsOk, methodOk, hpar, hbase, hcmp, printT]
  | error u codes =>
    have hfields : membersOk "field" false
        (codes.flatMap (fun k => k.params.map (fun p => ({ ty := .atom "NSErrorUserInfoKey", name := objcUserTypename c.objc u ++ convert c.objc.tyStyle k.name ++ convert c.objc.tyStyle p.name } : Want))))
        (codes.flatMap (fun k => k.params.map (fun p => ({ ty := "NSErrorUserInfoKey", name := objcUserTypename c.objc u ++ convert c.objc.tyStyle k.name ++ convert c.objc.tyStyle p.name } : MemberS)))) = [] := by
      apply membersOk_self <;> simp [List.map_flatMap, List.map_map, Function.comp_def, printT]
    apply declOk_self <;> simp [wantObjc, objcSkel, objcDeclName_eq, DeclS.empty, Decl.info, membersOk_nil, methodsOk_nil, codesOk_nil, itemsOk_self, hfields]


end Pydjinni.Gen

namespace Pydjinni.Gen
/-! ## the hypotheses are satisfiable: a concrete nested type, `map<string, list<i32?>>?` as a C++ parameter -/
def exStr : Builtin :=
  { name := "string", prim := .primitive, cppTypename := "std::string", cppHeader := "<string>", cppByValue := false, javaTypename := "String", javaBoxed := "String",
    javaReference := false, javaJ := .cls ["java", "lang"] "String" [], javaBoxedJ := .cls ["java", "lang"] "String" [], jniTranslator := "", jniTypename := "jstring",
    jniSig := "Ljava/lang/String;", jniBoxedSig := "Ljava/lang/String;", objcTypename := "NSString", objcBoxed := "NSString", objcPointer := true,
    cliTypename := "System::String", cliTranslator := "", cliReference := true }
def exInt : Builtin :=
  { name := "i32", prim := .primitive, cppTypename := "int32_t", cppHeader := "<cstdint>", cppByValue := true, javaTypename := "int", javaBoxed := "Integer",
    javaReference := false, javaJ := .prim "int", javaBoxedJ := .cls ["java", "lang"] "Integer" [], jniTranslator := "", jniTypename := "jint", jniSig := "I",
    jniBoxedSig := "Ljava/lang/Integer;", objcTypename := "int32_t", objcBoxed := "NSNumber", objcPointer := false, cliTypename := "int", cliTranslator := "", cliReference := false }
def exList : Builtin :=
  { name := "list", prim := .collection, cppTypename := "std::vector", cppHeader := "<vector>", cppByValue := false, javaTypename := "java.util.ArrayList",
    javaBoxed := "java.util.ArrayList", javaReference := true, javaJ := .cls ["java", "util"] "ArrayList" [], javaBoxedJ := .cls ["java", "util"] "ArrayList" [],
    jniTranslator := "", jniTypename := "jobject", jniSig := "Ljava/util/ArrayList;", jniBoxedSig := "Ljava/util/ArrayList;", objcTypename := "NSArray",
    objcBoxed := "NSArray", objcPointer := true, cliTypename := "System::Collections::Generic::List", cliTranslator := "", cliReference := true }
def exMap : Builtin :=
  { exList with
    name := "map", cppTypename := "std::unordered_map", javaTypename := "java.util.HashMap", javaBoxed := "java.util.HashMap",
    javaJ := .cls ["java", "util"] "HashMap" [], javaBoxedJ := .cls ["java", "util"] "HashMap" [], jniSig := "Ljava/util/HashMap;",
    jniBoxedSig := "Ljava/util/HashMap;", objcTypename := "NSDictionary", objcBoxed := "NSDictionary",
    cliTypename := "System::Collections::Generic::Dictionary" }
def exT : RType := .mk (.builtin exMap) [.mk (.builtin exStr) [] false, .mk (.builtin exList) [.mk (.builtin exInt) [] true] false] true
def exCpp : CppCfg :=
  { ns := ["a"], tyStyle := { case := .pascal }, enumStyle := { case := .train }, fileStyle := { case := .snake }, fieldStyle := { case := .snake },
    methodStyle := { case := .snake }, nsStyle := { case := .snake }, headerExt := "hpp", notNull := none }

example : exT.builtinsAll Builtin.cppOK = true ∧ exT.builtinsAll Builtin.javaOK = true ∧ exT.builtinsAll Builtin.objcOK = true ∧
    exT.builtinsAll Builtin.cliOK = true ∧ exT.genericsOk = true := by decide +kernel
example : cppSpec exCpp exT true true = "const std::optional<std::unordered_map<std::string, std::vector<std::optional<int32_t>>>> &" := by decide +kernel
example : printT (refCpp exCpp exT .param) = "const std::optional<std::unordered_map<std::string, std::vector<std::optional<int32_t>>>> &" := by decide +kernel
end Pydjinni.Gen
