import PydjinniModel.Gen.Fidelity
/-! # C02 — theorems (under construction) -/
namespace Pydjinni.Gen
end Pydjinni.Gen
