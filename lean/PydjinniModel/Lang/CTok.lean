/-!
# Whitespace-insensitive canonical form of a type expression in a C-family language

Tokens are maximal runs of identifier characters (`[A-Za-z0-9_]`) and single other non-blank characters;
the canonical form joins them with one blank.  Two spellings with the same canonical form differ only in
white space between tokens (never inside an identifier).  The Python side (`harness/ctok.py: canon_type`)
implements the same rule; C02's file-level comparison uses it on both the extracted and the expected types.
-/
namespace Pydjinni.Lang

def isWordC (c : Char) : Bool := c.isAlphanum || c == '_'
def isBlankC (c : Char) : Bool := c == ' ' || c == '\t' || c == '\n' || c == '\r'

/-- `cur` is the word being read, reversed -/
def tokGo (cur : List Char) : List Char → List (List Char)
  | [] => if cur.isEmpty then [] else [cur.reverse]
  | c :: cs =>
    if isWordC c then tokGo (c :: cur) cs
    else
      let flush := if cur.isEmpty then [] else [cur.reverse]
      if isBlankC c then flush ++ tokGo [] cs else flush ++ [[c]] ++ tokGo [] cs

def tokens (s : String) : List String := (tokGo [] s.toList).map String.ofList

def canon (s : String) : String := " ".intercalate (tokens s)

end Pydjinni.Lang
