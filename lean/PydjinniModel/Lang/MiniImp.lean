/-!
# MiniImp — the fragment of C++ / Java in which pydjinni writes the derived record operations

Expressions and straight-line statements over the fields of two records (`lhs`/`rhs` in C++, `this`/`other` in
Java), with an evaluator. A field value is `Option α`: `none` is C++ `std::nullopt` / Java `null`; `α` is the value
domain with the operations of the field types (`Ops`). Evaluation yields `ok v`, `npe` (Java
`NullPointerException`) or `stuck` (text that is not an expression, an ill-typed operand, control reaching the end of
a non-void function) — generated code that does not compile evaluates to `stuck`, so well-formedness is part of every
statement about results.

Constructs: field comparisons (`eqV`, `ltV`, `ltP`), null tests, the Java method calls on a field (`equals`,
`compareTo`, `hashCode` / the primitive hash expressions), `&&`, `||`, `!`, `?:`, 32-bit `+` and `*`, one local
variable (`hashCode` / `tempResult`), `return e;`, `if (c) { return e; }`, `v = e;`.
-/
namespace Pydjinni.Lang.MiniImp

inductive Side where
  | lhs
  | rhs
deriving Repr, BEq, DecidableEq

def Side.swap : Side → Side
  | .lhs => .rhs
  | .rhs => .lhs

/-- operations of the field value domain -/
structure Ops (α : Type) where
  eq : α → α → Bool          -- C++ `==` on the field type; Java `==` on primitives/enums, `.equals` on references
  lt : α → α → Bool          -- C++ `<`; Java `<` on primitives, sign of `.compareTo` on references
  hashPrim : α → Int         -- pydjinni's hash expression for a primitive field (`x`, `(int)(x ^ (x >>> 32))`, `(b ? 1 : 0)`, …)
  hashObj : α → Int          -- Java `x.hashCode()`
  str : α → String           -- Java string conversion

structure Env (φ α : Type) where
  l : φ → Option α
  r : φ → Option α

def Env.get {φ α : Type} (e : Env φ α) : Side → φ → Option α
  | .lhs => e.l
  | .rhs => e.r

def Env.swap {φ α : Type} (e : Env φ α) : Env φ α := ⟨e.r, e.l⟩

inductive Val where
  | bool (b : Bool)
  | int (n : Int)
deriving Repr, BEq, DecidableEq

inductive Res (β : Type) where
  | ok (v : β)
  | npe
  | stuck
deriving Repr, BEq, DecidableEq

inductive E (φ : Type) where
  | tt
  | ff
  | int (n : Int)
  | var                                   -- the local variable
  | eqV (f : φ)                           -- `lhs.f == rhs.f` (C++, any field type incl. `std::optional`; Java `this.f == other.f` on primitives / enums)
  | ltV (s : Side) (f : φ)                -- C++ `s.f < s'.f` (`std::nullopt` is less than any value)
  | ltP (s : Side) (f : φ)                -- Java `s.f < s'.f` on (unboxed) primitives: a `null` operand throws
  | isNull (s : Side) (f : φ)
  | notNull (s : Side) (f : φ)
  | equalsF (f : φ)                       -- Java `this.f.equals(other.f)` / `java.util.Arrays.equals(f, other.f)`
  | compareF (f : φ)                      -- Java `this.f.compareTo(other.f)`
  | hashPrimF (f : φ)                     -- primitive hash expression of `this.f`
  | hashObjF (f : φ)                      -- `this.f.hashCode()`
  | and (a b : E φ)
  | or (a b : E φ)
  | not (a : E φ)
  | cond (c a b : E φ)
  | add (a b : E φ)
  | mul (a b : E φ)
  | neZero (a : E φ)
  | bad                                   -- text that is not an expression
deriving Repr

inductive S (φ : Type) where
  | ret (e : E φ)
  | ifRet (c e : E φ)
  | set (e : E φ)
deriving Repr

/-- Java `int` arithmetic -/
def wrap32 (n : Int) : Int := (n + 2147483648) % 4294967296 - 2147483648

def optEq {α : Type} (ops : Ops α) : Option α → Option α → Bool
  | none, none => true
  | some x, some y => ops.eq x y
  | _, _ => false

def optLt {α : Type} (ops : Ops α) : Option α → Option α → Bool
  | none, some _ => true
  | some x, some y => ops.lt x y
  | _, _ => false

def cmpSign {α : Type} (ops : Ops α) (x y : α) : Int :=
  if ops.lt x y then -1 else if ops.lt y x then 1 else 0

def evalE {φ α : Type} (ops : Ops α) (env : Env φ α) (v : Int) : E φ → Res Val
  | .tt => .ok (.bool true)
  | .ff => .ok (.bool false)
  | .int n => .ok (.int n)
  | .var => .ok (.int v)
  | .eqV f => .ok (.bool (optEq ops (env.l f) (env.r f)))
  | .ltV s f => .ok (.bool (optLt ops (env.get s f) (env.get s.swap f)))
  | .ltP s f =>
    match env.get s f, env.get s.swap f with
    | some x, some y => .ok (.bool (ops.lt x y))
    | _, _ => .npe
  | .isNull s f => .ok (.bool (env.get s f).isNone)
  | .notNull s f => .ok (.bool (env.get s f).isSome)
  | .equalsF f =>
    match env.l f with
    | none => .npe
    | some x => match env.r f with
      | none => .ok (.bool false)
      | some y => .ok (.bool (ops.eq x y))
  | .compareF f =>
    match env.l f, env.r f with
    | some x, some y => .ok (.int (cmpSign ops x y))
    | _, _ => .npe
  | .hashPrimF f =>
    match env.l f with
    | some x => .ok (.int (ops.hashPrim x))
    | none => .npe
  | .hashObjF f =>
    match env.l f with
    | some x => .ok (.int (ops.hashObj x))
    | none => .npe
  | .and a b =>
    match evalE ops env v a with
    | .ok (.bool false) => .ok (.bool false)
    | .ok (.bool true) => (match evalE ops env v b with | .ok (.bool y) => .ok (.bool y) | .ok _ => .stuck | r => r)
    | .ok _ => .stuck
    | r => r
  | .or a b =>
    match evalE ops env v a with
    | .ok (.bool true) => .ok (.bool true)
    | .ok (.bool false) => (match evalE ops env v b with | .ok (.bool y) => .ok (.bool y) | .ok _ => .stuck | r => r)
    | .ok _ => .stuck
    | r => r
  | .not a =>
    match evalE ops env v a with
    | .ok (.bool x) => .ok (.bool (!x))
    | .ok _ => .stuck
    | r => r
  | .cond c a b =>
    match evalE ops env v c with
    | .ok (.bool true) => evalE ops env v a
    | .ok (.bool false) => evalE ops env v b
    | .ok _ => .stuck
    | r => r
  | .add a b =>
    match evalE ops env v a, evalE ops env v b with
    | .ok (.int x), .ok (.int y) => .ok (.int (wrap32 (x + y)))
    | .npe, _ => .npe
    | .ok _, .npe => .npe
    | _, _ => .stuck
  | .mul a b =>
    match evalE ops env v a, evalE ops env v b with
    | .ok (.int x), .ok (.int y) => .ok (.int (wrap32 (x * y)))
    | .npe, _ => .npe
    | .ok _, .npe => .npe
    | _, _ => .stuck
  | .neZero a =>
    match evalE ops env v a with
    | .ok (.int x) => .ok (.bool (x != 0))
    | .ok _ => .stuck
    | r => r
  | .bad => .stuck

/-- run a function body; `v` is the current value of the local variable -/
def exec {φ α : Type} (ops : Ops α) (env : Env φ α) : Int → List (S φ) → Res Val
  | _, [] => .stuck
  | v, .ret e :: _ => evalE ops env v e
  | v, .ifRet c e :: rest =>
    match evalE ops env v c with
    | .ok (.bool true) => evalE ops env v e
    | .ok (.bool false) => exec ops env v rest
    | .ok _ => .stuck
    | r => r
  | v, .set e :: rest =>
    match evalE ops env v e with
    | .ok (.int x) => exec ops env x rest
    | .ok _ => .stuck
    | r => r

def run {φ α : Type} (ops : Ops α) (env : Env φ α) (body : List (S φ)) : Res Val := exec ops env 0 body

end Pydjinni.Lang.MiniImp
