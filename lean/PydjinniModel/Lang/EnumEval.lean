/-!
# Enumerator evaluation (C / C++ / Objective-C / C++-CLI rule), as far as pydjinni's templates need it

An enumerator list is evaluated left to right. An initialiser may use integer literals, `<<`, `|`
and the names of enumerators declared *earlier in the same list* (sequential scope: a name that is
declared later — or not at all — is a use before declaration, the value is undefined, i.e. the
translation unit is ill-formed). An enumerator without initialiser is the previous one plus one
(zero for the first). Text that is not an expression (`0 | ` followed by nothing) is `bad`.

Validated against g++ by the `static_assert` translation unit of the C08 check on every run.
-/
namespace Pydjinni.Lang

inductive EExpr where
  | lit (n : Nat)
  | ref (name : String)
  | shl (a b : EExpr)
  | bor (a b : EExpr)
  | bad
deriving Repr, BEq, Inhabited

/-- the enumerators declared so far whose value is defined -/
abbrev EScope := List (String × Nat)

def EScope.lookup (env : EScope) (x : String) : Option Nat :=
  match env.find? (fun p => p.1 == x) with
  | some p => some p.2
  | none => none

def EExpr.eval (env : EScope) : EExpr → Option Nat
  | .lit n => some n
  | .ref x => env.lookup x
  | .shl a b =>
    match a.eval env, b.eval env with
    | some x, some y => some (x <<< y)
    | _, _ => none
  | .bor a b =>
    match a.eval env, b.eval env with
    | some x, some y => some (x ||| y)
    | _, _ => none
  | .bad => none

structure Enumerator where
  name : String
  init : Option EExpr
deriving Repr, BEq, Inhabited

/-- value of one enumerator in the scope of the earlier ones; `next` = previous value + 1 -/
def enumeratorValue (env : EScope) (next : Option Nat) (e : Enumerator) : Option Nat :=
  match e.init with
  | some x => x.eval env
  | none => next

def extend (env : EScope) (name : String) : Option Nat → EScope
  | some n => (name, n) :: env
  | none => env

def succOpt : Option Nat → Option Nat
  | some n => some (n + 1)
  | none => none

/-- sequential-scope evaluation of an enumerator list: `(name, value | undefined)` per enumerator -/
def evalFrom (env : EScope) (next : Option Nat) : List Enumerator → List (String × Option Nat)
  | [] => []
  | e :: es =>
    let v := enumeratorValue env next e
    (e.name, v) :: evalFrom (extend env e.name v) (succOpt v) es

def evalEnum (es : List Enumerator) : List (String × Option Nat) := evalFrom [] (some 0) es

end Pydjinni.Lang
