/-!
# A tiny formal fragment of C-family / Java lexing: comments, string and character literals

Only what property C12 needs: where a comment ends, where a string literal ends, and what
happens *before* comment recognition:

* C, C++, Objective-C, C++/CLI — translation phase 2: a backslash that is followed by a newline is
  deleted together with the newline (line splicing), **before** comments are recognised. g++ and
  clang also splice when horizontal white space stands between the backslash and the newline
  (`warning: backslash and newline separated by space`); the model follows the compilers.
* Java — JLS §3.3: `\uXXXX` escapes are translated before anything else; a backslash that is
  preceded by an even number of backslashes and followed by `u` must continue as `u+ hex hex hex hex`,
  otherwise the compilation unit is rejected ("illegal unicode escape"), even inside a comment.
  Java has no line splicing.

Both lexers are character-at-a-time machines, so that `run (a ++ b)` is `run a` followed by `run b`
from the state `a` ended in (`run_append`); tokens carry no payload except single code characters.
A block comment ends at the first `*/`, a line comment at the first newline (`\n` or `\r`) that
survives splicing, a string literal at the first `"` that is not preceded by an escaping backslash;
a newline inside a literal and an unterminated comment/literal are `.err`.
-/
namespace Pydjinni.Lang.CLex

inductive Tok
  | ch (c : Char)            -- one character of ordinary code (white space included)
  | comment
  | str (bad : Bool)         -- string literal; `bad` = contains an escape sequence that is not a C escape
  | chr (bad : Bool)         -- character literal
  | err                      -- unterminated comment / literal, newline inside a literal
deriving DecidableEq, Repr, Inhabited

inductive Mode
  | code | slash | line | block | blockStar
  | str (bad : Bool) | strEsc (bad : Bool)
  | chr (bad : Bool) | chrEsc (bad : Bool)
deriving DecidableEq, Repr, Inhabited

def isHSpace (c : Char) : Bool := c == ' ' || c == '\t' || c == '\x0b' || c == '\x0c'

/-- first characters of the escape sequences of C/C++ (simple, octal, `\x`, `\u`, `\U`) -/
def validEsc (c : Char) : Bool :=
  c == '\'' || c == '"' || c == '?' || c == '\\' || c == 'a' || c == 'b' || c == 'f' || c == 'n' || c == 'r' ||
  c == 't' || c == 'v' || c == 'x' || c == 'u' || c == 'U' || ('0' ≤ c && c ≤ '7')

/-- the comment / literal machine on one character that survived phase 1/2 -/
def feed : Mode → Char → Mode × List Tok
  | .code, c =>
    if c = '/' then (.slash, []) else if c = '"' then (.str false, []) else if c = '\'' then (.chr false, [])
    else (.code, [.ch c])
  | .slash, c =>
    if c = '/' then (.line, []) else if c = '*' then (.block, [])
    else if c = '"' then (.str false, [.ch '/']) else if c = '\'' then (.chr false, [.ch '/'])
    else (.code, [.ch '/', .ch c])
  | .line, c => if c = '\n' ∨ c = '\r' then (.code, [.comment, .ch c]) else (.line, [])
  | .block, c => if c = '*' then (.blockStar, []) else (.block, [])
  | .blockStar, c => if c = '/' then (.code, [.comment]) else if c = '*' then (.blockStar, []) else (.block, [])
  | .str b, c =>
    if c = '"' then (.code, [.str b]) else if c = '\\' then (.strEsc b, [])
    else if c = '\n' ∨ c = '\r' then (.code, [.err, .ch c]) else (.str b, [])
  | .strEsc b, c => if c = '\n' ∨ c = '\r' then (.code, [.err, .ch c]) else (.str (b || !validEsc c), [])
  | .chr b, c =>
    if c = '\'' then (.code, [.chr b]) else if c = '\\' then (.chrEsc b, [])
    else if c = '\n' ∨ c = '\r' then (.code, [.err, .ch c]) else (.chr b, [])
  | .chrEsc b, c => if c = '\n' ∨ c = '\r' then (.code, [.err, .ch c]) else (.chr (b || !validEsc c), [])

def feedAll (m : Mode) : List Char → Mode × List Tok
  | [] => (m, [])
  | c :: cs => ((feedAll (feed m c).1 cs).1, (feed m c).2 ++ (feedAll (feed m c).1 cs).2)

/-- lexer state: the mode, the held-back characters `\\ hspace*` that will vanish if a newline follows, and whether
    the line splice just performed ended in `\r` (a directly following `\n` belongs to the same line ending) -/
structure St where
  mode : Mode
  pend : List Char
  cr : Bool := false
deriving DecidableEq, Repr, Inhabited

def init : St := ⟨.code, [], false⟩

/-- one source character. `splice = true`: C family (phase 2 line splicing, for g++ and clang also across horizontal
    white space, at `\n`, `\r` or `\r\n`); `false`: Java -/
def step (splice : Bool) (s : St) (c : Char) : St × List Tok :=
  if s.cr = true ∧ c = '\n' then (⟨s.mode, [], false⟩, [])
  else if s.pend = [] then
    if splice = true ∧ c = '\\' then (⟨s.mode, [c], false⟩, [])
    else (⟨(feed s.mode c).1, [], false⟩, (feed s.mode c).2)
  else if c = '\n' then (⟨s.mode, [], false⟩, [])
  else if c = '\r' then (⟨s.mode, [], true⟩, [])
  else if isHSpace c = true then (⟨s.mode, s.pend ++ [c], false⟩, [])
  else if c = '\\' then (⟨(feedAll s.mode s.pend).1, [c], false⟩, (feedAll s.mode s.pend).2)
  else (⟨(feed (feedAll s.mode s.pend).1 c).1, [], false⟩, (feedAll s.mode s.pend).2 ++ (feed (feedAll s.mode s.pend).1 c).2)

def run (splice : Bool) (s : St) : List Char → St × List Tok
  | [] => (s, [])
  | c :: cs => ((run splice (step splice s c).1 cs).1, (step splice s c).2 ++ (run splice (step splice s c).1 cs).2)

/-- end of input: release what was held back; a line comment may end at end of file -/
def finish (s : St) : List Tok :=
  (feedAll s.mode s.pend).2 ++
    match (feedAll s.mode s.pend).1 with
    | .code => []
    | .slash => [.ch '/']
    | .line => [.comment]
    | _ => [.err]

def lexFrom (splice : Bool) (s : St) (cs : List Char) : List Tok :=
  (run splice s cs).2 ++ finish (run splice s cs).1

/-- C / C++ / Objective-C / C++-CLI -/
def lexC (cs : List Char) : List Tok := lexFrom true init cs

/-! ## Java: Unicode escape translation (JLS §3.3), then the same machine without splicing -/

def hexVal? (c : Char) : Option Nat :=
  if '0' ≤ c ∧ c ≤ '9' then some (c.toNat - '0'.toNat)
  else if 'a' ≤ c ∧ c ≤ 'f' then some (c.toNat - 'a'.toNat + 10)
  else if 'A' ≤ c ∧ c ≤ 'F' then some (c.toNat - 'A'.toNat + 10)
  else none

inductive UMode
  | normal                 -- the next backslash is eligible (an even number of backslashes precede it)
  | bs                     -- an eligible backslash is held back
  | us                     -- `\u`, `\uu`, … seen
  | hex (n acc : Nat)      -- `n` hex digits (1..3) collected
deriving DecidableEq, Repr, Inhabited

/-- `none`: illegal unicode escape -/
def ustep : UMode → Char → Option (UMode × List Char)
  | .normal, c => if c = '\\' then some (.bs, []) else some (.normal, [c])
  | .bs, c => if c = 'u' then some (.us, []) else some (.normal, ['\\', c])
  | .us, c =>
    if c = 'u' then some (.us, []) else
    match hexVal? c with
    | some v => some (.hex 1 v, [])
    | none => none
  | .hex n acc, c =>
    match hexVal? c with
    | some v => if n = 3 then some (.normal, [Char.ofNat (acc * 16 + v)]) else some (.hex (n + 1) (acc * 16 + v), [])
    | none => none

def urun (m : UMode) : List Char → Option (UMode × List Char)
  | [] => some (m, [])
  | c :: cs =>
    match ustep m c with
    | none => none
    | some r =>
      match urun r.1 cs with
      | none => none
      | some r2 => some (r2.1, r.2 ++ r2.2)

def ufinish : UMode → Option (List Char)
  | .normal => some []
  | .bs => some ['\\']
  | _ => none

/-- the translated character stream, `none` if the unit contains an illegal unicode escape -/
def unicodePre (cs : List Char) : Option (List Char) :=
  match urun .normal cs with
  | none => none
  | some r => match ufinish r.1 with
    | none => none
    | some t => some (r.2 ++ t)

def lexJava (cs : List Char) : Option (List Tok) :=
  match unicodePre cs with
  | none => none
  | some cs' => some (lexFrom false init cs')

/-! ## decoding the escapes the deprecation builders produce -/

/-- decoder of the escape sequences `string_literal` writes
    (`\\\\ \\" \\n \\r \\v \\f \\034 \\035 \\036 \\205 \\u2028 \\u2029`); anything else after a backslash is `.bad` -/
inductive DMode
  | plain | esc | o0 | o03 | o2 | o20 | u | u2 | u20 | u202 | bad
deriving DecidableEq, Repr, Inhabited

def dstep : DMode → Char → DMode × List Char
  | .plain, c => if c = '\\' then (.esc, []) else (.plain, [c])
  | .esc, c =>
    if c = '\\' then (.plain, ['\\']) else if c = '"' then (.plain, ['"']) else if c = 'n' then (.plain, ['\n'])
    else if c = 'r' then (.plain, ['\r']) else if c = 'v' then (.plain, ['\x0b']) else if c = 'f' then (.plain, ['\x0c'])
    else if c = '0' then (.o0, []) else if c = '2' then (.o2, []) else if c = 'u' then (.u, []) else (.bad, [])
  | .o0, c => if c = '3' then (.o03, []) else (.bad, [])
  | .o03, c =>
    if c = '4' then (.plain, ['\x1c']) else if c = '5' then (.plain, ['\x1d']) else if c = '6' then (.plain, ['\x1e'])
    else (.bad, [])
  | .o2, c => if c = '0' then (.o20, []) else (.bad, [])
  | .o20, c => if c = '5' then (.plain, ['\x85']) else (.bad, [])
  | .u, c => if c = '2' then (.u2, []) else (.bad, [])
  | .u2, c => if c = '0' then (.u20, []) else (.bad, [])
  | .u20, c => if c = '2' then (.u202, []) else (.bad, [])
  | .u202, c => if c = '8' then (.plain, ['\u2028']) else if c = '9' then (.plain, ['\u2029']) else (.bad, [])
  | .bad, _ => (.bad, [])

def drun (m : DMode) : List Char → DMode × List Char
  | [] => (m, [])
  | c :: cs => ((drun (dstep m c).1 cs).1, (dstep m c).2 ++ (drun (dstep m c).1 cs).2)

/-- value of the body of a string literal; `none` if it uses another escape sequence or ends inside one -/
def unescape (cs : List Char) : Option (List Char) :=
  if (drun .plain cs).1 = .plain then some (drun .plain cs).2 else none

end Pydjinni.Lang.CLex
