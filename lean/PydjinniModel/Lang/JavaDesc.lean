import PydjinniModel.Gen.Types
/-!
# A tiny formal fragment of Java: source types, erasure, JVM descriptors, JNI C types, JNI short names

Hand-written from JVMS §4.3 (descriptors), JLS §4.6 (erasure of a parameterised type is its raw type)
and the JNI specification ("Resolving Native Method Names", "Primitive Types" / "Reference Types").
Validated against `javac` + `javap -s -p` by the C07 check on every compiled program.
Type annotations do not appear in `JType` (they do not influence descriptors).
-/
namespace Pydjinni.Gen

mutual
/-- Java source spelling of a type, the way the generators spell it: fully qualified, except that
    `java.lang` is implicit -/
def printJ : JType → String
  | .prim p => p
  | .cls pkg name args =>
    let q := if pkg == ["java", "lang"] then name else joinS "." (pkg ++ [name])
    if args.isEmpty then q else q ++ "<" ++ joinS ", " (printJs args) ++ ">"
  | .arr e => printJ e ++ "[]"
def printJs : List JType → List String
  | [] => []
  | t :: ts => printJ t :: printJs ts
end

def primDesc : String → String
  | "boolean" => "Z" | "byte" => "B" | "char" => "C" | "short" => "S" | "int" => "I"
  | "long" => "J" | "float" => "F" | "double" => "D" | p => "?" ++ p

/-- JVM field descriptor of the erasure of a type -/
def desc : JType → String
  | .prim p => primDesc p
  | .cls pkg name _ => "L" ++ joinS "/" (pkg ++ [name]) ++ ";"
  | .arr e => "[" ++ desc e

def descO : Option JType → String
  | none => "V"
  | some t => desc t

/-- JVM method descriptor -/
def methodDesc (params : List JType) (ret : Option JType) : String :=
  "(" ++ concatS (params.map desc) ++ ")" ++ descO ret

/-- the C type a native method's parameter / result of this Java type has (JNI spec, chapter 3) -/
def jniCType : JType → String
  | .prim "boolean" => "jboolean" | .prim "byte" => "jbyte" | .prim "char" => "jchar"
  | .prim "short" => "jshort" | .prim "int" => "jint" | .prim "long" => "jlong"
  | .prim "float" => "jfloat" | .prim "double" => "jdouble"
  | .prim p => "?" ++ p
  | .cls ["java", "lang"] "String" _ => "jstring"
  | .cls ["java", "lang"] "Throwable" _ => "jthrowable"
  | .cls ["java", "lang"] "Class" _ => "jclass"
  | .cls _ _ _ => "jobject"
  | .arr (.prim "byte") => "jbyteArray"
  | .arr (.prim "boolean") => "jbooleanArray"
  | .arr (.prim "char") => "jcharArray"
  | .arr (.prim "short") => "jshortArray"
  | .arr (.prim "int") => "jintArray"
  | .arr (.prim "long") => "jlongArray"
  | .arr (.prim "float") => "jfloatArray"
  | .arr (.prim "double") => "jdoubleArray"
  | .arr _ => "jobjectArray"

def jniCTypeO : Option JType → String
  | none => "void"
  | some t => jniCType t

/-- JNI short-name escaping of one name component (`_` → `_1`, `$` → `_00024`; `;` `[` and non-ASCII do not
    occur in the names pydjinni emits) -/
def mangleL : List Char → List Char
  | [] => []
  | c :: cs => (if c = '_' then ['_', '1'] else if c = '$' then ['_', '0', '0', '0', '2', '4'] else [c]) ++ mangleL cs

def mangle (s : String) : String := String.ofList (mangleL s.toList)

/-- `Java_<escaped package components and class>_<escaped method>` from the structured class name (package components
    and the binary simple name, nested classes with `$`) -/
def nativeSymbolL (segments : List String) (method : String) : String :=
  "Java_" ++ joinS "_" (segments.map mangle) ++ "_" ++ mangle method

/-- `Java_<mangled fully-qualified class>_<mangled method>`; `cls` is the binary name with `/` separators
    (nested classes with `$`) -/
def nativeSymbol (cls : String) (method : String) : String :=
  "Java_" ++ joinS "_" ((cls.splitOn "/").map mangle) ++ "_" ++ mangle method

end Pydjinni.Gen
