import PydjinniModel.Drv.SysJson
/-!
Driver handlers for property C14.

* `c14.run`  — the model's prediction for one run: write log, report, file system afterwards
* `c14.spec` — the specification evaluated on what the implementation did
* `c14.callspec` — its placement clauses for one call of a multi-context stream on one API object
-/
namespace Pydjinni.Drv.C14
open Lean Pydjinni.GenC Pydjinni.SysC Pydjinni.Drv.SysJson

structure Req where
  run : RunCfg
  reportPath : Option Path
  reads : List Path
  exts : List Path
  before : FSys
  links : Links := []       -- symbolic links to directories on the input side (absent: none)

def decodeReq (req : Json) : Except String Req := do
  let cwd ← req.getObjValAs? String "cwd"
  let gens ← req.getObjVal? "gens" >>= decodeGens
  let ts ← getStrs req "targets"
  let targets ← ts.mapM decodeT
  let clean ← req.getObjValAs? Bool "clean"
  let supportLib ← req.getObjValAs? Bool "supportLib"
  let support ← req.getObjVal? "support" >>= decodeSupport
  let defs ← decodeDecls req "defs"
  let report ← optStr req "report"
  let reads ← getStrs req "reads"
  let exts ← getStrs req "exts"
  let before ← getStrs req "before"
  let links ← match req.getObjVal? "links" with
    | .ok (Json.arr a) => a.toList.mapM (fun j => do
        let l ← j.getArrVal? 0 >>= (·.getStr?)
        let t ← j.getArrVal? 1 >>= (·.getStr?)
        pure (absParts l, absParts t))
    | _ => pure []
  pure { run := { cwd := absParts cwd, gens, targets, clean, support := if supportLib then support else fun _ => [], defs },
         reportPath := report.map Path.ofString, reads := reads.map Path.ofString, exts := exts.map Path.ofString,
         before := before.map absParts, links }

def absJ (p : List String) : Json := Json.str ("/" ++ "/".intercalate p)

def genFilesJ (g : GenFiles) : Json :=
  Json.mkObj [("include_dir", pathJ g.includeDir), ("source_dir", pathJ g.sourceDir), ("header", pathsJ g.header), ("source", pathsJ g.source)]

/-- the `parse` part of the run: directories of every configured generator, inputs read -/
def parseOps (r : RunCfg) (reads exts : List Path) : List (FOp Unit) :=
  let cfg : Cfg := { gens := r.gens }
  cfg.generators.flatMap (fun g => match r.gens g with
    | some gc => (if g.writesHeader then [FOp.setInclude g.key gc.out.header] else []) ++ [FOp.setSource g.key gc.out.source]
    | none => [])
  ++ reads.map FOp.readIdl ++ exts.map FOp.readExt

def run (q : Req) : Json :=
  let s0 : FRW Unit := { keys := G.all.map G.key }
  let s1 := s0.run (parseOps q.run q.reads q.exts)
  let (s2, fs) := runTargets q.run (s1, q.before)
  let rep := s2.report
  let (s3, fs3) := match q.reportPath with
    | some p => (s2.step (.writeReport p ()), addFiles fs [resolve q.run.cwd p])
    | none => (s2, fs)
  let relClean := q.run.generators.all (fun g => match q.run.gens g with
    | some c => (genRel g c c (q.run.support g) q.run.defs).all (fun f => f.2.clean)
    | none => true)
  Json.mkObj [
    ("log", pathsJ (s3.log.map (·.1))),
    ("report", Json.mkObj [("idl", pathsJ rep.idl), ("ext", pathsJ rep.ext),
      ("generated", Json.mkObj (rep.generated.map (fun (k, g) => (k, genFilesJ g))))]),
    ("after", Json.arr (fs3.map absJ).toArray),
    ("relNamesClean", relClean)]

/-! ### specification on the implementation's observation -/

structure ImplGen where
  key : String
  includeDir : Option String
  sourceDir : Option String
  header : List String
  source : List String

def decodeImplGen (k : String) (j : Json) : Except String ImplGen := do
  let inc ← optStr j "include_dir"
  let src ← optStr j "source_dir"
  let h := (getStrs j "header").toOption.getD []
  let s := (getStrs j "source").toOption.getD []
  pure { key := k, includeDir := inc, sourceDir := src, header := h, source := s }

def count (l : List (List String)) (x : List String) : Nat := (l.filter (· == x)).length
def sameMultiset (a b : List (List String)) : Bool := a.length == b.length && a.all (fun x => count a x == count b x)
def dedupL (l : List (List String)) : List (List String) := l.foldl (fun acc x => if acc.contains x then acc else acc ++ [x]) []

/-- a written path repeats the (relative) output directory after the output directory -/
def doubled (cwd : List String) (dir : Path) (written : Path) : Bool :=
  !dir.abs && !dir.parts.isEmpty &&
    (resolve cwd (dir.join dir)).isPrefixOf (resolve cwd written)

/-- clauses 1–3 of the specification — where the writes of the observed calls went, what else changed on disk — for the
    calls described by `q` (configuration of the *generating* context, targets generated, `clean`, report path) -/
def placementFails (q : Req) (logS created deleted : List String) : List (String × String) := Id.run do
  let cwd := q.run.cwd
  let res (s : String) := resolve cwd (Path.ofString s)
  let active := q.run.generators.filterMap (fun g => (q.run.gens g).map (fun c => (g, c)))
  let dirs : List Path := active.flatMap (fun (_, c) => [c.out.header, c.out.source])
  let rdirs := dirs.map (resolve cwd)
  let reportAbs := q.reportPath.map (resolve cwd)
  let isReport (p : List String) := reportAbs == some p
  let underSome (p : List String) := rdirs.any (fun d => under d p)
  let log := logS.map res
  let mut fails : List (String × String) := []
  -- 1. every write lands below a configured output directory (or is the report)
  for p in logS do
    if !(underSome (res p) || isReport (res p)) then
      fails := fails ++ [("write-outside-out", p)]
  -- 2. <out>/<relative name>, not <out>/<out>/<relative name>
  for p in logS do
    if dirs.any (fun d => doubled cwd d (Path.ofString p)) then
      fails := fails ++ [("double-prefix", p)]
  -- 3. nothing else is created or changed; deletions only by `clean`, only below the cleaned directories
  for p in created do
    if !(log.contains (absParts p)) then fails := fails ++ [("touched-outside", p)]
  for p in deleted do
    if !(q.run.clean && underSome (absParts p)) then fails := fails ++ [("deleted-outside", p)]
  return fails

/-- `c14.callspec`: the specification for ONE call of a stream of calls on one API object with several configured
    contexts. `gens` / `report` are those of the context the call belongs to (for `generate`: the context that parsed
    the result it generates from), `targets` is `[t]` for `generate(t)` and `[]` otherwise, `report` is only given for a
    report call. Every write lands below the output directories of *that* context's generators of the target, nothing
    else is created, changed or deleted, and `clean` leaves nothing that was below these directories before and has
    not been written again. -/
def callspec (req : Json) : Except String Json := do
  let q ← decodeReq req
  let impl ← req.getObjVal? "impl"
  let logS ← getStrs impl "log"
  let created ← getStrs impl "created"
  let deleted ← getStrs impl "deleted"
  let mut fails := placementFails q logS created deleted
  let cwd := q.run.cwd
  let active := q.run.generators.filterMap (fun g => (q.run.gens g).map (fun c => (g, c)))
  let rdirs := (active.flatMap (fun (_, c) => [c.out.header, c.out.source])).map (resolve cwd)
  let log := logS.map (fun s => resolve cwd (Path.ofString s))
  if q.run.clean then
    for p in q.before do
      if rdirs.any (fun d => under d p) && !(deleted.map absParts).contains p && !log.contains p then
        fails := fails ++ [("clean-left-stale", "/" ++ "/".intercalate p)]
  -- a generate call for a configured target writes something
  if !q.run.targets.isEmpty && logS.isEmpty then
    fails := fails ++ [("nothing-written", ",".intercalate (q.run.targets.map T.key))]
  pure (Json.mkObj [("holds", fails.isEmpty),
    ("fails", Json.arr (fails.map (fun (k, d) => Json.mkObj [("key", k), ("detail", d)])).toArray)])

def spec (req : Json) : Except String Json := do
  let q ← decodeReq req
  let impl ← req.getObjVal? "impl"
  let logS ← getStrs impl "log"
  let created ← getStrs impl "created"      -- absolute paths that exist afterwards and did not before, or changed
  let deleted ← getStrs impl "deleted"
  let rep ← impl.getObjVal? "report"
  let repIdl ← getStrs rep "idl"
  let repExt ← getStrs rep "ext"
  let genJ ← rep.getObjVal? "generated"
  let genObj ← genJ.getObj?
  let gens ← genObj.toList.mapM (fun (k, v) => decodeImplGen k v)
  let expIdl ← getStrs req "expectIdl"
  let expExt ← getStrs req "expectExt"
  let cwd := q.run.cwd
  let res (s : String) := resolve cwd (Path.ofString s)
  let active := q.run.generators.filterMap (fun g => (q.run.gens g).map (fun c => (g, c)))
  let reportAbs := q.reportPath.map (resolve cwd)
  let isReport (p : List String) := reportAbs == some p
  -- 1.–3. placement of the writes, nothing else touched
  let mut fails := placementFails q logS created deleted
  -- 4. the report lists exactly the writes, per generator, with its directories
  let listed := gens.flatMap (fun g => g.header ++ g.source)
  let logNoReport := (logS.filter (fun p => !isReport (res p)))
  if !(sameMultiset (listed.map res) (logNoReport.map res)) then
    fails := fails ++ [("report-not-log", s!"listed {listed.length} logged {logNoReport.length}")]
  for g in gens do
    match active.find? (fun (a, _) => a.key == g.key) with
    | none => fails := fails ++ [("report-unknown-generator", g.key)]
    | some (a, c) =>
      if a.writesHeader && g.includeDir.map Path.ofString != some c.out.header then fails := fails ++ [("report-dir", g.key ++ " include_dir")]
      if g.sourceDir.map Path.ofString != some c.out.source then fails := fails ++ [("report-dir", g.key ++ " source_dir")]
      for p in g.header do
        if !(under (resolve cwd c.out.header) (res p)) then fails := fails ++ [("report-wrong-generator", p)]
      for p in g.source do
        if !(under (resolve cwd c.out.source) (res p)) then fails := fails ++ [("report-wrong-generator", p)]
  for (a, _) in active do
    if !(gens.any (fun g => g.key == a.key)) then fails := fails ++ [("report-generator-missing", a.key)]
  -- 5. inputs: the root, every transitively imported file, every @extern file — each once. An entry counts for the file
  --    it *denotes* (the walk of the operating system through the declared symbolic links; without links: `resolve`,
  --    `physResolve_nil`); `expectIdl` / `expectExt` name the files read by their link-free paths
  let den (s : String) := physResolve q.links cwd (Path.ofString s)
  let gotIdl := repIdl.map den
  let wantIdl := expIdl.map absParts
  if !(sameMultiset gotIdl wantIdl) then
    fails := fails ++ [(if (dedupL gotIdl).length != gotIdl.length then "report-idl-duplicate" else "report-idl", s!"{repIdl}")]
  let gotExt := repExt.map den
  let wantExt := expExt.map absParts
  if !(sameMultiset gotExt wantExt) then
    fails := fails ++ [(if gotExt.length < wantExt.length then "report-extern-missing" else "report-extern", s!"{repExt}")]
  -- 6. the report against the files on disk afterwards, per generator: every file listed exists; with `clean`, a
  --    generator that ran lists *all* files below its directories (`genStep_clean_disk_eq_writes`) — as long as no other
  --    active generator's directory is nested with them (Dom outDirsDisjoint)
  let after : FSys := addFiles (q.before.filter (fun f => !(deleted.map absParts).contains f)) (created.map absParts)
  let allDirs := active.flatMap (fun (a, c) => [(a.key, resolve cwd c.out.header), (a.key, resolve cwd c.out.source)])
  for g in gens do
    match active.find? (fun (a, _) => a.key == g.key) with
    | none => pure ()
    | some (_, c) =>
      let listed := (g.header ++ g.source).map res
      for p in listed do
        if !after.contains p then fails := fails ++ [("report-lists-missing-file", g.key ++ " " ++ "/" ++ "/".intercalate p)]
      let mine := [resolve cwd c.out.header, resolve cwd c.out.source]
      let nested := allDirs.any (fun (k, d) => k != g.key && mine.any (fun m => m == d || under m d || under d m))
      if q.run.clean && !nested then
        let unlisted := after.filter (fun f => mine.any (fun m => under m f) && !listed.contains f)
        match unlisted with
        | [] => pure ()
        | f :: _ => fails := fails ++ [("on-disk-not-reported",
            s!"{g.key}: {unlisted.length} file(s) below its directories are not listed ({listed.length} are), first /{"/".intercalate f}")]
  pure (Json.mkObj [("holds", fails.isEmpty),
    ("fails", Json.arr (fails.map (fun (k, d) => Json.mkObj [("key", k), ("detail", d)])).toArray),
    -- the file every input entry denotes by the model's walk (compared with `os.path.realpath` in the worker)
    ("denIdl", Json.arr (gotIdl.map absJ).toArray), ("denExt", Json.arr (gotExt.map absJ).toArray)])

def handle (op : String) (req : Json) : Except String Json :=
  match op with
  | "c14.run" => do let q ← decodeReq req; pure (run q)
  | "c14.spec" => spec req
  | "c14.callspec" => callspec req
  | _ => throw s!"unknown op {op}"

end Pydjinni.Drv.C14
