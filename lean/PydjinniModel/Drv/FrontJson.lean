import Lean.Data.Json
import PydjinniModel.Front.Imports
import PydjinniModel.Front.Comment
import PydjinniModel.Front.Names
/-!
JSON glue shared by the front-end driver handlers (C03–C06, C11, C16, C18): the canonical AST
dump compared with the implementation's AST, request decoding for the multi-file front end, and
outcome encoding.
-/
namespace Pydjinni.Drv.FrontJson
open Lean Pydjinni.Front

def posJ (p : Pos) : Json := Json.arr #[p.sl, p.sc, p.el, p.ec]
def strsJ (l : List String) : Json := Json.arr (l.map Json.str).toArray
def optStrJ : Option String → Json | some s => Json.str s | none => Json.null
def depJ : Dep → Json | .no => Json.bool false | .yes => Json.bool true | .msg m => Json.str m

structure DumpEnv where
  keys : List String
  defaultDeriving : List String

mutual
partial def typeJ (e : DumpEnv) (ns : List String) : TypeRef → Json
  | .data name args optional pos =>
    Json.mkObj [("n", name), ("a", Json.arr (args.map (typeJ e ns)).toArray), ("o", optional), ("p", posJ pos), ("ns", strsJ ns)]
  | .fn sig pos => Json.mkObj [("fn", fnJ e ns sig none), ("p", posJ pos), ("ns", strsJ ns)]
partial def fnJ (e : DumpEnv) (ns : List String) (sig : FnSig) (named : Option String) : Json :=
  match sig with
  | .mk flags _ params thr ret =>
    Json.mkObj [
      ("name", match named with | some n => n | none => anonName e.keys sig),
      ("anonymous", named.isNone),
      ("targets", strsJ (fnTargets e.keys flags)),
      ("params", Json.arr (params.map (fun | .mk n t p => Json.mkObj [("n", n), ("t", typeJ e ns t), ("p", posJ p), ("c", Json.null)])).toArray),
      ("ret", match ret with | some r => typeJ e ns r | none => Json.null),
      ("throws", match thr with | some l => Json.arr (l.map (typeJ e ns)).toArray | none => Json.null)]
end

def paramsJ (e : DumpEnv) (ns : List String) (docs : List (String × String)) (ps : List Param) : Json :=
  let names := ps.map (fun | .mk n _ _ => n)
  Json.arr ((ps.zipIdx).map (fun (p, i) => match p with
    | .mk n t pos => Json.mkObj [("n", n), ("t", typeJ e ns t), ("p", posJ pos), ("c", optStrJ (paramComment docs names i))])).toArray

def sortDedup (l : List String) : List String :=
  (l.foldl (fun acc s => if acc.contains s then acc else acc ++ [s]) []).toArray.qsort (· < ·) |>.toList

def declJ (e : DumpEnv) (ns : List String) : Decl → Json
  | .enum n c items pos =>
    let ct := commentText c
    Json.mkObj [("k", "enum"), ("n", n), ("ns", strsJ ns), ("c", optStrJ ct), ("dep", depJ (deprecatedOf ct)), ("p", posJ pos),
      ("items", Json.arr (items.map (fun i => let ic := commentText i.comment
        Json.mkObj [("n", i.name), ("c", optStrJ ic), ("dep", depJ (deprecatedOf ic)), ("p", posJ i.pos)])).toArray)]
  | .flags n c items pos =>
    let ct := commentText c
    Json.mkObj [("k", "flags"), ("n", n), ("ns", strsJ ns), ("c", optStrJ ct), ("dep", depJ (deprecatedOf ct)), ("p", posJ pos),
      ("items", Json.arr (items.map (fun i => let ic := commentText i.comment
        Json.mkObj [("n", i.name), ("c", optStrJ ic), ("dep", depJ (deprecatedOf ic)), ("p", posJ i.pos),
                    ("all", i.modifier == some "all"), ("none", i.modifier == some "none")])).toArray)]
  | .record n c flags _ fields der pos =>
    let ct := commentText c
    let env : Env := { file := "", keys := e.keys, defaultDeriving := e.defaultDeriving }
    Json.mkObj [("k", "record"), ("n", n), ("ns", strsJ ns), ("c", optStrJ ct), ("dep", depJ (deprecatedOf ct)), ("p", posJ pos),
      ("targets", strsJ (evalTargets e.keys flags)),
      ("deriving", strsJ (sortDedup (derivingOf env der))),
      ("fields", Json.arr (fields.map (fun f => let fc := commentText f.comment
        Json.mkObj [("n", f.name), ("t", typeJ e ns f.ty), ("c", optStrJ fc), ("dep", depJ (deprecatedOf fc)), ("p", posJ f.pos)])).toArray)]
  | .interface n c main flags _ methods props pos =>
    let ct := commentText c
    Json.mkObj [("k", "interface"), ("n", n), ("ns", strsJ ns), ("c", optStrJ ct), ("dep", depJ (deprecatedOf ct)), ("p", posJ pos),
      ("main", main), ("targets", strsJ (targetsOrAll e.keys flags)),
      ("methods", Json.arr (methods.map (fun m => let mc := commentText m.comment
        Json.mkObj [("n", m.name), ("static", m.isStatic), ("const", m.isConst), ("async", m.isAsync),
          ("params", paramsJ e ns (paramDocs mc) m.params),
          ("ret", match m.ret with | some r => typeJ e ns r | none => Json.null),
          ("throws", match m.throwing with | some l => Json.arr (l.map (typeJ e ns)).toArray | none => Json.null),
          ("c", optStrJ mc), ("dep", depJ (deprecatedOf mc)), ("p", posJ m.pos)])).toArray),
      ("props", Json.arr (props.map (fun p => let pc := commentText p.comment
        Json.mkObj [("n", p.name), ("t", typeJ e ns p.ty), ("c", optStrJ pc), ("dep", Json.bool false), ("p", posJ p.pos)])).toArray)]
  | .function n c sig pos =>
    let ct := commentText c
    Json.mkObj [("k", "function"), ("n", n), ("ns", strsJ ns), ("c", optStrJ ct), ("dep", depJ (deprecatedOf ct)), ("p", posJ pos),
      ("fn", fnJ e ns sig (some n))]
  | .error n c codes pos =>
    let ct := commentText c
    Json.mkObj [("k", "error"), ("n", n), ("ns", strsJ ns), ("c", optStrJ ct), ("dep", depJ (deprecatedOf ct)), ("p", posJ pos),
      ("codes", Json.arr (codes.map (fun k => let kc := commentText k.comment
        Json.mkObj [("n", k.name), ("params", paramsJ e ns (paramDocs kc) k.params),
                    ("c", optStrJ kc), ("dep", depJ (deprecatedOf kc)), ("p", posJ k.pos)])).toArray)]

partial def contentJ (e : DumpEnv) (ns : List String) : Content → Json
  | .decl d => declJ e ns d
  | .ns name c children pos =>
    Json.mkObj [("k", "ns"), ("n", name), ("c", optStrJ (commentText c)), ("p", posJ pos),
      ("children", Json.arr (children.map (contentJ e (ns ++ name.splitOn "."))).toArray)]

def fileJ (e : DumpEnv) (f : File) : Json :=
  Json.mkObj [
    ("loads", Json.arr (f.loads.map (fun l => Json.mkObj [("import", l.isImport), ("path", filepathText l.lit), ("p", posJ l.pos), ("pp", posJ l.pathPos)])).toArray),
    ("ast", Json.arr (f.contents.map (contentJ e [])).toArray)]

/-! ### multi-file front end -/

def primOfStr : String → Except String Prim
  | "primitive" => .ok .primitive | "collection" => .ok .collection | "interface" => .ok .interface
  | "record" => .ok .record | "enum" => .ok .enum | "flags" => .ok .flags | "function" => .ok .function
  | "error" => .ok .error | s => .error s!"unknown primitive {s}"

def getStrs (j : Json) (k : String) : Except String (List String) := do
  let a ← j.getObjValAs? (Array String) k
  pure a.toList

def getPos (j : Json) (k : String) : Except String Pos :=
  match j.getObjValAs? (Array Nat) k with
  | .ok #[a, b, c, d] => .ok { sl := a, sc := b, el := c, ec := d }
  | _ => .ok default

def getPathSpec (s : String) : Bool × List String := parsePath s

def decodeCfg (j : Json) : Except String Cfg := do
  let cwd ← j.getObjValAs? String "cwd"
  let inc ← getStrs j "includeDirs"
  let keys ← getStrs j "keys"
  let dd ← getStrs j "defaultDeriving"
  pure { cwd := (parsePath cwd).2, includeDirs := inc.map parsePath, keys := keys, defaultDeriving := dd }

def decodeDef (j : Json) : Except String Def := do
  let key ← j.getObjValAs? String "key"
  let prim ← j.getObjValAs? String "prim" >>= primOfStr
  let arity ← j.getObjValAs? Nat "arity"
  pure { key := key, prim := prim, arity := arity }

def decodeFile (j : Json) : Except String (APath × FileContent) := do
  let path ← j.getObjValAs? String "path"
  let kind ← j.getObjValAs? String "kind"
  let p := (parsePath path).2
  match kind with
  | "idl" => do
    let text ← j.getObjValAs? String "text"
    pure (p, .idl text)
  | "ext" => do
    let defs ← j.getObjValAs? (Array Json) "defs"
    let ds ← defs.toList.mapM (fun d => do
      let dd ← decodeDef d
      let pos ← getPos d "pos"
      pure ({ key := dd.key, prim := dd.prim, arity := dd.arity, pos := pos } : ExtDef))
    pure (p, .ext ds)
  | "bad" => pure (p, .badExt)
  | "nottext" => do
    let pos ← getPos j "pos"
    pure (p, .notText pos)
  | k => throw s!"unknown file kind {k}"

def diagJ (d : Diag) : Json :=
  Json.mkObj [("cls", d.cls), ("rule", d.rule), ("file", d.file), ("p", posJ d.pos)]

def abortJ : Abort → Json
  | .raised cls file pos => Json.mkObj [("kind", "raised"), ("cls", cls), ("file", file), ("p", posJ pos)]
  | .fileNotFound f => Json.mkObj [("kind", "file-not-found"), ("file", f)]
  | .syntax f => Json.mkObj [("kind", "syntax"), ("file", f)]
  | .crash s => Json.mkObj [("kind", "crash"), ("site", s)]
  | .outOfFuel => Json.mkObj [("kind", "out-of-fuel")]

def outcomeJ : Outcome → Json
  | .ok => Json.mkObj [("kind", "ok")]
  | .diags ds => Json.mkObj [("kind", "diags"), ("diags", Json.arr (ds.map diagJ).toArray)]
  | .abort a => abortJ a

/-- `{cfg, files, builtins, root}` → outcome of `front` -/
def runFront (j : Json) : Except String Json := do
  let cfgJ ← j.getObjVal? "cfg"
  let cfg ← decodeCfg cfgJ
  let files ← j.getObjValAs? (Array Json) "files"
  let fs ← files.toList.mapM decodeFile
  let bs ← j.getObjValAs? (Array Json) "builtins"
  let builtins ← bs.toList.mapM decodeDef
  let root ← j.getObjValAs? String "root"
  pure (outcomeJ (front cfg { files := fs } builtins (parsePath root).2))

end Pydjinni.Drv.FrontJson
