import Lean.Data.Json
import PydjinniModel.Sys.Cli
import PydjinniModel.Drv.C17
/-! Driver handlers for property C19: `handle op request` answers one JSON request. -/
namespace Pydjinni.Drv.C19
open Lean Pydjinni.Sys Pydjinni.Drv.C17

def raisedOf (j : Json) : Except String StageResult := do
  let k ← j.getObjValAs? String "kind"
  match k with
  | "ok" => pure .ok
  | "app" => pure (.raised (.app (← j.getObjValAs? Nat "code")))
  | "applist" => pure (.raised (.appList (← j.getObjValAs? (List Nat) "codes")))
  | "usage" => pure (.raised .usage)
  | "crash" => pure (.raised (.other ((j.getObjValAs? String "cls").toOption.getD "?")))
  | _ => throw s!"unknown stage result {k}"

def raisedJ : Raised → Json
  | .app c => Json.mkObj [("kind", "app"), ("code", c)]
  | .appList cs => Json.mkObj [("kind", "applist"), ("codes", Json.arr (cs.map (fun c => Json.num (JsonNumber.fromNat c))).toArray)]
  | .usage => Json.mkObj [("kind", "usage")]
  | .other c => Json.mkObj [("kind", "crash"), ("cls", c)]

def stageJ (s : Stage) : Json :=
  match s.result with
  | .ok => Json.mkObj [("kind", "ok")]
  | .raised r => raisedJ r

def eventJ : Event → Json
  | .cleaned t => Json.arr #["cleaned", t]
  | .generated t => Json.arr #["generated", t]
  | .report => Json.arr #["report"]

def exitJ (e : Exit) : Json := Json.mkObj [("code", e.code), ("traceback", e.traceback)]

def stepOf (j : Json) : Except String Step := do
  match ← raisedOf j with
  | .ok => pure .done
  | .raised (.app c) => pure (.app c)
  | .raised (.other cls) => pure (.failed cls)
  | .raised _ => throw "a step raises an application exception or another class"

/-- `{"read": null | class, "syntax": [codes], "visit": stage, "visit_errors": [codes], "later": [codes], "post": stage}` -/
def frontRunOf (j : Json) : Except String FrontRun := do
  let read := (j.getObjValAs? String "read").toOption
  pure { read := read, syntaxErrors := ← j.getObjValAs? (List Nat) "syntax", visit := ← j.getObjVal? "visit" >>= stepOf,
         visitErrors := ← j.getObjValAs? (List Nat) "visit_errors", later := ← j.getObjValAs? (List Nat) "later",
         post := ← j.getObjVal? "post" >>= stepOf }

def worldOf (j : Json) : Except String World := do
  let valid ← j.getObjValAs? Bool "valid"
  -- the front end's verdict: computed from the observed steps of `Parser.parse` when they are given, a parameter otherwise
  let front ← (match j.getObjVal? "front_run" with
    | .ok (.obj o) => do pure (frontOf (← frontRunOf (.obj o)))
    | _ => j.getObjVal? "front" >>= raisedOf)
  let kinds ← (← j.getObjValAs? (List String) "kinds").mapM kindOf
  let gf ← j.getObjVal? "gen_fail"
  let gfl : List (String × Raised) ← (match gf with
    | .obj kvs => kvs.toList.filterMapM (fun (k, v) => do
        match ← raisedOf v with
        | .raised r => pure (some (k, r))
        | .ok => pure none)
    | _ => pure [])
  let report ← j.getObjValAs? Bool "report"
  let dump ← (match j.getObjVal? "ast_dump" with | .ok d => raisedOf d | .error _ => pure .ok)
  let repFail : Option Raised ← (match j.getObjVal? "report_fail" with
    | .ok d => do (match ← raisedOf d with | .raised r => pure (some r) | .ok => pure none)
    | .error _ => pure none)
  pure { astDump := dump, validate := fun _ => valid, env := envTree (← varsOf j "env"), dotenv := envTree (← varsOf j "dotenv"), front := front,
         kinds := kinds, genFail := fun t => (gfl.find? (fun p => p.1 == t)).map (·.2), reportConfigured := report, reportFail := repFail }

def commandOf (j : Json) : Except String Sys.Command := do
  let k ← j.getObjValAs? String "kind"
  match k with
  | "none" => pure .none
  | "unknown" => pure .unknown
  | "generate" => pure (.generate (← j.getObjValAs? Bool "args_ok") (← j.getObjValAs? Bool "clean") (← j.getObjValAs? (List String) "targets"))
  | _ => throw s!"unknown command {k}"

def invOf (req : Json) : Except String Invocation := do
  pure { topOk := ← req.getObjValAs? Bool "top_ok", options := ← req.getObjValAs? (List String) "options",
         config := ← req.getObjVal? "config" >>= fileOf, command := ← req.getObjVal? "command" >>= commandOf,
         debug := (req.getObjValAs? Bool "debug").toOption.getD false }

def optRaisedJ : Option Raised → Json
  | some r => raisedJ r
  | none => Json.null

def handle (op : String) (req : Json) : Except String Json :=
  match op with
  | "c19.run" => do
    let inv ← invOf req
    let w ← req.getObjVal? "world" >>= worldOf
    let st := cliStages inv w
    let api : Json := match inv.command, foldOptions inv.options [] with
      | .generate _ clean targets, .ok opts =>
        let a := apiStages inv.config opts clean targets w
        Json.mkObj [("first", optRaisedJ (firstRaised a)), ("events", Json.arr ((eventsOf a).map eventJ).toArray)]
      | _, _ => Json.null
    pure (Json.mkObj [("exit", exitJ (exitOf st)), ("events", Json.arr ((eventsOf st).map eventJ).toArray),
      ("stages", Json.arr (st.map stageJ).toArray), ("dom", cliDom inv w), ("api", api),
      ("front", stageJ { result := w.front })])
  | "c19.spec" => do
    -- specification on the implementation's observation
    let usage ← req.getObjValAs? Bool "usage"
    let first ← (match req.getObjVal? "first" with
      | .ok .null => pure none
      | .ok j => do
        match ← raisedOf j with
        | .raised r => pure (some r)
        | .ok => pure none
      | .error _ => pure none)
    let code ← req.getObjValAs? Nat "code"
    let tb ← req.getObjValAs? Bool "traceback"
    -- a multi-file project of a known class: the documented status of the class
    let project : Option ProjectClass := match req.getObjValAs? String "project" with
      | .ok "valid" => some .valid | .ok "cycle" => some .cycle | .ok "missing" => some .missingImport | _ => none
    let pj : Json := match project with
      | some c => Json.mkObj [("holds", specProject c ⟨code, tb⟩), ("code", c.code)]
      | none => Json.null
    pure (Json.mkObj [("holds", specExit usage first ⟨code, tb⟩), ("documented", isDocumentedCode code), ("project", pj)])
  | _ => throw s!"unknown op {op}"

end Pydjinni.Drv.C19
