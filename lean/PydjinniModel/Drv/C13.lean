import Lean.Data.Json
import PydjinniModel.Gen.Yaml
import PydjinniModel.Gen.ExportSet
import PydjinniModel.Drv.FrontJson
/-! Driver handlers for property C13: `handle op request` answers one JSON request. -/
namespace Pydjinni.Drv.C13
open Lean Pydjinni.Gen.Yaml

def valOfJson : Json → Except String Val
  | .str s => pure (.str s)
  | .bool b => pure (.bool b)
  | .null => pure .null
  | .arr a => do
    let l ← a.toList.mapM (fun j => match j with | .str s => pure s | _ => throw "list value: expected strings")
    pure (.list l)
  | j => throw s!"value: expected string, bool, list of strings or null, got {j.compress}"

def valJ : Val → Json
  | .str s => Json.str s
  | .bool b => Json.bool b
  | .list l => Json.arr (l.map Json.str).toArray
  | .null => Json.null

def optValJ : Option Val → Json
  | some v => Json.mkObj [("v", valJ v)]
  | none => Json.mkObj [("missing", true)]

def kvOfJson (j : Json) : Except String (List (String × Val)) := do
  let a ← j.getArr?
  a.toList.mapM (fun p => do
    let k ← p.getArrVal? 0 >>= (·.getStr?)
    let v ← p.getArrVal? 1 >>= valOfJson
    pure (k, v))

def kvJ (kv : List (String × Val)) : Json := Json.arr (kv.map (fun (k, v) => Json.arr #[Json.str k, valJ v])).toArray

def propOfJson (j : Json) : Except String MProp := do
  pure { name := ← j.getObjValAs? String "n", value := ← j.getObjVal? "v" >>= valOfJson, computed := ← j.getObjValAs? Bool "c" }

def declOfJson (j : Json) : Except String LocalDecl := do
  let base ← j.getObjVal? "base" >>= kvOfJson
  let node ← j.getObjVal? "node" >>= kvOfJson
  let ms ← j.getObjVal? "marsh" >>= (·.getArr?)
  let marsh ← ms.toList.mapM (fun p => do
    let g ← p.getArrVal? 0 >>= (·.getStr?)
    let ps ← p.getArrVal? 1 >>= (·.getArr?)
    pure (g, ← ps.toList.mapM propOfJson))
  pure { base := ⟨base⟩, node := node, marsh := marsh }

def specOfJson (j : Json) : Except String ExtSpec := do
  let a ← j.getArr?
  a.toList.mapM (fun p => do
    let g ← p.getArrVal? 0 >>= (·.getStr?)
    let fs ← p.getArrVal? 1 >>= (·.getArr?)
    let fields ← fs.toList.mapM (fun f => do
      let pat ← match f.getObjValAs? String "pat" with
        | .ok "cppName" => pure Pat.cppName
        | .ok "any" => pure Pat.any
        | .ok other => throw s!"unknown pattern {other}"
        | .error _ => pure Pat.any
      pure ({ name := ← f.getObjValAs? String "n", required := ← f.getObjValAs? Bool "req", default := ← f.getObjVal? "def" >>= valOfJson, pat := pat } : FieldSpec))
    pure (g, fields))

def docJ (d : Doc) : Json :=
  Json.mkObj [("base", kvJ d.base), ("gens", Json.arr (d.gens.map (fun (g, kv) => Json.arr #[Json.str g, kvJ kv])).toArray)]

def docOfJson (j : Json) : Except String Doc := do
  let base ← j.getObjVal? "base" >>= kvOfJson
  let gs ← j.getObjVal? "gens" >>= (·.getArr?)
  let gens ← gs.toList.mapM (fun p => do
    pure (← p.getArrVal? 0 >>= (·.getStr?), ← p.getArrVal? 1 >>= kvOfJson))
  pure { base := base, gens := gens }

def extJ (e : ExtType) : Json :=
  Json.mkObj [("base", kvJ e.base),
    ("gens", Json.arr (e.gens.map (fun (g, o) => Json.arr #[Json.str g, match o with | some kv => kvJ kv | none => Json.null])).toArray)]

def extOfJson (j : Json) : Except String ExtType := do
  let base ← j.getObjVal? "base" >>= kvOfJson
  let gs ← j.getObjVal? "gens" >>= (·.getArr?)
  let gens ← gs.toList.mapM (fun p => do
    let g ← p.getArrVal? 0 >>= (·.getStr?)
    let v ← p.getArrVal? 1
    match v with
    | .null => pure (g, none)
    | _ => pure (g, some (← kvOfJson v)))
  pure { base := base, gens := gens }

def usedOfJson (j : Json) : Except String (List Used) := do
  let a ← j.getArr?
  a.toList.mapM (fun p => do
    pure ({ gen := ← p.getArrVal? 0 >>= (·.getStr?), attr := ← p.getArrVal? 1 >>= (·.getStr?), ctx := ← p.getArrVal? 2 >>= (·.getStr?) } : Used))

/-- the reads that apply to a declaration of the given primitive, expanded over the generators for "*" -/
def applicable (used : List Used) (prim : String) (gens : List String) : List Attr :=
  (used.filter (fun u => u.ctx = "any" || (u.ctx = "error" && prim = "error"))).flatMap (fun u =>
    -- the guarded reads of `filters.py: headers` (`base_type`, `derived_header`) are one read of the effective header
    let a := if u.attr = "base_type" || u.attr = "derived_header" then "<header>" else u.attr
    if u.gen = "*" then gens.map (fun g => (g, a)) else [(u.gen, a)]) |>.eraseDups

/-- specification: every applicable read gives the same value through the loaded type as through the local declaration -/
def specViews (d : LocalDecl) (e : ExtType) (attrs : List Attr) : Json :=
  let diffs := attrs.filter (fun a => view (.ext e) a != view (.local d) a)
  Json.mkObj [("holds", diffs.isEmpty),
    ("differing", Json.arr (diffs.map (fun a => Json.mkObj [("gen", a.1), ("attr", a.2),
        ("local", optValJ (view (.local d) a)), ("ext", optValJ (view (.ext e) a))])).toArray),
    ("same_key", registryKey e.base == registryKey d.base.fields)]

def slotOfJson (j : Json) : Except String (Slot String) :=
  match j with
  | .str "absent" => pure .absent
  | .str "dir" => pure .dir
  | _ => do pure (.file (← j.getObjValAs? String "file"))

def fileResultJ : Option FileResult → Json
  | none => Json.mkObj [("missing", true)]
  | some (.ok reg) =>
    let keyJ := fun (k : List String × String) => Json.arr #[Json.arr (k.1.map Json.str).toArray, Json.str k.2]
    Json.mkObj [("registered", Json.arr (reg.map (fun en => Json.mkObj [("key", keyJ en.key), ("located", en.located), ("type", extJ en.ext)])).toArray)]
  | some .invalid => Json.mkObj [("invalid", true)]
  | some (.duplicate k) => Json.mkObj [("duplicate", Json.arr #[Json.arr (k.1.map Json.str).toArray, Json.str k.2])]

def roundOfJson (j : Json) : Except String Round := do
  let ws ← j.getObjVal? "written" >>= (·.getArr?)
  let written ← ws.toList.mapM (fun w => do
    let p ← w.getArrVal? 0 >>= (·.getStr?)
    let ds ← w.getArrVal? 1 >>= (·.getArr?)
    pure (p, ← ds.toList.mapM docOfJson))
  let es ← j.getObjVal? "externs" >>= (·.getArr?)
  pure { written := written, externs := ← es.toList.mapM (·.getStr?) }

def handle (op : String) (req : Json) : Except String Json :=
  match op with
  | "c13.rounds" => do
    -- a re-export history on one directory tree: what the dependent program of every round registers
    let spec ← req.getObjVal? "spec" >>= specOfJson
    let rs ← req.getObjVal? "rounds" >>= (·.getArr?)
    let rounds ← rs.toList.mapM roundOfJson
    pure (Json.mkObj [("rounds", Json.arr ((runRounds spec [] rounds).map fileResultJ).toArray),
                      ("closed", Json.arr (rounds.map (fun r => Json.bool r.closed)).toArray)])
  | "c13.pattern" => do
    -- the model of a field's `pattern=` on the given strings
    let pat ← req.getObjValAs? String "pat"
    let vs ← req.getObjVal? "values" >>= (·.getArr?)
    let vals ← vs.toList.mapM (·.getStr?)
    let p ← match pat with
      | "cppName" => pure Pat.cppName
      | "any" => pure Pat.any
      | other => throw s!"unknown pattern {other}"
    pure (Json.mkObj [("accepts", Json.arr (vals.map (fun v => Json.bool (p.accepts (.str v)))).toArray)])
  | "c13.export" => do
    let d ← req.getObjVal? "decl" >>= declOfJson
    pure (docJ («export» d))
  | "c13.load" => do
    let spec ← req.getObjVal? "spec" >>= specOfJson
    let doc ← req.getObjVal? "doc" >>= docOfJson
    match load spec doc with
    | some e => pure (extJ e)
    | none => pure (Json.mkObj [("invalid", true)])
  | "c13.spec" => do
    -- on the implementation's observations: the real marshalling tables and the really loaded external type
    let d ← req.getObjVal? "decl" >>= declOfJson
    let e ← req.getObjVal? "loaded" >>= extOfJson
    let used ← req.getObjVal? "used" >>= usedOfJson
    let prim ← req.getObjValAs? String "primitive"
    pure (specViews d e (applicable used prim (d.marsh.map (·.1))))
  | "c13.roundtrip" => do
    -- the model's own round trip
    let d ← req.getObjVal? "decl" >>= declOfJson
    let spec ← req.getObjVal? "spec" >>= specOfJson
    let used ← req.getObjVal? "used" >>= usedOfJson
    let prim ← req.getObjValAs? String "primitive"
    match load spec («export» d) with
    | some e => pure (specViews d e (applicable used prim (d.marsh.map (·.1))))
    | none => pure (Json.mkObj [("invalid", true)])
  | "c13.loadfile" => do
    -- `Resolver.load_external` on the documents of the given files, in order, into one registry
    let spec ← req.getObjVal? "spec" >>= specOfJson
    let ds ← req.getObjVal? "docs" >>= (·.getArr?)
    let docs ← ds.toList.mapM docOfJson
    let keyJ := fun (k : List String × String) => Json.arr #[Json.arr (k.1.map Json.str).toArray, Json.str k.2]
    match loadFile spec docs [] with
    | .ok reg => pure (Json.mkObj [("registered", Json.arr (reg.map (fun en => Json.mkObj [("key", keyJ en.key), ("located", en.located)])).toArray)])
    | .invalid => pure (Json.mkObj [("invalid", true)])
    | .duplicate k => pure (Json.mkObj [("duplicate", keyJ k)])
  | "c13.declared" => do
    -- the named types of an exporting program (a front request: files, root): qualified name and declaring file of every
    -- declaration of every file reachable from the root by @import, the files in finish order
    let cfg ← req.getObjVal? "cfg" >>= Pydjinni.Drv.FrontJson.decodeCfg
    let files ← req.getObjValAs? (Array Json) "files"
    let fs ← files.toList.mapM Pydjinni.Drv.FrontJson.decodeFile
    let root ← req.getObjValAs? String "root"
    match Pydjinni.Gen.ExportSet.declared cfg fs (Pydjinni.Front.parsePath root).2 with
    | some l => pure (Json.mkObj [("declared", Json.arr (l.map (fun x => Json.mkObj [("key", Json.str x.1), ("file", Json.str x.2)])).toArray)])
    | none => pure (Json.mkObj [("declared", Json.null)])
  | "c13.locate" => do
    -- the candidates of an `@extern` literal in search order: "absent" | "dir" | {"file": <id>} -> the id that is loaded
    let given ← req.getObjVal? "as_given" >>= slotOfJson
    let own ← req.getObjVal? "next_to_idl" >>= slotOfJson
    let incs ← req.getObjVal? "include_dirs" >>= (·.getArr?)
    let incs ← incs.toList.mapM slotOfJson
    match locate (searchOrder given own incs) with
    | some a => pure (Json.mkObj [("located", Json.str a)])
    | none => pure (Json.mkObj [("located", Json.null)])
  | _ => throw s!"unknown op {op}"

end Pydjinni.Drv.C13
