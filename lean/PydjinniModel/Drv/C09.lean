import Lean.Data.Json
import PydjinniModel.Gen.Deriving
/-!
Driver handlers for property C09.

* `c09.eval`      the emitted C++ and Java bodies (`Gen/Deriving.lean`) evaluated with `Lang/MiniImp` on tuples of concrete
                  field values: all six C++ operators, Java `equals`, `hashCode`, `compareTo`, `toString`
* `c09.decision`  which file / operator / method is emitted for a record configuration
* `c09.deriving`  the deriving set of every record of an import graph under `generate.default_deriving`
* `c09.spec`      the specification predicate on the results observed from the compiled implementation

Concrete field values (`DV`): fixed-width integers, booleans, strings (ASCII), enum constants, lists, and *atoms* —
opaque values with a given position in their type's order, hash code and string form (nested records, whose own derived
operations were evaluated by a previous `c09.eval`).
-/
namespace Pydjinni.Drv.C09
open Lean Pydjinni.Gen Pydjinni.Lang.MiniImp

inductive DV where
  | int (bits : Nat) (n : Int)
  | bool (b : Bool)
  | str (s : String)
  | enum (ordinal : Nat) (name : String)
  | list (l : List DV)
  | atom (rank : Int) (hash : Int) (repr : String)
deriving Repr, Inhabited

mutual
partial def DV.eq : DV → DV → Bool
  | .int _ a, .int _ b => a == b
  | .bool a, .bool b => a == b
  | .str a, .str b => a == b
  | .enum a _, .enum b _ => a == b
  | .list a, .list b => DV.eqList a b
  | .atom a _ _, .atom b _ _ => a == b
  | _, _ => false
partial def DV.eqList : List DV → List DV → Bool
  | [], [] => true
  | a :: as, b :: bs => DV.eq a b && DV.eqList as bs
  | _, _ => false
end

mutual
partial def DV.lt : DV → DV → Bool
  | .int _ a, .int _ b => a < b
  | .bool a, .bool b => !a && b
  | .str a, .str b => a < b
  | .enum a _, .enum b _ => a < b
  | .list a, .list b => DV.ltList a b
  | .atom a _ _, .atom b _ _ => a < b
  | _, _ => false
partial def DV.ltList : List DV → List DV → Bool
  | [], _ :: _ => true
  | a :: as, b :: bs => DV.lt a b || (!DV.lt b a && DV.ltList as bs)
  | _, _ => false
end

/-- `(int)(x ^ (x >>> 32))` on a 64-bit value -/
def longHash (x : Int) : Int :=
  let u := (x % 18446744073709551616).toNat
  wrap32 (Int.ofNat ((u ^^^ (u >>> 32)) % 4294967296))

/-- `String.hashCode` (ASCII) -/
def stringHash (s : String) : Int := s.toList.foldl (fun h c => wrap32 (31 * h + Int.ofNat c.toNat)) 0

/-- pydjinni's hash expression for a primitive field -/
def DV.hashPrim : DV → Int
  | .int 64 n => longHash n
  | .int _ n => n
  | .bool b => if b then 1 else 0
  | .atom _ h _ => h
  | _ => 0

/-- Java `x.hashCode()` -/
partial def DV.hashObj : DV → Int
  | .int 64 n => longHash n
  | .int _ n => n
  | .bool b => if b then 1231 else 1237
  | .str s => stringHash s
  | .enum _ _ => 0                                   -- identity hash: not predicted (see `hashExact`)
  | .list l => l.foldl (fun h e => wrap32 (31 * h + e.hashObj)) 1
  | .atom _ h _ => h

partial def DV.show : DV → String
  | .int _ n => toString n
  | .bool b => if b then "true" else "false"
  | .str s => s
  | .enum _ n => n
  | .list l => "[" ++ ", ".intercalate (l.map DV.show) ++ "]"
  | .atom _ _ r => r

partial def DV.hasEnum : DV → Bool
  | .enum _ _ => true
  | .list l => l.any DV.hasEnum
  | _ => false

def dvOps : Ops DV := ⟨DV.eq, DV.lt, DV.hashPrim, DV.hashObj, DV.show⟩

/-! ### JSON -/

partial def decodeDV (j : Json) : Except String (Option DV) :=
  match j with
  | .null => pure none
  | _ =>
    match j.getObjValAs? (Array Json) "i" with
    | .ok #[b, n] => do pure (some (.int (← b.getNat?) (← n.getInt?)))
    | _ =>
    match j.getObjValAs? Bool "b" with
    | .ok b => pure (some (.bool b))
    | _ =>
    match j.getObjValAs? String "s" with
    | .ok s => pure (some (.str s))
    | _ =>
    match j.getObjValAs? (Array Json) "e" with
    | .ok #[o, n] => do pure (some (.enum (← o.getNat?) (← n.getStr?)))
    | _ =>
    match j.getObjValAs? (Array Json) "l" with
    | .ok a => do
      let es ← a.toList.mapM decodeDV
      pure (some (.list (es.filterMap id)))
    | _ =>
    match j.getObjValAs? (Array Json) "a" with
    | .ok #[r, h, s] => do pure (some (.atom (← r.getInt?) (← h.getInt?) (← s.getStr?)))
    | _ => throw s!"bad value {j.compress}"

def decodeField (idx : Nat) (j : Json) : Except String Field := do
  pure { idx := idx, cppName := ← j.getObjValAs? String "cpp", javaName := ← j.getObjValAs? String "java",
         optional := ← j.getObjValAs? Bool "optional", ref := ← j.getObjValAs? Bool "ref", isEnum := ← j.getObjValAs? Bool "enum",
         isBinary := (j.getObjValAs? Bool "binary").toOption.getD false }

structure Req where
  fields : List Field
  values : List (List (Option DV))
  typename : String
  cfg : RecordCfg

def decodeCfg (req : Json) (n : Nat) : RecordCfg :=
  let b := fun k => (req.getObjValAs? Bool k).toOption.getD false
  -- `eq` / `ord`: the explicit `deriving(…)`; `defaultEq` / `defaultOrd`: `generate.default_deriving`
  ({ eq := b "eq", ord := b "ord", nFields := n, cppStringSer := b "cppStringSer", cppBase := b "cppBase", javaStringSer := b "javaStringSer" } : RecordCfg).withDefault
    (b "defaultEq") (b "defaultOrd")

def decodeReq (req : Json) : Except String Req := do
  let fa ← req.getObjValAs? (Array Json) "fields"
  let fields ← fa.toList.zipIdx.mapM (fun (j, i) => decodeField i j)
  let va := (req.getObjValAs? (Array Json) "values").toOption.getD #[]
  let values ← va.toList.mapM (fun t => do
    let a ← t.getArr?
    if a.size != fields.length then throw "value tuple and field list differ in length"
    a.toList.mapM decodeDV)
  pure { fields := fields, values := values, typename := (req.getObjValAs? String "typename").toOption.getD "T", cfg := decodeCfg req fields.length }

def envOf (a b : List (Option DV)) : Env Field DV := ⟨fun f => (a[f.idx]?).join, fun f => (b[f.idx]?).join⟩

def resJ : Res Val → Json
  | .ok (.bool b) => Json.bool b
  | .ok (.int n) => Json.num (JsonNumber.fromInt n)
  | .npe => Json.str "npe"
  | .stuck => Json.str "stuck"

def sign (n : Int) : Int := if n < 0 then -1 else if n > 0 then 1 else 0

/-- `c09.eval` -/
def eval (req : Json) : Except String Json := do
  let r ← decodeReq req
  let c := r.cfg
  let n := r.values.length
  let idx := List.range n
  let vals := r.values.toArray
  let pairs := idx.flatMap (fun i => idx.map (fun j => (i, j)))
  let pj := pairs.map (fun (i, j) =>
    let env := envOf vals[i]! vals[j]!
    let cpp := (if cppDefinesEq c then [("eq", resJ (cppOp dvOps r.fields env .eq)), ("ne", resJ (cppOp dvOps r.fields env .ne))] else [])
      ++ (if cppDefinesOrd c then [("lt", resJ (cppOp dvOps r.fields env .lt)), ("gt", resJ (cppOp dvOps r.fields env .gt)),
                                   ("le", resJ (cppOp dvOps r.fields env .le)), ("ge", resJ (cppOp dvOps r.fields env .ge))] else [])
    let java := (if javaHasEquals c then [("equals", resJ (run dvOps env (javaEqualsBody r.fields)))] else [])
      ++ (if javaHasCompareTo c then [("compare", resJ (run dvOps env (javaCompareBody r.fields)))] else [])
    Json.mkObj [("i", i), ("j", j), ("cpp", Json.mkObj cpp), ("java", Json.mkObj java)])
  let hashes := if javaHasHashCode c then r.values.map (fun v => resJ (run dvOps (envOf v v) (javaHashBody r.fields))) else []
  let strs := if javaHasToString c then r.values.map (fun v => Json.str (javaToString dvOps r.typename r.fields (envOf v v))) else []
  let hashExact := !(r.values.any (fun t => t.any (fun o => match o with | some v => v.hasEnum | none => false)))
  let (fmt, args) := cppToStringFormat r.typename r.fields
  pure (Json.mkObj [("pairs", Json.arr pj.toArray), ("hash", Json.arr hashes.toArray), ("str", Json.arr strs.toArray),
    ("hashExact", hashExact), ("cppFormat", fmt), ("cppFormatArgs", Json.arr (args.map Json.str).toArray)])

def decisionJ (c : RecordCfg) : Json :=
  Json.mkObj [("cppWritesSource", cppWritesSource c), ("cppDeclaresEq", cppDeclaresEq c), ("cppDeclaresOrd", cppDeclaresOrd c),
    ("cppDefinesEq", cppDefinesEq c), ("cppDefinesOrd", cppDefinesOrd c), ("cppDeclaresToString", cppDeclaresToString c),
    ("cppDefinesToString", cppDefinesToString c), ("javaHasEquals", javaHasEquals c), ("javaHasHashCode", javaHasHashCode c),
    ("javaHasCompareTo", javaHasCompareTo c), ("javaImplementsComparable", javaImplementsComparable c), ("javaHasToString", javaHasToString c)]

def decision (req : Json) : Except String Json := do
  let n ← req.getObjValAs? Nat "nFields"
  pure (decisionJ (decodeCfg req n))

/-- `c09.deriving`: the deriving set of every record of a program spread over an import graph, under `generate.default_deriving` -/
partial def decodeFile (j : Json) : Except String IdlFile := do
  let imps := (j.getObjValAs? (Array Json) "imports").toOption.getD #[]
  let recs := (j.getObjValAs? (Array Json) "records").toOption.getD #[]
  let imports ← imps.toList.mapM decodeFile
  let records ← recs.toList.mapM (fun r => do
    pure ({ name := ← r.getObjValAs? String "name", eq := (r.getObjValAs? Bool "eq").toOption.getD false,
            ord := (r.getObjValAs? Bool "ord").toOption.getD false } : RecDecl))
  pure (.mk imports records)

def deriving_ (req : Json) : Except String Json := do
  let b := fun k => (req.getObjValAs? Bool k).toOption.getD false
  let f ← decodeFile (← req.getObjVal? "file")
  pure (Json.mkObj [("records", Json.arr ((f.parse (b "defaultEq") (b "defaultOrd")).map (fun r =>
    Json.mkObj [("name", r.name), ("eq", r.eq), ("ord", r.ord)])).toArray)])

/-! ### specification on observed results -/

inductive Obs where
  | b (v : Bool)
  | i (n : Int)
  | exc (what : String)
  | absent
deriving BEq, Repr

def obsOf (j : Json) (k : String) : Obs :=
  match j.getObjVal? k with
  | .ok (.bool v) => .b v
  | .ok (.str s) => .exc s
  | .ok (.num n) => .i n.mantissa
  | _ => .absent

structure PairObs where
  i : Nat
  j : Nat
  cpp : Json
  java : Json

/-- `c09.spec`: `impl` has the shape of the `c09.eval` answer (`pairs`, `hash`, `str`), `impl.decl` the observed emission facts -/
def spec (req : Json) : Except String Json := do
  let r ← decodeReq req
  let c := r.cfg
  let impl ← req.getObjVal? "impl"
  let vals := r.values.toArray
  let pa := (impl.getObjValAs? (Array Json) "pairs").toOption.getD #[]
  let ps ← pa.toList.mapM (fun p => do
    pure ({ i := ← p.getObjValAs? Nat "i", j := ← p.getObjValAs? Nat "j", cpp := (p.getObjVal? "cpp").toOption.getD Json.null,
            java := (p.getObjVal? "java").toOption.getD Json.null } : PairObs))
  let look := fun (i j : Nat) => ps.find? (fun p => p.i == i && p.j == j)
  let mut fails : List (String × String × Nat × Nat) := []
  let add := fun (fs : List (String × String × Nat × Nat)) (t w : String) (i j : Nat) =>
    if fs.any (fun (t', w', _, _) => t' == t && w' == w) then fs else fs ++ [(t, w, i, j)]
  let hashes := (impl.getObjValAs? (Array Json) "hash").toOption.getD #[]
  let hashOf := fun (i : Nat) => match hashes[i]? with | some (.num n) => some n.mantissa | _ => none
  for p in ps do
    let a := vals[p.i]!
    let b := vals[p.j]!
    let same := allEq dvOps a b
    let less := lexLt dvOps a b
    let greater := lexLt dvOps b a
    let present := a.all Option.isSome && b.all Option.isSome
    -- C++
    if cppDeclaresEq c then
      match obsOf p.cpp "eq" with
      | .b v => if v != same then fails := add fails "cpp" "== differs from 'all fields equal'" p.i p.j
      | _ => fails := add fails "cpp" "== not executable" p.i p.j
      match obsOf p.cpp "eq", obsOf p.cpp "ne" with
      | .b v, .b w => if w == v then fails := add fails "cpp" "!= is not the negation of ==" p.i p.j
      | _, _ => fails := add fails "cpp" "!= not executable" p.i p.j
    if cppDeclaresOrd c then
      match obsOf p.cpp "lt" with
      | .b v => if v != less then fails := add fails "cpp" "< differs from the lexicographic order of the fields" p.i p.j
      | _ => fails := add fails "cpp" "< not executable" p.i p.j
      match obsOf p.cpp "lt", obsOf p.cpp "gt", obsOf p.cpp "le", obsOf p.cpp "ge" with
      | .b lt, .b gt, .b le, .b ge =>
        match (look p.j p.i).map (fun q => obsOf q.cpp "lt") with
        | some (.b ltr) =>
          if gt != ltr then fails := add fails "cpp" "> is not the converse of <" p.i p.j
          if le != !ltr then fails := add fails "cpp" "<= is not the negation of >" p.i p.j
          if lt && ltr then fails := add fails "cpp" "< is not asymmetric" p.i p.j
          if cppDeclaresEq c then
            match obsOf p.cpp "eq" with
            | .b e => if (lt || ltr) == e then fails := add fails "cpp" "< is not total / not consistent with ==" p.i p.j
            | _ => pure ()
        | _ => pure ()
        if ge != !lt then fails := add fails "cpp" ">= is not the negation of <" p.i p.j
      | _, _, _, _ => fails := add fails "cpp" "ordering operators not executable" p.i p.j
    -- Java
    if javaHasEquals c then
      match obsOf p.java "equals" with
      | .b v =>
        if v != same then fails := add fails "java" "equals differs from 'all fields equal'" p.i p.j
        if v then
          match hashOf p.i, hashOf p.j with
          | some h1, some h2 => if h1 != h2 then fails := add fails "java" "equal objects have different hash codes" p.i p.j
          | _, _ => fails := add fails "java" "hashCode not executable" p.i p.j
      | .exc e => fails := add fails "java" s!"equals throws {e}" p.i p.j
      | _ => fails := add fails "java" "equals not executable" p.i p.j
    if javaHasCompareTo c then
      match obsOf p.java "compare" with
      | .i v =>
        let want : Int := if less then -1 else if greater then 1 else 0
        if present && sign v != want then fails := add fails "java" "compareTo sign differs from the lexicographic order of the fields" p.i p.j
        match (look p.j p.i).map (fun q => obsOf q.java "compare") with
        | some (.i w) => if sign v != - sign w then fails := add fails "java" "sgn(compareTo(a,b)) != -sgn(compareTo(b,a))" p.i p.j
        | _ => pure ()
        if javaHasEquals c then
          match obsOf p.java "equals" with
          | .b e => if (v == 0) != e then fails := add fails "java" "compareTo == 0 is not equivalent to equals" p.i p.j
          | _ => pure ()
      | .exc e => fails := add fails "java" s!"compareTo throws {e}" p.i p.j
      | _ => fails := add fails "java" "compareTo not executable" p.i p.j
  -- equivalence / transitivity on the observed relations
  let n := r.values.length
  let idx := List.range n
  let getB := fun (lang k : String) (i j : Nat) => match look i j with
    | some p => (match obsOf (if lang == "cpp" then p.cpp else p.java) k with | .b v => some v | _ => none)
    | none => none
  for (lang, k, on) in [("cpp", "eq", cppDeclaresEq c), ("java", "equals", javaHasEquals c)] do
    if on then
      for i in idx do
        if getB lang k i i == some false then fails := add fails lang s!"{k} is not reflexive" i i
        for j in idx do
          if getB lang k i j != getB lang k j i then fails := add fails lang s!"{k} is not symmetric" i j
          for l in idx do
            if getB lang k i j == some true && getB lang k j l == some true && getB lang k i l == some false then
              fails := add fails lang s!"{k} is not transitive" i l
  if cppDeclaresOrd c then
    for i in idx do
      if getB "cpp" "lt" i i == some true then fails := add fails "cpp" "< is not irreflexive" i i
      for j in idx do
        for l in idx do
          if getB "cpp" "lt" i j == some true && getB "cpp" "lt" j l == some true && getB "cpp" "lt" i l == some false then
            fails := add fails "cpp" "< is not transitive" i l
  -- string form
  if javaHasToString c then
    let strs := (impl.getObjValAs? (Array Json) "str").toOption.getD #[]
    for i in idx do
      match strs[i]? with
      | some (.str s) =>
        for f in r.fields do
          if (s.splitOn (f.javaName ++ "=")).length < 2 then fails := add fails "java" "toString does not mention every field" i i
      | _ => fails := add fails "java" "toString not executable" i i
  -- the link between the declaration and the object: every field, read by its declared name, holds the value that was
  -- given for its position in the declaration (`impl.held.<target>[object][k]`, `impl.heldFields[k]` = the field's name)
  let heldNames := (impl.getObjValAs? (Array String) "heldFields").toOption.getD #[]
  for lang in ["cpp", "java"] do
    match (impl.getObjVal? "held").toOption.bind (fun h => (h.getObjValAs? (Array Json) lang).toOption) with
    | some rows =>
      for i in idx do
        match rows[i]? with
        | some (.arr row) =>
          for k in List.range row.size do
            if row[k]! == Json.bool false then
              fails := add fails lang s!"a field read by its declared name does not hold the value given for its position in the declaration ({heldNames[k]?.getD "?"})" i i
        | _ => pure ()
    | none => pure ()
  let hasOpt := r.fields.any (·.optional)
  let clauses := (if c.ord && hasOpt then ["optional-under-ord"] else [])
  pure (Json.mkObj [("holds", fails.isEmpty),
    ("failures", Json.arr (fails.map (fun (t, w, i, j) => Json.mkObj [("target", t), ("why", w), ("i", i), ("j", j)])).toArray),
    ("clauses", Json.arr (clauses.map Json.str).toArray)])

def handle (op : String) (req : Json) : Except String Json :=
  match op with
  | "c09.eval" => eval req
  | "c09.decision" => decision req
  | "c09.deriving" => deriving_ req
  | "c09.spec" => spec req
  | _ => throw s!"unknown op {op}"

end Pydjinni.Drv.C09
