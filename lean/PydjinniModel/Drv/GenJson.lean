import Lean.Data.Json
import PydjinniModel.Gen.Ref
import PydjinniModel.Gen.Jni
/-!
JSON glue of the generator-layer driver handlers (C02, C07): decoding of configuration, built-in table,
user declarations and type expressions; encoding of skeletons.

Request shape (one line per program × configuration):
`{"op", "cfg": {...}, "builtins": [row…], "udefs": [udef…], …}` where a type expression is
`{"b": "<builtin name>", "a": [type…], "o": bool}` or `{"u": <index into udefs>, "a": […], "o": bool}`.
-/
namespace Pydjinni.Drv.GenJson
open Lean Pydjinni.Gen

def strsJ (l : List String) : Json := Json.arr (l.map Json.str).toArray

def getStr (j : Json) (k : String) : Except String String := j.getObjValAs? String k
def getBool (j : Json) (k : String) : Except String Bool := j.getObjValAs? Bool k
def getArr (j : Json) (k : String) : Except String (List Json) := do
  let a ← j.getObjValAs? (Array Json) k
  pure a.toList
def getStrs (j : Json) (k : String) : Except String (List String) := do
  let a ← getArr j k
  a.mapM (fun x => match x with | .str s => pure s | _ => throw s!"{k}: string expected")
def getOptStr (j : Json) (k : String) : Except String (Option String) :=
  match j.getObjVal? k with
  | .ok (.str s) => pure (some s)
  | .ok .null => pure none
  | .error _ => pure none
  | .ok _ => throw s!"{k}: string or null expected"

def decodeStyle (j : Json) : Except String Style := do
  let cs ← getStr j "case"
  let pfx ← getOptStr j "pfx"
  match Case.ofString? cs with
  | some k => pure { case := k, pfx := pfx }
  | none => throw s!"unknown identifier case {cs}"

def getStyle (j : Json) (k : String) : Except String Style := do
  let s ← j.getObjVal? k
  decodeStyle s

partial def decodeJType (j : Json) : Except String JType := do
  match j.getObjVal? "prim" with
  | .ok (.str p) => pure (.prim p)
  | _ =>
    match j.getObjVal? "arr" with
    | .ok e => do pure (.arr (← decodeJType e))
    | .error _ => do
      let pkg ← getStrs j "pkg"
      let name ← getStr j "name"
      let args ← getArr j "args"
      pure (.cls pkg name (← args.mapM decodeJType))

partial def jtypeJ : JType → Json
  | .prim p => Json.mkObj [("prim", p)]
  | .arr e => Json.mkObj [("arr", jtypeJ e)]
  | .cls pkg name args => Json.mkObj [("pkg", strsJ pkg), ("name", name), ("args", Json.arr (args.map jtypeJ).toArray)]

def decodePrim (s : String) : Except String Prim :=
  match Prim.ofString? s with
  | some p => pure p
  | none => throw s!"unknown primitive {s}"

def decodeBuiltin (j : Json) : Except String Builtin := do
  let javaJ ← j.getObjVal? "javaJ" >>= decodeJType
  let javaBoxedJ ← j.getObjVal? "javaBoxedJ" >>= decodeJType
  let b : Builtin := {
    name := ← getStr j "name", prim := ← (getStr j "prim" >>= decodePrim),
    cppTypename := ← getStr j "cppTypename", cppHeader := ← getStr j "cppHeader", cppByValue := ← getBool j "cppByValue",
    javaTypename := ← getStr j "javaTypename", javaBoxed := ← getStr j "javaBoxed", javaReference := ← getBool j "javaReference",
    javaJ := javaJ, javaBoxedJ := javaBoxedJ,
    jniTranslator := ← getStr j "jniTranslator", jniTypename := ← getStr j "jniTypename",
    jniSig := ← getStr j "jniSig", jniBoxedSig := ← getStr j "jniBoxedSig",
    objcTypename := ← getStr j "objcTypename", objcBoxed := ← getStr j "objcBoxed", objcPointer := ← getBool j "objcPointer",
    cliTypename := ← getStr j "cliTypename", cliTranslator := ← getStr j "cliTranslator", cliReference := ← getBool j "cliReference" }
  -- the translator's parse of the Java type names is checked, not trusted
  if printJ b.javaJ != b.javaTypename then throw s!"built-in {b.name}: javaJ prints {printJ b.javaJ}, table says {b.javaTypename}"
  if printJ b.javaBoxedJ != b.javaBoxed then throw s!"built-in {b.name}: javaBoxedJ prints {printJ b.javaBoxedJ}, table says {b.javaBoxed}"
  pure b

def decodeUInfo (j : Json) : Except String UInfo := do
  pure { name := ← getStr j "name", ns := ← getStrs j "ns", prim := ← (getStr j "prim" >>= decodePrim), targets := ← getStrs j "targets" }

structure Env where
  builtins : List Builtin
  udefs : Array Json

/-- depth-bounded by `fuel`: a function type that mentions itself is reported, not looped on -/
partial def decodeType (e : Env) (fuel : Nat) (j : Json) : Except String RType := do
  if fuel == 0 then throw "type expression too deep (self-referential function type?)"
  let args ← getArr j "a"
  let o ← getBool j "o"
  let args ← args.mapM (decodeType e (fuel - 1))
  match j.getObjVal? "b" with
  | .ok (.str n) =>
    match e.builtins.find? (·.name == n) with
    | some b => pure (.mk (.builtin b) args o)
    | none => throw s!"unknown built-in {n}"
  | _ =>
    let i ← j.getObjValAs? Nat "u"
    match e.udefs[i]? with
    | none => throw s!"udef index {i} out of range"
    | some uj =>
      let u ← decodeUInfo uj
      if u.prim == .function then
        let anonymous ← getBool uj "anonymous"
        let noexcept ← getBool uj "noexcept"
        let ps ← getArr uj "params"
        let ps ← ps.mapM (decodeType e (fuel - 1))
        let ret ← match uj.getObjVal? "ret" with
          | .ok .null => pure none
          | .ok r => do pure (some (← decodeType e (fuel - 1) r))
          | .error _ => pure none
        pure (.mk (.func u anonymous noexcept ps ret) args o)
      else pure (.mk (.user u) args o)

def decodeTypeO (e : Env) (j : Json) (k : String) : Except String (Option RType) :=
  match j.getObjVal? k with
  | .ok .null => pure none
  | .ok r => do pure (some (← decodeType e 12 r))
  | .error _ => pure none

def decodeFields (e : Env) (j : Json) (k : String) : Except String (List FieldD) := do
  let a ← getArr j k
  a.mapM (fun f => do pure { name := ← getStr f "n", ty := ← (f.getObjVal? "t" >>= decodeType e 12) })

def decodeThrowing (e : Env) (j : Json) : Except String (Option (List TDef)) :=
  match j.getObjVal? "throws" with
  | .ok .null => pure none
  | .error _ => pure none
  | .ok (.arr a) => do
    let l ← a.toList.mapM (fun x => do
      let t ← decodeType e 12 (Json.mkObj [("u", x), ("a", Json.arr #[]), ("o", false)])
      pure t.def')
    pure (some l)
  | .ok _ => throw "throws: array or null expected"

def decodeDecl (e : Env) (j : Json) : Except String Decl := do
  let u ← decodeUInfo j
  match u.prim with
  | .enum => do pure (.enum u (← getStrs j "items"))
  | .flags => do
    let a ← getArr j "items"
    let items ← a.mapM (fun f => do pure { name := ← getStr f "n", isAll := ← getBool f "all", isNone := ← getBool f "none" : FlagD })
    pure (.flags u items)
  | .record => do
    pure (.record u (← decodeFields e j "fields") (← getBool j "eq") (← getBool j "ord"))
  | .interface => do
    let a ← getArr j "methods"
    let ms ← a.mapM (fun m => do
      pure { name := ← getStr m "n", params := ← decodeFields e m "params", ret := ← decodeTypeO e m "ret",
             isStatic := ← getBool m "static", isConst := ← getBool m "const", isAsync := ← getBool m "async",
             throwing := ← decodeThrowing e m : MethodD })
    pure (.interface u ms)
  | .function => do
    pure (.function u (← getBool j "anonymous") (← decodeFields e j "fparams") (← decodeTypeO e j "ret") (← decodeThrowing e j))
  | .error => do
    let a ← getArr j "codes"
    let cs ← a.mapM (fun k => do pure { name := ← getStr k "n", params := ← decodeFields e k "params" : CodeD })
    pure (.error u cs)
  | _ => throw "declaration kind expected"

def decodeCfg (j : Json) : Except String Cfg := do
  let cpp ← j.getObjVal? "cpp"
  let java ← j.getObjVal? "java"
  let jni ← j.getObjVal? "jni"
  let objc ← j.getObjVal? "objc"
  let cli ← j.getObjVal? "cppcli"
  pure {
    cpp := { ns := ← getStrs cpp "ns", tyStyle := ← getStyle cpp "type", enumStyle := ← getStyle cpp "enum", fileStyle := ← getStyle cpp "file",
             fieldStyle := ← getStyle cpp "field", methodStyle := ← getStyle cpp "method", nsStyle := ← getStyle cpp "namespace",
             headerExt := ← getStr cpp "headerExt", notNull := ← getOptStr cpp "notNull" },
    java := { package := ← getStrs java "package", tyStyle := ← getStyle java "type", fieldStyle := ← getStyle java "field",
              methodStyle := ← getStyle java "method", enumStyle := ← getStyle java "enum", packageStyle := ← getStyle java "package_style",
              nullable := ← getOptStr java "nullable", nonnull := ← getOptStr java "nonnull",
              classPublic := ← getBool java "classPublic", useFinal := ← getBool java "useFinal", supportPackage := ← getStrs java "supportPackage" },
    jni := { ns := ← getStrs jni "ns", fileStyle := ← getStyle jni "file", classStyle := ← getStyle jni "class_name", enumStyle := ← getStyle jni "enum",
             fieldStyle := ← getStyle jni "field", methodStyle := ← getStyle jni "method", nsStyle := ← getStyle jni "namespace",
             headerExt := ← getStr jni "headerExt" },
    objc := { typePrefix := ← getStr objc "typePrefix", tyStyle := ← getStyle objc "type", enumStyle := ← getStyle objc "enum",
              fieldStyle := ← getStyle objc "field", methodStyle := ← getStyle objc "method", headerExt := ← getStr objc "headerExt",
              strictProtocols := ← getBool objc "strictProtocols", swiftRename := ← getBool objc "swiftRename" },
    objcppHeaderExt := ← getStr j "objcppHeaderExt",
    cli := { ns := ← getStrs cli "ns", tyStyle := ← getStyle cli "type", propertyStyle := ← getStyle cli "property", methodStyle := ← getStyle cli "method",
             localStyle := ← getStyle cli "local", enumStyle := ← getStyle cli "enum", fileStyle := ← getStyle cli "file",
             nsStyle := ← getStyle cli "namespace", nullability := ← getBool cli "nullability" } }

structure Common where
  cfg : Cfg
  env : Env

def decodeCommon (req : Json) : Except String Common := do
  let cfg ← req.getObjVal? "cfg" >>= decodeCfg
  let bs ← getArr req "builtins"
  let builtins ← bs.mapM decodeBuiltin
  let udefs ← req.getObjValAs? (Array Json) "udefs"
  pure { cfg := cfg, env := { builtins := builtins, udefs := udefs } }

def memberJ (m : MemberS) : Json := Json.arr #[m.ty, m.name]
def membersJ (l : List MemberS) : Json := Json.arr (l.map memberJ).toArray

def methodJ (m : MethodS) : Json :=
  Json.mkObj [("pre", strsJ m.pre), ("ret", m.ret), ("name", m.name), ("params", membersJ m.params), ("post", strsJ m.post)]

def declSJ (d : DeclS) : Json :=
  Json.mkObj [("kind", d.kind), ("name", d.name), ("scope", d.scope), ("mods", strsJ d.mods),
    ("fields", membersJ d.fields), ("ctor", membersJ d.ctor), ("methods", Json.arr (d.methods.map methodJ).toArray),
    ("items", strsJ d.items),
    ("fmods", strsJ d.fmods),
    ("codes", Json.arr (d.codes.map (fun k => Json.mkObj [("name", k.name), ("fields", membersJ k.fields), ("ctor", membersJ k.ctor),
      ("fmods", strsJ k.fmods), ("methods", Json.arr (k.methods.map methodJ).toArray)])).toArray)]

end Pydjinni.Drv.GenJson
