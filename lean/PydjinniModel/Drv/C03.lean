import PydjinniModel.Drv.FrontJson
/-! Driver handlers for property C03 (text → AST). -/
namespace Pydjinni.Drv.C03
open Lean Pydjinni.Front Pydjinni.Drv.FrontJson

def tkJ : Tk → Json
  | .kw s => Json.arr #["kw", s] | .filepath s => Json.arr #["filepath", s] | .target s => Json.arr #["target", s]
  | .comment s => Json.arr #["comment", s] | .id s => Json.arr #["id", s] | .nsid s => Json.arr #["nsid", s]

def handle (op : String) (req : Json) : Except String Json :=
  match op with
  | "c03.lex" => do
    let text ← req.getObjValAs? String "text"
    match lex text with
    | none => pure (Json.mkObj [("lex", false)])
    | some toks => pure (Json.mkObj [("lex", true), ("toks", Json.arr (toks.map (fun t =>
        Json.arr #[tkJ t.tk, t.line, t.col, t.len, t.endLine, t.endCol])).toArray)])
  | "c03.parse" => do
    let text ← req.getObjValAs? String "text"
    let keys ← getStrs req "keys"
    let dd ← getStrs req "defaultDeriving"
    match lex text with
    | none => pure (Json.mkObj [("lex", false)])
    | some toks =>
      match parseFile toks with
      | none => pure (Json.mkObj [("lex", true), ("parse", false)])
      | some f => pure (Json.mkObj [("lex", true), ("parse", true), ("file", fileJ { keys := keys, defaultDeriving := dd } f)])
  | "c03.targets" => do
    let keys ← getStrs req "keys"
    let flags ← getStrs req "flags"
    pure (Json.mkObj [("targets", strsJ (evalTargets keys flags)), ("orAll", strsJ (targetsOrAll keys flags))])
  | _ => throw s!"unknown op {op}"

end Pydjinni.Drv.C03
