import PydjinniModel.Drv.SysJson
/-!
Driver handlers for property C10.

* `c10.sort` — the two sort pipelines of the templates (`| sort`, `| sort(case_sensitive=true) | sort`) on a list of strings
* `c10.targets` — the target list of a declaration from its flags as written (order included)
* `c10.refusal` — configured targets (registry order) and the refusal of an incompletely configured `generate` section
* `c10.run`  — one API object driven along a history of parse / generate / report calls: per call the files written
               (path, content identity) and whether they equal what a fresh process writes for the same
               (configuration, program, target). A program may be marked `accepted: false` (the front end refuses it:
               the parse is `rejected` and yields no result; `gc` counts the *accepted* parses)
-/
namespace Pydjinni.Drv.C10
open Lean Pydjinni.GenC Pydjinni.SysC Pydjinni.Drv.SysJson

def sort (req : Json) : Except String Json := do
  let items ← getStrs req "items"
  pure (Json.mkObj [("legacy", strsJ (jinjaSort items)), ("total", strsJ (jinjaSortTotal items))])

def decodeCfg (j : Json) : Except String Cfg := do
  let gens ← j.getObjVal? "gens" >>= decodeGens
  let supportLib ← j.getObjValAs? Bool "supportLib"
  let report ← optStr j "report"
  pure { gens, supportLib, report := report.map Path.ofString }

def decodeProg (j : Json) : Except String Prog := do
  let id ← j.getObjValAs? String "id"
  let reads ← getStrs j "reads"
  let exts ← getStrs j "exts"
  let defs ← decodeDecls j "defs"
  let accepted := (j.getObjValAs? Bool "accepted").toOption.getD true
  pure { id, reads := reads.map Path.ofString, exts := exts.map Path.ofString, defs, accepted }

def decodeCall (j : Json) : Except String Call := do
  let op ← j.getObjValAs? String "op"
  match op with
  | "parse" => do
    let c ← j.getObjValAs? Nat "ctx"
    let p ← j.getObjValAs? Nat "prog"
    pure (.parse c p)
  | "generate" => do
    let k ← j.getObjValAs? Nat "gc"
    let t ← j.getObjValAs? String "target" >>= decodeT
    pure (.generate k t)
  | "report" => do
    let k ← j.getObjValAs? Nat "gc"
    pure (.report k)
  | _ => throw s!"unknown call {op}"

def cidJ (c : ContentId) : Json := Json.str s!"{c.g}|{c.tag}|{c.prog}|{c.cm}|{c.cc}"

def filesJ' (fs : List (Path × ContentId)) : Json :=
  Json.arr (fs.map (fun f => Json.arr #[pathJ f.1, cidJ f.2])).toArray

def outcomeJ : Outcome → List (String × Json)
  | .parsed => [("kind", "parsed")]
  | .rejected => [("kind", "rejected")]
  | .wrote fs => [("kind", "wrote"), ("files", filesJ' fs)]
  | .missingConfig fs => [("kind", "missingConfig"), ("files", filesJ' fs)]
  | .crash fs => [("kind", "crash"), ("files", filesJ' fs)]
  | .noReport => [("kind", "noReport")]
  | .badCall => [("kind", "badCall")]

def run (req : Json) : Except String Json := do
  let wj ← req.getObjVal? "world"
  let cj ← wj.getObjValAs? (Array Json) "cfgs"
  let cfgs ← cj.toList.mapM decodeCfg
  let pj ← wj.getObjValAs? (Array Json) "progs"
  let progs ← pj.toList.mapM decodeProg
  let support ← wj.getObjVal? "support" >>= decodeSupport
  let w : World := { cfgs, progs, support }
  let callsJ ← req.getObjValAs? (Array Json) "calls"
  let calls ← callsJ.toList.mapM decodeCall
  let mut s := initState
  let mut origin : List (Nat × Nat) := []     -- (context, program) of every parse result
  let mut out : List Json := []
  for call in calls do
    let (s', o) := step w s call
    let extra : List (String × Json) :=
      match call with
      | .generate k t =>
        match origin[k]? with
        | some (i, j) =>
          match w.cfgs[i]?, w.progs[j]? with
          | some c, some p =>
            let f := fresh w c p t
            [("sameAsFresh", Json.bool (decide (o = f)))] ++ (outcomeJ f).map (fun (k, v) => ("fresh_" ++ k, v))
          | _, _ => []
        | none => []
      | _ => []
    match call, o with
    | .parse i j, .parsed => origin := origin ++ [(i, j)]
    | _, _ => pure ()
    out := out ++ [Json.mkObj (outcomeJ o ++ extra)]
    s := s'
  let rep := s.frw.report
  pure (Json.mkObj [("calls", Json.arr out.toArray),
    ("parsed_idl", pathsJ rep.idl), ("parsed_ext", pathsJ rep.ext)])

/-- `c10.refusal`: the keys present in the `generate` section (any order) → the targets `parse` configures, in order,
    and the (target, generator) of the "Missing configuration" refusal, if any -/
def refusalOp (req : Json) : Except String Json := do
  let keys ← getStrs req "keys"
  let ts := configuredTargets T.all keys
  let has (g : G) : Bool := keys.contains g.key
  let r := refusal has ts
  pure (Json.mkObj [("targets", strsJ (ts.map T.key)),
    ("refused", match r with
      | some (t, g) => Json.mkObj [("target", t.key), ("generator", g.key)]
      | none => Json.null)])

def decodeFlag (s : String) : TFlag :=
  if s == "+any" then .any
  else
    let name := String.ofList (s.toList.drop 1)
    if s.toList.head? == some '+' then .plus name else .minus name

/-- `c10.targets`: the registry keys and flag lists as written (`["+java", "+cpp"]`, `["-objc"]`, …) → per list the target
    list of the declaration (`targetsOrKeys`: an empty evaluation means all keys), in order -/
def targetsOp (req : Json) : Except String Json := do
  let keys ← getStrs req "keys"
  let sites ← req.getObjValAs? (Array (Array String)) "sites"
  pure (Json.mkObj [("targets", Json.arr (sites.map (fun fl => strsJ (targetsOrKeys keys (fl.toList.map decodeFlag)))))])

def handle (op : String) (req : Json) : Except String Json :=
  match op with
  | "c10.targets" => targetsOp req
  | "c10.sort" => sort req
  | "c10.refusal" => refusalOp req
  | "c10.run" => run req
  | _ => throw s!"unknown op {op}"

end Pydjinni.Drv.C10
