import PydjinniModel.Drv.FrontJson
/-! Driver handlers for property C05 (and the shared multi-file front end op `c05.front`). -/
namespace Pydjinni.Drv.C05
open Lean Pydjinni.Front Pydjinni.Drv.FrontJson

def handle (op : String) (req : Json) : Except String Json :=
  match op with
  | "c05.front" => runFront req
  | _ => throw s!"unknown op {op}"

end Pydjinni.Drv.C05
