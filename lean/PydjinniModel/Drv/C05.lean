import PydjinniModel.Drv.FrontJson
import PydjinniModel.Front.Spec
import PydjinniModel.Front.Order
/-! Driver handlers for property C05 (and the shared multi-file front end op `c05.front`). -/
namespace Pydjinni.Drv.C05
open Lean Pydjinni.Front Pydjinni.Drv.FrontJson

structure ImplDiag where
  cls : String
  file : String
  pos : Pos
deriving BEq

def decodeImplDiag (j : Json) : Except String ImplDiag := do
  let cls ← j.getObjValAs? String "cls"
  let file ← j.getObjValAs? String "file"
  let pos ← getPos j "p"
  pure { cls := cls, file := file, pos := pos }

def sameSite (a : ImplDiag) (d : Diag) : Bool := a.cls == d.cls && a.file == d.file && a.pos == d.pos

/-- the whole program of a front request: every IDL file, parsed; `none` if some file is outside the grammar -/
def programOf (fs : List (APath × FileContent)) : Option (List ProgFile) :=
  fs.foldr (fun (p, c) acc =>
    match c, acc with
    | .idl text, some l =>
      match parseText text with
      | some f => some ({ file := showPath p, contents := f.contents } :: l)
      | none => none
    | .idl _, none => none
    | _, acc => acc) (some [])

/- `finishOrder` / `programInOrder` (the files of a program in finish order) are model definitions now:
   `Front/Order.lean`; `Props/C16Order.lean` proves that `parseOne` finishes files in that order. -/

/-- sites (file, position) of external type definitions, with their keys -/
def extSites (fs : List (APath × FileContent)) : List (String × String × Pos) :=
  fs.flatMap (fun (p, c) => match c with
    | .ext defs => defs.map (fun d => (d.key, showPath p, d.pos))
    | _ => [])

/-- every site — declaration or external definition — whose qualified name is also taken by a built-in, another
    declaration or another external definition: the program must be rejected as a duplicate at one of them -/
def allDuplicateSites (builtins : Registry) (fs : List (APath × FileContent)) (prog : List ProgFile) : List (String × Pos) :=
  let items : List (String × String × Pos) :=
    extSites fs ++ (progDecls prog).map (fun (f, ns, d) => (declKey ns d, f, declPos d))
  (items.zipIdx.filter (fun ((k, _, _), i) =>
      (builtins.get k).isSome || items.zipIdx.any (fun ((k', _, _), j) => i != j && k' == k))).map (fun ((_, f, p), _) => (f, p))

def extRegistry (fs : List (APath × FileContent)) : Registry :=
  fs.flatMap (fun (_, c) => match c with
    | .ext defs => defs.map (fun d => { key := d.key, prim := d.prim, arity := d.arity })
    | _ => [])

/-- `spec.C05` on an implementation observation -/
def spec (req : Json) : Except String Json := do
  let cfg ← req.getObjVal? "cfg" >>= decodeCfg
  let files ← req.getObjValAs? (Array Json) "files"
  let fs ← files.toList.mapM decodeFile
  let bs ← req.getObjValAs? (Array Json) "builtins"
  let builtins ← bs.toList.mapM decodeDef
  let impl ← req.getObjVal? "impl"
  let kind ← impl.getObjValAs? String "kind"
  let root ← req.getObjValAs? String "root"
  match (programOf fs).bind (fun _ => programInOrder cfg fs (parsePath root).2) with
  | none => pure (Json.mkObj [("holds", kind == "diags"), ("note", "syntax"), ("rules", strsJ ["syntax"])])
  | some prog =>
    let pre := builtins ++ extRegistry fs
    let dups := allDuplicateSites builtins fs prog
    if !dups.isEmpty then
      let ok := kind == "raised" && (match decodeImplDiag impl with
        | .ok d => d.cls == "TypeResolvingException" && dups.any (fun (f, p) => f == d.file && p == d.pos)
        | .error _ => false)
      pure (Json.mkObj [("holds", ok), ("note", "duplicate declaration"), ("rules", strsJ ["duplicate"]),
        ("duplicates", Json.arr (dups.map (fun (f, p) => Json.mkObj [("file", f), ("p", posJ p)])).toArray)])
    else
      let v := violationsOrdered cfg.keys cfg.defaultDeriving pre prog
      let idiags ← (if kind == "diags" then do
          let a ← impl.getObjValAs? (Array Json) "diags"
          a.toList.mapM decodeImplDiag
        else pure [])
      -- multisets: two rules broken at one place are two diagnostics (`finishFile_perm_violations`)
      let missing := v.filter (fun d => (idiags.filter (fun a => sameSite a d)).length < (v.filter (fun d' => d'.cls == d.cls && d'.file == d.file && d'.pos == d.pos)).length)
      let extra := idiags.filter (fun a => (v.filter (fun d => sameSite a d)).length < (idiags.filter (fun a' => a'.cls == a.cls && a'.file == a.file && a'.pos == a.pos)).length)
      let ok := (kind == "ok" || kind == "diags") && missing.isEmpty && extra.isEmpty && (kind == "ok") == v.isEmpty
      pure (Json.mkObj [("holds", ok),
        ("missing", Json.arr (missing.map diagJ).toArray),
        ("extra", Json.arr (extra.map (fun a => Json.mkObj [("cls", a.cls), ("file", a.file), ("p", posJ a.pos)])).toArray),
        ("rules", strsJ ((missing.map (·.rule)) ++ (if extra.isEmpty then [] else ["unexpected-diagnostic"]) ++ (if kind != "ok" && kind != "diags" then [kind] else []))),
        ("violations", v.length)])

def handle (op : String) (req : Json) : Except String Json :=
  match op with
  | "c05.front" => runFront req
  | "c05.spec" => spec req
  | _ => throw s!"unknown op {op}"

end Pydjinni.Drv.C05
