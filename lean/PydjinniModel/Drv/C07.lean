import PydjinniModel.Drv.GenJson
import PydjinniModel.Gen.JniSpec
/-! Driver handlers for property C07: model of the JNI lookups / exports / Java members per declaration,
    descriptors of Java source types, and the specification on observations. -/
namespace Pydjinni.Drv.C07
open Lean Pydjinni.Gen Pydjinni.Drv.GenJson

def lookupJ (l : Lookup) : Json := Json.mkObj [("cls", l.cls), ("kind", l.kind), ("name", l.name), ("sig", l.sig)]
def exportJ (e : Export) : Json := Json.mkObj [("symbol", e.symbol), ("ret", e.ret), ("recv", e.recv), ("params", strsJ e.params)]
def memberJ' (m : JMember) : Json :=
  Json.mkObj [("cls", m.cls), ("kind", m.kind), ("name", m.name), ("static", m.isStatic), ("native", m.isNative), ("desc", m.desc)]

/-- support classes generated once per program: `NativeRunnable` (async on a C++ interface) and
    `NativeCompletion` (async on a Java interface) -/
def supportModel (c : Cfg) (runnable completion : Bool) : Json :=
  Json.mkObj [("lookups", Json.arr ((supportLookups c.java runnable completion).map lookupJ).toArray),
              ("exports", Json.arr ((supportExports c.java runnable completion).map exportJ).toArray),
              ("members", Json.arr ((supportMembers c.java runnable completion).map memberJ').toArray),
              ("dom", strsJ [])]

def modelOp (req : Json) : Except String Json := do
  let cm ← decodeCommon req
  let ds ← getArr req "decls"
  let decls ← ds.mapM (decodeDecl cm.env)
  let out := decls.map (fun d =>
    Json.mkObj [("lookups", Json.arr ((jniLookups cm.cfg.java cm.cfg.jni d).map lookupJ).toArray),
                ("exports", Json.arr ((jniExports cm.cfg.java cm.cfg.jni d).map exportJ).toArray),
                ("members", Json.arr ((javaMembers cm.cfg.java d).map memberJ').toArray),
                ("java_class", javaClassName cm.cfg.java d), ("jni_class", jniClassDescriptor cm.cfg.java cm.cfg.jni (declTDef d)),
                ("dom", strsJ (domViolations cm.cfg.java cm.cfg.jni d))])
  pure (Json.mkObj [("out", Json.arr out.toArray), ("support", supportModel cm.cfg (asyncOn "cpp" decls) (asyncOn "java" decls))])

def descOp (req : Json) : Except String Json := do
  let ts ← getArr req "types"
  let out ← ts.mapM (fun j => match j with
    | .null => pure (Json.mkObj [("desc", "V"), ("ctype", "void")])
    | j => do
      let t ← decodeJType j
      pure (Json.mkObj [("desc", desc t), ("ctype", jniCType t), ("print", printJ t)]))
  pure (Json.mkObj [("out", Json.arr out.toArray)])

def decodeObs (req : Json) : Except String Obs := do
  let cs ← getArr req "classes"
  let classes ← cs.mapM (fun c => do
    let ms ← getArr c "members"
    let members ← ms.mapM (fun m => do
      pure { kind := ← getStr m "kind", name := ← getStr m "name", desc := ← getStr m "desc",
             isStatic := ← getBool m "static", isNative := ← getBool m "native" : MemberObs })
    pure { name := ← getStr c "name", super := ← getOptStr c "extends", members := members : ClassObs })
  let ls ← getArr req "lookups"
  let lookups ← ls.mapM (fun l => do
    pure { cls := ← getStr l "cls", kind := ← getStr l "kind", name := ← getStr l "name", sig := ← getStr l "sig" : Lookup })
  let es ← getArr req "exports"
  let exports ← es.mapM (fun e => do
    pure { symbol := ← getStr e "symbol", ret := ← getStr e "ret", params := ← getStrs e "params" : ExportObs })
  pure { classes := classes, lookups := lookups, exports := exports }

def specOp (req : Json) : Except String Json := do
  let o ← decodeObs req
  let f := specFailures o
  pure (Json.mkObj [("holds", f.isEmpty),
    ("failed", Json.arr (f.map (fun (k, w) => Json.mkObj [("clause", k), ("what", w)])).toArray)])

def handle (op : String) (req : Json) : Except String Json :=
  match op with
  | "c07.model" => modelOp req
  | "c07.desc" => descOp req
  | "c07.spec" => specOp req
  | _ => throw s!"unknown op {op}"

end Pydjinni.Drv.C07
