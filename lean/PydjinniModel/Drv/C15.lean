import PydjinniModel.Drv.SysJson
import PydjinniModel.Gen.Collide
/-!
Driver handlers for property C15.

* `c15.names` — predicted write list (paths as written) of a run, the per-declaration files (`byDecl`) and the predicted collisions with their cause
* `c15.spec`  — "no path with two different digests" on the implementation's write log
* `c15.anon`  — the synthetic names of inline function types given by their *written* signatures, and for every pair
                why they share / must not share a name (`anonCause`)
-/
namespace Pydjinni.Drv.C15
open Lean Pydjinni.GenC Pydjinni.SysC Pydjinni.Drv.SysJson

def names (req : Json) : Except String Json := do
  let gens ← req.getObjVal? "gens" >>= decodeGens
  let ts ← getStrs req "targets"
  let targets ← ts.mapM decodeT
  let supportLib ← req.getObjValAs? Bool "supportLib"
  let support ← req.getObjVal? "support" >>= decodeSupport
  let defs ← decodeDecls req "defs"
  let gs := targets.flatMap T.generators
  let per := gs.filterMap (fun g => (gens g).map (fun c => (g, c)))
  let writes := per.flatMap (fun (g, c) => (genWrites g c c (if supportLib then support g else []) defs).map (fun w => w.2.toString))
  let cols := per.flatMap (fun (g, c) => collisions g c c defs)
  -- the per-declaration files with the declaration they belong to (to name the declarations behind an unpredicted overwrite)
  let byDecl := per.flatMap (fun (g, c) => (declWrites g c c defs).map (fun (i, _, _, p) =>
    Json.arr #[(i : Json), (g.key : Json), pathJ p]))
  pure (Json.mkObj [
    ("writes", strsJ writes),
    ("byDecl", Json.arr byDecl.toArray),
    ("collisions", Json.arr (cols.map (fun c => Json.mkObj [
      ("g", c.g.key), ("kind", kindJ c.kind), ("path", pathJ c.path), ("first", c.first), ("second", c.second),
      ("cause", c.cause.key)])).toArray)])

def spec (req : Json) : Except String Json := do
  let lg ← req.getObjValAs? (Array (Array String)) "log"
  let log := lg.toList.map (fun e => (e.getD 0 "", e.getD 1 ""))
  pure (Json.mkObj [("holds", noOverwrite log), ("overwritten", strsJ (overwritten log))])

partial def decodeTExp (j : Json) : Except String TExp := do
  match j.getObjVal? "fn" with
  | .ok f => pure (.fn (← f.getStr?))
  | .error _ =>
    let n ← j.getObjValAs? String "n"
    let o ← j.getObjValAs? Bool "opt"
    let a ← j.getObjVal? "args" >>= (·.getArr?)
    pure (.ref n o (← a.toList.mapM decodeTExp))

def decodeSig (j : Json) : Except String Sig := do
  let ps ← j.getObjVal? "params" >>= (·.getArr?)
  let params ← ps.toList.mapM (fun p => do pure (← p.getObjValAs? String "name", ← p.getObjVal? "type" >>= decodeTExp))
  let ret ← match j.getObjVal? "ret" with
    | .ok .null => pure none
    | .ok r => (some <$> decodeTExp r)
    | .error _ => pure none
  let throws ← match j.getObjVal? "throws" with
    | .ok .null => pure none
    | .ok _ => (some <$> getStrs j "throws")
    | .error _ => pure none
  pure { targets := ← getStrs j "targets", params := params, ret := ret, throws := throws }

def anon (req : Json) : Except String Json := do
  let keys ← getStrs req "keys"
  let ss ← req.getObjVal? "sigs" >>= (·.getArr?)
  let sigs ← ss.toList.mapM decodeSig
  let idx := indexed sigs
  let pairs := idx.flatMap (fun (i, a) => idx.filterMap (fun (j, b) =>
    if i < j then some (Json.mkObj [("i", i), ("j", j), ("sameName", anonName keys a == anonName keys b),
      ("diff", strsJ (sigDiff keys a b)), ("cause", anonCause keys a b)]) else none))
  pure (Json.mkObj [("names", strsJ (sigs.map (anonName keys))), ("pairs", Json.arr pairs.toArray)])

def handle (op : String) (req : Json) : Except String Json :=
  match op with
  | "c15.names" => names req
  | "c15.spec" => spec req
  | "c15.anon" => anon req
  | _ => throw s!"unknown op {op}"

end Pydjinni.Drv.C15
