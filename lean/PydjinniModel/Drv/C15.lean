import PydjinniModel.Drv.SysJson
import PydjinniModel.Gen.Collide
/-!
Driver handlers for property C15.

* `c15.names` — predicted write list (paths as written) of a run and the predicted collisions with their cause
* `c15.spec`  — "no path with two different digests" on the implementation's write log
-/
namespace Pydjinni.Drv.C15
open Lean Pydjinni.GenC Pydjinni.SysC Pydjinni.Drv.SysJson

def names (req : Json) : Except String Json := do
  let gens ← req.getObjVal? "gens" >>= decodeGens
  let ts ← getStrs req "targets"
  let targets ← ts.mapM decodeT
  let supportLib ← req.getObjValAs? Bool "supportLib"
  let support ← req.getObjVal? "support" >>= decodeSupport
  let defs ← decodeDecls req "defs"
  let gs := targets.flatMap T.generators
  let per := gs.filterMap (fun g => (gens g).map (fun c => (g, c)))
  let writes := per.flatMap (fun (g, c) => (genWrites g c c (if supportLib then support g else []) defs).map (fun w => w.2.toString))
  let cols := per.flatMap (fun (g, c) => collisions g c c defs)
  pure (Json.mkObj [
    ("writes", strsJ writes),
    ("collisions", Json.arr (cols.map (fun c => Json.mkObj [
      ("g", c.g.key), ("kind", kindJ c.kind), ("path", pathJ c.path), ("first", c.first), ("second", c.second),
      ("cause", c.cause.key)])).toArray)])

def spec (req : Json) : Except String Json := do
  let lg ← req.getObjValAs? (Array (Array String)) "log"
  let log := lg.toList.map (fun e => (e.getD 0 "", e.getD 1 ""))
  pure (Json.mkObj [("holds", noOverwrite log), ("overwritten", strsJ (overwritten log))])

def handle (op : String) (req : Json) : Except String Json :=
  match op with
  | "c15.names" => names req
  | "c15.spec" => spec req
  | _ => throw s!"unknown op {op}"

end Pydjinni.Drv.C15
