import PydjinniModel.Drv.C05
import PydjinniModel.Props.C11Closed
/-! Driver handlers for property C11: `handle op request` answers one JSON request.

`c11.closed`: is the program of a front request (files in finish order) dependency-closed in the sense of
`Props/C11Closed.lean` (`Closed`, decidable)? For closed programs `violationsOrdered_eq_violations_of_closed` and
`split_invariance` apply: what is reported is invariant under re-partitioning into files and reordering. -/
namespace Pydjinni.Drv.C11
open Lean Pydjinni.Front Pydjinni.Drv.FrontJson Pydjinni.Drv.C05

def closed (req : Json) : Except String Json := do
  let cfg ← req.getObjVal? "cfg" >>= decodeCfg
  let files ← req.getObjValAs? (Array Json) "files"
  let fs ← files.toList.mapM decodeFile
  let bs ← req.getObjValAs? (Array Json) "builtins"
  let builtins ← bs.toList.mapM decodeDef
  let root ← req.getObjValAs? String "root"
  match programInOrder cfg fs (parsePath root).2 with
  | none => pure (Json.mkObj [("syntax", true)])
  | some prog =>
    let pre := builtins ++ extRegistry fs
    let ordered := violationsOrdered cfg.keys cfg.defaultDeriving pre prog
    let whole := violations cfg.keys cfg.defaultDeriving pre prog
    pure (Json.mkObj [("syntax", false), ("closed", decide (Closed pre prog)), ("files", prog.length),
      ("ordered", ordered.length), ("whole", whole.length),
      ("same", ordered.map (fun d => (d.cls, d.rule, d.file, d.pos.sl, d.pos.sc)) == whole.map (fun d => (d.cls, d.rule, d.file, d.pos.sl, d.pos.sc)))])

def handle (op : String) (req : Json) : Except String Json :=
  match op with
  | "c11.closed" => closed req
  | _ => throw s!"unknown op {op}"

end Pydjinni.Drv.C11
