import Lean.Data.Json
/-! Driver handlers for property C11: `handle op request` answers one JSON request. -/
namespace Pydjinni.Drv.C11
open Lean

def handle (op : String) (_req : Json) : Except String Json :=
  throw s!"unknown op {op}"

end Pydjinni.Drv.C11
