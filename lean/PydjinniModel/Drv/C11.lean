import PydjinniModel.Drv.C05
import PydjinniModel.Props.C11Closed
import PydjinniModel.Props.C05Program
import PydjinniModel.Props.C16Program
/-! Driver handlers for property C11: `handle op request` answers one JSON request.

`c11.closed`: is the program of a front request (files in finish order) dependency-closed in the sense of
`Props/C11Closed.lean` (`Closed`, decidable)? For closed programs `violationsOrdered_eq_violations_of_closed` and
`split_invariance` apply: what is reported is invariant under re-partitioning into files and reordering. -/
namespace Pydjinni.Drv.C11
open Lean Pydjinni.Front Pydjinni.Drv.FrontJson Pydjinni.Drv.C05

def closed (req : Json) : Except String Json := do
  let cfg ← req.getObjVal? "cfg" >>= decodeCfg
  let files ← req.getObjValAs? (Array Json) "files"
  let fs ← files.toList.mapM decodeFile
  let bs ← req.getObjValAs? (Array Json) "builtins"
  let builtins ← bs.toList.mapM decodeDef
  let root ← req.getObjValAs? String "root"
  match programInOrder cfg fs (parsePath root).2 with
  | none => pure (Json.mkObj [("syntax", true)])
  | some prog =>
    let pre := builtins ++ extRegistry fs
    let ordered := violationsOrdered cfg.keys cfg.defaultDeriving pre prog
    let whole := violations cfg.keys cfg.defaultDeriving pre prog
    pure (Json.mkObj [("syntax", false), ("closed", decide (Closed pre prog)), ("files", prog.length),
      ("ordered", ordered.length), ("whole", whole.length),
      ("same", ordered.map (fun d => (d.cls, d.rule, d.file, d.pos.sl, d.pos.sc)) == whole.map (fun d => (d.cls, d.rule, d.file, d.pos.sl, d.pos.sc)))])

/-- the (file, spelling) pairs reachable through `@import` lines — a *candidate* certificate for `progChecks`
    (`front_of_progChecks` holds for any node list that passes the check) -/
def reachNodes (cfg : Cfg) (fs : FS) : Nat → List (APath × APath) → List (APath × APath) → List (APath × APath)
  | 0, _, seen => seen
  | _, [], seen => seen
  | fuel + 1, n :: todo, seen =>
    if seen.contains n then reachNodes cfg fs fuel todo seen else
    let next := match fs.get n.1 with
      | some (.idl text) =>
        match parseText text with
        | some f => f.loads.filterMap (fun l => (findFile cfg fs n.2 (filepathText l.lit)).map (fun (c, p) => (p, c.path)))
        | none => []
      | _ => []
    reachNodes cfg fs fuel (todo ++ next) (seen ++ [n])

/-- `c11.hyp`: do the hypotheses of `front_eq_violationsOrdered` hold for this request (decided by evaluation:
    `front_of_progChecks`)? If so the model's outcome *is* the ordered specification, and for closed programs
    `front_split_invariance` applies. -/
def hyp (req : Json) : Except String Json := do
  let cfg ← req.getObjVal? "cfg" >>= decodeCfg
  let files ← req.getObjValAs? (Array Json) "files"
  let fl ← files.toList.mapM decodeFile
  let bs ← req.getObjValAs? (Array Json) "builtins"
  let builtins ← bs.toList.mapM decodeDef
  let root ← req.getObjValAs? String "root"
  let r := (parsePath root).2
  let fs : FS := { files := fl }
  let nodes := reachNodes cfg fs (4 * fl.length * fl.length + 8) [(normPath r, r)] []
  pure (Json.mkObj [("holds", progChecks cfg fs builtins r nodes), ("nodes", nodes.length)])

/-- `c11.prog`: the declarative whole-program specification `programDiags` (Front/SpecProgram.lean) for a request, whether
    the hypotheses of `front_eq_programDiags` hold (`visitsChecks`, names pairwise distinct), and — when an
    implementation observation is supplied — whether the implementation reported exactly `programDiags`
    (as a multiset of class, file, position) or, for colliding names, raised at `programCollision`. -/
def prog (req : Json) : Except String Json := do
  let cfg ← req.getObjVal? "cfg" >>= decodeCfg
  let files ← req.getObjValAs? (Array Json) "files"
  let fl ← files.toList.mapM decodeFile
  let bs ← req.getObjValAs? (Array Json) "builtins"
  let builtins ← bs.toList.mapM decodeDef
  let root ← req.getObjValAs? String "root"
  let r := (parsePath root).2
  let fs : FS := { files := fl }
  let good := visitsChecks cfg fs builtins r
  let visits := rootVisits cfg fs r
  let nodup := decide ((programKeys builtins visits).Nodup)
  let spec := programDiags cfg fs builtins r
  let specSites := spec.map (fun d => (d.cls, d.file, d.pos))
  let coll := programCollision builtins visits
  let base := [("hypotheses", Json.bool (good && nodup)), ("good", Json.bool good), ("nodup", Json.bool nodup), ("spec", Json.arr (spec.map diagJ).toArray)]
  match req.getObjVal? "impl" with
  | .error _ => pure (Json.mkObj base)
  | .ok impl =>
    let kind ← impl.getObjValAs? String "kind"
    if !good then pure (Json.mkObj (base ++ [("verdict", Json.str "not-applicable")])) else
    if !nodup then
      let ok := kind == "raised" && (match decodeImplDiag impl, coll with
        | .ok d, some (f, p) => d.cls == "TypeResolvingException" && d.file == f && d.pos == p
        | _, _ => false)
      pure (Json.mkObj (base ++ [("verdict", Json.str (if ok then "holds" else "duplicate-not-raised-at-first-collision"))]))
    else
      let idiags ← (if kind == "diags" then do
          let a ← impl.getObjValAs? (Array Json) "diags"
          a.toList.mapM decodeImplDiag
        else pure [])
      let isites := idiags.map (fun a => (a.cls, a.file, a.pos))
      let ok := (kind == "ok" || kind == "diags") && isites.isPerm specSites
      pure (Json.mkObj (base ++ [("verdict", Json.str (if ok then "holds" else "differs-from-programDiags"))]))

def handle (op : String) (req : Json) : Except String Json :=
  match op with
  | "c11.prog" => prog req
  | "c11.closed" => closed req
  | "c11.hyp" => hyp req
  | _ => throw s!"unknown op {op}"

end Pydjinni.Drv.C11
