import Lean.Data.Json
/-! Driver handlers for property C01: `handle op request` answers one JSON request. -/
namespace Pydjinni.Drv.C01
open Lean

def handle (op : String) (_req : Json) : Except String Json :=
  throw s!"unknown op {op}"

end Pydjinni.Drv.C01
