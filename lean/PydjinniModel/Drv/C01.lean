import PydjinniModel.Drv.C05
import PydjinniModel.Gen.Deps
/-! Driver handlers for property C01 (dependencies / includes of generated headers). -/
namespace Pydjinni.Drv.C01
open Lean Pydjinni.Front Pydjinni.Gen Pydjinni.Drv.FrontJson Pydjinni.Drv.C05

def anonKey (keys : List String) (sig : FnSig) : String := "<anon>:" ++ anonName keys sig

def depKey (keys : List String) (reg : Registry) (d : DepRef) : String :=
  match d.key with
  | .named ns name => match lexicalLookup reg ns name with | some x => x.key | none => "?" ++ name
  | .anon sig => anonKey keys sig

def depsJ (keys : List String) (reg : Registry) (ds : List DepRef) : Json :=
  Json.arr (ds.map (fun d => Json.mkObj [("k", depKey keys reg d), ("o", d.optional)])).toArray

/-- every declaration of the program, named and anonymous (inline function types at any depth) -/
def allUnits (keys : List String) (p : List ProgFile) : List (String × List String × List DepRef × List (List String × String)) :=
  (progDecls p).flatMap (fun (_, ns, d) =>
    let named := (declKey ns d, ns, depsOfDecl ns d, (writtenTypes d).flatMap (mentionsT ns))
    let anons := ((match d with
        | .function _ _ sig _ => fnNodesF sig
        | _ => (topTypes d).flatMap fnNodesT)).map (fun sig =>
          (anonKey keys sig, ns, depsOfSig ns sig, mentionsF ns sig))
    named :: anons)

def handle (op : String) (req : Json) : Except String Json :=
  match op with
  | "c01.deps" => do
    let cfg ← req.getObjVal? "cfg" >>= decodeCfg
    let files ← req.getObjValAs? (Array Json) "files"
    let fs ← files.toList.mapM decodeFile
    let bs ← req.getObjValAs? (Array Json) "builtins"
    let builtins ← bs.toList.mapM decodeDef
    match programOf fs with
    | none => pure (Json.mkObj [("syntax", false)])
    | some prog =>
      let reg := progRegistry (builtins ++ extRegistry fs) prog
      let units := allUnits cfg.keys prog
      pure (Json.mkObj [("syntax", true), ("units", Json.arr (units.map (fun (k, _, ds, ms) =>
        Json.mkObj [("key", k), ("deps", depsJ cfg.keys reg ds), ("needsOptional", ds.any (·.optional)),
                    ("mentions", strsJ (ms.map (fun (ns, n) => match lexicalLookup reg ns n with | some x => x.key | none => "?" ++ n)))])).toArray)])
  | _ => throw s!"unknown op {op}"

end Pydjinni.Drv.C01
