import PydjinniModel.Drv.C05
import PydjinniModel.Drv.GenJson
import PydjinniModel.Gen.Deps
import PydjinniModel.Gen.Keywords
/-! Driver handlers for property C01 (dependencies / includes of generated headers; reserved identifiers). -/
namespace Pydjinni.Drv.C01
open Lean Pydjinni.Front Pydjinni.Gen Pydjinni.Drv.FrontJson Pydjinni.Drv.C05

/-! ### `c01.kwname`: outcome of name-producing marshalling properties (`Gen/Keywords.lean : nameOutcome`)

`{"tables": {"C++": [...], "Java": [...], "Objective-C": [...], "C++/CLI": [...], "Swift": [...]},
  "styles": [[generator, key, {"case", "pfx"}]…], "base": [[generator, [component…]]…], "objc_prefix": "…",
  "cases": [{"gen", "cls", "attr", "ns": […], "name", "base": bool, "anon": bool}…]}`
answers `{"answers": [{"ok": text, "role"} | {"err": token, "lang", "role"} | {"unmodelled": true}]}`. -/
section kw
open Pydjinni.Gen.Keywords Pydjinni.Drv

def kwTables (j : Json) : Except String Tables := do
  let t ← j.getObjVal? "tables"
  let cxx ← GenJson.getStrs t "C++"
  let java ← GenJson.getStrs t "Java"
  let objc ← GenJson.getStrs t "Objective-C"
  let cli ← GenJson.getStrs t "C++/CLI"
  let swift ← GenJson.getStrs t "Swift"
  pure { cxx := cxx, java := java, objc := objc, cli := cli, swift := swift }

def kwStyles (j : Json) : Except String (List ((String × String) × Style)) := do
  let rows ← GenJson.getArr j "styles"
  rows.mapM (fun r => match r with
    | .arr #[.str g, .str k, st] => do pure ((g, k), ← GenJson.decodeStyle st)
    | _ => throw "styles: [generator, key, style] expected")

def kwBase (j : Json) : Except String (List (String × List String)) := do
  let rows ← GenJson.getArr j "base"
  rows.mapM (fun r => match r with
    | .arr #[.str g, .arr comps] => do
      pure (g, ← comps.toList.mapM (fun x => match x with | .str s => pure s | _ => throw "base: string expected"))
    | _ => throw "base: [generator, components] expected")

def kwAnswer (T : Tables) (c : Keywords.Cfg) (styles : List ((String × String) × Style)) (cj : Json) : Except String Json := do
  let gen ← GenJson.getStr cj "gen"
  let cls ← GenJson.getStr cj "cls"
  let attr ← GenJson.getStr cj "attr"
  match specOf gen cls attr with
  | none => pure (Json.mkObj [("unmodelled", true)])
  | some sp =>
    let needs := (if sp.fixed.isNone then [sp.styleKey] else []) ++
      (match sp.shape with
       | .objcType | .qualified _ _ => (match nsSpecOf gen with | some n => if n.fixed.isNone then [n.styleKey] else [] | none => [])
       | _ => [])
    for k in needs do
      unless styles.any (fun r => r.1 == (gen, k)) do throw s!"no identifier style {gen}.{k} in the request"
    let ns ← GenJson.getStrs cj "ns"
    let name ← GenJson.getStr cj "name"
    let isBase ← GenJson.getBool cj "base"
    let isAnon ← GenJson.getBool cj "anon"
    let d : Keywords.Decl := { ns := ns, name := name, base := isBase, anon := isAnon }
    match specOutcome T c gen sp d with
    | .ok s => pure (Json.mkObj [("ok", s), ("role", sp.role)])
    | .error (.invalidIdentifier l w) => pure (Json.mkObj [("err", w), ("lang", l.name), ("role", sp.role)])

def kwHandle (req : Json) : Except String Json := do
  let T ← kwTables req
  let styles ← kwStyles req
  let base ← kwBase req
  let pfx ← GenJson.getStr req "objc_prefix"
  let styleF : String → String → Style := fun g k => ((styles.find? (fun r => r.1 == (g, k))).map (·.2)).getD { case := .none }
  let baseF : String → List String := fun g => ((base.find? (fun r => r.1 == g)).map (·.2)).getD []
  let c : Keywords.Cfg := { style := styleF, base := baseF, objcPrefix := pfx }
  let cases ← GenJson.getArr req "cases"
  let answers ← cases.mapM (kwAnswer T c styles)
  pure (Json.mkObj [("answers", Json.arr answers.toArray)])
/-- `c01.kwref`: the specification side as data, for the failing-input search of the harness -/
def kwRef : Json :=
  let triples (l : List (String × String × String)) : Json :=
    Json.arr (l.map (fun t => Json.arr #[Json.str t.1, Json.str t.2.1, Json.str t.2.2])).toArray
  Json.mkObj [
    ("reference", Json.mkObj [("C++", GenJson.strsJ cxxReserved), ("Java", GenJson.strsJ javaReserved),
                              ("Objective-C", GenJson.strsJ objcReserved), ("C++/CLI", GenJson.strsJ cliReserved)]),
    ("allowed", triples allowed), ("known", triples knownUnvalidated), ("not_modelled", triples notModelled),
    ("lang_of", Json.mkObj (["cpp", "jni", "java", "objc", "cppcli"].map (fun g =>
        (g, match langOfGen g with | some l => Json.str l.name | none => Json.null)))),
    ("specs", Json.arr (specTable.map (fun r => Json.mkObj [("gen", r.1), ("cls", r.2.1), ("attr", r.2.2.1), ("role", r.2.2.2.role),
        ("validated", Json.arr (r.2.2.2.checks.map (fun p => Json.arr #[Json.str p.1.name, GenJson.strsJ p.2.toList])).toArray)])).toArray)]
end kw

def anonKey (keys : List String) (sig : FnSig) : String := "<anon>:" ++ anonName keys sig

def depKey (keys : List String) (reg : Registry) (d : DepRef) : String :=
  match d.key with
  | .named ns name => match lexicalLookup reg ns name with | some x => x.key | none => "?" ++ name
  | .anon sig => anonKey keys sig

def depsJ (keys : List String) (reg : Registry) (ds : List DepRef) : Json :=
  Json.arr (ds.map (fun d => Json.mkObj [("k", depKey keys reg d), ("o", d.optional)])).toArray

/-- every declaration of the program, named and anonymous (inline function types at any depth) -/
def allUnits (keys : List String) (p : List ProgFile) : List (String × List String × List DepRef × List (List String × String)) :=
  (progDecls p).flatMap (fun (_, ns, d) =>
    let named := (declKey ns d, ns, depsOfDecl ns d, (writtenTypes d).flatMap (mentionsT ns))
    let anons := ((match d with
        | .function _ _ sig _ => fnNodesF sig
        | _ => (topTypes d).flatMap fnNodesT)).map (fun sig =>
          (anonKey keys sig, ns, depsOfSig ns sig, mentionsF ns sig))
    named :: anons)

def handle (op : String) (req : Json) : Except String Json :=
  match op with
  | "c01.deps" => do
    let cfg ← req.getObjVal? "cfg" >>= decodeCfg
    let files ← req.getObjValAs? (Array Json) "files"
    let fs ← files.toList.mapM decodeFile
    let bs ← req.getObjValAs? (Array Json) "builtins"
    let builtins ← bs.toList.mapM decodeDef
    match programOf fs with
    | none => pure (Json.mkObj [("syntax", false)])
    | some prog =>
      let reg := progRegistry (builtins ++ extRegistry fs) prog
      let units := allUnits cfg.keys prog
      pure (Json.mkObj [("syntax", true), ("units", Json.arr (units.map (fun (k, _, ds, ms) =>
        Json.mkObj [("key", k), ("deps", depsJ cfg.keys reg ds), ("needsOptional", ds.any (·.optional)),
                    ("mentions", strsJ (ms.map (fun (ns, n) => match lexicalLookup reg ns n with | some x => x.key | none => "?" ++ n)))])).toArray)])
  | "c01.kwname" => kwHandle req
  | "c01.kwref" => pure kwRef
  | _ => throw s!"unknown op {op}"

end Pydjinni.Drv.C01
