import PydjinniModel.Drv.C05
/-! Driver handlers for property C04 (name resolution). -/
namespace Pydjinni.Drv.C04
open Lean Pydjinni.Front Pydjinni.Drv.FrontJson Pydjinni.Drv.C05

def decodeReq (req : Json) : Except String (Cfg × List (APath × FileContent) × Registry × APath) := do
  let cfg ← req.getObjVal? "cfg" >>= decodeCfg
  let files ← req.getObjValAs? (Array Json) "files"
  let fs ← files.toList.mapM decodeFile
  let bs ← req.getObjValAs? (Array Json) "builtins"
  let builtins ← bs.toList.mapM decodeDef
  let root ← req.getObjValAs? String "root"
  pure (cfg, fs, builtins, (parsePath root).2)

structure ImplBinding where
  file : String
  pos : Pos
  key : String

/-- all data references of a program with their namespace -/
def progRefs (p : List ProgFile) : List (String × List String × TypeRef) :=
  (progDecls p).flatMap (fun (f, ns, d) => ((topTypes d).flatMap dataNodesT).map (fun t => (f, ns, t)))

/-- the references of every file (files in finish order) with the registry that file is read against -/
def progRefsOrdered (pre : Registry) (p : List ProgFile) : List (Registry × String × List String × TypeRef) :=
  p.zipIdx.flatMap (fun (f, i) => (progRefs [f]).map (fun r => (regUpTo pre p i, r)))

def spec (req : Json) : Except String Json := do
  let (cfg, fs, builtins, root) ← decodeReq req
  let impl ← req.getObjVal? "impl"
  let kind ← impl.getObjValAs? String "kind"
  let bj ← req.getObjValAs? (Array Json) "bindings"
  let bindings ← bj.toList.mapM (fun j => do
    let file ← j.getObjValAs? String "file"
    let pos ← getPos j "p"
    let key ← j.getObjValAs? String "key"
    pure ({ file := file, pos := pos, key := key } : ImplBinding))
  match (programOf fs).bind (fun _ => programInOrder cfg fs root) with
  | none => pure (Json.mkObj [("holds", kind == "diags"), ("note", "syntax")])
  | some prog =>
    let pre := builtins ++ extRegistry fs
    let dups := allDuplicateSites builtins fs prog
    if !dups.isEmpty then
      let ok := kind == "raised" && (match decodeImplDiag impl with
        | .ok d => d.cls == "TypeResolvingException" && dups.any (fun (f, p) => f == d.file && p == d.pos)
        | .error _ => false)
      pure (Json.mkObj [("holds", ok), ("note", "duplicate declaration"), ("why", strsJ (if ok then [] else ["duplicate-not-rejected"]))])
    else
      let idiags ← (if kind == "diags" then do
          let a ← impl.getObjValAs? (Array Json) "diags"
          a.toList.mapM decodeImplDiag
        else pure [])
      let bad := (progRefsOrdered pre prog).filterMap (fun (reg, f, ns, t) =>
        match t with
        | .data name _ _ pos =>
          let got := (bindings.find? (fun b => b.file == f && b.pos == pos)).map (·.key)
          let unknownReported := idiags.any (fun d => d.cls == "TypeResolvingException" && d.file == f && d.pos == pos)
          match lexicalLookup reg ns name with
          | none =>
            if got.isNone && unknownReported then none
            else some (Json.mkObj [("file", f), ("p", posJ pos), ("name", name), ("expected", Json.null), ("got", optStrJ got), ("why", "unknown-not-rejected")])
          | some d =>
            if got == some d.key && !unknownReported then none
            else some (Json.mkObj [("file", f), ("p", posJ pos), ("name", name), ("expected", d.key), ("got", optStrJ got), ("why", "wrong-binding")])
        | _ => none)
      pure (Json.mkObj [("holds", bad.isEmpty), ("bad", Json.arr bad.toArray),
        ("why", strsJ (bad.filterMap (fun b => (b.getObjValAs? String "why").toOption))), ("refs", (progRefs prog).length)])

def handle (op : String) (req : Json) : Except String Json :=
  match op with
  | "c04.bindings" => do
    let (cfg, fs, builtins, root) ← decodeReq req
    let (o, res, reg, imported) := frontWithBindings cfg { files := fs } builtins root
    pure (Json.mkObj [("outcome", outcomeJ o),
      ("bindings", Json.arr (res.map (fun ((f, p), d) => Json.mkObj [("file", f), ("p", posJ p), ("key", d.key)])).toArray),
      ("decls", strsJ (reg.map (·.key))),
      ("imported", strsJ (imported.map showPath))])
  | "c04.spec" => spec req
  | _ => throw s!"unknown op {op}"

end Pydjinni.Drv.C04
