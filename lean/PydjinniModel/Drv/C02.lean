import PydjinniModel.Drv.GenJson
import PydjinniModel.Gen.Fidelity
import PydjinniModel.Gen.IdentSpec
/-! Driver handlers for property C02: identifier conversion, per-target type mapping (model and reference),
    declaration skeletons (model) and the fidelity specification on an extracted skeleton. -/
namespace Pydjinni.Drv.C02
open Lean Pydjinni.Gen Pydjinni.Drv.GenJson

def convertOp (req : Json) : Except String Json := do
  let items ← getArr req "items"
  let out ← items.mapM (fun it => do
    let st ← getStyle it "style"
    let s ← getStr it "s"
    pure (Json.str (convert st s)))
  pure (Json.mkObj [("out", Json.arr out.toArray)])

def S (k v : String) : String × Json := (k, Json.str v)
def B (k : String) (v : Bool) : String × Json := (k, Json.bool v)
def L (k : String) (v : List String) : String × Json := (k, strsJ v)

/-- `spec` for identifier conversion on implementation outputs: `items = [{style, s, out}]` -/
def convertSpecOp (req : Json) : Except String Json := do
  let items ← getArr req "items"
  let out ← items.mapM (fun it => do
    let st ← getStyle it "style"
    let s ← getStr it "s"
    let o ← getStr it "out"
    pure (Json.bool (convertSpec st s.toList o.toList)))
  pure (Json.mkObj [("out", Json.arr out.toArray)])

/-- every marshalling attribute of one type reference, model side and reference side -/
def typeAnswer (c : Cfg) (t : RType) : Json :=
  let d := t.def'
  Json.mkObj [
    S "cpp_field" (cppSpec c.cpp t false false), S "cpp_param" (cppSpec c.cpp t true true), S "cpp_ret" (cppSpec c.cpp t false true),
    S "cpp_typename" (cppTypename c.cpp d), S "cpp_header" (cppHeader c.cpp d), B "cpp_by_value" (cppByValue d),
    S "java_field" (javaDataType c.java t false), S "java_boxed_field" (javaDataType c.java t true),
    S "java_typename" (javaTypename c.java d), S "java_boxed" (javaBoxed c.java d),
    S "jni_sig" (jniTypeSig c.java c.jni d), S "jni_boxed_sig" (jniBoxedSig c.java c.jni d),
    S "jni_desc" (match d with | .builtin _ => "" | d => jniClassDescriptor c.java c.jni d),
    S "jni_prefix" (match d with | .builtin _ => "" | d => jniPrefix (jniPrefixSegments c.java c.jni d)),
    S "jni_header" (jniHeader c.jni d), S "jni_typename" (jniGetTypename t), S "jni_native" (jniNativeType d),
    S "objc_field" (objcTypeDecl c.objc t false false), S "objc_param" (objcTypeDecl c.objc t true false),
    S "objc_boxed" (objcTypeDecl c.objc t false true),
    S "objc_typename" (objcTypename c.objc d), S "objc_header" (objcHeader c.objc d), S "objcpp_header" (objcppHeader c.objcppHeaderExt d),
    S "objc_annotation" (objcAnnotation (some t) false), B "objc_pointer" (objcPointer d),
    S "cli_typename" (cliTypename c.cli t), S "cli_def_typename" (cliDefTypename c.cli d), S "cli_header" (cliHeader c.cli d),
    B "cli_reference" (cliReference d),
    S "java_desc" (desc (javaJT c.java t false)), S "java_boxed_desc" (desc (javaJT c.java t true)),
    S "java_print" (printJ (javaJT c.java t false)),
    -- reference mapping
    S "ref_cpp_field" (printT (refCpp c.cpp t .field)), S "ref_cpp_param" (printT (refCpp c.cpp t .param)), S "ref_cpp_ret" (printT (refCpp c.cpp t .result)),
    S "ref_java_field" (printT (refJava c.java t false)), S "ref_java_boxed_field" (printT (refJava c.java t true)),
    S "ref_objc_field" (printT (refObjc c.objc t false false)), S "ref_objc_param" (printT (refObjc c.objc t true false)),
    S "ref_objc_boxed" (printT (refObjc c.objc t false true)),
    S "ref_cli_typename" (printT (refCli c.cli t))]

def methodAnswer (c : Cfg) (m : MethodD) : Json :=
  let ps := m.params.map (·.ty)
  Json.mkObj [
    S "cpp_type_spec" (cppMethodRet c.cpp m), L "cpp_prefix" (cppPrefix m), L "cpp_postfix" (cppPostfix m),
    S "cpp_callback" (cppSpecOpt c.cpp m.ret true false),
    S "java_return" (javaReturnType c.java m.ret m.isAsync),
    S "jni_sig" (jniMethodSig c.java c.jni ps m.ret m.isAsync), S "jni_return_spec" (jniReturnTypeSpec m.ret m.isAsync),
    S "java_desc" (methodDesc (paramJTs c.java m.params) (javaRetJT c.java m.ret m.isAsync)),
    S "objc_return" (objcTypeDeclO c.objc m.ret), S "objc_completion" (objcCompletion c.objc m),
    S "cli_return" (cliTypenameO c.cli m.ret m.isAsync),
    S "ref_java_return" (printT (refJavaRet c.java m.ret m.isAsync)),
    S "ref_cli_return" (printT (refCliRet c.cli m.ret m.isAsync))]

def typesOp (req : Json) : Except String Json := do
  let cm ← decodeCommon req
  let qs ← getArr req "queries"
  let out ← qs.mapM (fun q =>
    match q.getObjVal? "t" with
    | .ok tj => do
      let t ← decodeType cm.env 12 tj
      pure (typeAnswer cm.cfg t)
    | .error _ => do
      let mj ← q.getObjVal? "m"
      let m : MethodD := {
        name := "m", params := ← decodeFields cm.env mj "params", ret := ← decodeTypeO cm.env mj "ret",
        isStatic := ← getBool mj "static", isConst := ← getBool mj "const", isAsync := ← getBool mj "async",
        throwing := ← decodeThrowing cm.env mj }
      pure (methodAnswer cm.cfg m))
  pure (Json.mkObj [("out", Json.arr out.toArray)])

def targets : List (String × Target) := [("cpp", .cpp), ("java", .java), ("objc", .objc), ("cppcli", .cppcli)]

def skelOp (req : Json) : Except String Json := do
  let cm ← decodeCommon req
  let ds ← getArr req "decls"
  let out ← ds.mapM (fun dj => do
    let d ← decodeDecl cm.env dj
    pure (Json.mkObj (targets.map (fun (k, t) => (k, declSJ (apiSkel t cm.cfg d))))))
  pure (Json.mkObj [("out", Json.arr out.toArray)])

def decodeMembers (j : Json) (k : String) : Except String (List MemberS) := do
  let a ← getArr j k
  a.mapM (fun m => match m with
    | .arr #[.str ty, .str name] => pure { ty := ty, name := name }
    | _ => throw s!"{k}: [type, name] expected")

def decodeMethodS (m : Json) : Except String MethodS := do
  pure { pre := ← getStrs m "pre", ret := ← getStr m "ret", name := ← getStr m "name", params := ← decodeMembers m "params", post := ← getStrs m "post" : MethodS }

def decodeDeclS (j : Json) : Except String DeclS := do
  let ms ← getArr j "methods"
  let methods ← ms.mapM decodeMethodS
  let cs ← getArr j "codes"
  let codes ← cs.mapM (fun k => do
    let kms ← getArr k "methods"
    pure { name := ← getStr k "name", fields := ← decodeMembers k "fields", ctor := ← decodeMembers k "ctor",
           fmods := ← getStrs k "fmods", methods := ← kms.mapM decodeMethodS : CodeS })
  pure { kind := ← getStr j "kind", name := ← getStr j "name", scope := ← getStr j "scope", mods := ← getStrs j "mods",
         fields := ← decodeMembers j "fields", ctor := ← decodeMembers j "ctor", methods := methods, items := ← getStrs j "items", codes := codes,
         fmods := ← getStrs j "fmods" }

/-- `spec.C02` on extracted skeletons: `cases = [{"decl": <index into decls>, "target": "cpp", "skel": {...}}]` -/
def specOp (req : Json) : Except String Json := do
  let cm ← decodeCommon req
  let ds ← getArr req "decls"
  let decls ← ds.mapM (decodeDecl cm.env)
  let cases ← getArr req "cases"
  let out ← cases.mapM (fun cj => do
    let i ← cj.getObjValAs? Nat "decl"
    let ts ← getStr cj "target"
    let sk ← cj.getObjVal? "skel" >>= decodeDeclS
    match decls[i]?, Target.ofString? ts with
    | some d, some t =>
      let failed := fidelity t cm.cfg d sk
      pure (Json.mkObj [("holds", failed.isEmpty), ("failed", strsJ failed)])
    | _, _ => throw s!"bad case (decl {i}, target {ts})")
  pure (Json.mkObj [("out", Json.arr out.toArray)])

def handle (op : String) (req : Json) : Except String Json :=
  match op with
  | "c02.convert" => convertOp req
  | "c02.convertSpec" => convertSpecOp req
  | "c02.types" => typesOp req
  | "c02.skel" => skelOp req
  | "c02.spec" => specOp req
  | _ => throw s!"unknown op {op}"

end Pydjinni.Drv.C02
