import Lean.Data.Json
import PydjinniModel.Gen.Flags
/-!
Driver handlers for property C08.

* `c08.model`  what the templates emit for one enum / flags declaration, evaluated: per C-family target the list
               `(constant, value | null)`, the Java constants, the JNI `bits` argument
* `c08.eval`   `Lang.evalEnum` on an enumerator list given as JSON (the initialisers the harness extracted from a
               generated header) — the implementation's observation is computed by the same evaluator
* `c08.spec`   the specification predicate on an implementation observation
-/
namespace Pydjinni.Drv.C08
open Lean Pydjinni.Gen Pydjinni.Lang

partial def decodeExpr (j : Json) : Except String EExpr :=
  match j with
  | .str "bad" => pure .bad
  | _ =>
    match j.getObjVal? "lit" with
    | .ok v => do let n ← v.getNat?; pure (.lit n)
    | .error _ =>
      match j.getObjValAs? String "ref" with
      | .ok s => pure (.ref s)
      | .error _ =>
        match j.getObjValAs? (Array Json) "shl" with
        | .ok #[a, b] => do pure (.shl (← decodeExpr a) (← decodeExpr b))
        | _ =>
          match j.getObjValAs? (Array Json) "or" with
          | .ok #[a, b] => do pure (.bor (← decodeExpr a) (← decodeExpr b))
          | _ => throw s!"bad expression {j.compress}"

def decodeEnumerator (j : Json) : Except String Enumerator := do
  let name ← j.getObjValAs? String "name"
  let init ← match j.getObjVal? "init" with
    | .ok .null => pure none
    | .ok e => some <$> decodeExpr e
    | .error _ => pure none
  pure ⟨name, init⟩

def optNatJ : Option Nat → Json
  | some n => Json.num (JsonNumber.fromNat n)
  | none => Json.null

def valuationJ (l : List (String × Option Nat)) : Json :=
  Json.arr (l.map (fun (n, v) => Json.arr #[Json.str n, optNatJ v])).toArray

def strsJ (l : List String) : Json := Json.arr (l.map Json.str).toArray

def decodeValuation (j : Json) : Except String (List (String × Option Nat)) := do
  let a ← j.getArr?
  a.toList.mapM (fun e => do
    let p ← e.getArr?
    match p with
    | #[n, v] =>
      let name ← n.getStr?
      let val ← (match v with | .null => pure none | _ => some <$> v.getNat?)
      pure (name, val)
    | _ => throw "bad valuation entry")

def getStrs (j : Json) (k : String) : Except String (List String) := do
  let a ← j.getObjValAs? (Array Json) k
  a.toList.mapM (·.getStr?)

structure Req where
  isFlags : Bool
  items : List (Bool × Bool)          -- (all, none)
  cpp : List String
  objc : List String
  cppcli : List String
  java : List String
  objcType : String

def decodeReq (req : Json) : Except String Req := do
  let kind ← req.getObjValAs? String "kind"
  let items ← req.getObjValAs? (Array Json) "items"
  let its ← items.toList.mapM (fun i => do
    let a := (i.getObjValAs? Bool "all").toOption.getD false
    let n := (i.getObjValAs? Bool "none").toOption.getD false
    pure (a, n))
  let names ← req.getObjVal? "names"
  let r : Req := { isFlags := kind == "flags", items := its, cpp := ← getStrs names "cpp", objc := ← getStrs names "objc",
                   cppcli := ← getStrs names "cppcli", java := ← getStrs names "java", objcType := ← req.getObjValAs? String "objcType" }
  if r.cpp.length != its.length || r.objc.length != its.length || r.cppcli.length != its.length || r.java.length != its.length then
    throw "names and items differ in length"
  pure r

def flagsOf (items : List (Bool × Bool)) (names : List String) : List Flag :=
  (items.zip names).map (fun ((a, n), nm) => ⟨nm, a, n⟩)

def model (req : Json) : Except String Json := do
  let r ← decodeReq req
  if r.isFlags then
    let fc := flagsOf r.items r.cpp
    pure (Json.mkObj [
      ("cpp", valuationJ (evalEnum (emitCpp fc))),
      ("objc", valuationJ (evalEnum (emitObjc r.objcType (flagsOf r.items r.objc)))),
      ("cppcli", valuationJ (evalEnum (emitCppCli (flagsOf r.items r.cppcli)))),
      ("java", strsJ (javaConstants (flagsOf r.items r.java))),
      ("jniBits", jniBits fc),
      ("spec", Json.arr ((specValues fc).map (fun n => Json.num (JsonNumber.fromNat n))).toArray),
      ("pinned", valuationJ (evalEnum (emitCounterPinned "" fc fc 0)))])
  else
    pure (Json.mkObj [
      ("cpp", valuationJ (evalEnum (emitEnum "" r.cpp))),
      ("objc", valuationJ (evalEnum (emitEnum r.objcType r.objc))),
      ("cppcli", valuationJ (evalEnum (emitEnum "" r.cppcli))),
      ("java", strsJ r.java),
      ("spec", Json.arr ((List.range r.items.length).map (fun n => Json.num (JsonNumber.fromNat n))).toArray)])

def eval (req : Json) : Except String Json := do
  let es ← req.getObjValAs? (Array Json) "enumerators"
  let l ← es.toList.mapM decodeEnumerator
  pure (Json.mkObj [("values", valuationJ (evalEnum l))])

def nodup (l : List String) : Bool := l.all (fun x => (l.filter (· == x)).length == 1)

/-- `spec.C08` on an implementation observation: per target `(constant, value | null)` lists (null target = nothing
was generated), Java constants, JNI facts -/
def spec (req : Json) : Except String Json := do
  let r ← decodeReq req
  let impl ← req.getObjVal? "impl"
  let fs := flagsOf r.items r.cpp
  let mut fails : List (String × String) := []
  for (t, want) in [("cpp", r.cpp), ("objc", r.objc.map (r.objcType ++ ·)), ("cppcli", r.cppcli)] do
    match impl.getObjVal? t with
    | .ok .null => fails := fails ++ [(t, "no constants generated")]
    | .ok j =>
      let obs ← decodeValuation j
      let ok := if r.isFlags then specCTarget fs obs else specEnumTarget r.items.length obs
      if obs.length != r.items.length then fails := fails ++ [(t, "number of constants differs from the declaration")]
      else if obs.any (fun p => p.2.isNone) then fails := fails ++ [(t, "undefined constant (use before declaration or ill-formed initialiser)")]
      else if !ok then fails := fails ++ [(t, "constant value differs from the specification")]
      else if obs.map (·.1) != want then fails := fails ++ [(t, "constants are not the declared items in declaration order")]
      else if !nodup (obs.map (·.1)) then fails := fails ++ [(t, "constant names not distinct")]
    | .error _ => pure ()
  match impl.getObjVal? "java" with
  | .ok .null => fails := fails ++ [("java", "no constants generated")]
  | .ok j =>
    let a ← j.getArr?
    let obs ← a.toList.mapM (·.getStr?)
    let want := if r.isFlags then ((fs.zip r.java).filter (fun p => p.1.ordinary)).map (·.2) else r.java
    if obs != want then fails := fails ++ [("java", "constants are not the ordinary flags / items in declaration order (ordinal ≠ bit index)")]
  | .error _ => pure ()
  match impl.getObjVal? "javaOrdinals" with
  | .ok .null => pure ()
  | .ok j =>
    let obs ← decodeValuation j
    let want := if r.isFlags then ((fs.zip r.java).filter (fun p => p.1.ordinary)).map (·.2) else r.java
    if obs != want.zipIdx.map (fun (n, i) => (n, some i)) then
      fails := fails ++ [("java", "Enum.values() order / ordinals differ from the bit indices")]
  | .error _ => pure ()
  match impl.getObjVal? "jni" with
  | .ok .null => fails := fails ++ [("jni", "no marshalling class generated")]
  | .ok j =>
    let cast := (j.getObjValAs? Bool "castsByOrdinal").toOption.getD false
    if !cast then fails := fails ++ [("jni", "does not convert by ordinal / bit position")]
    if r.isFlags then
      let bits ← j.getObjValAs? Nat "bits"
      if bits < ordinaryCount fs then fails := fails ++ [("jni", "create() considers fewer bits than there are ordinary flags")]
  | .error _ => pure ()
  let clauses := (if r.isFlags && !allFlagHasOrdinary fs then ["all-without-ordinary"] else [])
    ++ (if r.isFlags && !allFlagAfterOrdinaries fs then ["all-before-ordinary"] else [])
  pure (Json.mkObj [("holds", fails.isEmpty),
    ("failures", Json.arr (fails.map (fun (t, w) => Json.mkObj [("target", t), ("why", w)])).toArray),
    ("clauses", strsJ clauses)])

def handle (op : String) (req : Json) : Except String Json :=
  match op with
  | "c08.model" => model req
  | "c08.eval" => eval req
  | "c08.spec" => spec req
  | _ => throw s!"unknown op {op}"

end Pydjinni.Drv.C08
