import Lean.Data.Json
import PydjinniModel.Sys.Pkg
import PydjinniModel.Sys.PkgHistory
/-! Driver handlers for property C20: `c20.run` (packaging model on one configuration and fault) and
    `c20.spec` (the specification predicate on an implementation observation). -/
namespace Pydjinni.Drv.C20
open Lean Pydjinni.Sys.Pkg

def strsJ (l : List String) : Json := Json.arr (l.map Json.str).toArray
def pathsJ (l : List Path) : Json := Json.arr (l.map strsJ).toArray

def getStrs (j : Json) : Except String (List String) := do
  let a ← j.getArr?
  a.toList.mapM (fun x => x.getStr?)

def getPaths (j : Json) : Except String (List Path) := do
  let a ← j.getArr?
  a.toList.mapM getStrs

/-- `{"abs": b, "c": […]}`; a relative path with leading `..` components is `{"abs": false, "up": n, "c": […]}` -/
def getP (cwd : Path) (j : Json) : Except String P := do
  let isAbs ← j.getObjValAs? Bool "abs"
  let c ← j.getObjVal? "c" >>= getStrs
  let up : Nat := match j.getObjValAs? Nat "up" with | .ok n => n | .error _ => 0
  pure (if isAbs then .abs c else if up > 0 then P.upFrom cwd up c else .rel c)

def optP (cwd : Path) (j : Json) (k : String) : Except String (Option P) :=
  match j.getObjVal? k with
  | .ok Json.null => pure none
  | .ok v => some <$> getP cwd v
  | .error _ => pure none

def getCfg (cwd : Path) (j : Json) : Except String Cfg := do
  let plats ← j.getObjValAs? (Array Json) "platforms"
  let platforms ← plats.toList.mapM (fun p => do
    let a ← p.getArr?
    match a.toList with
    | [n, archs] => pure ((← n.getStr?), (← getStrs archs))
    | _ => throw "platform entry")
  -- the repository address as the configuration spells it (the sandbox directory being the root): the model classifies it
  let swiftRepo := classifyRepo cwd (← j.getObjValAs? String "repository")
  pure {
    key := ← j.getObjValAs? String "key"
    target := ← j.getObjValAs? String "target"
    version := ← j.getObjValAs? String "version"
    configuration := ← j.getObjValAs? String "configuration"
    out := ← j.getObjVal? "out" >>= getP cwd
    platforms := platforms
    clean := ← j.getObjValAs? Bool "clean"
    templates := ← j.getObjVal? "templates" >>= getPaths
    distFiles := ← j.getObjVal? "distFiles" >>= getPaths
    netVersion := ← j.getObjValAs? String "netVersion"
    readme := ← optP cwd j "readme"
    mavenRemote := ← j.getObjValAs? Bool "mavenRemote"
    nugetLocal := ← j.getObjValAs? Bool "nugetLocal"
    swiftRepo := swiftRepo }

def resJ : Res → Json
  | .ok => "ok"
  | .err .external => "external"
  | .err .fileNotFound => "fileNotFound"
  | .err (.oserror s) => Json.str ("oserror:" ++ s)

def codeJ : Res → Json
  | .ok => Json.null
  | .err .external => (130 : Nat)
  | .err .fileNotFound => (2 : Nat)
  | .err (.oserror _) => (1 : Nat)

def resultJ : ToolResult → Json
  | .ok => "ok" | .missing => "missing" | .nonzero => "nonzero"

def callJ (c : Call) : Json :=
  Json.mkObj [("tool", c.tool), ("sig", strsJ c.sig), ("ranIn", strsJ c.ranIn), ("result", resultJ c.result), ("handled", c.handled)]

def sortPaths (l : List Path) : List Path :=
  (l.toArray.qsort (fun a b => "/".intercalate a < "/".intercalate b)).toList

def getOracle (j : Json) : Except String Oracle :=
  match j.getObjVal? "fault" with
  | .ok Json.null | .error _ => pure allOk
  | .ok f => do
    let k ← f.getObjValAs? Nat "k"
    let kind ← f.getObjValAs? String "kind"
    -- a set of faults: further invocation indices that exit non-zero (`also`), tools gone from index `thenMissing` on
    let also : List Nat := match f.getObjValAs? (List Nat) "also" with | .ok l => l | .error _ => []
    let thenMissing : Option Nat := match f.getObjValAs? Nat "thenMissing" with | .ok m => some m | .error _ => none
    match kind with
    | "missing" => pure (missingFrom k)
    | "nonzero" => pure (if also.isEmpty && thenMissing.isNone then faultAt k .nonzero else faultsAt (k :: also) thenMissing)
    | _ => throw s!"fault kind {kind}"

def pathsOr (j : Json) (k : String) : Except String (List Path) :=
  match j.getObjVal? k with
  | .ok v => getPaths v
  | .error _ => pure []

/-- `c20.run`: `phase = "package"` runs all `build` calls and `package`; `phase = "publish"` first runs that with
    succeeding tools, applies the harness' edits to the tree (`remove`, `add`), then runs `publish` under the fault. -/
def runOp (req : Json) : Except String Json := do
  let cwd ← req.getObjVal? "cwd" >>= getStrs
  let cfg ← req.getObjVal? "cfg" >>= getCfg cwd
  let phase ← req.getObjValAs? String "phase"
  let files ← pathsOr req "files"
  let orc ← getOracle req
  -- earlier package runs on the same tree (`prior`: their configurations, succeeding tools), each a call of its own
  let priors : List Cfg ← (match req.getObjVal? "prior" with
    | .ok (Json.arr a) => a.toList.mapM (getCfg cwd)
    | _ => pure [])
  let w0 : World := afterRuns (priors.map (fun c => (c, allOk))) { cwd := cwd, files := files, dirs := [], flags := [], calls := [] }
  let (r, w, pre) ← (match phase with
    | "package" => pure (let (r, w) := run orc (packageOp cfg) w0; (r, w, Res.ok))
    | "publish" => do
      let (r0, w1) := run allOk (packageOp cfg) w0
      let remove ← pathsOr req "remove"
      let add ← pathsOr req "add"
      let w2 : World := { w1 with calls := [], files := addFiles (w1.files.filter (fun f => !remove.any (fun d => under d f))) add,
                                  dirs := w1.dirs.filter (fun f => !remove.any (fun d => under d f)) }
      pure (let (r, w) := run orc (publishSteps cfg) w2; (r, w, r0))
    | p => throw s!"phase {p}")
  -- where a Swift package publish into a local directory writes (`null`: through git / another target)
  let dest : Json := match cfg.key, cfg.swiftRepo with
    | "swiftpackage", .localDir d => strsJ (resolve cwd (d.join [cfg.target]))
    | _, _ => Json.null
  pure (Json.mkObj [("res", resJ r), ("code", codeJ r), ("prepare", resJ pre), ("cwd", strsJ w.cwd),
    ("remote", cfg.key != "swiftpackage" || cfg.swiftRepo.isRemote), ("dest", dest),
    ("files", pathsJ (sortPaths w.files)), ("calls", Json.arr (w.calls.map callJ).toArray),
    ("clean", clean w.calls)])

def optNat (j : Json) (k : String) : Option Nat :=
  match j.getObjVal? k with
  | .ok Json.null | .error _ => none
  | .ok v => match v.getNat? with | .ok n => some n | .error _ => none

/-- `c20.spec` on an implementation observation -/
def specOp (req : Json) : Except String Json := do
  let key ← req.getObjValAs? String "key"
  let phase ← req.getObjValAs? String "phase"
  let fault : Option (Nat × Bool) ← (match req.getObjVal? "fault" with
    | .ok Json.null | .error _ => pure none
    | .ok f => do pure (some ((← f.getObjValAs? Nat "k"), (← f.getObjValAs? Bool "handled"))))
  let maxLogged ← req.getObjValAs? Nat "maxLogged"
  let o ← req.getObjVal? "obs"
  let obs : Obs := {
    code := optNat o "code"
    cwdBefore := ← o.getObjVal? "cwdBefore" >>= getStrs
    cwdAfter := ← o.getObjVal? "cwdAfter" >>= getStrs
    outBefore := ← o.getObjVal? "outBefore" >>= getPaths
    outAfter := ← o.getObjVal? "outAfter" >>= getPaths
    ranIn := ← o.getObjVal? "ranIn" >>= getPaths
    workRoots := ← pathsOr o "workRoots"
    exits := (match o.getObjValAs? (List Nat) "exits" with | .ok l => l | .error _ => [])
    handledAt := (match o.getObjValAs? (List Bool) "handledAt" with | .ok l => l | .error _ => [])
    cmdlines := (match o.getObjVal? "cmdlines" with | .ok v => (match getStrs v with | .ok l => l | .error _ => []) | .error _ => [])
    newPaths := ← pathsOr o "newPaths"
    allowed := ← pathsOr o "allowed" }
  -- a set of faults: `faults` = the failing points (ascending) as read off the stub log; the first unhandled one counts
  let faults : Option (List FaultPt) ← (match req.getObjVal? "faults" with
    | .ok (Json.arr a) => do
      let l ← a.toList.mapM (fun j => do
        pure ({ k := ← j.getObjValAs? Nat "k", handled := ← j.getObjValAs? Bool "handled",
                maxLogged := ← j.getObjValAs? Nat "maxLogged", phase := ← j.getObjValAs? String "phase" } : FaultPt))
      pure (some l)
    | _ => pure none)
  let failed := (match faults with
    | some l => specSet key phase l obs
    | none => spec key phase fault maxLogged obs) ++ specObs obs
  let eff : Json := match faults with
    | some l => (match effectiveFault l with | some f => Json.mkObj [("k", f.k), ("handled", f.handled), ("phase", f.phase)] | none => Json.null)
    | none => Json.null
  pure (Json.mkObj [("holds", failed.isEmpty), ("failed", strsJ failed), ("effective", eff)])

/-- `c20.classify`: what `publish` makes of a repository address -/
def classifyOp (req : Json) : Except String Json := do
  let cwd ← req.getObjVal? "cwd" >>= getStrs
  let addr ← req.getObjValAs? String "address"
  pure (match classifyRepo cwd addr with
    | .url => Json.mkObj [("kind", "url")]
    | .gitPath => Json.mkObj [("kind", "git")]
    | .localDir d => Json.mkObj [("kind", "local"), ("dir", strsJ (resolve cwd d))])

def handle (op : String) (req : Json) : Except String Json :=
  match op with
  | "c20.classify" => classifyOp req
  | "c20.run" => runOp req
  | "c20.spec" => specOp req
  | _ => throw s!"unknown op {op}"

end Pydjinni.Drv.C20
