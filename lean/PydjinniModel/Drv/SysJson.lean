import Lean.Data.Json
import PydjinniModel.Sys.Api
/-!
JSON glue shared by the driver handlers of C14, C15 and C10: decoding of paths, generator
configurations, declarations and support-library listings.
-/
namespace Pydjinni.Drv.SysJson
open Lean Pydjinni.GenC Pydjinni.SysC

def strsJ (l : List String) : Json := Json.arr (l.map Json.str).toArray
def pathJ (p : Path) : Json := Json.str p.toString
def pathsJ (l : List Path) : Json := Json.arr (l.map pathJ).toArray
def kindJ : FKind → Json | .header => "header" | .source => "source"

def getStrs (j : Json) (k : String) : Except String (List String) := do
  let a ← j.getObjValAs? (Array String) k
  pure a.toList

def optStr (j : Json) (k : String) : Except String (Option String) :=
  match j.getObjVal? k with
  | .ok Json.null => pure none
  | .ok (Json.str s) => pure (some s)
  | .ok _ => throw s!"{k}: string or null expected"
  | .error _ => pure none

def decodeCase (s : String) : Except String Case :=
  match s with
  | "none" => pure .none | "camelCase" => pure .camel | "PascalCase" => pure .pascal
  | "snake_case" => pure .snake | "kebab-case" => pure .kebab | "TRAIN_CASE" => pure .train
  | _ => throw s!"unknown case {s}"

def decodeStyle (j : Json) : Except String Style := do
  let c ← j.getObjValAs? String "case" >>= decodeCase
  let p ← optStr j "prefix"
  pure { case := c, pfx := p }

def decodeOut (j : Json) : Except String Out :=
  match j with
  | Json.str s => pure (.one (Path.ofString s))
  | _ => do
    let s ← j.getObjValAs? String "source"
    let h ← j.getObjValAs? String "header"
    pure (.two (Path.ofString s) (Path.ofString h))

def decodeGCfg (j : Json) : Except String GCfg := do
  let out ← j.getObjVal? "out" >>= decodeOut
  let file ← j.getObjVal? "file" >>= decodeStyle
  let type ← j.getObjVal? "type" >>= decodeStyle
  let pkgStyle ← j.getObjVal? "pkgStyle" >>= decodeStyle
  let headerExt ← j.getObjValAs? String "headerExt"
  let sourceExt ← j.getObjValAs? String "sourceExt"
  let package ← getStrs j "package"
  let support ← getStrs j "support"
  let typePrefix ← j.getObjValAs? String "typePrefix"
  let stringSer ← j.getObjValAs? Bool "stringSer"
  let loader ← j.getObjValAs? Bool "loader"
  let nativeLib ← optStr j "nativeLib"
  let bridging ← optStr j "bridging"
  let outFile ← optStr j "outFile"
  let content ← j.getObjValAs? String "content"
  pure { out, file, type, pkgStyle, headerExt, sourceExt, package, support, typePrefix, stringSer, loader, nativeLib,
         bridging := bridging.map Path.ofString, outFile := outFile.map Path.ofString, content }

def decodeG (s : String) : Except String G :=
  match s with
  | "cpp" => pure .cpp | "java" => pure .java | "jni" => pure .jni | "objc" => pure .objc
  | "objcpp" => pure .objcpp | "cppcli" => pure .cppcli | "yaml" => pure .yaml
  | _ => throw s!"unknown generator {s}"

def decodeT (s : String) : Except String T :=
  match s with
  | "cpp" => pure .cpp | "cppcli" => pure .cppcli | "java" => pure .java | "objc" => pure .objc | "yaml" => pure .yaml
  | _ => throw s!"unknown target {s}"

/-- `{key: gcfg}` → lookup function -/
def decodeGens (j : Json) : Except String (G → Option GCfg) := do
  let l ← G.all.mapM (fun g => match j.getObjVal? g.key with
    | .ok Json.null => pure (g, (none : Option GCfg))
    | .ok v => do let c ← decodeGCfg v; pure (g, some c)
    | .error _ => pure (g, none))
  pure (fun g => (l.find? (fun x => x.1 == g)).bind (·.2))

def decodeKind (s : String) : Except String DKind :=
  match s with
  | "enum" => pure .enum | "flags" => pure .flags | "record" => pure .record | "interface" => pure .interface
  | "function" => pure .function | "error" => pure .error
  | _ => throw s!"unknown declaration kind {s}"

def decodeDecl (j : Json) : Except String Decl := do
  let name ← j.getObjValAs? String "name"
  let ns ← getStrs j "ns"
  let kind ← j.getObjValAs? String "kind" >>= decodeKind
  let targets ← getStrs j "targets"
  let anonymous ← j.getObjValAs? Bool "anonymous"
  let hasFields ← j.getObjValAs? Bool "hasFields"
  let eq ← j.getObjValAs? Bool "eq"
  let ord ← j.getObjValAs? Bool "ord"
  let async ← j.getObjValAs? Bool "async"
  let content ← j.getObjValAs? String "content"
  pure { name, ns, kind, targets, anonymous, hasFields, derivingEq := eq, derivingOrd := ord, asyncMethods := async, content }

def decodeDecls (j : Json) (k : String) : Except String (List Decl) := do
  let a ← j.getObjValAs? (Array Json) k
  a.toList.mapM decodeDecl

def decodeFKind (s : String) : Except String FKind :=
  match s with
  | "header" => pure .header | "source" => pure .source | _ => throw s!"unknown file kind {s}"

def decodeFiles (j : Json) : Except String (List (FKind × Path)) := do
  let a ← (fromJson? j : Except String (Array (Array String)))
  a.toList.mapM (fun x => do
    let k ← decodeFKind (x.getD 0 "")
    pure (k, Path.ofString (x.getD 1 "")))

/-- `{key: [[kind, relpath], …]}` -/
def decodeSupport (j : Json) : Except String (G → List (FKind × Path)) := do
  let l ← G.all.mapM (fun g => match j.getObjVal? g.key with
    | .ok v => do let fs ← decodeFiles v; pure (g, fs)
    | .error _ => pure (g, []))
  pure (fun g => ((l.find? (fun x => x.1 == g)).map (·.2)).getD [])

def filesJ (fs : List (FKind × Path)) : Json :=
  Json.arr (fs.map (fun f => Json.arr #[kindJ f.1, pathJ f.2])).toArray

def absParts (s : String) : List String := (Path.ofString s).parts

end Pydjinni.Drv.SysJson
