import Lean.Data.Json
import PydjinniModel.Sys.Lsp
/-! Driver handlers for property C18: `c18.run` (the language-server model on an event list, the front end given as a
    table computed by the real `api.parse`) and `c18.spec` (the specification on the implementation's observations). -/
namespace Pydjinni.Drv.C18
open Lean Pydjinni.Sys.Lsp

def getRange (j : Json) : Except String Range := do
  let a ← j.getArr?
  match a.toList with
  | [a, b, c, d] => pure { sl := ← a.getNat?, sc := ← b.getNat?, el := ← c.getNat?, ec := ← d.getNat? }
  | _ => throw "range"

def rangeJ (r : Range) : Json := Json.arr #[r.sl, r.sc, r.el, r.ec]

def optStr (j : Json) (k : String) : Option String :=
  match j.getObjVal? k with
  | .ok (Json.str s) => some s
  | _ => none

def getDef (j : Json) : Except String (Option DefInfo) :=
  match j with
  | Json.null => pure none
  | _ => do
    let loc ← (match j.getObjVal? "loc" with
      | .ok Json.null | .error _ => pure none
      | .ok v => do
        let a ← v.getArr?
        match a.toList with
        | [u, r] => pure (some ((← u.getStr?), (← getRange r)))
        | _ => throw "loc")
    pure (some { comment := optStr j "comment", deprecated := ← j.getObjValAs? Bool "deprecated", depFile := optStr j "depFile", loc := loc })

partial def getRef (j : Json) : Except String Ref := do
  let ps ← j.getObjValAs? (Array Json) "params"
  let params ← ps.toList.mapM getRef
  let d ← (match j.getObjVal? "def" with | .ok v => getDef v | .error _ => pure none)
  pure (.mk (← j.getObjValAs? Bool "own") (← j.getObjValAs? Nat "line") (← j.getObjValAs? Nat "sc") (← j.getObjValAs? Nat "ec")
    (← j.getObjVal? "range" >>= getRange) d params)

def getFileRef (j : Json) : Except String FileRef := do
  pure { own := ← j.getObjValAs? Bool "own", line := ← j.getObjValAs? Nat "line", sc := ← j.getObjValAs? Nat "sc", ec := ← j.getObjValAs? Nat "ec",
         range := ← j.getObjVal? "range" >>= getRange, pathText := ← j.getObjValAs? String "pathText", pathUri := ← j.getObjValAs? String "pathUri" }

def getNode (j : Json) : Except String Node := do
  pure { fileUri := ← j.getObjValAs? String "fileUri", sym := ← j.getObjValAs? String "sym", info := optStr j "info" }

def listOf {α : Type} (j : Json) (k : String) (f : Json → Except String α) : Except String (List α) :=
  match j.getObjVal? k with
  | .ok (Json.arr a) => a.toList.mapM f
  | _ => pure []

def getFrontResult (j : Json) : Except String FrontResult := do
  let k ← j.getObjValAs? String "k"
  match k with
  | "cfg" => pure .cfg
  | "crash" => pure .crash
  | "app" => pure (.app (← j.getObjValAs? Bool "own") (← j.getObjVal? "range" >>= getRange))
  | "ok" => pure (.ok (← listOf j "defs" getNode) (← listOf j "refs" getRef) (← listOf j "imports" getFileRef) (← listOf j "ast" getNode))
  | "errs" =>
    let items ← listOf j "items" (fun it => do
      let a ← it.getArr?
      match a.toList with
      | [o, r] => pure ((← o.getBool?), (← getRange r))
      | _ => throw "item")
    pure (.errs items (← listOf j "defs" getNode) (← listOf j "refs" getRef) (← listOf j "imports" getFileRef) (← listOf j "ast" getNode))
  | _ => throw s!"front kind {k}"

structure Row where
  e : Nat
  u : Uri
  t : Text
  r : FrontResult

def getTable (req : Json) : Except String (List Row) :=
  listOf req "front" (fun j => do
    pure { e := ← j.getObjValAs? Nat "e", u := ← j.getObjValAs? String "u", t := ← j.getObjValAs? Nat "t", r := ← j.getObjVal? "r" >>= getFrontResult })

def frontOf (table : List Row) : Front := fun e u t =>
  match table.find? (fun row => row.e == e && row.u == u && row.t == t) with
  | some row => row.r
  | none => .crash

/-- `urllib.parse.unquote` as a table `[[uri, unquoted], …]` (only the URIs it changes); identity elsewhere -/
def getUnq (req : Json) : Except String (Uri → Uri) := do
  let rows ← listOf req "unq" (fun p => do
    let a ← p.getArr?
    match a.toList with
    | [u, v] => pure ((← u.getStr?), (← v.getStr?))
    | _ => throw "unq row")
  pure fun u => match rows.find? (fun r => r.1 == u) with
    | some r => r.2
    | none => u

def getEv (j : Json) : Except String Ev := do
  let k ← j.getObjValAs? String "ev"
  match k with
  | "open" => pure (.open_ (← j.getObjValAs? String "u") (← j.getObjValAs? Nat "t"))
  | "change" => pure (.change (← j.getObjValAs? String "u") (← j.getObjValAs? Nat "t"))
  | "close" => pure (.close (← j.getObjValAs? String "u"))
  | "save" => pure (.save (← j.getObjValAs? String "u"))
  | "hover" => pure (.hover (← j.getObjValAs? String "u") (← j.getObjValAs? Nat "line") (← j.getObjValAs? Nat "col"))
  | "definition" => pure (.definition (← j.getObjValAs? String "u") (← j.getObjValAs? Nat "line") (← j.getObjValAs? Nat "col"))
  | "symbols" => pure (.symbols (← j.getObjValAs? String "u") (← j.getObjValAs? Bool "hier"))
  | "watched" => pure (.watched (← listOf j "changes" (·.getStr?)))
  | "disk" => pure .disk
  | _ => throw s!"event {k}"

def diagJ (d : Diag) : Json := Json.arr #[d.severity, rangeJ d.range]
def pubsJ (p : List (Uri × List Diag)) : Json := Json.arr (p.map fun (u, ds) => Json.arr #[u, Json.arr (ds.map diagJ).toArray]).toArray

def answerJ : Answer → Json
  | .none => Json.mkObj [("a", "none")]
  | .null => Json.mkObj [("a", "null")]
  | .hover t r => Json.mkObj [("a", "hover"), ("text", t), ("range", rangeJ r)]
  | .location u r => Json.mkObj [("a", "location"), ("uri", u), ("range", rangeJ r)]
  | .symbols l => Json.mkObj [("a", "symbols"), ("l", Json.arr (l.map Json.str).toArray)]

def getAnswer (j : Json) : Except String Answer := do
  let k ← j.getObjValAs? String "a"
  match k with
  | "none" => pure .none
  | "null" => pure .null
  | "hover" => pure (.hover (← j.getObjValAs? String "text") (← j.getObjVal? "range" >>= getRange))
  | "location" => pure (.location (← j.getObjValAs? String "uri") (← j.getObjVal? "range" >>= getRange))
  | "symbols" => pure (.symbols (← listOf j "l" (·.getStr?)))
  | _ => throw s!"answer {k}"

def outJ (o : Out) : Json :=
  Json.mkObj [("pubs", pubsJ o.pubs), ("answer", answerJ o.answer), ("errors", o.errors), ("misuse", o.misuse)]

/-- every (epoch, uri, text) the event list can ask the front end for must be in the table -/
def missingRows (table : List Row) (evs : List Ev) : List String :=
  let epochs := List.range ((evs.filter (fun e => match e with | .disk => true | _ => false)).length + 1)
  let uts := evs.filterMap (fun e => match e with | .open_ u t => some (u, t) | .change u t => some (u, t) | _ => none)
  epochs.flatMap fun e => uts.filterMap fun (u, t) =>
    if table.any (fun row => row.e == e && row.u == u && row.t == t) then none else some s!"{e}/{u}/{t}"

def runOp (req : Json) : Except String Json := do
  let table ← getTable req
  let configUri ← req.getObjValAs? String "configUri"
  let evs ← listOf req "events" getEv
  let unq ← getUnq req
  match missingRows table evs with
  | m :: _ => throw s!"front table lacks {m}"
  | [] =>
    let front := frontOf table
    let (_, outs) := evs.foldl (fun (acc : St × List Out) e => let (s1, o) := step front configUri unq acc.1 e; (s1, acc.2 ++ [o])) (init, [])
    pure (Json.mkObj [("outs", Json.arr (outs.map outJ).toArray)])

def getDiag (j : Json) : Except String Diag := do
  let a ← j.getArr?
  match a.toList with
  | [s, r] => pure { severity := ← s.getNat?, range := ← getRange r }
  | _ => throw "diag"

def getPubs (j : Json) : Except String (List (Uri × List Diag)) :=
  listOf j "pubs" (fun p => do
    let a ← p.getArr?
    match a.toList with
    | [u, ds] => do
      let dl ← ds.getArr?
      pure ((← u.getStr?), (← dl.toList.mapM getDiag))
    | _ => throw "pub")

def specOp (req : Json) : Except String Json := do
  let table ← getTable req
  let evs ← listOf req "events" getEv
  let outs ← listOf req "impl" (fun o => do
    pure ((← getPubs o), (← o.getObjVal? "answer" >>= getAnswer), (← o.getObjValAs? Nat "errors")))
  if evs.length != outs.length then throw "events/impl length" else
  let failed := specCheck (frontOf table) (evs.zip outs) 0 0 (fun _ => none) []
  pure (Json.mkObj [("holds", failed.isEmpty),
    ("failed", Json.arr (failed.map fun (i, c) => Json.arr #[i, c]).toArray)])

def getOut (o : Json) : Except String Out := do
  pure { pubs := ← getPubs o, answer := ← o.getObjVal? "answer" >>= getAnswer, errors := ← o.getObjValAs? Nat "errors",
         misuse := (o.getObjValAs? Bool "misuse").toOption.getD false }

def modelOuts (front : Front) (configUri : Uri) (unq : Uri → Uri) (evs : List Ev) : List Out :=
  (evs.foldl (fun (acc : St × List Out) e => let (s1, o) := step front configUri unq acc.1 e; (s1, acc.2 ++ [o])) (init, [])).2

def firstDiff : List Out → List Out → Nat → Option (Nat × Out × Out)
  | m :: ms, i :: is, k => if m == i then firstDiff ms is (k + 1) else some (k, m, i)
  | _, _, _ => none

/-- `c18.check`: one front table, many event lists with the implementation's observations: per item the first event at which
    model and implementation differ (if any) and the violated specification clauses -/
def checkOp (req : Json) : Except String Json := do
  let table ← getTable req
  let configUri ← req.getObjValAs? String "configUri"
  let unq ← getUnq req
  let front := frontOf table
  let items ← listOf req "items" (fun it => do
    let evs ← listOf it "events" getEv
    let outs ← listOf it "impl" getOut
    if evs.length != outs.length then throw "events/impl length"
    match missingRows table evs with
    | m :: _ => throw s!"front table lacks {m}"
    | [] => pure ()
    let corr := match firstDiff (modelOuts front configUri unq evs) outs 0 with
      | some (k, m, i) => Json.mkObj [("index", k), ("model", outJ m), ("impl", outJ i)]
      | none => Json.null
    let failed := specCheck front (evs.zip (outs.map fun o => (o.pubs, o.answer, o.errors))) 0 0 (fun _ => none) []
    pure (Json.mkObj [("corr", corr), ("spec", Json.arr (failed.map fun (i, c) => Json.arr #[i, c]).toArray)]))
  pure (Json.mkObj [("results", Json.arr items.toArray)])

def handle (op : String) (req : Json) : Except String Json :=
  match op with
  | "c18.check" => checkOp req
  | "c18.run" => runOp req
  | "c18.spec" => specOp req
  | _ => throw s!"unknown op {op}"

end Pydjinni.Drv.C18
