import Lean.Data.Json
import PydjinniModel.Sys.Config
/-! Driver handlers for property C17: `handle op request` answers one JSON request. -/
namespace Pydjinni.Drv.C17
open Lean Pydjinni.Sys

/-- JSON value → model tree: objects are dicts, everything else is a leaf -/
partial def treeOfJson : Json → Tree
  | .obj kvs => .node (kvs.toList.map (fun (k, v) => (k, treeOfJson v)))
  | .str s => .leaf (.str s)
  | .bool b => .leaf (.bool b)
  | .null => .leaf .null
  | .num n => if n.exponent == 0 then .leaf (.int n.mantissa) else .leaf (.other (Json.num n).compress)
  | .arr xs =>
    let strs := xs.toList.filterMap (fun | .str s => some s | _ => none)
    if strs.length == xs.size then .leaf (.strs strs) else .leaf (.other (Json.arr xs).compress)

def kidsOfJson (j : Json) : Except String Kids :=
  match treeOfJson j with
  | .node ks => pure ks
  | _ => throw "expected an object"

def valJ : Val → Json
  | .str s => Json.str s
  | .bool b => Json.bool b
  | .int n => Json.num (JsonNumber.fromInt n)
  | .null => Json.null
  | .strs xs => Json.arr (xs.map Json.str).toArray
  | .other r => match Json.parse r with | .ok j => j | .error _ => Json.str r

mutual
partial def treeJ : Tree → Json
  | .leaf v => valJ v
  | .node ks => kidsJ ks
partial def kidsJ (ks : Kids) : Json := Json.mkObj (ks.map (fun (k, t) => (k, treeJ t)))
end

def outcomeJ {α} (f : α → Json) : Outcome α → Json
  | .ok a => Json.mkObj [("kind", "ok"), ("value", f a)]
  | .app c => Json.mkObj [("kind", "app"), ("code", c)]
  | .crash s => Json.mkObj [("kind", "crash"), ("site", s)]

def suffixOf : String → Suffix
  | "yaml" => .yaml | "yml" => .yml | "json" => .json | "toml" => .toml | _ => .unknown

def fileOf (j : Json) : Except String FileState := do
  let st ← j.getObjValAs? String "state"
  match st with
  | "absent" => pure .absent
  | "missing" => pure .missing
  | "directory" => pure .directory
  | "present" =>
    let sfx := suffixOf (← j.getObjValAs? String "suffix")
    let c ← j.getObjValAs? String "content"
    match c with
    | "syntaxError" => pure (.present sfx .syntaxError)
    | "undecodable" => pure (.present sfx .undecodable)
    | "nonMapping" => pure (.present sfx .nonMapping)
    | "nonStringTopKey" => pure (.present sfx .nonStringTopKey)
    | "mapping" => do
      let d ← j.getObjVal? "doc" >>= kidsOfJson
      pure (.present sfx (.mapping d))
    | _ => throw s!"unknown content {c}"
  | _ => throw s!"unknown file state {st}"

def kindOf : String → Except String DeclKind
  | "enum" => pure .enum | "flags" => pure .flags | "record" => pure .record | "interface" => pure .interface
  | "function" => pure .function | "error" => pure .errorDomain | k => throw s!"unknown declaration kind {k}"

def optKids (req : Json) (name : String) : Except String Kids :=
  match req.getObjVal? name with
  | .ok j => kidsOfJson j
  | .error _ => pure []

/-- environment variables as `[[name, decoded value], …]` -/
def varsOf (req : Json) (name : String) : Except String (List (String × Val)) :=
  match req.getObjVal? name with
  | .ok (.arr a) => pure (a.toList.filterMap (fun
      | .arr #[.str n, v] => (match treeOfJson v with | .leaf x => some (n, x) | .node _ => none)
      | _ => none))
  | _ => pure []

def handle (op : String) (req : Json) : Except String Json :=
  match op with
  | "c17.merge" => do
    let o ← req.getObjVal? "o" >>= kidsOfJson
    let b ← req.getObjVal? "b" >>= kidsOfJson
    pure (Json.mkObj [("m", kidsJ (combine o b))])
  | "c17.options" => do
    let opts ← req.getObjValAs? (List String) "opts"
    match foldOptions opts [] with
    | .ok m => pure (Json.mkObj [("kind", "ok"), ("value", kidsJ m)])
    | .error _ => pure (Json.mkObj [("kind", "app"), ("code", (141 : Nat))])
  | "c17.env" => do
    let vs ← varsOf req "vars"
    pure (Json.mkObj [("tree", kidsJ (envTree vs))])
  | "c17.configure" => do
    -- the outcome up to validation (validate := accept): `value` is the tree handed to pydantic together with what the
    -- environment adds, `explicit` the merge of the options into the file alone. Options are either a dict or a list of
    -- `-o` texts; environment / .env are lists of [name, value].
    let file ← req.getObjVal? "file" >>= fileOf
    let options : Except OptErr Kids ← (match req.getObjVal? "cli_opts" with
      | .ok j => do
        let l ← (fromJson? j : Except String (List String))
        pure (foldOptions l [])
      | .error _ => do
        let k ← optKids req "options"
        pure (.ok k))
    let env := envTree (← varsOf req "env")
    let dotenv := envTree (← varsOf req "dotenv")
    match options with
    | .error _ => pure (Json.mkObj [("kind", "app"), ("code", (141 : Nat)), ("stage", "options")])
    | .ok opts =>
      let eff := configure (fun _ => true) env dotenv file opts
      let expl := configure (fun _ => true) [] [] file opts
      let j := outcomeJ kidsJ eff
      -- `unencodable`: the keys `require_encodable_text` can name in the merge of the options into the file (dotted; null: the call
      -- ends before the check)
      let bad : Json := match explicitOf file opts with
        | some ex => Json.arr ((badKeysKids [] ex).map (fun p => Json.str (".".intercalate p))).toArray
        | none => Json.null
      pure (j.mergeObj (Json.mkObj [("explicit", match expl with | .ok t => kidsJ t | _ => Json.null), ("dom", cfgDom file), ("unencodable", bad)]))
  | "c17.ready" => do
    let gs : GenSet ← (match req.getObjVal? "set" with
      | .ok .null => pure none
      | .ok j => do let l ← (fromJson? j : Except String (List String)); pure (some l)
      | .error _ => pure none)
    let kinds ← (← req.getObjValAs? (List String) "kinds").mapM kindOf
    let targets ← req.getObjValAs? (List String) "targets"
    match parseReady gs with
    | .ok cts =>
      pure (Json.mkObj [("parse", Json.mkObj [("kind", "ok"), ("configured", Json.arr (cts.map (fun t => Json.str t.key)).toArray)]),
        ("generate", Json.arr (targets.map (fun t => outcomeJ (fun _ => Json.null) (generateOutcome cts kinds t))).toArray),
        ("dom", Json.arr (targets.map (fun t => Json.bool (readyDom cts kinds t))).toArray)])
    | o => pure (Json.mkObj [("parse", outcomeJ (fun _ => Json.null) o)])
  | "c17.history" => do
    -- one API object: `contexts` = the section sets of its contexts (null: no `generate` section), `steps` = requests
    -- ["configure", c] | ["parse", c] | ["generate", c, target]; one answer per step
    let ctxsJ ← req.getObjValAs? (Array Json) "contexts"
    let ctxs : List GenSet ← ctxsJ.toList.mapM (fun j => match j with
      | .null => pure none
      | j => do let l ← (fromJson? j : Except String (List String)); pure (some l))
    let kinds ← (← req.getObjValAs? (List String) "kinds").mapM kindOf
    let stepsJ ← req.getObjValAs? (Array Json) "steps"
    let reqs : List Req ← stepsJ.toList.mapM (fun j => match j with
      | .arr #[.str "configure", c] => do pure (Req.configure (← fromJson? c))
      | .arr #[.str "parse", c] => do pure (Req.parse (← fromJson? c))
      | .arr #[.str "generate", c, .str t] => do pure (Req.generate (← fromJson? c) t)
      | _ => throw "unknown step")
    let answers := runReqs ctxs kinds reqs {}
    pure (Json.mkObj [("answers", Json.arr (answers.map (fun a => Json.mkObj [
      ("outcome", match a.outcome with | some o => outcomeJ (fun _ => Json.null) o | none => Json.null),
      ("named", match a.named with | some k => Json.str k | none => Json.null),
      ("used", Json.arr (a.used.eraseDups.map (fun n => Json.num (JsonNumber.fromNat n))).toArray)])).toArray)])
  | "c17.spec" => do
    -- specification on the implementation's observation: merged tree handed to validation
    let o ← req.getObjVal? "o" >>= kidsOfJson
    let b ← req.getObjVal? "b" >>= kidsOfJson
    let m ← req.getObjVal? "m" >>= kidsOfJson
    pure (Json.mkObj [("holds", mergeSpec o b m), ("wf", wf (.node m))])
  | "c17.spec.option" => do
    -- one more `-o` on top of what the earlier ones gave: the named key holds the value, everything unrelated is kept
    let prev ← req.getObjVal? "prev" >>= kidsOfJson
    let opt ← req.getObjValAs? String "opt"
    match parseOption opt with
    | .error _ => pure (Json.mkObj [("parsed", false)])
    | .ok (p, v) =>
      let m ← req.getObjVal? "m" >>= kidsOfJson
      pure (Json.mkObj [("parsed", true), ("holds", mergeSpec (nestKids p v) prev m), ("path", Json.arr (p.map Json.str).toArray)])
  | _ => throw s!"unknown op {op}"

end Pydjinni.Drv.C17
