import Lean.Data.Json
import PydjinniModel.Lang.CLex
import PydjinniModel.Gen.Comment
/-! Driver handlers for property C12: `handle op request` answers one JSON request. -/
namespace Pydjinni.Drv.C12
open Lean Pydjinni.Lang.CLex Pydjinni.Gen.Comment

def tokJ : Tok → Json
  | .ch c => Json.str ("c" ++ String.singleton c)
  | .comment => Json.str "comment"
  | .str b => Json.str (if b then "str!" else "str")
  | .chr b => Json.str (if b then "chr!" else "chr")
  | .err => Json.str "err"

def toksJ (l : List Tok) : Json := Json.arr (l.map tokJ).toArray
def strJ (l : List Char) : Json := Json.str (String.ofList l)

def getStyle (req : Json) : Except String Style := do
  match ← req.getObjValAs? String "style" with
  | "block" => pure blockStyle
  | "line" => pure lineStyle
  | s => throw s!"unknown style {s}"

def getChars (req : Json) (k : String) : Except String (List Char) := do
  pure (← req.getObjValAs? String k).toList

def getDep (req : Json) : Except String Dep := do
  match ← req.getObjVal? "dep" with
  | .bool false => pure .no
  | .bool true => pure .yes
  | .str m => pure (.msg m.toList)
  | _ => throw "dep: expected bool or string"

def lexLang (lang : String) (cs : List Char) : Except String (Option (List Tok)) :=
  match lang with
  | "c" => pure (some (lexC cs))
  | "java" => pure (lexJava cs)
  | l => throw s!"unknown lang {l}"

def isWsTok : Tok → Bool
  | .ch c => c == ' ' || c == '\n' || c == '\t'
  | _ => false

/-- does `mid` consist of comment tokens and white space only, with at least one comment? -/
def onlyComments (mid : List Tok) : Bool := mid.all (fun t => t == .comment || isWsTok t) && mid.contains .comment

/-- specification of a comment on the implementation's output `out`: between the probe texts `pre` and `suf`
    it lexes to comments (and white space) only, and the probes lex as they do on their own -/
def specComment (lang : String) (pre out suf : List Char) : Except String Json := do
  let whole ← lexLang lang (pre ++ out ++ suf)
  let lp ← lexLang lang pre
  let ls ← lexLang lang suf
  match whole, lp, ls with
  | some w, some lp, some ls =>
    let ok := lp.isPrefixOf w && ls.isSuffixOf w && lp.length + ls.length ≤ w.length &&
      onlyComments ((w.drop lp.length).take (w.length - lp.length - ls.length))
    pure (Json.mkObj [("holds", ok), ("tokens", toksJ (w.take 400))])
  | none, _, _ => pure (Json.mkObj [("holds", false), ("tokens", Json.arr #["illegal-unicode-escape"])])
  | _, _, _ => throw "probe text does not lex"

def depHeadTail (target : String) : Except String (List Char × List Char × List Char) :=
  match target with
  | "cpp" => pure (cppDepHead, cppDepTail, [])
  | "objc" => pure (objcDepHead, [], objcDepBare)
  | "cppcli" => pure (cliDepHead, [']'], [])
  | t => throw s!"unknown target {t}"

/-- specification of a deprecation attribute on the implementation's output: the fixed head, then `(`, exactly one
    well-formed string token, `)`, the fixed tail; and the literal decodes to the message -/
def specDeprecated (target : String) (d : Dep) (out pre post : List Char) : Except String Json := do
  let (head, tail, bare) ← depHeadTail target
  let toks := lexC out
  let expect : List Tok :=
    match d with
    | .msg _ => lexC (pre ++ head ++ ['(']) ++ [.str false] ++ lexC (')' :: (tail ++ post))
    | .yes => lexC (pre ++ (if bare = [] then head ++ tail else bare) ++ post)
    | .no => if target == "cppcli" then lexC (pre ++ head ++ tail ++ post) else []
  let shape := match d, target with
    | .msg m, "cpp" => if m.isEmpty then toks == [] else toks == expect
    | _, _ => toks == expect
  -- decoding: strip pre ++ head ++ `("` and `")` ++ tail ++ post
  let decoded : Bool := match d with
    | .msg m =>
      if target == "cpp" && m.isEmpty then true else
      let hl := (pre ++ head).length + 2
      let tl := (tail ++ post).length + 2
      let body := (out.drop hl).take (out.length - hl - tl)
      unescape body == some m
    | _ => true
  -- the attribute lists pass through Jinja's `indent`: the attribute has to be a single line for it
  let oneLine := jinjaIndent 4 out == out
  pure (Json.mkObj [("holds", shape && decoded && oneLine), ("shape", shape), ("decoded", decoded), ("one_line", oneLine),
    ("tokens", toksJ (toks.take 200))])

def handle (op : String) (req : Json) : Except String Json :=
  match op with
  | "c12.filter" => do
    let st ← getStyle req
    let text ← getChars req "text"
    let ind := (req.getObjValAs? Nat "indent").toOption
    let out := match ind with
      | some w => commentBlock st w (cfLines text)
      | none => commentFilter st text
    pure (Json.mkObj [("out", strJ out), ("disk", strJ (written out)), ("lines", Json.arr ((cfLines text).map strJ).toArray)])
  | "c12.indent" => do
    let w ← req.getObjValAs? Nat "w"
    pure (Json.mkObj [("out", strJ (jinjaIndent w (← getChars req "text")))])
  | "c12.splitlines" => do
    pure (Json.mkObj [("out", Json.arr ((splitLines (← getChars req "text")).map strJ).toArray)])
  | "c12.deprecated" => do
    let d ← getDep req
    let out ← match ← req.getObjValAs? String "target" with
      | "cpp" => pure (deprecatedCpp d (← getChars req "pre") (← getChars req "post"))
      | "objc" => pure (deprecatedObjc d)
      | "cppcli" => pure (deprecatedCppCli d)
      | t => throw s!"unknown target {t}"
    pure (Json.mkObj [("out", strJ out), ("disk", strJ (written out))])
  | "c12.lex" => do
    match ← lexLang (← req.getObjValAs? String "lang") (← getChars req "text") with
    | some t => pure (Json.mkObj [("tokens", toksJ t)])
    | none => pure (Json.mkObj [("tokens", Json.null)])
  | "c12.spec.comment" => do
    specComment (← req.getObjValAs? String "lang") (← getChars req "pre") (← getChars req "out") (← getChars req "suf")
  | "c12.spec.deprecated" => do
    let pre := ((req.getObjValAs? String "pre").toOption.getD "").toList
    let post := ((req.getObjValAs? String "post").toOption.getD "").toList
    specDeprecated (← req.getObjValAs? String "target") (← getDep req) (← getChars req "out") pre post
  | _ => throw s!"unknown op {op}"

end Pydjinni.Drv.C12
