import PydjinniModel.Front.Lexer
/-!
Syntactic AST of the IDL, as produced by the parser model (positions as `Parser._position`).
Import-free; JSON instances are derived in the driver modules.
-/
namespace Pydjinni.Front

structure Pos where
  sl : Nat
  sc : Nat
  el : Nat
  ec : Nat
deriving DecidableEq, Repr, Inhabited, BEq

/-- position of the tokens consumed between `ts` and its suffix `rest` (as Parser._position) -/
def spanPos (ts rest : List Token) : Pos :=
  let n := ts.length - rest.length
  match ts.head?, (ts.take n).getLast? with
  | some a, some b => if n == 0 then default else { sl := a.line, sc := a.col, el := b.line, ec := b.col + b.len }
  | _, _ => default

mutual
inductive TypeRef
  | data (name : String) (args : List TypeRef) (optional : Bool) (pos : Pos)
  | fn (sig : FnSig) (pos : Pos)
inductive FnSig
  | mk (flags : Option (List String)) (flagsPos : Pos) (params : List Param) (throwing : Option (List TypeRef)) (ret : Option TypeRef)
inductive Param
  | mk (name : String) (ty : TypeRef) (pos : Pos)
end
deriving instance Repr for TypeRef
deriving instance BEq for TypeRef
deriving instance Inhabited for TypeRef

structure Item where
  name : String
  comment : List String
  pos : Pos
deriving Repr
structure FlagItem where
  name : String
  modifier : Option String
  modifierPos : Pos
  comment : List String
  pos : Pos
deriving Repr
structure Field where
  name : String
  ty : TypeRef
  comment : List String
  pos : Pos
structure Method where
  name : String
  isStatic : Bool
  isConst : Bool
  isAsync : Bool
  params : List Param
  throwing : Option (List TypeRef)
  ret : Option TypeRef
  comment : List String
  pos : Pos
structure Prop' where
  name : String
  ty : TypeRef
  comment : List String
  pos : Pos
structure ErrCode where
  name : String
  params : List Param
  comment : List String
  pos : Pos

inductive Decl
  | enum (name : String) (comment : List String) (items : List Item) (pos : Pos)
  | flags (name : String) (comment : List String) (items : List FlagItem) (pos : Pos)
  | record (name : String) (comment : List String) (flags : List String) (flagsPos : Pos) (fields : List Field) (deriving' : Option (List (String × Pos))) (pos : Pos)
  | interface (name : String) (comment : List String) (main : Bool) (flags : List String) (flagsPos : Pos) (methods : List Method) (props : List Prop') (pos : Pos)
  | function (name : String) (comment : List String) (sig : FnSig) (pos : Pos)
  | error (name : String) (comment : List String) (codes : List ErrCode) (pos : Pos)

inductive Content
  | decl (d : Decl)
  | ns (name : String) (comment : List String) (children : List Content) (pos : Pos)

/-- a load directive: `@import "…"` / `@extern "…"`; `lit` is the FILEPATH token text (quoted),
    `pos` spans the directive, `pathPos` the FILEPATH token -/
structure LoadAt where
  isImport : Bool
  lit : String
  pos : Pos
  pathPos : Pos
deriving Repr, Inhabited

structure File where
  loads : List LoadAt
  contents : List Content

end Pydjinni.Front
