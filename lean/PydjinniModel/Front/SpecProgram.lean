import PydjinniModel.Front.Order
/-!
Declarative specification of what the front end reports for a WHOLE program — import-related diagnostics included
(C16: missing files, circular imports, each file once; C04/C05: the rule violations of every file, read against the
registry of that moment; `@extern` lines). Independent of `parseOne`/`doLoads`/`finishFile` of `Imports.lean`: no
`Except`, no parser state, no resolution map, no registration that can fail. Import-free.

Two layers:

* the **import tree** (`visitOrder`, `rootVisits`): a plain depth-first search over the load lines, with the explicit
  chain of importers (`stack`) and the set of files already entered (`visited`). It produces the list of *visits* in
  the order they are completed: an IDL file (with the spelling it was found under, its chain of importers, and its
  parsed load lines and contents), an external type file loaded by an `@extern` line, an imported file that is not
  UTF-8, an imported file that is not IDL text inside the grammar (`broken` — outside the specification);
* the **diagnostics** (`programDiags`): for every visit, in that order, what the visit contributes — for an IDL file
  the diagnostic of each of its load lines (`lineDiags`: a function of the line, the file's spelling and its chain of
  importers only) followed by its own rule violations (`violations` of `Spec.lean`) read against the registry of that
  moment, i.e. built-ins plus the definitions of all earlier visits (`visitDefs`).
-/
namespace Pydjinni.Front

/-- one completed step of the import tree -/
inductive Visit
  /-- an IDL file inside the grammar is finished: `spelled` = the spelling it was found under, `ancestors` = the
      chain of files importing it (outermost first, the file itself not included) -/
  | file (file spelled : APath) (ancestors : List APath) (loads : List LoadAt) (contents : List Content)
  /-- an `@extern` line loads a valid external type file -/
  | extern (p : APath) (defs : List ExtDef)
  /-- an `@import` line (or the root) enters a file that is not valid UTF-8 -/
  | undecodable (p : APath) (pos : Pos)
  /-- an `@import` line (or the root) enters something that is not IDL text inside the grammar (or the search is
      cut off there) -/
  | broken (p : APath)
deriving Inhabited

abbrev VisitAcc := List APath × List Visit

/-- the candidate found is, literally, the spelling of the file that holds the line (`search_path == self.idl`) -/
def refersToSelf (c : Cand) (spelled : APath) : Bool := c.spelledAbsolute && c.path == spelled

/-- one load line of a file spelled `spelled`; `stack` = the chain of importers *and* the file itself; `rec` enters
    an imported file. A line that finds nothing, refers to the file itself, or imports a file already entered (this
    includes every file of `stack`) loads nothing. -/
def visitStep (cfg : Cfg) (fs : FS) (rec : List APath → APath → APath → VisitAcc → VisitAcc) (stack : List APath)
    (spelled : APath) (acc : VisitAcc) (l : LoadAt) : VisitAcc :=
  match findFile cfg fs spelled (filepathText l.lit) with
  | none => acc
  | some (c, p) =>
    if refersToSelf c spelled then acc
    else if l.isImport then (if acc.1.contains p then acc else rec stack p c.path (acc.1 ++ [p], acc.2))
    else
      match fs.get p with
      | some (.ext defs) => (acc.1, acc.2 ++ [.extern p defs])
      | _ => acc

/-- the import tree below `file`, depth first, load lines in textual order: `(visited, visits)`. The recursion is
    bounded by `fuel`; where it is cut off the file counts as `broken` (this never happens with the fuel of
    `rootVisits`: every nested call enters a file of the finite file system that was not entered before). -/
def visitOrder (cfg : Cfg) (fs : FS) : Nat → List APath → APath → APath → VisitAcc → VisitAcc
  | 0, _, file, _, acc => (acc.1, acc.2 ++ [.broken file])
  | fuel + 1, stack, file, spelled, acc =>
    match fs.get file with
    | some (.idl text) =>
      match parseText text with
      | none => (acc.1, acc.2 ++ [.broken file])
      | some f =>
        let acc' := f.loads.foldl (visitStep cfg fs (visitOrder cfg fs fuel) (stack ++ [file]) spelled) acc
        (acc'.1, acc'.2 ++ [.file file spelled stack f.loads f.contents])
    | some (.notText pos) => (acc.1, acc.2 ++ [.undecodable file pos])
    | _ => (acc.1, acc.2 ++ [.broken file])

/-- the visits of a run from `root`, in the order they are completed (the fuel of `front`) -/
def rootVisits (cfg : Cfg) (fs : FS) (root : APath) : List Visit :=
  (visitOrder cfg fs (fs.files.length + 2) [] (normPath root) root ([normPath root], [])).2

/-- **C16, line by line.** What one load line `l` of `file` (spelled `spelled`, imported along `ancestors`) is
    reported for:
    * no search candidate exists: file-not-found at the path token;
    * the line refers to the file itself under the file's own spelling (`@import` and `@extern` alike): circular
      import at the path token;
    * an `@import` of a file that is being imported (an ancestor, or the file itself under another spelling):
      circular import at the directive; any other `@import` — of a new file or of one already finished — nothing;
    * an `@extern` of a valid external type file: nothing; of a file that is not UTF-8 or not an external type file:
      the input error, attributed to that file. -/
def lineDiags (cfg : Cfg) (fs : FS) (ancestors : List APath) (file spelled : APath) (l : LoadAt) : List Diag :=
  match findFile cfg fs spelled (filepathText l.lit) with
  | none => [mk "FileNotFoundException" "missing-file" (showPath file) l.pathPos]
  | some (c, p) =>
    if refersToSelf c spelled then [mk "ParsingException" "circular-import" (showPath file) l.pathPos]
    else if l.isImport then
      (if (ancestors ++ [file]).contains p then [mk "ParsingException" "circular-import" (showPath file) l.pos] else [])
    else
      match fs.get p with
      | some (.ext _) => []
      | some (.notText pos) => [mk "InputParsingException" "extern-not-utf8" (showPath p) pos]
      | _ => [mk "InputParsingException" "bad-extern" (showPath p) default]

/-- what a visit adds to the type registry -/
def visitDefs : Visit → List Def
  | .file _ _ _ _ contents => declDefs contents
  | .extern _ defs => extDefs defs
  | _ => []

/-- what a visit is reported for, `R` being the registry before it: the load lines in textual order, then the file's
    own rule violations read against `R` plus the file's own declarations -/
def visitDiags (cfg : Cfg) (fs : FS) (R : Registry) : Visit → List Diag
  | .file file spelled ancestors loads contents =>
    loads.flatMap (lineDiags cfg fs ancestors file spelled)
      ++ violations cfg.keys cfg.defaultDeriving R [{ file := showPath file, contents := contents }]
  | .extern _ _ => []
  | .undecodable p pos => [mk "ParsingException" "not-utf8" (showPath p) pos]
  | .broken _ => []

/-- the diagnostics of a list of visits, each read against the registry of its moment -/
def diagsFrom (cfg : Cfg) (fs : FS) : Registry → List Visit → List Diag
  | _, [] => []
  | R, v :: vs => visitDiags cfg fs R v ++ diagsFrom cfg fs (R ++ visitDefs v) vs

/-- **the whole-program specification**: everything the front end is to report for the program rooted at `root` -/
def programDiags (cfg : Cfg) (fs : FS) (builtins : Registry) (root : APath) : List Diag :=
  diagsFrom cfg fs builtins (rootVisits cfg fs root)

/-- the qualified names registered in a run, in registration order: built-ins, then visit by visit -/
def programKeys (builtins : Registry) (visits : List Visit) : List String :=
  (builtins ++ visits.flatMap visitDefs).map (·.key)

/-- the registrations of a visit, in order: qualified name, file, position of the declaration -/
def visitSites : Visit → List (String × String × Pos)
  | .file f _ _ _ contents => (declsOfContents [] contents).map (fun x => (declKey x.1 x.2, showPath f, declPos x.2))
  | .extern p defs => defs.map (fun d => (d.key, showPath p, d.pos))
  | _ => []

/-- the first registration, in order, whose name is already taken (by `taken` or by an earlier registration of the
    list): where it is (file, position) -/
def firstCollision : List String → List (String × String × Pos) → Option (String × Pos)
  | _, [] => none
  | taken, x :: rest => if x.1 ∈ taken then some x.2 else firstCollision (taken ++ [x.1]) rest

/-- **C04, duplicates**: the place of the first registration of a run — visit by visit, an IDL file's declarations in
    textual order when the file is finished, an external type file's definitions at the `@extern` line — whose
    qualified name is already taken by a built-in or an earlier registration: the second declaration of that name -/
def programCollision (builtins : Registry) (visits : List Visit) : Option (String × Pos) :=
  firstCollision (builtins.map (·.key)) (visits.flatMap visitSites)

def Visit.file? : Visit → Option APath
  | .file f _ _ _ _ => some f
  | _ => none

def Visit.isBroken : Visit → Bool
  | .broken _ => true
  | _ => false

end Pydjinni.Front
