/-!
Model of the lexer generated from `Idl.g4`: maximal munch, first rule wins on ties.
Import-free. `lex` returns `none` on any token-recognition error (ANTLR would report it and
recover; recovery is not modelled).
-/
namespace Pydjinni.Front

inductive Tk
  | kw (s : String)          -- the 29 literal tokens, identified by their text
  | filepath (s : String)
  | target (s : String)
  | comment (s : String)
  | id (s : String)
  | nsid (s : String)
deriving DecidableEq, Repr, Inhabited

structure Token where
  tk : Tk
  line : Nat
  col : Nat
  len : Nat      -- length in characters of the token text (for end positions)
  endLine : Nat  -- FILEPATH may span lines
  endCol : Nat
deriving DecidableEq, Repr, Inhabited

def literals : List String :=
  ["@import", "@extern", "namespace", "enum", "flags", "static", "const", "main", "interface",
   "record", "deriving", "function", "property", "async", "error", "throws", "->", "?", "=", ":",
   "(", ")", "{", "}", ">", "<", ";", ",", "."]

def isLetter (c : Char) : Bool := (c ≥ 'a' && c ≤ 'z') || (c ≥ 'A' && c ≤ 'Z')
def isLetterOrDigit (c : Char) : Bool := isLetter c || (c ≥ '0' && c ≤ '9') || c == '_'
def isLower (c : Char) : Bool := c ≥ 'a' && c ≤ 'z'
def isWs (c : Char) : Bool := c == ' ' || c == '\t' || c == '\r' || c == '\n'

/-- longest prefix satisfying p -/
def spanLen (p : Char → Bool) : List Char → Nat
  | [] => 0
  | c :: cs => if p c then spanLen p cs + 1 else 0

/-- length of an ID at the head (0 if none) -/
def idLen : List Char → Nat
  | c :: cs => if isLetter c then 1 + spanLen isLetterOrDigit cs else 0
  | [] => 0

/-- length of the longest NS_ID = ('.'? ID)+ at the head (0 if none); fuel = input length -/
def nsidLen : Nat → List Char → Nat
  | 0, _ => 0
  | fuel+1, cs =>
    let (dot, rest) := match cs with
      | '.' :: r => (1, r)
      | _ => (0, cs)
    let n := idLen rest
    if n == 0 then 0
    else
      let more := nsidLen fuel (rest.drop n)
      dot + n + more

def startsWith (s : List Char) : List Char → Bool
  | cs => s.isPrefixOf cs

inductive LexOut
  | tok (t : Tk) (n : Nat)     -- token and number of chars consumed
  | skip (n : Nat)
  | err
deriving Repr

/-- one lexer step at the head of the input -/
def lexOne (cs : List Char) : LexOut :=
  match cs with
  | [] => .err
  | c :: rest =>
    if isWs c then .skip (spanLen isWs cs)
    else if c == '#' then
      let n := spanLen (fun x => x != '\r' && x != '\n') rest
      .tok (.comment (String.ofList (cs.take (n+1)))) (n+1)
    else if c == '"' then
      -- '"' .*? '"'  non-greedy: up to the next '"'
      let n := spanLen (fun x => x != '"') rest
      if n < rest.length then .tok (.filepath (String.ofList (cs.take (n+2)))) (n+2) else .err
    else if c == '+' || c == '-' then
      let n := spanLen isLower rest
      if n > 0 then .tok (.target (String.ofList (cs.take (n+1)))) (n+1)
      else if c == '-' && rest.head? == some '>' then .tok (.kw "->") 2
      else .err
    else if c == '@' then
      if startsWith "@import".toList cs then .tok (.kw "@import") 7
      else if startsWith "@extern".toList cs then .tok (.kw "@extern") 7
      else .err
    else if isLetter c || c == '.' then
      let i := idLen cs
      let n := nsidLen cs.length cs
      if n > i then .tok (.nsid (String.ofList (cs.take n))) n
      else if i > 0 then
        let s := String.ofList (cs.take i)
        if literals.contains s then .tok (.kw s) i else .tok (.id s) i
      else .tok (.kw ".") 1      -- a lone '.'
    else
      let s := String.singleton c
      if literals.contains s then .tok (.kw s) 1 else .err

/-- advance (line, col) over consumed characters -/
def advance (line col : Nat) : List Char → Nat × Nat
  | [] => (line, col)
  | c :: cs => if c == '\n' then advance (line+1) 0 cs else advance line (col+1) cs

/-- whole-input lexer; `none` = some token recognition error -/
def lexAux : Nat → List Char → Nat → Nat → List Token → Option (List Token)
  | 0, _, _, _, _ => none
  | fuel+1, cs, line, col, acc =>
    if cs.isEmpty then some acc.reverse
    else match lexOne cs with
      | .err => none
      | .skip n =>
        let (l, c) := advance line col (cs.take n)
        lexAux fuel (cs.drop n) l c acc
      | .tok t n =>
        let (l, c) := advance line col (cs.take n)
        lexAux fuel (cs.drop n) l c ({ tk := t, line := line, col := col, len := n, endLine := l, endCol := c } :: acc)

def lex (s : String) : Option (List Token) := lexAux (s.length + 1) s.toList 1 0 []

end Pydjinni.Front
