import PydjinniModel.Front.Ast
import PydjinniModel.Front.Targets
/-! Name of an anonymous function type (`Parser.visitFunction`). Import-free. -/
namespace Pydjinni.Front

mutual
/-- `signature(type_ref, depth)`: `('_' * depth).join([name] + [signature(p, depth+1) …])` -/
def sigName (depth : Nat) : TypeRef → String
  | .data name args _ _ => (String.ofList (List.replicate depth '_')).intercalate (name :: sigNames (depth + 1) args)
  | .fn _ _ => "<function>"
def sigNames (depth : Nat) : List TypeRef → List String
  | [] => []
  | t :: ts => sigName depth t :: sigNames depth ts
end

def refName : TypeRef → String
  | .data name _ _ _ => name
  | .fn _ _ => "<function>"

def fnTargets (keys : List String) (flags : Option (List String)) : List String :=
  match flags with
  | some f => targetsOrAll keys f
  | none => keys

def anonName (keys : List String) : FnSig → String
  | .mk flags _ params thr ret =>
    "_".intercalate (["function"] ++ fnTargets keys flags
      ++ params.map (fun | .mk _ t _ => sigName 2 t)
      ++ [match ret with | some r => sigName 2 r | none => "void"]
      ++ (match thr with | some l => "throws" :: l.map refName | none => []))

end Pydjinni.Front
