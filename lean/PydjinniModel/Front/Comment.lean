import PydjinniModel.Front.Ast
/-!
Comment handling of the front end: `visitComment` (strip the `#`, strip white space, join with
newlines) and the two Markdown commands the parser acts on (`@deprecated`, `@param`), for comment
lines in the shape the correspondence generator emits (one command per line, plain text).
Markdown rendering itself (mistune) is outside the model.
-/
namespace Pydjinni.Front

/-- Python `str.isspace()` (what `str.strip()` removes): ASCII white space, the information separators, NEL, NBSP and
    the Unicode space / line / paragraph separators -/
def isPyWs (c : Char) : Bool :=
  c == ' ' || c == '\t' || c == '\n' || c == '\r' || c == '\x0b' || c == '\x0c'
  || (0x1c ≤ c.toNat && c.toNat ≤ 0x1f) || c.toNat == 0x85 || c.toNat == 0xa0 || c.toNat == 0x1680
  || (0x2000 ≤ c.toNat && c.toNat ≤ 0x200a) || c.toNat == 0x2028 || c.toNat == 0x2029 || c.toNat == 0x202f
  || c.toNat == 0x205f || c.toNat == 0x3000

def stripL : List Char → List Char
  | [] => []
  | c :: cs => if isPyWs c then stripL cs else c :: cs

/-- Python `str.strip()` for ASCII white space -/
def strip (s : String) : String := String.ofList (stripL (stripL s.toList).reverse).reverse

/-- `visitComment`: `None` without comment lines -/
def commentText (lines : List String) : Option String :=
  if lines.isEmpty then none else some ("\n".intercalate (lines.map (fun l => strip (l.drop 1).toString)))

inductive Dep | no | yes | msg (m : String)
deriving Repr, DecidableEq, Inhabited

/-- does `line` start with `@cmd` / `\cmd` followed by end of line or blank? returns the rest -/
def command? (cmd : String) (line : String) : Option String :=
  let l := line.toList
  match l with
  | c :: rest =>
    if (c == '@' || c == '\\') && cmd.toList.isPrefixOf rest then
      let after := rest.drop cmd.length
      match after with
      | [] => some ""
      | d :: _ => if d == ' ' || d == '\t' || d == '\x0b' || d == '\x0c' then some (strip (String.ofList after)) else none
    else none
  | [] => none

/-- the `deprecated` attribute after comment processing: the last command wins -/
def deprecatedOf (comment : Option String) : Dep :=
  match comment with
  | none => .no
  | some c =>
    (c.splitOn "\n").foldl (fun acc line =>
      match command? "deprecated" line with
      | some m => if m.isEmpty then .yes else .msg m
      | none => acc) .no

/-- `@param name text` lines of a comment: (name, text) with non-empty text -/
def paramDocs (comment : Option String) : List (String × String) :=
  match comment with
  | none => []
  | some c =>
    (c.splitOn "\n").filterMap fun line =>
      match command? "param" line with
      | some rest =>
        if rest.isEmpty then none else
        let name := String.ofList (rest.toList.takeWhile (fun ch => !isPyWs ch))
        let text := (rest.drop (name.length + 1)).toString
        if text.isEmpty then none else some (name, text)
      | none => none

/-- comment attached to parameter `name` of a method / error code: the first matching parameter
    receives each `@param`; later `@param`s for the same name overwrite -/
def paramComment (docs : List (String × String)) (names : List String) (idx : Nat) : Option String :=
  match names[idx]? with
  | none => none
  | some n =>
    -- only the first parameter called `n` is ever documented
    if names.idxOf n != idx then none
    else (docs.filter (fun d => d.1 == n)).getLast?.map (·.2)

end Pydjinni.Front
