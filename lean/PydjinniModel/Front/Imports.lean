import PydjinniModel.Front.Sem
/-!
Multi-file front end: path search for `@import`/`@extern`, the nested-parser recursion with the
in-progress stack and the imported set (fixed algorithm), external type files, and the composition
of one `Parser.parse()` call: loads, own content, registration, deferred resolution, post-checks.
Import-free.

The file system is a finite map from *normalised absolute* paths (component lists) to contents;
directories are the proper prefixes of file paths. No symbolic links.
-/
namespace Pydjinni.Front

abbrev APath := List String

/-- `Path(s)`: (is absolute, components without "" and ".") -/
def parsePath (s : String) : Bool × List String :=
  (s.startsWith "/", (s.splitOn "/").filter (fun c => c != "" && c != "."))

/-- Python `base / p` (an absolute right operand wins) -/
def joinPath (base : APath) (p : Bool × List String) : APath := if p.1 then p.2 else base ++ p.2

def showPath (p : APath) : String := "/" ++ "/".intercalate p

/-- `os.path.abspath` on an absolute component list: lexical removal of `..` -/
def normPath : APath → APath := fun p =>
  (p.foldl (fun (acc : List String) c => if c == ".." then acc.dropLast else acc ++ [c]) [])

/-- an external type as far as the front end is concerned -/
structure ExtDef where
  key : String
  prim : Prim
  arity : Nat
  pos : Pos
deriving Repr, Inhabited

inductive FileContent
  | idl (text : String)
  | ext (defs : List ExtDef)      -- a YAML file that validates against the external-type model
  | badExt                        -- a YAML file that does not (InputParsingException)
  | notText (pos : Pos)           -- bytes that are not valid UTF-8; `pos` = the first undecodable byte
deriving Repr, Inhabited

structure FS where
  files : List (APath × FileContent)
deriving Repr, Inhabited

def FS.get (fs : FS) (p : APath) : Option FileContent := (fs.files.find? (fun f => f.1 == p)).map (·.2)
def FS.isFile (fs : FS) (p : APath) : Bool := (fs.get p).isSome
def FS.isDir (fs : FS) (p : APath) : Bool := fs.files.any (fun f => p.length < f.1.length && p.isPrefixOf f.1)

/-- OS path walk: every intermediate component must be an existing directory; `..` goes up -/
def FS.walk (fs : FS) : APath → List String → Option APath
  | cur, [] => some cur
  | cur, c :: rest =>
    if c == ".." then (if fs.isDir cur then fs.walk cur.dropLast rest else none)
    else if rest.isEmpty then (if fs.isFile (cur ++ [c]) || fs.isDir (cur ++ [c]) then some (cur ++ [c]) else none)
    else if fs.isDir (cur ++ [c]) then fs.walk (cur ++ [c]) rest else none

/-- `search_path.exists() and not search_path.is_dir()`; yields the normalised path -/
def FS.regularFile (fs : FS) (p : APath) : Option APath :=
  match fs.walk [] p with
  | some q => if fs.isFile q then some q else none
  | none => none

structure Cfg where
  cwd : APath
  includeDirs : List (Bool × List String)   -- as configured (relative ones are relative to cwd)
  keys : List String
  defaultDeriving : List String
deriving Repr, Inhabited

/-- a search candidate: the path as the OS sees it (absolute, un-normalised) and whether the
    `Path` object the implementation builds for it is itself absolute (a relative `Path` never
    compares equal to the importing file's path) -/
structure Cand where
  spelledAbsolute : Bool
  path : APath
deriving Repr, Inhabited

/-- the candidate list of `visitFilepath`, in search order: the literal path (relative to the
    working directory), the directory of the importing file, the configured include directories -/
def candidates (cfg : Cfg) (importerSpelled : APath) (lit : String) : List Cand :=
  let p := parsePath lit
  [{ spelledAbsolute := p.1, path := joinPath cfg.cwd p },
   { spelledAbsolute := true, path := joinPath importerSpelled.dropLast p }]
  ++ cfg.includeDirs.map (fun d => { spelledAbsolute := d.1 || p.1, path := joinPath (joinPath cfg.cwd d) p })

/-- first candidate that is an existing regular file: (candidate, normalised path) -/
def findFile (cfg : Cfg) (fs : FS) (importerSpelled : APath) (lit : String) : Option (Cand × APath) :=
  (candidates cfg importerSpelled lit).findSome? (fun c => (fs.regularFile c.path).map (fun q => (c, q)))

structure PState where
  reg : Registry
  resolved : Resolved := []
  imported : List APath := []
deriving Repr, Inhabited

/-- what one `Parser.parse()` hands to its caller (by return value or inside the exception list) -/
structure PResult where
  units : List UnitAt := []
  refs : List RefSite := []
  errors : List Diag := []
deriving Repr, Inhabited

inductive Abort
  | raised (cls : String) (file : String) (pos : Pos)   -- a bare ApplicationException escapes `parse`
  | fileNotFound (file : String)
  | syntax (file : String)        -- text outside the grammar: the model only predicts "diagnostics"
  | crash (site : String)         -- internal error (Python exception that is not a diagnostic)
  | outOfFuel
deriving Repr, Inhabited, DecidableEq

def filepathText (tok : String) : String := ((tok.drop 1).dropEnd 1).toString

def extRegs (file : String) : List ExtDef → List RegSite
  | [] => []
  | d :: ds => { key := d.key, prim := d.prim, arity := d.arity, file := file, pos := d.pos } :: extRegs file ds

abbrev ParseFn := List APath → APath → APath → PState → Except Abort (PResult × PState)

/-- the `load*` prefix of a file, in order; `rec` is the nested `Parser(...).parse()` -/
def doLoads (cfg : Cfg) (fs : FS) (rec : ParseFn) (stack : List APath) (file spelled : APath) :
    List LoadAt → PResult → PState → Except Abort (PResult × PState)
  | [], res, st => .ok (res, st)
  | l :: ls, res, st =>
    match findFile cfg fs spelled (filepathText l.lit) with
    | none =>
      doLoads cfg fs rec stack file spelled ls
        { res with errors := res.errors ++ [{ cls := "FileNotFoundException", rule := "missing-file", file := showPath file, pos := l.pathPos }] } st
    | some (c, p) =>
      if c.spelledAbsolute && c.path == spelled then
        -- `search_path == self.idl`: direct self reference, reported at the path token (imports and externs alike)
        doLoads cfg fs rec stack file spelled ls
          { res with errors := res.errors ++ [{ cls := "ParsingException", rule := "circular-import", file := showPath file, pos := l.pathPos }] } st
      else if l.isImport then
        if stack.contains p then
          doLoads cfg fs rec stack file spelled ls
            { res with errors := res.errors ++ [{ cls := "ParsingException", rule := "circular-import", file := showPath file, pos := l.pos }] } st
        else if st.imported.contains p then doLoads cfg fs rec stack file spelled ls res st
        else
          match rec stack p c.path { st with imported := st.imported ++ [p] } with
          | .error a => .error a
          | .ok (r, st) =>
            doLoads cfg fs rec stack file spelled ls
              { units := res.units ++ r.units, refs := res.refs ++ r.refs, errors := res.errors ++ r.errors } st
      else
        match fs.get p with
        | some (.ext defs) =>
          match registerAll st.reg (extRegs (showPath p) defs) with
          | .error s => .error (.raised "TypeResolvingException" s.file s.pos)
          | .ok reg => doLoads cfg fs rec stack file spelled ls res { st with reg := reg }
        | some (.notText pos) =>
          doLoads cfg fs rec stack file spelled ls
            { res with errors := res.errors ++ [{ cls := "InputParsingException", rule := "extern-not-utf8", file := showPath p, pos := pos }] } st
        | _ =>
          doLoads cfg fs rec stack file spelled ls
            { res with errors := res.errors ++ [{ cls := "InputParsingException", rule := "bad-extern", file := showPath p, pos := default }] } st

/-- own content of a file after its loads: registration, deferred resolution of the file's own
    references, post-checks of the file's own declarations (imported ones were resolved and checked
    by their own nested parser) -/
def finishFile (cfg : Cfg) (file : APath) (contents : List Content) (res : PResult) (st : PState) :
    Except Abort (PResult × PState) :=
  let env : Env := { file := showPath file, keys := cfg.keys, defaultDeriving := cfg.defaultDeriving }
  let c := walkContents env [] contents
  match registerAll st.reg c.regs with
  | .error s => .error (.raised "TypeResolvingException" s.file s.pos)
  | .ok reg =>
    match resolveLoop reg (st.resolved, []) c.refs with
    | .error site => .error (.crash site)
    | .ok (resolved, rdiags) =>
      match checkUnits resolved c.units with
      | .error site => .error (.crash site)
      | .ok cdiags =>
        .ok ({ units := res.units ++ c.units, refs := res.refs ++ c.refs, errors := res.errors ++ c.diags ++ rdiags ++ cdiags },
             { st with reg := reg, resolved := resolved })

/-- one `Parser(idl=file).parse()` -/
def parseOne (cfg : Cfg) (fs : FS) : Nat → ParseFn
  | 0, _, _, _, _ => .error .outOfFuel
  | fuel+1, stack, file, spelled, st =>
    match fs.get file with
    | some (.idl text) =>
      match lex text with
      | none => .error (.syntax (showPath file))
      | some toks =>
        match parseFile toks with
        | none => .error (.syntax (showPath file))
        | some ⟨loads, contents⟩ =>
          match doLoads cfg fs (parseOne cfg fs fuel) (stack ++ [file]) file spelled loads {} st with
          | .error a => .error a
          | .ok (res, st) => finishFile cfg file contents res st
    | some (.notText pos) =>
      .ok ({ errors := [{ cls := "ParsingException", rule := "not-utf8", file := showPath file, pos := pos }] }, st)
    | _ => .error (.fileNotFound (showPath file))

inductive Outcome
  | ok
  | diags (ds : List Diag)
  | abort (a : Abort)
deriving Repr, Inhabited

/-- `ConfiguredContext.parse(root)` with the built-in types pre-registered -/
def front (cfg : Cfg) (fs : FS) (builtins : Registry) (root : APath) : Outcome :=
  match parseOne cfg fs (fs.files.length + 2) [] (normPath root) root { reg := builtins } with
  | .error a => .abort a
  | .ok (r, _) => if r.errors.isEmpty then .ok else .diags r.errors

end Pydjinni.Front

namespace Pydjinni.Front

/-- `front` together with the bindings of all resolved references (for C04) and the final registry -/
def frontWithBindings (cfg : Cfg) (fs : FS) (builtins : Registry) (root : APath) : Outcome × Resolved × Registry × List APath :=
  match parseOne cfg fs (fs.files.length + 2) [] (normPath root) root { reg := builtins } with
  | .error a => (.abort a, [], [], [])
  | .ok (r, st) => (if r.errors.isEmpty then .ok else .diags r.errors, st.resolved, st.reg.drop builtins.length, st.imported)

end Pydjinni.Front
