import PydjinniModel.Front.Sem
/-!
Declarative specification of the language rules (C05) and of name resolution (C04), written
rule by rule over the syntactic AST and independent of the visitor's traversal, the registry
bookkeeping and the resolution loop of `Sem.lean`/`Imports.lean`.

A *program* is the list of its files' contents (root file and everything reachable by
`@import`), each declaration visible everywhere (dependency-closed partitions).
-/
namespace Pydjinni.Front

/-- all namespace prefixes of `ns`, longest first, ending with the root -/
def prefixesLongestFirst : List String → List (List String)
  | [] => [[]]
  | n :: nsRev => (n :: nsRev).reverse :: prefixesLongestFirst nsRev

/-- lexical scoping: innermost enclosing namespace outwards; a leading dot searches the root only -/
def lexicalLookup (r : Registry) (ns : List String) (name : String) : Option Def :=
  if name.startsWith "." then r.get (name.drop 1).toString
  else (prefixesLongestFirst ns.reverse).findSome? (fun p => r.get (regKey p name))

/-! ### enumeration of a program's constructs -/

mutual
def declsOfContent (ns : List String) : Content → List (List String × Decl)
  | .decl d => [(ns, d)]
  | .ns name _ children _ => declsOfContents (ns ++ name.splitOn ".") children
def declsOfContents (ns : List String) : List Content → List (List String × Decl)
  | [] => []
  | c :: cs => declsOfContent ns c ++ declsOfContents ns cs
end

mutual
/-- every `dataType` node below (and including) a type reference, at any depth -/
def dataNodesT : TypeRef → List TypeRef
  | t@(.data _ args _ _) => t :: dataNodesTs args
  | .fn sig _ => dataNodesF sig
def dataNodesTs : List TypeRef → List TypeRef
  | [] => []
  | t :: ts => dataNodesT t ++ dataNodesTs ts
def dataNodesF : FnSig → List TypeRef
  | .mk _ _ params thr ret => dataNodesPs params ++ dataNodesOTs thr ++ dataNodesOT ret
def dataNodesPs : List Param → List TypeRef
  | [] => []
  | .mk _ t _ :: ps => dataNodesT t ++ dataNodesPs ps
def dataNodesOT : Option TypeRef → List TypeRef
  | none => []
  | some t => dataNodesT t
def dataNodesOTs : Option (List TypeRef) → List TypeRef
  | none => []
  | some ts => dataNodesTs ts
end

mutual
/-- every function signature below a type reference: inline function types at any depth -/
def fnNodesT : TypeRef → List FnSig
  | .data _ args _ _ => fnNodesTs args
  | .fn sig _ => sig :: fnNodesF sig
def fnNodesTs : List TypeRef → List FnSig
  | [] => []
  | t :: ts => fnNodesT t ++ fnNodesTs ts
def fnNodesF : FnSig → List FnSig
  | .mk _ _ params thr ret => fnNodesPs params ++ fnNodesOTs thr ++ fnNodesOT ret
def fnNodesPs : List Param → List FnSig
  | [] => []
  | .mk _ t _ :: ps => fnNodesT t ++ fnNodesPs ps
def fnNodesOT : Option TypeRef → List FnSig
  | none => []
  | some t => fnNodesT t
def fnNodesOTs : Option (List TypeRef) → List FnSig
  | none => []
  | some ts => fnNodesTs ts
end

/-- the type references written directly in a declaration (fields, parameters, returns, throws, properties) -/
def topTypes : Decl → List TypeRef
  | .enum .. => []
  | .flags .. => []
  | .record _ _ _ _ fields _ _ => fields.map (·.ty)
  | .interface _ _ _ _ _ methods props _ =>
    methods.flatMap (fun m => m.params.map paramType ++ m.ret.toList ++ (m.throwing.getD [])) ++ props.map (·.ty)
  | .function _ _ (.mk _ _ params thr ret) _ => params.map paramType ++ (thr.getD []) ++ ret.toList
  | .error _ _ codes _ => codes.flatMap (fun c => c.params.map paramType)

def sigOfFn : FnSig → SigU
  | .mk _ _ params thr ret => { params := params.map paramType, ret := ret, throwing := thr }

/-- every signature that the rules on parameters / returns / throws apply to: methods, named
    functions, and inline function types at any depth (error-code parameter lists are not signatures) -/
def sigsOf : Decl → List SigU
  | .interface _ _ _ _ _ methods props _ =>
    methods.map sigOfMethod ++ ((methods.flatMap (fun m => m.params.map paramType ++ m.ret.toList ++ (m.throwing.getD [])) ++ props.map (·.ty)).flatMap fnNodesT).map sigOfFn
  | .function _ _ sig _ => sigOfFn sig :: (fnNodesF sig).map sigOfFn
  | d => ((topTypes d).flatMap fnNodesT).map sigOfFn

def fnFlagsOf : Decl → List (List String × Pos)
  | .function _ _ sig _ =>
    ((sig :: fnNodesF sig).filterMap (fun | .mk (some f) p _ _ _ => some (f, p) | _ => none))
  | d => (((topTypes d).flatMap fnNodesT).filterMap (fun | .mk (some f) p _ _ _ => some (f, p) | _ => none))

/-! ### the rules -/

structure SpecEnv where
  keys : List String
  defaultDeriving : List String
  reg : Registry                 -- built-ins, external types and every declaration of the program

def specPrim (e : SpecEnv) (ns : List String) : TypeRef → Option Prim
  | .data name _ _ _ => (lexicalLookup e.reg ns name).map (·.prim)
  | .fn .. => some .function

def mk (cls rule file : String) (pos : Pos) : Diag := { cls := cls, rule := rule, file := file, pos := pos }

def unknownTargets (e : SpecEnv) (file : String) (flags : List String) (pos : Pos) : List Diag :=
  ((evalTargets e.keys flags).filter (fun t => !e.keys.contains t)).map (fun _ => mk "ParsingException" "unknown-target" file pos)

/-- rules about one data reference: it must resolve, and generic arguments must match the arity -/
def refRule (e : SpecEnv) (file : String) (ns : List String) : TypeRef → List Diag
  | .data name args _ pos =>
    match lexicalLookup e.reg ns name with
    | none => [mk "TypeResolvingException" "unknown-type" file pos]
    | some d =>
      if args.length > 0 && d.arity == 0 then [mk "ParsingException" "no-generics" file pos]
      else if args.length > 0 && d.arity != args.length then [mk "ParsingException" "generic-arity" file pos]
      else []
  | .fn .. => []

def sigRules (e : SpecEnv) (file : String) (ns : List String) (s : SigU) : List Diag :=
  (s.params.filter (fun t => specPrim e ns t == some .error)).map (fun t => mk "ParsingException" "param-error" file (posOf t))
  ++ (match s.ret with
      | some t => if specPrim e ns t == some .error then [mk "ParsingException" "return-error" file (posOf t)] else []
      | none => [])
  ++ ((s.throwing.getD []).filter (fun t => match specPrim e ns t with | some p => p != .error | none => false)).map
      (fun t => mk "ParsingException" "throws-non-error" file (posOf t))

def declRules (e : SpecEnv) (file : String) (ns : List String) (d : Decl) : List Diag :=
  -- every data reference at any depth
  ((topTypes d).flatMap dataNodesT).flatMap (refRule e file ns)
  -- every signature at any depth
  ++ (sigsOf d).flatMap (sigRules e file ns)
  -- targets of inline / named `function` types
  ++ (fnFlagsOf d).flatMap (fun (f, p) => unknownTargets e file f p)
  ++ (match d with
      | .flags _ _ items _ =>
        (items.filter (fun i => match i.modifier with | some m => !(m == "all" || m == "none") | none => false)).map
          (fun i => mk "ParsingException" "flag-modifier" file i.modifierPos)
      | .record _ _ flags fpos fields der _ =>
        let ord := ((match der with | some l => l.map Prod.fst | none => []) ++ e.defaultDeriving).contains "ord"
        unknownTargets e file flags fpos
        ++ ((der.getD []).filter (fun x => !(x.1 == "eq" || x.1 == "ord"))).map (fun x => mk "ParsingException" "deriving" file x.2)
        ++ (fields.filter (fun f => isFn f.ty)).map (fun f => mk "ParsingException" "fn-field" file (posOf f.ty))
        ++ (fields.filter (fun f => specPrim e ns f.ty == some .error)).map (fun f => mk "ParsingException" "field-error" file (posOf f.ty))
        ++ (fields.filter (fun f => specPrim e ns f.ty == some .interface)).map (fun f => mk "ParsingException" "field-interface" file (posOf f.ty))
        ++ (if ord then (fields.filter (fun f => specPrim e ns f.ty == some .collection)).map (fun f => mk "ParsingException" "ord-collection" file f.pos) else [])
      | .interface _ _ main flags fpos methods _ pos =>
        let cppOnly := targetsOrAll e.keys flags == ["cpp"]
        unknownTargets e file flags fpos
        ++ (if main && !cppOnly then [mk "ParsingException" "main-cpp" file pos] else [])
        ++ (methods.filter (fun m => m.isStatic && m.isConst)).map (fun m => mk "ParsingException" "static-const" file m.pos)
        ++ (if cppOnly then [] else (methods.filter (·.isStatic)).map (fun m => mk "ParsingException" "static-cpp" file m.pos))
      | _ => [])

def declKey (ns : List String) : Decl → String
  | .enum n .. => regKey ns n | .flags n .. => regKey ns n | .record n .. => regKey ns n
  | .interface n .. => regKey ns n | .function n .. => regKey ns n | .error n .. => regKey ns n

def declPrim : Decl → Prim
  | .enum .. => .enum | .flags .. => .flags | .record .. => .record
  | .interface .. => .interface | .function .. => .function | .error .. => .error

def declPos : Decl → Pos
  | .enum _ _ _ p => p | .flags _ _ _ p => p | .record _ _ _ _ _ _ p => p
  | .interface _ _ _ _ _ _ _ p => p | .function _ _ _ p => p | .error _ _ _ p => p

structure ProgFile where
  file : String
  contents : List Content

def progDecls (p : List ProgFile) : List (String × List String × Decl) :=
  p.flatMap (fun f => (declsOfContents [] f.contents).map (fun (ns, d) => (f.file, ns, d)))

/-- the registry the rules are read against -/
def progRegistry (pre : Registry) (p : List ProgFile) : Registry :=
  pre ++ (progDecls p).map (fun (_, ns, d) => { key := declKey ns d, prim := declPrim d, arity := 0 })

/-- positions of declarations whose qualified name is also the name of another declaration of the
    program, of a built-in or of an external type: the program must be rejected as a duplicate at
    one of them (which one is met first depends on the order files are loaded in) -/
def duplicateSites (pre : Registry) (p : List ProgFile) : List (String × Pos) :=
  let ds := progDecls p
  (ds.zipIdx.filter (fun ((_, ns, d), i) =>
      (pre.get (declKey ns d)).isSome
      || (ds.zipIdx.any (fun ((_, ns', d'), j) => i != j && declKey ns' d' == declKey ns d)))).map
    (fun ((f, _, d), _) => (f, declPos d))

/-- all rule violations of a program -/
def violations (keys dd : List String) (pre : Registry) (p : List ProgFile) : List Diag :=
  let e : SpecEnv := { keys := keys, defaultDeriving := dd, reg := progRegistry pre p }
  (progDecls p).flatMap (fun (f, ns, d) => declRules e f ns d)

/-! ### programs of several files

An imported file is a unit of its own: it is finished (its names registered, its references bound, its rules
checked) before the file that imports it goes on, so it is read against the declarations of the files finished no
later than itself — never against declarations that only the importing file adds afterwards. `p` lists the files in
the order they are finished (imports before the importer, in textual order). For one file, and whenever no file
refers to (or is shadowed by) a name that is declared only later, this is `violations`. -/

/-- the registry file number `i` (in finish order) is read against -/
def regUpTo (pre : Registry) (p : List ProgFile) (i : Nat) : Registry := progRegistry pre (p.take (i + 1))

def violationsFrom (keys dd : List String) (pre : Registry) (p : List ProgFile) : Nat → List ProgFile → List Diag
  | _, [] => []
  | i, f :: rest =>
    (progDecls [f]).flatMap (fun (fl, ns, d) => declRules { keys := keys, defaultDeriving := dd, reg := regUpTo pre p i } fl ns d)
      ++ violationsFrom keys dd pre p (i + 1) rest

/-- all rule violations of a program whose files are listed in finish order -/
def violationsOrdered (keys dd : List String) (pre : Registry) (p : List ProgFile) : List Diag :=
  violationsFrom keys dd pre p 0 p

end Pydjinni.Front
